import LalrpopModel.Model.Lex
/-!
Helper lemmas and specification vocabulary for M-LEX (`Model/Lex.lean`), used by Props/C09 and
Props/C08Lex: the longest-match characterisation of `scan`, the declarative one-call
specification `NextSpec`, the declarative stream specification `Lexes`, span well-formedness.
-/
namespace LalrpopModel.Lex
variable {α : Type}

/-- `L` is the length of the longest prefix of `text` matched by some pattern -/
def IsLongest (o : Oracle α) (text : List α) (L : Nat) : Prop :=
  L ≤ text.length ∧ o.isMatch (text.take L) = true ∧
    ∀ k, k ≤ text.length → o.isMatch (text.take k) = true → k ≤ L

/-- no prefix of `text` (the empty one included) is matched by any pattern -/
def NoMatch (o : Oracle α) (text : List α) : Prop :=
  ∀ k, k ≤ text.length → o.isMatch (text.take k) = false

/-- what the lexer relies on for `is_dead()`: once the DFA is dead no longer prefix matches -/
def DeadSound (o : Oracle α) : Prop :=
  ∀ (text : List α) (i : Nat), i < text.length → o.dead (text.take (i + 1)) = true →
    ∀ k, i < k → k ≤ text.length → o.isMatch (text.take k) = false

theorem scan_inv (o : Oracle α) (hd : DeadSound o) (text : List α) (i : Nat) (best : Option Nat)
    (hi : i ≤ text.length)
    (hnone : best = none → ∀ k, k < i → o.isMatch (text.take k) = false)
    (hsome : ∀ b, best = some b → b < i ∧ o.isMatch (text.take b) = true ∧
        ∀ k, k < i → o.isMatch (text.take k) = true → k ≤ b) :
    (scan o text i best = none → NoMatch o text) ∧
    (∀ L, scan o text i best = some L → IsLongest o text L) := by
  fun_induction scan o text i best with
  | case1 i best hlt hm ih =>
    apply ih (by omega)
    · intro h; cases h
    · intro b hb
      cases hb
      refine ⟨by omega, hm, ?_⟩
      intro k hk _; omega
  | case2 i best hlt hm hdead =>
    have hm' : o.isMatch (text.take i) = false := by simpa using hm
    have hlater := hd text i hlt hdead
    constructor
    · intro hb k hk
      by_cases h1 : k < i
      · exact hnone hb k h1
      · by_cases h2 : k = i
        · subst h2; exact hm'
        · exact hlater k (by omega) hk
    · intro L hb
      obtain ⟨h1, h2, h3⟩ := hsome L hb
      refine ⟨by omega, h2, ?_⟩
      intro k hk hmk
      by_cases h4 : k < i
      · exact h3 k h4 hmk
      · by_cases h5 : k = i
        · subst h5; simp [hm'] at hmk
        · have := hlater k (by omega) hk; simp [this] at hmk
  | case3 i best hlt hm hdead ih =>
    have hm' : o.isMatch (text.take i) = false := by simpa using hm
    apply ih (by omega)
    · intro hb k hk
      by_cases h1 : k < i
      · exact hnone hb k h1
      · have : k = i := by omega
        subst this; exact hm'
    · intro b hb
      obtain ⟨h1, h2, h3⟩ := hsome b hb
      refine ⟨by omega, h2, ?_⟩
      intro k hk hmk
      by_cases h4 : k < i
      · exact h3 k h4 hmk
      · have : k = i := by omega
        subst this; simp [hm'] at hmk
  | case4 i best hge hm =>
    have hi' : i = text.length := by omega
    constructor
    · intro h; cases h
    · intro L hL
      cases hL
      refine ⟨hi, hm, ?_⟩
      intro k hk _; omega
  | case5 i best hge hm =>
    have hi' : i = text.length := by omega
    have hm' : o.isMatch (text.take i) = false := by simpa using hm
    constructor
    · intro hb k hk
      by_cases h1 : k < i
      · exact hnone hb k h1
      · have : k = i := by omega
        subst this; exact hm'
    · intro L hb
      obtain ⟨h1, h2, h3⟩ := hsome L hb
      refine ⟨by omega, h2, ?_⟩
      intro k hk hmk
      by_cases h4 : k < i
      · exact h3 k h4 hmk
      · have : k = i := by omega
        subst this; simp [hm'] at hmk

theorem scan_spec (o : Oracle α) (hd : DeadSound o) (text : List α) :
    (scan o text 0 none = none → NoMatch o text) ∧
    (∀ L, scan o text 0 none = some L → IsLongest o text L) :=
  scan_inv o hd text 0 none (Nat.zero_le _) (by intro _ k hk; omega) (by intro b hb; cases hb)

theorem IsLongest.unique {o : Oracle α} {text : List α} {L L' : Nat}
    (h : IsLongest o text L) (h' : IsLongest o text L') : L = L' := by
  have := h.2.2 L' h'.1 h'.2.1
  have := h'.2.2 L h.1 h.2.1
  omega

theorem scan_eq_some (o : Oracle α) (hd : DeadSound o) (text : List α) (L : Nat)
    (h : IsLongest o text L) : scan o text 0 none = some L := by
  cases hs : scan o text 0 none with
  | none =>
    have := (scan_spec o hd text).1 hs L h.1
    have h2 := h.2.1
    rw [this] at h2
    cases h2
  | some L' =>
    have := (scan_spec o hd text).2 L' hs
    rw [this.unique h]

theorem scan_eq_none (o : Oracle α) (hd : DeadSound o) (text : List α)
    (h : NoMatch o text) : scan o text 0 none = none := by
  cases hs : scan o text 0 none with
  | none => rfl
  | some L =>
    have := (scan_spec o hd text).2 L hs
    have h2 := h L this.1
    rw [this.2.1] at h2
    cases h2

/-! ### One call of `next`: declarative specification -/

/-- the pattern index reported for a match of length `L`: the greatest index in the match set -/
def winner (o : Oracle α) (text : List α) (L : Nat) : Nat := maxIdx (o.matchSet (text.take L))

/-- Declarative reading of the documented behaviour of one `next` call from state `st`. -/
inductive NextSpec (o : Oracle α) (skip : List Bool) : St α → Item α × St α → Prop where
  /-- end of input: `None` -/
  | eof (st) : st.text = [] → NextSpec o skip st (.eof, st)
  /-- nothing matches here: `InvalidToken` at the current offset -/
  | nothing (st) : st.text ≠ [] → NoMatch o st.text → NextSpec o skip st (.invalid st.consumed, st)
  /-- only the empty string matches here (the fix): `InvalidToken` at the current offset -/
  | empty (st) : st.text ≠ [] → IsLongest o st.text 0 →
      NextSpec o skip st (.invalid st.consumed, st.advance 0)
  /-- the longest match belongs to a skip pattern: nothing is yielded for it -/
  | skip (st) (L) (r) : st.text ≠ [] → IsLongest o st.text L → 0 < L →
      skip[winner o st.text L]? = some true → NextSpec o skip (st.advance L) r → NextSpec o skip st r
  /-- the longest match belongs to a terminal: token with byte-offset span -/
  | tok (st) (L) : st.text ≠ [] → IsLongest o st.text L → 0 < L →
      skip[winner o st.text L]? = some false →
      NextSpec o skip st
        (.tok st.consumed (winner o st.text L) (st.text.take L) (st.consumed + L), st.advance L)
  /-- (unreachable when every index in a match set is < skip.length) -/
  | oob (st) (L) : st.text ≠ [] → IsLongest o st.text L → 0 < L →
      skip[winner o st.text L]? = none → NextSpec o skip st (.panic, st.advance L)

theorem isEmpty_false_ne {l : List α} (h : ¬ l.isEmpty = true) : l ≠ [] := by
  intro h'; subst h'; simp at h

/-- the model of `Matcher::next` satisfies the declarative specification -/
theorem next_meets_spec (o : Oracle α) (hd : DeadSound o) (skip : List Bool) (st : St α) :
    NextSpec o skip st (next o skip st) := by
  fun_induction next o skip st with
  | case1 st h => exact .eof st (by simpa [List.isEmpty_iff] using h)
  | case2 st h hs =>
    exact .nothing st (isEmpty_false_ne h) ((scan_spec o hd st.text).1 hs)
  | case3 st h hs st' =>
    exact .empty st (isEmpty_false_ne h) ((scan_spec o hd st.text).2 0 hs)
  | case4 st h len hs index st' hlen hsk =>
    exact .oob st len (isEmpty_false_ne h) ((scan_spec o hd st.text).2 len hs) (by omega) hsk
  | case5 st h len hs index st' hlen hsk ih =>
    exact .skip st len _ (isEmpty_false_ne h) ((scan_spec o hd st.text).2 len hs) (by omega) hsk ih
  | case6 st h len hs index st' hlen hsk =>
    exact .tok st len (isEmpty_false_ne h) ((scan_spec o hd st.text).2 len hs) (by omega) hsk

/-- the specification determines the result: `next` is the only function meeting it -/
theorem next_spec_unique (o : Oracle α) (hd : DeadSound o) (skip : List Bool) (st : St α)
    (r : Item α × St α) (h : NextSpec o skip st r) : r = next o skip st := by
  induction h with
  | eof st h => unfold next; simp [h]
  | nothing st h hn =>
    unfold next
    have : st.text.isEmpty = false := by simpa [List.isEmpty_iff] using h
    simp [this, scan_eq_none o hd _ hn]
  | empty st h hl =>
    unfold next
    have : st.text.isEmpty = false := by simpa [List.isEmpty_iff] using h
    simp [this, scan_eq_some o hd _ _ hl]
  | skip st L r h hl hpos hsk _ ih =>
    rw [ih]
    conv => rhs; unfold next
    have : st.text.isEmpty = false := by simpa [List.isEmpty_iff] using h
    have hL : L ≠ 0 := by omega
    simp only [winner] at hsk
    simp [this, scan_eq_some o hd _ _ hl, hL, hsk]
  | tok st L h hl hpos hsk =>
    unfold next
    have : st.text.isEmpty = false := by simpa [List.isEmpty_iff] using h
    have hL : L ≠ 0 := by omega
    simp only [winner] at hsk
    simp [this, scan_eq_some o hd _ _ hl, hL, hsk, winner]
  | oob st L h hl hpos hsk =>
    unfold next
    have : st.text.isEmpty = false := by simpa [List.isEmpty_iff] using h
    have hL : L ≠ 0 := by omega
    simp only [winner] at hsk
    simp [this, scan_eq_some o hd _ _ hl, hL, hsk]

theorem NextSpec.tok_inv {o : Oracle α} {skip : List Bool} {st : St α} {r : Item α × St α}
    (hspec : NextSpec o skip st r) :
    ∀ {s i e : Nat} {t : List α} {st' : St α}, r = (.tok s i t e, st') →
    ∃ k, s = st.consumed + k ∧ k ≤ st.text.length ∧
      IsLongest o (st.text.drop k) (e - s) ∧ s < e ∧
      t = (st.text.drop k).take (e - s) ∧
      i = maxIdx (o.matchSet t) ∧ skip[i]? = some false ∧
      st' = ⟨(st.text.drop k).drop (e - s), e⟩ := by
  induction hspec with
  | eof st h => intro s i e t st' hr; cases hr
  | nothing st h hn => intro s i e t st' hr; cases hr
  | empty st h hl => intro s i e t st' hr; cases hr
  | oob st L h hl hpos hsk => intro s i e t st' hr; cases hr
  | tok st L h hl hpos hsk =>
    intro s i e t st' hr
    cases hr
    refine ⟨0, by simp, by simp, ?_, by omega, ?_, ?_, ?_, ?_⟩
    · simpa using hl
    · simp
    · simp [winner]
    · simpa [winner] using hsk
    · simp [St.advance]
  | skip st L r h hl hpos hsk _ ih =>
    intro s i e t st' hr
    obtain ⟨k, h1, h2, h3, h4, h5, h6, h7, h8⟩ := ih hr
    simp only [St.advance, List.length_drop, List.drop_drop] at h1 h2 h3 h5 h8
    have hL := hl.1
    refine ⟨L + k, by omega, by omega, ?_, h4, ?_, h6, h7, ?_⟩
    · simpa [Nat.add_comm] using h3
    · simpa [Nat.add_comm] using h5
    · simpa [Nat.add_comm] using h8

theorem NextSpec.invalid_inv {o : Oracle α} {skip : List Bool} {st : St α} {r : Item α × St α}
    (hspec : NextSpec o skip st r) :
    ∀ {loc : Nat} {st' : St α}, r = (.invalid loc, st') →
    ∃ k, loc = st.consumed + k ∧ k < st.text.length ∧
      (NoMatch o (st.text.drop k) ∨ IsLongest o (st.text.drop k) 0) := by
  induction hspec with
  | eof st h => intro loc st' hr; cases hr
  | tok st L h hl hpos hsk => intro loc st' hr; cases hr
  | oob st L h hl hpos hsk => intro loc st' hr; cases hr
  | nothing st h hn =>
    intro loc st' hr
    cases hr
    exact ⟨0, by simp, List.length_pos_iff.mpr h, by simpa using Or.inl hn⟩
  | empty st h hl =>
    intro loc st' hr
    cases hr
    exact ⟨0, by simp, List.length_pos_iff.mpr h, by simpa using Or.inr hl⟩
  | skip st L r h hl hpos hsk _ ih =>
    intro loc st' hr
    obtain ⟨k, h1, h2, h3⟩ := ih hr
    simp only [St.advance, List.length_drop, List.drop_drop] at h1 h2 h3
    refine ⟨L + k, by omega, by omega, ?_⟩
    simpa [Nat.add_comm] using h3

theorem tokens_tok (o : Oracle α) (skip : List Bool) (st : St α) {s i e : Nat} {t : List α}
    {st' : St α} (h : next o skip st = (.tok s i t e, st')) :
    tokens o skip st = .tok s i t e :: tokens o skip st' := by
  rw [tokens.eq_1]
  split
  · rename_i heq; rw [h] at heq; cases heq; rfl
  · rename_i heq; rw [h] at heq; cases heq
  · rename_i h1 _ heq; rw [h] at heq; cases heq; exact absurd rfl (h1 _ _ _ _)

theorem tokens_eof (o : Oracle α) (skip : List Bool) (st : St α) {st' : St α}
    (h : next o skip st = (.eof, st')) : tokens o skip st = [] := by
  rw [tokens.eq_1]
  split
  · rename_i heq; rw [h] at heq; cases heq
  · rfl
  · rename_i _ h2 heq; rw [h] at heq; cases heq; exact absurd rfl h2

theorem tokens_other (o : Oracle α) (skip : List Bool) (st : St α) {it : Item α} {st' : St α}
    (h : next o skip st = (it, st')) (h1 : ∀ s i t e, it ≠ .tok s i t e) (h2 : it ≠ .eof) :
    tokens o skip st = [it] := by
  rw [tokens.eq_1]
  split
  · rename_i heq; rw [h] at heq; cases heq; exact absurd rfl (h1 _ _ _ _)
  · rename_i heq; rw [h] at heq; cases heq; exact absurd rfl h2
  · rename_i heq; rw [h] at heq; cases heq; rfl

/-- Declarative specification of the whole stream (what the documentation promises): starting
at `st`, repeatedly take the longest match; skip matches vanish, terminal matches become tokens
with byte-offset spans, the stream ends at end of input or with `InvalidToken` at the first
position where no non-empty prefix matches. -/
inductive Lexes (o : Oracle α) (skip : List Bool) : St α → List (Item α) → Prop where
  | done (st) : st.text = [] → Lexes o skip st []
  | bad (st) : st.text ≠ [] → (NoMatch o st.text ∨ IsLongest o st.text 0) →
      Lexes o skip st [.invalid st.consumed]
  | skip (st) (L) (items) : st.text ≠ [] → IsLongest o st.text L → 0 < L →
      skip[winner o st.text L]? = some true → Lexes o skip (st.advance L) items →
      Lexes o skip st items
  | tok (st) (L) (items) : st.text ≠ [] → IsLongest o st.text L → 0 < L →
      skip[winner o st.text L]? = some false → Lexes o skip (st.advance L) items →
      Lexes o skip st
        (.tok st.consumed (winner o st.text L) (st.text.take L) (st.consumed + L) :: items)
  | oob (st) (L) : st.text ≠ [] → IsLongest o st.text L → 0 < L →
      skip[winner o st.text L]? = none → Lexes o skip st [.panic]

/-- Spans over the original `input`: every token's span lies at or after the previous token's
end, is non-empty and inside the input, and the token text is exactly the slice
`input[start..stop]`; an `InvalidToken` location is a position inside the input. -/
def SpansOk (input : List α) : Nat → List (Item α) → Prop
  | _, [] => True
  | pos, .tok s _ t e :: rest =>
      pos ≤ s ∧ s < e ∧ e ≤ input.length ∧ t = (input.drop s).take (e - s) ∧ SpansOk input e rest
  | pos, .invalid loc :: rest => pos ≤ loc ∧ loc < input.length ∧ rest = []
  | _, .eof :: _ => False
  | _, .panic :: rest => rest = []

theorem SpansOk.mono {input : List α} {p q : Nat} {items : List (Item α)} (hpq : q ≤ p)
    (h : SpansOk input p items) : SpansOk input q items := by
  cases items with
  | nil => trivial
  | cons it rest =>
    cases it with
    | tok s i t e => exact ⟨by have := h.1; omega, h.2⟩
    | invalid loc => exact ⟨by have := h.1; omega, h.2⟩
    | eof => exact h
    | panic => exact h

theorem Lexes.spans {o : Oracle α} {skip : List Bool} {st : St α} {items : List (Item α)}
    (h : Lexes o skip st items) (input : List α) (hst : st.text = input.drop st.consumed) :
    SpansOk input st.consumed items := by
  induction h with
  | done st h => trivial
  | bad st h hb =>
    have : 0 < st.text.length := List.length_pos_iff.mpr h
    rw [hst, List.length_drop] at this
    exact ⟨Nat.le_refl _, by omega, rfl⟩
  | oob st L h hl hpos hsk => rfl
  | skip st L items h hl hpos hsk _ ih =>
    have := ih (by simp [St.advance, hst, List.drop_drop])
    exact this.mono (by simp [St.advance])
  | tok st L items h hl hpos hsk _ ih =>
    have hL := hl.1
    rw [hst, List.length_drop] at hL
    have := ih (by simp [St.advance, hst, List.drop_drop])
    refine ⟨Nat.le_refl _, by omega, by omega, ?_, this⟩
    rw [hst]; congr 1; omega

theorem Lexes.count {o : Oracle α} {skip : List Bool} {st : St α} {items : List (Item α)}
    (h : Lexes o skip st items) :
    (items.filter Item.isTok).length ≤ st.text.length ∧ items.length ≤ st.text.length + 1 := by
  induction h with
  | done st h => simp
  | bad st h hb => simp [Item.isTok]
  | oob st L h hl hpos hsk => simp [Item.isTok]
  | skip st L items h hl hpos hsk _ ih =>
    simp only [St.advance, List.length_drop] at ih
    omega
  | tok st L items h hl hpos hsk _ ih =>
    have hL := hl.1
    simp only [St.advance, List.length_drop] at ih
    simp only [List.filter_cons, Item.isTok, if_true, List.length_cons]
    omega


end LalrpopModel.Lex
