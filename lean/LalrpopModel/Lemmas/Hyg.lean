import LalrpopModel.Model.Hyg
/-! Lemmas about substring search and the prefix loop. -/
namespace LalrpopModel.Hyg

theorem isPrefix_iff (p s : List Char) : isPrefix p s = true ↔ ∃ t, s = p ++ t := by
  induction p generalizing s with
  | nil => simp [isPrefix]
  | cons a as ih =>
    cases s with
    | nil => simp [isPrefix]
    | cons b bs =>
      simp only [isPrefix, Bool.and_eq_true, beq_iff_eq, ih, List.cons_append, List.cons.injEq]
      constructor
      · rintro ⟨rfl, t, rfl⟩; exact ⟨t, rfl, rfl⟩
      · rintro ⟨t, rfl, rfl⟩; exact ⟨rfl, t, rfl⟩

theorem contains_iff (s p : List Char) : contains s p = true ↔ ∃ a b, s = a ++ p ++ b := by
  induction s with
  | nil =>
    simp only [contains, isPrefix_iff]
    constructor
    · rintro ⟨t, h⟩
      have : p = [] := by
        cases p with
        | nil => rfl
        | cons x xs => simp at h
      subst this; exact ⟨[], [], rfl⟩
    · rintro ⟨a, b, h⟩
      have h' : a ++ p ++ b = [] := h.symm
      simp at h'
      obtain ⟨_, rfl, _⟩ := h'
      exact ⟨[], rfl⟩
  | cons c cs ih =>
    simp only [contains, Bool.or_eq_true, isPrefix_iff, ih]
    constructor
    · rintro (⟨t, h⟩ | ⟨a, b, h⟩)
      · exact ⟨[], t, by simpa using h⟩
      · exact ⟨c :: a, b, by simp [h]⟩
    · rintro ⟨a, b, h⟩
      cases a with
      | nil => left; exact ⟨b, by simpa using h⟩
      | cons x xs =>
        right
        simp only [List.cons_append, List.cons.injEq] at h
        exact ⟨xs, b, h.2⟩

theorem contains_length (s p : List Char) (h : contains s p = true) : p.length ≤ s.length := by
  obtain ⟨a, b, rfl⟩ := (contains_iff s p).1 h
  simp; omega

/-- substring-of is transitive -/
theorem contains_trans (s t p : List Char) (h1 : contains s t = true) (h2 : contains t p = true) :
    contains s p = true := by
  obtain ⟨a, b, rfl⟩ := (contains_iff s t).1 h1
  obtain ⟨c, d, rfl⟩ := (contains_iff t p).1 h2
  exact (contains_iff _ _).2 ⟨a ++ c, d ++ b, by simp [List.append_assoc]⟩

theorem contains_append_left (p s : List Char) : contains (p ++ s) p = true :=
  (contains_iff _ _).2 ⟨[], s, by simp⟩

theorem growPrefix_fresh (fuel : Nat) (input p : List Char) (h : input.length < fuel + p.length) :
    contains input (growPrefix fuel input p) = false := by
  induction fuel generalizing p with
  | zero =>
    simp only [growPrefix]
    cases hc : contains input p with
    | false => rfl
    | true => have := contains_length input p hc; omega
  | succ fuel ih =>
    simp only [growPrefix]
    split
    · exact ih (p ++ ['_']) (by simp; omega)
    · rename_i hc; simpa using hc

theorem growPrefix_shape (fuel : Nat) (input p : List Char) :
    ∃ k, growPrefix fuel input p = p ++ List.replicate k '_' := by
  induction fuel generalizing p with
  | zero => exact ⟨0, by simp [growPrefix]⟩
  | succ fuel ih =>
    simp only [growPrefix]
    split
    · obtain ⟨k, hk⟩ := ih (p ++ ['_'])
      exact ⟨k + 1, by rw [hk]; simp [List.replicate_succ]⟩
    · exact ⟨0, by simp⟩

end LalrpopModel.Hyg
