import LalrpopModel.Lemmas.TokNext
/-! Step lemmas for the fixed-text tokens. -/
namespace LalrpopModel.Tok

inductive Punct
  | ampersand | bangEquals | bangTilde | colon | colonColon | comma | dotDot | equals | equalsEquals
  | hash | greaterThan | leftBrace | leftBracket | leftParen | lessThan | lookahead | lookbehind
  | minusGreaterThan | plus | question | rightBrace | rightBracket | rightParen | semi | star | tildeTilde | bang
  | arrowLookahead | arrowLookbehind
  deriving DecidableEq, Repr

def Punct.text : Punct → List Char
  | .ampersand => ['&'] | .bangEquals => ['!', '='] | .bangTilde => ['!', '~'] | .colon => [':']
  | .colonColon => [':', ':'] | .comma => [','] | .dotDot => ['.', '.'] | .equals => ['=']
  | .equalsEquals => ['=', '='] | .hash => ['#'] | .greaterThan => ['>'] | .leftBrace => ['{']
  | .leftBracket => ['['] | .leftParen => ['('] | .lessThan => ['<'] | .lookahead => ['@', 'L']
  | .lookbehind => ['@', 'R'] | .minusGreaterThan => ['-', '>'] | .plus => ['+'] | .question => ['?']
  | .rightBrace => ['}'] | .rightBracket => [']'] | .rightParen => [')'] | .semi => [';'] | .star => ['*']
  | .tildeTilde => ['~', '~'] | .bang => ['!'] | .arrowLookahead => ['=', '>', '@', 'L']
  | .arrowLookbehind => ['=', '>', '@', 'R']

def Punct.tok : Punct → Tok
  | .ampersand => .ampersand | .bangEquals => .bangEquals | .bangTilde => .bangTilde | .colon => .colon
  | .colonColon => .colonColon | .comma => .comma | .dotDot => .dotDot | .equals => .equals
  | .equalsEquals => .equalsEquals | .hash => .hash | .greaterThan => .greaterThan | .leftBrace => .leftBrace
  | .leftBracket => .leftBracket | .leftParen => .leftParen | .lessThan => .lessThan | .lookahead => .lookahead
  | .lookbehind => .lookbehind | .minusGreaterThan => .minusGreaterThan | .plus => .plus | .question => .question
  | .rightBrace => .rightBrace | .rightBracket => .rightBracket | .rightParen => .rightParen | .semi => .semi
  | .star => .star | .tildeTilde => .tildeTilde | .bang => .bang | .arrowLookahead => .eqGtLookahead
  | .arrowLookbehind => .eqGtLookbehind

/-- what may directly follow the token text (`none` = end of input): the two-character tokens `!=`, `!~`,
    `::`, `==`, `=>` and the attribute `#![` must not arise by juxtaposition -/
def Punct.followOK : Punct → Option Char → Bool
  | .bang, some c => c != '=' && c != '~'
  | .colon, some c => c != ':'
  | .equals, some c => c != '=' && c != '>'
  | .hash, some c => c != '!'
  | _, _ => true

theorem punct_step (cfg : Cfg) (g p : Nat) (k : Punct) (rest : List Char) (h : k.followOK rest.head? = true) :
    nextUnshifted cfg (g + 1) ⟨p, k.text ++ rest⟩ =
      (.tok p k.tok (p + k.text.length), ⟨p + k.text.length, rest⟩) := by
  cases k
  case bang =>
    simp only [Punct.text, List.cons_append, List.nil_append]
    rw [nextUnshifted]
    cases rest with
    | nil => simp [Punct.tok]
    | cons c r =>
      simp [Punct.followOK] at h
      simp [Punct.tok]
      split <;> simp_all
  case colon =>
    simp only [Punct.text, List.cons_append, List.nil_append]
    rw [nextUnshifted]
    cases rest with
    | nil => simp [Punct.tok]
    | cons c r =>
      simp [Punct.followOK] at h
      simp [Punct.tok]
      split <;> simp_all
  case equals =>
    simp only [Punct.text, List.cons_append, List.nil_append]
    rw [nextUnshifted]
    cases rest with
    | nil => simp [Punct.tok]
    | cons c r =>
      simp [Punct.followOK] at h
      simp [Punct.tok]
      split <;> simp_all
  case hash =>
    simp only [Punct.text, List.cons_append, List.nil_append]
    rw [nextUnshifted]
    cases rest with
    | nil => simp [Punct.tok, shebangAttribute, err]
    | cons c r =>
      simp [Punct.followOK] at h
      simp [Punct.tok, shebangAttribute, err, h]
  all_goals
    simp only [Punct.text, List.cons_append, List.nil_append]
    rw [nextUnshifted]
    simp [Punct.tok, rightArrow, ofRes]

end LalrpopModel.Tok
