import LalrpopModel.Lemmas.DfaClosure
import LalrpopModel.Lemmas.OverlapPartition
namespace LalrpopModel.Dfa
open LalrpopModel.Nfa

theorem find?_congr' {α : Type} {p q : α → Bool} : ∀ {l : List α}, (∀ a, a ∈ l → p a = q a) →
    l.find? p = l.find? q
  | [], _ => rfl
  | a :: l, h => by
    simp only [List.find?_cons, h a List.mem_cons_self]
    rw [find?_congr' (fun b hb => h b (List.mem_cons_of_mem _ hb))]

theorem filterMap_congr' {α β : Type} {f g : α → Option β} : ∀ {l : List α}, (∀ a, a ∈ l → f a = g a) →
    l.filterMap f = l.filterMap g
  | [], _ => rfl
  | a :: l, h => by
    simp only [List.filterMap_cons, h a List.mem_cons_self]
    rw [filterMap_congr' (fun b hb => h b (List.mem_cons_of_mem _ hb))]

/-- the item set `I` is exactly the set of NFA states reachable by reading `w` -/
def Rs (nfas : List Nfa) (I : List Item) (w : List Nat) : Prop :=
  ∀ it : Item, it ∈ I ↔ (it.1 < nfas.length ∧ Path (nfaAt nfas it.1) START w it.2)

/-- successors of an item set on one symbol (before closure) -/
def charStep (nfas : List Nfa) (I : List Item) (c : Nat) : List Item :=
  I.filterMap (fun it => (stepChar (nfaAt nfas it.1) it.2 c).map (fun u => (it.1, u)))

def labelsOf (nfas : List Nfa) (I : List Item) : List Range :=
  I.flatMap (fun it => (testOf (nfaAt nfas it.1) it.2).map (fun e => (e.1, e.2.1)))

theorem rs_start (nfas : List Nfa) (fuel : Nat) (s0 : List Item)
    (h : closure nfas fuel ((List.range nfas.length).map (fun i => (i, START))) = some s0) :
    Rs nfas s0 [] := by
  intro it
  rw [closure_spec nfas fuel _ s0 h it]
  constructor
  · rintro ⟨y, hy, heq, hp⟩
    obtain ⟨i, hi, rfl⟩ := List.mem_map.mp hy
    simp only at heq hp
    exact ⟨by rw [← heq]; exact List.mem_range.mp hi, by rw [← heq]; exact hp⟩
  · rintro ⟨hlt, hp⟩
    exact ⟨(it.1, START), List.mem_map.mpr ⟨it.1, List.mem_range.mpr hlt, rfl⟩, rfl, hp⟩

theorem rs_step (nfas : List Nfa) (fuel : Nat) (I I' : List Item) (w : List Nat) (c : Nat)
    (hI : Rs nfas I w) (h : closure nfas fuel (charStep nfas I c) = some I') : Rs nfas I' (w ++ [c]) := by
  intro it
  rw [closure_spec nfas fuel _ I' h it]
  constructor
  · rintro ⟨y, hy, heq, hp⟩
    obtain ⟨x, hx, hxy⟩ := List.mem_filterMap.mp hy
    obtain ⟨hlt, hpx⟩ := (hI x).mp hx
    cases hs : stepChar (nfaAt nfas x.1) x.2 c with
    | none => simp [hs] at hxy
    | some u =>
      simp only [hs, Option.map_some, Option.some.injEq] at hxy
      subst hxy
      simp only at heq hp
      rw [← heq]
      exact ⟨hlt, by simpa using (hpx.snoc_chr hs).append hp⟩
  · rintro ⟨hlt, hp⟩
    obtain ⟨q, u, h1, h2, h3⟩ := hp.snoc_inv
    have hq : (it.1, q) ∈ I := (hI (it.1, q)).mpr ⟨hlt, h1⟩
    refine ⟨(it.1, u), List.mem_filterMap.mpr ⟨(it.1, q), hq, by simp [h2]⟩, rfl, h3⟩

/-- what `remove_overlap` must deliver for the subset construction to be exact -/
structure TestsOk (labels tests : List Range) : Prop where
  nonempty : ∀ t, t ∈ tests → isEmpty t = false
  cover : ∀ c, (∃ t, t ∈ tests ∧ mem c t) ↔ (∃ r, r ∈ labels ∧ mem c r)
  fine : ∀ t, t ∈ tests → ∀ r, r ∈ labels → Sub t r ∨ Disj t r

theorem label_mem {nfas : List Nfa} {I : List Item} {it : Item} (hit : it ∈ I) {e : Nat × Nat × Nat}
    (he : e ∈ testOf (nfaAt nfas it.1) it.2) : (e.1, e.2.1) ∈ labelsOf nfas I :=
  List.mem_flatMap.mpr ⟨it, hit, List.mem_map.mpr ⟨e, he, rfl⟩⟩

/-- on a symbol inside a test range, `accept_test` is the one-symbol step -/
theorem acceptTest_eq_step {nfas : List Nfa} {I : List Item} {tests : List Range}
    (hok : TestsOk (labelsOf nfas I) tests) {t : Range} (ht : t ∈ tests) {c : Nat} (hc : mem c t) :
    I.filterMap (fun it => acceptTest nfas it t) = charStep nfas I c := by
  apply filterMap_congr'
  intro it hit
  simp only [acceptTest, stepChar]
  have hcongr : (testOf (nfaAt nfas it.1) it.2).find? (fun e => intersects (e.1, e.2.1) t) =
      (testOf (nfaAt nfas it.1) it.2).find? (fun e => decide (e.1 ≤ c) && decide (c ≤ e.2.1)) := by
    apply find?_congr'
    intro e he
    have hl := label_mem (I := I) hit he
    rcases hok.fine t ht _ hl with hs | hd
    · have hm := hs c hc
      have h1 : intersects (e.1, e.2.1) t = true := (intersects_iff _ _).mpr ⟨c, hm, hc⟩
      simp only [mem] at hm
      simp [h1, hm.1, hm.2]
    · have h1 : intersects (e.1, e.2.1) t = false := (not_intersects_iff _ _).mpr hd.symm
      have h2 : ¬ (e.1 ≤ c ∧ c ≤ e.2.1) := fun hm => hd c ⟨hc, hm⟩
      rw [h1]
      cases h3 : (decide (e.1 ≤ c) && decide (c ≤ e.2.1)) with
      | false => rfl
      | true => simp only [Bool.and_eq_true, decide_eq_true_eq] at h3; exact absurd h3 h2
  rw [hcongr]
  cases (testOf (nfaAt nfas it.1) it.2).find? (fun e => decide (e.1 ≤ c) && decide (c ≤ e.2.1)) with
  | none => simp
  | some e => simp

/-- on a symbol outside every test range, `accept_other` is the one-symbol step -/
theorem acceptOther_eq_step {nfas : List Nfa} {I : List Item} {tests : List Range}
    (hok : TestsOk (labelsOf nfas I) tests) {c : Nat} (hc : ∀ t, t ∈ tests → ¬ mem c t) :
    I.filterMap (acceptOther nfas) = charStep nfas I c := by
  apply filterMap_congr'
  intro it hit
  simp only [acceptOther, stepChar]
  have hnone : (testOf (nfaAt nfas it.1) it.2).find? (fun e => decide (e.1 ≤ c) && decide (c ≤ e.2.1)) = none := by
    rw [List.find?_eq_none]
    intro e he
    have hl := label_mem (I := I) hit he
    intro hp
    simp only [Bool.and_eq_true, decide_eq_true_eq] at hp
    obtain ⟨t, ht, hm⟩ := (hok.cover c).mpr ⟨_, hl, hp⟩
    exact hc t ht hm
  rw [hnone]

/-- some symbol lies outside all the (finitely many, bounded) test ranges -/
theorem exists_outside (tests : List Range) : ∃ c, ∀ t, t ∈ tests → ¬ mem c t := by
  have hB : ∃ B, ∀ t : Range, t ∈ tests → t.2 < B := by
    induction tests with
    | nil => exact ⟨0, fun t ht => by cases ht⟩
    | cons r rs ih =>
      obtain ⟨B, hB⟩ := ih
      refine ⟨max B (r.2 + 1), fun t ht => ?_⟩
      rcases List.mem_cons.mp ht with rfl | ht
      · omega
      · have := hB t ht; omega
  obtain ⟨B, hB⟩ := hB
  exact ⟨B, fun t ht hm => by have := hB t ht; have := hm.2; omega⟩

end LalrpopModel.Dfa
