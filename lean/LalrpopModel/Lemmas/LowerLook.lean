import LalrpopModel.Model.Lower
/-!
Lemmas for the `@L`/`@R` part of C06: counters of the loops of `emit_inline_action_code` after a
prefix of the symbols (`planFrom_append`, `plan_at`, `tempSpans_at`) and the start/end selection
for an inlined symbol without symbols (`tempSpan_empty`).
-/
namespace LalrpopModel.Lower
open LalrpopModel.Inline (InlinedSymbol LocSrc startSrc endSrc Step planFrom plan numFlatArgs)
variable {N T L : Type}

/-- number of `Inlined` entries: the value of `temp_counter` after the symbols -/
def inlCount : List (InlinedSymbol N T) → Nat
  | [] => 0
  | .original _ :: rest => inlCount rest
  | .inlined _ _ :: rest => inlCount rest + 1

theorem numFlatArgs_nil : numFlatArgs ([] : List (InlinedSymbol N T)) = 0 := rfl

theorem numFlatArgs_cons (s : InlinedSymbol N T) (rest : List (InlinedSymbol N T)) :
    numFlatArgs (s :: rest) = s.flat.length + numFlatArgs rest := by
  simp [numFlatArgs]

theorem numFlatArgs_append (a b : List (InlinedSymbol N T)) :
    numFlatArgs (a ++ b) = numFlatArgs a + numFlatArgs b := by
  simp [numFlatArgs]

/-- the counters of the loops over `data.symbols` after a prefix: `arg_counter` has advanced by
    the flat arguments of the prefix, `temp_counter` by its inlined symbols -/
theorem planFrom_append (arg temp : Nat) (pre rest : List (InlinedSymbol N T)) :
    planFrom arg temp (pre ++ rest) =
      planFrom arg temp pre ++ planFrom (arg + numFlatArgs pre) (temp + inlCount pre) rest := by
  induction pre generalizing arg temp with
  | nil => simp [planFrom, numFlatArgs_nil, inlCount]
  | cons s pre ih =>
    cases s with
    | original x =>
      simp only [List.cons_append, planFrom, ih, numFlatArgs_cons, InlinedSymbol.flat, inlCount,
        List.length_singleton]
      rw [show arg + (1 + numFlatArgs pre) = arg + 1 + numFlatArgs pre by omega]
    | inlined a syms =>
      simp only [List.cons_append, planFrom, ih, numFlatArgs_cons, InlinedSymbol.flat, inlCount]
      rw [show arg + (syms.length + numFlatArgs pre) = arg + syms.length + numFlatArgs pre by omega,
        show temp + (inlCount pre + 1) = temp + 1 + inlCount pre by omega]

/-- the step the loops perform for the symbol at position `pre.length` -/
theorem plan_at (pre post : List (InlinedSymbol N T)) (a : Nat) (syms : List (Inline.Symbol N T)) :
    (plan (pre ++ .inlined a syms :: post))[pre.length]? =
      some (.inl (inlCount pre) a (numFlatArgs pre) syms.length) := by
  have hl : ∀ (arg temp : Nat) (l : List (InlinedSymbol N T)), (planFrom arg temp l).length = l.length := by
    intro arg temp l
    induction l generalizing arg temp with
    | nil => rfl
    | cons s l ih => cases s <;> simp [planFrom, ih]
  unfold plan
  rw [planFrom_append, List.getElem?_append_right (by rw [hl]; exact Nat.le_refl _), hl]
  simp [planFrom]

/-! ### the selection rule -/

theorem getLast?_take_succ (args : List (L × L)) (b : Nat) (hb : b < args.length) :
    (args.take (b + 1)).getLast? = args[b]? := by
  rw [List.getLast?_eq_getElem?]
  simp [List.length_take, Nat.min_eq_left (Nat.succ_le_of_lt hb)]

/-- `(__startK, __endK)` of an inlined symbol *without* symbols that sits after `b` flat
    arguments: exactly the declarative rule — start = `@R` rule, end = `@L` rule -/
theorem tempSpan_empty (env : Env L) (b : Nat) (hb : b ≤ env.args.length) :
    tempSpan env env.args.length b 0 =
      some (declR (env.args.take b) (env.args.drop b) env.lookbehind,
            declL (env.args.take b) (env.args.drop b) env.lookahead) := by
  unfold tempSpan startSrc endSrc
  simp only [ne_eq, not_true_eq_false, if_false]
  -- start
  have hstart : evalSrc env (if b > 0 then .argEnd (b - 1) else if env.args.length > 0 then .argStart b else .lookbehind) =
      some (declR (env.args.take b) (env.args.drop b) env.lookbehind) := by
    cases b with
    | zero =>
      simp only [Nat.lt_irrefl, if_false, List.take_zero, List.drop_zero, declR, List.getLast?_nil]
      cases hargs : env.args with
      | nil => simp [evalSrc]
      | cons s rest => simp [evalSrc, hargs]
    | succ b =>
      have hb' : b < env.args.length := hb
      simp only [Nat.succ_pos, if_true, Nat.add_sub_cancel, evalSrc, declR]
      rw [getLast?_take_succ _ _ hb', List.getElem?_eq_getElem hb']
      simp
  -- end
  have hend : evalSrc env (if b < env.args.length then .argStart b else if env.args.length > 0 then .argEnd (env.args.length - 1) else .lookahead) =
      some (declL (env.args.take b) (env.args.drop b) env.lookahead) := by
    by_cases hlt : b < env.args.length
    · simp only [hlt, if_true, evalSrc, declL]
      rw [List.getElem?_eq_getElem hlt]
      have : env.args.drop b = env.args[b] :: env.args.drop (b + 1) := by
        rw [List.drop_eq_getElem_cons hlt]
      rw [this]
      simp
    · have hbe : b = env.args.length := by omega
      simp only [hlt, if_false, declL]
      subst hbe
      simp only [List.drop_length, List.take_length]
      cases hargs : env.args with
      | nil => simp [evalSrc]
      | cons s rest =>
        have hpos : env.args.length > 0 := by simp [hargs]
        have hl : (s :: rest).length - 1 < env.args.length := by simp [hargs]
        rw [← hargs]
        simp only [hpos, if_true, evalSrc]
        rw [List.getLast?_eq_getElem?]
        cases h : env.args[env.args.length - 1]? with
        | none => simp [hargs] at h
        | some x => simp
  rw [hstart, hend]


theorem filterMap_length_planFrom (env : Env L) (numFlat arg temp : Nat) (l : List (InlinedSymbol N T)) :
    ((planFrom arg temp l).filterMap (stepSpan env numFlat)).length = inlCount l := by
  induction l generalizing arg temp with
  | nil => rfl
  | cons s l ih => cases s <;> simp [planFrom, inlCount, stepSpan, List.filterMap_cons, ih]

/-- the entry of `tempSpans` that belongs to the inlined symbol at position `pre.length` is
    `spanAt`: `arg_counter` = number of flat arguments before it -/
theorem tempSpans_at (env : Env L) (pre post : List (InlinedSymbol N T)) (a : Nat)
    (syms : List (Inline.Symbol N T)) :
    (tempSpans env (pre ++ .inlined a syms :: post))[inlCount pre]? =
      some (spanAt env pre (.inlined a syms) post) := by
  unfold tempSpans plan
  rw [planFrom_append, List.filterMap_append]
  rw [List.getElem?_append_right (by rw [filterMap_length_planFrom]; exact Nat.le_refl _),
    filterMap_length_planFrom]
  simp [planFrom, spanAt, stepSpan, InlinedSymbol.flat]

end LalrpopModel.Lower
