import LalrpopModel.Model.C18FileText
/-!
Facts about the arithmetic model of `file_text.rs`: the newline table is well formed, `line_col`
is total and correct, `highlight` never underflows or slices out of range for `lo ≤ hi`.
-/
namespace LalrpopModel.FileText

/-! ### facts about the newline table -/

theorem nlFrom_bounds (bs : List UInt8) (i : Nat) : ∀ x ∈ nlFrom bs i, i < x ∧ x ≤ i + bs.length := by
  induction bs generalizing i with
  | nil => intro x hx; simp [nlFrom] at hx
  | cons b bs ih =>
    intro x hx
    simp only [nlFrom] at hx
    split at hx
    · simp only [List.mem_cons] at hx
      cases hx with
      | inl e => subst e; simp only [List.length_cons]; omega
      | inr m => have := ih (i + 1) x m; simp only [List.length_cons]; omega
    · have := ih (i + 1) x hx; simp only [List.length_cons]; omega

theorem nlFrom_sorted (bs : List UInt8) (i : Nat) : (nlFrom bs i).Pairwise (· < ·) := by
  induction bs generalizing i with
  | nil => simp [nlFrom]
  | cons b bs ih =>
    simp only [nlFrom]
    split
    · refine List.pairwise_cons.mpr ⟨?_, ih (i + 1)⟩
      intro x hx
      have := nlFrom_bounds bs (i + 1) x hx
      omega
    · exact ih (i + 1)

/-- what `line_col`/`highlight` rely on: first entry 0, strictly increasing, entries within the text -/
structure WF (nl : List Nat) (len : Nat) : Prop where
  head : ∃ rest, nl = 0 :: rest
  sorted : nl.Pairwise (· < ·)
  bound : ∀ x ∈ nl, x ≤ len

theorem newlines_wf (bs : List UInt8) : WF (newlines bs) bs.length := by
  refine ⟨⟨_, rfl⟩, ?_, ?_⟩
  · refine List.pairwise_cons.mpr ⟨?_, nlFrom_sorted bs 0⟩
    intro x hx
    exact (nlFrom_bounds bs 0 x hx).1
  · intro x hx
    simp only [newlines, List.mem_cons] at hx
    cases hx with
    | inl e => omega
    | inr m => have := nlFrom_bounds bs 0 x m; omega

theorem fg_some (xs : List Nat) (pos i j : Nat) (h : firstGreater xs pos i = some j) :
    ∃ pre e post, xs = pre ++ e :: post ∧ j = i + pre.length ∧ (∀ x ∈ pre, x ≤ pos) ∧ pos < e := by
  induction xs generalizing i with
  | nil => simp [firstGreater] at h
  | cons x xs ih =>
    simp only [firstGreater] at h
    split at h
    · rename_i hgt
      refine ⟨[], x, xs, rfl, ?_, by simp, hgt⟩
      simp at h ⊢; omega
    · rename_i hle
      obtain ⟨pre, e, post, h1, h2, h3, h4⟩ := ih (i + 1) h
      refine ⟨x :: pre, e, post, by simp [h1], by simp; omega, ?_, h4⟩
      intro y hy
      simp only [List.mem_cons] at hy
      cases hy with
      | inl e' => omega
      | inr m => exact h3 y m

theorem fg_none (xs : List Nat) (pos i : Nat) (h : firstGreater xs pos i = none) : ∀ x ∈ xs, x ≤ pos := by
  induction xs generalizing i with
  | nil => simp
  | cons x xs ih =>
    simp only [firstGreater] at h
    split at h
    · simp at h
    · rename_i hle
      intro y hy
      simp only [List.mem_cons] at hy
      cases hy with
      | inl e => omega
      | inr m => exact ih (i + 1) h y m

/-- sorted lists are monotone in the index -/
theorem sorted_get_le (nl : List Nat) (hs : nl.Pairwise (· < ·)) (i j : Nat) (a b : Nat)
    (hij : i ≤ j) (ha : nl[i]? = some a) (hb : nl[j]? = some b) : a ≤ b := by
  induction nl generalizing i j with
  | nil => simp at ha
  | cons x xs ih =>
    have hp := List.pairwise_cons.mp hs
    cases i with
    | zero =>
      simp only [List.getElem?_cons_zero, Option.some.injEq] at ha
      subst ha
      cases j with
      | zero => simp only [List.getElem?_cons_zero, Option.some.injEq] at hb; omega
      | succ j =>
        simp only [List.getElem?_cons_succ] at hb
        have := hp.1 b (List.mem_of_getElem? hb)
        omega
    | succ i =>
      cases j with
      | zero => omega
      | succ j =>
        simp only [List.getElem?_cons_succ] at ha hb
        exact ih hp.2 i j (by omega) ha hb

/-- **`line_col` is total and correct**: for every position, the line found is in range, starts at
or before the position, and the next line (if any) starts after it; the column is the distance. -/
theorem lineCol_spec (nl : List Nat) (len : Nat) (h : WF nl len) (pos : Nat) :
    ∃ l off, lineCol nl pos = some (l, pos - off) ∧ nl[l]? = some off ∧ off ≤ pos ∧
      (∀ e, nl[l + 1]? = some e → pos < e) := by
  obtain ⟨rest, hnl⟩ := h.head
  unfold lineCol
  cases hfg : firstGreater nl pos 0 with
  | some j =>
    obtain ⟨pre, e, post, h1, h2, h3, h4⟩ := fg_some nl pos 0 j hfg
    -- pre is not empty: the first entry is 0 ≤ pos
    cases hpre : pre.reverse with
    | nil =>
      have : pre = [] := by simpa using hpre
      subst this
      simp only [List.nil_append] at h1
      rw [hnl] at h1
      have : e = 0 := by injection h1 with a b; exact a.symm
      omega
    | cons off pre' =>
      have hp : pre = pre'.reverse ++ [off] := by
        have := congrArg List.reverse hpre
        simpa using this
      have hj : j = pre'.length + 1 := by rw [h2, hp]; simp
      have hoff : off ≤ pos := h3 off (by rw [hp]; simp)
      have hget : nl[pre'.length]? = some off := by
        rw [h1, hp]
        simp [List.getElem?_append_left, List.getElem?_append_right]
      have hnext : nl[pre'.length + 1]? = some e := by
        rw [h1, hp]
        have : (pre'.reverse ++ [off] ++ e :: post) = (pre'.reverse ++ [off]) ++ (e :: post) := rfl
        rw [List.getElem?_append_right (by simp)]
        simp
      refine ⟨pre'.length, off, ?_, hget, hoff, ?_⟩
      · simp only [hj, csub]
        simp [hget, hoff]
      · intro e' he'
        rw [hnext] at he'
        have := Option.some.inj he'
        omega
  | none =>
    have hall := fg_none nl pos 0 hfg
    cases hrev : nl.reverse with
    | nil => have : nl = [] := by simpa using hrev
             rw [hnl] at this; simp at this
    | cons off init =>
      have hp : nl = init.reverse ++ [off] := by
        have := congrArg List.reverse hrev
        simpa using this
      have hlen : nl.length = init.length + 1 := by rw [hp]; simp
      have hoff : off ≤ pos := hall off (by rw [hp]; simp)
      have hget : nl[init.length]? = some off := by
        rw [hp]; simp [List.getElem?_append_right]
      refine ⟨init.length, off, ?_, hget, hoff, ?_⟩
      · simp only [hlen, csub]
        simp [hget, hoff]
      · intro e he
        have : init.length + 1 < nl.length := by
          have := List.getElem?_eq_some_iff.mp he
          exact this.1
        omega

theorem get_lt_of_sorted (nl : List Nat) (hs : nl.Pairwise (· < ·)) (i : Nat) (a b : Nat)
    (ha : nl[i]? = some a) (hb : nl[i + 1]? = some b) : a < b := by
  induction nl generalizing i with
  | nil => simp at ha
  | cons x xs ih =>
    have hp := List.pairwise_cons.mp hs
    cases i with
    | zero =>
      simp only [List.getElem?_cons_zero, Option.some.injEq] at ha
      simp only [List.getElem?_cons_succ] at hb
      subst ha
      exact hp.1 b (List.mem_of_getElem? hb)
    | succ i =>
      simp only [List.getElem?_cons_succ] at ha hb
      exact ih hp.2 i ha hb

/-- `line_text(n)` slices in range for every line number in range; a line that is not the last one
    has length `next start - 1 - start` -/
theorem lineLen_total (nl : List Nat) (len : Nat) (h : WF nl len) (n start : Nat) (hn : nl[n]? = some start) :
    ∃ L, lineLen nl len n = some L ∧ (∀ e, nl[n + 1]? = some e → L = e - 1 - start) := by
  unfold lineLen
  have hlt : n < nl.length := (List.getElem?_eq_some_iff.mp hn).1
  have hlast : csub nl.length 1 = some (nl.length - 1) := by
    have : 1 ≤ nl.length := by omega
    simp [csub, this]
  simp only [hn, hlast]
  by_cases hl : n = nl.length - 1
  · rw [if_pos hl]
    have hb := h.bound start (List.mem_of_getElem? hn)
    refine ⟨len - start, by simp [csub, hb], ?_⟩
    intro e he
    have := (List.getElem?_eq_some_iff.mp he).1
    omega
  · rw [if_neg hl]
    have hlt2 : n + 1 < nl.length := by omega
    obtain ⟨e, he⟩ : ∃ e, nl[n + 1]? = some e := ⟨nl[n + 1], List.getElem?_eq_getElem hlt2⟩
    have hlt3 := get_lt_of_sorted nl h.sorted n start e hn he
    refine ⟨e - 1 - start, ?_, ?_⟩
    · simp only [he, csub]
      have h1 : 1 ≤ e := by omega
      have h2 : start ≤ e - 1 := by omega
      simp [h1, h2]
    · intro e' he'
      rw [he] at he'
      rw [Option.some.inj he']

theorem lineLens_total (nl : List Nat) (len : Nat) (h : WF nl len) :
    ∀ (k from_ : Nat), from_ + k ≤ nl.length →
      ∃ ls, lineLens nl len from_ k = some ls ∧ ls.length = k ∧
        (∀ L, lineLen nl len from_ = some L → 0 < k → ls.head? = some L) := by
  intro k
  induction k with
  | zero => intro from_ _; exact ⟨[], rfl, rfl, fun _ _ hk => absurd hk (by omega)⟩
  | succ k ih =>
    intro from_ hle
    have hlt : from_ < nl.length := by omega
    obtain ⟨L, hL, _⟩ := lineLen_total nl len h from_ nl[from_] (List.getElem?_eq_getElem hlt)
    obtain ⟨ls, hls, hlen, _⟩ := ih (from_ + 1) (by omega)
    refine ⟨L :: ls, ?_, by simp [hlen], ?_⟩
    · simp only [lineLens, hL, hls]
    · intro L' hL' _
      rw [hL] at hL'
      simp [Option.some.inj hL']

theorem le_foldl_max (xs : List Nat) (a : Nat) : a ≤ xs.foldl max a := by
  induction xs generalizing a with
  | nil => simp
  | cons x xs ih =>
    simp only [List.foldl_cons]
    exact Nat.le_trans (Nat.le_max_left a x) (ih (max a x))

/-- **`highlight` never underflows or slices out of range**: for the newline table of any text and
any span with `lo ≤ hi` (positions may even lie beyond the text), every `usize` subtraction, index
and `unwrap` of `line_col`, `line_text` and `highlight` succeeds. -/
theorem highlightArith_wf (nl : List Nat) (len : Nat) (h : WF nl len) (lo hi : Nat) (hle : lo ≤ hi) :
    highlightArith nl len lo hi = some () := by
  obtain ⟨sl, offS, hcS, hgS, hoS, hnS⟩ := lineCol_spec nl len h lo
  obtain ⟨el, offE, hcE, hgE, hoE, hnE⟩ := lineCol_spec nl len h hi
  unfold highlightArith
  simp only [hcS, hcE]
  by_cases hsame : sl = el
  · rw [if_pos hsame]
    subst hsame
    rw [hgS] at hgE
    have : offS = offE := Option.some.inj hgE
    subst this
    obtain ⟨L, hL, _⟩ := lineLen_total nl len h sl offS hgS
    simp only [hL, csub]
    have : lo - offS ≤ hi - offS := by omega
    simp [this]
  · rw [if_neg hsame]
    have hslt : sl < nl.length := (List.getElem?_eq_some_iff.mp hgS).1
    have helt : el < nl.length := (List.getElem?_eq_some_iff.mp hgE).1
    -- the start line is before the end line
    have hlt : sl < el := by
      by_cases hc : sl < el
      · exact hc
      · exfalso
        have h1 : el + 1 ≤ sl := by omega
        have h2 : el + 1 < nl.length := by omega
        have he : nl[el + 1]? = some nl[el + 1] := List.getElem?_eq_getElem h2
        have h3 := hnE _ he
        have h4 := sorted_get_le nl h.sorted (el + 1) sl _ _ h1 he hgS
        omega
    obtain ⟨ls, hls, hlen, hhead⟩ := lineLens_total nl len h (el + 1 - sl) sl (by omega)
    obtain ⟨L, hL, hLe⟩ := lineLen_total nl len h sl offS hgS
    have hhd := hhead L hL (by omega)
    simp only [hls]
    cases ls with
    | nil => simp at hlen; omega
    | cons L0 rest =>
      simp only [List.head?_cons, Option.some.injEq] at hhd
      subst hhd
      simp only [maxOf]
      have hmax := le_foldl_max rest L0
      -- the start column fits into the start line
      have h2 : sl + 1 < nl.length := by omega
      have he : nl[sl + 1]? = some nl[sl + 1] := List.getElem?_eq_getElem h2
      have h3 := hnS _ he
      have h4 := hLe _ he
      have hsc : lo - offS ≤ rest.foldl max L0 := by omega
      have hl1 : 1 ≤ (L0 :: rest).length := by simp
      simp only [csub, hsc, hl1, if_true]

/-- the statement for the table `FileText::new` builds -/
theorem highlight_arith_safe (bs : List UInt8) (lo hi : Nat) (hle : lo ≤ hi) :
    highlightArith (newlines bs) bs.length lo hi = some () :=
  highlightArith_wf _ _ (newlines_wf bs) lo hi hle

/-- `line_col` alone, for every position -/
theorem line_col_spec (bs : List UInt8) (pos : Nat) :
    ∃ l off, lineCol (newlines bs) pos = some (l, pos - off) ∧ (newlines bs)[l]? = some off ∧ off ≤ pos ∧
      (∀ e, (newlines bs)[l + 1]? = some e → pos < e) :=
  lineCol_spec _ _ (newlines_wf bs) pos

/-- with a reversed span the subtraction `end_col - start_col` does underflow -/
example : highlightArith (newlines [97, 98, 99]) 3 2 1 = none := by decide

end LalrpopModel.FileText
