import LalrpopModel.Lemmas.PrecTiers
/-!
`validate_precedence` (repaired validator, `fixed = true`) establishes everything
`expand_nonterm` relies on: the loop invariant links the validator's state
(`min_lvl`, `min_prec_ann`, `last_lvl`) to the effective annotations computed by the fold.
-/
namespace LalrpopModel.Prec
open LalrpopModel.PT

theorem parseDigits_le (cs : List Char) (acc n : Nat) (h : parseDigits cs acc = some n) (hacc : acc ≤ U32_MAX) :
    n ≤ U32_MAX := by
  induction cs generalizing acc with
  | nil => simp only [parseDigits, Option.some.injEq] at h; omega
  | cons c cs ih =>
    simp only [parseDigits] at h
    cases hd : digitVal c with
    | none => simp [hd] at h
    | some d =>
      simp only [hd] at h
      split at h
      · simp at h
      · rename_i hle
        exact ih _ h (by omega)

theorem parseU32_le (s : Str) (n : Nat) (h : parseU32 s = some n) : n ≤ U32_MAX := by
  unfold parseU32 at h
  split at h
  · simp at h
  · split at h
    · simp at h
    · exact parseDigits_le _ 0 n h (by simp [U32_MAX])
  · split at h
    · exact parseDigits_le _ 0 n h (by simp [U32_MAX])
    · exact parseDigits_le _ 0 n h (by simp [U32_MAX])

/-- closed form of the state update of one loop iteration (repaired validator) -/
def vNext (st : VState) (alt : Alt) : VState :=
  if (precAttr alt).isSome then
    let lvl := (ownLevel alt).getD 0
    if lvl < st.minLvl then { minLvl := lvl, minAnn := (assocAttr alt).isSome, lastLvl := lvl }
    else if lvl = st.minLvl ∧ st.minAnn = false ∧ (assocAttr alt).isSome then
      { st with minAnn := true, lastLvl := lvl }
    else { st with lastLvl := lvl }
  else if st.lastLvl = st.minLvl ∧ st.minAnn = false then { st with minAnn := (assocAttr alt).isSome }
  else st

theorem validateAssocArg_ok (alt : Alt) (h : validateAssocArg (assocAttr alt) = .ok ()) :
    (assocAttr alt).isSome → (ownAssoc alt).isSome := by
  unfold ownAssoc
  cases ha : assocAttr alt with
  | none => simp
  | some q =>
    simp only [ha, validateAssocArg] at h
    intro _
    simp only [Option.bind_some, argValue]
    cases hg : q.getArgEqual with
    | none => simp [hg] at h
    | some kv =>
      obtain ⟨k, v⟩ := kv
      simp only [hg] at h
      split at h
      · split at h
        · simp at h
        · rename_i hx
          simp only [Option.map_some, Option.bind_some]
          cases hp : Assoc.parse v with
          | none => simp [hp] at hx
          | some x => simp
      · simp at h

theorem validateLevelArg_ok (st st' : VState) (alt : Alt)
    (h : validateLevelArg true st (precAttr alt) (assocAttr alt) = .ok st') :
    ((precAttr alt).isSome → (ownLevel alt).isSome) ∧ st' = vNext st alt := by
  unfold validateLevelArg at h
  unfold vNext
  cases hp : precAttr alt with
  | none =>
    simp only [hp] at h
    refine ⟨by simp, ?_⟩
    simp only [Option.isSome_none, Bool.false_eq_true, if_false]
    by_cases hc : st.lastLvl = st.minLvl ∧ st.minAnn = false
    · simp only [hc, and_self, if_true] at h ⊢
      exact (Except.ok.inj h).symm
    · have hc' : ¬ (true = true ∧ st.lastLvl = st.minLvl ∧ st.minAnn = false) := fun x => hc x.2
      simp only [hc, hc', if_false] at h ⊢
      exact (Except.ok.inj h).symm
  | some p =>
    simp only [hp] at h
    cases hg : p.getArgEqual with
    | none => simp [hg] at h
    | some kv =>
      obtain ⟨k, v⟩ := kv
      simp only [hg] at h
      by_cases hk : k = LVL_ARG
      · simp only [hk, if_true] at h
        cases hl : parseU32 v with
        | none => simp [hl] at h
        | some lvl =>
          simp only [hl] at h
          have hown : ownLevel alt = some lvl := by
            simp [ownLevel, hp, argValue, hg, hl]
          refine ⟨by simp [hown], ?_⟩
          simp only [hown, Option.isSome_some, if_true, Option.getD_some]
          by_cases hc : lvl < st.minLvl
          · rw [if_pos hc] at h ⊢
            exact (Except.ok.inj h).symm
          · rw [if_neg hc] at h ⊢
            by_cases hc2 : lvl = st.minLvl ∧ st.minAnn = false ∧ (assocAttr alt).isSome = true
            · rw [if_pos hc2] at h ⊢
              exact (Except.ok.inj h).symm
            · rw [if_neg hc2] at h ⊢
              exact (Except.ok.inj h).symm
      · simp [hk] at h

theorem validateStep_ok (st st' : VState) (alt : Alt) (h : validateStep true st alt = .ok st') :
    Readable alt ∧ st' = vNext st alt := by
  unfold validateStep at h
  have hpa : alt.attrs.find? (fun a => decide (a.id = PREC_ATTR)) = precAttr alt := rfl
  have haa : alt.attrs.find? (fun a => decide (a.id = ASSOC_ATTR)) = assocAttr alt := rfl
  simp only [hpa, haa] at h
  cases h1 : validateLevelArg true st (precAttr alt) (assocAttr alt) with
  | error e => simp [h1] at h
  | ok s1 =>
    simp only [h1] at h
    cases h2 : validateAssocArg (assocAttr alt) with
    | error e => simp [h2] at h
    | ok u =>
      simp only [h2] at h
      have l1 := validateLevelArg_ok st s1 alt h1
      have l2 := validateAssocArg_ok alt h2
      exact ⟨⟨l1.1, l2⟩, (Except.ok.inj h) ▸ l1.2⟩

/-! ### the loop invariant -/

/-- what the validator's state says about the annotated alternatives seen so far (`pre`) and
    about the fold accumulator `(l0, a0)` of `expand_nonterm` -/
structure VInv (st : VState) (l0 : Nat) (a0 : Assoc) (pre : List Ann) : Prop where
  last : st.lastLvl = l0
  minle : st.minLvl ≤ l0
  lower : ∀ a ∈ pre, st.minLvl ≤ a.lvl
  attained : ∃ a ∈ pre, a.lvl = st.minLvl
  clean : st.minAnn = false →
    (∀ a ∈ pre, a.lvl = st.minLvl → a.assoc = .fullyAssoc) ∧ (l0 = st.minLvl → a0 = .fullyAssoc)

def annOf (l0 : Nat) (a0 : Assoc) (alt : Alt) : Ann :=
  { lvl := effLevel l0 alt, assoc := effAssoc a0 alt, alt := stripAttrs alt }

theorem ownAssoc_none_of (alt : Alt) (h : (assocAttr alt).isSome = false) : ownAssoc alt = none := by
  unfold ownAssoc
  cases ha : assocAttr alt with
  | none => rfl
  | some q => simp [ha] at h

theorem ownLevel_none_of (alt : Alt) (h : (precAttr alt).isSome = false) : ownLevel alt = none := by
  unfold ownLevel
  cases ha : precAttr alt with
  | none => rfl
  | some q => simp [ha] at h

theorem vinv_step (st : VState) (l0 : Nat) (a0 : Assoc) (pre : List Ann) (alt : Alt)
    (h : VInv st l0 a0 pre) (hr : Readable alt) :
    VInv (vNext st alt) (effLevel l0 alt) (effAssoc a0 alt) (pre ++ [annOf l0 a0 alt]) := by
  obtain ⟨hlast, hminle, hlower, ⟨w, hw, hwl⟩, hclean⟩ := h
  unfold vNext
  by_cases hp : (precAttr alt).isSome = true
  · -- own precedence attribute
    obtain ⟨lvl, hlvl⟩ := Option.isSome_iff_exists.mp (hr.1 hp)
    have heL : effLevel l0 alt = lvl := by simp [effLevel, hlvl]
    have heA : effAssoc a0 alt = (ownAssoc alt).getD .fullyAssoc := by simp [effAssoc, hp]
    have hnew : (annOf l0 a0 alt).lvl = lvl := heL
    have hnewA : (assocAttr alt).isSome = false → (annOf l0 a0 alt).assoc = .fullyAssoc := by
      intro hn
      show effAssoc a0 alt = _
      rw [heA, ownAssoc_none_of alt hn]; rfl
    rw [if_pos hp]
    simp only [hlvl, Option.getD_some, heL]
    by_cases hc : lvl < st.minLvl
    · rw [if_pos hc]
      refine ⟨rfl, Nat.le_refl _, ?_, ⟨annOf l0 a0 alt, by simp, hnew⟩, ?_⟩
      · intro a ha
        simp only [List.mem_append, List.mem_singleton] at ha
        cases ha with
        | inl m => have := hlower a m; simp only []; omega
        | inr e => rw [e, hnew]; exact Nat.le_refl _
      · intro hn
        simp only [] at hn
        have hA := hnewA hn
        refine ⟨?_, fun _ => by rw [heA, ownAssoc_none_of alt hn]; rfl⟩
        intro a ha hal
        simp only [List.mem_append, List.mem_singleton] at ha
        cases ha with
        | inl m => have := hlower a m; simp only [] at hal; omega
        | inr e => rw [e]; exact hA
    · rw [if_neg hc]
      by_cases hc2 : lvl = st.minLvl ∧ st.minAnn = false ∧ (assocAttr alt).isSome = true
      · rw [if_pos hc2]
        refine ⟨rfl, by simp only []; omega, ?_, ⟨w, by simp [hw], hwl⟩, fun hn => by simp at hn⟩
        intro a ha
        simp only [List.mem_append, List.mem_singleton] at ha
        cases ha with
        | inl m => exact hlower a m
        | inr e => rw [e, hnew]; simp only []; omega
      · rw [if_neg hc2]
        refine ⟨rfl, by simp only []; omega, ?_, ⟨w, by simp [hw], hwl⟩, ?_⟩
        · intro a ha
          simp only [List.mem_append, List.mem_singleton] at ha
          cases ha with
          | inl m => exact hlower a m
          | inr e => rw [e, hnew]; simp only []; omega
        · intro hn
          simp only [] at hn
          have hcl := hclean hn
          have hassoc : lvl = st.minLvl → (assocAttr alt).isSome = false := by
            intro e
            cases hx : (assocAttr alt).isSome with
            | false => rfl
            | true => exact absurd ⟨e, hn, hx⟩ hc2
          refine ⟨?_, fun e => by rw [heA, ownAssoc_none_of alt (hassoc e)]; rfl⟩
          intro a ha hal
          simp only [List.mem_append, List.mem_singleton] at ha
          simp only [] at hal
          cases ha with
          | inl m => exact hcl.1 a m hal
          | inr e => rw [e]; rw [e, hnew] at hal; exact hnewA (hassoc hal)
  · -- level inherited from the previous alternative
    have hp' : (precAttr alt).isSome = false := by simpa using hp
    have heL : effLevel l0 alt = l0 := by simp [effLevel, ownLevel_none_of alt hp']
    have heA : effAssoc a0 alt = (ownAssoc alt).getD a0 := by simp [effAssoc, hp']
    have hnew : (annOf l0 a0 alt).lvl = l0 := heL
    rw [if_neg hp, heL]
    by_cases hc : st.lastLvl = st.minLvl ∧ st.minAnn = false
    · rw [if_pos hc]
      refine ⟨hlast, hminle, ?_, ⟨w, by simp [hw], hwl⟩, ?_⟩
      · intro a ha
        simp only [List.mem_append, List.mem_singleton] at ha
        cases ha with
        | inl m => exact hlower a m
        | inr e => rw [e, hnew]; exact hminle
      · intro hn
        simp only [] at hn
        have hcl := hclean hc.2
        have ha0 : a0 = .fullyAssoc := hcl.2 (by omega)
        have hA : effAssoc a0 alt = .fullyAssoc := by rw [heA, ownAssoc_none_of alt hn, ha0]; rfl
        refine ⟨?_, fun _ => hA⟩
        intro a ha hal
        simp only [List.mem_append, List.mem_singleton] at ha
        cases ha with
        | inl m => exact hcl.1 a m hal
        | inr e => rw [e]; exact hA
    · rw [if_neg hc]
      refine ⟨hlast, hminle, ?_, ⟨w, by simp [hw], hwl⟩, ?_⟩
      · intro a ha
        simp only [List.mem_append, List.mem_singleton] at ha
        cases ha with
        | inl m => exact hlower a m
        | inr e => rw [e, hnew]; exact hminle
      · intro hn
        have hcl := hclean hn
        have hne : l0 ≠ st.minLvl := fun e => hc ⟨by omega, hn⟩
        refine ⟨?_, fun e => absurd e hne⟩
        intro a ha hal
        simp only [List.mem_append, List.mem_singleton] at ha
        cases ha with
        | inl m => exact hcl.1 a m hal
        | inr e => rw [e, hnew] at hal; exact absurd hal hne

theorem vinv_loop (alts : List Alt) :
    ∀ (st : VState) (l0 : Nat) (a0 : Assoc) (pre : List Ann) (st' : VState),
      VInv st l0 a0 pre → validateLoop true st alts = .ok st' →
      (∀ alt ∈ alts, Readable alt) ∧ ∃ l' a', VInv st' l' a' (pre ++ inherit l0 a0 alts) := by
  induction alts with
  | nil =>
    intro st l0 a0 pre st' hinv h
    simp only [validateLoop] at h
    have := Except.ok.inj h
    subst this
    exact ⟨by simp, l0, a0, by simpa [inherit] using hinv⟩
  | cons alt alts ih =>
    intro st l0 a0 pre st' hinv h
    simp only [validateLoop] at h
    cases hs : validateStep true st alt with
    | error e => simp [hs] at h
    | ok s1 =>
      simp only [hs] at h
      obtain ⟨hr, rfl⟩ := validateStep_ok st s1 alt hs
      have hinv1 := vinv_step st l0 a0 pre alt hinv hr
      obtain ⟨hrs, l', a', hfin⟩ := ih _ _ _ _ st' hinv1 h
      refine ⟨?_, l', a', ?_⟩
      · intro x hx
        simp only [List.mem_cons] at hx
        cases hx with
        | inl e => rw [e]; exact hr
        | inr m => exact hrs x m
      · simpa [inherit, annOf, List.append_assoc] using hfin

theorem ownLevel_le (alt : Alt) (lvl : Nat) (h : ownLevel alt = some lvl) : lvl ≤ U32_MAX := by
  unfold ownLevel at h
  cases hp : precAttr alt with
  | none => simp [hp] at h
  | some p =>
    simp only [hp, Option.bind_some] at h
    cases hv : argValue p with
    | none => simp [hv] at h
    | some v =>
      simp only [hv, Option.bind_some] at h
      exact parseU32_le v lvl h

def vInit : VState := { minLvl := U32_MAX, minAnn := false, lastLvl := 0 }

theorem vinv_first (alt : Alt) (st1 : VState) (hp : (precAttr alt).isSome = true)
    (h : validateStep true vInit alt = .ok st1) :
    Readable alt ∧ VInv st1 (effLevel 0 alt) (effAssoc .fullyAssoc alt) [annOf 0 .fullyAssoc alt] := by
  obtain ⟨hr, rfl⟩ := validateStep_ok vInit st1 alt h
  refine ⟨hr, ?_⟩
  obtain ⟨lvl, hlvl⟩ := Option.isSome_iff_exists.mp (hr.1 hp)
  have hle := ownLevel_le alt lvl hlvl
  have heL : effLevel 0 alt = lvl := by simp [effLevel, hlvl]
  have heA : effAssoc .fullyAssoc alt = (ownAssoc alt).getD .fullyAssoc := by simp [effAssoc]
  have hnew : (annOf 0 .fullyAssoc alt).lvl = lvl := heL
  have hnewA : (assocAttr alt).isSome = false → effAssoc .fullyAssoc alt = .fullyAssoc := by
    intro hn
    rw [heA, ownAssoc_none_of alt hn]; rfl
  unfold vNext
  rw [if_pos hp]
  simp only [hlvl, Option.getD_some, heL, vInit]
  by_cases hc : lvl < U32_MAX
  · rw [if_pos hc]
    refine ⟨rfl, Nat.le_refl _, ?_, ⟨_, by simp, hnew⟩, ?_⟩
    · intro a ha
      simp only [List.mem_singleton] at ha
      rw [ha, hnew]; exact Nat.le_refl _
    · intro hn
      simp only [] at hn
      refine ⟨?_, fun _ => hnewA hn⟩
      intro a ha _
      simp only [List.mem_singleton] at ha
      rw [ha]; exact hnewA hn
  · rw [if_neg hc]
    have he : lvl = U32_MAX := by omega
    by_cases hc2 : lvl = U32_MAX ∧ True ∧ (assocAttr alt).isSome = true
    · rw [if_pos hc2]
      refine ⟨rfl, by simp only []; omega, ?_, ⟨annOf 0 .fullyAssoc alt, by simp, by rw [hnew]; exact he⟩, fun hn => by simp at hn⟩
      intro a ha
      simp only [List.mem_singleton] at ha
      rw [ha, hnew]; simp only []; omega
    · rw [if_neg hc2]
      have hno : (assocAttr alt).isSome = false := by
        cases hx : (assocAttr alt).isSome with
        | false => rfl
        | true => exact absurd ⟨he, trivial, hx⟩ hc2
      refine ⟨rfl, by simp only []; omega, ?_, ⟨annOf 0 .fullyAssoc alt, by simp, by rw [hnew]; exact he⟩, ?_⟩
      · intro a ha
        simp only [List.mem_singleton] at ha
        rw [ha, hnew]; simp only []; omega
      · intro _
        refine ⟨?_, fun _ => hnewA hno⟩
        intro a ha _
        simp only [List.mem_singleton] at ha
        rw [ha]; exact hnewA hno

/-- **Validation (repaired validator) makes expansion total.** -/
theorem validated_expand_ok (nt : Nonterm)
    (hv : validatePrecedence true nt.alts = .ok ()) (hp : hasPrecAttr nt = true)
    (hamb : ∀ alt ∈ nt.alts, noAmbigL alt.expr = true) :
    expandNonterm nt = .ok (tiered nt (inherit 0 .fullyAssoc nt.alts)) := by
  unfold hasPrecAttr at hp
  cases halts : nt.alts with
  | nil => simp [halts] at hp
  | cons first rest =>
    simp only [halts] at hp
    unfold validatePrecedence at hv
    simp only [halts] at hv
    have hany : (first :: rest).any (fun alt => alt.attrs.any isPrecOrAssoc) = true := by
      simp [List.any_cons, hp]
    simp only [hany, List.isEmpty_cons, Bool.false_eq_true, not_true_eq_false, or_self, if_false] at hv
    have hpa : first.attrs.find? (fun a => decide (a.id = PREC_ATTR)) = precAttr first := rfl
    rw [hpa] at hv
    by_cases hfirst : (precAttr first).isNone = true
    · simp [hfirst] at hv
    · have hsome : (precAttr first).isSome = true := by
        cases hx : precAttr first with
        | none => simp [hx] at hfirst
        | some q => rfl
      simp only [hfirst, Bool.false_eq_true, if_false] at hv
      cases hloop : validateLoop true { minLvl := U32_MAX, minAnn := false, lastLvl := 0 } (first :: rest) with
      | error e => simp [hloop] at hv
      | ok stf =>
        simp only [hloop] at hv
        have hclean : stf.minAnn = false := by
          cases hx : stf.minAnn with
          | false => rfl
          | true => simp [hx] at hv
        simp only [validateLoop] at hloop
        cases hs : validateStep true { minLvl := U32_MAX, minAnn := false, lastLvl := 0 } first with
        | error e => simp [hs] at hloop
        | ok s1 =>
          simp only [hs] at hloop
          obtain ⟨hr1, hinv1⟩ := vinv_first first s1 hsome hs
          obtain ⟨hrs, l', a', hfin⟩ := vinv_loop rest s1 _ _ _ stf hinv1 hloop
          have hread : ∀ alt ∈ nt.alts, Readable alt := by
            intro x hx
            rw [halts] at hx
            simp only [List.mem_cons] at hx
            cases hx with
            | inl e => rw [e]; exact hr1
            | inr m => exact hrs x m
          have hanns : inherit 0 .fullyAssoc nt.alts
              = [annOf 0 .fullyAssoc first] ++ inherit (effLevel 0 first) (effAssoc .fullyAssoc first) rest := by
            rw [halts]; rfl
          have hann := annotate_readable 0 .fullyAssoc nt.alts hread
          have key : ∀ a ∈ inherit 0 .fullyAssoc nt.alts, noAmbigL a.alt.expr = true := by
            have gen : ∀ (l0 : Nat) (a0 : Assoc) (alts : List Alt),
                (∀ alt ∈ alts, noAmbigL alt.expr = true) →
                ∀ a ∈ inherit l0 a0 alts, noAmbigL a.alt.expr = true := by
              intro l0 a0 alts
              induction alts generalizing l0 a0 with
              | nil => intro _ a ha; simp [inherit] at ha
              | cons x xs ih =>
                intro hx a ha
                simp only [inherit, List.mem_cons] at ha
                cases ha with
                | inl e => rw [e]; exact hx x (by simp)
                | inr m => exact ih _ _ (fun y hy => hx y (by simp [hy])) a m
            exact gen _ _ _ hamb
          rw [← halts]
          apply expandNonterm_eq_tiered nt _ hann
          · rw [hanns]; simp
          · exact key
          · intro a ha hmin
            rw [hanns] at ha hmin
            obtain ⟨w, hw, hwl⟩ := hfin.attained
            have h1 := hfin.lower a ha
            have h2 := hmin w hw
            exact (hfin.clean hclean).1 a ha (by omega)

end LalrpopModel.Prec
