import LalrpopModel.Model.LR.Validate
/-!
LR completeness, part 1: tree vocabulary (`shape`, `skeleton`, `post`), lookahead of a token
list, and soundness of the checked `nullable`/`first` tables (`first_sound`): clause V1 of the
validator (`checkFirst`) makes the tables supersets of the true sets, which is all the
completeness proof needs from them.
-/
namespace LalrpopModel.LR

/-! ### Erasures of trees -/

mutual
/-- the tree with the spans of its nodes erased (productions, children, leaf tokens are kept);
    the driver computes the spans itself, so values are compared up to `shape` -/
def Tree.shape : Tree → Tree
  | .leaf a => .leaf a
  | .node p _ _ ks => .node p 0 0 ks.shape
  | .err e d => .err e d
def Forest.shape : Forest → Forest
  | .nil => .nil
  | .cons t ts => .cons t.shape ts.shape
end

/-- a token reduced to its kind -/
def Tok.erase (a : Tok) : Tok := { l := 0, kind := a.kind, id := 0, r := 0 }

mutual
/-- the tree with spans erased and every leaf token reduced to its kind -/
def Tree.skeleton : Tree → Tree
  | .leaf a => .leaf a.erase
  | .node p _ _ ks => .node p 0 0 ks.skeleton
  | .err e d => .err e d
def Forest.skeleton : Forest → Forest
  | .nil => .nil
  | .cons t ts => .cons t.skeleton ts.skeleton
end

mutual
/-- productions of the nodes of a tree in post-order -/
def Tree.post : Tree → List Nat
  | .leaf _ => []
  | .node p _ _ ks => ks.post ++ [p]
  | .err _ _ => []
def Forest.post : Forest → List Nat
  | .nil => []
  | .cons t ts => t.post ++ ts.post
end

theorem Forest.toList_ofList (l : List Tree) : (Forest.ofList l).toList = l := by
  induction l with
  | nil => rfl
  | cons a l ih => simp [Forest.ofList, Forest.toList, ih]

theorem Forest.ofList_toList : (f : Forest) → Forest.ofList f.toList = f
  | .nil => rfl
  | .cons t ts => by simp [Forest.toList, Forest.ofList, Forest.ofList_toList ts]

theorem Forest.shape_eq_ofList : (f : Forest) → f.shape = Forest.ofList (f.toList.map Tree.shape)
  | .nil => rfl
  | .cons t ts => by simp [Forest.toList, Forest.ofList, Forest.shape, Forest.shape_eq_ofList ts]

/-- forests whose trees agree up to `shape` agree up to `shape` -/
theorem Forest.shape_ofList_of_map_eq {l : List Tree} {f : Forest}
    (h : l.map Tree.shape = f.toList.map Tree.shape) : (Forest.ofList l).shape = f.shape := by
  rw [Forest.shape_eq_ofList, Forest.shape_eq_ofList f, Forest.toList_ofList, h]

mutual
theorem Tree.skeleton_shape : (t : Tree) → t.shape.skeleton = t.skeleton
  | .leaf _ => rfl
  | .node _ _ _ ks => by simp [Tree.shape, Tree.skeleton, Forest.skeleton_shape ks]
  | .err _ _ => rfl
theorem Forest.skeleton_shape : (f : Forest) → f.shape.skeleton = f.skeleton
  | .nil => rfl
  | .cons t ts => by simp [Forest.shape, Forest.skeleton, Tree.skeleton_shape t, Forest.skeleton_shape ts]
end

/-- equal shapes have equal skeletons -/
theorem Tree.skeleton_of_shape_eq {t u : Tree} (h : t.shape = u.shape) : t.skeleton = u.skeleton := by
  rw [← Tree.skeleton_shape t, ← Tree.skeleton_shape u, h]

theorem Forest.wf_length {G : Grammar} {e : Option Term} :
    (fs : Forest) → {Xs : List Sym} → Forest.WF G e fs Xs → fs.toList.length = Xs.length
  | .nil, _, h => by cases h; rfl
  | .cons t ts, _, h => by
    cases h with
    | cons _ _ X Xs' _ _ h3 => simp [Forest.toList, Forest.wf_length ts h3]

/-! ### Lookahead of a token list -/

/-- the lookahead the driver sees in front of the tokens `v`: the kind of the first, or EOF -/
def laOf : List Tok → LA
  | [] => none
  | a :: _ => a.kind

/-- every token has a kind (`token_to_index` answers) -/
def AllK (v : List Tok) : Prop := ∀ a ∈ v, ∃ k, a.kind = some k

theorem AllK.append {u v : List Tok} (hu : AllK u) (hv : AllK v) : AllK (u ++ v) := by
  intro a ha
  rcases List.mem_append.mp ha with h | h
  · exact hu a h
  · exact hv a h

theorem AllK.tail {a : Tok} {v : List Tok} (h : AllK (a :: v)) : AllK v :=
  fun b hb => h b (List.mem_cons_of_mem _ hb)

theorem AllK.right {u v : List Tok} (h : AllK (u ++ v)) : AllK v :=
  fun b hb => h b (List.mem_append_right _ hb)

mutual
/-- the tokens under a well-formed tree all have kinds -/
theorem Tree.WF.allK {G : Grammar} {e : Option Term} : (t : Tree) → Tree.WF G e t → AllK t.yield
  | .leaf a, h => by
    cases h with
    | leaf _ k hk =>
      intro b hb
      simp [Tree.yield] at hb
      subst hb
      exact ⟨k, hk⟩
  | .node _ _ _ ks, h => by
    cases h with
    | node _ _ _ pr _ _ hks =>
      simpa [Tree.yield] using Forest.WF.allK ks hks
  | .err _ _, _ => by
    intro b hb
    simp [Tree.yield] at hb
theorem Forest.WF.allK {G : Grammar} {e : Option Term} :
    (fs : Forest) → {Xs : List Sym} → Forest.WF G e fs Xs → AllK fs.yield
  | .nil, _, _ => by
    intro b hb
    simp [Forest.yield] at hb
  | .cons t ts, _, h => by
    cases h with
    | cons _ _ _ _ h1 _ h3 =>
      simpa [Forest.yield] using AllK.append (Tree.WF.allK t h1) (Forest.WF.allK ts h3)
end

/-! ### V1: the checked nullable/first tables contain the true sets -/

section
variable {G : Grammar} {ann : Ann}

theorem subsetOf_mem_C {xs ys : List Nat} (h : subsetOf xs ys = true) {k : Nat} (hk : k ∈ xs) : k ∈ ys := by
  simp [subsetOf, List.all_eq_true] at h
  exact h k hk

/-- what `checkFirst` says about one production -/
theorem checkFirst_prod (hF : checkFirst G ann = true) {p : Nat} {pr : Production}
    (hp : G.prods[p]? = some pr) :
    (pr.rhs.all ann.nullableSym = true → ann.nullableNT pr.lhs = true) ∧
      checkFirst.go ann pr pr.rhs = true := by
  have hmem : pr ∈ G.prods := List.mem_of_getElem? hp
  simp only [checkFirst, Bool.and_eq_true, List.all_eq_true, decide_eq_true_eq] at hF
  have := hF.2 pr hmem
  simpa only [List.all_eq_true] using this

mutual
/-- `first_sound` for trees: an empty yield means the root is marked nullable, a non-empty yield
    starts with a terminal listed in `first` of the root -/
theorem first_sound_tree (hF : checkFirst G ann = true) :
    (t : Tree) → (X : Sym) → Tree.WF G none t → t.root G none = some X →
      (t.yield = [] → ann.nullableSym X = true) ∧
      (∀ a rest, t.yield = a :: rest → ∃ k, a.kind = some k ∧ k ∈ ann.firstSym X)
  | .leaf a, X, hwf, hroot => by
    cases hwf with
    | leaf _ k hk =>
      simp [Tree.root, hk] at hroot
      subst hroot
      refine ⟨by simp [Tree.yield], ?_⟩
      intro b rest hb
      simp [Tree.yield] at hb
      obtain ⟨rfl, _⟩ := hb
      exact ⟨k, hk, by simp [Ann.firstSym]⟩
  | .node q _ _ ks, X, hwf, hroot => by
    cases hwf with
    | node _ _ _ qr _ hq hks =>
      simp [Tree.root, hq] at hroot
      subst hroot
      obtain ⟨hnull, hgo⟩ := checkFirst_prod hF hq
      obtain ⟨h1, h2⟩ := first_sound_forest hF ks qr.rhs hks
      refine ⟨?_, ?_⟩
      · intro hy
        exact hnull (h1 (by simpa [Tree.yield] using hy))
      · intro a rest hy
        exact h2 a rest qr (by simpa [Tree.yield] using hy) hgo
  | .err _ _, _, hwf, _ => by
    cases hwf with
    | err _ _ k hk => cases hk
/-- `first_sound` for forests, against the closure condition `checkFirst.go` of a production -/
theorem first_sound_forest (hF : checkFirst G ann = true) :
    (fs : Forest) → (β : List Sym) → Forest.WF G none fs β →
      (fs.yield = [] → β.all ann.nullableSym = true) ∧
      (∀ a rest (pr : Production), fs.yield = a :: rest → checkFirst.go ann pr β = true →
        ∃ k, a.kind = some k ∧ k ∈ ann.firstNT pr.lhs)
  | .nil, β, hwf => by
    cases hwf
    refine ⟨by simp, ?_⟩
    intro a rest pr hy
    simp [Forest.yield] at hy
  | .cons t ts, β, hwf => by
    cases hwf with
    | cons _ _ X Xs hwt hroot hwts =>
      obtain ⟨t1, t2⟩ := first_sound_tree hF t X hwt hroot
      obtain ⟨f1, f2⟩ := first_sound_forest hF ts Xs hwts
      refine ⟨?_, ?_⟩
      · intro hy
        simp only [Forest.yield, List.append_eq_nil_iff] at hy
        simp [t1 hy.1, f1 hy.2]
      · intro a rest pr hy hgo
        rw [checkFirst.go] at hgo
        simp only [Bool.and_eq_true] at hgo
        simp only [Forest.yield] at hy
        cases hty : t.yield with
        | nil =>
          rw [hty] at hy
          have hn := t1 hty
          rw [hn] at hgo
          exact f2 a rest pr (by simpa using hy) (by simpa using hgo.2)
        | cons b more =>
          rw [hty] at hy
          simp at hy
          obtain ⟨rfl, _⟩ := hy
          obtain ⟨k, hk, hkX⟩ := t2 _ _ hty
          exact ⟨k, hk, subsetOf_mem_C hgo.1 hkX⟩
end

/-- `first_sound`, lifted to `firstSeq`: the lookahead in front of the yield of a forest for `β`
    followed by `v` is one of the lookaheads `firstSeq β (laOf v)` -/
theorem firstSeq_sound (hF : checkFirst G ann = true) :
    (fs : Forest) → (β : List Sym) → (v : List Tok) → Forest.WF G none fs β →
      laOf (fs.yield ++ v) ∈ ann.firstSeq β (laOf v)
  | .nil, β, v, hwf => by
    cases hwf
    simp [Forest.yield, Ann.firstSeq]
  | .cons t ts, β, v, hwf => by
    cases hwf with
    | cons _ _ X Xs hwt hroot hwts =>
      obtain ⟨t1, t2⟩ := first_sound_tree hF t X hwt hroot
      have ih := firstSeq_sound hF ts Xs v hwts
      simp only [Forest.yield, Ann.firstSeq, List.mem_append, List.mem_map]
      cases hty : t.yield with
      | nil =>
        right
        simpa [t1 hty] using ih
      | cons b more =>
        left
        obtain ⟨k, hk, hkX⟩ := t2 _ _ hty
        exact ⟨k, hkX, by simp [laOf, hk]⟩

end

end LalrpopModel.LR
