import LalrpopModel.Model.LR.Validate
/-!
Soundness of the model driver, part 1: definitions of the stack invariant and list/forest lemmas.

* `errT T`: the terminal an error node stands for (the last terminal, only with recovery on).
* `Path A states Xs`: the state stack (top first) is a path of the automaton from state 0 over the
  symbols `Xs` (top first).
* `TreesOK G e syms Xs`: the symbol stack holds well-formed trees whose roots are `Xs`.
* `ItemAt G A p d states Xs`: the item `(p,d)` is valid for the stack: the top `d` symbols are
  `rhs_p[0..d)` and the state below them holds `(p,0)`.
-/
namespace LalrpopModel.LR

/-- the terminal an error node stands for -/
def errT (T : Tables) : Option Term := if T.usesRecovery then some (T.nTerm - 1) else none

mutual
/-- does the tree contain an error node? -/
def Tree.hasErr : Tree → Bool
  | .leaf _ => false
  | .node _ _ _ ks => ks.hasErr
  | .err _ _ => true
def Forest.hasErr : Forest → Bool
  | .nil => false
  | .cons t ts => t.hasErr || ts.hasErr
end

/-- the tokens of a stream (error items left out) -/
def itemToks : List Item → List Tok
  | [] => []
  | .tok t :: r => t :: itemToks r
  | .err _ :: r => itemToks r

@[simp] theorem itemToks_nil : itemToks [] = [] := rfl
@[simp] theorem itemToks_tok (t : Tok) (r : List Item) : itemToks (.tok t :: r) = t :: itemToks r := rfl
@[simp] theorem itemToks_err (e : Nat) (r : List Item) : itemToks (.err e :: r) = itemToks r := rfl

theorem itemToks_append (a b : List Item) : itemToks (a ++ b) = itemToks a ++ itemToks b := by
  induction a with
  | nil => rfl
  | cons x a ih => cases x <;> simp [ih]

@[simp] theorem itemToks_map_tok (l : List Tok) : itemToks (l.map Item.tok) = l := by
  induction l with
  | nil => rfl
  | cons x l ih => simp [ih]

/-! ### forests -/

theorem Forest.yield_ofList_append (l : List Tree) (t : Tree) :
    (Forest.ofList (l ++ [t])).yield = (Forest.ofList l).yield ++ t.yield := by
  induction l with
  | nil => simp [Forest.ofList, Forest.yield]
  | cons a l ih => simp [Forest.ofList, Forest.yield, ih]

theorem Forest.wf_snoc {G : Grammar} {e : Option Term} :
    ∀ (l : List Tree) (Xs : List Sym) (t : Tree) (X : Sym),
      Forest.WF G e (Forest.ofList l) Xs → Tree.WF G e t → t.root G e = some X →
      Forest.WF G e (Forest.ofList (l ++ [t])) (Xs ++ [X])
  | [], Xs, t, X, h, ht, hr => by
    simp only [Forest.ofList] at h
    cases h
    exact .cons _ _ _ _ ht hr .nil
  | a :: l, Xs, t, X, h, ht, hr => by
    simp only [Forest.ofList] at h
    cases h with
    | cons _ _ Y Ys h1 h2 h3 =>
      exact .cons _ _ _ _ h1 h2 (Forest.wf_snoc l Ys t X h3 ht hr)

mutual
theorem Tree.wf_none_noErr {G : Grammar} : (t : Tree) → Tree.WF G none t → t.hasErr = false
  | .leaf _, _ => rfl
  | .node _ _ _ ks, h => by
    cases h with
    | node _ _ _ pr _ _ hks => simpa [Tree.hasErr] using Forest.wf_none_noErr ks hks
  | .err _ _, h => by
    cases h with
    | err _ _ k hk => cases hk
theorem Forest.wf_none_noErr {G : Grammar} : (f : Forest) → {Xs : List Sym} → Forest.WF G none f Xs → f.hasErr = false
  | .nil, _, _ => rfl
  | .cons t ts, _, h => by
    cases h with
    | cons _ _ _ _ h1 _ h3 =>
      simp [Forest.hasErr, Tree.wf_none_noErr t h1, Forest.wf_none_noErr ts h3]
end

mutual
theorem Tree.wf_yield_kind {G : Grammar} {e : Option Term} : (t : Tree) → Tree.WF G e t →
    ∀ a ∈ t.yield, ∃ k, a.kind = some k
  | .leaf b, h => by
    cases h with
    | leaf _ k hk => intro a ha; simp [Tree.yield] at ha; subst ha; exact ⟨k, hk⟩
  | .node _ _ _ ks, h => by
    cases h with
    | node _ _ _ pr _ _ hks => simpa [Tree.yield] using Forest.wf_yield_kind ks hks
  | .err _ _, _ => by simp [Tree.yield]
theorem Forest.wf_yield_kind {G : Grammar} {e : Option Term} : (f : Forest) → {Xs : List Sym} →
    Forest.WF G e f Xs → ∀ a ∈ f.yield, ∃ k, a.kind = some k
  | .nil, _, _ => by simp [Forest.yield]
  | .cons t ts, _, h => by
    cases h with
    | cons _ _ _ _ h1 _ h3 =>
      intro a ha
      simp only [Forest.yield, List.mem_append] at ha
      cases ha with
      | inl ha => exact Tree.wf_yield_kind t h1 a ha
      | inr ha => exact Forest.wf_yield_kind ts h3 a ha
end

/-! ### the stack invariant -/

/-- the state stack (top first) is a path of the automaton from state 0 over `Xs` (top first) -/
inductive Path (A : Automaton) : List Nat → List Sym → Prop
  | base : Path A [0] []
  | push {s s' : Nat} {ss : List Nat} {X : Sym} {Xs : List Sym} :
      Path A (s :: ss) Xs → A.trans s X = some s' → Path A (s' :: s :: ss) (X :: Xs)

/-- the symbol stack (top first) holds well-formed trees with roots `Xs` -/
inductive TreesOK (G : Grammar) (e : Option Term) : List SymTriple → List Sym → Prop
  | nil : TreesOK G e [] []
  | cons {y : SymTriple} {ys : List SymTriple} {X : Sym} {Xs : List Sym} :
      Tree.WF G e y.2.1 → y.2.1.root G e = some X → TreesOK G e ys Xs → TreesOK G e (y :: ys) (X :: Xs)

/-- item `(p,d)` is valid for the stack -/
def ItemAt (G : Grammar) (A : Automaton) (p : Nat) : Nat → List Nat → List Sym → Prop
  | 0, s :: _, _ => (p, 0) ∈ A.coresOf s
  | d + 1, _ :: ss, X :: Xs => symAt G p d = some X ∧ ItemAt G A p d ss Xs
  | _, _, _ => False

/-- tokens under the symbol stack, bottom to top -/
def stackYield : List SymTriple → List Tok
  | [] => []
  | y :: ys => stackYield ys ++ y.2.1.yield

theorem Path.length {A : Automaton} {st : List Nat} {Xs : List Sym} (h : Path A st Xs) :
    st.length = Xs.length + 1 := by
  induction h with
  | base => rfl
  | push _ _ ih => simp [ih]

theorem Path.ne_nil {A : Automaton} {st : List Nat} {Xs : List Sym} (h : Path A st Xs) : st ≠ [] := by
  cases h <;> simp

theorem Path.tail {A : Automaton} {s' s : Nat} {ss : List Nat} {Xs : List Sym}
    (h : Path A (s' :: s :: ss) Xs) : Path A (s :: ss) Xs.tail := by
  cases h with
  | push h1 _ => exact h1

theorem Path.drop {A : Automaton} : ∀ (n : Nat) {st : List Nat} {Xs : List Sym} {b : Nat} {m : List Nat},
    Path A st Xs → st.drop n = b :: m → Path A (b :: m) (Xs.drop n)
  | 0, _, _, _, _, h, hd => by simpa [← hd] using h
  | n + 1, _, _, _, _, h, hd => by
    cases h with
    | base => simp at hd
    | push h1 _ =>
      simp only [List.drop_succ_cons] at hd ⊢
      exact Path.drop n h1 hd

theorem TreesOK.length {G : Grammar} {e : Option Term} {syms : List SymTriple} {Xs : List Sym}
    (h : TreesOK G e syms Xs) : syms.length = Xs.length := by
  induction h with
  | nil => rfl
  | cons _ _ _ ih => simp [ih]

theorem TreesOK.drop {G : Grammar} {e : Option Term} : ∀ (n : Nat) {syms : List SymTriple} {Xs : List Sym},
    TreesOK G e syms Xs → TreesOK G e (syms.drop n) (Xs.drop n)
  | 0, _, _, h => by simpa using h
  | n + 1, _, _, h => by
    cases h with
    | nil => simpa using TreesOK.nil
    | cons _ _ h3 => simpa using TreesOK.drop n h3

/-- all tokens under a well-formed stack have a kind -/
theorem TreesOK.yield_kind {G : Grammar} {e : Option Term} {syms : List SymTriple} {Xs : List Sym}
    (h : TreesOK G e syms Xs) : ∀ a ∈ stackYield syms, ∃ k, a.kind = some k := by
  induction h with
  | nil => simp [stackYield]
  | cons h1 _ _ ih =>
    intro a ha
    simp only [stackYield, List.mem_append] at ha
    cases ha with
    | inl ha => exact ih a ha
    | inr ha => exact Tree.wf_yield_kind _ h1 a ha

theorem stackYield_append (a b : List SymTriple) : stackYield (a ++ b) = stackYield b ++ stackYield a := by
  induction a with
  | nil => simp [stackYield]
  | cons x a ih => simp [stackYield, ih]

theorem stackYield_take_drop (n : Nat) (l : List SymTriple) :
    stackYield l = stackYield (l.drop n) ++ stackYield (l.take n) := by
  conv => lhs; rw [← List.take_append_drop n l]
  exact stackYield_append _ _

theorem yield_ofList_reverse (l : List SymTriple) :
    (Forest.ofList (l.reverse.map (·.2.1))).yield = stackYield l := by
  induction l with
  | nil => simp [Forest.ofList, Forest.yield, stackYield]
  | cons x l ih =>
    simp only [List.reverse_cons, List.map_append, List.map_cons, List.map_nil, stackYield]
    rw [Forest.yield_ofList_append, ih]

theorem stackYield_drop_sublist (n : Nat) (l : List SymTriple) :
    List.Sublist (stackYield (l.drop n)) (stackYield l) := by
  rw [stackYield_take_drop n l]
  exact List.sublist_append_left _ _

/-- consequences of item validity on the state stack alone -/
theorem ItemAt.drop {G : Grammar} {A : Automaton} {p : Nat} : ∀ (d : Nat) {st : List Nat} {Xs : List Sym},
    ItemAt G A p d st Xs → ∃ below more, st.drop d = below :: more ∧ (p, 0) ∈ A.coresOf below
  | 0, s :: ss, _, h => ⟨s, ss, rfl, by simpa [ItemAt] using h⟩
  | 0, [], _, h => by simp [ItemAt] at h
  | d + 1, [], _, h => by simp [ItemAt] at h
  | d + 1, _ :: _, [], h => by simp [ItemAt] at h
  | d + 1, _ :: ss, X :: Xs, h => by
    simp only [ItemAt] at h
    simpa using ItemAt.drop d h.2

theorem symAt_some {G : Grammar} {p d : Nat} {X : Sym} {pr : Production}
    (hp : G.prods[p]? = some pr) (h : symAt G p d = some X) : pr.rhs[d]? = some X := by
  simpa [symAt, hp] using h

/-- consequences of item validity on the symbol stack: the top `d` trees form a forest for
    the first `d` rhs symbols -/
theorem ItemAt.forest {G : Grammar} {A : Automaton} {e : Option Term} {p : Nat} {pr : Production}
    (hp : G.prods[p]? = some pr) : ∀ (d : Nat) {st : List Nat} {Xs : List Sym} {syms : List SymTriple},
    ItemAt G A p d st Xs → TreesOK G e syms Xs →
    d ≤ syms.length ∧ d ≤ pr.rhs.length ∧
      Forest.WF G e (Forest.ofList ((syms.take d).reverse.map (·.2.1))) (pr.rhs.take d)
  | 0, _, _, _, _, _ => by simpa [Forest.ofList] using Forest.WF.nil
  | d + 1, [], _, _, h, _ => by simp [ItemAt] at h
  | d + 1, _ :: _, [], _, h, _ => by simp [ItemAt] at h
  | d + 1, _ :: ss, X :: Xs, syms, h, ht => by
    simp only [ItemAt] at h
    cases ht with
    | cons h1 h2 h3 =>
      rename_i y ys
      obtain ⟨ih1, ih2, ih3⟩ := ItemAt.forest hp d h.2 h3
      have hX := symAt_some hp h.1
      obtain ⟨hlt, hXd⟩ := List.getElem?_eq_some_iff.mp hX
      refine ⟨by simp; omega, hlt, ?_⟩
      have e1 : pr.rhs.take (d + 1) = pr.rhs.take d ++ [X] := by
        rw [List.take_add_one, hX]; rfl
      rw [e1]
      simp only [List.take_succ_cons, List.reverse_cons, List.map_append, List.map_cons, List.map_nil]
      exact Forest.wf_snoc _ _ _ _ ih3 h1 h2

end LalrpopModel.LR
