import LalrpopModel.Lemmas.LRTermMain
import LalrpopModel.Lemmas.LRGenericFuel
/-!
C08 termination, part 4: the phases of `error_recovery`.

* `.recReduce` runs the reduce loop under the error terminal (`step_rec`, `rec_follow`).
* `.recFind`: one iteration of `'find_state` either ends the run, or drops the lookahead and pulls
  the next item, or pushes the error state on a stack for which `accepts` has just answered
  `true` (`step_find`).
* A stack certified by `accepts` does not run into the error action under the same lookahead
  (`cert_not_false`): the parse loop entered after a recovery shifts the lookahead (or ends), so
  no two recoveries happen at the same position of the input.
-/
namespace LalrpopModel.LR.Term
open LalrpopModel.LR LalrpopModel.LR.Generic

variable {T : Tables} {F af : Nat} {failAt : Option Nat} {startLoc : Int}

/-! ### certified stacks -/

/-- `accepts` skips the iterations of the loop -/
theorem accepts_iter_eq {la : LA} {N : Nat} {st fin : List Nat} (hit : Iter T la N st fin) :
    ∀ af, accepts T (af + N) st la = accepts T af fin la := by
  induction hit with
  | refl st => intro af; rfl
  | @step n st st' fin hs _ ih =>
    intro af
    rcases accepts_succ_cases (T := T) (af + n) st la with ⟨st'', hs', he⟩ | ⟨h, _⟩
    · rw [hs] at hs'
      cases hs'
      rw [← Nat.add_assoc, he]
      exact ih af
    · exact (h st' hs).elim

/-- a stack for which `accepts` answers `true` does not end its loop in the error action -/
theorem cert_not_false {la : LA} {N : Nat} {st fin : List Nat} (hit : Iter T la N st fin)
    (hfalse : ∀ k, accepts T (k + 1) fin la = .ok false) :
    ∀ af0, accepts T af0 st la ≠ .ok true := by
  intro af0 hacc
  have h1 := accepts_ok_mono T hacc (af' := af0 + 1 + N) (by omega)
  rw [accepts_iter_eq hit, hfalse] at h1
  cases h1

/-! ### the reduce loop of `error_recovery` -/

/-- the lookahead of that loop: the error terminal -/
def errLA (T : Tables) : LA := some (T.nTerm - 1)

theorem errLA_ok (hT : TermOK T F) (hrec : T.usesRecovery = true) : LAok T (errLA T) := by
  have := hT.err_term hrec
  show T.nTerm - 1 < T.nTerm
  omega

theorem step_rec (c : Cfg) (la : Option (Tok × Term)) (e : PErr) (fe : Bool) :
    (∃ c' r, step T af failAt startLoc c (.recReduce la e fe) = (c', .done r) ∧ r ≠ .panic .outOfFuel) ∨
    (∃ c', step T af failAt startLoc c (.recReduce la e fe) = (c', .recReduce la e fe) ∧
      locStep T (errLA T) c.states = .step c'.states ∧ c'.input = c.input) ∨
    (Halts T (errLA T) c.states ∧
      step T af failAt startLoc c (.recReduce la e fe) = (c, .recFind la e [] c.states.length fe)) := by
  unfold step
  cases hs : c.states with
  | nil => left; exact ⟨c, _, rfl, by simp⟩
  | cons top rest =>
    have hstop : redInfo T (errLA T) top = none → Halts T (errLA T) (top :: rest) := by
      intro h st' hs
      rw [locStep_of_none h] at hs
      cases hs
    simp only
    cases ha : T.errorActionAt top with
    | none => left; exact ⟨c, _, rfl, by simp⟩
    | some a =>
      have haf : actionFor T top (errLA T) = some a := ha
      simp only
      cases hp : asReduce a with
      | none =>
        right; right
        exact ⟨hstop (by simp [redInfo, haf, hp]), rfl⟩
      | some p =>
        simp only
        cases hred : reduce T failAt startLoc c p (la.map (·.1.l)) with
        | continue_ c' =>
          right; left
          obtain ⟨n, A, below, more, h1, h2, h3, hd, hst, hin⟩ := reduce_continue_inv hred
          refine ⟨c', rfl, ?_, hin⟩
          rw [locStep_of (redInfo_eq_some haf hp h1 h2 h3), ← hs, hd, hst]
        | finished c' r =>
          left
          exact ⟨c', r, rfl, reduce_finished_ne_fuel hred⟩

theorem rec_follow {N : Nat} {st fin : List Nat} (hit : Iter T (errLA T) N st fin)
    (hh : Halts T (errLA T) fin) (la : Option (Tok × Term)) (e : PErr) (fe : Bool) :
    ∀ c : Cfg, c.states = st →
    ∃ n c' ph', n ≤ N + 1 ∧ run T af failAt startLoc n c (.recReduce la e fe) = (c', ph') ∧
      ((∃ r, ph' = .done r ∧ r ≠ .panic .outOfFuel) ∨
       (ph' = .recFind la e [] fin.length fe ∧ c'.states = fin ∧ c'.input = c.input)) := by
  induction hit with
  | refl st =>
    intro c hc
    subst hc
    rcases step_rec (T := T) (af := af) (failAt := failAt) (startLoc := startLoc) c la e fe with
      ⟨c', r, hs, hr⟩ | ⟨c', _, hl, _⟩ | ⟨_, hs⟩
    · exact ⟨1, c', _, by omega, by rw [run_one, hs], .inl ⟨r, rfl, hr⟩⟩
    · exact (hh _ hl).elim
    · exact ⟨1, c, _, by omega, by rw [run_one, hs], .inr ⟨rfl, rfl, rfl⟩⟩
  | @step n st st' fin hs _ ih =>
    intro c hc
    subst hc
    rcases step_rec (T := T) (af := af) (failAt := failAt) (startLoc := startLoc) c la e fe with
      ⟨c', r, hst, hr⟩ | ⟨c', hst, hl, hin⟩ | ⟨hH, _⟩
    · exact ⟨1, c', _, by omega, by rw [run_one, hst], .inl ⟨r, rfl, hr⟩⟩
    · rw [hs] at hl
      cases hl
      obtain ⟨m, c'', ph'', hm, hrun, hres⟩ := ih hh c' rfl
      refine ⟨m + 1, c'', ph'', by omega, by rw [run_step_then hst]; exact hrun, ?_⟩
      rw [hin] at hres
      exact hres
    · exact (hH _ hs).elim

/-! ### entering `error_recovery` -/

theorem enterRecovery_cases (hT : TermOK T F) {c : Cfg} (hadj : Adj T c.states)
    (haf : accFuel F c.states.length ≤ af) (la : Option (Tok × Term)) (fe : Bool) :
    (∃ r, enterRecovery T af c la fe = (c, .done r) ∧ r ≠ .panic .outOfFuel) ∨
    (T.usesRecovery = true ∧ ∃ pe, enterRecovery T af c la fe = (c, .recReduce la pe fe)) := by
  cases hrec : T.usesRecovery with
  | false => exact .inl (enterRecovery_norec hT hrec hadj haf la fe)
  | true =>
    unfold enterRecovery
    have := unrecognizedError_ne_fuel hT hadj haf (la.map (·.1))
    cases he : unrecognizedError T af c (la.map (·.1)) with
    | error e =>
      left
      refine ⟨.panic e, rfl, ?_⟩
      intro h
      cases h
      exact this he
    | ok pe =>
      right
      refine ⟨rfl, pe, ?_⟩
      simp [hrec]

/-! ### `'find_state` -/

theorem Adj.truncBot {states : List Nat} (h : Adj T states) {j st : Nat} {more : List Nat}
    (ht : truncBot states j = st :: more) : Adj T (st :: more) ∧ (st :: more).length ≤ states.length := by
  unfold LalrpopModel.LR.truncBot at ht
  refine ⟨Adj.drop _ h ht, ?_⟩
  rw [← ht, List.length_drop]
  omega

theorem Adj.push_err (hT : TermOK T F) (hrec : T.usesRecovery = true) {st : Nat} {more : List Nat}
    (h : Adj T (st :: more)) {a : Int} {es : Nat} (ha : T.errorActionAt st = some a)
    (hes : asShift a = some es) : Adj T (es :: st :: more) := by
  have := hT.err_term hrec
  exact .cons (.inr ⟨T.nTerm - 1, a, by omega, ha, hes⟩) h

theorem findState_spec (oi : Option Term) (sl : Nat) (states : List Nat) :
    ∀ k, (∀ e, findState T af oi sl states k = .error e →
        (∀ j st more a es, truncBot states j = st :: more → T.errorActionAt st = some a →
          asShift a = some es → accepts T af (es :: st :: more) oi ≠ .error .outOfFuel) →
        e ≠ .outOfFuel) ∧
      (∀ top, findState T af oi sl states k = .ok (some top) → ∃ st more a es,
        truncBot states (top + 1) = st :: more ∧ T.errorActionAt st = some a ∧ asShift a = some es ∧
        accepts T af (es :: st :: more) oi = .ok true) := by
  intro k
  induction k with
  | zero => exact ⟨fun e h _ => by simp [findState] at h, fun top h => by simp [findState] at h⟩
  | succ k ih =>
    unfold findState
    simp only
    cases hc : truncBot states (k + 1) with
    | nil => exact ⟨fun e h _ => (by cases h; simp), fun top h => (by cases h)⟩
    | cons st more =>
      simp only
      cases ha : T.errorActionAt st with
      | none => exact ⟨fun e h _ => (by cases h; simp), fun top h => (by cases h)⟩
      | some a =>
        simp only
        cases hes : asShift a with
        | none => exact ih
        | some es =>
          simp only
          cases hacc : accepts T af (es :: st :: more) oi with
          | error e =>
            refine ⟨fun e' h hne => ?_, fun top h => (by cases h)⟩
            have hn := hne (k + 1) st more a es hc ha hes
            cases h
            intro h
            exact hn (h ▸ hacc)
          | ok b =>
            cases b with
            | true =>
              refine ⟨fun e h _ => (by cases h), fun top h => ?_⟩
              cases h
              exact ⟨st, more, a, es, hc, ha, hes, hacc⟩
            | false => exact ih

/-! ### the tail of `error_recovery` -/

theorem recStart_err {c : Cfg} {dropped : List Tok} {top : Nat} {e : PanicTag}
    (h : recStart startLoc c dropped top = .error e) : e ≠ .outOfFuel := by
  unfold recStart at h
  repeat' split at h
  all_goals first | (cases h; done) | (cases h; simp)

theorem recEnd_err {c : Cfg} {la : Option (Tok × Term)} {dropped : List Tok} {sl top : Nat} {l : Int}
    {e : PanicTag} (h : recEnd c la dropped sl top l = .error e) : e ≠ .outOfFuel := by
  unfold recEnd at h
  repeat' split at h
  all_goals first | (cases h; done) | (cases h; simp)

/-- `pushRecovery` panics (never with the fuel tag) or pushes the error state on the truncated stack -/
def PushOK (T : Tables) (c : Cfg) (la : Option (Tok × Term)) (top : Nat) (fe : Bool) (res : Cfg × Phase) : Prop :=
  (∃ tag, res = (c, .done (.panic tag)) ∧ tag ≠ .outOfFuel) ∨
  (∃ sym rs rest a es, truncBot c.states (top + 1) = rs :: rest ∧ T.errorActionAt rs = some a ∧
    asShift a = some es ∧
    res = ({ c with states := es :: rs :: rest, symbols := sym :: truncBot c.symbols top }, afterPh la fe))

theorem pushRecovery_ok (c : Cfg) (la : Option (Tok × Term)) (error : PErr) (dropped : List Tok)
    (sl top : Nat) (fe : Bool) :
    PushOK T c la top fe (pushRecovery T startLoc c la error dropped sl top fe) := by
  unfold pushRecovery
  simp only
  change PushOK T c la top fe
    (match recStart startLoc c dropped top with
      | .error e => (c, Phase.done (.panic e))
      | .ok start => _)
  cases hl : recStart startLoc c dropped top with
  | error e => exact .inl ⟨e, rfl, recStart_err hl⟩
  | ok l =>
    simp only
    change PushOK T c la top fe
      (match recEnd c la dropped sl top l with
        | .error e => (c, Phase.done (.panic e))
        | .ok end_ => _)
    cases hr : recEnd c la dropped sl top l with
    | error e => exact .inl ⟨e, rfl, recEnd_err hr⟩
    | ok r =>
      simp only
      cases hrs : truncBot c.states (top + 1) with
      | nil => exact .inl ⟨_, rfl, by simp⟩
      | cons rs rest =>
        simp only
        cases ha : T.errorActionAt rs with
        | none => exact .inl ⟨_, rfl, by simp⟩
        | some a =>
          simp only
          cases hes : asShift a with
          | none => exact .inl ⟨_, rfl, by simp⟩
          | some es =>
            simp only [afterRecovery_eq]
            exact .inr ⟨_, rs, rest, a, es, hrs, ha, hes, rfl⟩

/-! ### one iteration of `'find_state` -/

theorem step_find (hT : TermOK T F) (hrec : T.usesRecovery = true) (c : Cfg) (hadj : Adj T c.states)
    (la : Option (Tok × Term))
    (hla : ∀ t i, la = some (t, i) → i < T.nTerm) (e : PErr) (dropped : List Tok) (sl : Nat) (fe : Bool) :
    (∃ c' r, step T af failAt startLoc c (.recFind la e dropped sl fe) = (c', .done r) ∧
      (accFuel F (c.states.length + 1) ≤ af → r ≠ .panic .outOfFuel)) ∨
    (∃ c', step T af failAt startLoc c (.recFind la e dropped sl fe) = (c', afterPh la fe) ∧
      Adj T c'.states ∧ c'.states.length ≤ c.states.length + 1 ∧ c'.input = c.input ∧
      accepts T af c'.states (la.map (·.2)) = .ok true) ∨
    (∃ t i t' i' rest, la = some (t, i) ∧ c.input = .tok t' :: rest ∧ t'.kind = some i' ∧
      step T af failAt startLoc c (.recFind la e dropped sl fe) =
        ({ c with input := rest, pulled := c.pulled + 1, lastLoc := t'.r },
          .recFind (some (t', i')) e (dropped ++ [t]) sl fe)) ∨
    (∃ t i, la = some (t, i) ∧ c.input = [] ∧
      step T af failAt startLoc c (.recFind la e dropped sl fe) =
        ({ c with pulled := c.pulled + 1 }, .recFind none e (dropped ++ [t]) sl fe)) := by
  have hoi : LAok T (la.map (·.2)) := by
    cases la with
    | none => trivial
    | some ti => exact hla ti.1 ti.2 rfl
  have hne : accFuel F (c.states.length + 1) ≤ af →
      ∀ j st more a es, truncBot c.states j = st :: more → T.errorActionAt st = some a →
      asShift a = some es → accepts T af (es :: st :: more) (la.map (·.2)) ≠ .error .outOfFuel := by
    intro haf j st more a es ht ha hes
    obtain ⟨h1, h2⟩ := hadj.truncBot ht
    apply accepts_terminates hT hoi (h1.push_err hT hrec ha hes)
    refine Nat.le_trans (accFuel_mono ?_) haf
    simp only [List.length_cons] at h2 ⊢
    omega
  obtain ⟨hf1, hf2⟩ := findState_spec (T := T) (af := af) (la.map (·.2)) sl c.states sl
  simp only [step]
  cases hf : findState T af (la.map (·.2)) sl c.states sl with
  | error tag => left; exact ⟨c, _, rfl, fun haf h => hf1 tag hf (hne haf) (by cases h; rfl)⟩
  | ok o =>
    cases o with
    | some top =>
      simp only
      obtain ⟨st, more, a, es, ht, ha, hes, hacc⟩ := hf2 top hf
      rcases pushRecovery_ok (T := T) (startLoc := startLoc) c la e dropped sl top fe with
        ⟨tag, hp, htag⟩ | ⟨sym, rs, rest, a', es', ht', ha', hes', hp⟩
      · left
        exact ⟨c, _, hp, fun _ h => htag (by cases h; rfl)⟩
      · right; left
        rw [ht] at ht'
        cases ht'
        rw [ha] at ha'
        cases ha'
        rw [hes] at hes'
        cases hes'
        obtain ⟨h1, h2⟩ := hadj.truncBot ht
        refine ⟨_, hp, h1.push_err hT hrec ha hes, ?_, rfl, hacc⟩
        simp only [List.length_cons] at h2 ⊢
        omega
    | none =>
      simp only
      cases la with
      | none => left; exact ⟨c, _, rfl, by simp⟩
      | some ti =>
        obtain ⟨t, i⟩ := ti
        simp only
        cases hinp : c.input with
        | nil =>
          right; right; right
          refine ⟨t, i, rfl, rfl, ?_⟩
          simp only [nextToken, hinp]
        | cons it rest =>
          cases it with
          | err e' =>
            left
            refine ⟨{ c with input := rest, pulled := c.pulled + 1 }, .err (.user e'), ?_, by simp⟩
            simp only [nextToken, hinp]
          | tok t' =>
            cases hk : t'.kind with
            | some i' =>
              right; right; left
              refine ⟨t, i, t', i', rest, rfl, rfl, hk, ?_⟩
              simp only [nextToken, hinp, hk]
            | none =>
              left
              let c1 : Cfg := { c with input := rest, pulled := c.pulled + 1, lastLoc := t'.r }
              have hne' : accFuel F (c.states.length + 1) ≤ af →
                  unrecognizedError T af c1 (some t') ≠ .error .outOfFuel := by
                intro haf
                have hfuel : accFuel F c1.states.length ≤ af := by
                  refine Nat.le_trans (accFuel_mono ?_) haf
                  show c.states.length ≤ _
                  omega
                exact unrecognizedError_ne_fuel hT (c := c1) hadj hfuel (some t')
              simp only [nextToken, hinp, hk]
              cases hu : unrecognizedError T af c1 (some t') with
              | error e' =>
                refine ⟨c1, .panic e', rfl, ?_⟩
                intro haf h
                cases h
                exact hne' haf hu
              | ok pe => exact ⟨c1, .err pe, rfl, by simp⟩

end LalrpopModel.LR.Term
