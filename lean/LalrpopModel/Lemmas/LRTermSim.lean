import LalrpopModel.Model.LR.Validate
/-!
C08 termination, part 1 (tables only): the reduce loop on state stacks.

`locStep T la st` (`Model/LR/Validate.lean`) is one iteration of the loop "reduce under lookahead
`la`" on a state stack (top first); `Iter T la n st fin` iterates it, `Halts T la fin` says it ends.
`checkTerm T F = true` (V7) is unfolded into `TermOK`; `Adj T st` describes the stacks the driver
builds (`[0]` at the bottom, every state pushed by a goto or by a shift entry of the state below);
`phase_term` is the main result: on an `Adj` stack the loop halts after `N` iterations with
`N ≤ (F+1)·d + F` and `|fin| + d ≤ |st| + F` for some `d` (so the iterations are paid for by the
states they pop, up to `F` per loop).
-/
namespace LalrpopModel.LR.Term
open LalrpopModel.LR

/-! ### the loop -/

/-- `n` iterations of the reduce loop lead from `st` to `fin` -/
inductive Iter (T : Tables) (la : LA) : Nat → List Nat → List Nat → Prop
  | refl (st : List Nat) : Iter T la 0 st st
  | step {n : Nat} {st st' fin : List Nat} :
      locStep T la st = .step st' → Iter T la n st' fin → Iter T la (n + 1) st fin

/-- the loop ends on `st`: no reduction of a non-start production applies -/
def Halts (T : Tables) (la : LA) (st : List Nat) : Prop := ∀ st', locStep T la st ≠ .step st'

variable {T : Tables} {la : LA}

theorem Iter.trans {n m : Nat} {a b c : List Nat} (h₁ : Iter T la n a b) (h₂ : Iter T la m b c) :
    Iter T la (n + m) a c := by
  induction h₁ with
  | refl st => simpa using h₂
  | step hs _ ih =>
    rw [Nat.add_right_comm]
    exact .step hs (ih h₂)

theorem Iter.snoc {n : Nat} {a b c : List Nat} (h₁ : Iter T la n a b) (h₂ : locStep T la b = .step c) :
    Iter T la (n + 1) a c :=
  h₁.trans (.step h₂ (.refl c))

/-- shape of a successful iteration -/
theorem locStep_step_inv {st st' : List Nat} (h : locStep T la st = .step st') :
    ∃ top tl n A below more, st = top :: tl ∧ redInfo T la top = some (n, A) ∧
      st.drop n = below :: more ∧ st' = T.gotoAt below A :: below :: more := by
  cases st with
  | nil => simp [locStep] at h
  | cons top tl =>
    unfold locStep at h
    simp only at h
    cases hr : redInfo T la top with
    | none => rw [hr] at h; simp at h
    | some nA =>
      obtain ⟨n, A⟩ := nA
      rw [hr] at h
      simp only at h
      cases hd : (top :: tl).drop n with
      | nil => rw [hd] at h; simp at h
      | cons below more =>
        rw [hd] at h
        simp only [LocStep.step.injEq] at h
        exact ⟨top, tl, n, A, below, more, rfl, hr, hd, h.symm⟩

theorem locStep_of {top : Nat} {tl : List Nat} {n A : Nat} (hr : redInfo T la top = some (n, A)) :
    locStep T la (top :: tl) =
      match (top :: tl).drop n with
      | [] => .under
      | below :: more => .step (T.gotoAt below A :: below :: more) := by
  unfold locStep
  simp only [hr]
  rfl

theorem locStep_of_none {top : Nat} {tl : List Nat} (hr : redInfo T la top = none) :
    locStep T la (top :: tl) = .stop := by
  unfold locStep
  simp only [hr]

theorem locStep_stop_inv {top : Nat} {tl : List Nat} (h : locStep T la (top :: tl) = .stop) :
    redInfo T la top = none := by
  cases hr : redInfo T la top with
  | none => rfl
  | some nA =>
    obtain ⟨n, A⟩ := nA
    rw [locStep_of hr] at h
    split at h <;> simp at h

theorem locStep_under_inv {st : List Nat} (h : locStep T la st = .under) :
    ∃ top tl n A, st = top :: tl ∧ redInfo T la top = some (n, A) ∧ st.drop n = [] := by
  cases st with
  | nil => simp [locStep] at h
  | cons top tl =>
    cases hr : redInfo T la top with
    | none => rw [locStep_of_none hr] at h; simp at h
    | some nA =>
      obtain ⟨n, A⟩ := nA
      rw [locStep_of hr] at h
      cases hd : (top :: tl).drop n with
      | nil => exact ⟨top, tl, n, A, rfl, hr, hd⟩
      | cons below more => rw [hd] at h; simp at h

/-! ### locality: the loop only looks at the states it pops -/

theorem locStep_append_step {st st' : List Nat} (rest : List Nat) (h : locStep T la st = .step st') :
    locStep T la (st ++ rest) = .step (st' ++ rest) := by
  obtain ⟨top, tl, n, A, below, more, rfl, hr, hd, rfl⟩ := locStep_step_inv h
  rw [List.cons_append, locStep_of hr]
  have hle : n ≤ (top :: tl).length := by
    apply Nat.le_of_not_lt
    intro hlt
    rw [List.drop_eq_nil_of_le (Nat.le_of_lt hlt)] at hd
    simp at hd
  have : (top :: (tl ++ rest)).drop n = below :: (more ++ rest) := by
    rw [← List.cons_append, List.drop_append_of_le_length hle, hd]
    rfl
  rw [this]
  rfl

theorem locStep_append_stop {st : List Nat} (rest : List Nat) (hne : st ≠ [])
    (h : locStep T la st = .stop) : locStep T la (st ++ rest) = .stop := by
  cases st with
  | nil => exact (hne rfl).elim
  | cons top tl =>
    rw [List.cons_append]
    exact locStep_of_none (locStep_stop_inv h)

/-- a reduction that pops through the part at hand: on the whole stack it halts (underflow) or
    continues on a suffix of the rest with the goto on top -/
theorem locStep_append_under {st : List Nat} (rest : List Nat) (h : locStep T la st = .under) :
    Halts T la (st ++ rest) ∨
    ∃ top n A k below more, st.head? = some top ∧ redInfo T la top = some (n, A) ∧
      rest.drop k = below :: more ∧
      locStep T la (st ++ rest) = .step (T.gotoAt below A :: below :: more) := by
  obtain ⟨top, tl, n, A, rfl, hr, hd⟩ := locStep_under_inv h
  have heq : (top :: tl ++ rest).drop n = rest.drop (n - (top :: tl).length) := by
    rw [List.drop_append, hd]
    rfl
  cases hd2 : rest.drop (n - (top :: tl).length) with
  | nil =>
    left
    intro st' hst
    rw [List.cons_append, locStep_of hr, ← List.cons_append, heq, hd2] at hst
    simp at hst
  | cons below more =>
    right
    refine ⟨top, n, A, _, below, more, rfl, hr, hd2, ?_⟩
    rw [List.cons_append, locStep_of hr, ← List.cons_append, heq, hd2]

/-! ### the simulation `simOK`, transported to a whole stack -/

theorem sim_local : ∀ (f : Nat) (st : List Nat), simOK T la f st = true → st ≠ [] → ∀ rest : List Nat,
    ∃ N st'', N < f ∧ st''.length ≤ st.length + N ∧ st'' ≠ [] ∧
      Iter T la N (st ++ rest) (st'' ++ rest) ∧
      (locStep T la st'' = .stop ∨ locStep T la st'' = .under) := by
  intro f
  induction f with
  | zero => intro st h; simp [simOK] at h
  | succ f ih =>
    intro st h hne rest
    unfold simOK at h
    cases hl : locStep T la st with
    | stop => exact ⟨0, st, Nat.succ_pos f, by simp, hne, .refl _, .inl hl⟩
    | under => exact ⟨0, st, Nat.succ_pos f, by simp, hne, .refl _, .inr hl⟩
    | step st' =>
      rw [hl] at h
      simp only at h
      obtain ⟨top, tl, n, A, below, more, rfl, hr, hd, rfl⟩ := locStep_step_inv hl
      obtain ⟨N, st'', hN, hlen, hne'', hit, hfin⟩ := ih _ h (by simp) rest
      refine ⟨N + 1, st'', Nat.succ_lt_succ hN, ?_, hne'', ?_, hfin⟩
      · have h1 : (below :: more).length ≤ (top :: tl).length := by
          rw [← hd, List.length_drop]; omega
        simp only [List.length_cons] at hlen h1 ⊢
        omega
      · rw [Nat.add_comm]
        exact Iter.trans (.step (locStep_append_step rest hl) (.refl _)) hit

/-! ### V7 unfolded -/

/-- `la` is the end of input or a terminal index -/
def LAok (T : Tables) : LA → Prop
  | none => True
  | some x => x < T.nTerm

theorem mem_allLA {la : LA} (h : LAok T la) : la ∈ allLA T := by
  unfold allLA
  cases la with
  | none => simp
  | some x => simp only [List.mem_cons, List.mem_map, List.mem_range]; right; exact ⟨x, h, rfl⟩

structure TermOK (T : Tables) (F : Nat) : Prop where
  nS_pos : 0 < T.nStates
  err_term : T.usesRecovery = true → 0 < T.nTerm
  eof_le : ∀ a ∈ T.eofAction, a ≤ 0
  shift_lt : ∀ a ∈ T.action, a ≤ 0 ∨ (a - 1).toNat < T.nStates
  goto_lt : ∀ row ∈ T.goto, ∀ s ∈ row, s < T.nStates
  lhs_lt : ∀ p, p < T.prodLhs.length →
    T.isStart.getD p false = true ∨ T.prodLhs.getD p 0 < T.goto.length
  sim0 : ∀ la, LAok T la → simOK T la F [0] = true
  simGoto : ∀ la, LAok T la → ∀ b, b < T.nStates → ∀ A, A < T.goto.length →
    simOK T la F [T.gotoAt b A, b] = true
  simShift : ∀ la, LAok T la → ∀ b, b < T.nStates → ∀ x, x < T.nTerm → ∀ a t,
    T.actionAt b x = some a → asShift a = some t → simOK T la F [t, b] = true

theorem termOK_of_check {F : Nat} (h : checkTerm T F = true) : TermOK T F := by
  simp only [checkTerm, Bool.and_eq_true, List.all_eq_true, decide_eq_true_eq, Bool.or_eq_true,
    List.mem_range, Bool.not_eq_true'] at h
  obtain ⟨⟨⟨⟨⟨⟨h1, h1a⟩, h1b⟩, h2⟩, h3⟩, h4⟩, h5⟩ := h
  refine ⟨h1, ?_, h1b, h2, h3, h4, ?_, ?_, ?_⟩
  · intro hr
    rcases h1a with h | h
    · simp [hr] at h
    · exact h
  · intro la hla
    exact (h5 la (mem_allLA hla)).1
  · intro la hla b hb A hA
    exact ((h5 la (mem_allLA hla)).2 b hb).1 A hA
  · intro la hla b hb x hx a t ha hs
    have := ((h5 la (mem_allLA hla)).2 b hb).2 x hx
    rw [ha] at this
    simp only [hs] at this
    exact this

variable {F : Nat}

theorem TermOK.gotoAt_lt (h : TermOK T F) (b A : Nat) : T.gotoAt b A < T.nStates := by
  unfold Tables.gotoAt
  cases hg : T.goto[A]? with
  | none => exact h.nS_pos
  | some row =>
    simp only
    have hrow : row ∈ T.goto := List.mem_of_getElem? hg
    rw [List.getD_eq_getElem?_getD]
    cases hs : row[b]? with
    | none => exact h.nS_pos
    | some s => exact h.goto_lt row hrow s (List.mem_of_getElem? hs)

theorem TermOK.shift_target_lt (h : TermOK T F) {b x : Nat} {a : Int} {t : Nat}
    (ha : T.actionAt b x = some a) (hs : asShift a = some t) : t < T.nStates := by
  have hm : a ∈ T.action := List.mem_of_getElem? ha
  unfold asShift at hs
  split at hs
  · rename_i hpos
    cases hs
    rcases h.shift_lt a hm with h1 | h1
    · omega
    · exact h1
  · cases hs

theorem TermOK.redInfo_lhs_lt (h : TermOK T F) {top n A : Nat} (hr : redInfo T la top = some (n, A)) :
    A < T.goto.length := by
  unfold redInfo at hr
  split at hr
  · split at hr
    · rename_i p _
      split at hr
      · rename_i n' A' h1 h2 h3
        cases hr
        have hp : p < T.prodLhs.length := (List.getElem?_eq_some_iff.mp h2).1
        rcases h.lhs_lt p hp with h4 | h4
        · rw [List.getD_eq_getElem?_getD, h3] at h4
          simp at h4
        · rw [List.getD_eq_getElem?_getD, h2] at h4
          simpa using h4
      · cases hr
    · cases hr
  · cases hr

/-! ### the stacks the driver builds -/

/-- `t` is what the tables push on top of `b`: a goto, or the target of a shift entry -/
def AdjPair (T : Tables) (b t : Nat) : Prop :=
  (∃ A, A < T.goto.length ∧ t = T.gotoAt b A) ∨
  (∃ x a, x < T.nTerm ∧ T.actionAt b x = some a ∧ asShift a = some t)

inductive Adj (T : Tables) : List Nat → Prop
  | base : Adj T [0]
  | cons {t b : Nat} {more : List Nat} : AdjPair T b t → Adj T (b :: more) → Adj T (t :: b :: more)

theorem Adj.ne_nil {st : List Nat} (h : Adj T st) : st ≠ [] := by
  cases h <;> simp

theorem Adj.tail {t b : Nat} {more : List Nat} (h : Adj T (t :: b :: more)) : Adj T (b :: more) := by
  cases h with
  | cons _ h => exact h

theorem Adj.drop : ∀ (n : Nat) {st : List Nat} {b : Nat} {more : List Nat}, Adj T st →
    st.drop n = b :: more → Adj T (b :: more)
  | 0, st, b, more, h, hd => by simpa using hd ▸ h
  | n + 1, st, b, more, h, hd => by
    cases h with
    | base => simp at hd
    | cons hp h' =>
      rw [List.drop_succ_cons] at hd
      exact Adj.drop n h' hd

theorem Adj.top_lt (hT : TermOK T F) {s : Nat} {rest : List Nat} (h : Adj T (s :: rest)) :
    s < T.nStates := by
  cases h with
  | base => exact hT.nS_pos
  | cons hp _ =>
    rcases hp with ⟨A, _, rfl⟩ | ⟨x, a, _, ha, hs⟩
    · exact hT.gotoAt_lt _ _
    · exact hT.shift_target_lt ha hs

theorem Adj.push_goto {b : Nat} {more : List Nat} (h : Adj T (b :: more))
    {A : Nat} (hA : A < T.goto.length) : Adj T (T.gotoAt b A :: b :: more) :=
  .cons (.inl ⟨A, hA, rfl⟩) h

/-- the loop keeps the stack in `Adj` -/
theorem Adj.locStep (hT : TermOK T F) {st st' : List Nat} (h : Adj T st)
    (hs : locStep T la st = .step st') : Adj T st' := by
  obtain ⟨top, tl, n, A, below, more, rfl, hr, hd, rfl⟩ := locStep_step_inv hs
  exact (Adj.drop n h hd).push_goto (hT.redInfo_lhs_lt hr)

theorem Adj.iter (hT : TermOK T F) {n : Nat} {st fin : List Nat} (h : Adj T st)
    (hi : Iter T la n st fin) : Adj T fin := by
  induction hi with
  | refl => exact h
  | step hs _ ih => exact ih (h.locStep hT hs)

/-- the simulation V7 ran for the top two states of an `Adj` stack -/
theorem Adj.sim (hT : TermOK T F) (hla : LAok T la) {t b : Nat} {more : List Nat}
    (h : Adj T (t :: b :: more)) : simOK T la F [t, b] = true := by
  have hb : b < T.nStates := h.tail.top_lt hT
  cases h with
  | cons hp _ =>
    rcases hp with ⟨A, hA, rfl⟩ | ⟨x, a, hx, ha, hs⟩
    · exact hT.simGoto la hla b hb A hA
    · exact hT.simShift la hla b hb x hx a t ha hs

/-! ### the main lemma -/

/-- On an `Adj` stack the reduce loop under `la` halts after `N` iterations, where for some `d`:
    `N ≤ (F+1)·d + F` and `|fin| + d ≤ |st| + F`. -/
theorem phase_term (hT : TermOK T F) (hla : LAok T la) : ∀ (L : Nat) (st : List Nat), st.length ≤ L →
    Adj T st → ∃ N fin d, Iter T la N st fin ∧ Halts T la fin ∧
      N ≤ (F + 1) * d + F ∧ fin.length + d ≤ st.length + F := by
  intro L
  induction L with
  | zero =>
    intro st hlen h
    have := h.ne_nil
    cases st with
    | nil => exact (this rfl).elim
    | cons _ _ => simp at hlen
  | succ L ih =>
    intro st hlen h
    -- the part of the stack V7 simulated, and the rest
    obtain ⟨part, rest, hst, hpne, hsim, hrest⟩ : ∃ part rest, st = part ++ rest ∧ part ≠ [] ∧
        simOK T la F part = true ∧ (rest = [] ∨ rest.length + 2 ≤ st.length) := by
      cases h with
      | base => exact ⟨[0], [], rfl, by simp, hT.sim0 la hla, .inl rfl⟩
      | @cons t b more hp h' =>
        exact ⟨[t, b], more, rfl, by simp, (Adj.cons hp h').sim hT hla, .inr (by simp)⟩
    obtain ⟨N, st'', hN, hlen'', hne'', hit, hfin⟩ := sim_local F part hsim hpne rest
    rw [← hst] at hit
    have hstop : Halts T la (st'' ++ rest) → ∃ N fin d, Iter T la N st fin ∧ Halts T la fin ∧
        N ≤ (F + 1) * d + F ∧ fin.length + d ≤ st.length + F := by
      intro hh
      refine ⟨N, st'' ++ rest, 0, hit, hh, by omega, ?_⟩
      have : part.length + rest.length = st.length := by rw [hst, List.length_append]
      have hpl : part.length ≤ st.length := by omega
      rw [List.length_append]
      omega
    rcases hfin with hfin | hfin
    · apply hstop
      intro st' hs
      rw [locStep_append_stop rest hne'' hfin] at hs
      cases hs
    · rcases locStep_append_under rest hfin with hh | ⟨top, n, A, k, below, more, _, hr, hd, hs⟩
      · exact hstop hh
      · -- one more iteration, then a strictly shorter stack
        have hrest : rest.length + 2 ≤ st.length := by
          rcases hrest with rfl | hrest
          · simp at hd
          · exact hrest
        have hadj2 : Adj T (st'' ++ rest) := h.iter hT hit
        have hadj3 : Adj T (T.gotoAt below A :: below :: more) := hadj2.locStep hT hs
        have hlen3 : (T.gotoAt below A :: below :: more).length ≤ L := by
          have : (below :: more).length ≤ rest.length := by
            rw [← hd, List.length_drop]; omega
          simp only [List.length_cons] at this ⊢
          omega
        obtain ⟨N', fin, d', hit', hh', hN', hl'⟩ := ih _ hlen3 hadj3
        refine ⟨N + 1 + N', fin, d' + 1, (hit.snoc hs).trans hit', hh', ?_, ?_⟩
        · rw [Nat.mul_add, Nat.mul_one]
          omega
        · have : (below :: more).length ≤ rest.length := by
            rw [← hd, List.length_drop]; omega
          simp only [List.length_cons] at this hl' ⊢
          omega

end LalrpopModel.LR.Term
