import LalrpopModel.Lemmas.TokCodeTok
import LalrpopModel.Lemmas.TokPunct
import LalrpopModel.Lemmas.TokShebang
/-! Token-tree specification of a grammar file and the proof that its rendering with any layout that
    respects the follow restrictions tokenizes to the specified token sequence. -/
namespace LalrpopModel.Tok

/-- the tokens of a grammar file as the author means them -/
inductive GA
  | punct (k : Punct)
  /-- identifier or keyword other than `_` and `use` -/
  | word (w : List Char)
  /-- identifier directly followed by `<` (macro reference) -/
  | macroWord (w : List Char)
  | underscore
  | strLit (ps : List SPiece)
  /-- `'w'` with an identifier-like content -/
  | charId (w : List Char)
  /-- `'…'` whose first character is not an identifier start -/
  | charLit (ps : List SPiece)
  | lifetime (w : List Char)
  | regexLit (n : Nat) (body : List Char)
  | escape (body : List Char)
  | arrowCode (as : List RA)
  | arrowQCode (as : List RA)
  | useCode (as : List RA)
  /-- `#![ … ]` module attribute -/
  | shebang (items : List SA)
  deriving Repr

def GA.text : GA → List Char
  | .punct k => k.text
  | .word w => w
  | .macroWord w => w
  | .underscore => ['_']
  | .strLit ps => '"' :: (renderPieces ps ++ ['"'])
  | .charId w => '\'' :: (w ++ ['\''])
  | .charLit ps => '\'' :: (renderPieces ps ++ ['\''])
  | .lifetime w => '\'' :: w
  | .regexLit n body => 'r' :: (List.replicate n '#' ++ '"' :: (body ++ '"' :: List.replicate n '#'))
  | .escape body => '`' :: (body ++ ['`'])
  | .arrowCode as => '=' :: '>' :: renderAll as
  | .arrowQCode as => '=' :: '>' :: '?' :: renderAll as
  | .useCode as => 'u' :: 's' :: 'e' :: renderAll as
  | .shebang items => '#' :: '!' :: '[' :: (renderSA items ++ [']'])

/-- the token the specification assigns to an atom -/
def GA.tok : GA → Tok
  | .punct k => k.tok
  | .word w => wordTok w none
  | .macroWord w => .macroId w
  | .underscore => .underscore
  | .strLit ps => .stringLiteral (renderPieces ps)
  | .charId w => .charLiteral w
  | .charLit ps => .charLiteral (renderPieces ps)
  | .lifetime w => .lifetime ('\'' :: w)
  | .regexLit _ body => .regexLiteral body
  | .escape body => .escape body
  | .arrowCode as => .eqGtCode (renderAll as)
  | .arrowQCode as => .eqGtQuestionCode (renderAll as)
  | .useCode as => .use_ (renderAll as)
  | .shebang items => .shebangAttribute ('#' :: '!' :: '[' :: (renderSA items ++ [']']))

/-- intrinsic well-formedness of an atom -/
def GA.wf : GA → Prop
  | .punct _ => True
  | .word w => isWord w ∧ w ≠ ['_'] ∧ w ≠ ['u', 's', 'e']
  | .macroWord w => isWord w ∧ w ≠ ['_'] ∧ w ≠ ['u', 's', 'e'] ∧ keyword? w = none
  | .underscore => True
  | .strLit ps => ∀ q ∈ ps, q.ok '"' = true
  | .charId w => isWord w
  | .charLit ps => (∀ q ∈ ps, q.ok '\'' = true) ∧ ∀ c, (renderPieces ps).head? = some c → isIdStart c = false
  | .lifetime w => isWord w
  | .regexLit n body => rawBodyOK n body = true
  | .escape body => ∀ x ∈ body, x ≠ '`'
  | .arrowCode _ => True
  | .arrowQCode _ => True
  | .useCode _ => True
  | .shebang items => WFS 1 items

/-- what the text after the atom (layout and further tokens) must look like — **the hypotheses the
    proof of layout invariance forces**:
    * two-character tokens must not arise by juxtaposition (`Punct.followOK`);
    * identifier-like tokens must be separated from a following identifier character;
    * an identifier (not a keyword) directly followed by `<` is a `MacroId`, so for an `Id` something
      must stand between it and `<`, and for a `MacroId` nothing may;
    * the identifier `r` must be separated from `"` and `#` (regex literal);
    * a lifetime must be separated from `'`;
    * code runs up to the first top-level terminator, so the snippet must be well formed and be
      directly followed by its terminator (layout in between would become part of the code text);
    * a `#![…]` attribute tolerates anything after it only in the source variant without the second
      `bump()` (with it, the character after `]` is lost: `shebang_next_char_witness`). -/
def GA.followOK (cfg : Cfg) : GA → List Char → Prop
  | .punct k, f => k.followOK f.head? = true
  | .word w, f => endsWord f ∧ (keyword? w = none → f.head? ≠ some '<') ∧
                  (w = ['r'] → f.head? ≠ some '#' ∧ f.head? ≠ some '"')
  | .macroWord _, f => f.head? = some '<'
  | .underscore, f => endsWord f
  | .lifetime _, f => endsWord f ∧ f.head? ≠ some '\''
  | .arrowCode as, f => ∃ t rest, f = t :: rest ∧ Snippet cfg as t ∧ firstChar as t ≠ '@' ∧ firstChar as t ≠ '?'
  | .arrowQCode as, f => ∃ t rest, f = t :: rest ∧ Snippet cfg as t
  | .useCode as, f => ∃ t rest, f = t :: rest ∧ Snippet cfg as t ∧ isIdContinue (firstChar as t) = false
  | .shebang _, _ => cfg.shebangDoubleBump = false
  | _, _ => True

theorem lt_not_idContinue : isIdContinue '<' = false := by decide

theorem wordTok_none_of_ne (w : List Char) (nxt : Option Char) (h : keyword? w = none → nxt ≠ some '<') :
    wordTok w nxt = wordTok w none := by
  unfold wordTok
  cases hk : keyword? w with
  | some t => rfl
  | none => simp [h hk]

/-- every atom is recognised as its token, with the span of its text, leaving exactly what follows -/
theorem atom_step (cfg : Cfg) (g p : Nat) (a : GA) (f : List Char) (hwf : a.wf) (hf : a.followOK cfg f) :
    nextUnshifted cfg (g + 1) ⟨p, a.text ++ f⟩ =
      (.tok p a.tok (p + utf8Len a.text), ⟨p + utf8Len a.text, f⟩) := by
  cases a with
  | punct k =>
    have := punct_step cfg g p k f hf
    have hl : utf8Len k.text = k.text.length := by cases k <;> simp [Punct.text]
    simpa [GA.text, GA.tok, hl] using this
  | word w =>
    obtain ⟨hw, h1, h3⟩ := hwf
    obtain ⟨he, hlt, hr⟩ := hf
    cases w with
    | nil => exact absurd hw (by simp [isWord])
    | cons c cs =>
      have := next_word cfg g p c cs f hw he h1 h3 hr
      rw [wordTok_none_of_ne _ _ hlt] at this
      simpa [GA.text, GA.tok] using this
  | macroWord w =>
    obtain ⟨hw, h1, h3, hk⟩ := hwf
    cases w with
    | nil => exact absurd hw (by simp [isWord])
    | cons c cs =>
      have hf : f.head? = some '<' := hf
      have he : endsWord f := by
        intro x hx; rw [hf] at hx; simp at hx; subst hx; exact lt_not_idContinue
      have := next_word cfg g p c cs f hw he h1 h3 (by intro _; rw [hf]; simp)
      simp only [GA.text, GA.tok]
      rw [this]
      simp [wordTok, hk, hf]
  | underscore => simpa [GA.text, GA.tok] using next_underscore cfg g p f hf
  | strLit ps =>
    have := next_str cfg g p ps f hwf
    simp only [GA.text, GA.tok, List.cons_append, List.append_assoc, List.nil_append]
    rw [this]; simp [utf8Len_append]; omega
  | charId w =>
    have hwf : isWord w := hwf
    cases w with
    | nil => exact absurd hwf (by simp [isWord])
    | cons c cs =>
      have := next_charId cfg g p c cs f hwf
      simp only [GA.text, GA.tok, List.cons_append, List.append_assoc, List.nil_append] at this ⊢
      rw [this]; simp [utf8Len_append]; omega
  | charLit ps =>
    have := next_charPieces cfg g p ps f hwf.1 hwf.2
    simp only [GA.text, GA.tok, List.cons_append, List.append_assoc, List.nil_append]
    rw [this]; simp [utf8Len_append]; omega
  | lifetime w =>
    have hwf : isWord w := hwf
    cases w with
    | nil => exact absurd hwf (by simp [isWord])
    | cons c cs =>
      have := next_lifetime cfg g p c cs f hwf hf.1 hf.2
      simp only [GA.text, GA.tok, List.cons_append] at this ⊢
      rw [this]; simp; omega
  | regexLit n body =>
    have := next_regex cfg g p n body f hwf
    simp only [List.append_assoc, List.cons_append] at this
    simp only [GA.text, GA.tok, List.cons_append, List.append_assoc]
    rw [this]; simp [utf8Len_append, utf8Len_replicate_hash]; omega
  | escape body =>
    have := next_escape cfg g p body f hwf
    simp only [GA.text, GA.tok, List.cons_append, List.append_assoc, List.nil_append]
    rw [this]; simp [utf8Len_append]; omega
  | arrowCode as =>
    obtain ⟨t, rest, rfl, hs, h1, h2⟩ := hf
    have := next_arrowCode cfg g p as t rest hs h1 h2
    simp only [GA.text, GA.tok, List.cons_append]
    rw [this]; simp; omega
  | arrowQCode as =>
    obtain ⟨t, rest, rfl, hs⟩ := hf
    have := next_arrowQCode cfg g p as t rest hs
    simp only [GA.text, GA.tok, List.cons_append]
    rw [this]; simp; omega
  | useCode as =>
    obtain ⟨t, rest, rfl, hs, h1⟩ := hf
    have := next_use cfg g p as t rest hs h1
    simp only [GA.text, GA.tok, List.cons_append]
    rw [this]; simp; omega
  | shebang items =>
    have := next_shebang cfg hf g p items f hwf
    simp only [GA.text, GA.tok, List.cons_append, List.append_assoc, List.nil_append]
    rw [this]; simp [utf8Len_append]; omega

/-! ### documents: atoms with layout -/

/-- an atom and the layout that follows it -/
structure DItem where
  atom : GA
  layout : List LP
  deriving Repr

def renderItems : List DItem → List Char
  | [] => []
  | i :: more => i.atom.text ++ (renderLayout i.layout ++ renderItems more)

/-- the text of a grammar file: leading layout, then every atom followed by its layout -/
def renderDoc (lead : List LP) (items : List DItem) : List Char := renderLayout lead ++ renderItems items

/-- every atom well formed, every layout piece well formed, every atom followed by text it tolerates -/
def DocOK (cfg : Cfg) : List DItem → Prop
  | [] => True
  | i :: more => i.atom.wf ∧ layoutOK i.layout ∧
      i.atom.followOK cfg (renderLayout i.layout ++ renderItems more) ∧ DocOK cfg more

/-- the token of a stream entry (`none` for an error entry) -/
def Item.tok? : Item → Option Tok
  | .tok _ t _ => some t
  | .err _ _ => none

theorem next_eof_after_layout (cfg : Cfg) (p : Nat) (lead : List LP) (hl : layoutOK lead) :
    (next cfg ⟨p, renderLayout lead⟩).1 = .eof := by
  have hle := layoutIters_le lead
  have hfuel : (renderLayout lead).length + 1 = ((renderLayout lead).length - layoutIters lead) + 1 + layoutIters lead := by
    omega
  have := skip_layout cfg lead (((renderLayout lead).length - layoutIters lead) + 1) p [] hl
  simp only [List.append_nil] at this
  simp only [next]
  rw [hfuel, this, nextUnshifted]

theorem next_atom_after_layout (cfg : Cfg) (p : Nat) (lead : List LP) (hl : layoutOK lead) (a : GA) (f : List Char)
    (hwf : a.wf) (hf : a.followOK cfg f) :
    next cfg ⟨p, renderLayout lead ++ (a.text ++ f)⟩ =
      (.tok (p + utf8Len (renderLayout lead)) a.tok (p + utf8Len (renderLayout lead) + utf8Len a.text),
       ⟨p + utf8Len (renderLayout lead) + utf8Len a.text, f⟩) := by
  have hle := layoutIters_le lead
  have hfuel : (renderLayout lead ++ (a.text ++ f)).length + 1 =
      ((renderLayout lead).length - layoutIters lead + (a.text ++ f).length) + 1 + layoutIters lead := by
    simp; omega
  simp only [next]
  rw [hfuel, skip_layout cfg lead _ p _ hl, atom_step cfg _ _ a f hwf hf]

theorem collect_doc (cfg : Cfg) (shift : Nat) : ∀ (items : List DItem) (lead : List LP) (p fuel : Nat),
    items.length < fuel → layoutOK lead → DocOK cfg items →
    (collect cfg shift fuel ⟨p, renderLayout lead ++ renderItems items⟩).map Item.tok? =
      items.map (fun i => some i.atom.tok) := by
  intro items
  induction items with
  | nil =>
    intro lead p fuel hfuel hl _
    cases fuel with
    | zero => omega
    | succ f =>
      have h := next_eof_after_layout cfg p lead hl
      simp only [renderItems, List.append_nil, collect]
      rcases hn : next cfg ⟨p, renderLayout lead⟩ with ⟨o, st'⟩
      rw [hn] at h
      simp only at h
      subst h
      simp
  | cons i more ih =>
    intro lead p fuel hfuel hl hdoc
    obtain ⟨hwf, hly, hfo, hmore⟩ := hdoc
    cases fuel with
    | zero => omega
    | succ f =>
      have h := next_atom_after_layout cfg p lead hl i.atom _ hwf hfo
      simp only [renderItems, collect, h]
      simp only [List.map_cons, Item.tok?]
      rw [ih i.layout _ f (by simp at hfuel; omega) hly hmore]

theorem GA.text_length_pos (a : GA) (h : a.wf) : 1 ≤ a.text.length := by
  cases a with
  | punct k => cases k <;> simp [GA.text, Punct.text]
  | word w =>
    cases w with
    | nil => exact absurd h.1 (by simp [isWord])
    | cons c cs => simp [GA.text]
  | macroWord w =>
    cases w with
    | nil => exact absurd h.1 (by simp [isWord])
    | cons c cs => simp [GA.text]
  | _ => simp [GA.text] <;> omega

theorem renderItems_length (cfg : Cfg) (items : List DItem) (h : DocOK cfg items) :
    items.length ≤ (renderItems items).length := by
  induction items with
  | nil => simp
  | cons i more ih =>
    have := GA.text_length_pos i.atom h.1
    have := ih h.2.2.2
    simp [renderItems]; omega

/-- proof of `tokens_of_render` -/
theorem tokenize_doc (cfg : Cfg) (shift : Nat) (lead : List LP) (items : List DItem)
    (hl : layoutOK lead) (hdoc : DocOK cfg items) :
    (tokenize cfg shift (renderDoc lead items)).map Item.tok? = items.map (fun i => some i.atom.tok) := by
  have := renderItems_length cfg items hdoc
  exact collect_doc cfg shift items lead 0 _ (by simp [renderDoc]; omega) hl hdoc

end LalrpopModel.Tok
