import LalrpopModel.Lemmas.LRGenericIO
/-!
C17 for arbitrary tables: stream errors and action errors are returned verbatim and stop the parse.
-/
namespace LalrpopModel.LR.Generic
open LalrpopModel.LR
variable {T : Tables} {af : Nat} {failAt : Option Nat} {startLoc : Int}

theorem Step.of_done {c c' : Cfg} {r : Outcome} {ph' : Phase}
    (hs : Step T af failAt startLoc c (.done r) c' ph') : c' = c ∧ ph' = .done r := by
  cases hs with
  | done r => exact ⟨rfl, rfl⟩
  | panic _ tag hd => simp [phDone] at hd
  | redCont _ p ls _ hctx hr => exact hctx.elim
  | redFin _ p ls _ r hctx hr => exact hctx.elim
  | enterNoRec _ la fe ex hctx hex hrec => exact hctx.elim
  | enterRec _ la fe ex hctx hex hrec => exact hctx.elim

/-! ### stream errors -/

def SErrInv (pre : List Tok) (e : Nat) (post : List Item) (c : Cfg) (ph : Phase) : Prop :=
  c.pulled ≤ pre.length ∨ (c.pulled = pre.length + 1 ∧ c.input = post ∧ ph = .done (.err (.user e)))

theorem drop_map_append {pre : List Tok} {x : Item} {post : List Item} :
    (pre.map Item.tok ++ x :: post).drop pre.length = x :: post := by
  have : pre.length = (pre.map Item.tok).length := by simp
  rw [this, List.drop_left]

theorem pullK_done {nt : NextToken} {r : Outcome} (h : nt = .done r) : pullK nt = .done r := by
  subst h; rfl

theorem dropK_done {nt : NextToken} {r : Outcome} {e d sl fe} (h : nt = .done r) :
    dropK e d sl fe nt = .done r := by
  subst h; rfl

theorem SErrInv.step {pre : List Tok} {e : Nat} {post : List Item} {c c' : Cfg} {ph ph' : Phase}
    (hio : IOInv T startLoc (pre.map Item.tok ++ .err e :: post) c ph)
    (h : SErrInv pre e post c ph) (hs : Step T af failAt startLoc c ph c' ph') :
    SErrInv pre e post c' ph' := by
  rcases h with h | ⟨h1, h2, h3⟩
  · rcases hs.io_cases with ⟨-, hp, -⟩ | ⟨-, -, -, -, nt, hn, hk⟩
    · exact .inl (by omega)
    · by_cases hlt : c.pulled < pre.length
      · have : c'.pulled = c.pulled + 1 := by cases hn <;> simp [pullCfg, pullTokCfg]
        exact .inl (by omega)
      · have hp : c.pulled = pre.length := by omega
        have hinp := hio.inp
        rw [hp, drop_map_append] at hinp
        have hnt : c' = pullCfg c post ∧ nt = .done (.err (.user e)) := by
          cases hn with
          | eof h => rw [h] at hinp; cases hinp
          | err e' rest h => rw [h] at hinp; injection hinp with h1 h2; injection h1 with h1; subst h1 h2; exact ⟨rfl, rfl⟩
          | found t i rest h hk => rw [h] at hinp; injection hinp with h1 h2; cases h1
          | unrec t rest h hk ex hex => rw [h] at hinp; injection hinp with h1 h2; cases h1
          | panic t rest h hk tag => rw [h] at hinp; injection hinp with h1 h2; cases h1
        obtain ⟨hc', hnt⟩ := hnt
        refine .inr ⟨by rw [hc']; simp [pullCfg, hp], by rw [hc']; simp [pullCfg], ?_⟩
        rcases hk with ⟨-, hk⟩ | ⟨t, i, e', d, sl, fe, -, hk⟩
        · rw [hk]; exact pullK_done hnt
        · rw [hk]; exact dropK_done hnt
  · subst h3
    obtain ⟨rfl, rfl⟩ := hs.of_done
    exact .inr ⟨h1, h2, rfl⟩

theorem serr_run (pre : List Tok) (e : Nat) (post : List Item) (af : Nat) (failAt : Option Nat) (n : Nat) :
    SErrInv pre e post
      (run T af failAt startLoc n (init startLoc (pre.map Item.tok ++ .err e :: post)) .pull).1
      (run T af failAt startLoc n (init startLoc (pre.map Item.tok ++ .err e :: post)) .pull).2 := by
  have := run_inv T af failAt startLoc
    (fun c ph => IOInv T startLoc (pre.map Item.tok ++ .err e :: post) c ph ∧ SErrInv pre e post c ph)
    (fun c ph h => ⟨h.1.step (step_spec T af failAt startLoc c ph),
      h.2.step h.1 (step_spec T af failAt startLoc c ph)⟩)
    (c0 := init startLoc (pre.map Item.tok ++ .err e :: post)) (ph0 := .pull)
    ⟨IOInv.init T startLoc _, .inl (by simp [LR.init])⟩ n
  exact this.2


/-! ### action errors -/

theorem ReduceSpec.cont_acts {c : Cfg} {p : Nat} {ls : Option Int} {c' : Cfg}
    (h : ReduceSpec T failAt startLoc c p ls (.continue_ c')) :
    c'.acts = c.acts + 1 ∧ c'.trace = p :: c.trace ∧
      (T.fallible[p]? = some true → failAt ≠ some c.acts) := by
  cases h with
  | cont n A hn hlen hnf hlhs hst below more hs => exact ⟨rfl, rfl, hnf⟩

theorem ReduceSpec.fin_acts {c : Cfg} {p : Nat} {ls : Option Int} {c' : Cfg} {r : Outcome}
    (h : ReduceSpec T failAt startLoc c p ls (.finished c' r)) :
    (c' = c ∧ ∃ tag, r = .panic tag) ∨
    (c'.acts = c.acts + 1 ∧ c'.trace = p :: c.trace ∧
      (T.fallible[p]? = some true → failAt = some c.acts → r = .err (.user (failCode c.acts)))) := by
  cases h with
  | bad tag => exact .inl ⟨rfl, tag, rfl⟩
  | fail n hn hlen hfal hf => exact .inr ⟨rfl, rfl, fun _ _ => rfl⟩
  | accept n hn hlen hnf hst k hk => exact .inr ⟨rfl, rfl, fun h1 h2 => (hnf h1 h2).elim⟩
  | badStart n hn hlen hnf => exact .inr ⟨rfl, rfl, fun h1 h2 => (hnf h1 h2).elim⟩
  | pushedPanic n hn hlen hnf tag => exact .inr ⟨rfl, rfl, fun h1 h2 => (hnf h1 h2).elim⟩

theorem finOutcome_user (ph : Phase) (e : Nat) : finOutcome ph (.err (.user e)) = .err (.user e) := by
  cases ph <;> rfl

/-- a step either runs no action code, or runs exactly one action (a reduce of `p`) and then leaves
    the stream alone; a fallible `p` that is due to fail ends the parse with that error -/
theorem Step.acts_cases {c c' : Cfg} {ph ph' : Phase} (hs : Step T af failAt startLoc c ph c' ph') :
    (c'.acts = c.acts ∧ c'.trace = c.trace) ∨
    (∃ p, c'.acts = c.acts + 1 ∧ c'.trace = p :: c.trace ∧ c'.input = c.input ∧ c'.pulled = c.pulled ∧
      (T.fallible[p]? = some true → failAt = some c.acts →
        ph' = .done (.err (.user (failCode c.acts))))) := by
  cases hs with
  | done r => exact .inl ⟨rfl, rfl⟩
  | panic _ tag hd => exact .inl ⟨rfl, rfl⟩
  | pull _ nt hn => exact .inl (by cases hn <;> simp [pullCfg, pullTokCfg])
  | shift la idx top rest a target hst ha hsh => exact .inl ⟨rfl, rfl⟩
  | redCont _ p ls _ hctx hr =>
    obtain ⟨h1, h2, h3⟩ := hr.cont_acts
    exact .inr ⟨p, h1, h2, hr.cont_io.1, hr.cont_io.2.1, fun ha hb => (h3 ha hb).elim⟩
  | redFin _ p ls _ r hctx hr =>
    rcases hr.fin_acts with ⟨rfl, -⟩ | ⟨h1, h2, h3⟩
    · exact .inl ⟨rfl, rfl⟩
    · refine .inr ⟨p, h1, h2, hr.fin_io.1, hr.fin_io.2.1, fun ha hb => ?_⟩
      rw [h3 ha hb, finOutcome_user]
  | enterNoRec _ la fe ex hctx hex hrec => exact .inl ⟨rfl, rfl⟩
  | enterRec _ la fe ex hctx hex hrec => exact .inl ⟨rfl, rfl⟩
  | toFind la e fe top rest a hst ha hnr => exact .inl ⟨rfl, rfl⟩
  | push la e dropped sl fe top hf _ _ hp => exact .inl ⟨hp.io.2.2.2.1, hp.io.2.2.2.2⟩
  | giveUp e dropped sl fe hf => exact .inl ⟨rfl, rfl⟩
  | drop t i e dropped sl fe hf _ nt hn => exact .inl (by cases hn <;> simp [pullCfg, pullTokCfg])

/-- with `failAt = some n`: once more than `n` actions ran and the `n`-th one (production
    `trace.reverse[n]`) was fallible, the parse is over with `failCode n` -/
def AErrInv (T : Tables) (n : Nat) (c : Cfg) (ph : Phase) : Prop :=
  c.trace.length = c.acts ∧
  (n < c.acts → ∀ p, c.trace.reverse[n]? = some p → T.fallible[p]? = some true →
    c.acts = n + 1 ∧ ph = .done (.err (.user (failCode n))))

theorem reverse_cons_get {l : List Nat} {p n : Nat} (h : n < l.length) :
    (p :: l).reverse[n]? = l.reverse[n]? := by
  simp [List.getElem?_append_left, h]

theorem reverse_cons_get_last {l : List Nat} {p : Nat} : (p :: l).reverse[l.length]? = some p := by
  simp

theorem AErrInv.step {n : Nat} {c c' : Cfg} {ph ph' : Phase} (hf : failAt = some n)
    (h : AErrInv T n c ph) (hs : Step T af failAt startLoc c ph c' ph') : AErrInv T n c' ph' := by
  obtain ⟨hlen, himp⟩ := h
  have hcases := hs.acts_cases
  refine ⟨?_, ?_⟩
  · rcases hcases with ⟨h1, h2⟩ | ⟨p, h1, h2, -⟩
    · rw [h1, h2]; exact hlen
    · rw [h1, h2]; simp [hlen]
  · intro hn p hp hfal
    by_cases hlt : n < c.acts
    · have hp' : c.trace.reverse[n]? = some p := by
        rcases hcases with ⟨h1, h2⟩ | ⟨p', h1, h2, -⟩
        · rw [h2] at hp; exact hp
        · rw [h2, reverse_cons_get (by omega)] at hp; exact hp
      obtain ⟨ha, hph⟩ := himp hlt p hp' hfal
      subst hph
      obtain ⟨rfl, rfl⟩ := hs.of_done
      exact ⟨ha, rfl⟩
    · rcases hcases with ⟨h1, h2⟩ | ⟨p', h1, h2, -, -, h3⟩
      · omega
      · have hn' : c.acts = n := by omega
        rw [h2, ← hn', ← hlen, reverse_cons_get_last] at hp
        injection hp with hp
        subst hp
        rw [hn'] at h3
        exact ⟨by omega, h3 hfal hf⟩

theorem aerr_run (n : Nat) (hf : failAt = some n) (input : List Item) (k : Nat) :
    AErrInv T n (run T af failAt startLoc k (init startLoc input) .pull).1
      (run T af failAt startLoc k (init startLoc input) .pull).2 :=
  run_inv T af failAt startLoc (AErrInv T n)
    (fun c ph h => h.step hf (step_spec T af failAt startLoc c ph))
    ⟨rfl, fun h => by simp [LR.init] at h⟩ k


theorem serr_of_run {pre : List Tok} {e : Nat} {post : List Item} {n : Nat} {c : Cfg} {ph : Phase}
    (h : run T af failAt startLoc n (init startLoc (pre.map Item.tok ++ .err e :: post)) .pull = (c, ph)) :
    SErrInv pre e post c ph := by
  have := serr_run (T := T) (startLoc := startLoc) pre e post af failAt n
  rwa [h] at this

theorem aerr_of_run {n : Nat} (hf : failAt = some n) {input : List Item} {k : Nat} {c : Cfg} {ph : Phase}
    (h : run T af failAt startLoc k (init startLoc input) .pull = (c, ph)) : AErrInv T n c ph := by
  have := aerr_run (T := T) (af := af) (startLoc := startLoc) n hf input k
  rwa [h] at this

theorem step_spec_of {c c' : Cfg} {ph ph' : Phase} (h : step T af failAt startLoc c ph = (c', ph')) :
    Step T af failAt startLoc c ph c' ph' := by
  have := step_spec T af failAt startLoc c ph
  rwa [h] at this

end LalrpopModel.LR.Generic
