import LalrpopModel.Lemmas.LRGenericBasic
/-!
Fuel monotonicity of the M-LR driver for arbitrary tables: the only effect of the `accepts` fuel
`af` is the outcome `panic .outOfFuel`; any other result is reproduced with more fuel of either kind.
-/
namespace LalrpopModel.LR.Generic
open LalrpopModel.LR
variable (T : Tables) (failAt : Option Nat) (startLoc : Int)

theorem accepts_mono {af : Nat} {st : List Nat} {i : Option Term}
    (h : accepts T af st i ≠ .error .outOfFuel) {af' : Nat} (hle : af ≤ af') :
    accepts T af' st i = accepts T af st i := by
  induction af generalizing st af' with
  | zero => simp [accepts] at h
  | succ af ih =>
    obtain ⟨k, rfl⟩ : ∃ k, af' = k + 1 := ⟨af' - 1, by omega⟩
    have hk : af ≤ k := by omega
    simp only [accepts] at h ⊢
    repeat' split
    all_goals try rfl
    all_goals simp_all
    apply ih _ hk
    intro hc
    rw [hc] at h
    split at h
    · omega
    · simp at h

theorem expectedLoop_mono {af : Nat} {st : List Nat} {k i : Nat}
    (h : expectedLoop T af st k i ≠ .error .outOfFuel) {af' : Nat} (hle : af ≤ af') :
    expectedLoop T af' st k i = expectedLoop T af st k i := by
  induction k generalizing i with
  | zero => rfl
  | succ k ih =>
    simp only [expectedLoop] at h ⊢
    have ha : accepts T af st (some i) ≠ .error .outOfFuel := by
      intro hc; rw [hc] at h; simp at h
    rw [accepts_mono T ha hle]
    cases hacc : accepts T af st (some i) with
    | error e => rfl
    | ok b =>
      rw [hacc] at h
      simp only at h ⊢
      have hr : expectedLoop T af st k (i + 1) ≠ .error .outOfFuel := by
        intro hc; rw [hc] at h; simp at h
      rw [ih hr]

theorem expected_mono {af : Nat} {st : List Nat}
    (h : expected T af st ≠ .error .outOfFuel) {af' : Nat} (hle : af ≤ af') :
    expected T af' st = expected T af st := expectedLoop_mono T h hle

theorem findState_mono {af : Nat} {oi : Option Term} {sl : Nat} {st : List Nat} {k : Nat}
    (h : findState T af oi sl st k ≠ .error .outOfFuel) {af' : Nat} (hle : af ≤ af') :
    findState T af' oi sl st k = findState T af oi sl st k := by
  induction k with
  | zero => rfl
  | succ k ih =>
    simp only [findState] at h ⊢
    generalize truncBot st (k + 1) = cand at h ⊢
    cases cand with
    | nil => rfl
    | cons s rest =>
      simp only at h ⊢
      cases ha : T.errorActionAt s with
      | none => rfl
      | some a =>
        rw [ha] at h
        simp only at h ⊢
        cases hes : asShift a with
        | none => rw [hes] at h; exact ih h
        | some es =>
          rw [hes] at h
          simp only at h ⊢
          have hacc : accepts T af (es :: s :: rest) oi ≠ .error .outOfFuel := by
            intro hc; rw [hc] at h; simp at h
          rw [accepts_mono T hacc hle]
          cases hc : accepts T af (es :: s :: rest) oi with
          | error e => rfl
          | ok b =>
            rw [hc] at h
            cases b with
            | true => rfl
            | false => simp only at h ⊢; exact ih h


theorem nextToken_mono {af : Nat} {c : Cfg}
    (h : (nextToken T af c).2 ≠ .done (.panic .outOfFuel)) {af' : Nat} (hle : af ≤ af') :
    nextToken T af' c = nextToken T af c := by
  revert h
  simp only [nextToken, unrecognizedError]
  cases c.input with
  | nil => intro _; rfl
  | cons it rest =>
    cases it with
    | err e => intro _; rfl
    | tok t =>
      simp only
      cases t.kind with
      | some i => intro _; rfl
      | none =>
        simp only
        intro h
        have he : expected T af c.states ≠ .error .outOfFuel := by
          intro hc; rw [hc] at h; simp at h
        rw [expected_mono T he hle]

theorem enterRecovery_mono {af : Nat} {c : Cfg} {la : Option (Tok × Term)} {fe : Bool}
    (h : (enterRecovery T af c la fe).2 ≠ .done (.panic .outOfFuel)) {af' : Nat} (hle : af ≤ af') :
    enterRecovery T af' c la fe = enterRecovery T af c la fe := by
  revert h
  simp only [enterRecovery, unrecognizedError_eq]
  intro h
  have he : expected T af c.states ≠ .error .outOfFuel := by
    intro hc; rw [hc] at h; simp at h
  rw [expected_mono T he hle]

theorem pullK_ne {nt : NextToken} (h : pullK nt ≠ .done (.panic .outOfFuel)) :
    nt ≠ .done (.panic .outOfFuel) := by
  intro hc; subst hc; exact h rfl

theorem step_pull_eq (af : Nat) (c : Cfg) :
    step T af failAt startLoc c .pull = ((nextToken T af c).1, pullK (nextToken T af c).2) := by
  simp only [step]
  generalize nextToken T af c = x
  obtain ⟨c', nt⟩ := x
  cases nt <;> rfl

theorem step_mono {af : Nat} {c : Cfg} {ph : Phase}
    (h : (step T af failAt startLoc c ph).2 ≠ .done (.panic .outOfFuel)) {af' : Nat} (hle : af ≤ af') :
    step T af' failAt startLoc c ph = step T af failAt startLoc c ph := by
  cases ph with
  | done r => rfl
  | pull =>
    rw [step_pull_eq] at h ⊢
    rw [step_pull_eq]
    rw [nextToken_mono T (pullK_ne h) hle]
  | act la idx =>
    revert h
    simp only [step]
    cases c.states with
    | nil => intro _; rfl
    | cons top rest =>
      simp only
      cases T.actionAt top idx with
      | none => intro _; rfl
      | some a =>
        simp only
        cases asShift a with
        | some t => intro _; rfl
        | none =>
          simp only
          cases asReduce a with
          | some p => intro _; rfl
          | none => simp only; intro h; exact enterRecovery_mono T h hle
  | eof =>
    revert h
    simp only [step]
    cases c.states with
    | nil => intro _; rfl
    | cons top rest =>
      simp only
      cases T.eofActionAt top with
      | none => intro _; rfl
      | some a =>
        simp only
        cases asReduce a with
        | some p => intro _; rfl
        | none => simp only; intro h; exact enterRecovery_mono T h hle
  | recReduce la e fe => simp only [step]
  | recFind la e dropped sl fe =>
    revert h
    simp only [step]
    intro h
    have hf : findState T af (la.map (·.2)) sl c.states sl ≠ .error .outOfFuel := by
      intro hc; rw [hc] at h; simp at h
    rw [findState_mono T hf hle]
    cases hfs : findState T af (la.map (·.2)) sl c.states sl with
    | error e => rfl
    | ok o =>
      cases o with
      | some top => rfl
      | none =>
        rw [hfs] at h
        simp only at h ⊢
        cases la with
        | none => rfl
        | some ti =>
          obtain ⟨t, i⟩ := ti
          simp only at h ⊢
          have hn : (nextToken T af c).2 ≠ .done (.panic .outOfFuel) := by
            intro hc
            revert h
            generalize nextToken T af c = x at hc ⊢
            obtain ⟨c', nt⟩ := x
            simp only at hc; subst hc
            simp
          rw [nextToken_mono T hn hle]

theorem run_mono {af : Nat} {n : Nat} {c : Cfg} {ph : Phase}
    (h : (run T af failAt startLoc n c ph).2 ≠ .done (.panic .outOfFuel)) {af' : Nat} (hle : af ≤ af') :
    run T af' failAt startLoc n c ph = run T af failAt startLoc n c ph := by
  induction n generalizing c ph with
  | zero => simp
  | succ n ih =>
    rw [run_succ] at h ⊢
    rw [run_succ]
    have hs : (step T af failAt startLoc c ph).2 ≠ .done (.panic .outOfFuel) := by
      intro hc
      apply h
      have : step T af failAt startLoc c ph = ((step T af failAt startLoc c ph).1, .done (.panic .outOfFuel)) := by
        rw [← hc]
      rw [this]; simp
    rw [step_mono T failAt startLoc hs hle]
    exact ih h


/-- `accepts` fuel monotonicity in the form used by clients -/
theorem accepts_ok_mono {af : Nat} {st : List Nat} {i : Option Term} {b : Bool}
    (h : accepts T af st i = .ok b) {af' : Nat} (hle : af ≤ af') : accepts T af' st i = .ok b := by
  rw [accepts_mono T (by rw [h]; simp) hle, h]

theorem run_done_mono {af n : Nat} {c0 : Cfg} {ph0 : Phase} {c : Cfg} {r : Outcome}
    (h : run T af failAt startLoc n c0 ph0 = (c, .done r)) (hr : r ≠ .panic .outOfFuel)
    {af' n' : Nat} (hle : af ≤ af') (hn : n ≤ n') :
    run T af' failAt startLoc n' c0 ph0 = (c, .done r) := by
  apply run_done_stable T af' failAt startLoc _ hn
  rw [run_mono T failAt startLoc _ hle, h]
  rw [h]; intro hc; injection hc with hc; exact hr hc

theorem returns_unique_aux {input : List Item} {c c' : Cfg} {r r' : Outcome}
    (h : Returns T failAt startLoc input c r) (h' : Returns T failAt startLoc input c' r')
    (hr : r ≠ .panic .outOfFuel) (hr' : r' ≠ .panic .outOfFuel) : r = r' ∧ c = c' := by
  obtain ⟨n, af, h⟩ := h
  obtain ⟨n', af', h'⟩ := h'
  have h1 := run_done_mono T failAt startLoc h hr (Nat.le_max_left af af') (Nat.le_max_left n n')
  have h2 := run_done_mono T failAt startLoc h' hr' (Nat.le_max_right af af') (Nat.le_max_right n n')
  rw [h1] at h2
  injection h2 with hc hp
  injection hp with hp
  exact ⟨hp, hc⟩

end LalrpopModel.LR.Generic
