import LalrpopModel.Lemmas.NfaBasic
namespace LalrpopModel.Nfa

/-- `q` is reachable from `s` reading `w` (ε-moves allowed everywhere) -/
inductive Path (N : Nfa) : Nat → List Nat → Nat → Prop where
  | nil (s) : Path N s [] s
  | eps (s u w q) : u ∈ noopOf N s → Path N u w q → Path N s w q
  | chr (s u c w q) : stepChar N s c = some u → Path N u w q → Path N s (c :: w) q

theorem Path.append {N : Nfa} {s q r : Nat} {w w' : List Nat} (h1 : Path N s w q) (h2 : Path N q w' r) :
    Path N s (w ++ w') r := by
  induction h1 with
  | nil s => simpa using h2
  | eps s u w q hu _ ih => exact .eps s u _ r hu (ih h2)
  | chr s u c w q hu _ ih => exact .chr s u c _ r hu (ih h2)

theorem Path.snoc_eps {N : Nfa} {s q u : Nat} {w : List Nat} (h : Path N s w q) (hu : u ∈ noopOf N q) :
    Path N s w u := by
  have := h.append (.eps q u [] u hu (.nil u))
  simpa using this

theorem Path.snoc_chr {N : Nfa} {s q u c : Nat} {w : List Nat} (h : Path N s w q)
    (hu : stepChar N q c = some u) : Path N s (w ++ [c]) u :=
  h.append (.chr q u c [] u hu (.nil u))

/-- a path reading `w ++ [c]` reads `w`, takes one `c`-step, and ends with ε-moves -/
theorem Path.snoc_inv {N : Nfa} {s r : Nat} {w : List Nat} {c : Nat} (h : Path N s (w ++ [c]) r) :
    ∃ q u, Path N s w q ∧ stepChar N q c = some u ∧ Path N u [] r := by
  generalize hx : w ++ [c] = x at h
  induction h generalizing w with
  | nil s => simp at hx
  | eps s u x q hu _ ih =>
    obtain ⟨q', u', h1, h2, h3⟩ := ih hx
    exact ⟨q', u', .eps s u _ _ hu h1, h2, h3⟩
  | chr s u d x q hu hp ih =>
    cases w with
    | nil =>
      simp only [List.nil_append, List.cons.injEq] at hx
      obtain ⟨rfl, rfl⟩ := hx
      exact ⟨s, u, .nil s, hu, hp⟩
    | cons a w' =>
      simp only [List.cons_append, List.cons.injEq] at hx
      obtain ⟨rfl, hx⟩ := hx
      obtain ⟨q', u', h1, h2, h3⟩ := ih hx
      exact ⟨q', u', .chr s u _ _ _ hu h1, h2, h3⟩

theorem acc_iff_path {N : Nfa} {s : Nat} {w : List Nat} :
    Acc N s w ↔ ∃ q, Path N s w q ∧ kindOf N q = .accept := by
  constructor
  · rintro ⟨k, hr⟩
    induction hr with
    | acc k s hs => exact ⟨s, .nil s, hs⟩
    | eps k s u w hu _ ih =>
      obtain ⟨q, hp, hq⟩ := ih
      exact ⟨q, .eps s u w q hu hp, hq⟩
    | chr k s u c w hu _ ih =>
      obtain ⟨q, hp, hq⟩ := ih
      exact ⟨q, .chr s u c w q hu hp, hq⟩
  · rintro ⟨q, hp, hq⟩
    induction hp with
    | nil s => exact ⟨0, .acc 0 s hq⟩
    | eps s u w q hu _ ih =>
      obtain ⟨k, hk⟩ := ih hq
      exact ⟨k + 1, .eps k s u w hu hk⟩
    | chr s u c w q hu _ ih =>
      obtain ⟨k, hk⟩ := ih hq
      exact ⟨k + 1, .chr k s u c w hu hk⟩

/-- ε-paths -/
theorem Path.nil_trans {N : Nfa} {s q r : Nat} (h1 : Path N s [] q) (h2 : Path N q [] r) : Path N s [] r := by
  simpa using h1.append h2

end LalrpopModel.Nfa
