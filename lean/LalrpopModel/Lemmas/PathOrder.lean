import LalrpopModel.Lemmas.Path
/-! The order of the directory walk: lemmas for `walk_order_sorted` (C23). -/

namespace LalrpopModel.PathM

/-! ### `nameLt` is a strict total order -/

theorem nameLt_irrefl (a : Name) : nameLt a a = false := by
  induction a with
  | nil => rfl
  | cons x xs ih => simp [nameLt, ih, UInt8.lt_irrefl]

theorem nameLt_trans {a b c : Name} (h1 : nameLt a b = true) (h2 : nameLt b c = true) :
    nameLt a c = true := by
  induction a generalizing b c with
  | nil =>
    cases b with
    | nil => simp [nameLt] at h1
    | cons y ys =>
      cases c with
      | nil => simp [nameLt] at h2
      | cons z zs => simp [nameLt]
  | cons x xs ih =>
    cases b with
    | nil => simp [nameLt] at h1
    | cons y ys =>
      cases c with
      | nil => simp [nameLt] at h2
      | cons z zs =>
        simp only [nameLt, Bool.or_eq_true, decide_eq_true_eq, Bool.and_eq_true, beq_iff_eq] at h1 h2 ⊢
        rcases h1 with h1 | ⟨e1, h1⟩
        · rcases h2 with h2 | ⟨e2, _⟩
          · exact Or.inl (UInt8.lt_trans h1 h2)
          · exact Or.inl (e2 ▸ h1)
        · rcases h2 with h2 | ⟨e2, h2⟩
          · exact Or.inl (e1 ▸ h2)
          · exact Or.inr ⟨e1.trans e2, ih h1 h2⟩

theorem nameLt_total {a b : Name} (hne : a ≠ b) (h : nameLt a b = false) : nameLt b a = true := by
  induction a generalizing b with
  | nil =>
    cases b with
    | nil => exact absurd rfl hne
    | cons y ys => simp [nameLt] at h
  | cons x xs ih =>
    cases b with
    | nil => simp [nameLt]
    | cons y ys =>
      simp only [nameLt, Bool.or_eq_false_iff, decide_eq_false_iff_not, Bool.and_eq_false_iff,
        beq_eq_false_iff_ne] at h
      simp only [nameLt, Bool.or_eq_true, decide_eq_true_eq, Bool.and_eq_true, beq_iff_eq]
      obtain ⟨hlt, h'⟩ := h
      by_cases hxy : x = y
      · subst hxy
        rcases h' with h' | h'
        · exact absurd rfl h'
        · refine Or.inr ⟨rfl, ih (fun e => hne (by rw [e])) h'⟩
      · refine Or.inl ?_
        have h1 : ¬ x.toNat < y.toNat := fun hh => hlt (UInt8.lt_iff_toNat_lt.mpr hh)
        have h2 : x.toNat ≠ y.toNat := fun hh => hxy (UInt8.toNat_inj.mp hh)
        exact UInt8.lt_iff_toNat_lt.mpr (by omega)

/-! ### insertion sort of directory entries -/

def SortedEntries (es : List (Name × Node)) : Prop := es.Pairwise fun x y => nameLt x.1 y.1 = true

theorem insertEntry_sorted (e : Name × Node) (es : List (Name × Node)) (hs : SortedEntries es)
    (hne : ∀ x ∈ es, x.1 ≠ e.1) : SortedEntries (insertEntry e es) := by
  induction es with
  | nil => simp [insertEntry, SortedEntries]
  | cons x xs ih =>
    simp only [SortedEntries, List.pairwise_cons] at hs
    obtain ⟨hx, hxs⟩ := hs
    simp only [insertEntry]
    by_cases hlt : nameLt x.1 e.1 = true
    · simp only [hlt, ↓reduceIte]
      simp only [SortedEntries, List.pairwise_cons]
      refine ⟨?_, ih hxs (fun y hy => hne y (List.mem_cons_of_mem _ hy))⟩
      intro y hy
      rcases (mem_insertEntry _ _ _).mp hy with rfl | hy
      · exact hlt
      · exact hx y hy
    · simp only [hlt, Bool.false_eq_true, ↓reduceIte]
      have hex : nameLt e.1 x.1 = true :=
        nameLt_total (hne x List.mem_cons_self) (by simpa using hlt)
      simp only [SortedEntries, List.pairwise_cons]
      refine ⟨?_, hx, hxs⟩
      intro y hy
      rcases List.mem_cons.mp hy with rfl | hy
      · exact hex
      · exact nameLt_trans hex (hx y hy)

theorem sortEntries_names (es : List (Name × Node)) (x : Name × Node) (hx : x ∈ sortEntries es) :
    x.1 ∈ es.map (·.1) := by
  induction es with
  | nil => simp [sortEntries] at hx
  | cons e es ih =>
    obtain ⟨n, c⟩ := e
    simp only [sortEntries] at hx
    rcases (mem_insertEntry _ _ _).mp hx with rfl | hx
    · simp
    · simp only [List.map_cons, List.mem_cons]
      exact Or.inr (ih hx)

/-! ### the walk relative to its root, files only -/

mutual
def relWalk : Node → List (List Name)
  | .file => [[]]
  | .dir es => relWalkEntries es
  | _ => []
def relWalkEntries : List (Name × Node) → List (List Name)
  | [] => []
  | (n, c) :: es => (relWalk c).map (n :: ·) ++ relWalkEntries es
end

def filesOf (items : List Item) : List PathC :=
  items.filterMap fun it => match it with
    | .file p => some p
    | .fatal _ => none

def absPath (p : PathC) (r : List Name) : PathC := p ++ r.map Comp.normal

mutual
theorem filesOf_walk (p : PathC) (t : Node) : filesOf (walk p t) = (relWalk t).map (absPath p) := by
  cases t with
  | file => simp [walk, relWalk, filesOf, absPath]
  | dangling => simp [walk, relWalk, filesOf]
  | other => simp [walk, relWalk, filesOf]
  | fatal => simp [walk, relWalk, filesOf]
  | dir es => simp only [walk, relWalk]; exact filesOf_walkEntries p es
theorem filesOf_walkEntries (p : PathC) (es : List (Name × Node)) :
    filesOf (walkEntries p es) = (relWalkEntries es).map (absPath p) := by
  cases es with
  | nil => simp [walkEntries, relWalkEntries, filesOf]
  | cons e es =>
    obtain ⟨n, c⟩ := e
    have h1 := filesOf_walk (p ++ [.normal n]) c
    have h2 := filesOf_walkEntries p es
    simp only [filesOf] at h1 h2 ⊢
    simp only [walkEntries, relWalkEntries, List.filterMap_append, h1, h2, List.map_append, List.map_map]
    congr 1
    apply List.map_congr_left
    intro r _
    simp [absPath]
end

/-- component-wise lexicographic order of relative paths; a proper prefix comes first -/
def relLt : List Name → List Name → Prop
  | [], [] => False
  | [], _ :: _ => True
  | _ :: _, [] => False
  | a :: as, b :: bs => nameLt a b = true ∨ (a = b ∧ relLt as bs)

theorem mem_relWalkEntries (es : List (Name × Node)) (r : List Name) (h : r ∈ relWalkEntries es) :
    ∃ e ∈ es, ∃ r', r = e.1 :: r' := by
  induction es with
  | nil => simp [relWalkEntries] at h
  | cons e es ih =>
    obtain ⟨n, c⟩ := e
    simp only [relWalkEntries, List.mem_append, List.mem_map] at h
    rcases h with ⟨r', _, rfl⟩ | h
    · exact ⟨(n, c), List.mem_cons_self, r', rfl⟩
    · obtain ⟨e, he, r', hr⟩ := ih h
      exact ⟨e, List.mem_cons_of_mem _ he, r', hr⟩

/-- entries strictly sorted by name, every subtree's walk sorted ⇒ the directory's walk is sorted -/
theorem relWalkEntries_pairwise (es : List (Name × Node)) (hs : SortedEntries es)
    (hc : ∀ e ∈ es, (relWalk e.2).Pairwise relLt) : (relWalkEntries es).Pairwise relLt := by
  induction es with
  | nil => simp [relWalkEntries]
  | cons e es ih =>
    obtain ⟨n, c⟩ := e
    simp only [SortedEntries, List.pairwise_cons] at hs
    obtain ⟨hn, hs'⟩ := hs
    simp only [relWalkEntries, List.pairwise_append]
    refine ⟨?_, ih hs' (fun e he => hc e (List.mem_cons_of_mem _ he)), ?_⟩
    · rw [List.pairwise_map]
      have := hc (n, c) List.mem_cons_self
      exact this.imp (fun h => Or.inr ⟨rfl, h⟩)
    · intro a ha b hb
      obtain ⟨a', _, rfl⟩ := List.mem_map.mp ha
      obtain ⟨e, he, b', rfl⟩ := mem_relWalkEntries es b hb
      exact Or.inl (hn e he)

/-- no two entries of a directory have the same name (a file system guarantees this) -/
inductive NoDupTree : Node → Prop where
  | file : NoDupTree .file
  | dangling : NoDupTree .dangling
  | other : NoDupTree .other
  | fatal : NoDupTree .fatal
  | dir (es : List (Name × Node)) : (es.map (·.1)).Nodup → (∀ e ∈ es, NoDupTree e.2) → NoDupTree (.dir es)

mutual
theorem relWalk_sortTree_pairwise (t : Node) (h : NoDupTree t) :
    (relWalk (sortTree t)).Pairwise relLt := by
  cases t with
  | file => simp [sortTree, relWalk]
  | dangling => simp [sortTree, relWalk]
  | other => simp [sortTree, relWalk]
  | fatal => simp [sortTree, relWalk]
  | dir es =>
    cases h with
    | dir _ hnd hch =>
      simp only [sortTree, relWalk]
      obtain ⟨h1, h2⟩ := sortEntries_ok es hnd hch
      exact relWalkEntries_pairwise _ h1 h2
theorem sortEntries_ok (es : List (Name × Node)) (hnd : (es.map (·.1)).Nodup)
    (hch : ∀ e ∈ es, NoDupTree e.2) :
    SortedEntries (sortEntries es) ∧ ∀ e ∈ sortEntries es, (relWalk e.2).Pairwise relLt := by
  cases es with
  | nil => simp [sortEntries, SortedEntries]
  | cons e es =>
    obtain ⟨n, c⟩ := e
    simp only [List.map_cons, List.nodup_cons] at hnd
    obtain ⟨hn, hnd'⟩ := hnd
    obtain ⟨ih1, ih2⟩ := sortEntries_ok es hnd' (fun e he => hch e (List.mem_cons_of_mem _ he))
    simp only [sortEntries]
    constructor
    · apply insertEntry_sorted _ _ ih1
      intro x hx hxe
      apply hn
      have := sortEntries_names es x hx
      simpa [hxe] using this
    · intro x hx
      rcases (mem_insertEntry _ _ _).mp hx with rfl | hx
      · exact relWalk_sortTree_pairwise c (hch (n, c) List.mem_cons_self)
      · exact ih2 x hx
end

end LalrpopModel.PathM
