import LalrpopModel.Lemmas.InlineCross
/-!
Semantics used by the C14 theorems: derivations of the lowered grammar with values, the meaning
of action functions (user actions are arbitrary functions, `Inline` actions are what
`emit_inline_action_code` generates), and runs with error propagation in LR reduction order.
-/
set_option linter.unusedSectionVars false

namespace LalrpopModel.Inline

variable {N T X : Type} [DecidableEq N] [DecidableEq T]

/-- outcome of running an action function -/
inductive Res (E V : Type) where
  | ok (v : V)
  | err (e : E)      -- `Err(ParseError::User { error })` of a fallible action
  | stuck            -- ill-formed call (missing definition / argument); never happens for
                     -- well-formed grammars, kept explicit instead of defaulting
  deriving DecidableEq, Repr

namespace Res
variable {E V W : Type}

def bind : Res E V → (V → Res E W) → Res E W
  | .ok v, f => f v
  | .err e, _ => .err e
  | .stuck, _ => .stuck

def map (f : V → W) : Res E V → Res E W
  | .ok v => .ok (f v)
  | .err e => .err e
  | .stuck => .stuck

@[simp] theorem bind_ok (v : V) (f : V → Res E W) : (Res.ok v : Res E V).bind f = f v := rfl
@[simp] theorem bind_err (e : E) (f : V → Res E W) : (Res.err e : Res E V).bind f = .err e := rfl
@[simp] theorem bind_stuck (f : V → Res E W) : (Res.stuck : Res E V).bind f = .stuck := rfl
@[simp] theorem map_ok (f : V → W) (v : V) : (Res.ok v : Res E V).map f = .ok (f v) := rfl
@[simp] theorem map_err (f : V → W) (e : E) : (Res.err e : Res E V).map f = .err e := rfl
@[simp] theorem map_stuck (f : V → W) : (Res.stuck : Res E V).map f = .stuck := rfl

theorem bind_eq_ok {r : Res E V} {f : V → Res E W} {w : W} :
    r.bind f = .ok w ↔ ∃ v, r = .ok v ∧ f v = .ok w := by
  cases r <;> simp

theorem map_eq_ok {r : Res E V} {f : V → W} {w : W} :
    r.map f = .ok w ↔ ∃ v, r = .ok v ∧ f v = w := by
  cases r <;> simp

end Res

variable {E V : Type}

/-- meaning of action functions: index ↦ arguments ↦ outcome -/
abbrev Sem (E V : Type) := Nat → List V → Res E V

/-! ### what the generated code of an `Inline` action does -/

/-- run the steps of `plan` over the flat argument list, left to right: an `orig` step passes an
    argument through, an `inl` step calls the inlined action on its slice (`?` propagates its
    failure). Result: the argument list of the host action. -/
def runSteps (sem : Sem E V) (args : List V) : List Step → Res E (List V)
  | [] => .ok []
  | .orig a :: rest =>
    match args[a]? with
    | none => .stuck
    | some v => (runSteps sem args rest).map (v :: ·)
  | .inl _ act start len :: rest =>
    (sem act ((args.drop start).take len)).bind fun v => (runSteps sem args rest).map (v :: ·)

/-- the generated function: temporaries, then the host action -/
def runInline (sem : Sem E V) (action : Nat) (symbols : List (InlinedSymbol N T)) (args : List V) :
    Res E V :=
  (runSteps sem args (plan symbols)).bind (sem action)

/-- meaning of the first `k` action functions; `user i` is interpreted by `I i`. An `Inline`
    action at index `k` refers to earlier actions only (later ones are `stuck`). -/
def semUpTo (defs : List (Defn N T X)) (I : Sem E V) : Nat → Sem E V
  | 0 => fun _ _ => .stuck
  | k + 1 => fun idx args =>
    if idx < k then semUpTo defs I k idx args
    else if idx = k then
      match defs[k]? with
      | none => .stuck
      | some d =>
        match d.kind with
        | .user _ => I k args
        | .inline a syms => runInline (semUpTo defs I k) a syms args
    else .stuck

/-- meaning of the action functions of a grammar -/
def semOf (defs : List (Defn N T X)) (I : Sem E V) : Sem E V := semUpTo defs I defs.length

/-! ### the same, by structural recursion over the inlined symbols (no index arithmetic) -/

def composeArgs (sem : Sem E V) : List (InlinedSymbol N T) → List V → Res E (List V)
  | [], _ => .ok []
  | .original _ :: _, [] => .stuck
  | .original _ :: rest, a :: args => (composeArgs sem rest args).map (a :: ·)
  | .inlined act syms :: rest, args =>
    (sem act (args.take syms.length)).bind fun v =>
      (composeArgs sem rest (args.drop syms.length)).map (v :: ·)

/-! ### derivations with values -/

/-- `Eval g sem tv ss w vs`: the symbols `ss` derive the word `w`, all actions succeed, and the
    values of the symbols are `vs` (terminal `t` has value `tv t`). -/
inductive Eval (g : Grammar N T X) (sem : Sem E V) (tv : T → V) :
    List (Symbol N T) → List T → List V → Prop where
  | nil : Eval g sem tv [] [] []
  | term (t : T) {ss w vs} : Eval g sem tv ss w vs → Eval g sem tv (.term t :: ss) (t :: w) (tv t :: vs)
  | nt (n : N) (p : Production N T) {u args v ss w vs} :
      p ∈ g.productionsFor n → Eval g sem tv p.symbols u args → sem p.action args = .ok v →
      Eval g sem tv ss w vs → Eval g sem tv (.nt n :: ss) (u ++ w) (v :: vs)

/-- plain derivations (no values) -/
inductive Derives (g : Grammar N T X) : List (Symbol N T) → List T → Prop where
  | nil : Derives g [] []
  | term (t : T) {ss w} : Derives g ss w → Derives g (.term t :: ss) (t :: w)
  | nt (n : N) (p : Production N T) {u ss w} :
      p ∈ g.productionsFor n → Derives g p.symbols u → Derives g ss w →
      Derives g (.nt n :: ss) (u ++ w)

/-- `Run g sem tv ss w r`: outcome of parsing `w` as `ss` when actions run at reductions, i.e.
    bottom-up, left to right, and the first failing action ends the parse with its error. -/
inductive Run (g : Grammar N T X) (sem : Sem E V) (tv : T → V) :
    List (Symbol N T) → List T → Res E (List V) → Prop where
  | nil : Run g sem tv [] [] (.ok [])
  | term (t : T) {ss w r} : Run g sem tv ss w r → Run g sem tv (.term t :: ss) (t :: w) (r.map (tv t :: ·))
  | ntOk (n : N) (p : Production N T) {u args v ss w r} :
      p ∈ g.productionsFor n → Run g sem tv p.symbols u (.ok args) → sem p.action args = .ok v →
      Run g sem tv ss w r → Run g sem tv (.nt n :: ss) (u ++ w) (r.map (v :: ·))
  | ntChildFail (n : N) (p : Production N T) {u e ss w} :
      p ∈ g.productionsFor n → Run g sem tv p.symbols u (.err e) → Derives g ss w →
      Run g sem tv (.nt n :: ss) (u ++ w) (.err e)
  | ntActionFail (n : N) (p : Production N T) {u args e ss w} :
      p ∈ g.productionsFor n → Run g sem tv p.symbols u (.ok args) → sem p.action args = .err e →
      Derives g ss w → Run g sem tv (.nt n :: ss) (u ++ w) (.err e)

/-! ### basic facts -/

theorem Eval.length_eq {g : Grammar N T X} {sem : Sem E V} {tv : T → V} {ss w vs}
    (h : Eval g sem tv ss w vs) : vs.length = ss.length := by
  induction h with
  | nil => rfl
  | term _ _ ih => simp [ih]
  | nt _ _ _ _ _ _ _ ih => simp [ih]

theorem Eval.append {g : Grammar N T X} {sem : Sem E V} {tv : T → V} {ss1 w1 vs1 ss2 w2 vs2}
    (h1 : Eval g sem tv ss1 w1 vs1) (h2 : Eval g sem tv ss2 w2 vs2) :
    Eval g sem tv (ss1 ++ ss2) (w1 ++ w2) (vs1 ++ vs2) := by
  induction h1 with
  | nil => simpa using h2
  | term t _ ih => exact Eval.term t ih
  | nt n p hp hc hs _ _ ih =>
    rw [List.append_assoc]
    exact Eval.nt n p hp hc hs ih

/-- splitting an evaluation of `ss1 ++ ss2` -/
theorem Eval.split {g : Grammar N T X} {sem : Sem E V} {tv : T → V} (ss1 : List (Symbol N T))
    {ss2 w vs} (h : Eval g sem tv (ss1 ++ ss2) w vs) :
    ∃ w1 w2 vs1 vs2, w = w1 ++ w2 ∧ vs = vs1 ++ vs2 ∧
      Eval g sem tv ss1 w1 vs1 ∧ Eval g sem tv ss2 w2 vs2 := by
  induction ss1 generalizing w vs with
  | nil => exact ⟨[], w, [], vs, rfl, rfl, Eval.nil, h⟩
  | cons s ss1 ih =>
    cases h with
    | term t h' =>
      obtain ⟨w1, w2, vs1, vs2, rfl, rfl, h1, h2⟩ := ih h'
      exact ⟨t :: w1, w2, tv t :: vs1, vs2, rfl, rfl, Eval.term t h1, h2⟩
    | nt n p hp hc hs h' =>
      obtain ⟨w1, w2, vs1, vs2, rfl, rfl, h1, h2⟩ := ih h'
      exact ⟨_ ++ w1, w2, _ :: vs1, vs2, by simp, rfl, Eval.nt n p hp hc hs h1, h2⟩

/-! ### `semUpTo` only looks at the definitions below the bound -/

theorem semUpTo_stable (defs : List (Defn N T X)) (I : Sem E V) (k idx : Nat) (h : idx < k) :
    semUpTo defs I k idx = semUpTo defs I (idx + 1) idx := by
  induction k with
  | zero => omega
  | succ k ih =>
    by_cases hk : idx < k
    · funext args
      have h1 : semUpTo defs I (k + 1) idx args = semUpTo defs I k idx args := by
        simp only [semUpTo, hk, if_true]
      rw [h1, ih hk]
    · have : idx = k := by omega
      subst this; rfl

theorem semUpTo_append (defs extra : List (Defn N T X)) (I : Sem E V) (k : Nat)
    (hk : k ≤ defs.length) : semUpTo (defs ++ extra) I k = semUpTo defs I k := by
  induction k with
  | zero => rfl
  | succ k ih =>
    have hk' : k < defs.length := by omega
    funext idx args
    simp only [semUpTo, ih (by omega), List.getElem?_append_left hk']

/-- old actions keep their meaning when definitions are appended -/
theorem semOf_append_old (defs extra : List (Defn N T X)) (I : Sem E V) (idx : Nat)
    (h : idx < defs.length) : semOf (defs ++ extra) I idx = semOf defs I idx := by
  unfold semOf
  rw [semUpTo_stable _ _ _ _ (by simp; omega), semUpTo_stable defs _ _ _ h,
    semUpTo_append _ _ _ _ (by omega)]

/-- meaning of an `Inline` action in terms of the meaning of the earlier ones -/
theorem semOf_inline (defs : List (Defn N T X)) (I : Sem E V) (idx : Nat) (d : Defn N T X)
    (a : Nat) (syms : List (InlinedSymbol N T))
    (hd : defs[idx]? = some d) (hk : d.kind = .inline a syms) :
    semOf defs I idx = runInline (semUpTo defs I idx) a syms := by
  have hlt : idx < defs.length := by
    rcases Nat.lt_or_ge idx defs.length with h | h
    · exact h
    · rw [List.getElem?_eq_none h] at hd; cases hd
  unfold semOf
  rw [semUpTo_stable _ _ _ _ hlt]
  funext args
  simp [semUpTo, hd, hk]

theorem semOf_user (defs : List (Defn N T X)) (I : Sem E V) (idx : Nat) (d : Defn N T X) (u : X)
    (hd : defs[idx]? = some d) (hk : d.kind = .user u) : semOf defs I idx = I idx := by
  have hlt : idx < defs.length := by
    rcases Nat.lt_or_ge idx defs.length with h | h
    · exact h
    · rw [List.getElem?_eq_none h] at hd; cases hd
  unfold semOf
  rw [semUpTo_stable _ _ _ _ hlt]
  funext args
  simp [semUpTo, hd, hk]

/-- below the bound, `semUpTo` agrees with the meaning of the whole list -/
theorem semUpTo_eq_semOf (defs : List (Defn N T X)) (I : Sem E V) (k idx : Nat)
    (h : idx < k) (hk : k ≤ defs.length) : semUpTo defs I k idx = semOf defs I idx := by
  unfold semOf
  rw [semUpTo_stable _ _ _ _ h, semUpTo_stable _ _ defs.length _ (by omega)]

/-! ### index arithmetic of the generated code = structural composition -/

theorem runSteps_planFrom (sem : Sem E V) (syms : List (InlinedSymbol N T)) (pre args : List V)
    (temp : Nat) :
    runSteps sem (pre ++ args) (planFrom pre.length temp syms) = composeArgs sem syms args := by
  induction syms generalizing pre args temp with
  | nil => rfl
  | cons s rest ih =>
    cases s with
    | original sym =>
      cases args with
      | nil => simp [planFrom, runSteps, composeArgs]
      | cons a args =>
        have := ih (pre ++ [a]) args temp
        simp only [List.length_append, List.length_singleton, List.append_assoc,
          List.singleton_append] at this
        simp [planFrom, runSteps, composeArgs, this]
    | inlined act ss =>
      simp only [planFrom, runSteps, composeArgs, List.drop_left]
      cases hres : sem act (List.take ss.length args) with
      | err e => rfl
      | stuck => rfl
      | ok v =>
        simp only [Res.bind_ok]
        by_cases hlen : ss.length ≤ args.length
        · have := ih (pre ++ args.take ss.length) (args.drop ss.length) (temp + 1)
          simp only [List.length_append, List.length_take, Nat.min_eq_left hlen, List.append_assoc,
            List.take_append_drop] at this
          rw [this]
        · -- fewer arguments than symbols: both sides see no arguments from here on
          have hdrop : args.drop ss.length = [] := List.drop_eq_nil_of_le (by omega)
          have hgen : ∀ (rest : List (InlinedSymbol N T)) (a t : Nat), (pre ++ args).length ≤ a →
              runSteps sem (pre ++ args) (planFrom a t rest) = composeArgs sem rest [] := by
            intro rest
            induction rest with
            | nil => intros; rfl
            | cons s rest ihr =>
              intro a t ha
              cases s with
              | original sym => simp [planFrom, runSteps, composeArgs, List.getElem?_eq_none ha]
              | inlined act' ss' =>
                have hd : (pre ++ args).drop a = [] := List.drop_eq_nil_of_le ha
                simp [planFrom, runSteps, composeArgs, hd, ihr (a + ss'.length) (t + 1) (by omega)]
          rw [hdrop, hgen rest _ _ (by simp; omega)]

theorem runInline_eq_compose (sem : Sem E V) (action : Nat) (syms : List (InlinedSymbol N T))
    (args : List V) :
    runInline sem action syms args = (composeArgs sem syms args).bind (sem action) := by
  unfold runInline plan
  have := runSteps_planFrom sem syms [] args 0
  simp only [List.nil_append, List.length_nil] at this
  rw [this]

end LalrpopModel.Inline
