import LalrpopModel.Lemmas.LRCompleteValid
/-!
LR completeness, part 4: the induction. `parse_tree` / `parse_forest` (mutual structural
induction on derivation trees, DESIGN.md Appendix A lifted to the executable driver) and the
resulting `drive_complete_run`: on the yield of a derivation tree of the start symbol the driver
returns a value of the same shape, having pulled every token once (plus the EOF probe) and run
one action per node in post-order, then the start production.
-/
namespace LalrpopModel.LR

/-- shape of the value held by a stack symbol -/
abbrev shapeOf (x : SymTriple) : Tree := x.2.1.shape

section
variable {G : Grammar} {T : Tables} {ann : Ann}

theorem drop_succ_rhs {pr : Production} {d : Nat} {X : Sym} {Xs : List Sym}
    (h : pr.rhs.drop d = X :: Xs) : pr.rhs[d]? = some X ∧ pr.rhs.drop (d + 1) = Xs ∧ d < pr.rhs.length := by
  have h1 : pr.rhs[d]? = some X := by
    have := congrArg List.head? h
    simpa [List.head?_drop] using this
  have h2 : pr.rhs.drop (d + 1) = Xs := by
    have := congrArg List.tail h
    simpa [List.tail_drop] using this
  exact ⟨h1, h2, (List.getElem?_eq_some_iff.mp h1).1⟩

mutual
/-- a tree whose root is the symbol after the dot of an item of the top state is parsed: the
    machine consumes its yield, pushes a value of the same shape and reaches a state holding the
    advanced item; one token pulled per leaf, one action per node, in post-order -/
theorem parse_tree (V : Valid G T ann) (af : Nat) (failAt : Option Nat) (hf : NoFail T failAt) (startLoc : Int) :
    (t : Tree) → (c : Cfg) → (ph : Phase) → (v : List Tok) → (p d : Nat) → (la : LA) →
    (pr : Production) → (X : Sym) → (s : Nat) → (sts : List Nat) →
    Tree.WF G none t → t.root G none = some X → c.states = s :: sts →
    (p, d, la) ∈ itemsOf ann s → G.prods[p]? = some pr → pr.rhs[d]? = some X →
    Rdy c ph (t.yield ++ v) → AllK v →
    (∃ fs v', Forest.WF G none fs (pr.rhs.drop (d + 1)) ∧ laOf v' = la ∧ v = fs.yield ++ v') →
    ∃ c' ph' s' x, Reach T af failAt startLoc (c, ph) (c', ph') ∧ (p, d + 1, la) ∈ itemsOf ann s' ∧
      c'.states = s' :: s :: sts ∧ c'.symbols = x :: c.symbols ∧ shapeOf x = t.shape ∧
      Rdy c' ph' v ∧ c'.pulled = c.pulled + t.yield.length ∧
      c'.trace = t.post.reverse ++ c.trace ∧ c'.acts = c.acts + t.post.length
  | .leaf a, c, ph, v, p, d, la, pr, X, s, sts, hwf, hroot, hst, hit, hp, hX, hr, hv, _ => by
    cases hwf with
    | leaf _ k hk =>
      simp [Tree.root, hk] at hroot
      subst hroot
      obtain ⟨act, hact, hpos, hit'⟩ := V.shift _ _ _ _ _ _ hit hp hX
      obtain ⟨c1, hs1, hin1, hst1, hsy1, hpu1, htr1, hac1⟩ :=
        step_shift T af failAt startLoc c ph a v k s sts act (by simpa [Tree.yield] using hr) hk hst hact hpos
      obtain ⟨c2, ph2, hs2, hr2, hst2, hsy2, hpu2, htr2, hac2⟩ := step_pull_C T af failAt startLoc c1 v hin1 hv
      refine ⟨c2, ph2, (act - 1).toNat, (a.l, Tree.leaf a, a.r), ?_, hit', ?_, ?_, rfl, hr2, ?_, ?_, ?_⟩
      · exact (Reach.step T af failAt startLoc hs1).trans T af failAt startLoc (Reach.step T af failAt startLoc hs2)
      · rw [hst2, hst1, hst]
      · rw [hsy2, hsy1]
      · simp [Tree.yield, hpu2, hpu1]
      · simp [Tree.post, htr2, htr1]
      · simp [Tree.post, hac2, hac1]
  | .node q l r ks, c, ph, v, p, d, la, pr, X, s, sts, hwf, hroot, hst, hit, hp, hX, hr, hv, hrest => by
    cases hwf with
    | node _ _ _ qr _ hq hks =>
      simp [Tree.root, hq] at hroot
      subst hroot
      obtain ⟨fs, v', hfs, hv', rfl⟩ := hrest
      -- closure: the initial item of `q` with the actual next token as lookahead
      have hcl := V.closure _ _ _ _ _ _ hit hp hX q qr hq rfl _
        (hv' ▸ firstSeq_sound V.first fs _ v' hfs)
      obtain ⟨c1, ph1, top1, rest1, hre1, hst1, hit1, hdr1, hle1, hsd1, hsh1, hr1, hpu1, htr1, hac1⟩ :=
        parse_forest V af failAt hf startLoc ks c ph (fs.yield ++ v') q 0 _ qr s sts s sts c.symbols
          (by simpa using hks) hq (Nat.zero_le _) hst hcl rfl hv (by simp [hst]) (Nat.zero_le _) (by simp)
          (by simpa [Tree.yield] using hr)
      have hne : q ≠ G.startProd := by
        intro h; subst h
        exact V.start_fresh qr hq p pr d hp hX
      obtain ⟨_, hact, _⟩ := V.reduce _ _ _ _ _ hit1 hq (by simp)
      obtain ⟨fal, hfal⟩ := V.fallible q qr hq
      have his := V.isStart q qr hq
      have hisf : T.isStart[q]? = some false := by
        rw [his]; simp [hne]
      obtain ⟨c2, l2, r2, hs2, hr2, hst2, hsy2, hpu2, htr2, hac2⟩ :=
        step_reduce T af failAt startLoc hf c1 ph1 (fs.yield ++ v') top1 rest1 q qr.rhs.length qr.lhs fal
          hr1 hst1 hact (V.prodLen q qr hq) (V.prodLhs q qr hq hne) hisf hfal hle1 s sts hdr1
      refine ⟨c2, ph1, T.gotoAt s qr.lhs,
        (l2, Tree.node q l2 r2 (Forest.ofList ((c1.symbols.take qr.rhs.length).reverse.map (·.2.1))), r2),
        ?_, V.goto _ _ _ _ _ _ hit hp hX, hst2, ?_, ?_, hr2, ?_, ?_, ?_⟩
      · exact hre1.trans T af failAt startLoc (Reach.step T af failAt startLoc hs2)
      · rw [hsy2, hsd1]
      · simp only [shapeOf, Tree.shape]
        congr 1
        apply Forest.shape_ofList_of_map_eq
        simpa [shapeOf, List.map_map, Function.comp_def] using hsh1
      · simp [Tree.yield, hpu2, hpu1]
      · simp [Tree.post, htr2, htr1]
      · simp [Tree.post, hac2, hac1]; omega
  | .err _ _, _, _, _, _, _, _, _, _, _, _, hwf, _, _, _, _, _, _, _, _ => by
    cases hwf with
    | err _ _ k hk => cases hk
/-- the remaining children of a production are parsed one after the other; the final state holds
    the complete item with the same lookahead -/
theorem parse_forest (V : Valid G T ann) (af : Nat) (failAt : Option Nat) (hf : NoFail T failAt) (startLoc : Int) :
    (fs : Forest) → (c : Cfg) → (ph : Phase) → (v : List Tok) → (p d : Nat) → (la : LA) →
    (pr : Production) → (top : Nat) → (rest : List Nat) → (s0 : Nat) → (sts0 : List Nat) →
    (syms0 : List SymTriple) →
    Forest.WF G none fs (pr.rhs.drop d) → G.prods[p]? = some pr → d ≤ pr.rhs.length →
    c.states = top :: rest → (p, d, la) ∈ itemsOf ann top → laOf v = la → AllK v →
    c.states.drop d = s0 :: sts0 → d ≤ c.symbols.length → c.symbols.drop d = syms0 →
    Rdy c ph (fs.yield ++ v) →
    ∃ c' ph' top' rest', Reach T af failAt startLoc (c, ph) (c', ph') ∧ c'.states = top' :: rest' ∧
      (p, pr.rhs.length, la) ∈ itemsOf ann top' ∧
      c'.states.drop pr.rhs.length = s0 :: sts0 ∧ pr.rhs.length ≤ c'.symbols.length ∧
      c'.symbols.drop pr.rhs.length = syms0 ∧
      (c'.symbols.take pr.rhs.length).reverse.map shapeOf =
        (c.symbols.take d).reverse.map shapeOf ++ fs.toList.map Tree.shape ∧
      Rdy c' ph' v ∧ c'.pulled = c.pulled + fs.yield.length ∧
      c'.trace = fs.post.reverse ++ c.trace ∧ c'.acts = c.acts + fs.post.length
  | .nil, c, ph, v, p, d, la, pr, top, rest, s0, sts0, syms0, hwf, hp, hd_le, hst, hit, hla, hv, hdr, hle, hsd, hr => by
    cases hdrop : pr.rhs.drop d with
    | nil =>
      have : pr.rhs.length ≤ d := by simpa using List.drop_eq_nil_iff.mp hdrop
      have hd_eq : d = pr.rhs.length := by omega
      subst hd_eq
      exact ⟨c, ph, top, rest, Reach.refl T af failAt startLoc _, hst, hit, hdr, hle, hsd,
        by simp [Forest.toList], by simpa [Forest.yield] using hr, by simp [Forest.yield],
        by simp [Forest.post], by simp [Forest.post]⟩
    | cons X Xs => rw [hdrop] at hwf; cases hwf
  | .cons t ts, c, ph, v, p, d, la, pr, top, rest, s0, sts0, syms0, hwf, hp, hd_le, hst, hit, hla, hv, hdr, hle, hsd, hr => by
    cases hdrop : pr.rhs.drop d with
    | nil => rw [hdrop] at hwf; cases hwf
    | cons X Xs =>
      rw [hdrop] at hwf
      cases hwf with
      | cons _ _ _ _ hwt hroot hwts =>
        obtain ⟨hX, hXs, hlt⟩ := drop_succ_rhs hdrop
        have hvs : AllK (ts.yield ++ v) := (Forest.WF.allK ts hwts).append hv
        obtain ⟨c1, ph1, s1, x, hre1, hit1, hst1, hsy1, hsh1, hr1, hpu1, htr1, hac1⟩ :=
          parse_tree V af failAt hf startLoc t c ph (ts.yield ++ v) p d la pr X top rest hwt hroot hst hit hp hX
            (by simpa [Forest.yield, List.append_assoc] using hr) hvs
            ⟨ts, v, by rw [hXs]; exact hwts, hla, rfl⟩
        obtain ⟨c2, ph2, top2, rest2, hre2, hst2, hit2, hdr2, hle2, hsd2, hsh2, hr2, hpu2, htr2, hac2⟩ :=
          parse_forest V af failAt hf startLoc ts c1 ph1 v p (d + 1) la pr s1 (top :: rest) s0 sts0 syms0
            (by rw [hXs]; exact hwts) hp hlt hst1 hit1 hla hv
            (by rw [hst1, List.drop_succ_cons, ← hst]; exact hdr)
            (by rw [hsy1]; simp; omega)
            (by rw [hsy1, List.drop_succ_cons]; exact hsd) hr1
        refine ⟨c2, ph2, top2, rest2, hre1.trans T af failAt startLoc hre2, hst2, hit2, hdr2, hle2, hsd2,
          ?_, hr2, ?_, ?_, ?_⟩
        · rw [hsh2, hsy1]
          simp [List.take_succ_cons, Forest.toList, hsh1]
        · simp [Forest.yield, hpu2, hpu1]; omega
        · simp [Forest.post, htr2, htr1]
        · simp [Forest.post, hac2, hac1]; omega
end

theorem startSym_eq_C (V : Valid G T ann) {S : NT} (hS : G.startSym = some S) :
    ∃ sp, G.prods[G.startProd]? = some sp ∧ sp.rhs = [Sym.n S] := by
  obtain ⟨sp, S', hsp, hrhs⟩ := V.start_prod
  refine ⟨sp, hsp, ?_⟩
  unfold Grammar.startSym at hS
  rw [hsp] at hS
  obtain ⟨lhs, rhs⟩ := sp
  simp only at hrhs
  subst hrhs
  simp at hS
  rw [hS]

/-- completeness with explicit fuel: for every `accepts` fuel `af` there is a step count -/
theorem drive_complete_run (V : Valid G T ann) (af : Nat) (failAt : Option Nat) (hf : NoFail T failAt) (startLoc : Int) (t : Tree) (S : NT)
    (hS : G.startSym = some S) (hwf : Tree.WF G none t) (hroot : t.root G none = some (Sym.n S)) :
    ∃ n c v, run T af failAt startLoc n (init startLoc (t.yield.map Item.tok)) .pull = (c, .done (.ok v)) ∧
      v.shape = t.shape ∧ c.pulled = t.yield.length + 1 ∧
      c.trace.reverse = t.post ++ [G.startProd] ∧ c.acts = t.post.length + 1 := by
  obtain ⟨sp, hsp, hrhs⟩ := startSym_eq_C V hS
  obtain ⟨c1, ph1, hs1, hr1, hst1, hsy1, hpu1, htr1, hac1⟩ :=
    step_pull_C T af failAt startLoc (init startLoc (t.yield.map Item.tok)) t.yield rfl (Tree.WF.allK t hwf)
  obtain ⟨c2, ph2, s', x, hre2, hit2, hst2, hsy2, hsh2, hr2, hpu2, htr2, hac2⟩ :=
    parse_tree V af failAt hf startLoc t c1 ph1 [] G.startProd 0 none sp (Sym.n S) 0 [] hwf hroot
      (by rw [hst1]; rfl) V.start_item hsp (by simp [hrhs]) (by simpa using hr1)
      (by intro a ha; cases ha)
      ⟨.nil, [], by rw [hrhs]; exact Forest.WF.nil, rfl, rfl⟩
  obtain ⟨rfl, _⟩ := hr2
  obtain ⟨_, hact, _⟩ := V.reduce s' G.startProd 1 none sp hit2 hsp (by simp [hrhs])
  obtain ⟨fal, hfal⟩ := V.fallible _ _ hsp
  obtain ⟨B, hB⟩ := V.prodLhs_some _ _ hsp
  have hlen : T.prodLen[G.startProd]? = some 1 := by
    rw [V.prodLen _ _ hsp, hrhs]; rfl
  have his : T.isStart[G.startProd]? = some true := by
    rw [V.isStart _ _ hsp]; simp
  obtain ⟨c3, hs3, hpu3, htr3, hac3⟩ :=
    step_accept T af failAt startLoc hf c2 s' [0] G.startProd B fal x hst2 hact hlen hB his hfal
      (by rw [hsy2, hsy1]; rfl)
  obtain ⟨n, hn⟩ := ((Reach.step T af failAt startLoc hs1).trans T af failAt startLoc hre2).trans T af failAt startLoc
    (Reach.step T af failAt startLoc hs3)
  refine ⟨n, c3, x.2.1, hn, hsh2, ?_, ?_, ?_⟩
  · rw [hpu3, hpu2, hpu1]; simp [init]; omega
  · rw [htr3, htr2, htr1]; simp [init]
  · rw [hac3, hac2, hac1]; simp [init]

end
end LalrpopModel.LR
