import LalrpopModel.Lemmas.LRSoundValid
/-!
Soundness of the model driver, part 3: `accepts`, `expected`, `unrecognizedError` never panic
(other than running out of fuel) on a stack that is a path of the automaton, and `reduce` by a
complete item of the top state preserves the stack invariant / accepts with a well-formed tree.
-/
namespace LalrpopModel.LR
variable {G : Grammar} {T : Tables} {A : Automaton}

theorem asReduce_some {a : Int} {p : Nat} (h : asReduce a = some p) : a < 0 ∧ p = (-(a + 1)).toNat := by
  simp only [asReduce] at h
  split at h
  · cases h; exact ⟨‹_›, rfl⟩
  · cases h

theorem asShift_some {a : Int} {s : Nat} (h : asShift a = some s) : 0 < a ∧ s = (a - 1).toNat := by
  simp only [asShift] at h
  split at h
  · cases h; exact ⟨‹_›, rfl⟩
  · cases h

theorem prodLen_get (S : Sound G T A) {p : Nat} {pr : Production} (hp : G.prods[p]? = some pr) :
    T.prodLen[p]? = some pr.rhs.length := by
  rw [S.prodLen_eq, List.getElem?_map, hp]; rfl

theorem prodLhs_some (S : Sound G T A) {p : Nat} {pr : Production} (hp : G.prods[p]? = some pr) :
    ∃ B, T.prodLhs[p]? = some B := by
  have hlt := (List.getElem?_eq_some_iff.mp hp).1
  have : p < T.prodLhs.length := by rw [S.prodLhs_len]; exact hlt
  exact ⟨_, List.getElem?_eq_getElem this⟩

/-- a reduction by a complete item of the top state pops to a state with a goto on the lhs -/
theorem Path.reduce_goto (S : Sound G T A) {top : Nat} {rest : List Nat} {Xs : List Sym}
    (h : Path A (top :: rest) Xs) {p : Nat} {pr : Production} (hp : G.prods[p]? = some pr)
    (hit : (p, pr.rhs.length) ∈ A.coresOf top) (hne : p ≠ G.startProd) :
    ∃ below more, (top :: rest).drop pr.rhs.length = below :: more ∧
      Path A (T.gotoAt below pr.lhs :: below :: more) (Sym.n pr.lhs :: Xs.drop pr.rhs.length) := by
  have hv := h.itemAt S _ _ rfl p _ hit
  obtain ⟨below, more, hd, hm⟩ := ItemAt.drop _ hv
  obtain ⟨pr', s', hp', hg⟩ := S.gotos below p hm hne
  rw [hp] at hp'; cases hp'
  refine ⟨below, more, hd, ?_⟩
  rw [S.goto_eq _ _ _ hg]
  exact Path.push (Path.drop _ h hd) hg

theorem accepts_no_panic (S : Sound G T A) : ∀ (af : Nat) (states : List Nat) (Xs : List Sym) (optIdx : Option Term),
    Path A states Xs → (∀ i, optIdx = some i → i < T.nTerm) →
    ∀ tag, accepts T af states optIdx = .error tag → tag = .outOfFuel
  | 0, _, _, _, _, _, tag, h => by simp [accepts] at h; exact h.symm
  | af + 1, states, Xs, optIdx, hp, hi, tag, h => by
    cases states with
    | nil => exact absurd rfl hp.ne_nil
    | cons top rest =>
      have hlt := hp.top_lt S
      -- the action consulted
      have hact : ∃ a, (match optIdx with
          | none => T.eofActionAt top
          | some i => T.actionAt top i) = some a ∧
          (a < 0 → ∃ pr, G.prods[(-(a + 1)).toNat]? = some pr ∧ ((-(a + 1)).toNat, pr.rhs.length) ∈ A.coresOf top) := by
        cases optIdx with
        | none => exact S.eofAction top hlt
        | some i =>
          obtain ⟨a, h1, _, h3⟩ := S.action top i hlt (hi i rfl)
          exact ⟨a, h1, h3⟩
      obtain ⟨a, ha, hred⟩ := hact
      simp only [accepts] at h
      split at h
      · rename_i heq
        cases optIdx <;> simp_all
      · rename_i a' heq
        have haa : a' = a := by cases optIdx <;> simp_all
        subst haa
        split at h
        · cases h
        · split at h
          · rename_i p hpa
            obtain ⟨hneg, hpe⟩ := asReduce_some hpa
            obtain ⟨pr, hpr, hit⟩ := hred hneg
            rw [← hpe] at hpr hit
            obtain ⟨B, hB⟩ := prodLhs_some S hpr
            simp only [prodLen_get S hpr, hB, S.isStart_eq p pr hpr] at h
            split at h
            · cases h
            · rename_i hns
              have hne : p ≠ G.startProd := by simpa using hns
              obtain ⟨below, more, hd, hpath⟩ := hp.reduce_goto S hpr hit hne
              have hB' := S.prodLhs_eq p pr hpr hne
              rw [hB] at hB'; cases hB'
              have hlen : ¬ (top :: rest).length < pr.rhs.length := by
                intro hl
                have := List.drop_eq_nil_of_le (Nat.le_of_lt hl)
                rw [hd] at this; cases this
              simp only [hlen, if_false, hd] at h
              exact accepts_no_panic S af _ _ optIdx hpath hi tag h
          · cases h

theorem nRepr_le (T : Tables) : T.nRepr ≤ T.nTerm := by
  simp only [Tables.nRepr]; split <;> omega

theorem expectedLoop_no_panic (S : Sound G T A) {states : List Nat} {Xs : List Sym} (hp : Path A states Xs)
    (af : Nat) : ∀ (k i : Nat), i + k ≤ T.nTerm → ∀ e, expectedLoop T af states k i = .error e → e = .outOfFuel
  | 0, _, _, e, h => by simp [expectedLoop] at h
  | k + 1, i, hik, e, h => by
    simp only [expectedLoop] at h
    split at h
    · rename_i e' he
      cases h
      exact accepts_no_panic S af _ _ (some i) hp (by intro j hj; cases hj; exact (by omega : i < T.nTerm)) _ he
    · split at h
      · rename_i e' he
        cases h
        exact expectedLoop_no_panic S hp af k (i + 1) (by omega) _ he
      · cases h

theorem unrecognizedError_no_panic (S : Sound G T A) {c : Cfg} {Xs : List Sym} (hp : Path A c.states Xs)
    (af : Nat) (tok : Option Tok) (e : PanicTag) (h : unrecognizedError T af c tok = .error e) : e = .outOfFuel := by
  simp only [unrecognizedError, expected] at h
  split at h
  · rename_i e' he
    cases h
    exact expectedLoop_no_panic S hp af _ _ (by have := nRepr_le T; omega) _ he
  · split at h <;> cases h

theorem reduce_eq (failAt : Option Nat) (startLoc : Int) (c : Cfg) (p : Nat) (la : Option Int)
    {n A' : Nat} {st fal : Bool}
    (h1 : T.prodLen[p]? = some n) (h2 : T.prodLhs[p]? = some A') (h3 : T.isStart[p]? = some st)
    (h4 : T.fallible[p]? = some fal) (hge : ¬ c.symbols.length < n) :
    ∃ start end_ : Int, reduce T failAt startLoc c p la =
      let popped := (c.symbols.take n).reverse
      let rest := c.symbols.drop n
      let c1 : Cfg := { c with acts := c.acts + 1, trace := p :: c.trace, symbols := rest }
      if (fal && failAt == some c.acts) = true then .finished c1 (.err (.user (failCode c.acts)))
      else if st = true then
        (match popped with
          | [k] => .finished c1 (.ok k.2.1)
          | _ => .finished c1 (.panic .badStartProduction))
      else
        let c2 : Cfg := { c1 with symbols :=
          (start, Tree.node p start end_ (Forest.ofList (popped.map (·.2.1))), end_) :: rest }
        if c2.states.length < n then .finished c2 (.panic .statesUnderflow)
        else match c2.states.drop n with
          | [] => .finished c2 (.panic .emptyStates)
          | below :: more => .continue_ { c2 with states := T.gotoAt below A' :: below :: more } := by
  simp only [reduce, h1, h2, h3, h4, hge, if_false]
  exact ⟨_, _, rfl⟩

/-- the stack part of the invariant -/
def StackInv (G : Grammar) (T : Tables) (A : Automaton) (c : Cfg) : Prop :=
  ∃ Xs, Path A c.states Xs ∧ TreesOK G (errT T) c.symbols Xs

theorem startSym_eq {G : Grammar} {sp : Production} {S0 : NT} (h : G.prods[G.startProd]? = some sp)
    (hr : sp.rhs = [Sym.n S0]) : G.startSym = some S0 := by
  cases sp with
  | mk l r =>
    simp only at hr
    subst hr
    simp [Grammar.startSym, h]

theorem reduce_spec (S : Sound G T A) (failAt : Option Nat) (startLoc : Int) (c : Cfg) (p : Nat)
    (pr : Production) (la : Option Int) {top : Nat} {rest : List Nat} {Xs : List Sym}
    (hst : c.states = top :: rest) (hpath : Path A c.states Xs) (htrees : TreesOK G (errT T) c.symbols Xs)
    (hp : G.prods[p]? = some pr) (hit : (p, pr.rhs.length) ∈ A.coresOf top) :
    match reduce T failAt startLoc c p la with
    | .continue_ c' => StackInv G T A c' ∧ c'.input = c.input ∧ stackYield c'.symbols = stackYield c.symbols
    | .finished c' (.ok v) => Tree.WF G (errT T) v ∧
        (∀ S0, G.startSym = some S0 → v.root G (errT T) = some (Sym.n S0)) ∧
        c'.input = c.input ∧ c'.symbols = [] ∧ v.yield = stackYield c.symbols
    | .finished _ (.err _) => True
    | .finished _ (.panic _) => False := by
  obtain ⟨cs, csy, ci, cl, cp, ca, ct⟩ := c
  simp only at hst hpath htrees ⊢
  subst hst
  have hlt := (List.getElem?_eq_some_iff.mp hp).1
  have hfal : ∃ fal, T.fallible[p]? = some fal :=
    ⟨_, List.getElem?_eq_getElem (by rw [S.fallible_len]; exact hlt)⟩
  obtain ⟨fal, hfal⟩ := hfal
  obtain ⟨B, hB⟩ := prodLhs_some S hp
  have hv := hpath.itemAt S _ _ rfl p _ hit
  obtain ⟨hle, _, hforest⟩ := ItemAt.forest (e := errT T) hp _ hv htrees
  rw [List.take_length] at hforest
  obtain ⟨start, end_, heq⟩ := reduce_eq (T := T) failAt startLoc ⟨top :: rest, csy, ci, cl, cp, ca, ct⟩ p la (prodLen_get S hp) hB
    (S.isStart_eq p pr hp) hfal (Nat.not_lt.mpr hle)
  rw [heq]
  simp only []
  by_cases hfail : (fal && failAt == some ca) = true
  · rw [if_pos hfail]; trivial
  · rw [if_neg hfail]
    by_cases hsp : p = G.startProd
    · -- the start production: accept
      have hb : (p == G.startProd) = true := by simpa using hsp
      rw [if_pos hb]
      obtain ⟨sp, S0, hsp0, hr⟩ := S.start
      rw [← hsp, hp] at hsp0; cases hsp0
      have hn : pr.rhs.length = 1 := by rw [hr]; rfl
      rw [hn] at hv ⊢
      cases rest with
      | nil => cases Xs <;> simp [ItemAt] at hv
      | cons s1 ss' =>
        cases Xs with
        | nil => simp [ItemAt] at hv
        | cons X Xs' =>
          simp only [ItemAt] at hv
          obtain ⟨hX, hm⟩ := hv
          rw [hsp] at hm
          obtain ⟨h1, h2⟩ := (Path.tail hpath).start_bottom S hm
          simp only [List.tail_cons] at h2
          subst h1; subst h2
          cases htrees with
          | cons hw hroot htl =>
            cases htl
            rename_i y
            simp only [List.take_succ_cons, List.take_zero, List.reverse_cons, List.reverse_nil, List.nil_append,
              List.drop_succ_cons, List.drop_zero]
            refine ⟨hw, ?_, trivial, trivial, by simp [stackYield]⟩
            intro S1 hS1
            rw [startSym_eq (hsp ▸ hp) hr] at hS1; cases hS1
            rw [hroot, ← hX]
            simp [symAt, hp, hr]
    · have hb : ¬ (p == G.startProd) = true := by simpa using hsp
      rw [if_neg hb]
      obtain ⟨below, more, hd, hpath'⟩ := hpath.reduce_goto S hp hit hsp
      have hB' := S.prodLhs_eq p pr hp hsp
      rw [hB] at hB'; cases hB'
      have hlen : ¬ (top :: rest).length < pr.rhs.length := by
        intro hl
        have := List.drop_eq_nil_of_le (Nat.le_of_lt hl)
        rw [hd] at this; cases this
      simp only [hlen, if_false, hd]
      refine ⟨⟨_, hpath', ?_⟩, trivial, ?_⟩
      · refine TreesOK.cons ?_ ?_ (TreesOK.drop _ htrees)
        · exact Tree.WF.node p _ _ pr _ hp hforest
        · simp [Tree.root, hp]
      · simp only [stackYield, Tree.yield]
        rw [yield_ofList_reverse]
        exact (stackYield_take_drop _ _).symm
end LalrpopModel.LR
