import LalrpopModel.Model.Prec
/-!
Declarative description of `replace_symbols`: the recursive occurrences of the target are
numbered `0, 1, …` in left-to-right pre-order through groups, repeats, bindings and macro
arguments; `substAt f` puts `f k` at occurrence number `k` and changes nothing else.
The lemmas say that the forward fold uses the substitution plan in that order and the
backward fold in the reverse order.
-/
namespace LalrpopModel.Prec
open LalrpopModel.PT

mutual
/-- number of occurrences of `Nonterminal(target)` (pre-order; a macro's own name does not count) -/
def occ (t : Str) : Sym → Nat
  | .nonterminal n => if n = t then 1 else 0
  | .macro _ args => occL t args
  | .expr syms => occL t syms
  | .repeat _ s => occ t s
  | .choose s => occ t s
  | .name _ s => occ t s
  | .tuple _ s => occ t s
  | .ambiguous _ => 0
  | .terminal _ => 0
  | .error => 0
  | .lookahead => 0
  | .lookbehind => 0
def occL (t : Str) : List Sym → Nat
  | [] => 0
  | x :: xs => occ t x + occL t xs
end

mutual
/-- replace occurrence number `k + i` (the `i`-th inside this symbol) by `f (k + i)` -/
def substAt (t : Str) (f : Nat → Sym) (k : Nat) : Sym → Sym
  | .nonterminal n => if n = t then f k else .nonterminal n
  | .macro name args => .macro name (substAtL t f k args)
  | .expr syms => .expr (substAtL t f k syms)
  | .repeat op s => .repeat op (substAt t f k s)
  | .choose s => .choose (substAt t f k s)
  | .name n s => .name n (substAt t f k s)
  | .tuple tp s => .tuple tp (substAt t f k s)
  | .ambiguous id => .ambiguous id
  | .terminal x => .terminal x
  | .error => .error
  | .lookahead => .lookahead
  | .lookbehind => .lookbehind
def substAtL (t : Str) (f : Nat → Sym) (k : Nat) : List Sym → List Sym
  | [] => []
  | x :: xs => substAt t f k x :: substAtL t f (k + occ t x) xs
end

mutual
/-- no `AmbiguousId` anywhere (what `resolve` establishes) -/
def noAmbig : Sym → Bool
  | .ambiguous _ => false
  | .macro _ args => noAmbigL args
  | .expr syms => noAmbigL syms
  | .repeat _ s => noAmbig s
  | .choose s => noAmbig s
  | .name _ s => noAmbig s
  | .tuple _ s => noAmbig s
  | .nonterminal _ => true
  | .terminal _ => true
  | .error => true
  | .lookahead => true
  | .lookbehind => true
def noAmbigL : List Sym → Bool
  | [] => true
  | x :: xs => noAmbig x && noAmbigL xs
end

/-- the symbol the plan assigns to the `j`-th occurrence it meets -/
def Subst.pick : Subst → Nat → Sym
  | .every a, _ => a
  | .oneThen a _, 0 => a
  | .oneThen _ b, _ + 1 => b

/-- the plan after `n` occurrences have been met -/
def Subst.advance : Subst → Nat → Subst
  | s, 0 => s
  | .every a, _ + 1 => .every a
  | .oneThen _ b, _ + 1 => .every b

theorem Subst.advance_zero (s : Subst) : s.advance 0 = s := by
  cases s <;> rfl

theorem Subst.advance_add (s : Subst) (m n : Nat) : (s.advance m).advance n = s.advance (m + n) := by
  cases m with
  | zero => simp [Subst.advance_zero]
  | succ m =>
    cases n with
    | zero => simp [Subst.advance_zero]
    | succ n =>
      have : m + 1 + (n + 1) = (m + n + 1) + 1 := by omega
      cases s <;> simp [Subst.advance, this]

theorem Subst.pick_advance (s : Subst) (m j : Nat) : (s.advance m).pick j = s.pick (m + j) := by
  cases m with
  | zero => simp [Subst.advance_zero]
  | succ m =>
    have : m + 1 + j = (m + j) + 1 := by omega
    cases s <;> simp [Subst.advance, Subst.pick, this]

/-! ### `substAt` only looks at `f` on the indices of the occurrences it contains -/
mutual
theorem substAt_congr (t : Str) (f g : Nat → Sym) (k : Nat) (s : Sym)
    (h : ∀ i, k ≤ i → i < k + occ t s → f i = g i) : substAt t f k s = substAt t g k s := by
  cases s with
  | nonterminal n =>
    simp only [substAt]
    split
    · rename_i hn; exact h k (Nat.le_refl _) (by simp [occ, hn])
    · rfl
  | «macro» name args => simp only [substAt]; rw [substAtL_congr t f g k args (by simpa [occ] using h)]
  | expr syms => simp only [substAt]; rw [substAtL_congr t f g k syms (by simpa [occ] using h)]
  | «repeat» op s => simp only [substAt]; rw [substAt_congr t f g k s (by simpa [occ] using h)]
  | choose s => simp only [substAt]; rw [substAt_congr t f g k s (by simpa [occ] using h)]
  | name n s => simp only [substAt]; rw [substAt_congr t f g k s (by simpa [occ] using h)]
  | tuple tp s => simp only [substAt]; rw [substAt_congr t f g k s (by simpa [occ] using h)]
  | ambiguous _ => rfl
  | terminal _ => rfl
  | error => rfl
  | lookahead => rfl
  | lookbehind => rfl
theorem substAtL_congr (t : Str) (f g : Nat → Sym) (k : Nat) (l : List Sym)
    (h : ∀ i, k ≤ i → i < k + occL t l → f i = g i) : substAtL t f k l = substAtL t g k l := by
  cases l with
  | nil => rfl
  | cons x xs =>
    simp only [substAtL]
    rw [substAt_congr t f g k x (fun i h1 h2 => h i h1 (by simp only [occL]; omega)),
        substAtL_congr t f g (k + occ t x) xs (fun i h1 h2 => h i (by omega) (by simp only [occL]; omega))]
end

/-! ### forward fold: occurrence `k + i` receives `pick subst i` -/
mutual
theorem replaceSym_fwd (t : Str) (subst : Subst) (k : Nat) (s : Sym) (h : noAmbig s = true) :
    replaceSym .forward t subst s =
      .ok (substAt t (fun i => subst.pick (i - k)) k s, subst.advance (occ t s)) := by
  cases s with
  | nonterminal n =>
    simp only [replaceSym, substAt, occ]
    split
    · cases subst <;> simp [Subst.pick, Subst.advance]
    · simp [Subst.advance_zero]
  | «macro» name args =>
    simp only [replaceSym, substAt, occ]
    rw [replaceFwd_fwd t subst k args (by simpa [noAmbig] using h)]
  | expr syms =>
    simp only [replaceSym, substAt, occ]
    rw [replaceFwd_fwd t subst k syms (by simpa [noAmbig] using h)]
  | «repeat» op s =>
    simp only [replaceSym, substAt, occ]
    rw [replaceSym_fwd t subst k s (by simpa [noAmbig] using h)]
  | choose s =>
    simp only [replaceSym, substAt, occ]
    rw [replaceSym_fwd t subst k s (by simpa [noAmbig] using h)]
  | name n s =>
    simp only [replaceSym, substAt, occ]
    rw [replaceSym_fwd t subst k s (by simpa [noAmbig] using h)]
  | tuple tp s =>
    simp only [replaceSym, substAt, occ]
    rw [replaceSym_fwd t subst k s (by simpa [noAmbig] using h)]
  | ambiguous _ => simp [noAmbig] at h
  | terminal _ => simp [replaceSym, substAt, occ, Subst.advance_zero]
  | error => simp [replaceSym, substAt, occ, Subst.advance_zero]
  | lookahead => simp [replaceSym, substAt, occ, Subst.advance_zero]
  | lookbehind => simp [replaceSym, substAt, occ, Subst.advance_zero]
theorem replaceFwd_fwd (t : Str) (subst : Subst) (k : Nat) (l : List Sym) (h : noAmbigL l = true) :
    replaceFwd .forward t subst l =
      .ok (substAtL t (fun i => subst.pick (i - k)) k l, subst.advance (occL t l)) := by
  cases l with
  | nil => simp [replaceFwd, substAtL, occL, Subst.advance_zero]
  | cons x xs =>
    simp only [noAmbigL, Bool.and_eq_true] at h
    simp only [replaceFwd, substAtL, occL]
    rw [replaceSym_fwd t subst k x h.1]
    simp only []
    rw [replaceFwd_fwd t (subst.advance (occ t x)) (k + occ t x) xs h.2]
    simp only [Subst.advance_add]
    have e : substAtL t (fun i => (subst.advance (occ t x)).pick (i - (k + occ t x))) (k + occ t x) xs
        = substAtL t (fun i => subst.pick (i - k)) (k + occ t x) xs := by
      apply substAtL_congr
      intro i h1 _
      simp only [Subst.pick_advance]
      congr 1
      omega
    rw [e]
end

/-! ### backward fold: occurrence `k + i` of the `n` occurrences receives `pick subst (n - 1 - i)` -/
mutual
theorem replaceSym_bwd (t : Str) (subst : Subst) (k : Nat) (s : Sym) (h : noAmbig s = true) :
    replaceSym .backward t subst s =
      .ok (substAt t (fun i => subst.pick (k + occ t s - 1 - i)) k s, subst.advance (occ t s)) := by
  cases s with
  | nonterminal n =>
    simp only [replaceSym, substAt, occ]
    split
    · have : k + 1 - 1 - k = 0 := by omega
      cases subst <;> simp [Subst.pick, Subst.advance, this]
    · simp [Subst.advance_zero]
  | «macro» name args =>
    simp only [replaceSym, substAt, occ]
    rw [replaceBwd_bwd t subst k args (by simpa [noAmbig] using h)]
  | expr syms =>
    simp only [replaceSym, substAt, occ]
    rw [replaceBwd_bwd t subst k syms (by simpa [noAmbig] using h)]
  | «repeat» op s =>
    simp only [replaceSym, substAt, occ]
    rw [replaceSym_bwd t subst k s (by simpa [noAmbig] using h)]
  | choose s =>
    simp only [replaceSym, substAt, occ]
    rw [replaceSym_bwd t subst k s (by simpa [noAmbig] using h)]
  | name n s =>
    simp only [replaceSym, substAt, occ]
    rw [replaceSym_bwd t subst k s (by simpa [noAmbig] using h)]
  | tuple tp s =>
    simp only [replaceSym, substAt, occ]
    rw [replaceSym_bwd t subst k s (by simpa [noAmbig] using h)]
  | ambiguous _ => simp [noAmbig] at h
  | terminal _ => simp [replaceSym, substAt, occ, Subst.advance_zero]
  | error => simp [replaceSym, substAt, occ, Subst.advance_zero]
  | lookahead => simp [replaceSym, substAt, occ, Subst.advance_zero]
  | lookbehind => simp [replaceSym, substAt, occ, Subst.advance_zero]
theorem replaceBwd_bwd (t : Str) (subst : Subst) (k : Nat) (l : List Sym) (h : noAmbigL l = true) :
    replaceBwd .backward t subst l =
      .ok (substAtL t (fun i => subst.pick (k + occL t l - 1 - i)) k l, subst.advance (occL t l)) := by
  cases l with
  | nil => simp [replaceBwd, substAtL, occL, Subst.advance_zero]
  | cons x xs =>
    simp only [noAmbigL, Bool.and_eq_true] at h
    simp only [replaceBwd, substAtL, occL]
    rw [replaceBwd_bwd t subst (k + occ t x) xs h.2]
    simp only []
    rw [replaceSym_bwd t (subst.advance (occL t xs)) k x h.1]
    simp only [Subst.advance_add]
    have e1 : occL t xs + occ t x = occ t x + occL t xs := by omega
    rw [e1]
    have e2 : substAt t (fun i => (subst.advance (occL t xs)).pick (k + occ t x - 1 - i)) k x
        = substAt t (fun i => subst.pick (k + (occ t x + occL t xs) - 1 - i)) k x := by
      apply substAt_congr
      intro i h1 h2
      simp only [Subst.pick_advance]
      congr 1
      omega
    have e3 : substAtL t (fun i => subst.pick (k + occ t x + occL t xs - 1 - i)) (k + occ t x) xs
        = substAtL t (fun i => subst.pick (k + (occ t x + occL t xs) - 1 - i)) (k + occ t x) xs := by
      apply substAtL_congr
      intro i h1 h2
      congr 1
      omega
    rw [e2, e3]
end

end LalrpopModel.Prec
