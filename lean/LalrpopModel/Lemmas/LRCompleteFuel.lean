import LalrpopModel.Lemmas.LRCompleteRun
/-!
LR completeness, part 6: `Returns` is functional. The step fuel is handled by `run_unique`; the
fuel `af` of the pure `accepts` loop is monotone: a computation that did not end in the artificial
`panic .outOfFuel` is unchanged by more fuel (`accepts_mono` … `step_mono`, `run_mono`).
-/
namespace LalrpopModel.LR
section
variable (T : Tables)

/-- not the artificial out-of-fuel answer -/
def NoFuel {α : Type} (r : Except PanicTag α) : Prop := r ≠ .error .outOfFuel

theorem accepts_mono (af : Nat) (sts : List Nat) (o : Option Term) :
    ∀ af', af ≤ af' → NoFuel (accepts T af sts o) → accepts T af' sts o = accepts T af sts o := by
  fun_induction accepts T af sts o
  all_goals intro af' hle hn
  case case1 => simp [NoFuel] at hn
  all_goals (obtain ⟨k, rfl⟩ : ∃ k, af' = k + 1 := ⟨af' - 1, by omega⟩)
  all_goals (conv => lhs; unfold accepts)
  all_goals (simp +zetaDelta only [] at *)
  all_goals (try simp_all)
  case case7 =>
    rename_i hx
    have : ∀ x : Nat, List.drop _ (x :: _) = [] := fun x => List.drop_eq_nil_iff.mpr (by simpa using hx)
    simp [this]
  case case8 =>
    rename_i ih
    split
    · rfl
    · rename_i hlt
      rw [if_neg hlt] at hn
      exact ih k hle hn


theorem expectedLoop_mono (af af' : Nat) (h : af ≤ af') (sts : List Nat) :
    ∀ k i, NoFuel (expectedLoop T af sts k i) → expectedLoop T af' sts k i = expectedLoop T af sts k i := by
  intro k
  induction k with
  | zero => intro i _; rfl
  | succ k ih =>
    intro i hn
    unfold expectedLoop at hn ⊢
    cases hacc : accepts T af sts (some i) with
    | error e =>
      rw [hacc] at hn
      simp only at hn
      have hne : NoFuel (accepts T af sts (some i)) := by
        rw [hacc]
        intro hc
        cases hc
        exact hn rfl
      rw [accepts_mono T af sts (some i) af' h hne, hacc]
    | ok b =>
      have hne : NoFuel (accepts T af sts (some i)) := by rw [hacc]; simp [NoFuel]
      rw [accepts_mono T af sts (some i) af' h hne, hacc]
      rw [hacc] at hn
      simp only at hn ⊢
      have hne2 : NoFuel (expectedLoop T af sts k (i + 1)) := by
        intro hc
        rw [hc] at hn
        exact hn rfl
      rw [ih (i + 1) hne2]

theorem expected_mono (af af' : Nat) (h : af ≤ af') (sts : List Nat)
    (hn : NoFuel (expected T af sts)) : expected T af' sts = expected T af sts :=
  expectedLoop_mono T af af' h sts _ _ hn

theorem unrecognizedError_mono (af af' : Nat) (h : af ≤ af') (c : Cfg) (tok : Option Tok)
    (hn : NoFuel (unrecognizedError T af c tok)) :
    unrecognizedError T af' c tok = unrecognizedError T af c tok := by
  unfold unrecognizedError at hn ⊢
  have hne : NoFuel (expected T af c.states) := by
    intro hc
    rw [hc] at hn
    exact hn rfl
  rw [expected_mono T af af' h _ hne]

/-- the phase is not the artificial out-of-fuel stop -/
def Phase.NoFuel (ph : Phase) : Prop := ph ≠ .done (.panic .outOfFuel)

theorem nextToken_mono (af af' : Nat) (h : af ≤ af') (c : Cfg)
    (hn : (nextToken T af c).2 ≠ .done (.panic .outOfFuel)) :
    nextToken T af' c = nextToken T af c := by
  unfold nextToken at hn ⊢
  cases hin : c.input with
  | nil => rfl
  | cons it rest =>
    cases it with
    | err e => rfl
    | tok t =>
      simp only [hin] at hn ⊢
      cases hk : t.kind with
      | some i => rfl
      | none =>
        simp only [hk] at hn ⊢
        have hne : NoFuel (unrecognizedError T af
            { c with input := rest, pulled := c.pulled + 1, lastLoc := t.r } (some t)) := by
          intro hc
          rw [hc] at hn
          exact hn rfl
        rw [unrecognizedError_mono T af af' h _ _ hne]

theorem findState_mono (af af' : Nat) (h : af ≤ af') (o : Option Term) (sl : Nat) (sts : List Nat) :
    ∀ k, NoFuel (findState T af o sl sts k) → findState T af' o sl sts k = findState T af o sl sts k := by
  intro k
  induction k with
  | zero => intro _; rfl
  | succ k ih =>
    intro hn
    unfold findState at hn ⊢
    cases hc : truncBot sts (k + 1) with
    | nil => rfl
    | cons st more =>
      simp only [hc] at hn ⊢
      cases he : T.errorActionAt st with
      | none => rfl
      | some a =>
        simp only [he] at hn ⊢
        cases hs : asShift a with
        | none =>
          simp only [hs] at hn ⊢
          exact ih hn
        | some es =>
          simp only [hs] at hn ⊢
          have hne : NoFuel (accepts T af (es :: st :: more) o) := by
            intro hc'
            rw [hc'] at hn
            exact hn rfl
          rw [accepts_mono T af _ o af' h hne]
          cases hacc : accepts T af (es :: st :: more) o with
          | error e => rfl
          | ok b =>
            rw [hacc] at hn
            cases b with
            | true => rfl
            | false => exact ih hn

theorem enterRecovery_mono (af af' : Nat) (h : af ≤ af') (c : Cfg) (la : Option (Tok × Term)) (fe : Bool)
    (hn : (enterRecovery T af c la fe).2 ≠ .done (.panic .outOfFuel)) :
    enterRecovery T af' c la fe = enterRecovery T af c la fe := by
  unfold enterRecovery at hn ⊢
  have hne : NoFuel (unrecognizedError T af c (la.map (·.1))) := by
    intro hc
    rw [hc] at hn
    exact hn rfl
  rw [unrecognizedError_mono T af af' h _ _ hne]


theorem step_mono (af af' : Nat) (h : af ≤ af') (failAt : Option Nat) (startLoc : Int) (c : Cfg) (ph : Phase)
    (hn : (step T af failAt startLoc c ph).2 ≠ .done (.panic .outOfFuel)) :
    step T af' failAt startLoc c ph = step T af failAt startLoc c ph := by
  cases ph with
  | done r => rfl
  | pull =>
    simp only [step] at hn ⊢
    have hne : (nextToken T af c).2 ≠ .done (.panic .outOfFuel) := by
      intro hc
      apply hn
      revert hc
      generalize nextToken T af c = x
      obtain ⟨c', nt⟩ := x
      intro hc
      simp only at hc
      subst hc
      rfl
    rw [nextToken_mono T af af' h c hne]
  | act la idx =>
    simp only [step] at hn ⊢
    cases hst : c.states with
    | nil => rfl
    | cons top rest =>
      simp only [hst] at hn ⊢
      cases hact : T.actionAt top idx with
      | none => rfl
      | some a =>
        simp only [hact] at hn ⊢
        cases hs : asShift a with
        | some tgt => rfl
        | none =>
          simp only [hs] at hn ⊢
          cases hr : asReduce a with
          | some p => rfl
          | none =>
            simp only [hr] at hn ⊢
            exact enterRecovery_mono T af af' h _ _ _ hn
  | eof =>
    simp only [step] at hn ⊢
    cases hst : c.states with
    | nil => rfl
    | cons top rest =>
      simp only [hst] at hn ⊢
      cases hact : T.eofActionAt top with
      | none => rfl
      | some a =>
        simp only [hact] at hn ⊢
        cases hr : asReduce a with
        | some p => rfl
        | none =>
          simp only [hr] at hn ⊢
          exact enterRecovery_mono T af af' h _ _ _ hn
  | recReduce la error fe => rfl
  | recFind la error dropped sl fe =>
    simp only [step] at hn ⊢
    have hne : NoFuel (findState T af (la.map (·.2)) sl c.states sl) := by
      intro hc
      rw [hc] at hn
      exact hn rfl
    rw [findState_mono T af af' h _ _ _ _ hne]
    cases hf : findState T af (la.map (·.2)) sl c.states sl with
    | error e => rfl
    | ok o =>
      cases o with
      | some top => rfl
      | none =>
        rw [hf] at hn
        simp only at hn ⊢
        cases la with
        | none => rfl
        | some x =>
          obtain ⟨t, i⟩ := x
          simp only at hn ⊢
          have hne2 : (nextToken T af c).2 ≠ .done (.panic .outOfFuel) := by
            intro hc
            apply hn
            revert hc
            generalize nextToken T af c = x
            obtain ⟨c', nt⟩ := x
            intro hc
            simp only at hc
            subst hc
            rfl
          rw [nextToken_mono T af af' h c hne2]

/-- more `accepts` fuel does not change a run that ended without running out of it -/
theorem run_mono (af af' : Nat) (h : af ≤ af') (failAt : Option Nat) (startLoc : Int) :
    ∀ (n : Nat) (c : Cfg) (ph : Phase) (c' : Cfg) (r : Outcome),
      run T af failAt startLoc n c ph = (c', .done r) → r ≠ .panic .outOfFuel →
      run T af' failAt startLoc n c ph = (c', .done r) := by
  intro n
  induction n with
  | zero =>
    intro c ph c' r hrun _
    simpa [run] using hrun
  | succ n ih =>
    intro c ph c' r hrun hr
    rw [run_succ] at hrun ⊢
    have hne : (step T af failAt startLoc c ph).2 ≠ .done (.panic .outOfFuel) := by
      intro hc
      rw [hc, run_done] at hrun
      simp only [Prod.mk.injEq, Phase.done.injEq] at hrun
      exact hr hrun.2.symm
    rw [step_mono T af af' h failAt startLoc c ph hne]
    exact ih _ _ _ _ hrun hr

/-- `Returns` is functional: the result does not depend on the fuel values (the artificial
    out-of-fuel stop of the `accepts` loop, which is not a behaviour of the Rust code, aside) -/
theorem returns_unique_lemma (failAt : Option Nat) (startLoc : Int) (input : List Item)
    {c₁ c₂ : Cfg} {r₁ r₂ : Outcome}
    (h₁ : Returns T failAt startLoc input c₁ r₁) (h₂ : Returns T failAt startLoc input c₂ r₂)
    (n₁ : r₁ ≠ .panic .outOfFuel) (n₂ : r₂ ≠ .panic .outOfFuel) : c₁ = c₂ ∧ r₁ = r₂ := by
  obtain ⟨k1, af1, e1⟩ := h₁
  obtain ⟨k2, af2, e2⟩ := h₂
  have a := run_mono T af1 (max af1 af2) (Nat.le_max_left _ _) failAt startLoc _ _ _ _ _ e1 n₁
  have b := run_mono T af2 (max af1 af2) (Nat.le_max_right _ _) failAt startLoc _ _ _ _ _ e2 n₂
  exact run_unique T _ failAt startLoc a b

end
end LalrpopModel.LR
