import LalrpopModel.Lemmas.TyInfer
/-! Invariants of `altsLoop`, `ntBody`, `validateTuples`, `ntType`, `inferLoop` (C19). -/
namespace LalrpopModel.TyInfer

variable {Ty Tpl : Type} [DecidableEq Ty] (env : Env Ty Tpl) (G : Grammar Tpl)

omit [DecidableEq Ty] in
theorem Inv_of_eq {s s' : St Ty} (hm : s'.memo = s.memo) (hs : s'.suppressed = s.suppressed)
    (hi : Inv env G s) : Inv env G s' := by
  intro h0; rw [hm]; exact hi (by rw [← hs]; exact h0)

omit [DecidableEq Ty] in
theorem KeysOK_of_eq {s s' : St Ty} (hm : s'.memo = s.memo) (hi : KeysOK G s) : KeysOK G s' := by
  intro k v h; rw [hm] at h; exact hi k v h

section Rec
variable {rec : String → St Ty → Res Ty Ty} (h : RecOK env G rec)
include h

/-- the state after an alternative failed: its error is logged unless it has user action code -/
theorem altsLoop_grows (name : String) (alts : List Alt) (i : Nat) (s : St Ty) :
    Grows s (altsLoop env rec name i alts s).2 := by
  induction alts generalizing i s with
  | nil => exact Grows.refl s
  | cons a as ih =>
    have g1 := altType_grows env G h a s
    simp only [altsLoop]
    cases h1 : altType env rec a s with
    | mk r1 s1 =>
      rw [h1] at g1
      cases r1 with
      | ok t => exact g1.trans (ih (i + 1) s1)
      | error e =>
        simp only
        refine g1.trans (Grows.trans ?_ (ih (i + 1) _))
        by_cases hu : a.act = .user
        · rw [if_pos hu]; exact Grows.refl s1
        · rw [if_neg hu]; exact ⟨Ext.refl _, rfl, [(name, i)], rfl⟩

theorem altsLoop_inv (name : String) (alts : List Alt) (i : Nat) (s : St Ty) (hi : Inv env G s) :
    Inv env G (altsLoop env rec name i alts s).2 := by
  induction alts generalizing i s with
  | nil => exact hi
  | cons a as ih =>
    have g1 := altType_inv env G h a s hi
    simp only [altsLoop]
    cases h1 : altType env rec a s with
    | mk r1 s1 =>
      rw [h1] at g1
      cases r1 with
      | ok t => exact ih (i + 1) s1 g1
      | error e =>
        simp only
        apply ih (i + 1)
        by_cases hu : a.act = .user
        · rw [if_pos hu]; exact g1
        · rw [if_neg hu]; intro h0; simp at h0

theorem altsLoop_keys (name : String) (alts : List Alt) (i : Nat) (s : St Ty) (hi : KeysOK G s) :
    KeysOK G (altsLoop env rec name i alts s).2 := by
  induction alts generalizing i s with
  | nil => exact hi
  | cons a as ih =>
    have g1 := altType_keys env G h a s hi
    simp only [altsLoop]
    cases h1 : altType env rec a s with
    | mk r1 s1 =>
      rw [h1] at g1
      cases r1 with
      | ok t => exact ih (i + 1) s1 g1
      | error e =>
        simp only
        apply ih (i + 1)
        by_cases hu : a.act = .user
        · rw [if_pos hu]; exact g1
        · rw [if_neg hu]; exact KeysOK_of_eq G rfl g1

/-- if nothing was suppressed, every alternative without user action was typed, its type is in the
    list of successes, and that type is what the specification computes from any later table -/
theorem altsLoop_ok (name : String) (alts : List Alt) (i : Nat) (s : St Ty)
    (h0 : (altsLoop env rec name i alts s).2.suppressed = []) :
    ∀ alt ∈ alts, alt.act ≠ .user → ∃ t ∈ (altsLoop env rec name i alts s).1.1,
      ∀ memo', Ext (altsLoop env rec name i alts s).2.memo memo' → altTyP env memo' alt = .ok t := by
  induction alts generalizing i s with
  | nil => intro alt hm; cases hm
  | cons a as ih =>
    intro alt hm hnu
    simp only [altsLoop] at h0 ⊢
    cases h1 : altType env rec a s with
    | mk r1 s1 =>
      rw [h1] at h0
      cases r1 with
      | ok t =>
        simp only at h0 ⊢
        rcases List.mem_cons.mp hm with rfl | hm'
        · refine ⟨t, List.mem_cons_self, ?_⟩
          intro memo' he
          apply altType_ok env G h alt s t (by rw [h1]) memo'
          rw [h1]
          exact (altsLoop_grows env G h name as (i + 1) s1).ext.trans he
        · obtain ⟨t', ht', hp⟩ := ih (i + 1) s1 h0 alt hm' hnu
          exact ⟨t', List.mem_cons_of_mem _ ht', hp⟩
      | error e =>
        simp only at h0 ⊢
        by_cases hu : a.act = .user
        · rw [if_pos hu] at h0 ⊢
          rcases List.mem_cons.mp hm with rfl | hm'
          · exact absurd hu hnu
          · exact ih (i + 1) s1 h0 alt hm' hnu
        · rw [if_neg hu] at h0
          have g := altsLoop_grows env G h name as (i + 1) { s1 with suppressed := (name, i) :: s1.suppressed }
          have := g.supp_nil h0
          simp at this

theorem typeRef_grows (r : TyRef Tpl) (s : St Ty) : Grows s (typeRef env rec r s).2 := by
  unfold typeRef
  have g := symTypes_grows env G h r.holes s
  cases h1 : symTypes env rec r.holes s with
  | mk r1 s1 => rw [h1] at g; cases r1 <;> exact g

theorem typeRef_inv (r : TyRef Tpl) (s : St Ty) (hi : Inv env G s) : Inv env G (typeRef env rec r s).2 := by
  unfold typeRef
  have g := symTypes_inv env G h r.holes s hi
  cases h1 : symTypes env rec r.holes s with
  | mk r1 s1 => rw [h1] at g; cases r1 <;> exact g

theorem typeRef_keys (r : TyRef Tpl) (s : St Ty) (hi : KeysOK G s) : KeysOK G (typeRef env rec r s).2 := by
  unfold typeRef
  have g := symTypes_keys env G h r.holes s hi
  cases h1 : symTypes env rec r.holes s with
  | mk r1 s1 => rw [h1] at g; cases r1 <;> exact g

omit h in
/-- the state `ntBody` ends in is the state its loop / `type_ref` ends in -/
theorem ntBody_state (nt : Nt Tpl) (s : St Ty) :
    (ntBody env rec nt s).2 =
      match nt.decl with
      | some r => (typeRef env rec r s).2
      | none => (altsLoop env rec nt.name 0 nt.alts s).2 := by
  unfold ntBody
  cases nt.decl with
  | some r => rfl
  | none =>
    simp only
    cases h1 : altsLoop env rec nt.name 0 nt.alts s with
    | mk r1 s1 =>
      obtain ⟨ts, es⟩ := r1
      cases ts with
      | nil => cases es <;> rfl
      | cons t0 rest =>
        simp only
        split <;> rfl

theorem ntBody_grows (nt : Nt Tpl) (s : St Ty) : Grows s (ntBody env rec nt s).2 := by
  rw [ntBody_state]
  cases nt.decl with
  | some r => exact typeRef_grows env G h r s
  | none => exact altsLoop_grows env G h nt.name nt.alts 0 s

theorem ntBody_inv (nt : Nt Tpl) (s : St Ty) (hi : Inv env G s) : Inv env G (ntBody env rec nt s).2 := by
  rw [ntBody_state]
  cases nt.decl with
  | some r => exact typeRef_inv env G h r s hi
  | none => exact altsLoop_inv env G h nt.name nt.alts 0 s hi

theorem ntBody_keys (nt : Nt Tpl) (s : St Ty) (hi : KeysOK G s) : KeysOK G (ntBody env rec nt s).2 := by
  rw [ntBody_state]
  cases nt.decl with
  | some r => exact typeRef_keys env G h r s hi
  | none => exact altsLoop_keys env G h nt.name nt.alts 0 s hi

omit h in
theorem getLast_of_all_eq (t0 : Ty) (rest : List Ty) (hall : rest.all (fun t => decide (t = t0)) = true) :
    (t0 :: rest).getLast (by simp) = t0 := by
  induction rest with
  | nil => rfl
  | cons a as ih =>
    simp only [List.all_cons, Bool.and_eq_true, decide_eq_true_eq] at hall
    rw [List.getLast_cons (by simp)]
    cases as with
    | nil => simp [hall.1]
    | cons b bs =>
      have := ih (by simpa using hall.2)
      rw [List.getLast_cons (by simp)] at this
      rw [List.getLast_cons (by simp)]
      exact this

/-- an un-annotated nonterminal typed without any suppression: every alternative without user
    action has, by the specification, the type that was chosen -/
theorem ntBody_ok (nt : Nt Tpl) (hd : nt.decl = none) (s : St Ty) (ty : Ty)
    (hr : (ntBody env rec nt s).1 = .ok ty) (h0 : (ntBody env rec nt s).2.suppressed = []) :
    ∀ alt ∈ nt.alts, alt.act ≠ .user →
      ∀ memo', Ext (ntBody env rec nt s).2.memo memo' → altTyP env memo' alt = .ok ty := by
  have hst := ntBody_state env (rec := rec) nt s
  rw [hd] at hst
  simp only at hst
  rw [hst] at h0
  intro alt hm hnu memo' he
  rw [hst] at he
  obtain ⟨t, ht, hp⟩ := altsLoop_ok env G h nt.name nt.alts 0 s h0 alt hm hnu
  have := hp memo' he
  rw [this]
  congr 1
  -- every success equals the chosen type
  unfold ntBody at hr
  rw [hd] at hr
  simp only at hr
  cases h1 : altsLoop env rec nt.name 0 nt.alts s with
  | mk r1 s1 =>
    rw [h1] at hr ht
    obtain ⟨ts, es⟩ := r1
    simp only at ht
    cases ts with
    | nil => cases ht
    | cons t0 rest =>
      simp only at hr
      by_cases hall : rest.all (fun t => decide (t = t0)) = true
      · rw [if_pos hall] at hr
        have hty : ty = t0 := by
          have : (t0 :: rest).getLast (by simp) = ty := by simpa using hr
          rw [← this]; exact getLast_of_all_eq t0 rest hall
        rw [hty]
        rcases List.mem_cons.mp ht with rfl | hmem
        · rfl
        · have := List.all_eq_true.mp hall t hmem
          simpa using this
      · rw [if_neg hall] at hr; simp at hr

theorem validateTuples_grows (l : List (Pat × Sym)) (s : St Ty) :
    Grows s (validateTuples env rec l s).2 := by
  induction l generalizing s with
  | nil => exact Grows.refl s
  | cons x rest ih =>
    obtain ⟨p, sym⟩ := x
    cases sym with
    | nt n =>
      simp only [validateTuples]
      have g1 := h.grows n s
      cases h1 : rec n s with
      | mk r1 s1 =>
        rw [h1] at g1
        cases r1 with
        | error e => exact g1
        | ok ty =>
          simp only
          cases validatePat env p ty with
          | error e => exact g1
          | ok u => exact g1.trans (ih s1)
    | term t => exact Grows.refl s
    | choose x => exact Grows.refl s
    | named x => exact Grows.refl s
    | tupled q x => exact Grows.refl s
    | error => exact Grows.refl s

theorem validateTuples_inv (l : List (Pat × Sym)) (s : St Ty) (hi : Inv env G s) :
    Inv env G (validateTuples env rec l s).2 := by
  induction l generalizing s with
  | nil => exact hi
  | cons x rest ih =>
    obtain ⟨p, sym⟩ := x
    cases sym with
    | nt n =>
      simp only [validateTuples]
      have g1 := h.inv n s hi
      cases h1 : rec n s with
      | mk r1 s1 =>
        rw [h1] at g1
        cases r1 with
        | error e => exact g1
        | ok ty =>
          simp only
          cases validatePat env p ty with
          | error e => exact g1
          | ok u => exact ih s1 g1
    | term t => exact hi
    | choose x => exact hi
    | named x => exact hi
    | tupled q x => exact hi
    | error => exact hi

theorem validateTuples_keys (l : List (Pat × Sym)) (s : St Ty) (hi : KeysOK G s) :
    KeysOK G (validateTuples env rec l s).2 := by
  induction l generalizing s with
  | nil => exact hi
  | cons x rest ih =>
    obtain ⟨p, sym⟩ := x
    cases sym with
    | nt n =>
      simp only [validateTuples]
      have g1 := h.keys n s hi
      cases h1 : rec n s with
      | mk r1 s1 =>
        rw [h1] at g1
        cases r1 with
        | error e => exact g1
        | ok ty =>
          simp only
          cases validatePat env p ty with
          | error e => exact g1
          | ok u => exact ih s1 g1
    | term t => exact hi
    | choose x => exact hi
    | named x => exact hi
    | tupled q x => exact hi
    | error => exact hi

end Rec

end LalrpopModel.TyInfer
