import LalrpopModel.Model.LR.Canon
/-!
M-CANON lemmas, part 1: token sets and the model of `TokenSet::conflicts`.

`conflicts_nil_iff`: the conflict list of a state is empty iff the state is `Deterministic`
(every token has at most one action among its shift and its reductions).
-/
namespace LalrpopModel.LR.Canon

open LalrpopModel.LR

/-! ### token sets -/

theorem tsContains_iff (s : TokenSet) (x : Nat) : tsContains s x = true ↔ x ∈ s := by
  simp [tsContains]

theorem tsContains_false_iff (s : TokenSet) (x : Nat) : tsContains s x = false ↔ x ∉ s := by
  simp [tsContains]

theorem tsDisjoint_iff (a b : TokenSet) : tsDisjoint a b = true ↔ ∀ x, x ∈ a → x ∉ b := by
  simp [tsDisjoint, tsContains, List.all_eq_true]

theorem mem_tsInsert {x z : Nat} {s : TokenSet} : z ∈ tsInsert x s ↔ z = x ∨ z ∈ s := by
  induction s with
  | nil => simp [tsInsert]
  | cons y ys ih =>
    simp only [tsInsert]
    split
    · simp
    · split
      · rename_i h; subst h; simp
      · simp only [List.mem_cons, ih]
        constructor
        · rintro (h | h | h)
          · exact Or.inr (Or.inl h)
          · exact Or.inl h
          · exact Or.inr (Or.inr h)
        · rintro (h | h | h)
          · exact Or.inr (Or.inl h)
          · exact Or.inl h
          · exact Or.inr (Or.inr h)

theorem mem_foldl_tsInsert {z : Nat} (b a : TokenSet) :
    z ∈ b.foldl (fun acc x => tsInsert x acc) a ↔ z ∈ a ∨ z ∈ b := by
  induction b generalizing a with
  | nil => simp
  | cons y ys ih =>
    simp only [List.foldl_cons, ih, mem_tsInsert, List.mem_cons]
    constructor
    · rintro ((h | h) | h)
      · exact Or.inr (Or.inl h)
      · exact Or.inl h
      · exact Or.inr (Or.inr h)
    · rintro (h | h | h)
      · exact Or.inl (Or.inr h)
      · exact Or.inl (Or.inl h)
      · exact Or.inr h

/-- `union_with` is set union -/
theorem mem_tsUnion {z : Nat} {a b : TokenSet} : z ∈ tsUnion a b ↔ z ∈ a ∨ z ∈ b :=
  mem_foldl_tsInsert b a

theorem mem_tsInter {z : Nat} {a b : TokenSet} : z ∈ tsInter a b ↔ z ∈ a ∧ z ∈ b := by
  simp [tsInter, tsContains]

/-! ### the two loops of `TokenSet::conflicts` -/

/-- no shift/reduce conflict is reported iff no shifted terminal lies in a reduction's lookahead -/
theorem srConflicts_nil_iff (st : State) :
    srConflicts st = [] ↔ ∀ sh ∈ st.shifts, ∀ r ∈ st.reductions, sh.1 ∉ r.1 := by
  simp only [srConflicts, List.flatMap_eq_nil_iff, List.map_eq_nil_iff, List.filter_eq_nil_iff,
    tsContains_iff]

/-- no reduce/reduce conflict is reported iff the lookahead sets are pairwise disjoint -/
theorem rrConflicts_nil_iff (index : Nat) (rs : List (TokenSet × Nat)) :
    rrConflicts index rs = [] ↔ rs.Pairwise (fun a b => ∀ x, x ∈ a.1 → x ∉ b.1) := by
  induction rs with
  | nil => simp [rrConflicts]
  | cons r rest ih =>
    simp only [rrConflicts, List.append_eq_nil_iff, List.filterMap_eq_nil_iff, List.pairwise_cons, ih]
    constructor
    · rintro ⟨h1, h2⟩
      refine ⟨fun r' hr' => ?_, h2⟩
      have := h1 r' hr'
      by_cases hd : tsDisjoint r.1 r'.1 = true
      · exact (tsDisjoint_iff _ _).1 hd
      · simp [hd] at this
    · rintro ⟨h1, h2⟩
      refine ⟨fun r' hr' => ?_, h2⟩
      have hd : tsDisjoint r.1 r'.1 = true := (tsDisjoint_iff _ _).2 (h1 r' hr')
      simp [hd]

/-! ### determinism -/

theorem lookupAssoc_isSome_iff {α : Type} (l : List (Nat × α)) (k : Nat) :
    (lookupAssoc l k).isSome = true ↔ ∃ e ∈ l, e.1 = k := by
  simp [lookupAssoc, List.find?_isSome]

theorem lookupAssoc_some_mem {α : Type} {l : List (Nat × α)} {k : Nat} {v : α}
    (h : lookupAssoc l k = some v) : (k, v) ∈ l := by
  unfold lookupAssoc at h
  cases hf : l.find? (·.1 == k) with
  | none => simp [hf] at h
  | some e =>
    simp [hf] at h
    have hm := List.mem_of_find?_eq_some hf
    have hp := List.find?_some hf
    simp at hp
    cases e with
    | mk a b =>
      simp at hp h
      subst hp; subst h
      exact hm

/-- pairwise disjoint lookaheads: at most one reduction applies to a token -/
theorem filter_le_one_of_pairwise (tok : Nat) (rs : List (TokenSet × Nat))
    (h : rs.Pairwise (fun a b => ∀ x, x ∈ a.1 → x ∉ b.1)) :
    (rs.filter fun r => tsContains r.1 tok).length ≤ 1 := by
  induction rs with
  | nil => simp
  | cons r rest ih =>
    rw [List.pairwise_cons] at h
    by_cases hc : tsContains r.1 tok = true
    · have hrest : (rest.filter fun r => tsContains r.1 tok) = [] := by
        rw [List.filter_eq_nil_iff]
        intro r' hr' hc'
        exact h.1 r' hr' tok ((tsContains_iff _ _).1 hc) ((tsContains_iff _ _).1 hc')
      simp [hc, hrest]
    · simp only [List.filter_cons, hc]
      exact ih h.2

theorem pairwise_of_filter_le_one (rs : List (TokenSet × Nat))
    (h : ∀ tok, (rs.filter fun r => tsContains r.1 tok).length ≤ 1) :
    rs.Pairwise (fun a b => ∀ x, x ∈ a.1 → x ∉ b.1) := by
  induction rs with
  | nil => exact List.Pairwise.nil
  | cons r rest ih =>
    rw [List.pairwise_cons]
    constructor
    · intro r' hr' x hx hx'
      have h1 := h x
      have hc : tsContains r.1 x = true := (tsContains_iff _ _).2 hx
      have hmem : r' ∈ rest.filter fun r => tsContains r.1 x :=
        List.mem_filter.2 ⟨hr', (tsContains_iff _ _).2 hx'⟩
      have hpos : 0 < (rest.filter fun r => tsContains r.1 x).length := List.length_pos_of_mem hmem
      simp only [List.filter_cons, hc, if_true, List.length_cons] at h1
      omega
    · apply ih
      intro tok
      have h1 := h tok
      by_cases hc : tsContains r.1 tok = true
      · simp only [List.filter_cons, hc, if_true, List.length_cons] at h1
        omega
      · have hc' : tsContains r.1 tok = false := by simpa using hc
        simpa [List.filter_cons, hc'] using h1

theorem actionsOn_length (st : State) (tok : Nat) :
    (actionsOn st tok).length =
      (if (lookupAssoc st.shifts tok).isSome then 1 else 0) +
      (st.reductions.filter fun r => tsContains r.1 tok).length := by
  unfold actionsOn
  cases lookupAssoc st.shifts tok <;> simp <;> omega

/-- the state offers at most one action per token iff no shifted terminal is in a reduction's
    lookahead and the reductions' lookaheads are pairwise disjoint -/
theorem deterministic_iff (st : State) :
    Deterministic st ↔
      (∀ sh ∈ st.shifts, ∀ r ∈ st.reductions, sh.1 ∉ r.1) ∧
      st.reductions.Pairwise (fun a b => ∀ x, x ∈ a.1 → x ∉ b.1) := by
  constructor
  · intro hd
    constructor
    · intro sh hsh r hr hx
      have h1 := hd sh.1
      rw [actionsOn_length] at h1
      have hs : (lookupAssoc st.shifts sh.1).isSome = true :=
        (lookupAssoc_isSome_iff _ _).2 ⟨sh, hsh, rfl⟩
      have hmem : r ∈ st.reductions.filter fun r => tsContains r.1 sh.1 :=
        List.mem_filter.2 ⟨hr, (tsContains_iff _ _).2 hx⟩
      have hpos := List.length_pos_of_mem hmem
      simp only [hs, if_true] at h1
      omega
    · apply pairwise_of_filter_le_one
      intro tok
      have h1 := hd tok
      rw [actionsOn_length] at h1
      omega
  · rintro ⟨hsr, hrr⟩ tok
    rw [actionsOn_length]
    cases hl : lookupAssoc st.shifts tok with
    | none =>
      simpa using filter_le_one_of_pairwise tok st.reductions hrr
    | some next =>
      have hmem := lookupAssoc_some_mem hl
      have : (st.reductions.filter fun r => tsContains r.1 tok) = [] := by
        rw [List.filter_eq_nil_iff]
        intro r hr hc
        exact hsr (tok, next) hmem r hr ((tsContains_iff _ _).1 hc)
      simp [this]

/-- the model of `TokenSet::conflicts` answers `[]` exactly on deterministic states -/
theorem conflicts_nil_iff (st : State) : conflicts st = [] ↔ Deterministic st := by
  rw [deterministic_iff, conflicts, List.append_eq_nil_iff, srConflicts_nil_iff, rrConflicts_nil_iff]

/-- … and so for a whole automaton -/
theorem flatMap_conflicts_nil_iff (sts : List State) :
    sts.flatMap conflicts = [] ↔ ∀ st ∈ sts, Deterministic st := by
  simp only [List.flatMap_eq_nil_iff, conflicts_nil_iff]

end LalrpopModel.LR.Canon
