import LalrpopModel.Lemmas.LRGenericRecovery
/-!
C16, spans: with monotone token spans the spans on the symbol stack (error symbols included) are
ordered and disjoint, and the span `error_recovery` gives to an error symbol covers its dropped
tokens. Error nodes do not carry their span in the tree (`Tree.err error dropped`), so the
statements are about the `(l, value, r)` triples on the symbol stack.
-/
namespace LalrpopModel.LR.Generic
open LalrpopModel.LR
variable {T : Tables} {af : Nat} {failAt : Option Nat} {startLoc : Int}

/-! ### monotone token spans -/

/-- token spans are well-formed, ordered and disjoint, and start at or after `lo` -/
def MonoFrom (lo : Int) : List Tok → Prop
  | [] => True
  | t :: rest => lo ≤ t.l ∧ t.l ≤ t.r ∧ MonoFrom t.r rest

/-- end of the last token, `lo` if there is none -/
def lastOf (lo : Int) : List Tok → Int
  | [] => lo
  | t :: rest => lastOf t.r rest

theorem monoFrom_append {lo : Int} {a b : List Tok} :
    MonoFrom lo (a ++ b) ↔ MonoFrom lo a ∧ MonoFrom (lastOf lo a) b := by
  induction a generalizing lo with
  | nil => simp [MonoFrom, lastOf]
  | cons t a ih => simp [MonoFrom, lastOf, ih, and_assoc]

theorem lastOf_append {lo : Int} {a b : List Tok} : lastOf lo (a ++ b) = lastOf (lastOf lo a) b := by
  induction a generalizing lo with
  | nil => rfl
  | cons t a ih => simp [lastOf, ih]

theorem MonoFrom.le_lastOf {lo : Int} {a : List Tok} (h : MonoFrom lo a) : lo ≤ lastOf lo a := by
  induction a generalizing lo with
  | nil => exact Int.le_refl _
  | cons t a ih => have := ih h.2.2; simp only [lastOf]; have := h.1; have := h.2.1; omega

theorem MonoFrom.mem {lo : Int} {a : List Tok} (h : MonoFrom lo a) {d : Tok} (hd : d ∈ a) :
    lo ≤ d.l ∧ d.l ≤ d.r ∧ d.r ≤ lastOf lo a := by
  induction a generalizing lo with
  | nil => cases hd
  | cons t a ih =>
    rcases List.mem_cons.mp hd with rfl | hd
    · exact ⟨h.1, h.2.1, h.2.2.le_lastOf⟩
    · have ih' := ih h.2.2 hd
      have := h.1; have := h.2.1
      exact ⟨by omega, ih'.2.1, ih'.2.2⟩

theorem MonoFrom.weaken {lo lo' : Int} {a : List Tok} (h : MonoFrom lo a) (hle : lo' ≤ lo) (hne : a ≠ []) :
    MonoFrom lo' a ∧ lastOf lo' a = lastOf lo a := by
  cases a with
  | nil => exact (hne rfl).elim
  | cons t a => exact ⟨⟨by have := h.1; omega, h.2⟩, rfl⟩

theorem lastOf_eq_getLast {lo : Int} {a : List Tok} {d : Tok} (h : a.getLast? = some d) : lastOf lo a = d.r := by
  induction a generalizing lo with
  | nil => cases h
  | cons t a ih =>
    cases a with
    | nil => simp at h; subst h; rfl
    | cons t' a' => exact ih (lo := t.r) (by simpa using h)

theorem lastOf_toksOf (items : List Item) : lastOf startLoc (toksOf items) = lastR startLoc items := by
  unfold lastR
  cases h : (toksOf items).getLast? with
  | none => rw [List.getLast?_eq_none_iff.mp h]; rfl
  | some d => exact lastOf_eq_getLast h

/-! ### ordered symbol stacks -/

/-- right end of the top symbol, `lo` for the empty stack -/
def topEnd (lo : Int) : List SymTriple → Int
  | [] => lo
  | s :: _ => s.2.2

/-- spans of the stack (top first), read bottom to top, are well-formed, ordered and disjoint -/
def Ordered (lo : Int) : List SymTriple → Prop
  | [] => True
  | s :: rest => Ordered lo rest ∧ topEnd lo rest ≤ s.1 ∧ s.1 ≤ s.2.2

theorem Ordered.le_topEnd {lo : Int} {syms : List SymTriple} (h : Ordered lo syms) : lo ≤ topEnd lo syms := by
  induction syms with
  | nil => exact Int.le_refl _
  | cons s rest ih => have := ih h.1; have := h.2.1; have := h.2.2; simp only [topEnd]; omega

theorem Ordered.get {lo : Int} {syms : List SymTriple} (h : Ordered lo syms) {j : Nat} {s : SymTriple}
    (hs : syms[j]? = some s) :
    Ordered lo (syms.drop (j + 1)) ∧ topEnd lo (syms.drop (j + 1)) ≤ s.1 ∧ s.1 ≤ s.2.2 ∧
      s.2.2 ≤ topEnd lo syms := by
  induction syms generalizing j with
  | nil => simp at hs
  | cons s0 rest ih =>
    cases j with
    | zero => simp at hs; subst hs; exact ⟨h.1, h.2.1, h.2.2, Int.le_refl _⟩
    | succ j =>
      have := ih h.1 (by simpa using hs)
      have h1 := h.2.1; have h2 := h.2.2
      refine ⟨by simpa using this.1, by simpa using this.2.1, this.2.2.1, ?_⟩
      simp only [topEnd]; omega

theorem Ordered.drop {lo : Int} {syms : List SymTriple} (h : Ordered lo syms) (n : Nat) :
    Ordered lo (syms.drop n) := by
  induction n generalizing syms with
  | zero => simpa using h
  | succ n ih => cases syms with
    | nil => simpa using h
    | cons s rest => simpa using ih h.1

theorem topEnd_drop_le {lo : Int} {syms : List SymTriple} (h : Ordered lo syms) (n : Nat) :
    topEnd lo (syms.drop n) ≤ topEnd lo syms := by
  induction n generalizing syms with
  | zero => simp
  | succ n ih => cases syms with
    | nil => simp
    | cons s rest =>
      have := ih h.1; have := h.2.1; have := h.2.2
      simp only [List.drop_succ_cons]
      show topEnd lo (List.drop n rest) ≤ s.2.2
      omega


/-! ### the span `__reduce` assigns -/

theorem reduceSym_span_zero (c : Cfg) (p : Nat) (ls : Option Int) :
    (reduceSym startLoc c p 0 ls).1 = (match ls with | some x => x | none => topEnd startLoc c.symbols) ∧
    (reduceSym startLoc c p 0 ls).2.2 = (match ls with | some x => x | none => topEnd startLoc c.symbols) := by
  simp only [reduceSym, reduceSpan, List.take_zero, List.reverse_nil, List.head?_nil, List.drop_zero]
  cases ls with
  | some x => exact ⟨rfl, rfl⟩
  | none => cases c.symbols <;> exact ⟨rfl, rfl⟩

theorem reduceSym_span_pos (c : Cfg) (p : Nat) (ls : Option Int) {n : Nat} (hn : 0 < n)
    (hle : n ≤ c.symbols.length) :
    ∃ f h, c.symbols[n - 1]? = some f ∧ c.symbols[0]? = some h ∧
      (reduceSym startLoc c p n ls).1 = f.1 ∧ (reduceSym startLoc c p n ls).2.2 = h.2.2 := by
  have h1 : (c.symbols.take n).reverse.head? = c.symbols[n - 1]? := by
    rw [List.head?_reverse, List.getLast?_eq_getElem?, List.length_take, Nat.min_eq_left hle,
      List.getElem?_take_of_lt (by omega)]
  have h2 : (c.symbols.take n).reverse.getLast? = c.symbols[0]? := by
    rw [List.getLast?_reverse, List.head?_eq_getElem?, List.getElem?_take_of_lt hn]
  have hf : ∃ f, c.symbols[n - 1]? = some f := ⟨c.symbols[n - 1]'(by omega), List.getElem?_eq_getElem _⟩
  have hh : ∃ h, c.symbols[0]? = some h := ⟨c.symbols[0]'(by omega), List.getElem?_eq_getElem _⟩
  obtain ⟨f, hf⟩ := hf
  obtain ⟨h, hh⟩ := hh
  refine ⟨f, h, hf, hh, ?_, ?_⟩ <;> simp only [reduceSym, reduceSpan, h1, h2, hf, hh]


/-! ### the span `error_recovery` assigns -/

theorem topEnd_of_head {lo : Int} {syms : List SymTriple} {h : SymTriple} (hh : syms[0]? = some h) :
    topEnd lo syms = h.2.2 := by
  cases syms with
  | nil => simp at hh
  | cons s rest => simp at hh; subst hh; rfl

theorem recStart_facts {c : Cfg} {dropped rest : List Tok} {top : Nat} {l : Int}
    (hord : Ordered startLoc c.symbols)
    (hch : MonoFrom (topEnd startLoc c.symbols) (dropped ++ rest))
    (hl : recStart startLoc c dropped top = .ok l) :
    topEnd startLoc (truncBot c.symbols top) ≤ l ∧
    (dropped = [] → l ≤ topEnd startLoc c.symbols) ∧
    (dropped ≠ [] → MonoFrom l dropped ∧
      lastOf l dropped = lastOf (topEnd startLoc c.symbols) dropped) := by
  unfold recStart at hl
  cases hg : getBot c.symbols top with
  | some s =>
    rw [hg] at hl
    simp only at hl
    injection hl with hl
    subst hl
    unfold getBot at hg
    split at hg
    · rename_i hlt
      obtain ⟨h1, h2, h3, h4⟩ := hord.get hg
      have hidx : c.symbols.length - 1 - top + 1 = c.symbols.length - top := by omega
      rw [hidx] at h1 h2
      refine ⟨h2, fun _ => by omega, fun hne => ?_⟩
      exact (monoFrom_append.mp hch).1.weaken (by omega) hne
    · cases hg
  | none =>
    rw [hg] at hl
    simp only at hl
    have hge : c.symbols.length ≤ top := by
      unfold getBot at hg
      split at hg
      · rename_i hlt
        have : c.symbols.length - 1 - top < c.symbols.length := by omega
        rw [List.getElem?_eq_getElem this] at hg
        cases hg
      · omega
    have htr : truncBot c.symbols top = c.symbols := by
      unfold truncBot
      rw [Nat.sub_eq_zero_of_le hge]; rfl
    rw [htr]
    cases dropped with
    | cons d ds =>
      simp only [List.head?_cons] at hl
      injection hl with hl
      subst hl
      have hm := (monoFrom_append.mp hch).1
      exact ⟨hm.1, fun h => (by cases h), fun _ => ⟨⟨Int.le_refl _, hm.2⟩, rfl⟩⟩
    | nil =>
      simp only [List.head?_nil] at hl
      refine ⟨?_, fun _ => ?_, fun h => (h rfl).elim⟩ <;>
      · split at hl
        · rename_i hpos
          cases hg' : getBot c.symbols (top - 1) with
          | none => rw [hg'] at hl; cases hl
          | some s' =>
            rw [hg'] at hl
            simp only at hl
            injection hl with hl
            subst hl
            unfold getBot at hg'
            split at hg'
            · rename_i hlt
              have hidx : c.symbols.length - 1 - (top - 1) = 0 := by omega
              rw [hidx] at hg'
              rw [topEnd_of_head hg']
              exact Int.le_refl _
            · cases hg'
        · rename_i hpos
          injection hl with hl
          subst hl
          have : c.symbols = [] := List.eq_nil_of_length_eq_zero (by omega)
          rw [this]
          exact Int.le_refl _


/-! ### the span invariant -/

/-- error symbols on the stack have a well-formed span that covers their dropped tokens -/
def ErrCover (syms : List SymTriple) : Prop :=
  ∀ s ∈ syms, ∀ e d, s.2.1 = Tree.err e d → s.1 ≤ s.2.2 ∧ ∀ t ∈ d, s.1 ≤ t.l ∧ t.r ≤ s.2.2

structure SpanInv (startLoc : Int) (c : Cfg) (ph : Phase) : Prop where
  ord : phDone ph = false → Ordered startLoc c.symbols
  chain : phDone ph = false → MonoFrom (topEnd startLoc c.symbols) (held ph)
  last : phDone ph = false → lastOf (topEnd startLoc c.symbols) (held ph) ≤ c.lastLoc
  cover : phDone ph = false → ErrCover c.symbols

theorem SpanInv.of_done (c : Cfg) (r : Outcome) : SpanInv startLoc c (.done r) :=
  ⟨by simp [phDone], by simp [phDone], by simp [phDone], by simp [phDone]⟩

theorem SpanInv.init (input : List Item) : SpanInv startLoc (init startLoc input) .pull where
  ord := by simp [LR.init, Ordered]
  chain := by simp [held, MonoFrom]
  last := by simp [LR.init, held, lastOf, topEnd]
  cover := by intro _ s hs; simp [LR.init] at hs

theorem RedCtx.held_eq {c : Cfg} {ph : Phase} {p : Nat} {ls : Option Int} (h : RedCtx T c ph p ls) :
    phDone ph = false ∧
    ((∃ la, ls = some la.l ∧ held ph = [la]) ∨ (ls = none ∧ held ph = [])) := by
  cases ph with
  | act la idx => exact ⟨rfl, .inl ⟨la, h.1, rfl⟩⟩
  | eof => exact ⟨rfl, .inr ⟨h.1, rfl⟩⟩
  | recReduce la e fe =>
    rcases la with _ | ⟨t, i⟩
    · exact ⟨rfl, .inr ⟨h.1, rfl⟩⟩
    · exact ⟨rfl, .inl ⟨t, h.1, rfl⟩⟩
  | _ => exact h.elim

/-- the next token starts at or after `last_location` -/
theorem next_tok_mono {input : List Item} {c : Cfg} {ph : Phase} {t : Tok} {rest : List Item}
    (hmono : MonoFrom startLoc (toksOf input)) (hio : IOInv T startLoc input c ph)
    (h : c.input = .tok t :: rest) : c.lastLoc ≤ t.l ∧ t.l ≤ t.r := by
  have hsplit : toksOf input = toksOf (input.take c.pulled) ++ t :: toksOf rest := by
    conv => lhs; rw [← List.take_append_drop c.pulled input, ← hio.inp, h]
    simp
  rw [hsplit] at hmono
  have := (monoFrom_append.mp hmono).2
  rw [lastOf_toksOf, ← hio.loc] at this
  exact ⟨this.1, this.2.1⟩

theorem monoFrom_snoc {lo : Int} {a : List Tok} {t : Tok} (h : MonoFrom lo a)
    (h1 : lastOf lo a ≤ t.l) (h2 : t.l ≤ t.r) : MonoFrom lo (a ++ [t]) ∧ lastOf lo (a ++ [t]) = t.r := by
  rw [monoFrom_append, lastOf_append]
  exact ⟨⟨h, h1, h2, trivial⟩, rfl⟩

theorem topEnd_cons (lo : Int) (s : SymTriple) (l : List SymTriple) : topEnd lo (s :: l) = s.2.2 := rfl

theorem SpanInv.reduce {c c' : Cfg} {ph : Phase} {p n : Nat} {ls : Option Int}
    (h : SpanInv startLoc c ph) (hnd : phDone ph = false)
    (hheld : (∃ la : Tok, ls = some la.l ∧ held ph = [la]) ∨ (ls = none ∧ held ph = []))
    (hn : n ≤ c.symbols.length)
    (hsym : c'.symbols = reduceSym startLoc c p n ls :: c.symbols.drop n)
    (hloc : c'.lastLoc = c.lastLoc) : SpanInv startLoc c' ph := by
  have hord := h.ord hnd
  have hch := h.chain hnd
  have hla := h.last hnd
  have hcov : ErrCover (reduceSym startLoc c p n ls :: c.symbols.drop n) := by
    intro s hs e d hsd
    rcases List.mem_cons.mp hs with rfl | hs
    · simp [reduceSym] at hsd
    · exact h.cover hnd s (List.mem_of_mem_drop hs) e d hsd
  by_cases hn0 : n = 0
  · subst hn0
    obtain ⟨e1, e2⟩ := reduceSym_span_zero (startLoc := startLoc) c p ls
    have hd0 : c.symbols.drop 0 = c.symbols := rfl
    rcases hheld with ⟨la, rfl, hh⟩ | ⟨rfl, hh⟩
    · rw [hh] at hch hla
      simp only at e1 e2
      refine ⟨fun _ => ?_, fun _ => ?_, fun _ => ?_, fun _ => by rw [hsym]; exact hcov⟩
      · rw [hsym, hd0]
        exact ⟨hord, by rw [e1]; exact hch.1, by rw [e1, e2]; exact Int.le_refl _⟩
      · rw [hsym, hh, topEnd_cons, e2]; exact ⟨Int.le_refl _, hch.2.1, trivial⟩
      · rw [hsym, hh, hloc]; exact hla
    · rw [hh] at hch hla
      simp only at e1 e2
      refine ⟨fun _ => ?_, fun _ => ?_, fun _ => ?_, fun _ => by rw [hsym]; exact hcov⟩
      · rw [hsym, hd0]
        exact ⟨hord, by rw [e1]; exact Int.le_refl _, by rw [e1, e2]; exact Int.le_refl _⟩
      · rw [hh]; trivial
      · rw [hsym, hh, hloc, topEnd_cons, e2]; exact hla
  · obtain ⟨f, hd, hf, hhd, e1, e2⟩ :=
      reduceSym_span_pos (startLoc := startLoc) c p ls (Nat.pos_of_ne_zero hn0) hn
    obtain ⟨g1, g2, g3, g4⟩ := hord.get hf
    rw [Nat.sub_add_cancel (Nat.pos_of_ne_zero hn0)] at g1 g2
    have hte : topEnd startLoc c.symbols = hd.2.2 := topEnd_of_head hhd
    have hte' : topEnd startLoc (reduceSym startLoc c p n ls :: c.symbols.drop n) =
        topEnd startLoc c.symbols := by rw [topEnd_cons, e2, hte]
    refine ⟨fun _ => ?_, fun _ => ?_, fun _ => ?_, fun _ => by rw [hsym]; exact hcov⟩
    · rw [hsym]; exact ⟨g1, by rw [e1]; exact g2, by rw [e1, e2, ← hte]; omega⟩
    · rw [hsym, hte']; exact hch
    · rw [hsym, hte', hloc]; exact hla

theorem recEnd_facts {c : Cfg} {la : Option (Tok × Term)} {dropped : List Tok} {sl top : Nat} {l r : Int}
    (hch : MonoFrom (topEnd startLoc c.symbols) (dropped ++ laToks la))
    (hlast : lastOf (topEnd startLoc c.symbols) (dropped ++ laToks la) ≤ c.lastLoc)
    (hl1 : dropped = [] → l ≤ topEnd startLoc c.symbols)
    (hl2 : dropped ≠ [] → MonoFrom l dropped ∧ lastOf l dropped = lastOf (topEnd startLoc c.symbols) dropped)
    (hr : recEnd c la dropped sl top l = .ok r) :
    l ≤ r ∧ (∀ t ∈ dropped, l ≤ t.l ∧ t.r ≤ r) ∧ MonoFrom r (laToks la) ∧
      lastOf r (laToks la) ≤ c.lastLoc := by
  unfold recEnd at hr
  cases hg : dropped.getLast? with
  | some d =>
    rw [hg] at hr
    simp only at hr
    injection hr with hr
    have hne : dropped ≠ [] := by intro hc; rw [hc] at hg; cases hg
    obtain ⟨m1, m2⟩ := hl2 hne
    have hlast' : lastOf l dropped = r := by rw [lastOf_eq_getLast hg, hr]
    rw [lastOf_append, ← m2, hlast'] at hlast
    have hch' := (monoFrom_append.mp hch).2
    rw [← m2, hlast'] at hch'
    refine ⟨by rw [← hlast']; exact m1.le_lastOf, fun t ht => ?_, hch', hlast⟩
    have := m1.mem ht
    rw [hlast'] at this
    exact ⟨this.1, this.2.2⟩
  | none =>
    rw [hg] at hr
    simp only at hr
    have hnil : dropped = [] := List.getLast?_eq_none_iff.mp hg
    subst hnil
    have hl := hl1 rfl
    simp only [List.nil_append] at hch hlast
    split at hr
    · cases hh : c.symbols.head? with
      | none => rw [hh] at hr; cases hr
      | some s =>
        rw [hh] at hr
        simp only at hr
        injection hr with hr
        have hte : topEnd startLoc c.symbols = r := by
          cases hsy : c.symbols with
          | nil => rw [hsy] at hh; cases hh
          | cons s' rest => rw [hsy] at hh; simp at hh; subst hh; rw [topEnd_cons]; exact hr
        rw [hte] at hch hlast hl
        exact ⟨hl, by simp, hch, hlast⟩
    · rcases la with _ | ⟨t, i⟩
      · simp only at hr
        injection hr with hr
        subst hr
        simp only [laToks, lastOf] at hlast ⊢
        exact ⟨Int.le_refl _, by simp, trivial, by omega⟩
      · simp only at hr
        injection hr with hr
        subst hr
        simp only [laToks, MonoFrom, lastOf] at hch hlast ⊢
        exact ⟨by omega, by simp, ⟨Int.le_refl _, hch.2.1, trivial⟩, hlast⟩

theorem SpanInv.push {c : Cfg} {la : Option (Tok × Term)} {e : PErr} {dropped : List Tok} {sl top : Nat}
    {fe : Bool} {c' : Cfg} {ph' : Phase} (h : SpanInv startLoc c (.recFind la e dropped sl fe))
    (hp : PushSpec T startLoc c la e dropped sl top fe c' ph') : SpanInv startLoc c' ph' := by
  cases hp with
  | panic tag => exact .of_done _ _
  | ok l r hl hr rs rest hrs a ha es hes =>
    have hord := h.ord rfl
    have hch := h.chain rfl
    have hla := h.last rfl
    simp only [held] at hch hla
    obtain ⟨s1, s2, s3⟩ := recStart_facts hord hch hl
    obtain ⟨r1, r2, r3, r4⟩ := recEnd_facts hch hla s2 s3 hr
    have hord' : Ordered startLoc (recCfg c es top (l, Tree.err e dropped, r)).symbols :=
      ⟨hord.drop _, s1, r1⟩
    have hcov' : ErrCover (recCfg c es top (l, Tree.err e dropped, r)).symbols := by
      intro s hs e' d' hsd
      rcases List.mem_cons.mp hs with rfl | hs
      · simp only at hsd
        injection hsd with h1 h2
        subst h2
        exact ⟨r1, r2⟩
      · exact h.cover rfl s (List.mem_of_mem_drop hs) e' d' hsd
    rcases la with _ | ⟨t, i⟩
    · exact ⟨fun _ => hord', fun _ => r3, fun _ => r4, fun _ => hcov'⟩
    · cases fe with
      | true => exact .of_done _ _
      | false => exact ⟨fun _ => hord', fun _ => r3, fun _ => r4, fun _ => hcov'⟩

theorem SpanInv.step {input : List Item} {c c' : Cfg} {ph ph' : Phase}
    (hmono : MonoFrom startLoc (toksOf input))
    (hio : IOInv T startLoc input c ph) (h : SpanInv startLoc c ph)
    (hs : Step T af failAt startLoc c ph c' ph') : SpanInv startLoc c' ph' := by
  cases hs with
  | done r => exact h
  | panic _ tag hd => exact .of_done _ _
  | pull _ nt hn =>
    cases hn with
    | eof hh => exact ⟨fun _ => h.ord rfl, fun _ => h.chain rfl, fun _ => h.last rfl, fun _ => h.cover rfl⟩
    | err e rest hh => exact .of_done _ _
    | found t i rest hh hk =>
      obtain ⟨h1, h2⟩ := next_tok_mono hmono hio hh
      have hl := h.last rfl
      simp only [held, lastOf] at hl
      refine ⟨fun _ => h.ord rfl, fun _ => ?_, fun _ => ?_, fun _ => h.cover rfl⟩
      · exact ⟨by simp only [pullTokCfg]; omega, h2, trivial⟩
      · exact Int.le_refl _
    | unrec t rest hh hk ex hex => exact .of_done _ _
    | panic t rest hh hk tag => exact .of_done _ _
  | shift la idx top rest a target hst ha hsh =>
    have hc := h.chain rfl
    have hl := h.last rfl
    simp only [held, MonoFrom, lastOf] at hc hl
    refine ⟨fun _ => ⟨h.ord rfl, hc.1, hc.2.1⟩, fun _ => trivial, fun _ => hl, fun _ => ?_⟩
    intro s hs e d hsd
    rcases List.mem_cons.mp hs with rfl | hs
    · cases hsd
    · exact h.cover rfl s hs e d hsd
  | redCont _ p ls _ hctx hr =>
    obtain ⟨hnd, hheld⟩ := hctx.held_eq
    cases hr with
    | cont n A hn hlen hnf hlhs hst below more hss => exact h.reduce hnd hheld hn rfl rfl
  | redFin _ p ls _ r hctx hr => exact .of_done _ _
  | enterNoRec _ la fe ex hctx hex hrec => exact .of_done _ _
  | enterRec _ la fe ex hctx hex hrec =>
    cases ph with
    | act t idx =>
      obtain ⟨rfl, -, -⟩ := hctx
      exact ⟨fun _ => h.ord rfl, fun _ => h.chain rfl, fun _ => h.last rfl, fun _ => h.cover rfl⟩
    | eof =>
      obtain ⟨rfl, -, -⟩ := hctx
      exact ⟨fun _ => h.ord rfl, fun _ => h.chain rfl, fun _ => h.last rfl, fun _ => h.cover rfl⟩
    | _ => exact hctx.elim
  | toFind la e fe top rest a hst ha hnr =>
    exact ⟨fun _ => h.ord rfl, fun _ => by simpa [held] using h.chain rfl,
      fun _ => by simpa [held] using h.last rfl, fun _ => h.cover rfl⟩
  | push la e dropped sl fe top hf _ _ hp => exact h.push hp
  | giveUp e dropped sl fe hf => exact .of_done _ _
  | drop t i e dropped sl fe hf _ nt hn =>
    have hc := h.chain rfl
    have hl := h.last rfl
    simp only [held, laToks] at hc hl
    cases hn with
    | eof hh =>
      exact ⟨fun _ => h.ord rfl, fun _ => by simpa [dropK, held, laToks] using hc,
        fun _ => by simpa [dropK, held, laToks] using hl, fun _ => h.cover rfl⟩
    | err e rest hh => exact .of_done _ _
    | found t' i' rest hh hk =>
      obtain ⟨h1, h2⟩ := next_tok_mono hmono hio hh
      obtain ⟨m1, m2⟩ := monoFrom_snoc hc (by omega) h2
      refine ⟨fun _ => h.ord rfl, fun _ => ?_, fun _ => ?_, fun _ => h.cover rfl⟩
      · simpa [dropK, held, laToks, pullTokCfg] using m1
      · simp only [dropK, held, laToks, pullTokCfg]; rw [m2]; exact Int.le_refl _
    | unrec t rest hh hk ex hex => exact .of_done _ _
    | panic t rest hh hk tag => exact .of_done _ _


theorem spaninv_of_run {input : List Item} (hmono : MonoFrom startLoc (toksOf input)) {n : Nat} {c : Cfg}
    {ph : Phase} (h : run T af failAt startLoc n (init startLoc input) .pull = (c, ph)) :
    SpanInv startLoc c ph := by
  have := run_inv T af failAt startLoc
    (fun c ph => IOInv T startLoc input c ph ∧ SpanInv startLoc c ph)
    (fun c ph h => ⟨h.1.step (step_spec T af failAt startLoc c ph),
      h.2.step hmono h.1 (step_spec T af failAt startLoc c ph)⟩)
    (c0 := init startLoc input) (ph0 := .pull) ⟨IOInv.init T startLoc _, SpanInv.init _⟩ n
  rw [h] at this
  exact this.2

theorem Ordered.mem {lo : Int} {syms : List SymTriple} (h : Ordered lo syms) {s : SymTriple} (hs : s ∈ syms) :
    lo ≤ s.1 ∧ s.1 ≤ s.2.2 ∧ s.2.2 ≤ topEnd lo syms := by
  obtain ⟨j, hj, rfl⟩ := List.mem_iff_getElem.mp hs
  obtain ⟨g1, g2, g3, g4⟩ := h.get (List.getElem?_eq_getElem hj)
  have := g1.le_topEnd
  exact ⟨by omega, g3, g4⟩

/-- upper symbols start at or after the end of every lower one -/
theorem Ordered.pairwise {lo : Int} {syms : List SymTriple} (h : Ordered lo syms) :
    syms.Pairwise (fun upper lower => lower.2.2 ≤ upper.1) := by
  induction syms with
  | nil => exact List.Pairwise.nil
  | cons s rest ih =>
    refine List.pairwise_cons.mpr ⟨fun x hx => ?_, ih h.1⟩
    have := (h.1.mem hx).2.2
    have := h.2.1
    omega

end LalrpopModel.LR.Generic
