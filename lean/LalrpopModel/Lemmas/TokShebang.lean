import LalrpopModel.Lemmas.TokNext
/-! Step lemma for `#![…]` attributes. -/
namespace LalrpopModel.Tok

/-- the items inside `#![ … ]` as `shebang_attribute` sees them -/
inductive SA
  | ch (c : Char)
  | str (ps : List SPiece)
  | open_
  | close
  deriving Repr

def SA.render : SA → List Char
  | .ch c => [c]
  | .str ps => '"' :: (renderPieces ps ++ ['"'])
  | .open_ => ['[']
  | .close => [']']

def renderSA (items : List SA) : List Char := items.flatMap SA.render

/-- well-formed attribute body at bracket depth `k` (1 = directly inside `#![`): ordinary characters
    are not brackets, quotes or newlines; string literals are complete; inner brackets balance -/
def WFS : Nat → List SA → Prop
  | k, [] => k = 1
  | k, .ch c :: r => c ≠ '[' ∧ c ≠ ']' ∧ c ≠ '"' ∧ c ≠ '\n' ∧ WFS k r
  | k, .str ps :: r => (∀ q ∈ ps, q.ok '"' = true) ∧ WFS k r
  | k, .open_ :: r => WFS (k + 1) r
  | k, .close :: r => 2 ≤ k ∧ WFS (k - 1) r

theorem shebangLoop_items (cfg : Cfg) (idx0 : Nat) (st0 : St) : ∀ (items : List SA) (k g p : Nat) (rest : List Char),
    WFS k items →
    shebangLoop cfg idx0 st0 (g + items.length) k ⟨p, renderSA items ++ rest⟩ =
      shebangLoop cfg idx0 st0 g 1 ⟨p + utf8Len (renderSA items), rest⟩ := by
  intro items
  induction items with
  | nil => intro k g p rest h; simp only [WFS] at h; subst h; simp [renderSA]
  | cons a as ih =>
    intro k g p rest h
    have hlen : g + (a :: as).length = (g + as.length) + 1 := by simp; omega
    rw [hlen]
    cases a with
    | ch c =>
      obtain ⟨h1, h2, h3, h4, hr⟩ := h
      have := ih k g (p + c.utf8Size) rest hr
      simp only [renderSA, List.flatMap_cons, SA.render, List.cons_append, List.nil_append] at this ⊢
      rw [shebangLoop]
      simp [h1, h2, h3, h4, this, Nat.add_assoc]
    | str ps =>
      obtain ⟨hps, hr⟩ := h
      have hs := stringLiteral_scan p ps hps (p + 1) (renderSA as ++ rest)
      have := ih k g (p + 1 + utf8Len (renderPieces ps) + 1) rest hr
      simp only [renderSA, List.flatMap_cons, SA.render, List.cons_append, List.append_assoc, List.nil_append] at this hs ⊢
      rw [shebangLoop]
      simp only [show ('"' == '[') = false by decide, show ('"' == ']') = false by decide, show ('"' == '"') = true by decide,
        Bool.false_eq_true, ↓reduceIte, usz_23, hs]
      rw [this]
      congr 2
      simp [utf8Len_append]; omega
    | open_ =>
      have := ih (k + 1) g (p + 1) rest h
      simp only [renderSA, List.flatMap_cons, SA.render, List.cons_append, List.nil_append] at this ⊢
      rw [shebangLoop]
      simp [this, Nat.add_assoc]
    | close =>
      obtain ⟨hk, hr⟩ := h
      have := ih (k - 1) g (p + 1) rest hr
      have hk1 : ¬ (k = 1) := by omega
      simp only [renderSA, List.flatMap_cons, SA.render, List.cons_append, List.nil_append] at this ⊢
      rw [shebangLoop]
      simp [this, hk1, Nat.add_assoc]

theorem renderSA_length (items : List SA) : items.length ≤ (renderSA items).length := by
  induction items with
  | nil => simp [renderSA]
  | cons a as ih =>
    have : 1 ≤ a.render.length := by cases a <;> simp [SA.render]
    simp [renderSA] at ih ⊢
    omega

/-- `#![ items ]` is one `ShebangAttribute` token whose text is the whole attribute; with the second
    `bump()` gone the following text is untouched -/
theorem next_shebang (cfg : Cfg) (hcfg : cfg.shebangDoubleBump = false) (g p : Nat) (items : List SA)
    (following : List Char) (h : WFS 1 items) :
    nextUnshifted cfg (g + 1) ⟨p, '#' :: '!' :: '[' :: (renderSA items ++ ']' :: following)⟩ =
      (.tok p (.shebangAttribute ('#' :: '!' :: '[' :: (renderSA items ++ [']']))) (p + 3 + utf8Len (renderSA items) + 1),
       ⟨p + 3 + utf8Len (renderSA items) + 1, following⟩) := by
  have hle := renderSA_length items
  have hfuel : (renderSA items ++ ']' :: following).length + 1 =
      ((renderSA items).length - items.length + following.length + 1) + 1 + items.length := by
    simp; omega
  have hloop := shebangLoop_items cfg p ⟨p, '#' :: '!' :: '[' :: (renderSA items ++ ']' :: following)⟩ items 1
    (((renderSA items).length - items.length + following.length + 1) + 1) (p + 1 + 1 + 1) (']' :: following) h
  have hb : between ⟨p, '#' :: '!' :: '[' :: (renderSA items ++ ']' :: following)⟩
      ⟨p + 1 + 1 + 1 + utf8Len (renderSA items) + 1, following⟩ = '#' :: '!' :: '[' :: (renderSA items ++ [']']) := by
    have : '#' :: '!' :: '[' :: (renderSA items ++ ']' :: following) =
        ('#' :: '!' :: '[' :: (renderSA items ++ [']'])) ++ following := by simp
    rw [this]; exact between_append _ _ _ _
  have hsa : shebangAttribute cfg p ⟨p, '#' :: '!' :: '[' :: (renderSA items ++ ']' :: following)⟩
      ⟨p + 1, '!' :: '[' :: (renderSA items ++ ']' :: following)⟩ =
      .ok ((p, .shebangAttribute ('#' :: '!' :: '[' :: (renderSA items ++ [']'])), p + 1 + 1 + 1 + utf8Len (renderSA items) + 1),
           ⟨p + 1 + 1 + 1 + utf8Len (renderSA items) + 1, following⟩) := by
    simp only [shebangAttribute]
    simp only [show ('!' == '!') = true by decide, show ('[' == '[') = true by decide, if_true, usz_2, usz_10]
    rw [hfuel, hloop, shebangLoop]
    simp [hcfg, hb]
  rw [nextUnshifted]
  simp [hsa]

end LalrpopModel.Tok
