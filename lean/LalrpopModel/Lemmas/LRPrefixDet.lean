import LalrpopModel.Lemmas.LRGenericIO
import LalrpopModel.Lemmas.LRGenericFuel
/-!
Valid-prefix properties (C04/C05), part 1: prefix determinism of the driver, for ARBITRARY tables
without error recovery.

The machine looks at its `input` field only in `next_token`, and only at its head. Hence two
runs on inputs that share their first `m` items go through the same configurations (the `input`
field aside) and phases as long as no more than `m` items have been pulled (`prefix_determinism`).

Also: a run that accepts from phase `.act la a` shifts `a` after finitely many reductions, which
is what `accepts` simulates on the state stack (`act_run_accepts`).
-/
namespace LalrpopModel.LR.Prefix
open LalrpopModel.LR LalrpopModel.LR.Generic

/-- the configuration with its remaining input replaced -/
def setIn (c : Cfg) (i : List Item) : Cfg := { c with input := i }

@[simp] theorem setIn_states (c : Cfg) (i : List Item) : (setIn c i).states = c.states := rfl
@[simp] theorem setIn_symbols (c : Cfg) (i : List Item) : (setIn c i).symbols = c.symbols := rfl
@[simp] theorem setIn_input (c : Cfg) (i : List Item) : (setIn c i).input = i := rfl
@[simp] theorem setIn_pulled (c : Cfg) (i : List Item) : (setIn c i).pulled = c.pulled := rfl
@[simp] theorem setIn_lastLoc (c : Cfg) (i : List Item) : (setIn c i).lastLoc = c.lastLoc := rfl
@[simp] theorem setIn_acts (c : Cfg) (i : List Item) : (setIn c i).acts = c.acts := rfl
@[simp] theorem setIn_trace (c : Cfg) (i : List Item) : (setIn c i).trace = c.trace := rfl
@[simp] theorem setIn_setIn (c : Cfg) (i j : List Item) : setIn (setIn c i) j = setIn c j := rfl
theorem setIn_self (c : Cfg) : setIn c c.input = c := rfl

/-- phases of a parser without error recovery -/
def isPlain : Phase → Bool
  | .pull | .act _ _ | .eof | .done _ => true
  | _ => false

def rrSetIn (i : List Item) : ReduceResult → ReduceResult
  | .continue_ c => .continue_ (setIn c i)
  | .finished c r => .finished (setIn c i) r

section
variable (T : Tables) (af : Nat) (failAt : Option Nat) (startLoc : Int)

theorem reduce_setIn (c : Cfg) (i : List Item) (p : Nat) (la : Option Int) :
    reduce T failAt startLoc (setIn c i) p la = rrSetIn i (reduce T failAt startLoc c p la) := by
  unfold reduce
  simp only [setIn_symbols, setIn_acts, setIn_trace, setIn_states]
  split
  · rename_i n A st fal h1 h2 h3 h4
    by_cases hlt : c.symbols.length < n
    · simp only [hlt, if_true]; rfl
    · simp only [hlt, if_false]
      by_cases hfail : (fal && failAt == some c.acts) = true
      · simp only [hfail, if_true]; rfl
      · simp only [hfail]
        cases st with
        | true =>
          simp only [if_true]
          generalize (List.take n c.symbols).reverse = l
          rcases l with _ | ⟨k, _ | ⟨k2, l⟩⟩ <;> rfl
        | false =>
          simp only [Bool.false_eq_true, if_false]
          by_cases hsl : c.states.length < n
          · simp only [setIn, hsl, if_true]; rfl
          · simp only [setIn, hsl, if_false]
            generalize List.drop n c.states = d
            cases d <;> rfl
  · rfl

theorem unrecognizedError_setIn (c : Cfg) (i : List Item) (tok : Option Tok) :
    unrecognizedError T af (setIn c i) tok = unrecognizedError T af c tok := rfl

theorem enterRecovery_setIn (hrec : T.usesRecovery = false) (c : Cfg) (i : List Item)
    (la : Option (Tok × Term)) (fe : Bool) :
    enterRecovery T af (setIn c i) la fe =
      (setIn (enterRecovery T af c la fe).1 i, (enterRecovery T af c la fe).2) := by
  unfold enterRecovery
  rw [unrecognizedError_setIn]
  cases unrecognizedError T af c (la.map (·.1)) with
  | error e => rfl
  | ok pe => simp [hrec]

/-- outside `next_token` a step does not look at the input -/
theorem step_setIn_act (hrec : T.usesRecovery = false) (c : Cfg) (i : List Item) (la : Tok) (idx : Term) :
    step T af failAt startLoc (setIn c i) (.act la idx) =
      (setIn (step T af failAt startLoc c (.act la idx)).1 i, (step T af failAt startLoc c (.act la idx)).2) := by
  simp only [step, setIn_states, setIn_symbols]
  cases c.states with
  | nil => rfl
  | cons top rest =>
    simp only
    cases T.actionAt top idx with
    | none => rfl
    | some a =>
      simp only
      cases asShift a with
      | some target => rfl
      | none =>
        simp only
        cases asReduce a with
        | some p =>
          simp only [reduce_setIn]
          cases reduce T failAt startLoc c p (some la.l) with
          | continue_ c' => rfl
          | finished c' r => cases r <;> rfl
        | none => exact enterRecovery_setIn T af hrec c i _ _

theorem step_setIn_eof (hrec : T.usesRecovery = false) (c : Cfg) (i : List Item) :
    step T af failAt startLoc (setIn c i) .eof =
      (setIn (step T af failAt startLoc c .eof).1 i, (step T af failAt startLoc c .eof).2) := by
  simp only [step, setIn_states]
  cases c.states with
  | nil => rfl
  | cons top rest =>
    simp only
    cases T.eofActionAt top with
    | none => rfl
    | some a =>
      simp only
      cases asReduce a with
      | some p =>
        simp only [reduce_setIn]
        cases reduce T failAt startLoc c p none with
        | continue_ c' => rfl
        | finished c' r => rfl
      | none => exact enterRecovery_setIn T af hrec c i _ _

/-- `next_token` looks at the head of the input only -/
theorem step_setIn_pull_cons (c : Cfg) (x : Item) (r r' : List Item) (h : c.input = x :: r) :
    step T af failAt startLoc (setIn c (x :: r')) .pull =
      (setIn (step T af failAt startLoc c .pull).1 r', (step T af failAt startLoc c .pull).2) := by
  simp only [step, nextToken, h, setIn_input]
  cases x with
  | err e => rfl
  | tok t =>
    simp only
    cases t.kind with
    | some k => rfl
    | none =>
      simp only
      have : unrecognizedError T af
          { setIn c (Item.tok t :: r') with input := r', pulled := (setIn c (Item.tok t :: r')).pulled + 1, lastLoc := t.r }
          (some t) =
        unrecognizedError T af { c with input := r, pulled := c.pulled + 1, lastLoc := t.r } (some t) := rfl
      rw [this]
      cases unrecognizedError T af { c with input := r, pulled := c.pulled + 1, lastLoc := t.r } (some t) <;> rfl

theorem step_setIn_pull_nil (c : Cfg) (h : c.input = []) :
    step T af failAt startLoc (setIn c []) .pull = step T af failAt startLoc c .pull := by
  rw [← h, setIn_self]

/-! ### plain phases, the pull counter -/

theorem step_plain (hrec : T.usesRecovery = false) (c : Cfg) (ph : Phase) (hp : isPlain ph = true) :
    isPlain (step T af failAt startLoc c ph).2 = true := by
  have hs := step_spec T af failAt startLoc c ph
  generalize (step T af failAt startLoc c ph).1 = c' at hs
  generalize (step T af failAt startLoc c ph).2 = ph' at hs
  cases hs with
  | done r => rfl
  | panic _ tag hd => rfl
  | pull _ nt hn => cases nt <;> rfl
  | shift la idx top rest a target hst ha hsh => rfl
  | redCont _ p ls _ hctx hr => exact hp
  | redFin _ p ls _ r hctx hr => rfl
  | enterNoRec _ la fe ex hctx hex hrec' => rfl
  | enterRec _ la fe ex hctx hex hrec' => rw [hrec] at hrec'; cases hrec'
  | toFind la e fe top rest a hst ha hnr => cases hp
  | push la e dropped sl fe top hf _ _ hpu => cases hp
  | giveUp e dropped sl fe hf => cases hp
  | drop t i e dropped sl fe hf _ nt hn => cases hp

theorem run_plain (hrec : T.usesRecovery = false) (n : Nat) (c : Cfg) (ph : Phase) (hp : isPlain ph = true) :
    isPlain (run T af failAt startLoc n c ph).2 = true :=
  run_inv T af failAt startLoc (fun _ ph => isPlain ph = true)
    (fun c ph h => step_plain T af failAt startLoc hrec c ph h) hp n

/-- the pull counter never decreases -/
theorem step_pulled_le (c : Cfg) (ph : Phase) : c.pulled ≤ (step T af failAt startLoc c ph).1.pulled := by
  have hs := step_spec T af failAt startLoc c ph
  rcases hs.io_cases with ⟨_, h, _⟩ | ⟨_, _, _, _, nt, hn, _⟩
  · omega
  · generalize (step T af failAt startLoc c ph).1 = c' at hn
    cases hn <;> simp [pullCfg, pullTokCfg]

theorem run_pulled_le (n : Nat) (c : Cfg) (ph : Phase) : c.pulled ≤ (run T af failAt startLoc n c ph).1.pulled := by
  induction n with
  | zero => simp
  | succ n ih =>
    rw [run_succ']
    exact Nat.le_trans ih (step_pulled_le T af failAt startLoc _ _)

theorem run_pulled_mono (m n : Nat) (hmn : m ≤ n) (c : Cfg) (ph : Phase) :
    (run T af failAt startLoc m c ph).1.pulled ≤ (run T af failAt startLoc n c ph).1.pulled := by
  obtain ⟨k, rfl⟩ := Nat.exists_eq_add_of_le hmn
  rw [run_add]
  exact run_pulled_le T af failAt startLoc k _ _

theorem step_pull_pulled (c : Cfg) :
    (step T af failAt startLoc c .pull).1.pulled = c.pulled + 1 ∧
    (step T af failAt startLoc c .pull).1.input = c.input.tail := by
  simp only [step, nextToken]
  cases c.input with
  | nil => exact ⟨rfl, rfl⟩
  | cons x r =>
    cases x with
    | err e => exact ⟨rfl, rfl⟩
    | tok t =>
      simp only
      cases t.kind with
      | some k => exact ⟨rfl, rfl⟩
      | none =>
        simp only
        cases unrecognizedError T af { c with input := r, pulled := c.pulled + 1, lastLoc := t.r } (some t) <;>
          exact ⟨rfl, rfl⟩

/-! ### prefix determinism -/

theorem getElem?_of_take_eq {α : Type} {l₁ l₂ : List α} {m j : Nat} (h : l₁.take m = l₂.take m) (hj : j < m) :
    l₁[j]? = l₂[j]? := by
  have := congrArg (fun l => l[j]?) h
  simpa [List.getElem?_take, hj] using this

theorem drop_eq_of_getElem? {α : Type} (l : List α) (j : Nat) :
    l.drop j = match l[j]? with
      | some x => x :: l.drop (j + 1)
      | none => [] := by
  cases h : l[j]? with
  | none => exact List.drop_eq_nil_of_le (List.getElem?_eq_none_iff.mp h)
  | some x =>
    obtain ⟨hlt, hx⟩ := List.getElem?_eq_some_iff.mp h
    subst hx
    exact List.drop_eq_getElem_cons hlt

/-- **Prefix determinism.** Two runs (same tables, fuels, `failAt`, start location) on inputs that
    share their first `m` items are in lock step — same phase, same configuration up to the
    `input` field — as long as at most `m` items have been pulled. -/
theorem prefix_determinism (hrec : T.usesRecovery = false) (I₁ I₂ : List Item) (m : Nat)
    (hshare : I₁.take m = I₂.take m) :
    ∀ (n : Nat) (c₁ : Cfg) (ph₁ : Phase),
      run T af failAt startLoc n (init startLoc I₁) .pull = (c₁, ph₁) → c₁.pulled ≤ m →
      run T af failAt startLoc n (init startLoc I₂) .pull = (setIn c₁ (I₂.drop c₁.pulled), ph₁) := by
  intro n
  induction n with
  | zero =>
    intro c₁ ph₁ h _
    simp only [run_zero, Prod.mk.injEq] at h
    obtain ⟨rfl, rfl⟩ := h
    simp [LR.init, setIn]
  | succ n ih =>
    intro c₁ ph₁ h hle
    rcases hprev : run T af failAt startLoc n (init startLoc I₁) .pull with ⟨c₀, ph₀⟩
    rw [run_succ', hprev] at h
    have hio := ioinv_of_run (T := T) (startLoc := startLoc) hprev
    have hmono : c₀.pulled ≤ c₁.pulled := by
      have := step_pulled_le T af failAt startLoc c₀ ph₀
      rw [h] at this; exact this
    have ih' := ih c₀ ph₀ hprev (by omega)
    have hplain : isPlain ph₀ = true := by
      have := run_plain T af failAt startLoc hrec n (init startLoc I₁) .pull rfl
      rw [hprev] at this; exact this
    rw [run_succ', ih']
    cases ph₀ with
    | done r =>
      simp only [step_done, Prod.mk.injEq] at h ⊢
      obtain ⟨rfl, rfl⟩ := h
      exact ⟨rfl, rfl⟩
    | act la idx =>
      rw [step_setIn_act T af failAt startLoc hrec, h]
      have hs := step_spec T af failAt startLoc c₀ (.act la idx)
      rw [h] at hs
      rcases hs.io_cases with ⟨_, hp, _⟩ | ⟨_, _, _, _, nt, _, hc | ⟨t, i, e, d, sl, fe, hc, _⟩⟩
      · simp only at hp; rw [hp]
      · cases hc.1
      · cases hc
    | eof =>
      rw [step_setIn_eof T af failAt startLoc hrec, h]
      have hs := step_spec T af failAt startLoc c₀ .eof
      rw [h] at hs
      rcases hs.io_cases with ⟨_, hp, _⟩ | ⟨_, _, _, _, nt, _, hc | ⟨t, i, e, d, sl, fe, hc, _⟩⟩
      · simp only at hp; rw [hp]
      · cases hc.1
      · cases hc
    | pull =>
      -- the item pulled has index `c₀.pulled < m`: the same in both inputs
      have hp1 : c₁.pulled = c₀.pulled + 1 := by
        have := step_pull_pulled T af failAt startLoc c₀
        rw [h] at this; exact this.1
      have hget : I₁[c₀.pulled]? = I₂[c₀.pulled]? := getElem?_of_take_eq hshare (by omega)
      have hin := hio.inp
      rw [drop_eq_of_getElem?] at hin
      rw [drop_eq_of_getElem? I₂ c₀.pulled, ← hget]
      cases hx : I₁[c₀.pulled]? with
      | none =>
        rw [hx] at hin
        simp only at hin ⊢
        rw [step_setIn_pull_nil T af failAt startLoc c₀ hin, h]
        have : c₁.input = [] := by
          have := step_pull_pulled T af failAt startLoc c₀
          rw [h, hin] at this; exact this.2
        have hd : I₂.drop c₁.pulled = [] := by
          rw [hp1]
          apply List.drop_eq_nil_of_le
          have := List.getElem?_eq_none_iff.mp (hget ▸ hx)
          omega
        rw [hd, ← this, setIn_self]
      | some x =>
        rw [hx] at hin
        simp only at hin ⊢
        rw [step_setIn_pull_cons T af failAt startLoc c₀ x _ _ hin, h, hp1]
    | recReduce la e fe => cases hplain
    | recFind la e d sl fe => cases hplain

end

/-! ### an accepting run from `.act la a` shifts `a`: `accepts` answers yes -/

section
variable (T : Tables) (af : Nat) (failAt : Option Nat) (startLoc : Int)

/-- If a run from phase `.act la a` ends in `Ok`, then `accepts` (with enough fuel) says that the
    state stack accepts `a`. Arbitrary tables, no recovery. -/
theorem act_run_accepts (hrec : T.usesRecovery = false) :
    ∀ (n : Nat) (c : Cfg) (la : Tok) (a : Term) (c' : Cfg) (v : Tree),
      run T af failAt startLoc n c (.act la a) = (c', .done (.ok v)) →
      ∃ af', accepts T af' c.states (some a) = .ok true := by
  intro n
  induction n with
  | zero => intro c la a c' v h; simp at h
  | succ n ih =>
    intro c la a c' v h
    rw [run_succ] at h
    simp only [step] at h
    cases hst : c.states with
    | nil => rw [hst] at h; simp at h
    | cons top rest =>
      rw [hst] at h
      simp only at h
      cases hact : T.actionAt top a with
      | none => rw [hact] at h; simp at h
      | some act =>
        rw [hact] at h
        simp only at h
        cases hsh : asShift act with
        | some target =>
          -- shift: `accepts` answers `true` at once
          refine ⟨1, ?_⟩
          have hpos : 0 < act := by
            simp only [asShift] at hsh
            split at hsh
            · assumption
            · cases hsh
          have hnr : asReduce act = none := by simp [asReduce]; omega
          have hne : act ≠ 0 := by omega
          simp [accepts, hact, hne, hnr]
        | none =>
          rw [hsh] at h
          simp only at h
          cases hr : asReduce act with
          | none =>
            rw [hr] at h
            simp only at h
            exfalso
            unfold enterRecovery at h
            cases hu : unrecognizedError T af c (Option.map (fun x => x.1) (some (la, a))) with
            | error e => rw [hu] at h; simp at h
            | ok pe => rw [hu] at h; simp [hrec] at h
          | some p =>
            rw [hr] at h
            simp only at h
            have hne : act ≠ 0 := by
              intro h0; subst h0; simp [asReduce] at hr
            have hsp := reduce_spec T failAt startLoc c p (some la.l)
            generalize hres : reduce T failAt startLoc c p (some la.l) = res at hsp h
            cases hsp with
            | bad tag => simp at h
            | fail k hk hlen hfal hf => simp at h
            | accept k hk hlen hnf hst' sym hsym => simp at h
            | badStart k hk hlen hnf => simp at h
            | pushedPanic k hk hlen hnf tag => simp at h
            | cont k B hk hlen hnf hlhs hst' below more hs =>
              simp only at h
              obtain ⟨af', haf⟩ := ih _ la a c' v h
              simp only at haf
              refine ⟨af' + 1, ?_⟩
              have hlen' : ¬ (top :: rest).length < k := by
                intro hl
                rw [hst] at hs
                have := List.drop_eq_nil_of_le (Nat.le_of_lt hl)
                rw [this] at hs; cases hs
              rw [hst] at hs
              simp only [accepts, hact, hne, if_false, hr, hlen, hlhs, hst', Bool.false_eq_true, hlen', hs]
              exact haf

end

end LalrpopModel.LR.Prefix
