import LalrpopModel.Model.ReLit
/-!
Helper lemmas for C10 (`Props/C10.lean`): per-character UTF-8 round trip, the literal fragment of
the regex parser on non-meta / escaped characters, hexadecimal digits with an accumulator, and the
per-character step of the string-literal lexer on `{:?}` output.
-/
namespace LalrpopModel.ReLit
open LalrpopModel.Re

/-! ### UTF-8 -/

theorem decode_one (b0 : Nat) (r : List Nat) (h : b0 < 0x80) :
    decodeUtf8 (b0 :: r) = (decodeUtf8 r).map (b0 :: ·) := by
  conv => lhs; unfold decodeUtf8
  simp [h]

theorem decode_two (b0 b1 : Nat) (r : List Nat) (h1 : 0xC2 ≤ b0) (h2 : b0 < 0xE0)
    (h3 : isCont b1 = true) :
    decodeUtf8 (b0 :: b1 :: r) = (decodeUtf8 r).map (((b0 - 0xC0) * 64 + (b1 - 0x80)) :: ·) := by
  conv => lhs; unfold decodeUtf8
  have a1 : ¬ b0 < 0x80 := by omega
  have a2 : ¬ b0 < 0xC2 := by omega
  simp [a1, a2, h2, h3]

theorem decode_three (b0 b1 b2 : Nat) (r : List Nat) (h1 : 0xE0 ≤ b0) (h2 : b0 < 0xF0)
    (h3 : isCont b1 = true) (h4 : isCont b2 = true)
    (h5 : 0x800 ≤ (b0 - 0xE0) * 4096 + (b1 - 0x80) * 64 + (b2 - 0x80))
    (h6 : ¬ (0xD800 ≤ (b0 - 0xE0) * 4096 + (b1 - 0x80) * 64 + (b2 - 0x80) ∧
            (b0 - 0xE0) * 4096 + (b1 - 0x80) * 64 + (b2 - 0x80) < 0xE000)) :
    decodeUtf8 (b0 :: b1 :: b2 :: r) =
      (decodeUtf8 r).map (((b0 - 0xE0) * 4096 + (b1 - 0x80) * 64 + (b2 - 0x80)) :: ·) := by
  conv => lhs; unfold decodeUtf8
  have a1 : ¬ b0 < 0x80 := by omega
  have a2 : ¬ b0 < 0xC2 := by omega
  have a3 : ¬ b0 < 0xE0 := by omega
  simp only [a1, a2, a3, h2, h3, h4, if_false, if_true, Bool.true_and]
  rw [if_pos]
  simp only [Bool.and_eq_true, decide_eq_true_eq, Bool.not_eq_true', Bool.and_eq_false_iff,
    decide_eq_false_iff_not]
  omega

theorem decode_four (b0 b1 b2 b3 : Nat) (r : List Nat) (h1 : 0xF0 ≤ b0) (h2 : b0 < 0xF5)
    (h3 : isCont b1 = true) (h4 : isCont b2 = true) (h5 : isCont b3 = true)
    (h6 : 0x10000 ≤ (b0 - 0xF0) * 262144 + (b1 - 0x80) * 4096 + (b2 - 0x80) * 64 + (b3 - 0x80))
    (h7 : (b0 - 0xF0) * 262144 + (b1 - 0x80) * 4096 + (b2 - 0x80) * 64 + (b3 - 0x80) < 0x110000) :
    decodeUtf8 (b0 :: b1 :: b2 :: b3 :: r) =
      (decodeUtf8 r).map
        (((b0 - 0xF0) * 262144 + (b1 - 0x80) * 4096 + (b2 - 0x80) * 64 + (b3 - 0x80)) :: ·) := by
  conv => lhs; unfold decodeUtf8
  have a1 : ¬ b0 < 0x80 := by omega
  have a2 : ¬ b0 < 0xC2 := by omega
  have a3 : ¬ b0 < 0xE0 := by omega
  have a4 : ¬ b0 < 0xF0 := by omega
  simp only [a1, a2, a3, a4, h2, h3, h4, h5, if_false, if_true, Bool.true_and]
  rw [if_pos]
  simp only [Bool.and_eq_true, decide_eq_true_eq]
  omega

theorem isCont_low (x : Nat) : isCont (0x80 + x % 64) = true := by
  simp only [isCont, Bool.and_eq_true, decide_eq_true_eq]; omega

theorem isScalar_iff (c : Nat) : isScalar c = true ↔ c < 0xD800 ∨ (0xE000 ≤ c ∧ c < 0x110000) := by
  simp [isScalar]

theorem isScalar_lt {c : Nat} (h : isScalar c = true) : c < 0x110000 := by
  rw [isScalar_iff] at h; omega

/-- one scalar value: encoding followed by strict decoding gives it back -/
theorem decode_encodeChar (c : Nat) (hc : isScalar c = true) (rest : List Nat) :
    decodeUtf8 (encodeChar c ++ rest) = (decodeUtf8 rest).map (c :: ·) := by
  rw [isScalar_iff] at hc
  unfold encodeChar
  split
  · rename_i h
    exact decode_one c rest h
  split
  · rename_i h0 h
    have e : (0xC0 + c / 64 - 0xC0) * 64 + (0x80 + c % 64 - 0x80) = c := by omega
    have := decode_two (0xC0 + c / 64) (0x80 + c % 64) rest (by omega) (by omega) (isCont_low _)
    rw [e] at this
    exact this
  split
  · rename_i h0 h1 h
    have e : (0xE0 + c / 4096 - 0xE0) * 4096 + (0x80 + (c / 64) % 64 - 0x80) * 64
        + (0x80 + c % 64 - 0x80) = c := by omega
    have := decode_three (0xE0 + c / 4096) (0x80 + (c / 64) % 64) (0x80 + c % 64) rest
      (by omega) (by omega) (isCont_low _) (isCont_low _) (by omega) (by omega)
    rw [e] at this
    exact this
  · rename_i h0 h1 h
    have e : (0xF0 + c / 262144 - 0xF0) * 262144 + (0x80 + (c / 4096) % 64 - 0x80) * 4096
        + (0x80 + (c / 64) % 64 - 0x80) * 64 + (0x80 + c % 64 - 0x80) = c := by omega
    have := decode_four (0xF0 + c / 262144) (0x80 + (c / 4096) % 64) (0x80 + (c / 64) % 64)
      (0x80 + c % 64) rest
      (by omega) (by omega) (isCont_low _) (isCont_low _) (isCont_low _) (by omega) (by omega)
    rw [e] at this
    exact this

/-! ### `escape` and the literal fragment of the parser -/

theorem isMeta_backslash : isMeta 92 = true := by decide

theorem parseLitChars_plain (c : Nat) (l : List Nat) (h : isMeta c = false) :
    parseLitChars (c :: l) = (parseLitChars l).map (c :: ·) := by
  have hc : c ≠ 92 := by
    intro e; rw [e, isMeta_backslash] at h; cases h
  cases l with
  | nil => simp [parseLitChars, h]
  | cons d l => simp [parseLitChars, h, hc]

theorem parseLitChars_escaped (c : Nat) (l : List Nat) (h : isMeta c = true) :
    parseLitChars (92 :: c :: l) = (parseLitChars l).map (c :: ·) := by
  simp [parseLitChars, h]

/-! ### hexadecimal digits -/

theorem hexVal_hexDigit (d : Nat) (h : d < 16) : hexVal (hexDigit d) = some d := by
  unfold hexDigit hexVal
  split
  · rw [if_pos (by omega)]; congr 1; omega
  · rw [if_neg (by omega), if_pos (by omega)]; congr 1; omega

theorem hexDigit_ne_brace (d : Nat) (h : d < 16) : hexDigit d ≠ 125 := by
  unfold hexDigit; split <;> omega

/-- reading one digit -/
theorem readHex_digit (f d a : Nat) (cs : List Nat) (h : d < 16) :
    readHex (f + 1) (hexDigit d :: cs) a = readHex f cs (a * 16 + d) := by
  simp [readHex, hexDigit_ne_brace d h, hexVal_hexDigit d h]

/-- the generalised round trip with accumulators: `toHexAux f n acc` writes some number `k` of
digits (1 ≤ k ≤ f, n < 16^k) in front of `acc`, and reading them with fuel `g ≥ f` from accumulator
`a` is reading `acc` with fuel `g - k` from accumulator `a * 16^k + n` -/
theorem readHex_toHexAux : ∀ (f n : Nat) (acc : List Nat) (g : Nat), 1 ≤ f → n < 16 ^ f → f ≤ g →
    ∃ k, k ≤ f ∧ 1 ≤ k ∧ n < 16 ^ k ∧ ∀ a, readHex g (toHexAux f n acc) a =
      readHex (g - k) acc (a * 16 ^ k + n)
  | 0, n, acc, g, hf, hn, hg => by omega
  | f + 1, n, acc, g, _, hn, hg => by
    unfold toHexAux
    split
    · rename_i h
      refine ⟨1, by omega, by omega, by omega, ?_⟩
      intro a
      obtain ⟨g', rfl⟩ : ∃ g', g = g' + 1 := ⟨g - 1, by omega⟩
      rw [readHex_digit _ _ _ _ h]
      simp
    · rename_i h
      have hn' : n / 16 < 16 ^ f := by
        rw [Nat.pow_succ] at hn
        omega
      have hf : 1 ≤ f := by
        cases f with
        | zero => simp at hn; omega
        | succ f => omega
      obtain ⟨g', rfl⟩ : ∃ g', g = g' + 1 := ⟨g - 1, by omega⟩
      obtain ⟨k, hk1, hk2, hk3, hk⟩ :=
        readHex_toHexAux f (n / 16) (hexDigit (n % 16) :: acc) (g' + 1) hf hn' (by omega)
      refine ⟨k + 1, by omega, by omega, ?_, ?_⟩
      · rw [Nat.pow_succ]; omega
      · intro a
        rw [hk a]
        obtain ⟨m, hm⟩ : ∃ m, g' + 1 - k = m + 1 := ⟨g' - k, by omega⟩
        rw [hm, readHex_digit _ _ _ _ (by omega)]
        have e1 : g' + 1 - (k + 1) = m := by omega
        have e2 : (a * 16 ^ k + n / 16) * 16 + n % 16 = a * 16 ^ (k + 1) + n := by
          rw [Nat.pow_succ, Nat.add_mul, Nat.mul_assoc]
          omega
        rw [e1, e2]

/-- more fuel than digits changes nothing -/
theorem toHexAux_fuel : ∀ (k f n : Nat) (acc : List Nat), 1 ≤ k → n < 16 ^ k → k ≤ f →
    toHexAux f n acc = toHexAux k n acc
  | 0, _, _, _, h, _, _ => by omega
  | k + 1, f, n, acc, _, hn, hf => by
    obtain ⟨f', rfl⟩ : ∃ f', f = f' + 1 := ⟨f - 1, by omega⟩
    unfold toHexAux
    split
    · rfl
    · rename_i h
      have hk : 1 ≤ k := by
        cases k with
        | zero => simp at hn; omega
        | succ k => omega
      have hn' : n / 16 < 16 ^ k := by
        rw [Nat.pow_succ] at hn
        omega
      exact toHexAux_fuel k f' (n / 16) _ hk hn' (by omega)

theorem toHexAux_append : ∀ (f n : Nat) (acc r : List Nat),
    toHexAux f n (acc ++ r) = toHexAux f n acc ++ r
  | 0, _, _, _ => rfl
  | f + 1, n, acc, r => by
    unfold toHexAux
    split
    · rfl
    · exact toHexAux_append f (n / 16) (hexDigit (n % 16) :: acc) r

/-- the digits of a value below `16^6`, followed by the closing brace, are read back with fuel 7 -/
theorem readHex_toHex (n : Nat) (hn : n < 16 ^ 6) (rest : List Nat) :
    readHex 7 (toHex n ++ 125 :: rest) 0 = some (n, rest) := by
  unfold toHex
  rw [← toHexAux_append, List.nil_append, toHexAux_fuel 6 8 n _ (by omega) hn (by omega)]
  obtain ⟨k, hk1, hk2, _, hk⟩ := readHex_toHexAux 6 n (125 :: rest) 7 (by omega) hn (by omega)
  rw [hk 0]
  obtain ⟨m, hm⟩ : ∃ m, 7 - k = m + 1 := ⟨6 - k, by omega⟩
  rw [hm]
  simp [readHex]

/-! ### the string-literal lexer on `{:?}` output -/

theorem escDebugChar_length_pos (uni : Nat → Bool) (c : Nat) : 1 ≤ (escDebugChar uni c).length := by
  unfold escDebugChar
  repeat' split
  all_goals simp

/-- one character of `{:?}` output costs the lexer one unit of fuel and yields that character -/
theorem readStrLit_escDebugChar (uni : Nat → Bool) (c : Nat) (hc : isScalar c = true) (f : Nat)
    (tail : List Nat) :
    readStrLit (f + 1) (escDebugChar uni c ++ tail) =
      (readStrLit f tail).map fun r => (c :: r.1, r.2) := by
  unfold escDebugChar
  split
  · subst_vars; simp [readStrLit]
  split
  · subst_vars; simp [readStrLit]
  split
  · subst_vars; simp [readStrLit]
  split
  · subst_vars; simp [readStrLit]
  split
  · subst_vars; simp [readStrLit]
  split
  · subst_vars; simp [readStrLit]
  split
  · have hx : readHex 7 (toHex c ++ 125 :: tail) 0 = some (c, tail) :=
      readHex_toHex c (by have := isScalar_lt hc; omega) tail
    simp [readStrLit, hx, hc]
  · rename_i h0 h9 h13 h10 h92 h34 hu
    simp [readStrLit, h13, h92, h34]

end LalrpopModel.ReLit
