import LalrpopModel.Model.Nfa
namespace LalrpopModel.Nfa
open LalrpopModel.Re

/-! ### states and edges of a concrete NFA -/

theorem kindOf_of {N : Nfa} {q : Nat} {st : NState} (h : N[q]? = some st) : kindOf N q = st.kind := by
  simp [kindOf, h]
theorem noopOf_of {N : Nfa} {q : Nat} {st : NState} (h : N[q]? = some st) : noopOf N q = st.noop := by
  simp [noopOf, h]
theorem testOf_of {N : Nfa} {q : Nat} {st : NState} (h : N[q]? = some st) : testOf N q = st.test := by
  simp [testOf, h]
theorem otherOf_of {N : Nfa} {q : Nat} {st : NState} (h : N[q]? = some st) : otherOf N q = st.other := by
  simp [otherOf, h]

theorem stepChar_some {N : Nfa} {q : Nat} {st : NState} (h : N[q]? = some st) (c : Nat)
    {e : Nat × Nat × Nat} (he : st.test.find? (fun e => e.1 ≤ c && c ≤ e.2.1) = some e) :
    stepChar N q c = some e.2.2 := by
  simp [stepChar, testOf_of h, he]

theorem stepChar_none {N : Nfa} {q : Nat} {st : NState} (h : N[q]? = some st) (c : Nat)
    (he : st.test.find? (fun e => e.1 ≤ c && c ≤ e.2.1) = none) :
    stepChar N q c = st.other.head? := by
  simp [stepChar, testOf_of h, otherOf_of h, he]

theorem ReachN.mono {N : Nfa} {k k' s : Nat} {w : List Nat} (h : ReachN N k s w) (hk : k ≤ k') :
    ReachN N k' s w := by
  induction h generalizing k' with
  | acc k s hs => exact .acc k' s hs
  | eps k s u w hu _ ih =>
    obtain ⟨j, rfl⟩ : ∃ j, k' = j + 1 := ⟨k' - 1, by omega⟩
    exact .eps j s u w hu (ih (by omega))
  | chr k s u c w hu _ ih =>
    obtain ⟨j, rfl⟩ : ∃ j, k' = j + 1 := ⟨k' - 1, by omega⟩
    exact .chr j s u c w hu (ih (by omega))

/-- a state with only Noop edges -/
theorem reach_noop_state {N : Nfa} {q : Nat} {st : NState} (h : N[q]? = some st)
    (hk : st.kind ≠ .accept) (ht : st.test = []) (ho : st.other = []) {k : Nat} {w : List Nat}
    (hr : ReachN N k q w) : ∃ k' u, k = k' + 1 ∧ u ∈ st.noop ∧ ReachN N k' u w := by
  cases hr with
  | acc k s hs => rw [kindOf_of h] at hs; exact absurd hs hk
  | eps k s u w hu hr => exact ⟨k, u, rfl, by rwa [noopOf_of h] at hu, hr⟩
  | chr k s u c w hu hr => rw [stepChar_none h c (by simp [ht]), ho] at hu; simp at hu

/-- a state with only Test/Other edges -/
theorem reach_test_state {N : Nfa} {q : Nat} {st : NState} (h : N[q]? = some st)
    (hk : st.kind ≠ .accept) (hn : st.noop = []) {k : Nat} {w : List Nat}
    (hr : ReachN N k q w) :
    ∃ k' c w' u, k = k' + 1 ∧ w = c :: w' ∧ stepChar N q c = some u ∧ ReachN N k' u w' := by
  cases hr with
  | acc k s hs => rw [kindOf_of h] at hs; exact absurd hs hk
  | eps k s u w hu hr => rw [noopOf_of h, hn] at hu; cases hu
  | chr k s u c w hu hr => exact ⟨k, c, w, u, rfl, rfl, hu, hr⟩

/-! ### frames -/

/-- `n'` extends `n`: old states untouched, new states are `Neither` -/
structure Frame (n n' : Nfa) : Prop where
  len : n.length ≤ n'.length
  old : ∀ q, q < n.length → n'[q]? = n[q]?
  kinds : ∀ q, n.length ≤ q → q < n'.length → kindOf n' q = .neither

theorem Frame.refl (n : Nfa) : Frame n n := ⟨Nat.le_refl _, fun _ _ => rfl, fun q h1 h2 => by omega⟩

theorem Frame.trans {a b c : Nfa} (h1 : Frame a b) (h2 : Frame b c) : Frame a c := by
  refine ⟨Nat.le_trans h1.len h2.len, ?_, ?_⟩
  · intro q hq
    rw [h2.old q (by have := h1.len; omega), h1.old q hq]
  · intro q hq hq'
    by_cases hb : q < b.length
    · have := h1.kinds q hq hb
      simp only [kindOf] at this ⊢
      rw [h2.old q hb]; exact this
    · exact h2.kinds q (by omega) hq'

theorem newState_fst (n : Nfa) : (newState n).1 = n.length := rfl
theorem newState_snd (n : Nfa) : (newState n).2 = n ++ [{ kind := .neither }] := rfl

theorem getElem?_newState_old (n : Nfa) (q : Nat) (hq : q < n.length) : (newState n).2[q]? = n[q]? := by
  simp [newState, List.getElem?_append_left hq]

theorem getElem?_newState_new (n : Nfa) : (newState n).2[n.length]? = some { kind := .neither } := by
  simp [newState]

theorem length_newState (n : Nfa) : (newState n).2.length = n.length + 1 := by simp [newState]

theorem Frame.newState (n : Nfa) : Frame n (newState n).2 := by
  refine ⟨by simp [length_newState], fun q hq => getElem?_newState_old n q hq, ?_⟩
  intro q h1 h2
  rw [length_newState] at h2
  have : q = n.length := by omega
  subst this
  simp [kindOf, getElem?_newState_new]

theorem length_pushNoop (n : Nfa) (s t : Nat) : (pushNoop n s t).length = n.length := by
  simp [pushNoop]
theorem length_pushTest (n : Nfa) (s lo hi t : Nat) : (pushTest n s lo hi t).length = n.length := by
  simp [pushTest]
theorem length_pushOther (n : Nfa) (s t : Nat) : (pushOther n s t).length = n.length := by
  simp [pushOther]

theorem getElem?_pushNoop (n : Nfa) (s t q : Nat) :
    (pushNoop n s t)[q]? = if s = q then (n[q]?).map (fun st => { st with noop := st.noop ++ [t] }) else n[q]? := by
  simp only [pushNoop, List.getElem?_modify]
  split <;> simp_all
theorem getElem?_pushTest (n : Nfa) (s lo hi t q : Nat) :
    (pushTest n s lo hi t)[q]? =
      if s = q then (n[q]?).map (fun st => { st with test := st.test ++ [(lo, hi, t)] }) else n[q]? := by
  simp only [pushTest, List.getElem?_modify]
  split <;> simp_all
theorem getElem?_pushOther (n : Nfa) (s t q : Nat) :
    (pushOther n s t)[q]? = if s = q then (n[q]?).map (fun st => { st with other := st.other ++ [t] }) else n[q]? := by
  simp only [pushOther, List.getElem?_modify]
  split <;> simp_all

/-- modifying a state at or beyond `n.length` keeps the frame over `n` -/
theorem Frame.modify {n n' : Nfa} (h : Frame n n') (s : Nat) (hs : n.length ≤ s) (f : NState → NState)
    (hf : ∀ st, (f st).kind = st.kind) : Frame n (n'.modify s f) := by
  refine ⟨by simpa using h.len, ?_, ?_⟩
  · intro q hq
    rw [List.getElem?_modify]
    have : s ≠ q := by omega
    simp [this, h.old q hq]
  · intro q h1 h2
    have h2' : q < n'.length := by simpa using h2
    have := h.kinds q h1 h2'
    simp only [kindOf, List.getElem?_modify] at this ⊢
    cases hq : n'[q]? with
    | none => simp
    | some st =>
      rw [hq] at this
      by_cases hsq : s = q <;> simp_all

theorem Frame.pushNoop {n n' : Nfa} (h : Frame n n') (s t : Nat) (hs : n.length ≤ s) :
    Frame n (pushNoop n' s t) := h.modify s hs _ (fun _ => rfl)
theorem Frame.pushTest {n n' : Nfa} (h : Frame n n') (s lo hi t : Nat) (hs : n.length ≤ s) :
    Frame n (pushTest n' s lo hi t) := h.modify s hs _ (fun _ => rfl)
theorem Frame.pushOther {n n' : Nfa} (h : Frame n n') (s t : Nat) (hs : n.length ≤ s) :
    Frame n (pushOther n' s t) := h.modify s hs _ (fun _ => rfl)

end LalrpopModel.Nfa
