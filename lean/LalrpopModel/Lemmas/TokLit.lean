import LalrpopModel.Lemmas.TokComment
/-! Scanning lemmas for string, char and raw string literals. -/
namespace LalrpopModel.Tok

/-- a piece of the body of a `"…"` / `'…'` literal: a plain character or a backslash escape -/
inductive SPiece
  | plain (c : Char)
  | esc (c : Char)
  deriving DecidableEq, Repr

def SPiece.render : SPiece → List Char
  | .plain c => [c]
  | .esc c => ['\\', c]

/-- a plain piece is neither the closing quote nor a backslash -/
def SPiece.ok (quote : Char) : SPiece → Bool
  | .plain c => c != quote && c != '\\'
  | .esc _ => true

def renderPieces (ps : List SPiece) : List Char := ps.flatMap SPiece.render

theorem str_scan (q : Char) (hqb : q ≠ '\\') (ps : List SPiece) (hps : ∀ p ∈ ps, p.ok q = true) (pos : Nat) (rest : List Char) :
    takeUntilS (strTerminate q) false pos (renderPieces ps ++ q :: rest) =
      (true, renderPieces ps, ⟨pos + utf8Len (renderPieces ps), q :: rest⟩) := by
  induction ps generalizing pos with
  | nil => simp [renderPieces, takeUntilS, strTerminate, hqb]
  | cons p ps ih =>
    have hp := hps p (by simp)
    have ih' := fun pos => ih (fun x hx => hps x (by simp [hx])) pos
    cases p with
    | plain c =>
      simp [SPiece.ok] at hp
      have h := ih' (pos + c.utf8Size)
      simp [renderPieces] at h ⊢
      simp [SPiece.render, takeUntilS, strTerminate, hp, h, Nat.add_assoc]
    | esc c =>
      have h := ih' (pos + ('\\'.utf8Size + c.utf8Size))
      simp [renderPieces, Nat.add_assoc] at h ⊢
      simp [SPiece.render, takeUntilS, strTerminate, h, Nat.add_assoc]

/-- `string_or_char_literal` on a well-formed literal body -/
theorem stringOrCharLiteral_scan (idx0 : Nat) (q : Char) (hqb : q ≠ '\\') (hq : q.utf8Size = 1) (v : List Char → Tok) (ps : List SPiece)
    (hps : ∀ p ∈ ps, p.ok q = true) (pos : Nat) (rest : List Char) :
    stringOrCharLiteral idx0 q v ⟨pos, renderPieces ps ++ q :: rest⟩ =
      some ((idx0, v (renderPieces ps), pos + utf8Len (renderPieces ps) + 1),
            ⟨pos + utf8Len (renderPieces ps) + 1, rest⟩) := by
  simp [stringOrCharLiteral, str_scan q hqb ps hps, St.bump, hq]

theorem stringLiteral_scan (idx0 : Nat) (ps : List SPiece) (hps : ∀ p ∈ ps, p.ok '"' = true) (pos : Nat)
    (rest : List Char) :
    stringLiteral idx0 ⟨pos, renderPieces ps ++ '"' :: rest⟩ =
      .ok ((idx0, .stringLiteral (renderPieces ps), pos + utf8Len (renderPieces ps) + 1),
           ⟨pos + utf8Len (renderPieces ps) + 1, rest⟩) := by
  simp [stringLiteral, stringOrCharLiteral_scan idx0 '"' (by decide) (by decide) _ ps hps]

/-! ### raw strings -/

/-- Rust: a raw string with `n` hashes ends at the first `"` that is followed by `n` hashes, so its
    body contains no `"` followed by `n` hashes. -/
def rawBodyOK (n : Nat) : List Char → Bool
  | [] => true
  | c :: cs => !(c == '"' && (List.replicate n '#').isPrefixOf cs) && rawBodyOK n cs

theorem utf8Len_replicate_hash (n : Nat) : utf8Len (List.replicate n '#') = n := by
  induction n with
  | zero => simp
  | succ n ih =>
    have : '#'.utf8Size = 1 := by decide
    simp [List.replicate_succ, ih, this]; omega

theorem regexStep_val (h k : Nat) (c : Char) :
    regexStep h k c =
      (if (if k > 0 then (if c == '#' then k + 1 else 0) else k) == 0 && c == '"' then 1
        else (if k > 0 then (if c == '#' then k + 1 else 0) else k),
       (if (if k > 0 then (if c == '#' then k + 1 else 0) else k) == 0 && c == '"' then 1
        else (if k > 0 then (if c == '#' then k + 1 else 0) else k)) == h + 1) := rfl

/-- inside the body of a raw string the `end_of_regex` closure never fires and its state stays `≤ n` -/
theorem regex_body_noStop (n : Nat) : ∀ (xs : List Char) (k : Nat), k ≤ n → rawBodyOK n xs = true →
    (1 ≤ k → (List.replicate (n + 1 - k) '#').isPrefixOf xs = false) →
    noStop (regexStep n) k xs ∧ runS (regexStep n) k xs ≤ n := by
  intro xs
  induction xs with
  | nil => intro k hk _ _; simp [noStop, runS, hk]
  | cons c cs ih =>
    intro k hk hok hside
    simp only [rawBodyOK, Bool.and_eq_true, Bool.not_eq_true'] at hok
    obtain ⟨hq, hcs⟩ := hok
    by_cases hc : c = '#'
    · subst hc
      by_cases hk0 : k = 0
      · subst hk0
        have := ih 0 (Nat.zero_le _) hcs (by omega)
        simpa [noStop, runS, regexStep_val] using this
      · have hk1 : 1 ≤ k := by omega
        have hs := hside hk1
        have hlt : k < n := by
          rcases Nat.lt_or_ge k n with h | h
          · exact h
          · have : n + 1 - k = 1 := by omega
            rw [this] at hs
            simp [List.replicate, List.isPrefixOf] at hs
        have hrep : n + 1 - k = (n + 1 - (k + 1)) + 1 := by omega
        rw [hrep, List.replicate_succ] at hs
        simp [List.isPrefixOf] at hs
        have := ih (k + 1) (by omega) hcs (fun _ => by simpa using hs)
        have hne : ¬ (k = n) := by omega
        simpa [noStop, runS, regexStep_val, hk1, hne, Nat.pos_of_ne_zero hk0] using this
    · by_cases hqq : c = '"'
      · subst hqq
        simp at hq
        have hn : n ≠ 0 := by
          intro h0; subst h0; simp at hq
        have := ih 1 (by omega) hcs (fun _ => by simpa using hq)
        by_cases hk0 : k = 0
        · subst hk0; simpa [noStop, runS, regexStep_val, hn] using this
        · simpa [noStop, runS, regexStep_val, hn, Nat.pos_of_ne_zero hk0] using this
      · have := ih 0 (Nat.zero_le _) hcs (by omega)
        by_cases hk0 : k = 0
        · subst hk0; simpa [noStop, runS, regexStep_val, hc, hqq] using this
        · simpa [noStop, runS, regexStep_val, hc, hqq, Nat.pos_of_ne_zero hk0] using this

/-- a run of hashes after the closing quote just counts up -/
theorem regex_hashes_run (n : Nat) : ∀ (j k : Nat), 1 ≤ k → k + j ≤ n →
    noStop (regexStep n) k (List.replicate j '#') ∧ runS (regexStep n) k (List.replicate j '#') = k + j := by
  intro j
  induction j with
  | zero => intro k _ _; simp [noStop, runS]
  | succ j ih =>
    intro k hk hle
    have := ih (k + 1) (by omega) (by omega)
    have hne : ¬ (k = n) := by omega
    have hk0 : k > 0 := hk
    simp [List.replicate_succ, noStop, runS, regexStep_val, hk0, hne]
    constructor
    · exact this.1
    · rw [this.2]; omega

/-- the closing quote from any state `≤ n` -/
theorem regexStep_quote (n k : Nat) : (regexStep n k '"').1 = 1 := by
  by_cases hk : k = 0
  · subst hk; simp [regexStep_val]
  · simp [regexStep_val, Nat.pos_of_ne_zero hk]

/-- **the raw-string scan ends at the closing delimiter**: after the opening quote, `take_until(end_of_regex)`
    consumes the body and all of the closing `"#…#` but its last character -/
theorem regex_scan (n : Nat) (body : List Char) (hok : rawBodyOK n body = true) (pos : Nat) (rest : List Char) :
    ∃ pre c, pre ++ [c] = body ++ '"' :: List.replicate n '#' ∧ c.utf8Size = 1 ∧
      pre.take (pre.length - n) = body ∧
      takeUntilS (regexStep n) 0 pos (body ++ '"' :: List.replicate n '#' ++ rest) =
        (true, pre, ⟨pos + utf8Len pre, c :: rest⟩) := by
  obtain ⟨hns, hle⟩ := regex_body_noStop n body 0 (Nat.zero_le _) hok (by omega)
  cases n with
  | zero =>
    refine ⟨body, '"', by simp, by decide, by simp, ?_⟩
    have hstop : (regexStep 0 (runS (regexStep 0) 0 body) '"').2 = true := by
      have h1 := regexStep_quote 0 (runS (regexStep 0) 0 body)
      have : (regexStep 0 (runS (regexStep 0) 0 body) '"').2 = ((regexStep 0 (runS (regexStep 0) 0 body) '"').1 == 0 + 1) := rfl
      rw [this, h1]; rfl
    simpa using takeUntilS_stop (regexStep 0) 0 body '"' rest pos hns hstop
  | succ m =>
    refine ⟨body ++ '"' :: List.replicate m '#', '#', ?_, by decide, ?_, ?_⟩
    · simp [List.replicate_succ']
    · simp
    · have hq1 := regexStep_quote (m + 1) (runS (regexStep (m + 1)) 0 body)
      have hq2 : (regexStep (m + 1) (runS (regexStep (m + 1)) 0 body) '"').2 = false := by
        have : (regexStep (m + 1) (runS (regexStep (m + 1)) 0 body) '"').2
            = ((regexStep (m + 1) (runS (regexStep (m + 1)) 0 body) '"').1 == m + 1 + 1) := rfl
        rw [this, hq1]; simp
      obtain ⟨hh1, hh2⟩ := regex_hashes_run (m + 1) m 1 (Nat.le_refl 1) (by omega)
      have hns2 : noStop (regexStep (m + 1)) 0 (body ++ '"' :: List.replicate m '#') := by
        rw [noStop_append]
        refine ⟨hns, ?_⟩
        simp only [noStop]
        exact ⟨hq2, by rw [hq1]; exact hh1⟩
      have hrun : runS (regexStep (m + 1)) 0 (body ++ '"' :: List.replicate m '#') = 1 + m := by
        rw [runS_append]; simp only [runS]; rw [hq1]; exact hh2
      have hstop : (regexStep (m + 1) (runS (regexStep (m + 1)) 0 (body ++ '"' :: List.replicate m '#')) '#').2 = true := by
        rw [hrun]
        have h1m : 1 + m > 0 := by omega
        simp [regexStep_val, h1m]; omega
      have := takeUntilS_stop (regexStep (m + 1)) 0 (body ++ '"' :: List.replicate m '#') '#' rest pos hns2 hstop
      simpa [List.replicate_succ'] using this

/-- `regex_literal` entered at `m` hashes followed by a raw string that closes with `h` hashes, where
    `h` is the count the function computes from its `idx0` argument -/
theorem regexLiteral_scan (k : Nat → St → Res St) (idx0 : Nat) (pre : List Char) (p m h : Nat)
    (hh : p + m - idx0 - 1 = h) (body : List Char) (hok : rawBodyOK h body = true) (rest : List Char) :
    regexLiteral k idx0 pre ⟨p, List.replicate m '#' ++ '"' :: (body ++ '"' :: List.replicate h '#' ++ rest)⟩ =
      .ok ((idx0, .regexLiteral body, p + m + 1 + utf8Len body + 1 + h),
           ⟨p + m + 1 + utf8Len body + 1 + h, rest⟩) := by
  subst hh
  have h1 := takeUntil_stop (fun c => !(c == '#')) (List.replicate m '#') '"'
    (body ++ '"' :: List.replicate (p + m - idx0 - 1) '#' ++ rest) p (by intro x hx; simp [List.eq_of_mem_replicate hx]) (by decide)
  obtain ⟨pr, c, hpc, hc1, htake, hscan⟩ := regex_scan (p + m - idx0 - 1) body hok (p + m + 1) rest
  have hq : '"'.utf8Size = 1 := by decide
  have hlen : utf8Len pr + 1 = utf8Len body + 1 + (p + m - idx0 - 1) := by
    have := congrArg utf8Len hpc
    simp [utf8Len_append, utf8Len_replicate_hash, hc1, hq] at this
    omega
  simp only [regexLiteral, h1, utf8Len_replicate_hash]
  simp only [hq, beq_self_eq_true, if_true]
  rw [hscan]
  simp only [htake, St.bump, hc1]
  have e1 : p + m + 1 + utf8Len pr + 1 = p + m + 1 + utf8Len body + 1 + (p + m - idx0 - 1) := by omega
  rw [e1]

end LalrpopModel.Tok
