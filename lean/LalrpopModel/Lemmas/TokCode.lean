import LalrpopModel.Lemmas.TokLit
/-! Specification of well-formed Rust snippets (as the code scanner needs to see them) and the proof
    that `Tokenizer::code` ends exactly at the top-level terminator. -/
namespace LalrpopModel.Tok

/-- The Rust lexical items that matter to a delimiter-balancing scan, flat (delimiters are atoms). -/
inductive RA
  /-- any character that is not a quote, `r`, `/` or a delimiter (top-level `,` `;` are excluded by `atomOK`) -/
  | ch (c : Char)
  /-- the letter `r` when it does not start a raw string (inside identifiers, …) -/
  | loneR
  /-- a `/` that does not start a comment (division) -/
  | slash
  /-- `"…"` (also the tail of `b"…"`, `c"…"`) -/
  | str (ps : List SPiece)
  /-- `r#…#"body"#…#` with `n` hashes (also the tail of `br…`, `cr…`) -/
  | raw (n : Nat) (body : List Char)
  /-- `'c'` -/
  | chr (c : Char)
  /-- `'\e…'`: an escaped character literal, `body` = what follows the escaped character -/
  | chrEsc (e : Char) (body : List Char)
  /-- `'c`: the start of a lifetime or label (the rest of the name are ordinary characters) -/
  | tick (c : Char)
  /-- `//body` up to and including the newline -/
  | lineComment (body : List Char)
  /-- `/*body*/` -/
  | blockComment (body : List Char)
  | open_ (c : Char)
  | close (c : Char)
  deriving Repr

def RA.render : RA → List Char
  | .ch c => [c]
  | .loneR => ['r']
  | .slash => ['/']
  | .str ps => '"' :: (renderPieces ps ++ ['"'])
  | .raw n body => 'r' :: (List.replicate n '#' ++ '"' :: (body ++ '"' :: List.replicate n '#'))
  | .chr c => ['\'', c, '\'']
  | .chrEsc e body => '\'' :: '\\' :: e :: (body ++ ['\''])
  | .tick c => ['\'', c]
  | .lineComment body => '/' :: '/' :: (body ++ ['\n'])
  | .blockComment body => '/' :: '*' :: (body ++ ['*', '/'])
  | .open_ c => [c]
  | .close c => [c]

def renderAll (as : List RA) : List Char := as.flatMap RA.render

/-- first character of an atom -/
def RA.first : RA → Char
  | .ch c => c
  | .loneR => 'r'
  | .slash => '/'
  | .str _ => '"'
  | .raw _ _ => 'r'
  | .chr _ => '\''
  | .chrEsc _ _ => '\''
  | .tick _ => '\''
  | .lineComment _ => '/'
  | .blockComment _ => '/'
  | .open_ c => c
  | .close c => c

/-- the character that follows: first character of the remaining atoms, or the terminator -/
def firstChar : List RA → Char → Char
  | [], t => t
  | a :: _, _ => a.first

theorem render_first (a : RA) : ∃ tl, a.render = a.first :: tl := by
  cases a <;> simp [RA.render, RA.first]

theorem renderAll_first (as : List RA) (t : Char) (rest : List Char) :
    ∃ tl, renderAll as ++ t :: rest = firstChar as t :: tl := by
  cases as with
  | nil => exact ⟨rest, by simp [renderAll, firstChar]⟩
  | cons a as =>
    obtain ⟨tl, h⟩ := render_first a
    exact ⟨tl ++ (renderAll as ++ t :: rest), by simp [renderAll, firstChar, h]⟩

/-- the body of a block comment as rustc delimits it: scanning `body*/…` closes exactly at that `*/` -/
def commentOK (body : List Char) : Prop := ∀ rest, refComment 0 (body ++ '*' :: '/' :: rest) = some rest

/-- which raw strings the scanner (as the source currently is) gets right -/
def rawOK (cfg : Cfg) (n : Nat) (body : List Char) : Prop :=
  if cfg.rawLegacy then
    match n with
    | 0 => ∃ ps : List SPiece, (∀ p ∈ ps, p.ok '"' = true) ∧ body = renderPieces ps
    | m + 1 => rawBodyOK m body = true
  else rawBodyOK n body = true

/-- side conditions of an atom at delimiter depth `b`, followed by the character `f` -/
def atomOK (cfg : Cfg) (b : Nat) (a : RA) (f : Char) : Prop :=
  match a with
  | .ch c => c ≠ '"' ∧ c ≠ '\'' ∧ c ≠ 'r' ∧ c ≠ '/' ∧ isOpenDelim c = false ∧ isCloseDelim c = false ∧
             (b = 0 → c ≠ ',' ∧ c ≠ ';')
  | .loneR => f ≠ '#' ∧ (cfg.rawLegacy = false → f ≠ '"')
  | .slash => f ≠ '/' ∧ f ≠ '*'
  | .str ps => ∀ p ∈ ps, p.ok '"' = true
  | .raw n body => rawOK cfg n body
  | .chr c => c ≠ '\\'
  | .chrEsc _ body => ∀ x ∈ body, x ≠ '\''
  | .tick c => c ≠ '\\' ∧ f ≠ '\''
  | .lineComment body => ∀ x ∈ body, x ≠ '\n'
  | .blockComment body => commentOK body
  | .open_ c => isOpenDelim c = true
  | .close c => isCloseDelim c = true ∧ 0 < b

def newBal (b : Nat) : RA → Nat
  | .open_ _ => b + 1
  | .close _ => b - 1
  | _ => b

def balAfter : Nat → List RA → Nat
  | b, [] => b
  | b, a :: as => balAfter (newBal b a) as

/-- well-formedness of a snippet at depth `b`, followed by the terminator `t` -/
def WF (cfg : Cfg) : Nat → List RA → Char → Prop
  | _, [], _ => True
  | b, a :: as, t => atomOK cfg b a (firstChar as t) ∧ WF cfg (newBal b a) as t

/-- loop iterations of `code` per atom -/
def iters (cfg : Cfg) : RA → Nat
  | .lineComment _ => 2
  | .raw _ _ => if cfg.rawLegacy then 2 else 1
  | _ => 1

def itersAll (cfg : Cfg) (as : List RA) : Nat := (as.map (iters cfg)).sum

theorem step_ch (cfg : Cfg) (idx0 g b p : Nat) (c f : Char) (tl : List Char) (h : atomOK cfg b (.ch c) f) :
    code cfg idx0 (g + 1) b ⟨p, c :: tl⟩ = code cfg idx0 g b ⟨p + c.utf8Size, tl⟩ := by
  obtain ⟨h1, h2, h3, h4, h5, h6, h7⟩ := h
  rw [code]
  by_cases hb : b = 0
  · obtain ⟨h8, h9⟩ := h7 hb
    simp [h1, h2, h3, h4, h5, h6, hb, h8, h9]
  · have : b > 0 := Nat.pos_of_ne_zero hb
    simp [h1, h2, h3, h4, h5, h6, this]

theorem step_loneR (cfg : Cfg) (idx0 g b p : Nat) (f : Char) (tl : List Char) (h : atomOK cfg b .loneR f) :
    code cfg idx0 (g + 1) b ⟨p, 'r' :: f :: tl⟩ = code cfg idx0 g b ⟨p + 1, f :: tl⟩ := by
  obtain ⟨h1, h2⟩ := h
  have hr : 'r'.utf8Size = 1 := by decide
  rw [code]
  simp only [hr, show ('r' == '"') = false by decide, show ('r' == '\'') = false by decide,
    show ('r' == 'r') = true by decide, Bool.false_eq_true, ↓reduceIte]
  split
  · simp_all
  · by_cases hl : cfg.rawLegacy = true
    · simp [hl]
    · simp_all
  · rfl

theorem step_slash (cfg : Cfg) (idx0 g b p : Nat) (f : Char) (tl : List Char) (h : atomOK cfg b .slash f) :
    code cfg idx0 (g + 1) b ⟨p, '/' :: f :: tl⟩ = code cfg idx0 g b ⟨p + 1, f :: tl⟩ := by
  obtain ⟨h1, h2⟩ := h
  have hr : '/'.utf8Size = 1 := by decide
  rw [code]
  simp only [hr, show ('/' == '"') = false by decide, show ('/' == '\'') = false by decide,
    show ('/' == 'r') = false by decide, show ('/' == '/') = true by decide, Bool.false_eq_true, ↓reduceIte]
  split
  · simp_all
  · simp_all
  · rfl

theorem step_str (cfg : Cfg) (idx0 g b p : Nat) (ps : List SPiece) (tl : List Char)
    (h : ∀ q ∈ ps, q.ok '"' = true) :
    code cfg idx0 (g + 1) b ⟨p, '"' :: (renderPieces ps ++ '"' :: tl)⟩ =
      code cfg idx0 g b ⟨p + 1 + utf8Len (renderPieces ps) + 1, tl⟩ := by
  have hr : '"'.utf8Size = 1 := by decide
  rw [code]
  simp [hr, stringLiteral_scan p ps h]

theorem step_open (cfg : Cfg) (idx0 g b p : Nat) (c : Char) (tl : List Char) (h : isOpenDelim c = true) :
    code cfg idx0 (g + 1) b ⟨p, c :: tl⟩ = code cfg idx0 g (b + 1) ⟨p + c.utf8Size, tl⟩ := by
  rw [code]
  have : (c = '(' ∨ c = '[') ∨ c = '{' := by simpa [isOpenDelim] using h
  rcases this with (rfl | rfl) | rfl <;> simp [isOpenDelim]

theorem step_close (cfg : Cfg) (idx0 g b p : Nat) (c : Char) (tl : List Char) (h : isCloseDelim c = true)
    (hb : 0 < b) :
    code cfg idx0 (g + 1) b ⟨p, c :: tl⟩ = code cfg idx0 g (b - 1) ⟨p + c.utf8Size, tl⟩ := by
  rw [code]
  have : (c = '}' ∨ c = ']') ∨ c = ')' := by simpa [isCloseDelim] using h
  rcases this with (rfl | rfl) | rfl <;> simp [isOpenDelim, isCloseDelim, hb]

theorem step_chr (cfg : Cfg) (idx0 g b p : Nat) (c f : Char) (tl : List Char) (h : c ≠ '\\') :
    code cfg idx0 (g + 1) b ⟨p, '\'' :: c :: '\'' :: f :: tl⟩ =
      code cfg idx0 g b ⟨p + 1 + c.utf8Size + 1, f :: tl⟩ := by
  have hr : '\''.utf8Size = 1 := by decide
  rw [code]
  simp [hr, takeLifetimeOrCharLit, h, St.bump]

theorem step_tick (cfg : Cfg) (idx0 g b p : Nat) (c f : Char) (tl : List Char) (h : c ≠ '\\') (hf : f ≠ '\'') :
    code cfg idx0 (g + 1) b ⟨p, '\'' :: c :: f :: tl⟩ =
      code cfg idx0 g b ⟨p + 1 + c.utf8Size, f :: tl⟩ := by
  have hr : '\''.utf8Size = 1 := by decide
  rw [code]
  simp [hr, takeLifetimeOrCharLit, h, hf]

theorem step_chrEsc (cfg : Cfg) (idx0 g b p : Nat) (e f : Char) (body tl : List Char) (h : ∀ x ∈ body, x ≠ '\'') :
    code cfg idx0 (g + 1) b ⟨p, '\'' :: '\\' :: e :: (body ++ '\'' :: f :: tl)⟩ =
      code cfg idx0 g b ⟨p + 1 + 1 + e.utf8Size + utf8Len body + 1, f :: tl⟩ := by
  have hr : '\''.utf8Size = 1 := by decide
  have hb : '\\'.utf8Size = 1 := by decide
  have ht := takeUntil_stop (· == '\'') body '\'' (f :: tl) (p + 1 + 1 + e.utf8Size)
    (by intro x hx; simpa using h x hx) (by decide)
  rw [code]
  simp [hr, hb, takeLifetimeOrCharLit, St.bump, ht]

theorem step_lineComment (cfg : Cfg) (idx0 g b p : Nat) (body tl : List Char) (h : ∀ x ∈ body, x ≠ '\n') :
    code cfg idx0 (g + 2) b ⟨p, '/' :: '/' :: (body ++ '\n' :: tl)⟩ =
      code cfg idx0 g b ⟨p + 1 + 1 + utf8Len body + 1, tl⟩ := by
  have hr : '/'.utf8Size = 1 := by decide
  have hn : '\n'.utf8Size = 1 := by decide
  have ht := takeUntil_stop (· == '\n') ('/' :: body) '\n' tl (p + 1)
    (by intro x hx; rcases List.mem_cons.1 hx with rfl | hx
        · decide
        · simpa using h x hx) (by decide)
  rw [show g + 2 = (g + 1) + 1 from rfl, code]
  simp only [hr, show ('/' == '"') = false by decide, show ('/' == '\'') = false by decide,
    show ('/' == 'r') = false by decide, show ('/' == '/') = true by decide, Bool.false_eq_true, ↓reduceIte]
  have ht' : takeUntil (fun x => x == '\n') (p + 1) ('/' :: (body ++ '\n' :: tl))
      = (true, '/' :: body, ⟨p + 1 + utf8Len ('/' :: body), '\n' :: tl⟩) := by simpa using ht
  simp only [ht']
  have hch : atomOK cfg b (.ch '\n') 'x' := by
    refine ⟨by decide, by decide, by decide, by decide, by decide, by decide, fun _ => ⟨by decide, by decide⟩⟩
  rw [step_ch cfg idx0 g b _ '\n' 'x' tl hch]
  congr 2
  simp [hr, hn]; omega

theorem step_blockComment (cfg : Cfg) (idx0 g b p : Nat) (body tl : List Char) (h : commentOK body) :
    code cfg idx0 (g + 1) b ⟨p, '/' :: '*' :: (body ++ '*' :: '/' :: tl)⟩ =
      code cfg idx0 g b ⟨p + 1 + 1 + utf8Len body + 1 + 1, tl⟩ := by
  have hr : '/'.utf8Size = 1 := by decide
  have hs : '*'.utf8Size = 1 := by decide
  have hb := block_comment_matches_rustc p (p + 1 + 1) (body ++ '*' :: '/' :: tl)
  rw [h tl] at hb
  rw [code]
  simp only [hr, show ('/' == '"') = false by decide, show ('/' == '\'') = false by decide,
    show ('/' == 'r') = false by decide, show ('/' == '/') = true by decide, Bool.false_eq_true, ↓reduceIte]
  simp only [hb]
  have : p + 1 + 1 + utf8Len (body ++ '*' :: '/' :: tl) - utf8Len tl = p + 1 + 1 + utf8Len body + 1 + 1 := by
    simp [utf8Len_append, hr, hs]; omega
  rw [this]

theorem step_raw_fixed (cfg : Cfg) (hl : cfg.rawLegacy = false) (idx0 g b p n : Nat) (body tl : List Char)
    (hok : rawBodyOK n body = true) :
    code cfg idx0 (g + 1) b ⟨p, 'r' :: (List.replicate n '#' ++ '"' :: (body ++ '"' :: List.replicate n '#' ++ tl))⟩ =
      code cfg idx0 g b ⟨p + 1 + n + 1 + utf8Len body + 1 + n, tl⟩ := by
  have hr : 'r'.utf8Size = 1 := by decide
  have hs := regexLiteral_scan (fun i s => code cfg i g 0 s) p ['r'] (p + 1) n n (by omega) body hok tl
  rw [code]
  simp only [hr, show ('r' == '"') = false by decide, show ('r' == '\'') = false by decide,
    show ('r' == 'r') = true by decide, Bool.false_eq_true, ↓reduceIte]
  cases n with
  | zero =>
    simp only [List.replicate, List.nil_append, List.append_assoc, List.cons_append] at hs ⊢
    simp only [hl, Bool.false_eq_true, ↓reduceIte, hs]
  | succ m =>
    simp only [List.replicate_succ, List.cons_append, List.append_assoc] at hs ⊢
    simp only [hl, Bool.false_eq_true, ↓reduceIte, hs]

theorem step_raw_legacy_succ (cfg : Cfg) (hl : cfg.rawLegacy = true) (idx0 g b p m : Nat) (body tl : List Char)
    (hok : rawBodyOK m body = true) :
    code cfg idx0 (g + 2) b
        ⟨p, 'r' :: (List.replicate (m + 1) '#' ++ '"' :: (body ++ '"' :: List.replicate (m + 1) '#' ++ tl))⟩ =
      code cfg idx0 g b ⟨p + 1 + (m + 1) + 1 + utf8Len body + 1 + (m + 1), tl⟩ := by
  have hr : 'r'.utf8Size = 1 := by decide
  have hh : '#'.utf8Size = 1 := by decide
  have hs := regexLiteral_scan (fun i s => code cfg i (g + 1) 0 s) (p + 1) [] (p + 1) (m + 1) m (by omega) body hok
    ('#' :: tl)
  have hre : List.replicate (m + 1) '#' ++ tl = List.replicate m '#' ++ '#' :: tl := by
    rw [List.replicate_succ']; simp
  rw [show g + 2 = (g + 1) + 1 from rfl, code]
  simp only [hr, show ('r' == '"') = false by decide, show ('r' == '\'') = false by decide,
    show ('r' == 'r') = true by decide, Bool.false_eq_true, ↓reduceIte]
  simp only [List.append_assoc, List.cons_append] at hs ⊢
  rw [hre]
  simp only [List.replicate_succ, List.cons_append] at hs ⊢
  simp only [hl, ↓reduceIte, hs]
  have hch : atomOK cfg b (.ch '#') 'x' := by
    refine ⟨by decide, by decide, by decide, by decide, by decide, by decide, fun _ => ⟨by decide, by decide⟩⟩
  rw [step_ch cfg idx0 g b _ '#' 'x' tl hch]
  congr 2

theorem step_raw_legacy_zero (cfg : Cfg) (hl : cfg.rawLegacy = true) (idx0 g b p : Nat) (ps : List SPiece)
    (tl : List Char) (hok : ∀ q ∈ ps, q.ok '"' = true) :
    code cfg idx0 (g + 2) b ⟨p, 'r' :: '"' :: (renderPieces ps ++ '"' :: tl)⟩ =
      code cfg idx0 g b ⟨p + 1 + 1 + utf8Len (renderPieces ps) + 1, tl⟩ := by
  have hr : 'r'.utf8Size = 1 := by decide
  rw [show g + 2 = (g + 1) + 1 from rfl, code]
  simp only [hr, show ('r' == '"') = false by decide, show ('r' == '\'') = false by decide,
    show ('r' == 'r') = true by decide, Bool.false_eq_true, ↓reduceIte, hl]
  rw [step_str cfg idx0 g b (p + 1) ps tl hok]

/-- one atom: `iters` iterations of the loop consume exactly the atom and adjust the balance -/
theorem step (cfg : Cfg) (idx0 g b p : Nat) (a : RA) (f : Char) (tl : List Char) (h : atomOK cfg b a f) :
    code cfg idx0 (g + iters cfg a) b ⟨p, a.render ++ f :: tl⟩ =
      code cfg idx0 g (newBal b a) ⟨p + utf8Len a.render, f :: tl⟩ := by
  cases a with
  | ch c => simpa [iters, RA.render, newBal] using step_ch cfg idx0 g b p c f (f :: tl) h
  | loneR => simpa [iters, RA.render, newBal, show 'r'.utf8Size = 1 by decide] using step_loneR cfg idx0 g b p f tl h
  | slash => simpa [iters, RA.render, newBal, show '/'.utf8Size = 1 by decide] using step_slash cfg idx0 g b p f tl h
  | str ps =>
    have := step_str cfg idx0 g b p ps (f :: tl) h
    simp only [iters, RA.render, newBal, List.cons_append, List.append_assoc, List.nil_append, utf8Len_cons, utf8Len_append, utf8Len_nil]
    rw [this]; congr 2
    simp [show '"'.utf8Size = 1 by decide]; omega
  | raw n body =>
    simp only [atomOK, rawOK] at h
    by_cases hl : cfg.rawLegacy = true
    · simp only [hl, if_true] at h
      cases n with
      | zero =>
        obtain ⟨ps, hps, rfl⟩ := h
        have := step_raw_legacy_zero cfg hl idx0 g b p ps (f :: tl) hps
        simp only [iters, hl, if_true, RA.render, newBal, List.replicate, List.nil_append, List.cons_append, List.append_assoc,
          utf8Len_cons, utf8Len_append, utf8Len_nil]
        rw [this]; congr 2
        simp [show '"'.utf8Size = 1 by decide, show 'r'.utf8Size = 1 by decide]; omega
      | succ m =>
        have := step_raw_legacy_succ cfg hl idx0 g b p m body (f :: tl) h
        simp only [List.append_assoc, List.cons_append] at this
        simp only [iters, hl, if_true, RA.render, newBal, List.cons_append, List.append_assoc,
          utf8Len_cons, utf8Len_append, utf8Len_replicate_hash]
        rw [this]; congr 2
        simp [show '"'.utf8Size = 1 by decide, show 'r'.utf8Size = 1 by decide]; omega
    · simp only [hl] at h
      have hl' : cfg.rawLegacy = false := by simpa using hl
      have := step_raw_fixed cfg hl' idx0 g b p n body (f :: tl) h
      simp only [List.append_assoc, List.cons_append] at this
      simp only [iters, hl', RA.render, newBal, List.cons_append, List.append_assoc, Bool.false_eq_true, if_false,
        utf8Len_cons, utf8Len_append, utf8Len_replicate_hash]
      rw [this]; congr 2
      simp [show '"'.utf8Size = 1 by decide, show 'r'.utf8Size = 1 by decide]; omega
  | chr c =>
    have := step_chr cfg idx0 g b p c f tl h
    simp only [iters, RA.render, newBal, List.cons_append, List.nil_append, utf8Len_cons, utf8Len_nil]
    rw [this]; congr 2
    simp [show '\''.utf8Size = 1 by decide]; omega
  | chrEsc e body =>
    have := step_chrEsc cfg idx0 g b p e f body tl h
    simp only [iters, RA.render, newBal, List.cons_append, List.append_assoc, List.nil_append, utf8Len_cons, utf8Len_append, utf8Len_nil]
    rw [this]; congr 2
    simp [show '\''.utf8Size = 1 by decide, show '\\'.utf8Size = 1 by decide]; omega
  | tick c =>
    have := step_tick cfg idx0 g b p c f tl h.1 h.2
    simp only [iters, RA.render, newBal, List.cons_append, List.nil_append, utf8Len_cons, utf8Len_nil]
    rw [this]; congr 2
    simp [show '\''.utf8Size = 1 by decide]; omega
  | lineComment body =>
    have := step_lineComment cfg idx0 g b p body (f :: tl) h
    simp only [iters, RA.render, newBal, List.cons_append, List.append_assoc, List.nil_append, utf8Len_cons, utf8Len_append, utf8Len_nil]
    rw [this]; congr 2
    simp [show '/'.utf8Size = 1 by decide, show '\n'.utf8Size = 1 by decide]; omega
  | blockComment body =>
    have := step_blockComment cfg idx0 g b p body (f :: tl) h
    simp only [iters, RA.render, newBal, List.cons_append, List.append_assoc, List.nil_append, utf8Len_cons, utf8Len_append, utf8Len_nil]
    rw [this]; congr 2
    simp [show '/'.utf8Size = 1 by decide, show '*'.utf8Size = 1 by decide]; omega
  | open_ c => simpa [iters, RA.render, newBal] using step_open cfg idx0 g b p c (f :: tl) h
  | close c => simpa [iters, RA.render, newBal] using step_close cfg idx0 g b p c (f :: tl) h.1 h.2

/-- a well-formed atom sequence is consumed exactly, whatever follows the terminator -/
theorem code_atoms (cfg : Cfg) (idx0 : Nat) : ∀ (as : List RA) (b : Nat) (t : Char) (rest : List Char) (p g : Nat),
    WF cfg b as t →
    code cfg idx0 (g + itersAll cfg as) b ⟨p, renderAll as ++ t :: rest⟩ =
      code cfg idx0 g (balAfter b as) ⟨p + utf8Len (renderAll as), t :: rest⟩ := by
  intro as
  induction as with
  | nil => intro b t rest p g _; simp [itersAll, renderAll, balAfter]
  | cons a as ih =>
    intro b t rest p g hwf
    obtain ⟨ha, hwf'⟩ := hwf
    obtain ⟨tl, htl⟩ := renderAll_first as t rest
    have hs := step cfg idx0 (g + itersAll cfg as) b p a (firstChar as t) tl ha
    have hfuel : g + itersAll cfg (a :: as) = g + itersAll cfg as + iters cfg a := by
      simp [itersAll]; omega
    have hren : renderAll (a :: as) ++ t :: rest = a.render ++ (renderAll as ++ t :: rest) := by
      simp [renderAll]
    rw [hfuel, hren, htl, hs, ← htl, ih (newBal b a) t rest _ g hwf']
    simp [balAfter, renderAll, utf8Len_append, Nat.add_assoc]

/-- iterations never exceed characters -/
theorem iters_le (cfg : Cfg) (a : RA) : iters cfg a ≤ a.render.length := by
  cases a <;> simp [iters, RA.render] <;> (try split) <;> omega

theorem itersAll_le (cfg : Cfg) (as : List RA) : itersAll cfg as ≤ (renderAll as).length := by
  induction as with
  | nil => simp [itersAll, renderAll]
  | cons a as ih =>
    have := iters_le cfg a
    simp [itersAll, renderAll] at ih ⊢
    omega

def isTerminator (t : Char) : Bool := t == ',' || t == ';' || isCloseDelim t

/-- `code` from depth 0 with the fuel `codeTop` passes: ends at the terminator (proof of
    `code_scan_ends_at_terminator`) -/
theorem codeTop_scan (cfg : Cfg) (idx0 p : Nat) (as : List RA) (t : Char) (rest : List Char)
    (hwf : WF cfg 0 as t) (hbal : balAfter 0 as = 0) (ht : isTerminator t = true) :
    codeTop cfg idx0 ⟨p, renderAll as ++ t :: rest⟩ = .ok ⟨p + utf8Len (renderAll as), t :: rest⟩ := by
  have hle := itersAll_le cfg as
  have hfuel : (renderAll as ++ t :: rest).length + 1 =
      ((renderAll as).length - itersAll cfg as + rest.length + 1) + 1 + itersAll cfg as := by
    simp; omega
  simp only [codeTop]
  rw [hfuel, code_atoms cfg idx0 as 0 t rest p _ hwf, hbal, code]
  have : ((t = ',' ∨ t = ';') ∨ t = '}' ∨ t = ']') ∨ t = ')' := by
    simpa [isTerminator, isCloseDelim, or_assoc] using ht
  rcases this with ((rfl | rfl) | rfl | rfl) | rfl <;> simp [isOpenDelim, isCloseDelim]

end LalrpopModel.Tok
