import LalrpopModel.Lemmas.NfaAtoms
namespace LalrpopModel.Nfa
open LalrpopModel.Re

/-! ### alternation -/

theorem getElem?_foldl_pushNoop (ts : List Nat) (n : Nfa) (s0 q : Nat) :
    (ts.foldl (fun n t => pushNoop n s0 t) n)[q]? =
      if s0 = q then (n[q]?).map (fun st => { st with noop := st.noop ++ ts }) else n[q]? := by
  induction ts generalizing n with
  | nil => split <;> simp
  | cons t ts ih =>
    rw [List.foldl_cons, ih, getElem?_pushNoop]
    split
    · cases n[q]? <;> simp
    · rfl

theorem length_foldl_pushNoop (ts : List Nat) (n : Nfa) (s0 : Nat) :
    (ts.foldl (fun n t => pushNoop n s0 t) n).length = n.length := by
  induction ts generalizing n with
  | nil => rfl
  | cons t ts ih => rw [List.foldl_cons, ih, length_pushNoop]

theorem frame_foldl_pushNoop {n n' : Nfa} (h : Frame n n') (ts : List Nat) (s0 : Nat)
    (hs : n.length ≤ s0) : Frame n (ts.foldl (fun n t => pushNoop n s0 t) n') := by
  induction ts generalizing n' with
  | nil => exact h
  | cons t ts ih => rw [List.foldl_cons]; exact ih (h.pushNoop _ _ hs)

structure AltsSpec (L : List Nat → Prop) (N : Nfa) (ts : List Nat) (acc : Nat) : Prop where
  complete : ∀ w1 w2, L w1 → Acc N acc w2 → ∃ t, t ∈ ts ∧ Acc N t (w1 ++ w2)
  sound : ∀ t, t ∈ ts → ∀ k w, ReachN N k t w →
    ∃ w1 w2 k', k' ≤ k ∧ w = w1 ++ w2 ∧ L w1 ∧ ReachN N k' acc w2

def AltsImpl (g : Nat → Nfa → Except Err (List Nat × Nfa)) (rej : Nat) (L : List Nat → Prop) : Prop :=
  ∀ acc n ts n', g acc n = .ok (ts, n') →
    Frame n n' ∧ ∀ N, AgreeOn n' N n.length n'.length → RejDead N rej → AltsSpec L N ts acc

/-- the `Alternation` arm, given the builder of the alternatives' entry states -/
theorem alt_impl {g : Nat → Nfa → Except Err (List Nat × Nfa)} {rej : Nat} {L : List Nat → Prop}
    (hg : AltsImpl g rej L) :
    Impl (fun acc n => do
      let (s0, n) := newState n
      let (targets, n) ← g acc n
      pure (s0, targets.foldl (fun n t => pushNoop n s0 t) n)) rej L := by
  intro acc n s n' he
  simp only [bind, Except.bind] at he
  cases h1 : g acc (newState n).2 with
  | error e => rw [h1] at he; cases he
  | ok r1 =>
    obtain ⟨ts, n2⟩ := r1
    rw [h1] at he
    simp only [pure, Except.pure, Except.ok.injEq, Prod.mk.injEq, newState_fst] at he
    obtain ⟨rfl, rfl⟩ := he
    obtain ⟨fr1, sp1⟩ := hg _ _ ts n2 h1
    have hlen1 := fr1.len
    rw [length_newState] at hlen1
    refine ⟨frame_foldl_pushNoop ((Frame.newState n).trans fr1) ts _ (Nat.le_refl _), ?_⟩
    intro N hag hrej
    rw [length_foldl_pushNoop] at hag
    have hblank : n2[n.length]? = some { kind := .neither } := by
      rw [fr1.old n.length (by rw [length_newState]; omega)]
      exact getElem?_newState_new n
    have hN0 : N[n.length]? = some { kind := .neither, noop := ts } := by
      rw [hag n.length (Nat.le_refl _) (by omega), getElem?_foldl_pushNoop]
      simp [hblank]
    have ag1 : AgreeOn n2 N (newState n).2.length n2.length := by
      intro q h1 h2
      rw [length_newState] at h1
      rw [hag q (by omega) h2, getElem?_foldl_pushNoop]
      have : n.length ≠ q := by omega
      simp [this]
    have S1 := sp1 N ag1 hrej
    constructor
    · intro w1 w2 hw hacc
      obtain ⟨t, ht, hacc'⟩ := S1.complete w1 w2 hw hacc
      exact Acc.eps (by rw [noopOf_of hN0]; exact ht) hacc'
    · intro k w hr
      obtain ⟨k', u, rfl, hu, hr'⟩ := reach_noop_state hN0 (by simp) rfl rfl hr
      obtain ⟨w1, w2, k2, hk2, rfl, hw1, hr2⟩ := S1.sound u hu k' w hr'
      exact ⟨w1, w2, k2, by omega, rfl, hw1, hr2⟩

theorem alts_nil_impl (rej : Nat) :
    AltsImpl (fun _ n => (pure ([], n) : Except Err (List Nat × Nfa))) rej (fun _ => False) := by
  intro acc n ts n' he
  cases he
  exact ⟨Frame.refl _, fun N _ _ => ⟨fun _ _ h => absurd h id, fun t ht => by cases ht⟩⟩

theorem alts_cons_impl {f : Nat → Nfa → Build} {g : Nat → Nfa → Except Err (List Nat × Nfa)} {rej : Nat}
    {L1 L2 : List Nat → Prop} (hf : Impl f rej L1) (hg : AltsImpl g rej L2) :
    AltsImpl (fun acc n => do
      let (t, n) ← f acc n
      let (ts, n) ← g acc n
      pure (t :: ts, n)) rej (fun w => L1 w ∨ L2 w) := by
  intro acc n ts n' he
  simp only [bind, Except.bind] at he
  cases h1 : f acc n with
  | error e => rw [h1] at he; cases he
  | ok r1 =>
    obtain ⟨t, n1⟩ := r1
    rw [h1] at he
    simp only at he
    cases h2 : g acc n1 with
    | error e => rw [h2] at he; cases he
    | ok r2 =>
      obtain ⟨ts', n2⟩ := r2
      rw [h2] at he
      simp only [pure, Except.pure, Except.ok.injEq, Prod.mk.injEq] at he
      obtain ⟨rfl, rfl⟩ := he
      obtain ⟨fr1, sp1⟩ := hf acc n t n1 h1
      obtain ⟨fr2, sp2⟩ := hg acc n1 ts' n2 h2
      refine ⟨fr1.trans fr2, ?_⟩
      intro N hag hrej
      have ag2 : AgreeOn n2 N n1.length n2.length := hag.mono fr1.len (Nat.le_refl _)
      have ag1 : AgreeOn n1 N n.length n1.length := AgreeOn.back fr2 hag
      have S1 := sp1 N ag1 hrej
      have S2 := sp2 N ag2 hrej
      constructor
      · intro w1 w2 hw hacc
        rcases hw with hw | hw
        · exact ⟨t, by simp, S1.complete w1 w2 hw hacc⟩
        · obtain ⟨t', ht', h'⟩ := S2.complete w1 w2 hw hacc
          exact ⟨t', by simp [ht'], h'⟩
      · intro t' ht' k w hr
        rcases List.mem_cons.mp ht' with rfl | ht'
        · obtain ⟨w1, w2, k2, a, b, c, d⟩ := S1.sound k w hr
          exact ⟨w1, w2, k2, a, b, .inl c, d⟩
        · obtain ⟨w1, w2, k2, a, b, c, d⟩ := S2.sound t' ht' k w hr
          exact ⟨w1, w2, k2, a, b, .inr c, d⟩

/-! ### the main induction -/

mutual
theorem expr_impl (m : LitMode) (rej : Nat) : ∀ (e : Hir), e.WF →
    Impl (fun acc n => expr m e acc rej n) rej (denote m e)
  | .empty, _ => by
    have := pure_impl rej
    simpa [expr, denote] using this
  | .lit bs, _ => by
    intro acc n s n' he
    simp only [expr] at he
    cases hl : litSymbols m bs with
    | none => rw [hl] at he; cases he
    | some cs =>
      rw [hl] at he
      have h := litChain_impl cs.reverse rej acc n s n' he
      refine ⟨h.1, fun N ha hr => (h.2 N ha hr).congr ?_⟩
      intro w
      simp only [denote, List.reverse_reverse]
      constructor
      · rintro rfl; exact hl
      · intro h'; rw [hl] at h'; exact (Option.some.inj h').symm
  | .cls rs, _ => by
    have := clsBuild_impl rs rej
    simpa [expr, denote] using this
  | .look, _ => by
    intro acc n s n' he
    simp [expr, throw, throwThe, MonadExceptOf.throw] at he
  | .cap named sub, hwf => by
    intro acc n s n' he
    simp only [expr] at he
    cases named with
    | true => simp [throw, throwThe, MonadExceptOf.throw] at he
    | false =>
      simp only [Bool.false_eq_true, if_false] at he
      have h := expr_impl m rej sub (by simpa [Hir.WF] using hwf) acc n s n' he
      simpa [denote] using h
  | .rep min max greedy sub, hwf => by
    intro acc n s n' he
    simp only [expr] at he
    cases greedy with
    | false => simp [throw, throwThe, MonadExceptOf.throw] at he
    | true =>
      simp only [Bool.not_true, Bool.false_eq_true, if_false] at he
      simp only [Hir.WF] at hwf
      have hsub := expr_impl m rej sub hwf.2
      have h := repWith_impl hsub min max hwf.1 acc n s n' he
      refine ⟨h.1, fun N ha hr => (h.2 N ha hr).congr ?_⟩
      intro w
      simp [denote, Lrep]
  | .cat es, hwf => by
    have h := exprCat_impl m rej es (by simpa [Hir.WF] using hwf)
    simpa [expr, denote] using h
  | .alt es, hwf => by
    have h := alt_impl (exprAlts_impl m rej es (by simpa [Hir.WF] using hwf))
    intro acc n s n' he
    simp only [expr] at he
    have := h acc n s n' he
    simpa [denote] using this
theorem exprCat_impl (m : LitMode) (rej : Nat) : ∀ (es : List Hir), WFs es →
    Impl (fun acc n => exprCat m es acc rej n) rej (denoteCat m es)
  | [], _ => by
    have := pure_impl rej
    simpa [exprCat, denoteCat] using this
  | e :: es, hwf => by
    simp only [WFs] at hwf
    have h := seqB_impl (exprCat_impl m rej es hwf.2) (expr_impl m rej e hwf.1)
    intro acc n s n' he
    have he' : seqB (fun acc n => exprCat m es acc rej n) (fun acc n => expr m e acc rej n) acc n = .ok (s, n') := by
      simpa [exprCat, seqB] using he
    have := h acc n s n' he'
    refine ⟨this.1, fun N ha hr => (this.2 N ha hr).congr ?_⟩
    intro w
    simp [denoteCat, Lcat]
theorem exprAlts_impl (m : LitMode) (rej : Nat) : ∀ (es : List Hir), WFs es →
    AltsImpl (fun acc n => exprAlts m es acc rej n) rej (denoteAlt m es)
  | [], _ => by
    have := alts_nil_impl rej
    simpa [exprAlts, denoteAlt] using this
  | e :: es, hwf => by
    simp only [WFs] at hwf
    have h := alts_cons_impl (expr_impl m rej e hwf.1) (exprAlts_impl m rej es hwf.2)
    intro acc n ts n' he
    simp only [exprAlts] at he
    have := h acc n ts n' he
    simpa [denoteAlt] using this
end

end LalrpopModel.Nfa
