import LalrpopModel.Lemmas.LRCompleteBasic
/-!
LR completeness, part 2: the small-step machine of `Model/LR/Driver.lean` seen from the
accepting path. `run` composes (`run_add`), is stable once `done` (`run_done`), hence functional
in the step fuel (`run_unique`); the four kinds of steps a successful parse takes (pull a token,
shift, reduce a non-start production, reduce the start production at EOF) are characterised on
"ready" configurations (`Rdy c ph v`: the head of the remaining tokens `v`, or EOF, has been
pulled and is the lookahead of phase `ph`).
-/
namespace LalrpopModel.LR

/-- the machine is "ready" in front of the tokens `v`: the head of `v` (or EOF) has been pulled -/
def Rdy (c : Cfg) (ph : Phase) : List Tok → Prop
  | [] => ph = .eof ∧ c.input = []
  | a :: rest => ∃ k, a.kind = some k ∧ ph = .act a k ∧ c.input = rest.map Item.tok

section
variable (T : Tables) (af : Nat) (failAt : Option Nat) (startLoc : Int)

theorem run_done (n : Nat) (c : Cfg) (r : Outcome) :
    run T af failAt startLoc n c (.done r) = (c, .done r) := by
  cases n <;> simp [run]

theorem run_succ (n : Nat) (c : Cfg) (ph : Phase) :
    run T af failAt startLoc (n + 1) c ph =
      run T af failAt startLoc n (step T af failAt startLoc c ph).1 (step T af failAt startLoc c ph).2 := by
  cases ph <;> simp [run, step, run_done]

theorem run_add (n m : Nat) (c : Cfg) (ph : Phase) :
    run T af failAt startLoc (n + m) c ph =
      run T af failAt startLoc m (run T af failAt startLoc n c ph).1 (run T af failAt startLoc n c ph).2 := by
  induction n generalizing c ph with
  | zero => simp [run]
  | succ n ih =>
    rw [show n + 1 + m = (n + m) + 1 by omega, run_succ, run_succ, ih]


/-- once `done`, more fuel changes nothing -/
theorem run_stable {n : Nat} {c c' : Cfg} {ph : Phase} {r : Outcome}
    (h : run T af failAt startLoc n c ph = (c', .done r)) (m : Nat) (hm : n ≤ m) :
    run T af failAt startLoc m c ph = (c', .done r) := by
  obtain ⟨k, rfl⟩ := Nat.exists_eq_add_of_le hm
  rw [run_add, h]
  exact run_done T af failAt startLoc k c' r

/-- the result of a run does not depend on the step fuel -/
theorem run_unique {n m : Nat} {c c1 c2 : Cfg} {ph : Phase} {r1 r2 : Outcome}
    (h1 : run T af failAt startLoc n c ph = (c1, .done r1))
    (h2 : run T af failAt startLoc m c ph = (c2, .done r2)) : c1 = c2 ∧ r1 = r2 := by
  have a := run_stable T af failAt startLoc h1 (max n m) (Nat.le_max_left _ _)
  have b := run_stable T af failAt startLoc h2 (max n m) (Nat.le_max_right _ _)
  rw [a] at b
  simp only [Prod.mk.injEq, Phase.done.injEq] at b
  exact b

/-- `(c, ph)` reaches `(c', ph')` in some number of steps -/
def Reach (x y : Cfg × Phase) : Prop := ∃ n, run T af failAt startLoc n x.1 x.2 = y

theorem Reach.refl (x : Cfg × Phase) : Reach T af failAt startLoc x x := ⟨0, by simp [run]⟩

theorem Reach.trans {x y z : Cfg × Phase} (h1 : Reach T af failAt startLoc x y)
    (h2 : Reach T af failAt startLoc y z) : Reach T af failAt startLoc x z := by
  obtain ⟨n, hn⟩ := h1
  obtain ⟨m, hm⟩ := h2
  exact ⟨n + m, by rw [run_add, hn, hm]⟩

theorem Reach.step {c c' : Cfg} {ph ph' : Phase} (h : step T af failAt startLoc c ph = (c', ph')) :
    Reach T af failAt startLoc (c, ph) (c', ph') :=
  ⟨1, by rw [run_succ, h]; simp [run]⟩

end

/-- no action can be made to fail: either no failure is requested or no production is fallible -/
def NoFail (T : Tables) (failAt : Option Nat) : Prop :=
  failAt = none ∨ ∀ b ∈ T.fallible, b = false

theorem NoFail.cond {T : Tables} {failAt : Option Nat} (hf : NoFail T failAt) {p : Nat} {fal : Bool}
    (h : T.fallible[p]? = some fal) (k : Nat) : (fal && failAt == some k) = false := by
  rcases hf with rfl | hf
  · simp
  · simp [hf fal (List.mem_of_getElem? h)]

section
variable (T : Tables) (af : Nat) (failAt : Option Nat) (startLoc : Int)

theorem step_pull_C (c : Cfg) (v : List Tok) (hin : c.input = v.map Item.tok) (hv : AllK v) :
    ∃ c' ph', step T af failAt startLoc c .pull = (c', ph') ∧ Rdy c' ph' v ∧
      c'.states = c.states ∧ c'.symbols = c.symbols ∧ c'.pulled = c.pulled + 1 ∧
      c'.trace = c.trace ∧ c'.acts = c.acts := by
  cases v with
  | nil =>
    simp at hin
    refine ⟨{ c with pulled := c.pulled + 1 }, .eof, ?_, ?_⟩
    · simp [step, nextToken, hin]
    · simp [Rdy, hin]
  | cons a rest =>
    obtain ⟨k, hk⟩ := hv a (by simp)
    simp at hin
    refine ⟨{ c with input := rest.map Item.tok, pulled := c.pulled + 1, lastLoc := a.r }, .act a k, ?_, ?_⟩
    · simp [step, nextToken, hin, hk]
    · simp [Rdy, hk]

theorem asShift_pos {a : Int} (h : a > 0) : asShift a = some (a - 1).toNat := by simp [asShift, h]
theorem asShift_neg (p : Nat) : asShift (-((p : Int) + 1)) = none := by
  simp [asShift]; omega
theorem asReduce_neg (p : Nat) : asReduce (-((p : Int) + 1)) = some p := by
  simp [asReduce]; omega

theorem step_shift (c : Cfg) (ph : Phase) (a : Tok) (v : List Tok) (k : Term) (top : Nat) (sts : List Nat) (act : Int)
    (hr : Rdy c ph (a :: v)) (hk : a.kind = some k) (hst : c.states = top :: sts)
    (hact : T.actionAt top k = some act) (hpos : act > 0) :
    ∃ c', step T af failAt startLoc c ph = (c', .pull) ∧ c'.input = v.map Item.tok ∧
      c'.states = (act - 1).toNat :: c.states ∧ c'.symbols = (a.l, Tree.leaf a, a.r) :: c.symbols ∧
      c'.pulled = c.pulled ∧ c'.trace = c.trace ∧ c'.acts = c.acts := by
  obtain ⟨k', hk', rfl, hin⟩ := hr
  rw [hk] at hk'; cases hk'
  refine ⟨{ c with states := (act - 1).toNat :: c.states, symbols := (a.l, Tree.leaf a, a.r) :: c.symbols }, ?_, ?_⟩
  · simp [step, hst, hact, asShift_pos hpos]
  · simp [hin]

theorem reduce_continue (hf : NoFail T failAt) (c : Cfg) (p n A : Nat) (fal : Bool) (laS : Option Int)
    (h1 : T.prodLen[p]? = some n) (h2 : T.prodLhs[p]? = some A) (h3 : T.isStart[p]? = some false)
    (h4 : T.fallible[p]? = some fal) (hlen : n ≤ c.symbols.length)
    (below : Nat) (more : List Nat) (hst : c.states.drop n = below :: more) :
    ∃ c' l r, reduce T failAt startLoc c p laS = .continue_ c' ∧
      c'.states = T.gotoAt below A :: below :: more ∧
      c'.symbols = (l, Tree.node p l r (Forest.ofList ((c.symbols.take n).reverse.map (·.2.1))), r) :: c.symbols.drop n ∧
      c'.input = c.input ∧ c'.pulled = c.pulled ∧ c'.trace = p :: c.trace ∧ c'.acts = c.acts + 1 := by
  have hsl : ¬ c.states.length < n := by
    intro h
    have : c.states.drop n = [] := List.drop_eq_nil_iff.mpr (by omega)
    rw [this] at hst; cases hst
  unfold reduce
  simp only [h1, h2, h3, h4]
  rw [if_neg (by omega)]
  simp [hsl, hst, hf.cond h4]


/-- a reduction by a non-start production in a ready configuration -/
theorem step_reduce (hf : NoFail T failAt) (c : Cfg) (ph : Phase) (v : List Tok) (top : Nat) (sts : List Nat)
    (p n A : Nat) (fal : Bool)
    (hr : Rdy c ph v) (hst : c.states = top :: sts)
    (hact : actionFor T top (laOf v) = some (-((p : Int) + 1)))
    (h1 : T.prodLen[p]? = some n) (h2 : T.prodLhs[p]? = some A) (h3 : T.isStart[p]? = some false)
    (h4 : T.fallible[p]? = some fal) (hlen : n ≤ c.symbols.length)
    (below : Nat) (more : List Nat) (hdrop : c.states.drop n = below :: more) :
    ∃ c' l r, step T af failAt startLoc c ph = (c', ph) ∧ Rdy c' ph v ∧
      c'.states = T.gotoAt below A :: below :: more ∧
      c'.symbols = (l, Tree.node p l r (Forest.ofList ((c.symbols.take n).reverse.map (·.2.1))), r) :: c.symbols.drop n ∧
      c'.pulled = c.pulled ∧ c'.trace = p :: c.trace ∧ c'.acts = c.acts + 1 := by
  cases v with
  | nil =>
    obtain ⟨rfl, hin⟩ := hr
    obtain ⟨c', l, r, hred, e1, e2, e3, e4, e5, e6⟩ :=
      reduce_continue T failAt startLoc hf c p n A fal none h1 h2 h3 h4 hlen below more hdrop
    simp only [actionFor, laOf] at hact
    refine ⟨c', l, r, ?_, ?_, e1, e2, e4, e5, e6⟩
    · simp only [step, hst, hact, asReduce_neg]
      rw [hred]
    · simp [Rdy, e3, hin]
  | cons a rest =>
    obtain ⟨k, hk, rfl, hin⟩ := hr
    obtain ⟨c', l, r, hred, e1, e2, e3, e4, e5, e6⟩ :=
      reduce_continue T failAt startLoc hf c p n A fal (some a.l) h1 h2 h3 h4 hlen below more hdrop
    simp only [actionFor, laOf, hk] at hact
    refine ⟨c', l, r, ?_, ?_, e1, e2, e4, e5, e6⟩
    · simp only [step, hst, hact, asReduce_neg, asShift_neg]
      rw [hred]
    · simp [Rdy, e3, hin, hk]

/-- the accepting step: the start production is reduced at EOF with one symbol on the stack -/
theorem step_accept (hf : NoFail T failAt) (c : Cfg) (top : Nat) (sts : List Nat) (p A : Nat) (fal : Bool) (x : SymTriple)
    (hst : c.states = top :: sts) (hact : T.eofActionAt top = some (-((p : Int) + 1)))
    (h1 : T.prodLen[p]? = some 1) (h2 : T.prodLhs[p]? = some A) (h3 : T.isStart[p]? = some true)
    (h4 : T.fallible[p]? = some fal) (hsym : c.symbols = [x]) :
    ∃ c', step T af failAt startLoc c .eof = (c', .done (.ok x.2.1)) ∧
      c'.pulled = c.pulled ∧ c'.trace = p :: c.trace ∧ c'.acts = c.acts + 1 := by
  refine ⟨{ c with acts := c.acts + 1, trace := p :: c.trace, symbols := [] }, ?_, rfl, rfl, rfl⟩
  simp [step, hst, hact, asReduce_neg, reduce, h1, h2, h3, h4, hsym, hf.cond h4]

end
end LalrpopModel.LR
