import LalrpopModel.Lemmas.PrecAnnot
/-!
The tiered grammar the book describes, written declaratively (`tiered`), and the lemmas that
relate the tier loop of `expand_nonterm` to it.
-/
namespace LalrpopModel.Prec
open LalrpopModel.PT

/-! ### `sort_unstable(); dedup()` = the strictly ascending list of the distinct levels -/

theorem mem_insertLvl (x y : Nat) (l : List Nat) : y ∈ insertLvl x l ↔ y = x ∨ y ∈ l := by
  induction l with
  | nil => simp [insertLvl]
  | cons z zs ih =>
    simp only [insertLvl]
    split
    · simp
    · split
      · rename_i h1 h2; subst h2; simp
      · simp only [List.mem_cons, ih]
        constructor
        · rintro (h | h | h) <;> simp [h]
        · rintro (h | h | h) <;> simp [h]

theorem insertLvl_sorted (x : Nat) (l : List Nat) (h : l.Pairwise (· < ·)) :
    (insertLvl x l).Pairwise (· < ·) := by
  induction l with
  | nil => simp [insertLvl]
  | cons z zs ih =>
    simp only [insertLvl]
    have hz := List.pairwise_cons.mp h
    split
    · rename_i hlt
      refine List.pairwise_cons.mpr ⟨?_, h⟩
      intro a ha
      simp only [List.mem_cons] at ha
      cases ha with
      | inl e => omega
      | inr m => have := hz.1 a m; omega
    · split
      · exact h
      · rename_i h1 h2
        refine List.pairwise_cons.mpr ⟨?_, ih hz.2⟩
        intro a ha
        rw [mem_insertLvl] at ha
        cases ha with
        | inl e => omega
        | inr m => exact hz.1 a m

theorem mem_sortDedup (y : Nat) (l : List Nat) : y ∈ sortDedup l ↔ y ∈ l := by
  induction l with
  | nil => simp [sortDedup]
  | cons x xs ih => simp [sortDedup, mem_insertLvl, ih]

theorem sortDedup_sorted (l : List Nat) : (sortDedup l).Pairwise (· < ·) := by
  induction l with
  | nil => simp [sortDedup]
  | cons x xs ih => exact insertLvl_sorted x _ ih

/-! ### the documented tiers -/

/-- which symbol occurrence number `k` (of `n`) of the recursive nonterminal becomes: `left`: the
    first stays on the current level, the others go to the previous one; `right`: the last stays;
    `none`: all go to the previous level; `all`: all stay.  (`prev` is absent only on the lowest
    level, where only `all` is legal; the default is never used then.) -/
def assocPlan (assoc : Assoc) (cur : Sym) (prev : Option Sym) (n : Nat) (k : Nat) : Sym :=
  match assoc with
  | .left => if k = 0 then cur else prev.getD cur
  | .right => if k + 1 = n then cur else prev.getD cur
  | .nonAssoc => prev.getD cur
  | .fullyAssoc => cur

/-- an alternative of a tier: recursive occurrences substituted according to its associativity -/
def tierAlt (target : Str) (cur : Sym) (prev : Option Sym) (a : Ann) : Alt :=
  { a.alt with expr := substAtL target (assocPlan a.assoc cur prev (occL target a.alt.expr)) 0 a.alt.expr }

/-- the tier of level `l` whose predecessor is `prev` -/
def tierOf (nt : Nonterm) (anns : List Ann) (lvlMax : Nat) (prev : Option Nat) (l : Nat) : Nonterm :=
  let name := tierName nt.name lvlMax l
  let prevS := prevSym nt.name prev
  { nt with
    name := name,
    alts := (anns.filter (fun a => a.lvl = l)).map (tierAlt nt.name (.nonterminal name) prevS)
              ++ fallthrough prevS }

/-- consecutive pairs `(none, l₀), (some l₀, l₁), …` -/
def tierPairs (prev : Option Nat) : List Nat → List (Option Nat × Nat)
  | [] => []
  | l :: ls => (prev, l) :: tierPairs (some l) ls

/-- the documented expansion: levels ascending, one nonterminal per level -/
def tiered (nt : Nonterm) (anns : List Ann) : List Nonterm :=
  let lvls := sortDedup (anns.map (·.lvl))
  let lvlMax := (lvls.getLast?).getD 0
  (tierPairs none lvls).map fun pl => tierOf nt anns lvlMax pl.1 pl.2

/-! ### the substitution loop -/

theorem replaceNonterm_spec (target : Str) (cur : Sym) (prev : Option Sym) (a : Ann)
    (hamb : noAmbigL a.alt.expr = true) (hprev : prev = none → a.assoc = .fullyAssoc) :
    (match substFor a.assoc cur prev with
     | .error p => (.error p : R Alt)
     | .ok (subst, dir) => replaceNonterm a.alt target subst dir) = .ok (tierAlt target cur prev a) := by
  unfold tierAlt
  cases hassoc : a.assoc with
  | left =>
    cases prev with
    | none => simp [hassoc] at hprev
    | some p =>
      simp only [substFor, replaceNonterm, replaceSymbols]
      rw [replaceFwd_fwd target _ 0 _ hamb]
      simp only []
      congr 2
      apply substAtL_congr
      intro i _ _
      cases i <;> simp [Subst.pick, assocPlan]
  | right =>
    cases prev with
    | none => simp [hassoc] at hprev
    | some p =>
      simp only [substFor, replaceNonterm, replaceSymbols]
      rw [replaceBwd_bwd target _ 0 _ hamb]
      simp only []
      congr 2
      apply substAtL_congr
      intro i _ h2
      simp only [assocPlan, Option.getD_some]
      generalize hm : 0 + occL target a.alt.expr - 1 - i = m
      by_cases hi : i + 1 = occL target a.alt.expr
      · have : m = 0 := by omega
        subst this
        simp [hi, Subst.pick]
      · cases m with
        | zero => omega
        | succ j => simp [hi, Subst.pick]
  | nonAssoc =>
    cases prev with
    | none => simp [hassoc] at hprev
    | some p =>
      simp only [substFor, replaceNonterm, replaceSymbols]
      rw [replaceFwd_fwd target _ 0 _ hamb]
      simp only []
      congr 2
  | fullyAssoc =>
    simp only [substFor, replaceNonterm, replaceSymbols]
    rw [replaceFwd_fwd target _ 0 _ hamb]
    simp only []
    congr 2

theorem substAlts_spec (target : Str) (cur : Sym) (prev : Option Sym) (as : List Ann)
    (hamb : ∀ a ∈ as, noAmbigL a.alt.expr = true) (hprev : prev = none → ∀ a ∈ as, a.assoc = .fullyAssoc) :
    substAlts target cur prev as = .ok (as.map (tierAlt target cur prev)) := by
  induction as with
  | nil => rfl
  | cons a as ih =>
    have h1 := replaceNonterm_spec target cur prev a (hamb a (by simp)) (fun h => hprev h a (by simp))
    have h2 := ih (fun x hx => hamb x (by simp [hx])) (fun h x hx => hprev h x (by simp [hx]))
    simp only [substAlts]
    cases hs : substFor a.assoc cur prev with
    | error p => simp [hs] at h1
    | ok sd =>
      obtain ⟨subst, dir⟩ := sd
      simp only [hs] at h1
      simp only [h1, h2, List.map_cons]

/-! ### the tier loop -/

theorem prevSym_none_iff (name : Str) (prev : Option Nat) : prevSym name prev = none ↔ prev = none := by
  cases prev <;> simp [prevSym]

theorem expandTiers_spec (nt : Nonterm) (anns : List Ann) (lvlMax : Nat)
    (hamb : ∀ a ∈ anns, noAmbigL a.alt.expr = true) :
    ∀ (lvls : List Nat) (prev : Option Nat) (rest : List Ann),
      lvls.Pairwise (· < ·) →
      (∀ l ∈ lvls, rest.filter (fun a => a.lvl = l) = anns.filter (fun a => a.lvl = l)) →
      (∀ a ∈ rest, a.lvl ∈ lvls) →
      (prev = none → ∀ l, lvls.head? = some l → ∀ a ∈ anns, a.lvl = l → a.assoc = .fullyAssoc) →
      expandTiers nt lvlMax prev lvls rest =
        .ok ((tierPairs prev lvls).map (fun pl => tierOf nt anns lvlMax pl.1 pl.2), []) := by
  intro lvls
  induction lvls with
  | nil =>
    intro prev rest _ _ h3 _
    have : rest = [] := by
      cases rest with
      | nil => rfl
      | cons a as => exact absurd (h3 a (by simp)) (by simp)
    simp [expandTiers, tierPairs, this]
  | cons l ls ih =>
    intro prev rest h1 h2 h3 h4
    have hp := List.pairwise_cons.mp h1
    simp only [expandTiers, expandTier, tierPairs, List.map_cons]
    rw [h2 l (by simp)]
    rw [substAlts_spec nt.name _ (prevSym nt.name prev) _
      (fun a ha => hamb a (List.mem_filter.mp ha).1)
      (fun hn a ha => by
        have hm := List.mem_filter.mp ha
        exact h4 ((prevSym_none_iff _ _).mp hn) l (by simp) a hm.1 (by simpa using hm.2))]
    simp only []
    rw [ih (some l) _ hp.2 ?_ ?_ (by simp)]
    · rfl
    · intro l' hl'
      rw [List.filter_filter, ← h2 l' (by simp [hl'])]
      congr 1
      funext a
      have : l < l' := hp.1 l' hl'
      by_cases e : a.lvl = l' <;> simp [e] <;> omega
    · intro a ha
      have hm := List.mem_filter.mp ha
      have := h3 a hm.1
      simp only [List.mem_cons] at this
      cases this with
      | inl e => simp [e] at hm
      | inr m => exact m

theorem head_le_of_sorted (l : Nat) (ls : List Nat) (h : (l :: ls).Pairwise (· < ·)) :
    ∀ x ∈ l :: ls, l ≤ x := by
  intro x hx
  simp only [List.mem_cons] at hx
  cases hx with
  | inl e => omega
  | inr m => exact Nat.le_of_lt ((List.pairwise_cons.mp h).1 x m)

/-- `expand_nonterm` computes the documented tiers whenever it does not panic for one of the
    modelled reasons: annotations readable, no ambiguous id, only `all` on the lowest level -/
theorem expandNonterm_eq_tiered (nt : Nonterm) (anns : List Ann)
    (hann : annotate 0 .fullyAssoc nt.alts = .ok anns) (hne : anns ≠ [])
    (hamb : ∀ a ∈ anns, noAmbigL a.alt.expr = true)
    (hfirst : ∀ a ∈ anns, (∀ b ∈ anns, a.lvl ≤ b.lvl) → a.assoc = .fullyAssoc) :
    expandNonterm nt = .ok (tiered nt anns) := by
  unfold expandNonterm tiered
  simp only [hann]
  have hsorted := sortDedup_sorted (anns.map (·.lvl))
  have hmem : ∀ a ∈ anns, a.lvl ∈ sortDedup (anns.map (·.lvl)) := by
    intro a ha
    rw [mem_sortDedup]
    exact List.mem_map.mpr ⟨a, ha, rfl⟩
  cases hl : sortDedup (anns.map (·.lvl)) with
  | nil =>
    cases anns with
    | nil => exact absurd rfl hne
    | cons a as => have := hmem a (by simp); rw [hl] at this; simp at this
  | cons l ls =>
    have hlast : (l :: ls).getLast? = some ((l :: ls).getLast (by simp)) := List.getLast?_eq_some_getLast (by simp)
    rw [hlast]
    simp only [Option.getD_some]
    rw [expandTiers_spec nt anns _ hamb (l :: ls) none anns (hl ▸ hsorted) (fun _ _ => rfl)
      (fun a ha => hl ▸ hmem a ha) ?_]
    · simp
    · intro _ l0 h0 a ha hal
      simp only [List.head?_cons, Option.some.injEq] at h0
      apply hfirst a ha
      intro b hb
      have := head_le_of_sorted l ls (hl ▸ hsorted) b.lvl (hl ▸ hmem b hb)
      omega

end LalrpopModel.Prec
