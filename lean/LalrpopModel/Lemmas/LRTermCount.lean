import LalrpopModel.Lemmas.LRGenericBasic
import LalrpopModel.Lemmas.LRSoundBasic
/-!
C08, exact step count (arbitrary tables, error recovery off): every machine step before the final
one is one `tokens.next()`, one shift or one reduction, so at every non-final configuration
`n = pulled + acts + |tokens on the stack|` (`count_of_run`), and an accepting run takes exactly
`pulled + acts + |yield of the result| + |tokens left on the stack|` steps (`accept_count`).
-/
namespace LalrpopModel.LR.Term
open LalrpopModel.LR LalrpopModel.LR.Generic

variable {T : Tables} {af : Nat} {failAt : Option Nat} {startLoc : Int}

def CountInv (n : Nat) (c : Cfg) : Phase → Prop
  | .done _ => True
  | .recReduce _ _ _ => False
  | .recFind _ _ _ _ _ => False
  | _ => n = c.pulled + c.acts + (stackYield c.symbols).length

/-- the new symbol of a reduction covers exactly the tokens of the symbols it replaces -/
theorem stackYield_pushCfg (c : Cfg) (p n : Nat) (ls : Option Int) :
    stackYield (pushCfg startLoc c p n ls).symbols = stackYield c.symbols := by
  show stackYield (reduceSym startLoc c p n ls :: c.symbols.drop n) = _
  simp only [stackYield, reduceSym, Tree.yield]
  rw [yield_ofList_reverse, ← stackYield_take_drop]

theorem CountInv.step (hrec : T.usesRecovery = false) {n : Nat} {c c' : Cfg} {ph ph' : Phase}
    (h : CountInv n c ph) (hs : Step T af failAt startLoc c ph c' ph') : CountInv (n + 1) c' ph' := by
  cases hs with
  | done r => trivial
  | panic _ tag _ => trivial
  | pull _ nt hn =>
    cases hn with
    | eof _ => simp only [pullK, CountInv] at h ⊢; omega
    | err e rest _ => trivial
    | found t i rest _ _ => simp only [pullK, CountInv, pullTokCfg] at h ⊢; omega
    | unrec t rest _ _ ex _ => trivial
    | panic t rest _ _ tag => trivial
  | shift la idx top rest a target _ _ _ =>
    simp only [CountInv, stackYield, Tree.yield, List.length_append, List.length_cons,
      List.length_nil] at h ⊢
    omega
  | redCont _ p ls _ hctx hr =>
    cases hr with
    | cont n' A hn hlen hnf hlhs hst below more hd =>
      have hy := stackYield_pushCfg (startLoc := startLoc) c p n' ls
      cases ph with
      | act la idx =>
        simp only [CountInv] at h ⊢
        show n + 1 = c.pulled + (c.acts + 1) + (stackYield (pushCfg startLoc c p n' ls).symbols).length
        rw [hy]; omega
      | eof =>
        simp only [CountInv] at h ⊢
        show n + 1 = c.pulled + (c.acts + 1) + (stackYield (pushCfg startLoc c p n' ls).symbols).length
        rw [hy]; omega
      | recReduce _ _ _ => exact h.elim
      | recFind _ _ _ _ _ => exact h.elim
      | pull => exact hctx.elim
      | done r => exact hctx.elim
  | redFin _ p ls _ r _ _ => trivial
  | enterNoRec _ la fe ex _ _ _ => trivial
  | enterRec _ la fe ex _ _ hr => rw [hrec] at hr; cases hr
  | toFind la e fe top rest a _ _ _ => exact h.elim
  | push la e dropped sl fe top _ _ _ _ => exact h.elim
  | giveUp e dropped sl fe _ => exact h.elim
  | drop t i e dropped sl fe _ _ nt _ => exact h.elim

theorem count_run (hrec : T.usesRecovery = false) (input : List Item) (n : Nat) :
    CountInv n (run T af failAt startLoc n (init startLoc input) .pull).1
      (run T af failAt startLoc n (init startLoc input) .pull).2 := by
  induction n with
  | zero => simp [CountInv, init, stackYield]
  | succ n ih =>
    rw [run_succ']
    exact ih.step hrec (step_spec T af failAt startLoc _ _)

/-- at every non-final configuration of a run without error recovery, the number of machine steps
    so far is `pulled + acts +` the number of tokens on the stack -/
theorem count_of_run (hrec : T.usesRecovery = false) {input : List Item} {n : Nat} {c : Cfg} {ph : Phase}
    (hrun : run T af failAt startLoc n (init startLoc input) .pull = (c, ph)) (hnd : phDone ph = false) :
    n = c.pulled + c.acts + (stackYield c.symbols).length := by
  have h := count_run (T := T) (af := af) (failAt := failAt) (startLoc := startLoc) hrec input n
  rw [hrun] at h
  cases ph with
  | done r => simp [phDone] at hnd
  | pull => exact h
  | eof => exact h
  | act _ _ => exact h
  | recReduce _ _ _ => exact h.elim
  | recFind _ _ _ _ _ => exact h.elim

/-- the last step of an accepting run: the reduction of the start production in `parse_eof` -/
theorem accept_step {c1 c : Cfg} {ph1 : Phase} {v : Tree} (hrec : T.usesRecovery = false)
    (hs : Step T af failAt startLoc c1 ph1 c (.done (.ok v))) (hnd : phDone ph1 = false) :
    c.pulled = c1.pulled ∧ c.acts = c1.acts + 1 ∧
      (stackYield c1.symbols).length = v.yield.length + (stackYield c.symbols).length := by
  generalize hph : Phase.done (Outcome.ok v) = ph' at hs
  cases hs with
  | done r => simp [phDone] at hnd
  | panic _ tag _ => cases hph
  | pull _ nt hn =>
    cases hn with
    | eof _ => cases hph
    | err e rest _ => cases hph
    | found t i rest _ _ => cases hph
    | unrec t rest _ _ ex _ => cases hph
    | panic t rest _ _ tag => cases hph
  | shift la idx top rest a target _ _ _ => cases hph
  | redCont _ p ls _ hctx hr => subst hph; simp [phDone] at hnd
  | redFin _ p ls _ r hctx hr =>
    cases hr with
    | bad tag => cases ph1 <;> cases hph
    | fail n' _ _ _ _ => cases ph1 <;> cases hph
    | badStart n' _ _ _ => cases ph1 <;> cases hph
    | pushedPanic n' _ _ _ tag => cases ph1 <;> cases hph
    | accept n' hn hlen hnf hst k hk =>
      have hv : v = k.2.1 := by
        cases ph1 with
        | act _ _ => cases hph
        | eof => simp only [finOutcome] at hph; cases hph; rfl
        | pull => exact hctx.elim
        | done r => exact hctx.elim
        | recReduce _ _ _ => simp only [finOutcome] at hph; cases hph; rfl
        | recFind _ _ _ _ _ => exact hctx.elim
      subst hv
      refine ⟨rfl, rfl, ?_⟩
      show (stackYield c1.symbols).length = _ + (stackYield (c1.symbols.drop n')).length
      rw [stackYield_take_drop n' c1.symbols, hk]
      simp [stackYield]
      omega
  | enterNoRec _ la fe ex _ _ _ => cases hph
  | enterRec _ la fe ex _ _ hr => rw [hrec] at hr; cases hr
  | toFind la e fe top rest a _ _ _ => cases hph
  | push la e dropped sl fe top _ _ _ hp =>
    cases hp with
    | panic tag => cases hph
    | ok l r _ _ rs rest _ a _ es _ =>
      cases la with
      | none => simp [afterPh] at hph
      | some ti => cases fe <;> simp [afterPh] at hph
  | giveUp e dropped sl fe _ => cases hph
  | drop t i e dropped sl fe _ _ nt hn => cases hn <;> cases hph

/-- an accepting run without error recovery reaches `.done` after exactly
    `pulled + acts + |yield of the result| + |tokens left on the stack|` steps -/
theorem accept_count (hrec : T.usesRecovery = false) {input : List Item} {n : Nat} {c : Cfg} {v : Tree}
    (hrun : run T af failAt startLoc n (init startLoc input) .pull = (c, .done (.ok v))) :
    ∃ k, k + 1 ≤ n ∧
      phDone (run T af failAt startLoc k (init startLoc input) .pull).2 = false ∧
      run T af failAt startLoc (k + 1) (init startLoc input) .pull = (c, .done (.ok v)) ∧
      k + 1 = c.pulled + c.acts + v.yield.length + (stackYield c.symbols).length := by
  obtain ⟨k, c1, ph1, hk, hrun1, hnd, hstep⟩ := last_step T af failAt startLoc hrun rfl
  have hcount := count_of_run hrec hrun1 hnd
  have hs : Step T af failAt startLoc c1 ph1 c (.done (.ok v)) := by
    have := step_spec T af failAt startLoc c1 ph1
    rw [hstep] at this
    exact this
  obtain ⟨h1, h2, h3⟩ := accept_step hrec hs hnd
  refine ⟨k, hk, by rw [hrun1]; exact hnd, by rw [run_succ', hrun1]; exact hstep, ?_⟩
  omega

end LalrpopModel.LR.Term
