import LalrpopModel.Lemmas.InlineLang
import LalrpopModel.Lemmas.InlineOrder
/-!
From one inlining step to the whole pass: instances of the substitution lemma for the real
meaning of the action functions and for plain derivations, preservation of well-formedness, and
the induction over the inline order.
-/
set_option linter.unusedSectionVars false

namespace LalrpopModel.Inline

variable {N T X : Type} [DecidableEq N] [DecidableEq T] {E V : Type}

theorem WF.action_lt {g : Grammar N T X} (hwf : WF g) {n : N} {p : Production N T}
    (hp : p ∈ g.productionsFor n) : p.action < g.actions.length := by
  obtain ⟨d, hd, _, hpd⟩ := productionsFor_mem hp
  exact hwf.actions_in_range d hd p hpd

/-- the composed action: temporaries (inlined actions on their slices, left to right, first
    failure wins), then the host action -/
theorem semOf_new_action (g g' : Grammar N T X) (hwf : WF g) (inl : N) (extra : List (Defn N T X))
    (hacts : g'.actions = g.actions ++ extra) (I : Sem E V)
    {n : N} {p : Production N T} (hp : p ∈ g.productionsFor n)
    {c : List (InlinedSymbol N T)} (hc : c ∈ choices inl (g.productionsFor inl) p.symbols)
    {idx : Nat} (hidx : g.actions.length ≤ idx) (hdef : IsInlineOf g'.actions idx p.action c)
    (args : List V) :
    semOf g'.actions I idx args =
      (composeArgs (semOf g.actions I) c args).bind (semOf g.actions I p.action) := by
  obtain ⟨d, hd, hk⟩ := hdef
  have hlt : idx < g'.actions.length := by
    rcases Nat.lt_or_ge idx g'.actions.length with h | h
    · exact h
    · rw [List.getElem?_eq_none h] at hd; cases hd
  rw [semOf_inline g'.actions I idx d p.action c hd hk, runInline_eq_compose]
  have hold : ∀ j, j < g.actions.length → semUpTo g'.actions I idx j = semOf g.actions I j := by
    intro j hj
    rw [semUpTo_eq_semOf g'.actions I idx j (by omega) (by omega), hacts, semOf_append_old _ _ _ _ hj]
  rw [hold p.action (hwf.action_lt hp)]
  congr 1
  apply composeArgs_congr
  intro act ss hm
  obtain ⟨ip, hip, rfl, _⟩ := choices_inlined_mem hc hm
  exact hold ip.action (hwf.action_lt hip)

/-- **one step, values** -/
theorem inlineNt_eval (g : Grammar N T X) (hwf : WF g) (inl : N)
    (hself : ∀ ip ∈ g.productionsFor inl, Symbol.nt inl ∉ ip.symbols)
    (g' : Grammar N T X) (h : inlineNt g inl = some g') (I : Sem E V) (tv : T → V)
    (ss : List (Symbol N T)) (w : List T) (vs : List V) :
    Eval g (semOf g.actions I) tv ss w vs ↔ Eval g' (semOf g'.actions I) tv ss w vs := by
  obtain ⟨g'', extra, h1, hacts, hrel⟩ := inlineNt_spec g hwf inl
  rw [h] at h1; cases h1
  have hrel' := fun n => inlineNt_productionsFor hrel n
  have hold : ∀ n, ∀ p ∈ g.productionsFor n, semOf g'.actions I p.action = semOf g.actions I p.action :=
    fun n p hp => by rw [hacts, semOf_append_old _ _ _ _ (hwf.action_lt hp)]
  have hnew : ∀ n, ∀ p ∈ g.productionsFor n, ∀ c ∈ choices inl (g.productionsFor inl) p.symbols,
      ∀ idx args, g.actions.length ≤ idx → IsInlineOf g'.actions idx p.action c →
      args.length = (c.flatMap InlinedSymbol.flat).length →
      semOf g'.actions I idx args =
        (composeArgs (semOf g.actions I) c args).bind (semOf g.actions I p.action) :=
    fun n p hp c hc idx args hidx hdef _ => semOf_new_action g g' hwf inl extra hacts I hp hc hidx hdef args
  exact ⟨step_eval_fwd g g' inl _ _ _ tv hrel' hself hold hnew,
    step_eval_bwd g g' inl _ _ _ tv hrel' hself hold hnew⟩

/-- **one step, language** -/
theorem inlineNt_derives (g : Grammar N T X) (hwf : WF g) (inl : N)
    (hself : ∀ ip ∈ g.productionsFor inl, Symbol.nt inl ∉ ip.symbols)
    (g' : Grammar N T X) (h : inlineNt g inl = some g')
    (ss : List (Symbol N T)) (w : List T) : Derives g ss w ↔ Derives g' ss w := by
  obtain ⟨g'', extra, h1, hacts, hrel⟩ := inlineNt_spec g hwf inl
  rw [h] at h1; cases h1
  have hrel' := fun n => inlineNt_productionsFor hrel n
  have hnew : ∀ n, ∀ p ∈ g.productionsFor n, ∀ c ∈ choices inl (g.productionsFor inl) p.symbols,
      ∀ idx (args : List Unit), g.actions.length ≤ idx → IsInlineOf g'.actions idx p.action c →
      args.length = (c.flatMap InlinedSymbol.flat).length →
      okSem idx args = (composeArgs okSem c args).bind (okSem p.action) := by
    intro n p _ c _ idx args _ _ hlen
    obtain ⟨r, hr⟩ := composeArgs_okSem c args hlen
    rw [hr]; rfl
  rw [derives_iff_eval, derives_iff_eval]
  constructor
  · rintro ⟨vs, hv⟩
    exact ⟨vs, step_eval_fwd g g' inl _ okSem okSem _ hrel' hself (fun _ _ _ => rfl) hnew hv⟩
  · rintro ⟨vs, hv⟩
    exact ⟨vs, step_eval_bwd g g' inl _ okSem okSem _ hrel' hself (fun _ _ _ => rfl) hnew hv⟩

/-! ### preservation of well-formedness and of the "mentions" relation -/

theorem rel2_names {inl : N} {inlProds : List (Production N T)} {n0 : Nat} {acts : List (Defn N T X)}
    {ds ds' : List (NtData N T X)} (h : Rel2 (NtRel inl inlProds n0 acts) ds ds') :
    ds'.map (·.name) = ds.map (·.name) ∧ ds'.map (·.isInline) = ds.map (·.isInline) := by
  induction h with
  | nil => simp
  | cons h _ ih => simp [h.1, h.2.2.1, ih.1, ih.2]

theorem rel2_inlineNames {inl : N} {inlProds : List (Production N T)} {n0 : Nat}
    {acts : List (Defn N T X)} {ds ds' : List (NtData N T X)}
    (h : Rel2 (NtRel inl inlProds n0 acts) ds ds') :
    (ds'.filter (·.isInline)).map (·.name) = (ds.filter (·.isInline)).map (·.name) := by
  induction h with
  | nil => rfl
  | @cons d d' ds ds' hr _ ih =>
    simp only [List.filter_cons, hr.2.2.1]
    split <;> simp [hr.1, ih]

theorem rel2_mem {α β : Type} {R : α → β → Prop} {as : List α} {bs : List β} (h : Rel2 R as bs)
    {b : β} (hb : b ∈ bs) : ∃ a ∈ as, R a b := by
  induction h with
  | nil => cases hb
  | cons hr _ ih =>
    rcases List.mem_cons.mp hb with rfl | hb
    · exact ⟨_, List.mem_cons_self .., hr⟩
    · obtain ⟨a, ha, hr'⟩ := ih hb
      exact ⟨a, List.mem_cons_of_mem _ ha, hr'⟩

/-- productions are filed under their own nonterminal -/
def Filed (g : Grammar N T X) : Prop :=
  ∀ d ∈ g.nonterminals, ∀ p ∈ d.productions, p.nonterminal = d.name

theorem inlineNt_wf (g : Grammar N T X) (hwf : WF g) (inl : N) (g' : Grammar N T X)
    (h : inlineNt g inl = some g') : WF g' ∧ g'.inlineNames = g.inlineNames ∧ (Filed g → Filed g') := by
  obtain ⟨g'', extra, h1, hacts, hrel⟩ := inlineNt_spec g hwf inl
  rw [h] at h1; cases h1
  have hn := rel2_names hrel
  refine ⟨⟨?_, by rw [hn.1]; exact hwf.names_nodup⟩, ?_, ?_⟩
  · intro d' hd' p' hp'
    obtain ⟨d, hd, _, _, _, hstep⟩ := rel2_mem hrel hd'
    rcases hstep.back p' hp' with ⟨hp, _⟩ | ⟨p, _, _, c, _, _, _, _, ⟨e, he, _⟩⟩
    · have := hwf.actions_in_range d hd p' hp
      rw [hacts, List.length_append]; omega
    · rcases Nat.lt_or_ge p'.action g'.actions.length with h | h
      · exact h
      · rw [List.getElem?_eq_none h] at he; cases he
  · -- same names carry the attribute
    exact rel2_inlineNames hrel
  · intro hf d' hd' p' hp'
    obtain ⟨d, hd, hname, _, _, hstep⟩ := rel2_mem hrel hd'
    rcases hstep.back p' hp' with ⟨hp, _⟩ | ⟨p, hp, _, c, _, hnt, _⟩
    · rw [hname]; exact hf d hd p' hp
    · rw [hname, hnt]; exact hf d hd p hp

/-- the symbols of an expansion come from the host production or from a production of `inl` -/
theorem choices_symbols {inl : N} {inlProds : List (Production N T)} {syms : List (Symbol N T)}
    {c : List (InlinedSymbol N T)} (hc : c ∈ choices inl inlProds syms) {s : Symbol N T}
    (hs : s ∈ c.flatMap InlinedSymbol.flat) :
    (s ∈ syms ∧ s ≠ .nt inl) ∨ ∃ ip ∈ inlProds, s ∈ ip.symbols := by
  induction syms generalizing c with
  | nil => simp [choices] at hc; subst hc; simp at hs
  | cons s0 rest ih =>
    simp only [choices] at hc
    split at hc
    · simp only [List.mem_flatMap, List.mem_map] at hc
      obtain ⟨ip, hip, c0, hc0, rfl⟩ := hc
      simp only [List.flatMap_cons, InlinedSymbol.flat, List.mem_append] at hs
      rcases hs with hs | hs
      · exact .inr ⟨ip, hip, hs⟩
      · rcases ih hc0 hs with ⟨h1, h2⟩ | h
        · exact .inl ⟨List.mem_cons_of_mem _ h1, h2⟩
        · exact .inr h
    · rename_i hne
      simp only [List.mem_map] at hc
      obtain ⟨c0, hc0, rfl⟩ := hc
      simp only [List.flatMap_cons, InlinedSymbol.flat, List.mem_append, List.mem_singleton] at hs
      rcases hs with rfl | hs
      · exact .inl ⟨List.mem_cons_self .., hne⟩
      · rcases ih hc0 hs with ⟨h1, h2⟩ | h
        · exact .inl ⟨List.mem_cons_of_mem _ h1, h2⟩
        · exact .inr h

/-- "`x`'s productions mention the inline nonterminal `m`" stays within the reachability relation
    of the original inline graph -/
def MentionsWithin (names : List N) (adj : N → List N) (g : Grammar N T X) : Prop :=
  ∀ x ∈ names, ∀ p ∈ g.productionsFor x, ∀ m ∈ names, Symbol.nt m ∈ p.symbols → ReachP adj x m

theorem inlineNt_mentions (names : List N) (adj : N → List N) (g : Grammar N T X) (hwf : WF g)
    (inl : N) (hinl : inl ∈ names) (hm : MentionsWithin names adj g) (g' : Grammar N T X)
    (h : inlineNt g inl = some g') : MentionsWithin names adj g' := by
  obtain ⟨g'', extra, h1, hacts, hrel⟩ := inlineNt_spec g hwf inl
  rw [h] at h1; cases h1
  intro x hx p' hp' m hmn hmem
  rcases (inlineNt_productionsFor hrel x).back p' hp' with ⟨hp, _⟩ | ⟨p, hp, hin, c, hc, _, hsyms, _⟩
  · exact hm x hx p' hp m hmn hmem
  · rw [hsyms] at hmem
    rcases choices_symbols hc hmem with ⟨h1, _⟩ | ⟨ip, hip, h2⟩
    · exact hm x hx p hp m hmn h1
    · exact (hm x hx p hp inl hinl hin).trans (hm inl hinl ip hip m hmn h2)

/-- **the whole pass, given an admissible order**: every nonterminal of `order` is an inline
    node that does not reach itself in the graph `adj` bounding the "mentions" relation. -/
theorem inlineAll_spec (names : List N) (adj : N → List N) (order : List N) (g : Grammar N T X)
    (hwf : WF g) (hm : MentionsWithin names adj g)
    (hord : ∀ x ∈ order, x ∈ names ∧ ¬ ReachP adj x x) :
    ∃ g', inlineAll g order = some g' ∧ WF g' ∧
      (∀ (E V : Type) (I : Sem E V) (tv : T → V) ss w vs,
        Eval g (semOf g.actions I) tv ss w vs ↔ Eval g' (semOf g'.actions I) tv ss w vs) ∧
      (∀ ss w, Derives g ss w ↔ Derives g' ss w) := by
  induction order generalizing g with
  | nil => exact ⟨g, rfl, hwf, fun _ _ _ _ _ _ _ => Iff.rfl, fun _ _ => Iff.rfl⟩
  | cons x rest ih =>
    obtain ⟨hx, hxx⟩ := hord x (List.mem_cons_self ..)
    have hself : ∀ ip ∈ g.productionsFor x, Symbol.nt x ∉ ip.symbols :=
      fun ip hip hin => hxx (hm x hx ip hip x hx hin)
    obtain ⟨g1, extra, h1, _, _⟩ := inlineNt_spec g hwf x
    have hwf1 := (inlineNt_wf g hwf x g1 h1).1
    have hm1 := inlineNt_mentions names adj g hwf x hx hm g1 h1
    obtain ⟨g', h2, hwf', hev, hder⟩ := ih g1 hwf1 hm1 (fun y hy => hord y (List.mem_cons_of_mem _ hy))
    refine ⟨g', by simp [inlineAll, h1, h2], hwf', ?_, ?_⟩
    · intro E V I tv ss w vs
      exact (inlineNt_eval g hwf x hself g1 h1 I tv ss w vs).trans (hev E V I tv ss w vs)
    · intro ss w
      exact (inlineNt_derives g hwf x hself g1 h1 ss w).trans (hder ss w)

/-! ### the inline graph of a grammar -/

theorem neighbors_sub (g : Grammar N T X) (nodes : List N) (x y : N) (h : y ∈ neighbors g nodes x) :
    y ∈ nodes := by
  unfold neighbors at h
  split at h
  · simp only [List.mem_reverse, List.mem_flatMap, List.mem_filter, edgeTargets, List.mem_filterMap] at h
    obtain ⟨p, _, s, _, hs⟩ := h
    cases s with
    | term t => simp at hs
    | nt n =>
      simp only at hs
      split at hs
      · cases hs; assumption
      · cases hs
  · cases h

theorem mem_neighbors (g : Grammar N T X) (nodes : List N) {x y : N} (hx : x ∈ nodes) (hy : y ∈ nodes)
    {p : Production N T} (hp : p ∈ g.allProductions) (hpn : p.nonterminal = x)
    (hs : Symbol.nt y ∈ p.symbols) : y ∈ neighbors g nodes x := by
  unfold neighbors
  simp only [hx, if_true, List.mem_reverse, List.mem_flatMap, List.mem_filter, edgeTargets,
    List.mem_filterMap, decide_eq_true_eq]
  exact ⟨p, ⟨hp, hpn⟩, .nt y, hs, by simp [hy]⟩

/-- in a well-formed, filed grammar the "mentions" relation is the edge relation of the graph -/
theorem mentions_initial (g : Grammar N T X) (hf : Filed g) :
    MentionsWithin g.inlineNames (neighbors g g.inlineNames) g := by
  intro x hx p hp m hmn hmem
  obtain ⟨d, hd, hname, hpd⟩ := productionsFor_mem hp
  refine .edge (mem_neighbors g _ hx hmn (p := p) ?_ ?_ hmem)
  · exact List.mem_flatMap.mpr ⟨d, hd, hpd⟩
  · rw [hf d hd p hpd, hname]

end LalrpopModel.Inline
