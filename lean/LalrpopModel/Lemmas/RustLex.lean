import LalrpopModel.Model.Rw
/-! Lemmas about the Rust lexer transducer and the pieces `RustWrite` emits. -/
namespace LalrpopModel.RustLex

theorem run_append (m : Mode) (a b : List Char) : run m (a ++ b) = runOut m a ++ run (runMode m a) b := by
  induction a generalizing m with
  | nil => simp [runOut, runMode]
  | cons c cs ih => simp [run, runOut, runMode, ih, List.append_assoc]

theorem runOut_append (m : Mode) (a b : List Char) :
    runOut m (a ++ b) = runOut m a ++ runOut (runMode m a) b := by
  induction a generalizing m with
  | nil => simp [runOut, runMode]
  | cons c cs ih => simp [runOut, runMode, ih, List.append_assoc]

theorem runMode_append (m : Mode) (a b : List Char) : runMode m (a ++ b) = runMode (runMode m a) b := by
  induction a generalizing m with
  | nil => simp [runMode]
  | cons c cs ih => simp [runMode, ih]

/-- a piece of text that is lexed to `toks` on its own and leaves the lexer between tokens -/
def Neutral (piece : List Char) (toks : List RTok) : Prop :=
  runMode .normal piece = .normal ∧ runOut .normal piece = toks

theorem Neutral.nil : Neutral [] [] := ⟨rfl, rfl⟩

theorem Neutral.append {a b : List Char} {ta tb : List RTok} (ha : Neutral a ta) (hb : Neutral b tb) :
    Neutral (a ++ b) (ta ++ tb) := by
  obtain ⟨ha1, ha2⟩ := ha
  obtain ⟨hb1, hb2⟩ := hb
  exact ⟨by rw [runMode_append, ha1, hb1], by rw [runOut_append, ha1, ha2, hb2]⟩

theorem Neutral.lex {a : List Char} {ta : List RTok} (ha : Neutral a ta) (rest : List Char) :
    lexRust (a ++ rest) = ta ++ lexRust rest := by
  simp only [lexRust, run_append, ha.1, ha.2]

theorem Neutral.lex_all {a : List Char} {ta : List RTok} (ha : Neutral a ta) : lexRust a = ta := by
  have := ha.lex []
  simpa [lexRust, run, flush] using this

/-- blanks are skipped -/
theorem neutral_spaces (n : Nat) : Neutral (List.replicate n ' ') [] := by
  induction n with
  | zero => exact Neutral.nil
  | succ n ih =>
    obtain ⟨h1, h2⟩ := ih
    refine ⟨?_, ?_⟩
    · simpa [List.replicate_succ, runMode, step, step0, start, isWs] using h1
    · simpa [List.replicate_succ, runOut, runMode, step, step0, start, isWs] using h2

theorem neutral_newline : Neutral ['\n'] [] := by
  refine ⟨?_, ?_⟩ <;> simp [runMode, runOut, step, step0, start, isWs]

/-- the body of an ordinary line comment: what follows `//` is not `/` or `!` (doc comments are
    tokens) and contains no newline -/
def plainCommentBody (body : List Char) : Prop :=
  (∀ x ∈ body, x ≠ '\n') ∧ body.head? ≠ some '!' ∧ body.head? ≠ some '/'

theorem lineComment_run (body : List Char) (h : ∀ x ∈ body, x ≠ '\n') :
    runMode .lineComment (body ++ ['\n']) = .normal ∧ runOut .lineComment (body ++ ['\n']) = [] := by
  induction body with
  | nil => simp [runMode, runOut, step, step0]
  | cons c cs ih =>
    have hc : c ≠ '\n' := h c (by simp)
    obtain ⟨i1, i2⟩ := ih (fun x hx => h x (by simp [hx]))
    simp [runMode, runOut, step, step0, hc, i1, i2]

/-- `//body⏎` is skipped -/
theorem neutral_lineComment (body : List Char) (h : plainCommentBody body) :
    Neutral ('/' :: '/' :: (body ++ ['\n'])) [] := by
  obtain ⟨hn, hb, hs⟩ := h
  cases body with
  | nil => refine ⟨?_, ?_⟩ <;> simp [runMode, runOut, step, step0, start, isWs, isWordCh]
  | cons c cs =>
    have hc1 : c ≠ '\n' := hn c (by simp)
    have hc2 : c ≠ '!' := by simpa using hb
    have hc3 : c ≠ '/' := by simpa using hs
    obtain ⟨i1, i2⟩ := lineComment_run cs (fun x hx => hn x (by simp [hx]))
    refine ⟨?_, ?_⟩
    · simpa [runMode, step, step0, start, isWs, isWordCh, hc1, hc2, hc3] using i1
    · simpa [runOut, runMode, step, step0, start, isWs, isWordCh, hc1, hc2, hc3] using i2

/-- a line that is only a comment, possibly indented: `   // …` -/
def isCommentLine (s : List Char) : Prop :=
  ∃ n body, s = List.replicate n ' ' ++ '/' :: '/' :: body ∧ plainCommentBody body

theorem neutral_commentLine (s : List Char) (h : isCommentLine s) : Neutral (s ++ ['\n']) [] := by
  obtain ⟨n, body, rfl, hb⟩ := h
  have := (neutral_spaces n).append (neutral_lineComment body hb)
  simpa using this

/-! ### numbers -/

theorem word_run (ds acc : List Char) (h : ∀ x ∈ ds, isWordCh x = true) :
    runMode (.word acc) ds = .word (ds.reverse ++ acc) ∧ runOut (.word acc) ds = [] := by
  induction ds generalizing acc with
  | nil => simp [runMode, runOut]
  | cons d ds ih =>
    have hd := h d (by simp)
    obtain ⟨i1, i2⟩ := ih (d :: acc) (fun x hx => h x (by simp [hx]))
    simp [runMode, runOut, step, step0, hd, i1, i2]

theorem wordCh_not_ws (c : Char) (h : isWordCh c = true) : isWs c = false := by
  simp only [isWordCh, Bool.and_eq_true, Bool.not_eq_true'] at h
  exact h.2

/-- a non-empty word followed by a comma -/
theorem neutral_word_comma (d : Char) (ds : List Char) (h : ∀ x ∈ d :: ds, isWordCh x = true) :
    Neutral (d :: ds ++ [',']) [.word (d :: ds), .punct ','] := by
  have hd := h d (by simp)
  have hnws := wordCh_not_ws d hd
  obtain ⟨i1, i2⟩ := word_run ds [d] (fun x hx => h x (by simp [hx]))
  have hc1 : isWordCh ',' = false := by decide
  have hc2 : isWs ',' = false := by decide
  refine ⟨?_, ?_⟩
  · simp [runMode, runMode_append, step, step0, start, hnws, hd, i1, hc1, hc2]
  · simp [runOut, runOut_append, step, step0, start, hnws, hd, i1, i2, hc1, hc2]

theorem neutral_punct (c : Char) (h1 : isWs c = false) (h2 : isWordCh c = false) (h3 : c ≠ '/') (h4 : c ≠ '"')
    (h5 : c ≠ '\'') : Neutral [c] [.punct c] := by
  refine ⟨?_, ?_⟩ <;> simp [runMode, runOut, step, step0, start, h1, h2, h3, h4, h5]

end LalrpopModel.RustLex
