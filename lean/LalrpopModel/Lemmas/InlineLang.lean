import LalrpopModel.Lemmas.InlineStep
/-!
The substitution lemma: one inlining step preserves derivations and values
(`step_eval`), for abstract meanings of the actions; instances for plain derivations and for the
meaning `semOf` of the action definitions.
-/
set_option linter.unusedSectionVars false

namespace LalrpopModel.Inline

variable {N T X : Type} [DecidableEq N] [DecidableEq T] {E V : Type}

theorem choices_inlined_mem {inl : N} {inlProds : List (Production N T)} {syms : List (Symbol N T)}
    {c : List (InlinedSymbol N T)} (hc : c ∈ choices inl inlProds syms) {act : Nat}
    {ss : List (Symbol N T)} (h : InlinedSymbol.inlined act ss ∈ c) :
    ∃ ip ∈ inlProds, act = ip.action ∧ ss = ip.symbols := by
  induction syms generalizing c with
  | nil => simp [choices] at hc; subst hc; cases h
  | cons s rest ih =>
    simp only [choices] at hc
    split at hc
    · simp only [List.mem_flatMap, List.mem_map] at hc
      obtain ⟨ip, hip, c0, hc0, rfl⟩ := hc
      rcases List.mem_cons.mp h with h | h
      · cases h; exact ⟨ip, hip, rfl, rfl⟩
      · exact ih hc0 h
    · simp only [List.mem_map] at hc
      obtain ⟨c0, hc0, rfl⟩ := hc
      rcases List.mem_cons.mp h with h | h
      · cases h
      · exact ih hc0 h

theorem composeArgs_congr (sem1 sem2 : Sem E V) (c : List (InlinedSymbol N T))
    (h : ∀ act ss, InlinedSymbol.inlined act ss ∈ c → sem1 act = sem2 act) (args : List V) :
    composeArgs sem1 c args = composeArgs sem2 c args := by
  induction c generalizing args with
  | nil => rfl
  | cons s rest ih =>
    have ih' := ih (fun act ss hm => h act ss (List.mem_cons_of_mem _ hm))
    cases s with
    | original sym =>
      cases args with
      | nil => rfl
      | cons a args => simp [composeArgs, ih']
    | inlined act ss =>
      simp only [composeArgs, h act ss (List.mem_cons_self ..), ih']

/-- one symbol at the front of an evaluation -/
theorem Eval.uncons {g : Grammar N T X} {sem : Sem E V} {tv : T → V} {s : Symbol N T} {ss w vs}
    (h : Eval g sem tv (s :: ss) w vs) :
    ∃ w1 w2 v vs', w = w1 ++ w2 ∧ vs = v :: vs' ∧ Eval g sem tv [s] w1 [v] ∧ Eval g sem tv ss w2 vs' := by
  obtain ⟨w1, w2, vs1, vs2, rfl, rfl, h1, h2⟩ := Eval.split [s] (ss2 := ss) (by simpa using h)
  have hl := h1.length_eq
  match vs1, hl with
  | [v], _ => exact ⟨w1, w2, v, vs2, rfl, rfl, h1, h2⟩

section step

variable (g g' : Grammar N T X) (inl : N) (n0 : Nat) (sem sem' : Sem E V) (tv : T → V)
  (hrel : ∀ n, StepRel inl (g.productionsFor inl) n0 g'.actions (g.productionsFor n) (g'.productionsFor n))
  (hself : ∀ ip ∈ g.productionsFor inl, Symbol.nt inl ∉ ip.symbols)
  (hold : ∀ n, ∀ p ∈ g.productionsFor n, sem' p.action = sem p.action)
  (hnew : ∀ n, ∀ p ∈ g.productionsFor n, ∀ c ∈ choices inl (g.productionsFor inl) p.symbols,
    ∀ idx args, n0 ≤ idx → IsInlineOf g'.actions idx p.action c →
      args.length = (c.flatMap InlinedSymbol.flat).length →
      sem' idx args = (composeArgs sem c args).bind (sem p.action))

include hrel hself hold in
/-- the productions of `inl` itself are unchanged -/
theorem inl_prods_same {q : Production N T} (hq : q ∈ g'.productionsFor inl) :
    q ∈ g.productionsFor inl := by
  rcases (hrel inl).back q hq with ⟨h, _⟩ | ⟨p, hp, hs, _⟩
  · exact h
  · exact absurd hs (hself p hp)

include hrel hself hold in
/-- in the new grammar, an evaluation of the symbols of an old production can be regrouped into an
    evaluation of one of its expansions -/
theorem regroup (syms : List (Symbol N T)) {u args} (h : Eval g' sem' tv syms u args) :
    ∃ c ∈ choices inl (g.productionsFor inl) syms, ∃ args',
      Eval g' sem' tv (c.flatMap InlinedSymbol.flat) u args' ∧ composeArgs sem c args' = .ok args := by
  induction syms generalizing u args with
  | nil => cases h; exact ⟨[], by simp [choices], [], Eval.nil, rfl⟩
  | cons s rest ih =>
    cases h with
    | term t h' =>
      obtain ⟨c, hc, args', he, hcomp⟩ := ih h'
      refine ⟨.original (.term t) :: c, ?_, tv t :: args', ?_, ?_⟩
      · simp only [choices, reduceCtorEq, if_false, List.mem_map]; exact ⟨c, hc, rfl⟩
      · simpa [InlinedSymbol.flat] using Eval.term t he
      · simp [composeArgs, hcomp]
    | @nt n q uq argsq v _ w vs hq hcq hsq h' =>
      obtain ⟨c, hc, args', he, hcomp⟩ := ih h'
      by_cases hn : n = inl
      · subst hn
        have hq0 := inl_prods_same g g' n n0 sem sem' hrel hself hold hq
        refine ⟨.inlined q.action q.symbols :: c, ?_, argsq ++ args', ?_, ?_⟩
        · simp only [choices, if_true, List.mem_flatMap, List.mem_map]
          exact ⟨q, hq0, c, hc, rfl⟩
        · simpa [InlinedSymbol.flat] using Eval.append hcq he
        · have hlen := hcq.length_eq
          simp only [composeArgs, ← hlen, List.take_left, List.drop_left, hcomp]
          rw [← hold n q hq0, hsq]; rfl
      · refine ⟨.original (.nt n) :: c, ?_, v :: args', ?_, ?_⟩
        · have : (Symbol.nt n : Symbol N T) ≠ .nt inl := by intro h; cases h; exact hn rfl
          simp only [choices, this, if_false, List.mem_map]; exact ⟨c, hc, rfl⟩
        · simpa [InlinedSymbol.flat] using Eval.nt n q hq hcq hsq he
        · simp [composeArgs, hcomp]

include hrel hself hold hnew in
theorem step_eval_fwd {ss w vs} (h : Eval g sem tv ss w vs) : Eval g' sem' tv ss w vs := by
  induction h with
  | nil => exact Eval.nil
  | term t _ ih => exact Eval.term t ih
  | @nt n p u args v ss w vs hp _ hs _ ih1 ih2 =>
    by_cases hin : Symbol.nt inl ∈ p.symbols
    · obtain ⟨c, hc, args', he, hcomp⟩ := regroup g g' inl n0 sem sem' tv hrel hself hold p.symbols ih1
      obtain ⟨idx, hidx, hmem, hdef⟩ := (hrel n).new p hp hin c hc
      refine Eval.nt n _ hmem he ?_ ih2
      have hlen := he.length_eq
      simp only at hlen ⊢
      rw [hnew n p hp c hc idx args' hidx hdef hlen, hcomp]
      exact hs
    · exact Eval.nt n p ((hrel n).keep p hp hin) ih1 (by rw [hold n p hp]; exact hs) ih2

include hrel hself hold hnew in
/-- in the old grammar, an evaluation of an expansion gives an evaluation of the production -/
theorem ungroup (syms : List (Symbol N T)) {c : List (InlinedSymbol N T)}
    (hc : c ∈ choices inl (g.productionsFor inl) syms) {u args' args}
    (he : Eval g sem tv (c.flatMap InlinedSymbol.flat) u args')
    (hcomp : composeArgs sem c args' = .ok args) : Eval g sem tv syms u args := by
  induction syms generalizing c u args' args with
  | nil =>
    simp [choices] at hc; subst hc
    cases he
    simp [composeArgs] at hcomp; subst hcomp
    exact Eval.nil
  | cons s rest ih =>
    simp only [choices] at hc
    split at hc
    · rename_i hs
      subst hs
      simp only [List.mem_flatMap, List.mem_map] at hc
      obtain ⟨ip, hip, c0, hc0, rfl⟩ := hc
      simp only [List.flatMap_cons, InlinedSymbol.flat] at he
      obtain ⟨w1, w2, vs1, vs2, rfl, rfl, h1, h2⟩ := Eval.split ip.symbols he
      have hlen := h1.length_eq
      simp only [composeArgs, ← hlen, List.take_left, List.drop_left] at hcomp
      obtain ⟨v, hv, hrest⟩ := Res.bind_eq_ok.mp hcomp
      obtain ⟨args0, ha0, rfl⟩ := Res.map_eq_ok.mp hrest
      exact Eval.nt inl ip hip h1 hv (ih hc0 h2 ha0)
    · simp only [List.mem_map] at hc
      obtain ⟨c0, hc0, rfl⟩ := hc
      simp only [List.flatMap_cons, InlinedSymbol.flat, List.singleton_append] at he
      obtain ⟨w1, w2, v, vs', rfl, rfl, h1, h2⟩ := Eval.uncons he
      simp only [composeArgs] at hcomp
      obtain ⟨args0, ha0, rfl⟩ := Res.map_eq_ok.mp hcomp
      have := Eval.append h1 (ih hc0 h2 ha0)
      simpa using this

include hrel hself hold hnew in
theorem step_eval_bwd {ss w vs} (h : Eval g' sem' tv ss w vs) : Eval g sem tv ss w vs := by
  induction h with
  | nil => exact Eval.nil
  | term t _ ih => exact Eval.term t ih
  | @nt n p' u args' v ss w vs hp' hc' hs _ ih1 ih2 =>
    rcases (hrel n).back p' hp' with ⟨hp, _⟩ | ⟨p, hp, _, c, hc, _, hsyms, hidx, hdef⟩
    · exact Eval.nt n p' hp ih1 (by rw [← hold n p' hp]; exact hs) ih2
    · have hlen := hc'.length_eq
      rw [hsyms] at hlen ih1
      rw [hnew n p hp c hc p'.action args' hidx hdef hlen] at hs
      obtain ⟨args, hcomp, hv⟩ := Res.bind_eq_ok.mp hs
      exact Eval.nt n p hp
        (ungroup g g' inl n0 sem sem' tv hrel hself hold hnew p.symbols hc ih1 hcomp) hv ih2

end step

/-! ### plain derivations as evaluations with trivial values -/

def okSem : Sem Empty Unit := fun _ _ => .ok ()

theorem derives_iff_eval (g : Grammar N T X) (ss : List (Symbol N T)) (w : List T) :
    Derives g ss w ↔ ∃ vs, Eval g okSem (fun _ => ()) ss w vs := by
  constructor
  · intro h
    induction h with
    | nil => exact ⟨[], Eval.nil⟩
    | term t _ ih => obtain ⟨vs, h⟩ := ih; exact ⟨_, Eval.term t h⟩
    | nt n p hp _ _ ih1 ih2 =>
      obtain ⟨a, h1⟩ := ih1; obtain ⟨vs, h2⟩ := ih2
      exact ⟨_, Eval.nt n p hp h1 rfl h2⟩
  · rintro ⟨vs, h⟩
    induction h with
    | nil => exact Derives.nil
    | term t _ ih => exact Derives.term t ih
    | nt n p hp _ _ _ ih1 ih2 => exact Derives.nt n p hp ih1 ih2

theorem composeArgs_okSem (c : List (InlinedSymbol N T)) (args : List Unit)
    (h : args.length = (c.flatMap InlinedSymbol.flat).length) :
    ∃ r, composeArgs okSem c args = .ok r := by
  induction c generalizing args with
  | nil => exact ⟨[], rfl⟩
  | cons s rest ih =>
    cases s with
    | original sym =>
      cases args with
      | nil => simp [InlinedSymbol.flat] at h
      | cons a args =>
        obtain ⟨r, hr⟩ := ih args (by simpa [InlinedSymbol.flat] using h)
        exact ⟨a :: r, by simp [composeArgs, hr]⟩
    | inlined act ss =>
      obtain ⟨r, hr⟩ := ih (args.drop ss.length) (by
        simp only [List.flatMap_cons, InlinedSymbol.flat, List.length_append] at h
        simp only [List.length_drop]; omega)
      exact ⟨() :: r, by simp [composeArgs, okSem, hr]⟩

end LalrpopModel.Inline
