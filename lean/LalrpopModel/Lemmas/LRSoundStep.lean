import LalrpopModel.Lemmas.LRSoundReduce
/-!
Soundness of the model driver, part 4: the run invariant `Inv` and its preservation by `step`
(all phases, error recovery included).
-/
namespace LalrpopModel.LR
variable {G : Grammar} {T : Tables} {A : Automaton}

/-! ### the run invariant -/

/-- a lookahead carried through error recovery is a token with its own kind, in range -/
def laOK (T : Tables) (la : Option (Tok × Term)) : Prop :=
  ∀ t i, la = some (t, i) → t.kind = some i ∧ i < T.nTerm

def laToks : Option (Tok × Term) → List Tok
  | some (t, _) => [t]
  | none => []

/-- tokens held by the phase (pulled from the stream, not yet on the stack) -/
def phaseToks : Phase → List Tok
  | .act la _ => [la]
  | .recReduce la _ _ => laToks la
  | .recFind la _ _ _ _ => laToks la
  | .done (.ok v) => v.yield
  | _ => []

/-- stack yield, then the tokens held by the phase, then the rest of the stream -/
def measure (c : Cfg) (ph : Phase) : List Item :=
  (stackYield c.symbols ++ phaseToks ph).map Item.tok ++ c.input

def YInv (T : Tables) (input : List Item) (c : Cfg) (ph : Phase) : Prop :=
  (itemToks (measure c ph)).Sublist (itemToks input) ∧ (T.usesRecovery = false → measure c ph = input)

def InRange (T : Tables) (l : List Item) : Prop :=
  ∀ t k, Item.tok t ∈ l → t.kind = some k → k < T.nTerm

def Live (T : Tables) (c : Cfg) : Phase → Prop
  | .pull => True
  | .act la idx => la.kind = some idx ∧ idx < T.nTerm
  | .eof => c.input = []
  | .recReduce la _ fromEof =>
      T.usesRecovery = true ∧ laOK T la ∧ (fromEof = true → la = none) ∧ (la = none → c.input = [])
  | .recFind la _ _ sl fromEof =>
      T.usesRecovery = true ∧ laOK T la ∧ (fromEof = true → la = none) ∧ (la = none → c.input = []) ∧
        sl ≤ c.states.length
  | .done _ => True

def Inv (G : Grammar) (T : Tables) (A : Automaton) (input : List Item) (c : Cfg) : Phase → Prop
  | .done (.ok v) => Tree.WF G (errT T) v ∧
      (∀ S0, G.startSym = some S0 → v.root G (errT T) = some (Sym.n S0)) ∧
      (T.usesRecovery = false → c.symbols = [] ∧ c.input = []) ∧ YInv T input c (.done (.ok v))
  | .done (.err _) => True
  | .done (.panic tag) => tag = .outOfFuel
  | ph => StackInv G T A c ∧ InRange T c.input ∧ YInv T input c ph ∧ Live T c ph

theorem YInv.of_eq {input : List Item} {c c' : Cfg} {ph ph' : Phase} (h : YInv T input c ph)
    (he : measure c' ph' = measure c ph) : YInv T input c' ph' := by
  unfold YInv; rw [he]; exact h

theorem YInv.of_sub {input : List Item} {c c' : Cfg} {ph ph' : Phase} (h : YInv T input c ph)
    (hrec : T.usesRecovery = true)
    (hs : (itemToks (measure c' ph')).Sublist (itemToks (measure c ph))) : YInv T input c' ph' :=
  ⟨hs.trans h.1, by intro hf; rw [hrec] at hf; cases hf⟩

theorem states_cons {c : Cfg} {Xs : List Sym} (h : Path A c.states Xs) : ∃ top rest, c.states = top :: rest := by
  cases hs : c.states with
  | nil => exact absurd hs h.ne_nil
  | cons a l => exact ⟨a, l, rfl⟩

/-! ### `next_token` -/

theorem nextToken_spec (S : Sound G T A) (af : Nat) (c : Cfg) {Xs : List Sym} (hp : Path A c.states Xs) :
    match nextToken T af c with
    | (c', .found t i) => c.input = .tok t :: c'.input ∧ t.kind = some i ∧ c'.states = c.states ∧ c'.symbols = c.symbols
    | (c', .eof) => c.input = [] ∧ c'.input = [] ∧ c'.states = c.states ∧ c'.symbols = c.symbols
    | (_, .done (.ok _)) => False
    | (_, .done (.err _)) => True
    | (_, .done (.panic tag)) => tag = .outOfFuel := by
  cases hi : c.input with
  | nil => simp [nextToken, hi]
  | cons x rest =>
    cases x with
    | err e => simp [nextToken, hi]
    | tok t =>
      cases hk : t.kind with
      | some i => simp [nextToken, hi, hk]
      | none =>
        simp only [nextToken, hi, hk]
        generalize hu : unrecognizedError T af _ (some t) = u
        cases u with
        | error e =>
          simp only []
          exact unrecognizedError_no_panic S (c := { c with input := rest, pulled := c.pulled + 1, lastLoc := t.r }) hp af _ e hu
        | ok pe => trivial

/-! ### entering error recovery -/

theorem enterRecovery_inv (S : Sound G T A) {input : List Item} {c : Cfg} (af : Nat)
    (la : Option (Tok × Term)) (fromEof : Bool)
    (hst : StackInv G T A c) (hr : InRange T c.input)
    (hy : ∀ pe, YInv T input c (.recReduce la pe fromEof)) (hla : laOK T la)
    (hfe : fromEof = true → la = none) (hin : la = none → c.input = []) :
    Inv G T A input (enterRecovery T af c la fromEof).1 (enterRecovery T af c la fromEof).2 := by
  obtain ⟨Xs, hp, _⟩ := id hst
  simp only [enterRecovery]
  split
  · rename_i e he
    simp only [Inv]
    exact unrecognizedError_no_panic S hp af _ e he
  · rename_i pe _
    cases hrec : T.usesRecovery with
    | false => simp [Inv]
    | true =>
      simp only [Bool.not_true, Bool.false_eq_true, if_false, Inv]
      exact ⟨hst, hr, hy pe, hrec, hla, hfe, hin⟩

theorem InRange.tail {x : Item} {l : List Item} (h : InRange T (x :: l)) : InRange T l :=
  fun t k hm hk => h t k (List.mem_cons_of_mem _ hm) hk

/-! ### the steps outside error recovery -/

theorem step_pull (S : Sound G T A) {input : List Item} {c : Cfg} (af : Nat) (failAt : Option Nat)
    (startLoc : Int) (h : Inv G T A input c .pull) :
    Inv G T A input (step T af failAt startLoc c .pull).1 (step T af failAt startLoc c .pull).2 := by
  simp only [Inv] at h
  obtain ⟨⟨Xs, hpath, htrees⟩, hr, hy, _⟩ := h
  have hspec := nextToken_spec S af c hpath
  simp only [step]
  generalize nextToken T af c = nt at hspec
  obtain ⟨c', r⟩ := nt
  cases r with
  | found t i =>
    simp only [] at hspec ⊢
    obtain ⟨hi, hk, hs1, hs2⟩ := hspec
    simp only [Inv]
    refine ⟨⟨Xs, hs1 ▸ hpath, hs2 ▸ htrees⟩, ?_, ?_, hk, ?_⟩
    · rw [hi] at hr; exact hr.tail
    · apply hy.of_eq
      simp [measure, phaseToks, hi, hs2]
    · exact hr t i (by rw [hi]; exact List.mem_cons_self) hk
  | eof =>
    simp only [] at hspec ⊢
    obtain ⟨hi, hi', hs1, hs2⟩ := hspec
    simp only [Inv]
    refine ⟨⟨Xs, hs1 ▸ hpath, hs2 ▸ htrees⟩, ?_, ?_, hi'⟩
    · rw [hi']; intro t k hm; cases hm
    · apply hy.of_eq
      simp [measure, phaseToks, hi, hi', hs2]
  | done r =>
    cases r with
    | ok v => exact hspec.elim
    | err e => simp [Inv]
    | panic tag => simpa [Inv] using hspec

theorem step_act (S : Sound G T A) {input : List Item} {c : Cfg} (af : Nat) (failAt : Option Nat)
    (startLoc : Int) (la : Tok) (idx : Term) (h : Inv G T A input c (.act la idx)) :
    Inv G T A input (step T af failAt startLoc c (.act la idx)).1 (step T af failAt startLoc c (.act la idx)).2 := by
  simp only [Inv] at h
  obtain ⟨⟨Xs, hpath, htrees⟩, hr, hy, hk, hidx⟩ := h
  obtain ⟨top, rest, hst⟩ := states_cons hpath
  have hpath' := hpath
  rw [hst] at hpath'
  obtain ⟨a, ha, hshift, hred⟩ := S.action top idx (hpath'.top_lt S) hidx
  simp only [step, hst, ha]
  cases hsh : asShift a with
  | some target =>
    obtain ⟨hpos, ht⟩ := asShift_some hsh
    simp only [Inv]
    refine ⟨⟨Sym.t idx :: Xs, ?_, ?_⟩, hr, ?_, trivial⟩
    · refine Path.push hpath' ?_
      rw [ht]; exact hshift hpos
    · exact TreesOK.cons (Tree.WF.leaf la idx hk) (by simp [Tree.root, hk]) htrees
    · apply hy.of_eq
      simp [measure, phaseToks, stackYield, Tree.yield]
  | none =>
    cases hrd : asReduce a with
    | some p =>
      obtain ⟨hneg, hpe⟩ := asReduce_some hrd
      obtain ⟨pr, hpr, hit⟩ := hred hneg
      rw [← hpe] at hpr hit
      have hspec := reduce_spec S failAt startLoc c p pr (some la.l) hst hpath htrees hpr hit
      simp only []
      generalize reduce T failAt startLoc c p (some la.l) = rr at hspec
      cases rr with
      | continue_ c' =>
        simp only [] at hspec ⊢
        obtain ⟨hs, hi, hyl⟩ := hspec
        simp only [Inv]
        refine ⟨hs, hi ▸ hr, ?_, hk, hidx⟩
        apply hy.of_eq
        simp [measure, hi, hyl]
      | finished c' r =>
        cases r with
        | ok v => simp [Inv]
        | err e => simp [Inv]
        | panic tag => exact hspec.elim
    | none =>
      simp only []
      refine enterRecovery_inv S af (some (la, idx)) false ⟨Xs, hpath, htrees⟩ hr (fun pe => hy.of_eq rfl) ?_
        (by intro h; cases h) (by intro h; cases h)
      intro t i he
      cases he
      exact ⟨hk, hidx⟩

theorem step_eof (S : Sound G T A) {input : List Item} {c : Cfg} (af : Nat) (failAt : Option Nat)
    (startLoc : Int) (h : Inv G T A input c .eof) :
    Inv G T A input (step T af failAt startLoc c .eof).1 (step T af failAt startLoc c .eof).2 := by
  simp only [Inv] at h
  obtain ⟨⟨Xs, hpath, htrees⟩, hr, hy, hin⟩ := h
  simp only [Live] at hin
  obtain ⟨top, rest, hst⟩ := states_cons hpath
  have hpath' := hpath
  rw [hst] at hpath'
  obtain ⟨a, ha, hred⟩ := S.eofAction top (hpath'.top_lt S)
  simp only [step, hst, ha]
  cases hrd : asReduce a with
  | some p =>
    obtain ⟨hneg, hpe⟩ := asReduce_some hrd
    obtain ⟨pr, hpr, hit⟩ := hred hneg
    rw [← hpe] at hpr hit
    have hspec := reduce_spec S failAt startLoc c p pr none hst hpath htrees hpr hit
    simp only []
    generalize reduce T failAt startLoc c p none = rr at hspec
    cases rr with
    | continue_ c' =>
      simp only [] at hspec ⊢
      obtain ⟨hs, hi, hyl⟩ := hspec
      simp only [Inv]
      refine ⟨hs, hi ▸ hr, ?_, by simp only [Live]; rw [hi]; exact hin⟩
      apply hy.of_eq
      simp [measure, hi, hyl]
    | finished c' r =>
      cases r with
      | ok v =>
        simp only [] at hspec ⊢
        obtain ⟨hw, hroot, hi, hsy, hyv⟩ := hspec
        simp only [Inv]
        refine ⟨hw, hroot, fun _ => ⟨hsy, by rw [hi]; exact hin⟩, ?_⟩
        apply hy.of_eq
        simp [measure, phaseToks, hi, hsy, hyv, stackYield]
      | err e => simp [Inv]
      | panic tag => exact hspec.elim
  | none =>
    simp only []
    refine enterRecovery_inv S af none true ⟨Xs, hpath, htrees⟩ hr (fun pe => hy.of_eq rfl) ?_
      (fun _ => rfl) (fun _ => hin)
    intro t i he
    cases he

/-! ### error recovery -/

theorem errorAction_spec (S : Sound G T A) (hrec : T.usesRecovery = true) {st : Nat} {ss : List Nat}
    {Xs : List Sym} (hp : Path A (st :: ss) Xs) :
    ∃ a, T.errorActionAt st = some a ∧
      (∀ es, asShift a = some es → A.trans st (Sym.t (T.nTerm - 1)) = some es) ∧
      (a < 0 → ∃ pr, G.prods[(-(a + 1)).toNat]? = some pr ∧ ((-(a + 1)).toNat, pr.rhs.length) ∈ A.coresOf st) := by
  have hpos := S.rec_nTerm hrec
  obtain ⟨a, ha, hshift, hred⟩ := S.action st (T.nTerm - 1) (hp.top_lt S) (by omega)
  refine ⟨a, ha, ?_, hred⟩
  intro es hes
  obtain ⟨h1, h2⟩ := asShift_some hes
  rw [h2]
  exact hshift h1

theorem step_recReduce (S : Sound G T A) {input : List Item} {c : Cfg} (af : Nat) (failAt : Option Nat)
    (startLoc : Int) (la : Option (Tok × Term)) (error : PErr) (fromEof : Bool)
    (h : Inv G T A input c (.recReduce la error fromEof)) :
    Inv G T A input (step T af failAt startLoc c (.recReduce la error fromEof)).1
      (step T af failAt startLoc c (.recReduce la error fromEof)).2 := by
  simp only [Inv] at h
  obtain ⟨⟨Xs, hpath, htrees⟩, hr, hy, hrec, hla, hfe, hin⟩ := h
  obtain ⟨top, rest, hst⟩ := states_cons hpath
  have hpath' := hpath
  rw [hst] at hpath'
  obtain ⟨a, ha, _, hred⟩ := errorAction_spec S hrec hpath'
  simp only [step, hst, ha]
  cases hrd : asReduce a with
  | some p =>
    obtain ⟨hneg, hpe⟩ := asReduce_some hrd
    obtain ⟨pr, hpr, hit⟩ := hred hneg
    rw [← hpe] at hpr hit
    have hspec := reduce_spec S failAt startLoc c p pr (la.map (·.1.l)) hst hpath htrees hpr hit
    simp only []
    generalize reduce T failAt startLoc c p (la.map (·.1.l)) = rr at hspec
    cases rr with
    | continue_ c' =>
      simp only [] at hspec ⊢
      obtain ⟨hs, hi, hyl⟩ := hspec
      simp only [Inv]
      refine ⟨hs, hi ▸ hr, ?_, hrec, hla, hfe, by rw [hi]; exact hin⟩
      apply hy.of_eq
      simp [measure, hi, hyl]
    | finished c' r =>
      cases r with
      | ok v =>
        simp only [] at hspec ⊢
        obtain ⟨hw, hroot, hi, hsy, hyv⟩ := hspec
        simp only [Inv]
        refine ⟨hw, hroot, fun hf => (by rw [hrec] at hf; cases hf), ?_⟩
        apply hy.of_sub hrec
        simp only [measure, phaseToks, hi, hsy, hyv, stackYield, List.nil_append, itemToks_append, itemToks_map_tok,
          List.map_append]
        exact List.Sublist.append (List.sublist_append_left _ _) (List.Sublist.refl _)
      | err e => simp [Inv]
      | panic tag => exact hspec.elim
  | none =>
    simp only [Inv]
    exact ⟨⟨Xs, hpath, htrees⟩, hr, hy.of_eq rfl, hrec, hla, hfe, hin, by rw [hst]; exact Nat.le_refl _⟩

theorem truncBot_ne_nil {α : Type} {l : List α} (k : Nat) (h : l ≠ []) : truncBot l (k + 1) ≠ [] := by
  intro he
  simp only [truncBot, List.drop_eq_nil_iff] at he
  have : 0 < l.length := List.length_pos_iff.mpr h
  omega

theorem findState_spec (S : Sound G T A) (hrec : T.usesRecovery = true) {states : List Nat} {Xs : List Sym}
    (hp : Path A states Xs) {optIdx : Option Term} (hi : ∀ i, optIdx = some i → i < T.nTerm)
    (af sl : Nat) : ∀ k,
    (∀ e, findState T af optIdx sl states k = .error e → e = .outOfFuel) ∧
    (∀ top, findState T af optIdx sl states k = .ok (some top) → top < k ∧
      ∃ st more a es, truncBot states (top + 1) = st :: more ∧ T.errorActionAt st = some a ∧ asShift a = some es)
  | 0 => by simp [findState]
  | k + 1 => by
    have ih := findState_spec S hrec hp hi af sl k
    have ih2 : ∀ top, findState T af optIdx sl states k = .ok (some top) → top < k + 1 ∧
      ∃ st more a es, truncBot states (top + 1) = st :: more ∧ T.errorActionAt st = some a ∧ asShift a = some es := by
      intro top h
      obtain ⟨h1, h2⟩ := ih.2 top h
      exact ⟨by omega, h2⟩
    cases hc : truncBot states (k + 1) with
    | nil => exact absurd hc (truncBot_ne_nil k hp.ne_nil)
    | cons st more =>
      have hpc : Path A (st :: more) (Xs.drop (states.length - (k + 1))) := Path.drop _ hp hc
      obtain ⟨a, ha, hshift, _⟩ := errorAction_spec S hrec hpc
      simp only [findState, hc, ha]
      cases hsh : asShift a with
      | none => exact ⟨ih.1, ih2⟩
      | some es =>
        simp only []
        have hpe := Path.push hpc (hshift es hsh)
        cases hacc : accepts T af (es :: st :: more) optIdx with
        | error e =>
          simp only []
          refine ⟨?_, by intro top h; cases h⟩
          intro e' he'; cases he'
          exact accepts_no_panic S af _ _ optIdx hpe hi e hacc
        | ok b =>
          cases b with
          | true =>
            simp only []
            refine ⟨(by intro e h; cases h), ?_⟩
            intro top h; cases h
            exact ⟨Nat.lt_succ_self _, st, more, a, es, hc, ha, hsh⟩
          | false => exact ⟨ih.1, ih2⟩

/-- the `start` span computation of `pushRecovery` -/
def recStart (startLoc : Int) (symbols : List SymTriple) (dropped : List Tok) (top : Nat) : Except PanicTag Int :=
  match getBot symbols top with
  | some s => .ok s.1
  | none =>
    match dropped.head? with
    | some d => .ok d.l
    | none =>
      if top > 0 then
        match getBot symbols (top - 1) with
        | some s => .ok s.2.2
        | none => .error .recoveryIndex
      else .ok startLoc

/-- the `end` span computation of `pushRecovery` -/
def recEnd (symbols : List SymTriple) (la : Option (Tok × Term)) (dropped : List Tok) (statesLen top : Nat)
    (start : Int) : Except PanicTag Int :=
  match dropped.getLast? with
  | some d => .ok d.r
  | none =>
    if statesLen - 1 > top then
      match symbols.head? with
      | some s => .ok s.2.2
      | none => .error .recoveryIndex
    else match la with
      | some (t, _) => .ok t.l
      | none => .ok start

theorem pushRecovery_unfold (startLoc : Int) (c : Cfg) (la : Option (Tok × Term)) (error : PErr)
    (dropped : List Tok) (statesLen top : Nat) (fromEof : Bool) :
    pushRecovery T startLoc c la error dropped statesLen top fromEof =
    match recStart startLoc c.symbols dropped top with
    | .error e => (c, .done (.panic e))
    | .ok start =>
      match recEnd c.symbols la dropped statesLen top start with
      | .error e => (c, .done (.panic e))
      | .ok end_ =>
        match truncBot c.states (top + 1) with
        | [] => (c, .done (.panic .recoveryIndex))
        | rs :: _ =>
          match T.errorActionAt rs with
          | none => (c, .done (.panic .actionIndex))
          | some a =>
            match asShift a with
            | none => (c, .done (.panic .errorShiftUnwrap))
            | some es =>
              afterRecovery { c with states := es :: truncBot c.states (top + 1),
                                     symbols := (start, Tree.err error dropped, end_) :: truncBot c.symbols top }
                la fromEof := rfl

theorem getBot_some {α : Type} {l : List α} {i : Nat} (h : i < l.length) : ∃ x, getBot l i = some x := by
  simp only [getBot, h, if_true]
  exact ⟨_, List.getElem?_eq_getElem (by omega)⟩

theorem recStart_ok (startLoc : Int) {symbols : List SymTriple} (dropped : List Tok) {top : Nat}
    (h : top ≤ symbols.length) : ∃ s, recStart startLoc symbols dropped top = .ok s := by
  simp only [recStart]
  split
  · exact ⟨_, rfl⟩
  · split
    · exact ⟨_, rfl⟩
    · split
      · rename_i htop
        obtain ⟨x, hx⟩ := getBot_some (l := symbols) (i := top - 1) (by omega)
        simp [hx]
      · exact ⟨_, rfl⟩

theorem recEnd_ok {symbols : List SymTriple} (la : Option (Tok × Term)) (dropped : List Tok) {sl top : Nat}
    (start : Int) (h : sl - 1 > top → symbols ≠ []) : ∃ e, recEnd symbols la dropped sl top start = .ok e := by
  simp only [recEnd]
  split
  · exact ⟨_, rfl⟩
  · split
    · rename_i hgt
      cases symbols with
      | nil => exact absurd rfl (h hgt)
      | cons x xs => simp
    · split <;> exact ⟨_, rfl⟩

theorem pushRecovery_inv (S : Sound G T A) {input : List Item} {c : Cfg} (startLoc : Int)
    (la : Option (Tok × Term)) (error : PErr) (dropped : List Tok) (sl top : Nat) (fromEof : Bool)
    (hst : StackInv G T A c) (hr : InRange T c.input)
    (hy : YInv T input c (.recFind la error dropped sl fromEof)) (hrec : T.usesRecovery = true)
    (hla : laOK T la) (hfe : fromEof = true → la = none) (hin : la = none → c.input = [])
    (hsl : sl ≤ c.states.length) (htop : top < sl)
    (hfs : ∃ st more a es, truncBot c.states (top + 1) = st :: more ∧ T.errorActionAt st = some a ∧
      asShift a = some es) :
    Inv G T A input (pushRecovery T startLoc c la error dropped sl top fromEof).1
      (pushRecovery T startLoc c la error dropped sl top fromEof).2 := by
  obtain ⟨Xs, hpath, htrees⟩ := hst
  obtain ⟨st, more, a, es, htb, ha, hes⟩ := hfs
  have hl1 := hpath.length
  have hl2 := htrees.length
  obtain ⟨s0, hs0⟩ := recStart_ok startLoc (symbols := c.symbols) dropped (top := top) (by omega)
  obtain ⟨e0, he0⟩ := recEnd_ok (symbols := c.symbols) la dropped (sl := sl) (top := top) s0
    (by intro hgt hn; rw [hn] at hl2; simp at hl2; omega)
  rw [pushRecovery_unfold]
  simp only [hs0, he0, htb, ha, hes]
  -- the new stack
  have htb' : c.states.drop (c.states.length - (top + 1)) = st :: more := htb
  have hsy : truncBot c.symbols top = c.symbols.drop (c.states.length - (top + 1)) := by
    simp only [truncBot]; congr 1; omega
  have hpc := Path.drop _ hpath htb'
  obtain ⟨a', ha', hshift, _⟩ := errorAction_spec S hrec hpc
  rw [ha] at ha'; cases ha'
  have hstack : StackInv G T A ⟨es :: st :: more, (s0, Tree.err error dropped, e0) :: truncBot c.symbols top,
      c.input, c.lastLoc, c.pulled, c.acts, c.trace⟩ := by
    refine ⟨Sym.t (T.nTerm - 1) :: Xs.drop (c.states.length - (top + 1)), Path.push hpc (hshift es hes), ?_⟩
    rw [hsy]
    refine TreesOK.cons (Tree.WF.err error dropped (T.nTerm - 1) (by simp [errT, hrec])) ?_ (TreesOK.drop _ htrees)
    simp [Tree.root, errT, hrec]
  have hsub : (stackYield ((s0, Tree.err error dropped, e0) :: truncBot c.symbols top)).Sublist
      (stackYield c.symbols) := by
    simp only [stackYield, Tree.yield, List.append_nil, hsy]
    exact stackYield_drop_sublist _ _
  cases la with
  | none =>
    simp only [afterRecovery, Inv]
    refine ⟨hstack, hr, ?_, hin rfl⟩
    apply hy.of_sub hrec
    simp only [measure, phaseToks, laToks, List.append_nil, itemToks_append, itemToks_map_tok]
    exact List.Sublist.append hsub (List.Sublist.refl _)
  | some x =>
    obtain ⟨t, i⟩ := x
    cases fromEof with
    | true => cases hfe rfl
    | false =>
      simp only [afterRecovery, Inv]
      refine ⟨hstack, hr, ?_, hla t i rfl⟩
      apply hy.of_sub hrec
      simp only [measure, phaseToks, laToks, itemToks_append, itemToks_map_tok, List.map_append]
      exact List.Sublist.append (List.Sublist.append hsub (List.Sublist.refl _)) (List.Sublist.refl _)

theorem step_recFind (S : Sound G T A) {input : List Item} {c : Cfg} (af : Nat) (failAt : Option Nat)
    (startLoc : Int) (la : Option (Tok × Term)) (error : PErr) (dropped : List Tok) (sl : Nat) (fromEof : Bool)
    (h : Inv G T A input c (.recFind la error dropped sl fromEof)) :
    Inv G T A input (step T af failAt startLoc c (.recFind la error dropped sl fromEof)).1
      (step T af failAt startLoc c (.recFind la error dropped sl fromEof)).2 := by
  simp only [Inv] at h
  obtain ⟨⟨Xs, hpath, htrees⟩, hr, hy, hrec, hla, hfe, hin, hsl⟩ := h
  have hoi : ∀ i, la.map (·.2) = some i → i < T.nTerm := by
    intro i hi
    cases la with
    | none => cases hi
    | some x =>
      obtain ⟨t, j⟩ := x
      cases hi
      exact (hla t j rfl).2
  obtain ⟨hfe1, hfe2⟩ := findState_spec S hrec hpath hoi af sl sl
  simp only [step]
  generalize hf : findState T af _ sl c.states sl = fr
  cases fr with
  | error e => simp only [Inv]; exact hfe1 e hf
  | ok o =>
    cases o with
    | some top =>
      simp only []
      obtain ⟨ht, hx⟩ := hfe2 top hf
      exact pushRecovery_inv S startLoc la error dropped sl top fromEof ⟨Xs, hpath, htrees⟩ hr hy hrec hla hfe hin hsl ht hx
    | none =>
      simp only []
      cases la with
      | none => simp [Inv]
      | some x =>
        obtain ⟨t, i⟩ := x
        simp only []
        have hfalse : fromEof = false := by
          cases fromEof with
          | true => cases hfe rfl
          | false => rfl
        have hspec := nextToken_spec S af c hpath
        generalize nextToken T af c = nt at hspec
        obtain ⟨c', r⟩ := nt
        cases r with
        | found t' i' =>
          simp only [] at hspec ⊢
          obtain ⟨hi, hk, hs1, hs2⟩ := hspec
          simp only [Inv]
          refine ⟨⟨Xs, hs1 ▸ hpath, hs2 ▸ htrees⟩, ?_, ?_, hrec, ?_, ?_, ?_, hs1 ▸ hsl⟩
          · rw [hi] at hr; exact hr.tail
          · apply hy.of_sub hrec
            simp only [measure, phaseToks, laToks, hi, hs2, itemToks_append, itemToks_map_tok, itemToks_tok,
              List.append_assoc, List.cons_append, List.nil_append]
            exact List.Sublist.append (List.Sublist.refl _) (List.Sublist.cons _ (List.Sublist.refl _))
          · intro t2 i2 he
            cases he
            exact ⟨hk, hr t' i' (by rw [hi]; exact List.mem_cons_self) hk⟩
          · intro hf2; rw [hfalse] at hf2; cases hf2
          · intro hn; cases hn
        | eof =>
          simp only [] at hspec ⊢
          obtain ⟨hi, hi', hs1, hs2⟩ := hspec
          simp only [Inv]
          refine ⟨⟨Xs, hs1 ▸ hpath, hs2 ▸ htrees⟩, ?_, ?_, hrec, ?_, fun _ => rfl, fun _ => hi', hs1 ▸ hsl⟩
          · rw [hi']; intro t k hm; cases hm
          · apply hy.of_sub hrec
            simp only [measure, phaseToks, laToks, hi, hi', hs2, itemToks_map_tok,
              List.append_nil]
            exact List.sublist_append_left _ _
          · intro t2 i2 he; cases he
        | done r =>
          cases r with
          | ok v => exact hspec.elim
          | err e => simp [Inv]
          | panic tag => simpa [Inv] using hspec

/-- one step of the machine preserves the invariant -/
theorem step_inv (S : Sound G T A) {input : List Item} (af : Nat) (failAt : Option Nat) (startLoc : Int)
    (c : Cfg) (ph : Phase) (h : Inv G T A input c ph) :
    Inv G T A input (step T af failAt startLoc c ph).1 (step T af failAt startLoc c ph).2 := by
  cases ph with
  | pull => exact step_pull S af failAt startLoc h
  | act la idx => exact step_act S af failAt startLoc la idx h
  | eof => exact step_eof S af failAt startLoc h
  | recReduce la e f => exact step_recReduce S af failAt startLoc la e f h
  | recFind la e d sl f => exact step_recFind S af failAt startLoc la e d sl f h
  | done r => exact h
end LalrpopModel.LR
