import LalrpopModel.Lemmas.LRTermRun
/-!
C08 termination, part 3: the whole run, error recovery off.

`pull_terminates`: from any configuration in phase `.pull` whose state stack is `Adj`, with
in-range token kinds in the rest of the stream, the run reaches `.done r` (not the fuel stop of
`accepts`) within `(F+1)·|states| + (|input|+1)·termM F` steps, provided the `accepts` fuel is at
least `accFuel F (|states| + (|input|+1)·(F+1))`. The accounting is amortised: a reduce loop costs
`(F+1)·d + F` steps where `d` is the number of stack levels it frees.
-/
namespace LalrpopModel.LR.Term
open LalrpopModel.LR LalrpopModel.LR.Generic

variable {T : Tables} {F : Nat} {af : Nat} {failAt : Option Nat} {startLoc : Int}

/-- steps charged to one token (and to the end of input) -/
def termM (F : Nat) : Nat := (F + 1) * (F + 1) + F + 2

/-- bound on the number of machine steps of a whole run on `len` stream items -/
def termBound (F len : Nat) : Nat := (F + 1) + (len + 1) * termM F

/-- `accepts` fuel that suffices for a whole run on `len` stream items -/
def termAccFuel (F len : Nat) : Nat := accFuel F (1 + (len + 1) * (F + 1))

/-- the phase `.act tok idx` (reduce loop of `parse` under the lookahead, then shift or error) -/
theorem act_phase (hT : TermOK T F) (hrec : T.usesRecovery = false) {idx : Term} (hidx : idx < T.nTerm)
    (tok : Tok) (c : Cfg) (hadj : Adj T c.states) (haf : accFuel F (c.states.length + F) ≤ af) :
    ∃ n c' ph' d, run T af failAt startLoc n c (.act tok idx) = (c', ph') ∧ n ≤ (F + 1) * d + F + 1 ∧
      (((∃ r, ph' = .done r ∧ r ≠ .panic .outOfFuel) ∧ d ≤ c.states.length + F) ∨
       (ph' = .pull ∧ c'.input = c.input ∧ Adj T c'.states ∧
          c'.states.length + d ≤ c.states.length + (F + 1))) := by
  obtain ⟨N, fin, d, hit, hh, hN, hd⟩ :=
    phase_term hT (la := some idx) hidx c.states.length c.states (Nat.le_refl _) hadj
  have hadjf : Adj T fin := hadj.iter hT hit
  obtain ⟨n, c', ph', hn, hrun, hres⟩ :=
    act_follow (af := af) (failAt := failAt) (startLoc := startLoc) hit hh tok c rfl
  rcases hres with ⟨r, rfl, hr⟩ | ⟨rfl, hin, t, top, rest, a, hfin, ha, hsh, hst⟩ | ⟨cH, hcs, _, he, _⟩
  · exact ⟨n, c', _, d, hrun, by omega, .inl ⟨⟨r, rfl, hr⟩, by omega⟩⟩
  · refine ⟨n, c', _, d, hrun, by omega, .inr ⟨rfl, hin, ?_, ?_⟩⟩
    · rw [hst, hfin]
      exact .cons (.inr ⟨idx, a, hidx, ha, hsh⟩) (hfin ▸ hadjf)
    · rw [hst, List.length_cons]
      omega
  · have hfuel : accFuel F cH.states.length ≤ af := by
      refine Nat.le_trans (accFuel_mono ?_) haf
      rw [hcs]; omega
    obtain ⟨r, her, hr⟩ := enterRecovery_norec hT hrec (hcs ▸ hadjf) hfuel (some (tok, idx)) false
    rw [her] at he
    cases he
    exact ⟨n, _, _, d, hrun, by omega, .inl ⟨⟨r, rfl, hr⟩, by omega⟩⟩

/-- the phase `.eof` (the loop of `parse_eof`) -/
theorem eof_phase (hT : TermOK T F) (hrec : T.usesRecovery = false)
    (c : Cfg) (hadj : Adj T c.states) (haf : accFuel F (c.states.length + F) ≤ af) :
    ∃ n c' r, run T af failAt startLoc n c .eof = (c', .done r) ∧ r ≠ .panic .outOfFuel ∧
      n ≤ (F + 1) * (c.states.length + F) + F + 1 := by
  obtain ⟨N, fin, d, hit, hh, hN, hd⟩ :=
    phase_term hT (la := none) trivial c.states.length c.states (Nat.le_refl _) hadj
  have hadjf : Adj T fin := hadj.iter hT hit
  obtain ⟨n, c', ph', hn, hrun, hres⟩ :=
    eof_follow (af := af) (failAt := failAt) (startLoc := startLoc) hit hh c rfl
  have hmul : (F + 1) * d ≤ (F + 1) * (c.states.length + F) := Nat.mul_le_mul_left _ (by omega)
  rcases hres with ⟨r, rfl, hr⟩ | ⟨cH, hcs, _, he, _⟩
  · exact ⟨n, c', r, hrun, hr, by omega⟩
  · have hfuel : accFuel F cH.states.length ≤ af := by
      refine Nat.le_trans (accFuel_mono ?_) haf
      rw [hcs]; omega
    obtain ⟨r, her, hr⟩ := enterRecovery_norec hT hrec (hcs ▸ hadjf) hfuel none true
    rw [her] at he
    cases he
    exact ⟨n, _, r, hrun, hr, by omega⟩

theorem run_step_then {c c1 : Cfg} {ph ph1 : Phase} (h : step T af failAt startLoc c ph = (c1, ph1))
    (n : Nat) : run T af failAt startLoc (n + 1) c ph = run T af failAt startLoc n c1 ph1 := by
  rw [run_succ, h]

/-- the whole run from a `.pull` configuration -/
theorem pull_terminates (hT : TermOK T F) (hrec : T.usesRecovery = false) :
    ∀ (input : List Item) (c : Cfg), c.input = input →
      (∀ t k, Item.tok t ∈ input → t.kind = some k → k < T.nTerm) → Adj T c.states →
      accFuel F (c.states.length + (input.length + 1) * (F + 1)) ≤ af →
      ∃ n c' r, run T af failAt startLoc n c .pull = (c', .done r) ∧ r ≠ .panic .outOfFuel ∧
        n ≤ (F + 1) * c.states.length + (input.length + 1) * termM F := by
  intro input
  induction input with
  | nil =>
    intro c hc _ hadj haf
    have hstep : step T af failAt startLoc c .pull = ({ c with pulled := c.pulled + 1 }, .eof) := by
      simp only [step, nextToken, hc]
    have haf' : accFuel F (c.states.length + F) ≤ af := by
      refine Nat.le_trans (accFuel_mono ?_) haf
      simp only [List.length_nil, Nat.zero_add, Nat.one_mul]
      omega
    obtain ⟨n, c', r, hrun, hr, hn⟩ := eof_phase (failAt := failAt) (startLoc := startLoc) hT hrec
      { c with pulled := c.pulled + 1 } hadj haf'
    refine ⟨n + 1, c', r, by rw [run_step_then hstep]; exact hrun, hr, ?_⟩
    simp only [List.length_nil, Nat.zero_add, Nat.one_mul, termM]
    simp only [Nat.mul_add (F + 1) c.states.length F] at hn
    have : (F + 1) * F ≤ (F + 1) * (F + 1) := Nat.mul_le_mul_left _ (by omega)
    omega
  | cons it rest ih =>
    intro c hc hin hadj haf
    have hlen : (it :: rest).length + 1 = (rest.length + 1) + 1 := by simp
    have hsplitF : ((rest.length + 1) + 1) * (F + 1) = (rest.length + 1) * (F + 1) + (F + 1) := by
      rw [Nat.add_mul, Nat.one_mul]
    have hsplitM : ((rest.length + 1) + 1) * termM F = (rest.length + 1) * termM F + termM F := by
      rw [Nat.add_mul, Nat.one_mul]
    rw [hlen, hsplitF] at haf
    rw [hlen, hsplitM]
    cases it with
    | err e =>
      have hstep : step T af failAt startLoc c .pull =
          ({ c with input := rest, pulled := c.pulled + 1 }, .done (.err (.user e))) := by
        simp only [step, nextToken, hc]
      refine ⟨1, _, _, by rw [run_one, hstep], by simp, ?_⟩
      have hM : termM F = (F + 1) * (F + 1) + F + 2 := rfl
      omega
    | tok t =>
      cases hk : t.kind with
      | none =>
        -- `token_to_index` fails: `unrecognized_token_error`, at once
        let c1 : Cfg := { c with input := rest, pulled := c.pulled + 1, lastLoc := t.r }
        have hfuel : accFuel F c1.states.length ≤ af := by
          refine Nat.le_trans (accFuel_mono ?_) haf
          show c.states.length ≤ _
          omega
        have hne := unrecognizedError_ne_fuel hT (c := c1) hadj hfuel (some t)
        have hstep : ∃ r, step T af failAt startLoc c .pull = (c1, .done r) ∧ r ≠ .panic .outOfFuel := by
          simp only [step, nextToken, hc, hk]
          cases hu : unrecognizedError T af c1 (some t) with
          | error e =>
            refine ⟨.panic e, rfl, ?_⟩
            intro h
            cases h
            exact hne hu
          | ok pe => exact ⟨.err pe, rfl, by simp⟩
        obtain ⟨r, hstep, hr⟩ := hstep
        refine ⟨1, _, _, by rw [run_one, hstep], hr, ?_⟩
        have hM : termM F = (F + 1) * (F + 1) + F + 2 := rfl
        omega
      | some i =>
        have hi : i < T.nTerm := hin t i (by simp) hk
        let c1 : Cfg := { c with input := rest, pulled := c.pulled + 1, lastLoc := t.r }
        have hstep : step T af failAt startLoc c .pull = (c1, .act t i) := by
          simp only [step, nextToken, hc, hk]
          rfl
        have haf1 : accFuel F (c1.states.length + F) ≤ af := by
          refine Nat.le_trans (accFuel_mono ?_) haf
          show c.states.length + F ≤ _
          omega
        obtain ⟨n1, c2, ph2, d, hrun1, hn1, hres⟩ :=
          act_phase (failAt := failAt) (startLoc := startLoc) hT hrec hi t c1 hadj haf1
        have hc1s : c1.states.length = c.states.length := rfl
        rcases hres with ⟨⟨r, rfl, hr⟩, hd⟩ | ⟨rfl, hin2, hadj2, hlen2⟩
        · refine ⟨n1 + 1, c2, r, by rw [run_step_then hstep]; exact hrun1, hr, ?_⟩
          have h1 : (F + 1) * d ≤ (F + 1) * (c.states.length + F) := Nat.mul_le_mul_left _ (hc1s ▸ hd)
          rw [Nat.mul_add] at h1
          have h2 : (F + 1) * F ≤ (F + 1) * (F + 1) := Nat.mul_le_mul_left _ (by omega)
          have hM : termM F = (F + 1) * (F + 1) + F + 2 := rfl
          omega
        · -- shifted: the rest of the stream, by induction
          have hin' : ∀ t k, Item.tok t ∈ rest → t.kind = some k → k < T.nTerm :=
            fun t k hm => hin t k (List.mem_cons_of_mem _ hm)
          have haf2 : accFuel F (c2.states.length + (rest.length + 1) * (F + 1)) ≤ af := by
            refine Nat.le_trans (accFuel_mono ?_) haf
            rw [hc1s] at hlen2
            omega
          obtain ⟨n2, c3, r, hrun2, hr, hn2⟩ := ih c2 hin2 hin' hadj2 haf2
          refine ⟨n1 + n2 + 1, c3, r, ?_, hr, ?_⟩
          · rw [run_step_then hstep, run_add, hrun1]
            exact hrun2
          · rw [hc1s] at hlen2
            have h1 : (F + 1) * (c2.states.length + d) ≤ (F + 1) * (c.states.length + (F + 1)) :=
              Nat.mul_le_mul_left _ hlen2
            rw [Nat.mul_add, Nat.mul_add] at h1
            have hM : termM F = (F + 1) * (F + 1) + F + 2 := rfl
            omega

/-- from the initial configuration, without error recovery -/
theorem init_terminates (hT : TermOK T F) (hrec : T.usesRecovery = false) (input : List Item)
    (hin : ∀ t k, Item.tok t ∈ input → t.kind = some k → k < T.nTerm)
    (haf : termAccFuel F input.length ≤ af) :
    ∃ n c r, n ≤ termBound F input.length ∧
      run T af failAt startLoc n (init startLoc input) .pull = (c, .done r) ∧ r ≠ .panic .outOfFuel := by
  obtain ⟨n, c, r, hrun, hr, hn⟩ := pull_terminates (af := af) (failAt := failAt) (startLoc := startLoc)
    hT hrec input (init startLoc input) rfl hin .base haf
  refine ⟨n, c, r, ?_, hrun, hr⟩
  have : (init startLoc input).states.length = 1 := rfl
  rw [this, Nat.mul_one] at hn
  exact hn

end LalrpopModel.LR.Term
