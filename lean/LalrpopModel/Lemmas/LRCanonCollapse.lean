import LalrpopModel.Lemmas.LRCanonConflicts
/-!
M-CANON lemmas, part 2: the worklist of `buildStates` accumulates exactly the conflicts of the
states it builds; the LALR collapse (`internAll`, `members`, `mmCollect`, `redCollect`).
-/
namespace LalrpopModel.LR.Canon

open LalrpopModel.LR

/-! ### `buildLoop`: states only grow, conflicts are those of the new states -/

theorem buildLoop_spec (G : Grammar) (fs : List TokenSet) :
    ∀ (fuel : Nat) (all : List (List Item)) (states : List State) (confl : List Conflict) (b : Built),
      buildLoop G fs fuel all states confl = some b →
      ∃ more, b.states = states ++ more ∧ b.conflicts = confl ++ more.flatMap conflicts := by
  intro fuel
  induction fuel with
  | zero => intro all states confl b h; simp [buildLoop] at h
  | succ k ih =>
    intro all states confl b h
    unfold buildLoop at h
    split at h
    · simp at h
      exact ⟨[], by simp [← h], by simp [← h]⟩
    · split at h
      · simp at h
      · obtain ⟨more, h1, h2⟩ := ih _ _ _ _ h
        exact ⟨_ :: more, by rw [h1, List.append_assoc]; rfl,
          by rw [h2, List.append_assoc]; rfl⟩

theorem buildStates_conflicts {G : Grammar} {fuel : Nat} {b : Built} (h : buildStates G fuel = some b) :
    b.conflicts = b.states.flatMap conflicts := by
  unfold buildStates at h
  split at h
  · obtain ⟨more, h1, h2⟩ := buildLoop_spec _ _ _ _ _ _ _ h
    simp at h1 h2
    rw [h1, h2]
  · simp at h

/-! ### interning of LR(0) kernels -/

theorem lookupIdx_some {k : List Item0} {tbl : List (List Item0)} {i : Nat}
    (h : lookupIdx k tbl = some i) : tbl[i]? = some k := by
  induction tbl generalizing i with
  | nil => simp [lookupIdx] at h
  | cons x xs ih =>
    simp only [lookupIdx] at h
    split at h
    · rename_i hx; simp at h; subst h; simp [hx]
    · cases hl : lookupIdx k xs with
      | none => simp [hl] at h
      | some j =>
        simp [hl] at h
        subst h
        simpa using ih hl

theorem lookupIdx_none {k : List Item0} {tbl : List (List Item0)}
    (h : lookupIdx k tbl = none) : k ∉ tbl := by
  induction tbl with
  | nil => simp
  | cons x xs ih =>
    simp only [lookupIdx] at h
    split at h
    · simp at h
    · rename_i hx
      cases hl : lookupIdx k xs with
      | none =>
        simp only [List.mem_cons, not_or]
        exact ⟨fun e => hx e.symm, ih hl⟩
      | some j => simp [hl] at h

/-- `internAll ks tbl`: the table grows by appending, stays duplicate free, entry `remap[i]` of
    the final table is `ks[i]`, and every new index is the image of some `i` -/
theorem internAll_spec (ks : List (List Item0)) :
    ∀ (tbl : List (List Item0)), tbl.Nodup →
      (internAll ks tbl).1.length = ks.length ∧
      (∃ ext, (internAll ks tbl).2 = tbl ++ ext) ∧
      (internAll ks tbl).2.Nodup ∧
      (∀ (i : Nat) k, ks[i]? = some k → ∃ m : Nat, (internAll ks tbl).1[i]? = some m ∧ (internAll ks tbl).2[m]? = some k) ∧
      (∀ m : Nat, m < (internAll ks tbl).2.length → tbl.length ≤ m → ∃ i : Nat, (internAll ks tbl).1[i]? = some m) := by
  induction ks with
  | nil =>
    intro tbl hnd
    refine ⟨rfl, ⟨[], by simp [internAll]⟩, hnd, ?_, ?_⟩
    · intro i k h; simp at h
    · intro m h1 h2; simp [internAll] at h1; omega
  | cons k ks ih =>
    intro tbl hnd
    cases hl : lookupIdx k tbl with
    | some j =>
      have hj := lookupIdx_some hl
      obtain ⟨h1, ⟨ext, h2⟩, h3, h4, h5⟩ := ih tbl hnd
      have e1 : (internAll (k :: ks) tbl).1 = j :: (internAll ks tbl).1 := by simp [internAll, hl]
      have e2 : (internAll (k :: ks) tbl).2 = (internAll ks tbl).2 := by simp [internAll, hl]
      rw [e1, e2]
      refine ⟨by simp [h1], ⟨ext, h2⟩, h3, ?_, ?_⟩
      · intro i k' hk
        cases i with
        | zero =>
          simp at hk; subst hk
          refine ⟨j, by simp, ?_⟩
          have hlt : j < tbl.length := by
            rcases List.getElem?_eq_some_iff.1 hj with ⟨h, _⟩; exact h
          rw [h2, List.getElem?_append_left hlt]; exact hj
        | succ i =>
          simp at hk
          obtain ⟨m, hm1, hm2⟩ := h4 i k' hk
          exact ⟨m, by simpa using hm1, hm2⟩
      · intro m hm1 hm2
        obtain ⟨i, hi⟩ := h5 m hm1 hm2
        exact ⟨i + 1, by simpa using hi⟩
    | none =>
      have hk := lookupIdx_none hl
      have hnd' : (tbl ++ [k]).Nodup := by
        rw [List.nodup_append]
        refine ⟨hnd, by simp, ?_⟩
        intro a ha b hb
        simp at hb; subst hb
        intro e; subst e; exact hk ha
      obtain ⟨h1, ⟨ext, h2⟩, h3, h4, h5⟩ := ih (tbl ++ [k]) hnd'
      have e1 : (internAll (k :: ks) tbl).1 = tbl.length :: (internAll ks (tbl ++ [k])).1 := by
        simp [internAll, hl]
      have e2 : (internAll (k :: ks) tbl).2 = (internAll ks (tbl ++ [k])).2 := by simp [internAll, hl]
      rw [e1, e2]
      refine ⟨by simp [h1], ⟨[k] ++ ext, by rw [h2, List.append_assoc]⟩, h3, ?_, ?_⟩
      · intro i k' hk'
        cases i with
        | zero =>
          simp at hk'; subst hk'
          refine ⟨tbl.length, by simp, ?_⟩
          rw [h2, List.getElem?_append_left (by simp)]
          exact List.getElem?_concat_length
        | succ i =>
          simp at hk'
          obtain ⟨m, hm1, hm2⟩ := h4 i k' hk'
          exact ⟨m, by simpa using hm1, hm2⟩
      · intro m hm1 hm2
        by_cases hm : m = tbl.length
        · exact ⟨0, by simp [hm]⟩
        · obtain ⟨i, hi⟩ := h5 m hm1 (by simp; omega)
          exact ⟨i + 1, by simpa using hi⟩

/-- two LR(1) states get the same LALR index iff their LR(0) kernels are equal -/
theorem internAll_remap_eq_iff (ks : List (List Item0)) (i j : Nat) (a b : List Item0) (m n : Nat)
    (hi : ks[i]? = some a) (hj : ks[j]? = some b)
    (hm : (internAll ks []).1[i]? = some m) (hn : (internAll ks []).1[j]? = some n) :
    m = n ↔ a = b := by
  obtain ⟨_, _, hnd, h4, _⟩ := internAll_spec ks [] List.nodup_nil
  obtain ⟨m', hm1, hm2⟩ := h4 i a hi
  obtain ⟨n', hn1, hn2⟩ := h4 j b hj
  rw [hm] at hm1; rw [hn] at hn1
  simp at hm1 hn1
  subst hm1; subst hn1
  constructor
  · intro e; subst e
    rw [hm2] at hn2; simpa using hn2
  · intro e; subst e
    have hlt : m < (internAll ks []).2.length := by
      rcases List.getElem?_eq_some_iff.1 hm2 with ⟨h, _⟩; exact h
    exact (List.getElem?_inj hlt hnd).1 (by rw [hm2, hn2])

/-! ### `members` -/

theorem mem_members {states : List State} {remap : List Nat} {k : Nat} {m : State} :
    m ∈ members states remap k ↔ ∃ i : Nat, states[i]? = some m ∧ remap[i]? = some k := by
  simp only [members, List.mem_filterMap]
  constructor
  · rintro ⟨p, hp, hk⟩
    split at hk
    · rename_i he
      simp at hk
      obtain ⟨i, hi⟩ := List.mem_iff_getElem?.1 hp
      rw [List.getElem?_zip_eq_some] at hi
      exact ⟨i, by rw [← hk]; exact hi.1, by rw [← he]; exact hi.2⟩
    · simp at hk
  · rintro ⟨i, h1, h2⟩
    refine ⟨(m, k), List.mem_iff_getElem?.2 ⟨i, List.getElem?_zip_eq_some.2 ⟨h1, h2⟩⟩, by simp⟩

/-! ### the item multimap: lookaheads are unioned per LR(0) core -/

/-- `tok` is a lookahead of core `c` somewhere in the item list -/
def HasLa (items : List Item) (c : Item0) (tok : Nat) : Prop :=
  ∃ it ∈ items, it.core = c ∧ tok ∈ it.la

theorem hasLa_mmPush (c : Item0) (la : TokenSet) (m : List Item) (c' : Item0) (tok : Nat) :
    HasLa (mmPush c la m).1 c' tok ↔ HasLa m c' tok ∨ (c = c' ∧ tok ∈ la) := by
  induction m with
  | nil =>
    simp [mmPush, HasLa, Item.core, mem_tsUnion]
  | cons it rest ih =>
    simp only [mmPush]
    split
    · rename_i hc
      simp only [HasLa, List.mem_cons, exists_eq_or_imp, Item.core, mem_tsUnion] at *
      constructor
      · rintro (⟨h1, h2 | h2⟩ | h)
        · exact Or.inl (Or.inl ⟨h1, h2⟩)
        · exact Or.inr ⟨by rw [← hc, ← h1], h2⟩
        · exact Or.inl (Or.inr h)
      · rintro ((⟨h1, h2⟩ | h) | ⟨h1, h2⟩)
        · exact Or.inl ⟨h1, Or.inl h2⟩
        · exact Or.inr h
        · exact Or.inl ⟨by rw [hc, h1], Or.inr h2⟩
    · split
      · simp only [HasLa, List.mem_cons, exists_eq_or_imp, Item.core, mem_tsUnion] at *
        constructor
        · rintro (⟨h1, h2⟩ | h)
          · simp at h2
            exact Or.inr ⟨by simpa using h1, h2⟩
          · exact Or.inl h
        · rintro (h | ⟨h1, h2⟩)
          · exact Or.inr h
          · subst h1; exact Or.inl ⟨rfl, by simp [h2]⟩
      · have ih' := ih
        simp only [HasLa, List.mem_cons, exists_eq_or_imp] at *
        rw [ih']
        constructor
        · rintro (h | h | h)
          · exact Or.inl (Or.inl h)
          · exact Or.inl (Or.inr h)
          · exact Or.inr h
        · rintro ((h | h) | h)
          · exact Or.inl h
          · exact Or.inr (Or.inl h)
          · exact Or.inr (Or.inr h)

theorem hasLa_foldl_mmPush (items m : List Item) (c : Item0) (tok : Nat) :
    HasLa (items.foldl (fun m it => (mmPush it.core it.la m).1) m) c tok ↔
      HasLa m c tok ∨ HasLa items c tok := by
  induction items generalizing m with
  | nil => simp [HasLa]
  | cons it rest ih =>
    rw [List.foldl_cons, ih, hasLa_mmPush]
    simp only [HasLa, List.mem_cons, exists_eq_or_imp]
    constructor
    · rintro ((h | h) | h)
      · exact Or.inl h
      · exact Or.inr (Or.inl h)
      · exact Or.inr (Or.inr h)
    · rintro (h | h | h)
      · exact Or.inl (Or.inl h)
      · exact Or.inl (Or.inr h)
      · exact Or.inr h

/-- `.collect::<Multimap<Lr0Item, TokenSet>>()`: the lookaheads of a core are the union of the
    lookaheads of all the collected items with that core -/
theorem hasLa_mmCollect (items : List Item) (c : Item0) (tok : Nat) :
    HasLa (mmCollect items) c tok ↔ HasLa items c tok := by
  unfold mmCollect
  rw [hasLa_foldl_mmPush]
  simp [HasLa]

/-! ### the reduction multimap -/

/-- `tok` is a lookahead of reducing production `p` -/
def RedLa (rs : List (TokenSet × Nat)) (p : Nat) (tok : Nat) : Prop :=
  ∃ r ∈ rs, r.2 = p ∧ tok ∈ r.1

theorem redLa_redPush (p : Nat) (la : TokenSet) (m : List (TokenSet × Nat)) (p' : Nat) (tok : Nat) :
    RedLa (redPush p la m) p' tok ↔ RedLa m p' tok ∨ (p = p' ∧ tok ∈ la) := by
  induction m with
  | nil => simp [redPush, RedLa, mem_tsUnion]
  | cons r rest ih =>
    simp only [redPush]
    split
    · rename_i hc
      simp only [RedLa, List.mem_cons, exists_eq_or_imp, mem_tsUnion] at *
      constructor
      · rintro (⟨h1, h2 | h2⟩ | h)
        · exact Or.inl (Or.inl ⟨by rw [hc]; exact h1, h2⟩)
        · exact Or.inr ⟨h1, h2⟩
        · exact Or.inl (Or.inr h)
      · rintro ((⟨h1, h2⟩ | h) | ⟨h1, h2⟩)
        · exact Or.inl ⟨by rw [← hc]; exact h1, Or.inl h2⟩
        · exact Or.inr h
        · exact Or.inl ⟨h1, Or.inr h2⟩
    · split
      · simp only [RedLa, List.mem_cons, exists_eq_or_imp, mem_tsUnion] at *
        constructor
        · rintro (⟨h1, h2⟩ | h)
          · simp at h2; exact Or.inr ⟨h1, h2⟩
          · exact Or.inl h
        · rintro (h | ⟨h1, h2⟩)
          · exact Or.inr h
          · exact Or.inl ⟨h1, by simp [h2]⟩
      · have ih' := ih
        simp only [RedLa, List.mem_cons, exists_eq_or_imp] at *
        rw [ih']
        constructor
        · rintro (h | h | h)
          · exact Or.inl (Or.inl h)
          · exact Or.inl (Or.inr h)
          · exact Or.inr h
        · rintro ((h | h) | h)
          · exact Or.inl h
          · exact Or.inr (Or.inl h)
          · exact Or.inr (Or.inr h)

theorem redLa_foldl_redPush (rs m : List (TokenSet × Nat)) (p : Nat) (tok : Nat) :
    RedLa (rs.foldl (fun m r => redPush r.2 r.1 m) m) p tok ↔ RedLa m p tok ∨ RedLa rs p tok := by
  induction rs generalizing m with
  | nil => simp [RedLa]
  | cons r rest ih =>
    rw [List.foldl_cons, ih, redLa_redPush]
    simp only [RedLa, List.mem_cons, exists_eq_or_imp]
    constructor
    · rintro ((h | h) | h)
      · exact Or.inl h
      · exact Or.inr (Or.inl h)
      · exact Or.inr (Or.inr h)
    · rintro (h | h | h)
      · exact Or.inl (Or.inl h)
      · exact Or.inl (Or.inr h)
      · exact Or.inr h

theorem redLa_redCollect (rs : List (TokenSet × Nat)) (p : Nat) (tok : Nat) :
    RedLa (redCollect rs) p tok ↔ RedLa rs p tok := by
  unfold redCollect
  rw [redLa_foldl_redPush]
  simp [RedLa]

/-! ### `allSome`, `lalrState` -/

theorem allSome_eq_some {α : Type} {l : List (Option α)} {r : List α} (h : allSome l = some r) :
    l = r.map some := by
  induction l generalizing r with
  | nil => simp [allSome] at h; subst h; rfl
  | cons x xs ih =>
    cases x with
    | none => simp [allSome] at h
    | some a =>
      simp only [allSome] at h
      cases hx : allSome xs with
      | none => simp [hx] at h
      | some r' =>
        simp [hx] at h
        subst h
        simp [ih hx]

theorem lalrState_some {states : List State} {remap : List Nat} {k : Nat} {st : State}
    (h : lalrState states remap k = some st) :
    st.index = k ∧
    st.items = mmCollect ((members states remap k).flatMap (·.items)) ∧
    st.reductions = redCollect ((members states remap k).flatMap (·.reductions)) := by
  unfold lalrState at h
  simp only at h
  split at h
  · simp at h; subst h; exact ⟨rfl, rfl, rfl⟩
  · simp at h

end LalrpopModel.LR.Canon
