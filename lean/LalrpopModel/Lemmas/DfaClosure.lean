import LalrpopModel.Lemmas.NfaPath
import LalrpopModel.Lemmas.Sort
import LalrpopModel.Model.Dfa
namespace LalrpopModel.Dfa
open LalrpopModel.Nfa

/-- `b` is reachable from `a` by Noop edges inside the same NFA -/
def EpsReach (nfas : List Nfa) (a b : Item) : Prop := a.1 = b.1 ∧ Path (nfaAt nfas a.1) a.2 [] b.2

theorem EpsReach.refl (nfas : List Nfa) (a : Item) : EpsReach nfas a a := ⟨rfl, .nil _⟩
theorem EpsReach.trans {nfas : List Nfa} {a b c : Item} (h1 : EpsReach nfas a b) (h2 : EpsReach nfas b c) :
    EpsReach nfas a c := by
  refine ⟨h1.1.trans h2.1, ?_⟩
  have := h2.2
  rw [← h1.1] at this
  exact h1.2.nil_trans this

def addNew (acc : List Item) (d : Item) : List Item := if acc.contains d then acc else acc ++ [d]

theorem foldl_addNew (derived items : List Item) :
    ∃ extra, derived.foldl addNew items = items ++ extra ∧ (∀ x, x ∈ extra → x ∈ derived) ∧
      ∀ d, d ∈ derived → d ∈ derived.foldl addNew items := by
  induction derived generalizing items with
  | nil => exact ⟨[], by simp, by simp, by simp⟩
  | cons d ds ih =>
    simp only [List.foldl_cons]
    obtain ⟨extra, h1, h2, h3⟩ := ih (addNew items d)
    by_cases hc : items.contains d = true
    · have hc' : d ∈ items := by simpa using hc
      have e : addNew items d = items := by simp [addNew, hc']
      rw [e] at h1 h3 ⊢
      refine ⟨extra, h1, fun x hx => List.mem_cons_of_mem _ (h2 x hx), ?_⟩
      intro x hx
      rcases List.mem_cons.mp hx with rfl | hx
      · rw [h1]; exact List.mem_append_left _ (by simpa using hc)
      · exact h3 x hx
    · have hc' : ¬ d ∈ items := by simpa using hc
      have e : addNew items d = items ++ [d] := by simp [addNew, hc']
      rw [e] at h1 h3 ⊢
      refine ⟨d :: extra, by rw [h1]; simp, ?_, ?_⟩
      · intro x hx
        rcases List.mem_cons.mp hx with rfl | hx
        · exact List.mem_cons_self
        · exact List.mem_cons_of_mem _ (h2 x hx)
      · intro x hx
        rcases List.mem_cons.mp hx with rfl | hx
        · rw [h1]; simp
        · exact h3 x hx

def NoopClosed (nfas : List Nfa) (S : List Item) : Prop :=
  ∀ it, it ∈ S → ∀ u, u ∈ noopOf (nfaAt nfas it.1) it.2 → (it.1, u) ∈ S

theorem closeLoop_spec (nfas : List Nfa) : ∀ (f : Nat) (items : List Item) (counter : Nat) (out : List Item),
    closeLoop nfas f items counter = some out →
    (∀ (i : Nat) (it : Item), i < counter → items[i]? = some it →
      ∀ u, u ∈ noopOf (nfaAt nfas it.1) it.2 → (it.1, u) ∈ items) →
    (∀ x, x ∈ out → ∃ y, y ∈ items ∧ EpsReach nfas y x) ∧ (∀ x, x ∈ items → x ∈ out) ∧
      NoopClosed nfas out := by
  intro f
  induction f with
  | zero => intro items counter out h; simp [closeLoop] at h
  | succ f ih =>
    intro items counter out h hclosed
    rw [closeLoop] at h
    split at h
    · rename_i hnone
      cases h
      refine ⟨fun x hx => ⟨x, hx, EpsReach.refl _ _⟩, fun x hx => hx, ?_⟩
      intro it hit u hu
      obtain ⟨i, hi⟩ := List.mem_iff_getElem?.mp hit
      have : i < counter := by
        have h1 := (List.getElem?_eq_some_iff.mp hi).1
        have h2 := List.getElem?_eq_none_iff.mp hnone
        omega
      exact hclosed i it this hi u hu
    · rename_i item hitem
      simp only at h
      obtain ⟨extra, he, hex, hder⟩ := foldl_addNew
        ((noopOf (nfaAt nfas item.1) item.2).map (fun t => (item.1, t))) items
      have hfold : (List.foldl (fun acc d => if acc.contains d = true then acc else acc ++ [d]) items
          ((noopOf (nfaAt nfas item.1) item.2).map (fun t => (item.1, t)))) =
          List.foldl addNew items ((noopOf (nfaAt nfas item.1) item.2).map (fun t => (item.1, t))) := rfl
      rw [hfold, he] at h
      have hlt : counter < items.length := (List.getElem?_eq_some_iff.mp hitem).1
      have hitem_mem : item ∈ items := List.mem_iff_getElem?.mpr ⟨counter, hitem⟩
      obtain ⟨h1, h2, h3⟩ := ih (items ++ extra) (counter + 1) out h (by
        intro i it hi hit u hu
        rw [List.getElem?_append, if_pos (by omega)] at hit
        by_cases hic : i = counter
        · subst hic
          rw [hitem] at hit; cases hit
          rw [← he]
          exact hder _ (List.mem_map.mpr ⟨u, hu, rfl⟩)
        · exact List.mem_append_left _ (hclosed i it (by omega) hit u hu))
      refine ⟨?_, fun x hx => h2 x (List.mem_append_left _ hx), h3⟩
      intro x hx
      obtain ⟨y, hy, hyx⟩ := h1 x hx
      rcases List.mem_append.mp hy with hy | hy
      · exact ⟨y, hy, hyx⟩
      · obtain ⟨t, ht, rfl⟩ := List.mem_map.mp (hex y hy)
        have hstep : EpsReach nfas item (item.1, t) := ⟨rfl, .eps _ t [] t ht (.nil t)⟩
        exact ⟨item, hitem_mem, hstep.trans hyx⟩

theorem mem_normItems (items : List Item) (x : Item) : x ∈ normItems items ↔ x ∈ items := by
  simp [normItems, List.mem_eraseDups, mem_isort]

theorem closed_path {nfas : List Nfa} {S : List Item} (hS : NoopClosed nfas S) {i s q : Nat} {w : List Nat}
    (hp : Path (nfaAt nfas i) s w q) (hw : w = []) (hs : (i, s) ∈ S) : (i, q) ∈ S := by
  induction hp with
  | nil s => exact hs
  | eps s u w q hu _ ih => exact ih hw (hS (i, s) hs u hu)
  | chr s u c w q hu _ ih => cases hw

/-- **closure correctness**: the result of `transitive_closure` is the set of items reachable from
the given ones by Noop edges -/
theorem closure_spec (nfas : List Nfa) (fuel : Nat) (items cl : List Item)
    (h : closure nfas fuel items = some cl) (x : Item) :
    x ∈ cl ↔ ∃ y, y ∈ items ∧ EpsReach nfas y x := by
  simp only [closure, Option.map_eq_some_iff] at h
  obtain ⟨out, hout, rfl⟩ := h
  obtain ⟨h1, h2, h3⟩ := closeLoop_spec nfas fuel items 0 out hout (fun i it hi => by omega)
  rw [mem_normItems]
  constructor
  · exact h1 x
  · rintro ⟨y, hy, heq, hp⟩
    have := closed_path h3 hp rfl (h2 y hy)
    rw [heq] at this
    exact this

end LalrpopModel.Dfa
