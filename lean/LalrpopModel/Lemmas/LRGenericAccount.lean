import LalrpopModel.Lemmas.LRGenericSpans
/-!
C16, full token accounting on the symbol stack (arbitrary tables, monotone token spans): the
tokens consumed so far split into consecutive segments, one per stack symbol, each segment lies
inside its symbol's span and contains the tokens the symbol's tree covers as a subsequence. For an
error symbol the segment is "tokens of the popped symbols ++ dropped tokens".
-/
namespace LalrpopModel.LR.Generic
open LalrpopModel.LR
variable {T : Tables} {af : Nat} {failAt : Option Nat} {startLoc : Int}

/-! ### stack shape -/

theorem findState_lt {oi : Option Term} {sl : Nat} {st : List Nat} {k top : Nat}
    (h : findState T af oi sl st k = .ok (some top)) : top < k := by
  induction k with
  | zero => simp [findState] at h
  | succ k ih =>
    simp only [findState] at h
    split at h
    · cases h
    · split at h
      · cases h
      · split at h
        · split at h
          · cases h
          · injection h with h; injection h with h; omega
          · have := ih h; omega
        · have := ih h; omega

/-- `states` is one longer than `symbols`; `error_recovery` remembers the right `states_len` -/
structure ShapeInv (c : Cfg) (ph : Phase) : Prop where
  len : phDone ph = false → c.states.length = c.symbols.length + 1
  sl : ∀ la e d sl fe, ph = .recFind la e d sl fe → sl = c.states.length

theorem ShapeInv.of_done (c : Cfg) (r : Outcome) : ShapeInv c (.done r) :=
  ⟨by simp [phDone], by intro la e d sl fe h; cases h⟩

theorem ShapeInv.step {c c' : Cfg} {ph ph' : Phase} (h : ShapeInv c ph)
    (hs : Step T af failAt startLoc c ph c' ph') : ShapeInv c' ph' := by
  cases hs with
  | done r => exact h
  | panic _ tag hd => exact .of_done _ _
  | pull _ nt hn =>
    have : c'.states = c.states ∧ c'.symbols = c.symbols := by cases hn <;> exact ⟨rfl, rfl⟩
    cases nt with
    | done r => exact .of_done _ _
    | eof => exact ⟨fun _ => by rw [this.1, this.2]; exact h.len rfl, by intro la e d sl fe hh; cases hh⟩
    | found t i => exact ⟨fun _ => by rw [this.1, this.2]; exact h.len rfl, by intro la e d sl fe hh; cases hh⟩
  | shift la idx top rest a target hst ha hsh =>
    exact ⟨fun _ => by simp [h.len rfl], by intro la e d sl fe hh; cases hh⟩
  | redCont _ p ls _ hctx hr =>
    have hnd : phDone ph = false := hctx.held_eq.1
    cases hr with
    | cont n A hn hlen hnf hlhs hst below more hss =>
      refine ⟨fun _ => ?_, ?_⟩
      · have h1 := h.len hnd
        have h2 : (c.states.drop n).length = (below :: more).length := by rw [hss]
        simp only [List.length_drop, List.length_cons] at h2
        simp only [pushCfg, popCfg, List.length_cons, List.length_drop]
        omega
      · intro la e d sl fe hh; subst hh; exact hctx.elim
  | redFin _ p ls _ r hctx hr => exact .of_done _ _
  | enterNoRec _ la fe ex hctx hex hrec => exact .of_done _ _
  | enterRec _ la fe ex hctx hex hrec =>
    have hnd : phDone ph = false := by cases ph <;> first | rfl | exact hctx.elim
    exact ⟨fun _ => h.len hnd, by intro la e d sl fe hh; cases hh⟩
  | toFind la e fe top rest a hst ha hnr =>
    exact ⟨fun _ => h.len rfl, by intro la e d sl fe hh; injection hh with _ _ _ h4 _; exact h4.symm⟩
  | push la e dropped sl fe top hf _ _ hp =>
    cases hp with
    | panic tag => exact .of_done _ _
    | ok l r hl hr rs rest hrs a ha es hes =>
      have hsl := h.sl _ _ _ _ _ rfl
      have htop := findState_lt hf
      have hlen := h.len rfl
      refine ⟨fun _ => ?_, ?_⟩
      · simp only [recCfg, truncBot, List.length_cons, List.length_drop]; omega
      · intro la' e' d' sl' fe' hh
        rcases la with _ | ⟨t, i⟩ <;> cases fe <;> cases hh
  | giveUp e dropped sl fe hf => exact .of_done _ _
  | drop t i e dropped sl fe hf _ nt hn =>
    have : c'.states = c.states ∧ c'.symbols = c.symbols := by cases hn <;> exact ⟨rfl, rfl⟩
    have hsl := h.sl _ _ _ _ _ rfl
    cases nt with
    | done r => exact .of_done _ _
    | eof =>
      exact ⟨fun _ => by rw [this.1, this.2]; exact h.len rfl,
        by intro la e d sl fe hh; injection hh with _ _ _ h4 _; rw [this.1, ← h4]; exact hsl⟩
    | found t i =>
      exact ⟨fun _ => by rw [this.1, this.2]; exact h.len rfl,
        by intro la e d sl fe hh; injection hh with _ _ _ h4 _; rw [this.1, ← h4]; exact hsl⟩

theorem ShapeInv.init (input : List Item) : ShapeInv (init startLoc input) .pull :=
  ⟨fun _ => rfl, by intro la e d sl fe hh; cases hh⟩


/-! ### segments -/

/-- token `t` lies inside the span of the stack symbol `s` -/
def Inside (s : SymTriple) (t : Tok) : Prop := s.1 ≤ t.l ∧ t.r ≤ s.2.2

/-- `toks` splits into consecutive segments, one per stack symbol (bottom symbol first); each
    segment lies inside its symbol's span and contains the tokens the symbol's tree covers -/
def Seg : List SymTriple → List Tok → Prop
  | [], toks => toks = []
  | s :: rest, toks => ∃ pre seg, toks = pre ++ seg ∧ Seg rest pre ∧ (∀ t ∈ seg, Inside s t) ∧
      (Tree.covered s.2.1).Sublist seg

theorem Seg.split {syms : List SymTriple} {toks : List Tok} (h : Seg syms toks) (n : Nat) :
    ∃ pre seg, toks = pre ++ seg ∧ Seg (syms.drop n) pre ∧
      (∀ t ∈ seg, ∃ s ∈ syms.take n, Inside s t) ∧ (stackCovered (syms.take n)).Sublist seg := by
  induction n generalizing syms toks with
  | zero => exact ⟨toks, [], by simp, by simpa using h, by simp, by simp [stackCovered, stackCollect]⟩
  | succ n ih =>
    cases syms with
    | nil => exact ⟨toks, [], by simp, by simpa using h, by simp, by simp [stackCovered, stackCollect]⟩
    | cons s rest =>
      obtain ⟨pre0, seg0, rfl, h1, h2, h3⟩ := h
      obtain ⟨pre1, seg1, rfl, g1, g2, g3⟩ := ih h1
      refine ⟨pre1, seg1 ++ seg0, by simp, by simpa using g1, ?_, ?_⟩
      · intro t ht
        rcases List.mem_append.mp ht with ht | ht
        · obtain ⟨s', hs', hin⟩ := g2 t ht
          exact ⟨s', by simp [hs'], hin⟩
        · exact ⟨s, by simp, h2 t ht⟩
      · simp only [List.take_succ_cons, stackCovered_cons]
        exact g3.append h3

theorem covered_reduceSym (c : Cfg) (p n : Nat) (ls : Option Int) :
    Tree.covered (reduceSym startLoc c p n ls).2.1 = stackCovered (c.symbols.take n) := by
  simp only [reduceSym, Tree.covered_node, Forest.covered, stackCovered]
  rw [Forest.collect_ofList, stackCollect_eq]
  simp [List.map_map, Function.comp_def]

/-- a symbol above another one starts at or after the lower one's start, and ends by `topEnd` -/
theorem Ordered.between {lo : Int} {syms : List SymTriple} (h : Ordered lo syms) {i j : Nat} (hij : i ≤ j)
    {a b : SymTriple} (hi : syms[i]? = some a) (hj : syms[j]? = some b) :
    b.1 ≤ a.1 ∧ a.2.2 ≤ topEnd lo syms := by
  obtain ⟨g1, g2, g3, g4⟩ := h.get hi
  refine ⟨?_, g4⟩
  by_cases heq : i = j
  · subst heq; rw [hi] at hj; injection hj with hj; subst hj; exact Int.le_refl _
  · have hb : b ∈ syms.drop (i + 1) := by
      apply List.mem_iff_getElem?.mpr
      exact ⟨j - (i + 1), by rw [List.getElem?_drop]; rw [← hj]; congr 1; omega⟩
    have := g1.mem hb
    omega

theorem mem_take_index {α : Type} {l : List α} {n : Nat} {x : α} (h : x ∈ l.take n) :
    ∃ i, i < n ∧ l[i]? = some x := by
  obtain ⟨i, hi, rfl⟩ := List.mem_iff_getElem.mp h
  simp only [List.length_take] at hi
  exact ⟨i, by omega, by simp [List.getElem_take]⟩


/-- the new node's span contains the span of every popped symbol -/
theorem reduceSym_contains (c : Cfg) (p : Nat) (ls : Option Int) {n : Nat} (hn : n ≤ c.symbols.length)
    (hord : Ordered startLoc c.symbols) {s : SymTriple} (hs : s ∈ c.symbols.take n) :
    (reduceSym startLoc c p n ls).1 ≤ s.1 ∧ s.2.2 ≤ (reduceSym startLoc c p n ls).2.2 := by
  obtain ⟨i, hi, hsi⟩ := mem_take_index hs
  have hpos : 0 < n := by omega
  obtain ⟨f, hd, hf, hhd, e1, e2⟩ := reduceSym_span_pos (startLoc := startLoc) c p ls hpos hn
  rw [e1, e2, ← topEnd_of_head (lo := startLoc) hhd]
  exact hord.between (by omega) hsi hf

/-- the accounting invariant: consumed tokens = segments of the stack ++ tokens held by the phase -/
def SegInv (input : List Item) (c : Cfg) (ph : Phase) : Prop :=
  phDone ph = false → ∃ pre, toksOf (input.take c.pulled) = pre ++ held ph ∧ Seg c.symbols pre

theorem SegInv.of_done {input : List Item} (c : Cfg) (r : Outcome) : SegInv input c (.done r) := by
  intro h; simp [phDone] at h

theorem recStart_popped {c : Cfg} {dropped : List Tok} {top : Nat} {l : Int} (htop : top < c.symbols.length)
    (hl : recStart startLoc c dropped top = .ok l) :
    ∃ f, c.symbols[c.symbols.length - 1 - top]? = some f ∧ l = f.1 := by
  unfold recStart getBot at hl
  simp only [htop, ↓reduceIte] at hl
  have : c.symbols.length - 1 - top < c.symbols.length := by omega
  rw [List.getElem?_eq_getElem this] at hl
  simp only at hl
  injection hl with hl
  exact ⟨_, List.getElem?_eq_getElem this, hl.symm⟩

theorem recEnd_ge {c : Cfg} {la : Option (Tok × Term)} {dropped : List Tok} {sl top : Nat} {l r : Int}
    (hch : MonoFrom (topEnd startLoc c.symbols) (dropped ++ laToks la))
    (hl2 : dropped ≠ [] → lastOf l dropped = lastOf (topEnd startLoc c.symbols) dropped)
    (htop : top < c.symbols.length) (hsl : sl = c.symbols.length + 1)
    (hr : recEnd c la dropped sl top l = .ok r) : topEnd startLoc c.symbols ≤ r := by
  unfold recEnd at hr
  cases hg : dropped.getLast? with
  | some d =>
    rw [hg] at hr
    simp only at hr
    injection hr with hr
    have hne : dropped ≠ [] := by intro hc; rw [hc] at hg; cases hg
    rw [← hr, ← lastOf_eq_getLast (lo := l) hg, hl2 hne]
    exact (monoFrom_append.mp hch).1.le_lastOf
  | none =>
    rw [hg] at hr
    simp only at hr
    have : sl - 1 > top := by omega
    simp only [this, ↓reduceIte] at hr
    cases hsy : c.symbols with
    | nil => rw [hsy] at htop; simp at htop
    | cons s rest =>
      rw [hsy] at hr
      simp only [List.head?_cons] at hr
      injection hr with hr
      rw [topEnd_cons, hr]
      exact Int.le_refl _

theorem SegInv.step {input : List Item} {c c' : Cfg} {ph ph' : Phase}
    (hio : IOInv T startLoc input c ph) (hsp : SpanInv startLoc c ph) (hsh : ShapeInv c ph)
    (h : SegInv input c ph) (hs : Step T af failAt startLoc c ph c' ph') : SegInv input c' ph' := by
  cases hs with
  | done r => exact h
  | panic _ tag hd => exact .of_done _ _
  | pull _ nt hn =>
    obtain ⟨h1, h2, h3⟩ := next_take hn hio.inp
    obtain ⟨pre, hpre, hseg⟩ := h rfl
    simp only [held, List.append_nil] at hpre
    cases nt with
    | eof => intro _; exact ⟨pre, by rw [h3, hpre]; simp [pullK, held], by rw [h1]; exact hseg⟩
    | found t i => intro _; exact ⟨pre, by rw [h3]; simp [pullK, held, hpre], by rw [h1]; exact hseg⟩
    | done r => exact .of_done _ _
  | shift la idx top rest a target hst ha hsh' =>
    obtain ⟨pre, hpre, hseg⟩ := h rfl
    intro _
    refine ⟨pre ++ [la], by simpa [held] using hpre, pre, [la], rfl, hseg, ?_, by simp⟩
    intro t ht
    simp at ht; subst ht
    exact ⟨Int.le_refl _, Int.le_refl _⟩
  | redCont _ p ls _ hctx hr =>
    have hnd : phDone ph = false := hctx.held_eq.1
    obtain ⟨pre, hpre, hseg⟩ := h hnd
    cases hr with
    | cont n A hn hlen hnf hlhs hst below more hss =>
      obtain ⟨pre1, seg, rfl, g1, g2, g3⟩ := hseg.split n
      intro _
      refine ⟨pre1 ++ seg, hpre, pre1, seg, rfl, g1, ?_, by rw [covered_reduceSym]; exact g3⟩
      intro t ht
      obtain ⟨s, hs, hin⟩ := g2 t ht
      have := reduceSym_contains (startLoc := startLoc) c p ls hn (hsp.ord hnd) hs
      exact ⟨by have := hin.1; omega, by have := hin.2; omega⟩
  | redFin _ p ls _ r hctx hr => exact .of_done _ _
  | enterNoRec _ la fe ex hctx hex hrec => exact .of_done _ _
  | enterRec _ la fe ex hctx hex hrec =>
    cases ph with
    | act t idx => obtain ⟨rfl, -, -⟩ := hctx; intro _; exact h rfl
    | eof => obtain ⟨rfl, -, -⟩ := hctx; intro _; exact h rfl
    | _ => exact hctx.elim
  | toFind la e fe top rest a hst ha hnr =>
    intro _
    obtain ⟨pre, hpre, hseg⟩ := h rfl
    exact ⟨pre, by simpa [held] using hpre, hseg⟩
  | push la e dropped sl fe top hf _ _ hp =>
    cases hp with
    | panic tag => exact .of_done _ _
    | ok l r hl hr rs rest hrs a ha es hes =>
      intro hnd'
      obtain ⟨pre, hpre, hseg⟩ := h rfl
      have hord := hsp.ord rfl
      have hch := hsp.chain rfl
      have hla := hsp.last rfl
      simp only [held] at hch hla hpre
      obtain ⟨s1, s2, s3⟩ := recStart_facts hord hch hl
      obtain ⟨r1, r2, r3, r4⟩ := recEnd_facts hch hla s2 s3 hr
      obtain ⟨pre1, seg, rfl, g1, g2, g3⟩ := hseg.split (c.symbols.length - top)
      have hheld : held (afterPh la fe) = laToks la := by
        rcases la with _ | ⟨t, i⟩
        · cases fe <;> rfl
        · cases fe with
          | false => rfl
          | true => simp [afterPh, phDone] at hnd'
      have hpre' : toksOf (input.take (recCfg c es top (l, Tree.err e dropped, r)).pulled) =
          pre1 ++ (seg ++ dropped) ++ laToks la := by
        show toksOf (input.take c.pulled) = _
        rw [hpre]; simp
      refine ⟨pre1 ++ (seg ++ dropped), by rw [hheld]; exact hpre', pre1, seg ++ dropped, rfl, g1, ?_,
        by simp⟩
      intro t ht
      rcases List.mem_append.mp ht with ht | ht
      · obtain ⟨s, hs, hin⟩ := g2 t ht
        obtain ⟨i, hi, hsi⟩ := mem_take_index hs
        have htop : top < c.symbols.length := by omega
        obtain ⟨f, hf, hlf⟩ := recStart_popped htop hl
        have hb := hord.between (i := i) (j := c.symbols.length - 1 - top) (by omega) hsi hf
        have hsl := hsh.sl _ _ _ _ _ rfl
        have hlen := hsh.len rfl
        have hge := recEnd_ge hch (fun hne => (s3 hne).2) htop (by omega) hr
        exact ⟨by show l ≤ t.l; have := hin.1; omega, by show t.r ≤ r; have := hin.2; omega⟩
      · exact r2 t ht
  | giveUp e dropped sl fe hf => exact .of_done _ _
  | drop t i e dropped sl fe hf _ nt hn =>
    obtain ⟨h1, h2, h3⟩ := next_take hn hio.inp
    obtain ⟨pre, hpre, hseg⟩ := h rfl
    simp only [held, laToks] at hpre
    cases nt with
    | eof => intro _; exact ⟨pre, by rw [h3, hpre]; simp [dropK, held, laToks], by rw [h1]; exact hseg⟩
    | found t' i' =>
      intro _; exact ⟨pre, by rw [h3]; simp [dropK, held, laToks, hpre], by rw [h1]; exact hseg⟩
    | done r => exact .of_done _ _

theorem seginv_of_run {input : List Item} (hmono : MonoFrom startLoc (toksOf input)) {n : Nat} {c : Cfg}
    {ph : Phase} (h : run T af failAt startLoc n (init startLoc input) .pull = (c, ph)) :
    SegInv input c ph := by
  have := run_inv T af failAt startLoc
    (fun c ph => (IOInv T startLoc input c ph ∧ SpanInv startLoc c ph ∧ ShapeInv c ph) ∧ SegInv input c ph)
    (fun c ph h => ⟨⟨h.1.1.step (step_spec T af failAt startLoc c ph),
      h.1.2.1.step hmono h.1.1 (step_spec T af failAt startLoc c ph),
      h.1.2.2.step (step_spec T af failAt startLoc c ph)⟩,
      h.2.step h.1.1 h.1.2.1 h.1.2.2 (step_spec T af failAt startLoc c ph)⟩)
    (c0 := init startLoc input) (ph0 := .pull)
    ⟨⟨IOInv.init T startLoc _, SpanInv.init _, ShapeInv.init _⟩,
      fun _ => ⟨[], by simp [LR.init, held], rfl⟩⟩ n
  rw [h] at this
  exact this.2

end LalrpopModel.LR.Generic
