import LalrpopModel.Lemmas.PrecReplace
/-!
The level/associativity fold of `expand_nonterm` (`annotate`) in closed form: what an
alternative declares itself (`ownLevel`, `ownAssoc`), what it inherits, and which attributes
are stripped.
-/
namespace LalrpopModel.Prec
open LalrpopModel.PT

theorem removeFirst_eq (p : Attr → Bool) (l : List Attr) :
    removeFirst p l = (l.find? p).map (fun a => (a, l.eraseP p)) := by
  induction l with
  | nil => rfl
  | cons a as ih =>
    simp only [removeFirst, List.find?_cons, List.eraseP_cons]
    cases h : p a with
    | true => simp
    | false =>
      simp only [ih]
      cases as.find? p <;> simp

theorem find?_eraseP_of_disjoint (p q : Attr → Bool) (l : List Attr)
    (h : ∀ a, p a = true → q a = false) : (l.eraseP p).find? q = l.find? q := by
  induction l with
  | nil => rfl
  | cons a as ih =>
    simp only [List.eraseP_cons]
    cases hp : p a with
    | true => simp [h a hp]
    | false => simp [List.find?_cons, ih]

theorem eraseP_of_find?_none (p : Attr → Bool) (l : List Attr) (h : l.find? p = none) :
    l.eraseP p = l := by
  apply List.eraseP_of_forall_not
  intro a ha
  have := List.find?_eq_none.mp h a ha
  simpa using this

abbrev isPrec : Attr → Bool := fun a => a.id = PREC_ATTR
abbrev isAssoc : Attr → Bool := fun a => a.id = ASSOC_ATTR

theorem prec_ne_assoc : PREC_ATTR ≠ ASSOC_ATTR := by decide

theorem isPrec_not_isAssoc (a : Attr) (h : isPrec a = true) : isAssoc a = false := by
  simp only [isPrec, isAssoc, decide_eq_true_eq, decide_eq_false_iff_not] at *
  rw [h]; exact prec_ne_assoc

/-- the first `precedence` attribute of an alternative -/
def precAttr (alt : Alt) : Option Attr := alt.attrs.find? isPrec
/-- the first `assoc` attribute of an alternative -/
def assocAttr (alt : Alt) : Option Attr := alt.attrs.find? isAssoc

/-- value of the first argument `key = "value"` of an attribute (the key is not looked at here) -/
def argValue (a : Attr) : Option Str := a.getArgEqual.map (·.2)

/-- the level an alternative declares itself -/
def ownLevel (alt : Alt) : Option Nat := (precAttr alt).bind fun p => (argValue p).bind parseU32
/-- the associativity an alternative declares itself -/
def ownAssoc (alt : Alt) : Option Assoc := (assocAttr alt).bind fun p => (argValue p).bind Assoc.parse

/-- the alternative without its first `precedence` and its first `assoc` attribute -/
def stripAttrs (alt : Alt) : Alt :=
  { alt with attrs := (alt.attrs.eraseP isPrec).eraseP isAssoc }

/-- an alternative's annotations can be read: every attribute that is present has a parsable value -/
def Readable (alt : Alt) : Prop :=
  ((precAttr alt).isSome → (ownLevel alt).isSome) ∧ ((assocAttr alt).isSome → (ownAssoc alt).isSome)

/-- effective level/associativity of an alternative given those of its predecessor -/
def effLevel (prevLvl : Nat) (alt : Alt) : Nat := (ownLevel alt).getD prevLvl
def effAssoc (prevAssoc : Assoc) (alt : Alt) : Assoc :=
  (ownAssoc alt).getD (if (precAttr alt).isSome then .fullyAssoc else prevAssoc)

theorem takeLevel_eq (l0 : Nat) (a0 : Assoc) (attrs : List Attr) :
    takeLevel l0 a0 attrs =
      match attrs.find? isPrec with
      | none => .ok (l0, a0, attrs)
      | some p =>
        match argValue p with
        | none => .error .argUnwrap
        | some v =>
          match parseU32 v with
          | none => .error .levelParse
          | some l => .ok (l, .fullyAssoc, attrs.eraseP isPrec) := by
  unfold takeLevel
  rw [removeFirst_eq]
  cases attrs.find? isPrec with
  | none => rfl
  | some p =>
    simp only [Option.map_some, argValue]
    cases p.getArgEqual with
    | none => rfl
    | some kv => rfl

theorem takeAssoc_eq (a0 : Assoc) (attrs : List Attr) :
    takeAssoc a0 attrs =
      match attrs.find? isAssoc with
      | none => .ok (a0, attrs)
      | some p =>
        match argValue p with
        | none => .error .argUnwrap
        | some v =>
          match Assoc.parse v with
          | none => .error .assocParse
          | some a => .ok (a, attrs.eraseP isAssoc) := by
  unfold takeAssoc
  rw [removeFirst_eq]
  cases attrs.find? isAssoc with
  | none => rfl
  | some p =>
    simp only [Option.map_some, argValue]
    cases p.getArgEqual with
    | none => rfl
    | some kv => rfl

/-- one step of the fold on a readable alternative -/
theorem annotStep_readable (l0 : Nat) (a0 : Assoc) (alt : Alt) (h : Readable alt) :
    annotStep l0 a0 alt = .ok { lvl := effLevel l0 alt, assoc := effAssoc a0 alt, alt := stripAttrs alt } := by
  obtain ⟨h1, h2⟩ := h
  unfold annotStep
  rw [takeLevel_eq]
  unfold ownLevel precAttr at h1
  unfold ownAssoc assocAttr at h2
  unfold effLevel effAssoc ownLevel ownAssoc precAttr assocAttr stripAttrs
  have hd := find?_eraseP_of_disjoint isPrec isAssoc alt.attrs isPrec_not_isAssoc
  cases hp : alt.attrs.find? isPrec with
  | none =>
    simp only [takeAssoc_eq, eraseP_of_find?_none _ _ hp]
    cases ha : alt.attrs.find? isAssoc with
    | none => simp [eraseP_of_find?_none _ _ ha]
    | some q =>
      simp only [ha] at h2
      cases hv : argValue q with
      | none => simp [hv] at h2
      | some v =>
        cases hx : Assoc.parse v with
        | none => simp [hv, hx] at h2
        | some x => simp [hv, hx]
  | some p =>
    simp only [hp] at h1
    cases hv : argValue p with
    | none => simp [hv] at h1
    | some v =>
      cases hl : parseU32 v with
      | none => simp [hv, hl] at h1
      | some l =>
        simp only [takeAssoc_eq, hd]
        cases ha : alt.attrs.find? isAssoc with
        | none =>
          have he : (alt.attrs.eraseP isPrec).eraseP isAssoc = alt.attrs.eraseP isPrec :=
            eraseP_of_find?_none isAssoc (alt.attrs.eraseP isPrec) (by rw [hd]; exact ha)
          simp [hv, hl, hd, ha, he]
        | some q =>
          simp only [ha] at h2
          cases hv2 : argValue q with
          | none => simp [hv2] at h2
          | some v2 =>
            cases hx : Assoc.parse v2 with
            | none => simp [hv2, hx] at h2
            | some x => simp [hv, hl, hd, ha, hv2, hx]

/-- conversely, the fold step succeeds only on readable alternatives -/
theorem readable_of_annotStep (l0 : Nat) (a0 : Assoc) (alt : Alt) (a : Ann)
    (h : annotStep l0 a0 alt = .ok a) : Readable alt := by
  unfold annotStep at h
  rw [takeLevel_eq] at h
  unfold Readable ownLevel ownAssoc precAttr assocAttr
  have hd := find?_eraseP_of_disjoint isPrec isAssoc alt.attrs isPrec_not_isAssoc
  cases hp : alt.attrs.find? isPrec with
  | none =>
    simp only [hp, takeAssoc_eq] at h
    refine ⟨by simp, ?_⟩
    cases ha : alt.attrs.find? isAssoc with
    | none => simp
    | some q =>
      simp only [ha] at h
      cases hv : argValue q with
      | none => simp [hv] at h
      | some v =>
        cases hx : Assoc.parse v with
        | none => simp [hv, hx] at h
        | some x => simp [hv, hx]
  | some p =>
    simp only [hp] at h
    cases hv : argValue p with
    | none => simp [hv] at h
    | some v =>
      cases hl : parseU32 v with
      | none => simp [hv, hl] at h
      | some l =>
        simp only [hv, hl, takeAssoc_eq, hd] at h
        refine ⟨by simp [hv, hl], ?_⟩
        cases ha : alt.attrs.find? isAssoc with
        | none => simp
        | some q =>
          simp only [ha] at h
          cases hv2 : argValue q with
          | none => simp [hv2] at h
          | some v2 =>
            cases hx : Assoc.parse v2 with
            | none => simp [hv2, hx] at h
            | some x => simp [hv2, hx]

/-- the declarative counterpart of the fold: each alternative with its effective annotation -/
def inherit : Nat → Assoc → List Alt → List Ann
  | _, _, [] => []
  | l0, a0, alt :: alts =>
    { lvl := effLevel l0 alt, assoc := effAssoc a0 alt, alt := stripAttrs alt } ::
      inherit (effLevel l0 alt) (effAssoc a0 alt) alts

theorem annotate_readable (l0 : Nat) (a0 : Assoc) (alts : List Alt) (h : ∀ alt ∈ alts, Readable alt) :
    annotate l0 a0 alts = .ok (inherit l0 a0 alts) := by
  induction alts generalizing l0 a0 with
  | nil => rfl
  | cons alt alts ih =>
    simp only [annotate, inherit]
    rw [annotStep_readable l0 a0 alt (h alt (by simp))]
    simp only []
    rw [ih _ _ (fun x hx => h x (by simp [hx]))]

theorem readable_of_annotate (l0 : Nat) (a0 : Assoc) (alts : List Alt) (anns : List Ann)
    (h : annotate l0 a0 alts = .ok anns) : ∀ alt ∈ alts, Readable alt := by
  induction alts generalizing l0 a0 anns with
  | nil => simp
  | cons alt alts ih =>
    simp only [annotate] at h
    cases hs : annotStep l0 a0 alt with
    | error p => simp [hs] at h
    | ok a =>
      simp only [hs] at h
      cases hr : annotate a.lvl a.assoc alts with
      | error p => simp [hr] at h
      | ok rest =>
        intro x hx
        simp only [List.mem_cons] at hx
        cases hx with
        | inl e => rw [e]; exact readable_of_annotStep l0 a0 alt a hs
        | inr m => exact ih _ _ _ hr x m

/-- `annotate` succeeds exactly on readable alternatives, and then equals `inherit` -/
theorem annotate_ok_iff (l0 : Nat) (a0 : Assoc) (alts : List Alt) (anns : List Ann) :
    annotate l0 a0 alts = .ok anns ↔ (∀ alt ∈ alts, Readable alt) ∧ anns = inherit l0 a0 alts := by
  constructor
  · intro h
    have hr := readable_of_annotate l0 a0 alts anns h
    refine ⟨hr, ?_⟩
    rw [annotate_readable l0 a0 alts hr] at h
    exact (Except.ok.inj h).symm
  · rintro ⟨hr, rfl⟩
    exact annotate_readable l0 a0 alts hr

theorem inherit_length (l0 : Nat) (a0 : Assoc) (alts : List Alt) :
    (inherit l0 a0 alts).length = alts.length := by
  induction alts generalizing l0 a0 with
  | nil => rfl
  | cons alt alts ih => simp [inherit, ih]

end LalrpopModel.Prec
