import LalrpopModel.Lemmas.Build
/-!
The invariant behind C21/C22 and the case analysis of one `process_file_into` run, for every
`Variant` of the code.

`Honest Good v p d`: whatever grammar `g` the header of the file `d` is accepted for by
`needs_rebuild`, the file is `Good` for `g`.  `Good` is instantiated twice:
`Exact` (byte-identical to the output of a forced build) and `ModHeaderWs` (header accepted and
the part after the two header lines equal to the generated body).
-/

namespace LalrpopModel.Build

/-- Hypotheses on the parameters: the two header lines contain no newline and survive
    `read_line` + `trim` unchanged (true of `// auto-generated: "lalrpop x.y.z"` and of
    `// sha3: <hex>`; the driver re-checks them on the real strings on every run). -/
structure HeaderOk (p : Params) : Prop where
  v_nl : NL ∉ p.version
  h_nl : ∀ g, NL ∉ p.hash g
  v_utf8 : validUtf8 (p.version ++ [NL]) = true
  h_utf8 : ∀ g, validUtf8 (p.hash g ++ [NL]) = true
  v_trim : trim (p.version ++ [NL]) = p.version
  h_trim : ∀ g, trim (p.hash g ++ [NL]) = p.hash g

/-- the temporary file, if one is used, is opened with truncation (true of `fs::File::create`);
    without it the theorems about complete builds are false, see `stale_tmp_tail_kept` -/
def Variant.Sound (v : Variant) : Prop := v.tmpRename = true → v.truncTmp = true

theorem Variant.sound_of_not_tmp {v : Variant} (h : v.tmpRename = false) : v.Sound := by
  intro h'; rw [h] at h'; cases h'

/-- hash injectivity (explicit assumption: SHA3-256 collisions are not modelled) -/
def HashInj (p : Params) : Prop := ∀ g g', p.hash g = p.hash g' → g = g'

/-- the generator only succeeds on text that `FileText::from_path` could load -/
def GenUtf8 (p : Params) : Prop := ∀ g body, (p.gen g).result = .ok body → validUtf8 g = true

/-- `needs_rebuild` says "no": the header lines of `d` match the version and the hash of `g` -/
def Accepts (v : Variant) (p : Params) (g d : Bytes) : Prop := needsRebuild v p g (some d) = .ok false

def Honest (Good : Bytes → Bytes → Prop) (v : Variant) (p : Params) (d : Bytes) : Prop :=
  ∀ g, Accepts v p g d → Good g d

/-- every existing output is honest -/
def Inv (Good : Bytes → Bytes → Prop) (v : Variant) (p : Params) (st : St) : Prop :=
  ∀ i f, st.fs (.rs i) = some f → Honest Good v p f.data

/-- byte-identical to what a forced build of `g` writes -/
def Exact (p : Params) (g d : Bytes) : Prop :=
  ∃ body, (p.gen g).result = .ok body ∧ d = canon p g body

/-- after the two header lines comes exactly the body generated from `g` -/
def ModHeaderWs (p : Params) (g d : Bytes) : Prop :=
  ∃ body, (p.gen g).result = .ok body ∧ rest2 d = body

structure GoodSpec (p : Params) (Good : Bytes → Bytes → Prop) : Prop where
  canon_good : ∀ g body, (p.gen g).result = .ok body → Good g (canon p g body)
  good_gen : ∀ g d, Good g d → ∃ body, (p.gen g).result = .ok body

variable {p : Params} {v : Variant}

theorem canon_eq (p : Params) (g body : Bytes) :
    canon p g body = p.version ++ NL :: (p.hash g ++ NL :: body) := by
  simp [canon, List.append_assoc]

theorem rest2_canon (hp : HeaderOk p) (g body : Bytes) : rest2 (canon p g body) = body := by
  simp [rest2, canon_eq, splitLine_append _ _ hp.v_nl, splitLine_append _ _ (hp.h_nl g)]

theorem bne_append_right (a b c : Bytes) : (a ++ c != b ++ c) = (a != b) := by
  rw [Bool.eq_iff_iff]; simp [bne_iff_ne]

theorem needsRebuild_canon (hp : HeaderOk p) (v : Variant) (g g0 body : Bytes) :
    needsRebuild v p g (some (canon p g0 body)) = .ok (p.hash g0 != p.hash g) := by
  cases he : v.exactHeader <;>
  simp [needsRebuild, canon_eq, splitLine_append _ _ hp.v_nl, splitLine_append _ _ (hp.h_nl g0),
    hp.v_utf8, hp.h_utf8 g0, hp.v_trim, hp.h_trim g0, he, bne_append_right]

theorem accepts_canon_self (hp : HeaderOk p) (v : Variant) (g body : Bytes) :
    Accepts v p g (canon p g body) := by
  simp [Accepts, needsRebuild_canon hp]

theorem accepts_canon (hp : HeaderOk p) (hinj : HashInj p) {g g0 body : Bytes}
    (h : Accepts v p g (canon p g0 body)) : g = g0 := by
  simp [Accepts, needsRebuild_canon hp] at h
  exact (hinj _ _ h).symm

theorem exact_spec (p : Params) : GoodSpec p (Exact p) where
  canon_good := fun _ body h => ⟨body, h, rfl⟩
  good_gen := fun _ _ ⟨body, h, _⟩ => ⟨body, h⟩

theorem modHeaderWs_spec (hp : HeaderOk p) : GoodSpec p (ModHeaderWs p) where
  canon_good := fun g body h => ⟨body, h, rest2_canon hp g body⟩
  good_gen := fun _ _ ⟨body, h, _⟩ => ⟨body, h⟩

theorem honest_canon {Good : Bytes → Bytes → Prop} (hp : HeaderOk p) (hinj : HashInj p)
    (hg : GoodSpec p Good) {g body : Bytes} (hgen : (p.gen g).result = .ok body) :
    Honest Good v p (canon p g body) := by
  intro g' hacc
  have := accepts_canon hp hinj hacc
  subst this
  exact hg.canon_good _ _ hgen

theorem splitLine_eq (d : Bytes) : (splitLine d).1 ++ (splitLine d).2 = d := by
  induction d with
  | nil => simp [splitLine]
  | cons b d ih =>
    by_cases hb : b = NL
    · simp [splitLine, hb]
    · simp [splitLine, hb, ih]

/-- with exact header comparison an accepted file literally starts with the two header lines -/
theorem accepts_exact {g d : Bytes} (he : v.exactHeader = true) (h : Accepts v p g d) :
    d = p.version ++ [NL] ++ (p.hash g ++ [NL]) ++ rest2 d := by
  unfold Accepts needsRebuild at h
  simp only at h
  split at h
  · simp [unreadable] at h; split at h <;> cases h
  · split at h
    · simp [unreadable] at h; split at h <;> cases h
    · simp only [he, ↓reduceIte, Except.ok.injEq, Bool.or_eq_false_iff, bne_eq_false_iff_eq] at h
      obtain ⟨h2, h1⟩ := h
      have e1 := splitLine_eq d
      have e2 := splitLine_eq (splitLine d).2
      rw [h1] at e1
      rw [h2] at e2
      rw [rest2, ← e1, ← e2]
      simp [List.append_assoc, splitLine_append]
      rw [← e1] at *
      simp_all

theorem needsRebuild_error {g d : Bytes} {e : IoErr} (h : needsRebuild v p g (some d) = .error e) :
    e = .headerNotUtf8 ∧ headerUtf8 d = false ∧ v.utf8Tolerant = false := by
  unfold needsRebuild at h
  simp only at h
  cases ht : v.utf8Tolerant
  · split at h
    · rename_i h1
      simp [unreadable, ht] at h
      simp at h1
      simp [headerUtf8, h1, h]
    · split at h
      · rename_i h2
        simp [unreadable, ht] at h
        simp at h2
        simp [headerUtf8, h2, h]
      · split at h <;> cases h
  · split at h
    · simp [unreadable, ht] at h
    · split at h
      · simp [unreadable, ht] at h
      · split at h <;> cases h

theorem needsRebuild_unreadable {g d : Bytes} (h : headerUtf8 d = false) :
    needsRebuild v p g (some d) = unreadable v := by
  unfold needsRebuild
  simp only
  by_cases h1 : validUtf8 (splitLine d).1 = true
  · have h2 : validUtf8 (splitLine (splitLine d).2).1 = false := by
      simp [headerUtf8, h1] at h; exact h
    simp [h1, h2]
  · simp [h1]

/-- a file whose header is unreadable is never accepted -/
theorem not_accepts_unreadable {g d : Bytes} (h : headerUtf8 d = false) : ¬ Accepts v p g d := by
  intro hacc
  rw [Accepts, needsRebuild_unreadable h] at hacc
  simp [unreadable] at hacc
  split at hacc <;> cases hacc

/-! ### one run of `process_file_into` -/

/-- "the rebuild branch is taken" -/
def Need (v : Variant) (p : Params) (cfg : Cfg) (st : St) (i : Nat) (g : Bytes) : Prop :=
  cfg.force = true ∨ needsRebuild v p g ((st.fs (.rs i)).map (·.data)) = .ok true

/-- all possible results of `build v p cfg st i` when the grammar file `i` contains `g` -/
inductive BuildRes (v : Variant) (p : Params) (cfg : Cfg) (st : St) (i : Nat) (g : Bytes) :
    Outcome × St → Prop where
  | headerErr (e : IoErr) : cfg.force = false →
      needsRebuild v p g ((st.fs (.rs i)).map (·.data)) = .error e →
      BuildRes v p cfg st i g (.ioErr e, st)
  | upToDate : cfg.force = false →
      needsRebuild v p g ((st.fs (.rs i)).map (·.data)) = .ok false →
      BuildRes v p cfg st i g (.upToDate, st)
  | grammarNotUtf8 (st' : St) : Need v p cfg st i g → validUtf8 g = false →
      st'.fs (.rs i) = (if v.removeFirst then none else st.fs (.rs i)) →
      (∀ j, j ≠ i → st'.fs (.rs j) = st.fs (.rs j)) → st'.gr = st.gr →
      BuildRes v p cfg st i g (.ioErr .grammarNotUtf8, st')
  | genErr (e : Nat) (st' : St) : Need v p cfg st i g → validUtf8 g = true →
      (p.gen g).result = .error e → st'.fs (.rs i) = none →
      (∀ j, j ≠ i → st'.fs (.rs j) = st.fs (.rs j)) → st'.gr = st.gr → st.clock ≤ st'.clock →
      BuildRes v p cfg st i g (.genErr e, st')
  | built (body : Bytes) (c : Nat) (st' : St) : Need v p cfg st i g → validUtf8 g = true →
      (p.gen g).result = .ok body → st'.fs (.rs i) = some ⟨canon p g body, c⟩ →
      st.clock ≤ c → c < st'.clock →
      (∀ j, j ≠ i → st'.fs (.rs j) = st.fs (.rs j)) → st'.gr = st.gr →
      BuildRes v p cfg st i g (.built, st')

theorem pre_not_touch_rs (cfg : Cfg) (i j : Nat) (reps : List Bytes) (h : j ≠ i) :
    ∀ a ∈ FsAct.remove (.rs i) :: reportActs cfg i reps, ¬ touches a (.rs j) := by
  intro a ha
  rcases List.mem_cons.mp ha with rfl | ha
  · intro e; simp [touches] at e; exact h e.symm
  · exact reportActs_touches cfg i reps _ (by simp) a ha

theorem applyActs_pre_rs (st : St) (cfg : Cfg) (i : Nat) (reps : List Bytes) :
    (applyActs st (FsAct.remove (.rs i) :: reportActs cfg i reps)).fs (.rs i) = none := by
  rw [applyActs_cons, applyActs_frame _ _ _ (reportActs_touches cfg i reps _ (by simp))]
  simp [applyAct]

theorem applyActs_singleton (st : St) (a : FsAct) : applyActs st [a] = applyAct st a := rfl

theorem applyAct_rename_fs_dst (st : St) (s d : Path) (h : d ≠ s) :
    (applyAct st (.rename s d)).fs d = st.fs s := by
  simp [applyAct, setFs_other _ _ h]

theorem applyAct_rename_clock (st : St) (s d : Path) :
    (applyAct st (.rename s d)).clock = st.clock := rfl

/-- effect of the actions performed when loading the grammar fails -/
theorem loadFail_fs (v : Variant) (st : St) (i : Nat) :
    (applyActs st (loadFailActs v i)).fs (.rs i) = (if v.removeFirst then none else st.fs (.rs i)) ∧
    (∀ j, j ≠ i → (applyActs st (loadFailActs v i)).fs (.rs j) = st.fs (.rs j)) ∧
    (applyActs st (loadFailActs v i)).gr = st.gr := by
  unfold loadFailActs
  cases v.removeFirst
  · simp [applyActs]
  · refine ⟨by simp [applyActs, applyAct], ?_, by simp [applyActs, applyAct]⟩
    intro j hj
    simp only [applyActs, List.foldl_cons, List.foldl_nil, applyAct, ↓reduceIte]
    exact setFs_other _ _ (by simp [hj])

theorem build_res (hs : v.Sound) (p : Params) (cfg : Cfg) (st : St) (i : Nat) (g : Bytes)
    (hg : st.gr i = some g) : BuildRes v p cfg st i g (build v p cfg st i) := by
  unfold build plan
  simp only [hg]
  -- the needs_rebuild decision
  generalize hneed : (if cfg.force = true then (Except.ok true : Except IoErr Bool)
      else needsRebuild v p g ((st.fs (.rs i)).map (·.data))) = need
  have hforce : cfg.force = false → need = needsRebuild v p g ((st.fs (.rs i)).map (·.data)) := by
    intro h; simp [h] at hneed; exact hneed.symm
  match need, hneed with
  | .error e, hneed =>
    have hf : cfg.force = false := by
      cases hc : cfg.force
      · rfl
      · simp [hc] at hneed
    exact .headerErr e hf (hforce hf).symm
  | .ok false, hneed =>
    have hf : cfg.force = false := by
      cases hc : cfg.force
      · rfl
      · simp [hc] at hneed
    exact .upToDate hf (hforce hf).symm
  | .ok true, hneed =>
    have hn : Need v p cfg st i g := by
      cases hc : cfg.force
      · exact Or.inr (hforce hc).symm
      · exact Or.inl hc
    simp only
    by_cases hu : validUtf8 g = true
    · simp only [hu, Bool.not_true, Bool.false_eq_true, ↓reduceIte]
      cases hr : (p.gen g).result with
      | error e =>
        simp only
        refine .genErr e _ hn hu hr (applyActs_pre_rs st cfg i _) ?_ (applyActs_gr _ _)
          (applyActs_clock_le _ _)
        intro j hj
        exact applyActs_frame _ _ _ (pre_not_touch_rs cfg i j _ hj)
      | ok body =>
        simp only
        cases ht : v.tmpRename with
        | false =>
          simp only [Bool.false_eq_true, ↓reduceIte]
          refine .built body (applyActs st (FsAct.remove (.rs i) :: reportActs cfg i (p.gen g).reports)).clock
            _ hn hu hr ?_ (applyActs_clock_le _ _) ?_ ?_ (applyActs_gr _ _)
          · rw [applyActs_append, applyActs_writeOut_dst]
          · rw [applyActs_append, applyActs_writeOut_clock]; exact Nat.lt_succ_self _
          · intro j hj
            rw [applyActs_append,
              applyActs_frame _ _ _ (writeOut_touches _ p g body (.rs j) (by simp [hj])),
              applyActs_frame _ _ _ (pre_not_touch_rs cfg i j _ hj)]
        | true =>
          simp only [↓reduceIte, hs ht]
          refine .built body (applyActs st (FsAct.remove (.rs i) :: reportActs cfg i (p.gen g).reports)).clock
            _ hn hu hr ?_ (applyActs_clock_le _ _) ?_ ?_ (applyActs_gr _ _)
          · rw [applyActs_append, applyActs_append, applyActs_singleton,
              applyAct_rename_fs_dst _ _ _ (by simp)]
            exact applyActs_writeOut_dst _ _ _ _ _
          · rw [applyActs_append, applyActs_append, applyActs_singleton, applyAct_rename_clock,
              applyActs_writeOut_clock]
            exact Nat.lt_succ_self _
          · intro j hj
            rw [applyActs_append, applyActs_append]
            have hren : ∀ a ∈ [FsAct.rename (.tmp i) (.rs i)], ¬ touches a (.rs j) := by
              intro a ha; simp at ha; subst ha
              intro e; simp [touches] at e; exact hj e.symm
            rw [applyActs_frame _ _ _ hren,
              applyActs_frame _ _ _ (writeOut_touches _ p g body (.rs j) (by simp)),
              applyActs_frame _ _ _ (pre_not_touch_rs cfg i j _ hj)]
    · have hu' : validUtf8 g = false := by simpa using hu
      simp only [hu', Bool.not_false, ↓reduceIte]
      obtain ⟨h1, h2, h3⟩ := loadFail_fs v st i
      exact .grammarNotUtf8 _ hn hu' h1 h2 h3

theorem needsRebuildMissing_ne_false (v : Variant) (out : Option Bytes) :
    needsRebuildMissing v out ≠ .ok false := by
  cases out with
  | none => simp [needsRebuildMissing]
  | some d =>
    simp only [needsRebuildMissing, unreadable]
    split
    · simp
    · split <;> simp

/-- the grammar file does not exist: an io error; the outputs are unchanged except that the
    output of `i` may have been removed -/
theorem build_missing (v : Variant) (p : Params) (cfg : Cfg) (st : St) (i : Nat)
    (hg : st.gr i = none) :
    (∃ e, (build v p cfg st i).1 = .ioErr e) ∧
    ((build v p cfg st i).2.fs (.rs i) = st.fs (.rs i) ∨ (build v p cfg st i).2.fs (.rs i) = none) ∧
    (∀ j, j ≠ i → (build v p cfg st i).2.fs (.rs j) = st.fs (.rs j)) ∧
    (build v p cfg st i).2.gr = st.gr := by
  unfold build plan
  simp only [hg]
  generalize hneed : (if cfg.force = true then (Except.ok true : Except IoErr Bool)
      else needsRebuildMissing v ((st.fs (.rs i)).map (·.data))) = need
  match need, hneed with
  | .error e, _ => exact ⟨⟨e, rfl⟩, Or.inl rfl, fun _ _ => rfl, rfl⟩
  | .ok false, hneed =>
    exfalso
    cases hc : cfg.force
    · simp [hc] at hneed
      exact needsRebuildMissing_ne_false _ _ hneed
    · simp [hc] at hneed
  | .ok true, _ =>
    obtain ⟨h1, h2, h3⟩ := loadFail_fs v st i
    refine ⟨⟨_, rfl⟩, ?_, h2, h3⟩
    simp only
    rw [h1]
    cases v.removeFirst
    · exact Or.inl rfl
    · exact Or.inr rfl

/-! ### invariant preservation -/

variable {Good : Bytes → Bytes → Prop}

theorem build_inv (hp : HeaderOk p) (hinj : HashInj p) (hgs : GoodSpec p Good)
    (hs : v.Sound) (cfg : Cfg) (st : St) (i : Nat) (hinv : Inv Good v p st) :
    Inv Good v p (build v p cfg st i).2 := by
  cases hg : st.gr i with
  | none =>
    obtain ⟨_, hi, hframe, _⟩ := build_missing v p cfg st i hg
    intro j f hf
    by_cases hj : j = i
    · subst hj
      rcases hi with e | e
      · rw [e] at hf; exact hinv j f hf
      · rw [e] at hf; cases hf
    · rw [hframe j hj] at hf; exact hinv j f hf
  | some g =>
    have hres := build_res hs p cfg st i g hg
    generalize build v p cfg st i = r at hres
    cases hres with
    | headerErr e _ _ => exact hinv
    | upToDate _ _ => exact hinv
    | grammarNotUtf8 st' _ _ hi hframe _ =>
      intro j f hf
      by_cases hj : j = i
      · subst hj
        rw [hi] at hf
        cases hr : v.removeFirst
        · simp [hr] at hf; exact hinv j f hf
        · simp [hr] at hf
      · rw [hframe j hj] at hf; exact hinv j f hf
    | genErr e st' _ _ _ hnone hframe _ _ =>
      intro j f hf
      by_cases hj : j = i
      · subst hj; simp [hnone] at hf
      · rw [hframe j hj] at hf; exact hinv j f hf
    | built body c st' _ _ hgen hsome _ _ hframe _ =>
      intro j f hf
      by_cases hj : j = i
      · subst hj
        rw [hsome] at hf
        cases hf
        exact honest_canon hp hinj hgs hgen
      · rw [hframe j hj] at hf; exact hinv j f hf

theorem buildDir_inv (hp : HeaderOk p) (hinj : HashInj p) (hgs : GoodSpec p Good)
    (hs : v.Sound) (cfg : Cfg) (ids : List Nat) (st : St) (hinv : Inv Good v p st) :
    Inv Good v p (buildDir v p cfg st ids).2 := by
  induction ids generalizing st with
  | nil => exact hinv
  | cons i ids ih =>
    simp only [buildDir]
    split
    · exact ih _ (build_inv hp hinj hgs hs cfg st i hinv)
    · exact build_inv hp hinj hgs hs cfg st i hinv

end LalrpopModel.Build
