import LalrpopModel.Lemmas.LRTermSim
import LalrpopModel.Lemmas.LRGenericBasic
/-!
C08 termination, part 2: the driver follows the reduce loop of `Lemmas/LRTermSim.lean`.

* `accepts` (fuel `af`) runs exactly the loop `locStep`: it answers (anything but the fuel stop)
  as soon as `af` exceeds the number of iterations (`accepts_of_iter`), hence `expected`,
  `unrecognizedError` and — without error recovery — `enterRecovery` answer too.
* One `step` of the driver in the phases `.act` / `.eof` is one iteration of the loop, or ends the
  phase (`step_act`, `step_eof`); `act_follow` / `eof_follow` iterate this.
-/
namespace LalrpopModel.LR.Term
open LalrpopModel.LR LalrpopModel.LR.Generic

variable {T : Tables} {la : LA}

/-! ### `redInfo` -/

theorem redInfo_inv {top n A : Nat} (h : redInfo T la top = some (n, A)) :
    ∃ a p, actionFor T top la = some a ∧ asReduce a = some p ∧ T.prodLen[p]? = some n ∧
      T.prodLhs[p]? = some A ∧ T.isStart[p]? = some false := by
  unfold redInfo at h
  split at h
  · rename_i a ha
    split at h
    · rename_i p hp
      split at h
      · rename_i n' A' h1 h2 h3
        cases h
        exact ⟨a, p, ha, hp, h1, h2, h3⟩
      · cases h
    · cases h
  · cases h

theorem redInfo_eq_some {top n A p : Nat} {a : Int} (ha : actionFor T top la = some a)
    (hp : asReduce a = some p) (h1 : T.prodLen[p]? = some n) (h2 : T.prodLhs[p]? = some A)
    (h3 : T.isStart[p]? = some false) : redInfo T la top = some (n, A) := by
  simp [redInfo, ha, hp, h1, h2, h3]

theorem asReduce_ne_zero {a : Int} {p : Nat} (h : asReduce a = some p) : a ≠ 0 := by
  intro h0
  subst h0
  simp [asReduce] at h

theorem asReduce_of_asShift {a : Int} {t : Nat} (h : asShift a = some t) : asReduce a = none := by
  unfold asShift at h
  unfold asReduce
  split at h
  · rw [if_neg]; omega
  · cases h

/-! ### `accepts` is the loop -/

theorem accepts_succ_eq (af : Nat) (top : Nat) (tl : List Nat) (la : LA) :
    accepts T (af + 1) (top :: tl) la =
      match actionFor T top la with
      | none => .error .actionIndex
      | some a =>
        if a = 0 then .ok false
        else match asReduce a with
          | some p =>
            match T.prodLen[p]?, T.prodLhs[p]?, T.isStart[p]? with
            | some n, some A, some st =>
              if st then .ok true
              else if (top :: tl).length < n then .error .statesUnderflow
              else
                match (top :: tl).drop n with
                | [] => .error .emptyStates
                | below :: rest => accepts T af (T.gotoAt below A :: below :: rest) la
            | _, _, _ => .error .invalidAction
          | none => .ok true := by
  cases la <;> rfl

/-- one unfolding of `accepts`: an iteration of the loop, or an answer -/
theorem accepts_succ_cases (af : Nat) (st : List Nat) (la : LA) :
    (∃ st', locStep T la st = .step st' ∧ accepts T (af + 1) st la = accepts T af st' la) ∨
    (Halts T la st ∧ accepts T (af + 1) st la ≠ .error .outOfFuel) := by
  cases st with
  | nil =>
    right
    refine ⟨fun st' h => by simp [locStep] at h, ?_⟩
    simp [accepts]
  | cons top tl =>
    have hstop : redInfo T la top = none → Halts T la (top :: tl) := by
      intro h st' hs
      rw [locStep_of_none h] at hs
      cases hs
    rw [accepts_succ_eq]
    cases ha : actionFor T top la with
    | none =>
      right
      exact ⟨hstop (by simp [redInfo, ha]), by simp⟩
    | some a =>
      simp only
      by_cases h0 : a = 0
      · right
        subst h0
        exact ⟨hstop (by simp [redInfo, ha, asReduce]), by simp⟩
      · rw [if_neg h0]
        cases hp : asReduce a with
        | none =>
          right
          exact ⟨hstop (by simp [redInfo, ha, hp]), by simp⟩
        | some p =>
          simp only
          cases h1 : T.prodLen[p]? with
          | none => right; exact ⟨hstop (by simp [redInfo, ha, hp, h1]), by simp⟩
          | some n =>
            cases h2 : T.prodLhs[p]? with
            | none => right; exact ⟨hstop (by simp [redInfo, ha, hp, h1, h2]), by simp⟩
            | some A =>
              cases h3 : T.isStart[p]? with
              | none => right; exact ⟨hstop (by simp [redInfo, ha, hp, h1, h2, h3]), by simp⟩
              | some st =>
                cases st with
                | true => right; exact ⟨hstop (by simp [redInfo, ha, hp, h1, h2, h3]), by simp⟩
                | false =>
                  have hr := redInfo_eq_some ha hp h1 h2 h3
                  simp only [Bool.false_eq_true, ↓reduceIte]
                  cases hd : (top :: tl).drop n with
                  | nil =>
                    right
                    refine ⟨?_, ?_⟩
                    · intro st' hs
                      rw [locStep_of hr, hd] at hs
                      cases hs
                    · split <;> simp
                  | cons below rest =>
                    left
                    refine ⟨_, by rw [locStep_of hr, hd], ?_⟩
                    have : ¬ (top :: tl).length < n := by
                      intro hlt
                      rw [List.drop_eq_nil_of_le (Nat.le_of_lt hlt)] at hd
                      cases hd
                    rw [if_neg this]

theorem accepts_of_iter {N : Nat} {st fin : List Nat} (hit : Iter T la N st fin) (hh : Halts T la fin) :
    ∀ af, N < af → accepts T af st la ≠ .error .outOfFuel := by
  induction hit with
  | refl st =>
    intro af haf
    obtain ⟨af', rfl⟩ : ∃ k, af = k + 1 := ⟨af - 1, by omega⟩
    rcases accepts_succ_cases af' st la with ⟨st', hs, _⟩ | ⟨_, h⟩
    · exact (hh st' hs).elim
    · exact h
  | @step n st st' fin hs _ ih =>
    intro af haf
    obtain ⟨af', rfl⟩ : ∃ k, af = k + 1 := ⟨af - 1, by omega⟩
    rcases accepts_succ_cases af' st la with ⟨st'', hs', he⟩ | ⟨h, _⟩
    · rw [hs] at hs'
      cases hs'
      rw [he]
      exact ih hh af' (by omega)
    · exact (h st' hs).elim

/-- the `accepts` fuel that suffices on stacks of height `h` (under V7 with fuel `F`) -/
def accFuel (F h : Nat) : Nat := (F + 1) * (h + F) + F + 1

theorem accFuel_mono {F h h' : Nat} (hle : h ≤ h') : accFuel F h ≤ accFuel F h' := by
  unfold accFuel
  have := Nat.mul_le_mul_left (F + 1) (Nat.add_le_add_right hle F)
  omega

variable {F : Nat}

theorem accepts_terminates (hT : TermOK T F) (hla : LAok T la) {st : List Nat} (hadj : Adj T st)
    {af : Nat} (haf : accFuel F st.length ≤ af) : accepts T af st la ≠ .error .outOfFuel := by
  obtain ⟨N, fin, d, hit, hh, hN, hd⟩ := phase_term hT hla st.length st (Nat.le_refl _) hadj
  apply accepts_of_iter hit hh
  have : (F + 1) * d ≤ (F + 1) * (st.length + F) := Nat.mul_le_mul_left _ (by omega)
  unfold accFuel at haf
  omega

/-! ### `expected`, `unrecognizedError`, `enterRecovery` -/

theorem expectedLoop_ne_fuel {af : Nat} {states : List Nat} : ∀ (k i : Nat),
    (∀ j, i ≤ j → j < i + k → accepts T af states (some j) ≠ .error .outOfFuel) →
    expectedLoop T af states k i ≠ .error .outOfFuel := by
  intro k
  induction k with
  | zero => intro i _; simp [expectedLoop]
  | succ k ih =>
    intro i h
    unfold expectedLoop
    have h1 := h i (Nat.le_refl _) (by omega)
    cases ha : accepts T af states (some i) with
    | error e =>
      simp only
      intro he
      rw [ha] at h1
      cases he
      exact h1 rfl
    | ok b =>
      simp only
      have h2 := ih (i + 1) (fun j hj1 hj2 => h j (by omega) (by omega))
      cases hl : expectedLoop T af states k (i + 1) with
      | error e =>
        simp only
        intro he
        rw [hl] at h2
        cases he
        exact h2 rfl
      | ok rest => simp

theorem nRepr_le (T : Tables) : T.nRepr ≤ T.nTerm := by
  unfold Tables.nRepr
  split <;> omega

theorem expected_ne_fuel (hT : TermOK T F) {st : List Nat} (hadj : Adj T st)
    {af : Nat} (haf : accFuel F st.length ≤ af) : expected T af st ≠ .error .outOfFuel := by
  unfold expected
  apply expectedLoop_ne_fuel
  intro j _ hj
  have : j < T.nTerm := by have := nRepr_le T; omega
  exact accepts_terminates hT (la := some j) this hadj haf

theorem unrecognizedError_ne_fuel (hT : TermOK T F) {c : Cfg} (hadj : Adj T c.states)
    {af : Nat} (haf : accFuel F c.states.length ≤ af) (tok : Option Tok) :
    unrecognizedError T af c tok ≠ .error .outOfFuel := by
  unfold unrecognizedError
  have := expected_ne_fuel hT hadj haf
  cases he : expected T af c.states with
  | error e =>
    simp only
    intro h
    cases h
    exact this he
  | ok ex => cases tok <;> simp

/-- without error recovery, `error_recovery` returns at once -/
theorem enterRecovery_norec (hT : TermOK T F) (hrec : T.usesRecovery = false) {c : Cfg}
    (hadj : Adj T c.states) {af : Nat} (haf : accFuel F c.states.length ≤ af)
    (la : Option (Tok × Term)) (fe : Bool) :
    ∃ r, enterRecovery T af c la fe = (c, .done r) ∧ r ≠ .panic .outOfFuel := by
  unfold enterRecovery
  have := unrecognizedError_ne_fuel hT hadj haf (la.map (·.1))
  cases he : unrecognizedError T af c (la.map (·.1)) with
  | error e =>
    refine ⟨.panic e, rfl, ?_⟩
    intro h
    cases h
    exact this he
  | ok pe =>
    simp only [hrec]
    exact ⟨.err pe, rfl, by simp⟩

/-! ### `__reduce` -/

variable {failAt : Option Nat} {startLoc : Int}

theorem reduce_finished_ne_fuel {c c' : Cfg} {p : Nat} {ls : Option Int} {r : Outcome}
    (h : reduce T failAt startLoc c p ls = .finished c' r) : r ≠ .panic .outOfFuel := by
  unfold reduce at h
  split at h
  · rename_i n A st fal _ _ _ _
    by_cases hlt : c.symbols.length < n
    · simp only [hlt, ↓reduceIte] at h
      cases h
      simp
    · simp only [hlt, ↓reduceIte] at h
      by_cases hf : (fal && failAt == some c.acts) = true
      · simp only [hf, ↓reduceIte] at h
        cases h
        simp
      · simp only [hf] at h
        cases st
        · simp only [Bool.false_eq_true, ↓reduceIte] at h
          by_cases hsl : c.states.length < n
          · simp only [hsl, ↓reduceIte] at h
            cases h
            simp
          · simp only [hsl, ↓reduceIte] at h
            split at h
            · cases h; simp
            · cases h
        · simp only [↓reduceIte] at h
          generalize (List.take n c.symbols).reverse = l at h
          match l, h with
          | [k], h => cases h; simp
          | [], h => cases h; simp
          | _ :: _ :: _, h => cases h; simp
  · cases h
    simp

theorem reduce_continue_inv {c c' : Cfg} {p : Nat} {ls : Option Int}
    (h : reduce T failAt startLoc c p ls = .continue_ c') :
    ∃ n A below more, T.prodLen[p]? = some n ∧ T.prodLhs[p]? = some A ∧ T.isStart[p]? = some false ∧
      c.states.drop n = below :: more ∧ c'.states = T.gotoAt below A :: below :: more ∧
      c'.input = c.input := by
  have hs := reduce_spec T failAt startLoc c p ls
  rw [h] at hs
  cases hs with
  | cont n A hn hlen hnf hlhs hst below more hd =>
    exact ⟨n, A, below, more, hlen, hlhs, hst, hd, rfl, rfl⟩

/-! ### one step of the driver in the phases `.act` and `.eof` -/

variable {af : Nat}

/-- what a step in `.act la idx` does: an iteration of the loop under `some idx`, or the end -/
theorem step_act (c : Cfg) (tok : Tok) (idx : Term) :
    (∃ c' r, step T af failAt startLoc c (.act tok idx) = (c', .done r) ∧ r ≠ .panic .outOfFuel) ∨
    (∃ c', step T af failAt startLoc c (.act tok idx) = (c', .act tok idx) ∧
      locStep T (some idx) c.states = .step c'.states ∧ c'.input = c.input) ∨
    (Halts T (some idx) c.states ∧ ∃ c' top rest a t, c.states = top :: rest ∧
      T.actionAt top idx = some a ∧ asShift a = some t ∧
      step T af failAt startLoc c (.act tok idx) = (c', .pull) ∧ c'.states = t :: c.states ∧
      c'.input = c.input) ∨
    (Halts T (some idx) c.states ∧
      step T af failAt startLoc c (.act tok idx) = enterRecovery T af c (some (tok, idx)) false ∧
      ∀ k, accepts T (k + 1) c.states (some idx) = .ok false) := by
  unfold step
  cases hs : c.states with
  | nil => left; exact ⟨c, _, rfl, by simp⟩
  | cons top rest =>
    have hstop : redInfo T (some idx) top = none → Halts T (some idx) (top :: rest) := by
      intro h st' hs
      rw [locStep_of_none h] at hs
      cases hs
    simp only
    cases ha : T.actionAt top idx with
    | none => left; exact ⟨c, _, rfl, by simp⟩
    | some a =>
      have haf : actionFor T top (some idx) = some a := ha
      simp only
      cases hsh : asShift a with
      | some t =>
        right; right; left
        refine ⟨hstop (by simp [redInfo, haf, asReduce_of_asShift hsh]), _, top, rest, a, t, rfl, ha, hsh,
          rfl, ?_, rfl⟩
        simp only
      | none =>
        simp only
        cases hp : asReduce a with
        | none =>
          right; right; right
          refine ⟨hstop (by simp [redInfo, haf, hp]), rfl, ?_⟩
          have h0 : a = 0 := by
            unfold asShift at hsh
            unfold asReduce at hp
            split at hsh
            · cases hsh
            · split at hp
              · cases hp
              · omega
          intro k
          rw [accepts_succ_eq, haf, h0]
          simp
        | some p =>
          simp only
          cases hred : reduce T failAt startLoc c p (some tok.l) with
          | continue_ c' =>
            right; left
            obtain ⟨n, A, below, more, h1, h2, h3, hd, hst, hin⟩ := reduce_continue_inv hred
            refine ⟨c', rfl, ?_, hin⟩
            rw [locStep_of (redInfo_eq_some haf hp h1 h2 h3), ← hs, hd, hst]
          | finished c' r =>
            left
            have := reduce_finished_ne_fuel hred
            cases r with
            | ok v => exact ⟨c', _, rfl, by simp⟩
            | err e => exact ⟨c', _, rfl, by simp⟩
            | panic tag => exact ⟨c', _, rfl, this⟩

/-- what a step in `.eof` does -/
theorem step_eof (c : Cfg) :
    (∃ c' r, step T af failAt startLoc c .eof = (c', .done r) ∧ r ≠ .panic .outOfFuel) ∨
    (∃ c', step T af failAt startLoc c .eof = (c', .eof) ∧
      locStep T none c.states = .step c'.states ∧ c'.input = c.input) ∨
    (Halts T none c.states ∧
      step T af failAt startLoc c .eof = enterRecovery T af c none true ∧
      ((∀ a ∈ T.eofAction, a ≤ 0) → ∀ k, accepts T (k + 1) c.states none = .ok false)) := by
  unfold step
  cases hs : c.states with
  | nil => left; exact ⟨c, _, rfl, by simp⟩
  | cons top rest =>
    have hstop : redInfo T none top = none → Halts T none (top :: rest) := by
      intro h st' hs
      rw [locStep_of_none h] at hs
      cases hs
    simp only
    cases ha : T.eofActionAt top with
    | none => left; exact ⟨c, _, rfl, by simp⟩
    | some a =>
      have haf : actionFor T top none = some a := ha
      simp only
      cases hp : asReduce a with
      | none =>
        right; right
        refine ⟨hstop (by simp [redInfo, haf, hp]), rfl, ?_⟩
        intro hle k
        have h0 : a = 0 := by
          have := hle a (List.mem_of_getElem? ha)
          unfold asReduce at hp
          split at hp
          · cases hp
          · omega
        rw [accepts_succ_eq, haf, h0]
        simp
      | some p =>
        simp only
        cases hred : reduce T failAt startLoc c p none with
        | continue_ c' =>
          right; left
          obtain ⟨n, A, below, more, h1, h2, h3, hd, hst, hin⟩ := reduce_continue_inv hred
          refine ⟨c', rfl, ?_, hin⟩
          rw [locStep_of (redInfo_eq_some haf hp h1 h2 h3), ← hs, hd, hst]
        | finished c' r =>
          left
          exact ⟨c', r, rfl, reduce_finished_ne_fuel hred⟩

/-! ### a whole phase -/

theorem run_one (c : Cfg) (ph : Phase) :
    run T af failAt startLoc 1 c ph = step T af failAt startLoc c ph := by
  rw [run_succ, run_zero]

/-- the phase `.act tok idx` from a stack on which the loop halts after `N` iterations: within
    `N + 1` steps the run is finished, or has shifted on top of `fin`, or calls `error_recovery`
    on `fin` -/
theorem act_follow {idx : Term} {N : Nat} {st fin : List Nat} (hit : Iter T (some idx) N st fin)
    (hh : Halts T (some idx) fin) (tok : Tok) : ∀ c : Cfg, c.states = st →
    ∃ n c' ph', n ≤ N + 1 ∧ run T af failAt startLoc n c (.act tok idx) = (c', ph') ∧
      ((∃ r, ph' = .done r ∧ r ≠ .panic .outOfFuel) ∨
       (ph' = .pull ∧ c'.input = c.input ∧ ∃ t top rest a, fin = top :: rest ∧
          T.actionAt top idx = some a ∧ asShift a = some t ∧ c'.states = t :: fin) ∨
       (∃ cH, cH.states = fin ∧ cH.input = c.input ∧
          (c', ph') = enterRecovery T af cH (some (tok, idx)) false ∧
          ∀ k, accepts T (k + 1) fin (some idx) = .ok false)) := by
  induction hit with
  | refl st =>
    intro c hc
    subst hc
    rcases step_act (T := T) (af := af) (failAt := failAt) (startLoc := startLoc) c tok idx with
      ⟨c', r, hs, hr⟩ | ⟨c', _, hl, _⟩ | ⟨_, c', top, rest, a, t, hst, ha, hsh, hs, hst', hin⟩ | ⟨_, hs, hacc⟩
    · exact ⟨1, c', _, by omega, by rw [run_succ, hs]; simp, .inl ⟨r, rfl, hr⟩⟩
    · exact (hh _ hl).elim
    · exact ⟨1, c', _, by omega, by rw [run_succ, hs]; simp,
        .inr (.inl ⟨rfl, hin, t, top, rest, a, hst, ha, hsh, hst'⟩)⟩
    · exact ⟨1, _, _, by omega, by rw [run_one, hs]; rfl, .inr (.inr ⟨c, rfl, rfl, rfl, hacc⟩)⟩
  | @step n st st' fin hs _ ih =>
    intro c hc
    subst hc
    rcases step_act (T := T) (af := af) (failAt := failAt) (startLoc := startLoc) c tok idx with
      ⟨c', r, hst, hr⟩ | ⟨c', hst, hl, hin⟩ | ⟨hH, _⟩ | ⟨hH, _⟩
    · exact ⟨1, c', _, by omega, by rw [run_succ, hst]; simp, .inl ⟨r, rfl, hr⟩⟩
    · rw [hs] at hl
      cases hl
      obtain ⟨m, c'', ph'', hm, hrun, hres⟩ := ih hh c' rfl
      refine ⟨m + 1, c'', ph'', by omega, by rw [run_succ, hst]; exact hrun, ?_⟩
      rw [hin] at hres
      exact hres
    · exact (hH _ hs).elim
    · exact (hH _ hs).elim

/-- the phase `.eof` -/
theorem eof_follow {N : Nat} {st fin : List Nat} (hit : Iter T none N st fin)
    (hh : Halts T none fin) : ∀ c : Cfg, c.states = st →
    ∃ n c' ph', n ≤ N + 1 ∧ run T af failAt startLoc n c .eof = (c', ph') ∧
      ((∃ r, ph' = .done r ∧ r ≠ .panic .outOfFuel) ∨
       (∃ cH, cH.states = fin ∧ cH.input = c.input ∧
          (c', ph') = enterRecovery T af cH none true ∧
          ((∀ a ∈ T.eofAction, a ≤ 0) → ∀ k, accepts T (k + 1) fin none = .ok false))) := by
  induction hit with
  | refl st =>
    intro c hc
    subst hc
    rcases step_eof (T := T) (af := af) (failAt := failAt) (startLoc := startLoc) c with
      ⟨c', r, hs, hr⟩ | ⟨c', _, hl, _⟩ | ⟨_, hs, hacc⟩
    · exact ⟨1, c', _, by omega, by rw [run_succ, hs]; simp, .inl ⟨r, rfl, hr⟩⟩
    · exact (hh _ hl).elim
    · exact ⟨1, _, _, by omega, by rw [run_one, hs]; rfl, .inr ⟨c, rfl, rfl, rfl, hacc⟩⟩
  | @step n st st' fin hs _ ih =>
    intro c hc
    subst hc
    rcases step_eof (T := T) (af := af) (failAt := failAt) (startLoc := startLoc) c with
      ⟨c', r, hst, hr⟩ | ⟨c', hst, hl, hin⟩ | ⟨hH, _⟩
    · exact ⟨1, c', _, by omega, by rw [run_succ, hst]; simp, .inl ⟨r, rfl, hr⟩⟩
    · rw [hs] at hl
      cases hl
      obtain ⟨m, c'', ph'', hm, hrun, hres⟩ := ih hh c' rfl
      refine ⟨m + 1, c'', ph'', by omega, by rw [run_succ, hst]; exact hrun, ?_⟩
      rw [hin] at hres
      exact hres
    · exact (hH _ hs).elim

end LalrpopModel.LR.Term
