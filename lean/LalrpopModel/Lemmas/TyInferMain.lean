import LalrpopModel.Lemmas.TyInferNt
/-! `ntType` satisfies the invariants for every fuel; `inferLoop`; the re-check (C19). -/
namespace LalrpopModel.TyInfer

variable {Ty Tpl : Type} [DecidableEq Ty] (env : Env Ty Tpl) (G : Grammar Tpl)

omit [DecidableEq Ty] in
theorem find_name {id : String} {nt : Nt Tpl} (h : G.find id = some nt) : nt.name = id := by
  have := List.find?_some h
  simpa using this

omit [DecidableEq Ty] in
theorem find_mem {id : String} {nt : Nt Tpl} (h : G.find id = some nt) : nt ∈ G.nts :=
  List.mem_of_find?_eq_some h

/-- adding the type of a nonterminal that was typed without suppression keeps the table consistent -/
theorem Consistent_cons (id : String) (nt : Nt Tpl) (hf : G.find id = some nt) (ty : Ty)
    (m : List (String × Ty)) (hnone : m.lookup id = none) (hc : Consistent env G m)
    (hnew : nt.decl = none → ∀ alt ∈ nt.alts, alt.act ≠ .user →
      ∀ memo', Ext m memo' → altTyP env memo' alt = .ok ty) :
    Consistent env G ((id, ty) :: m) := by
  intro nt' hf' hd' ty' hl' alt hm hnu memo' he
  by_cases e : nt'.name = id
  · rw [e] at hf' hl'
    have : nt' = nt := by rw [hf] at hf'; cases hf'; rfl
    subst this
    rw [lookup_cons_self] at hl'
    cases hl'
    exact hnew hd' alt hm hnu memo' ((Ext.cons id _ m hnone).trans he)
  · rw [lookup_cons_ne _ _ _ _ e] at hl'
    exact hc nt' hf' hd' ty' hl' alt hm hnu memo' ((Ext.cons id ty m hnone).trans he)

/-- what one call must establish -/
def StepOK (id : String) (s : St Ty) (r : Res Ty Ty) : Prop :=
  Grows s r.2 ∧ (∀ t, r.1 = .ok t → r.2.memo.lookup id = some t) ∧
    (Inv env G s → Inv env G r.2) ∧ (KeysOK G s → KeysOK G r.2)

omit [DecidableEq Ty] in
theorem StepOK.err (id : String) (s s' : St Ty) (e : Err) (g : Grows s s')
    (i : Inv env G s → Inv env G s') (k : KeysOK G s → KeysOK G s') :
    StepOK env G id s (.error e, s') := by
  unfold StepOK
  refine ⟨g, ?_, i, k⟩
  intro t hr
  cases hr

theorem ntType_step (f : Nat) (ih : RecOK env G (ntType env G f)) (id : String) (s : St Ty) :
    StepOK env G id s (ntType env G (f + 1) id s) := by
  rw [ntType]
  cases hl : s.memo.lookup id with
  | some t =>
    simp only
    unfold StepOK
    refine ⟨Grows.refl s, ?_, fun hi => hi, fun hi => hi⟩
    intro t' hr
    cases hr
    exact hl
  | none =>
    simp only
    cases hf : G.find id with
    | none => simp only; exact StepOK.err env G id s s _ (Grows.refl s) (fun hi => hi) (fun hi => hi)
    | some nt =>
      simp only
      by_cases hc : s.stack.contains id = true
      · rw [if_pos hc]; exact StepOK.err env G id s s _ (Grows.refl s) (fun hi => hi) (fun hi => hi)
      · rw [if_neg hc]
        have gb := ntBody_grows env G ih nt { s with stack := id :: s.stack }
        have ib := ntBody_inv env G ih nt { s with stack := id :: s.stack }
        have kb := ntBody_keys env G ih nt { s with stack := id :: s.stack }
        have ob := ntBody_ok env G ih nt
        generalize hr : ntBody env (ntType env G f) nt { s with stack := id :: s.stack } = r at gb ib kb
        obtain ⟨res, s1⟩ := r
        have hstk : s1.stack = id :: s.stack := gb.stack
        simp only [hstk, ne_eq, not_true_eq_false, ↓reduceIte]
        have g2 : Grows s { s1 with stack := s.stack } := ⟨gb.ext, rfl, gb.supp⟩
        have i2 : Inv env G s → Inv env G { s1 with stack := s.stack } :=
          fun hi => Inv_of_eq env G rfl rfl (ib (Inv_of_eq env G rfl rfl hi))
        have k2 : KeysOK G s → KeysOK G { s1 with stack := s.stack } :=
          fun hi => KeysOK_of_eq G rfl (kb (KeysOK_of_eq G rfl hi))
        cases res with
        | error e => exact StepOK.err env G id s _ e g2 i2 k2
        | ok ty =>
          simp only
          cases hl2 : s1.memo.lookup id with
          | some _ => simp only; exact StepOK.err env G id s _ _ g2 i2 k2
          | none =>
            simp only
            have g3 : Grows s { s1 with stack := s.stack, memo := (id, ty) :: s1.memo } :=
              ⟨gb.ext.trans (Ext.cons id ty s1.memo hl2), rfl, gb.supp⟩
            have i3 : Inv env G s → Inv env G { s1 with stack := s.stack, memo := (id, ty) :: s1.memo } := by
              intro hi h0
              have hc1 : Consistent env G s1.memo := ib (Inv_of_eq env G rfl rfl hi) h0
              apply Consistent_cons env G id nt hf ty s1.memo hl2 hc1
              intro hd
              have := ob hd { s with stack := id :: s.stack } ty (by rw [hr]) (by rw [hr]; exact h0)
              rw [hr] at this
              exact this
            have k3 : KeysOK G s → KeysOK G { s1 with stack := s.stack, memo := (id, ty) :: s1.memo } := by
              intro hi k v hk
              by_cases e : k = id
              · rw [e, hf]; rfl
              · rw [lookup_cons_ne _ _ _ _ e] at hk
                exact kb (KeysOK_of_eq G rfl hi) k v hk
            have gv := validateTuples_grows env G ih (tupleSyms nt.alts)
              { s1 with stack := s.stack, memo := (id, ty) :: s1.memo }
            have iv := validateTuples_inv env G ih (tupleSyms nt.alts)
              { s1 with stack := s.stack, memo := (id, ty) :: s1.memo }
            have kv := validateTuples_keys env G ih (tupleSyms nt.alts)
              { s1 with stack := s.stack, memo := (id, ty) :: s1.memo }
            generalize validateTuples env (ntType env G f) (tupleSyms nt.alts)
              { s1 with stack := s.stack, memo := (id, ty) :: s1.memo } = rv at gv iv kv
            obtain ⟨resv, s4⟩ := rv
            cases resv with
            | error e => exact StepOK.err env G id s _ e (g3.trans gv) (fun hi => iv (i3 hi)) (fun hi => kv (k3 hi))
            | ok u =>
              unfold StepOK
              refine ⟨g3.trans gv, ?_, fun hi => iv (i3 hi), fun hi => kv (k3 hi)⟩
              intro t' h'
              cases h'
              exact gv.ext id ty (lookup_cons_self id ty s1.memo)

theorem ntType_recOK : ∀ f, RecOK env G (ntType env G f)
  | 0 => ⟨fun _ s => Grows.refl s, fun _ _ _ hr => by simp [ntType] at hr, fun _ _ hi => hi, fun _ _ hi => hi⟩
  | f + 1 =>
    have ih := ntType_recOK f
    ⟨fun id s => (ntType_step env G f ih id s).1, fun id s => (ntType_step env G f ih id s).2.1,
     fun id s => (ntType_step env G f ih id s).2.2.1, fun id s => (ntType_step env G f ih id s).2.2.2⟩

end LalrpopModel.TyInfer
