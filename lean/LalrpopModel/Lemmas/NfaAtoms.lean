import LalrpopModel.Lemmas.NfaComb
namespace LalrpopModel.Nfa
open LalrpopModel.Re

/-! ### literals and classes -/

theorem Acc.chr {N : Nfa} {s u c : Nat} {w : List Nat} (hu : stepChar N s c = some u) (h : Acc N u w) :
    Acc N s (c :: w) := by
  obtain ⟨k, hk⟩ := h
  exact ⟨k + 1, .chr k s u c w hu hk⟩

/-- a fresh state whose test edges all lead to `acc` and whose `Other` edge leads to `rej`
implements "one symbol from the ranges" -/
theorem test_state_spec {N : Nfa} {s0 acc rej : Nat} {rs : List (Nat × Nat)}
    (hN : N[s0]? = some { kind := .neither, test := rs.map (fun r => (r.1, r.2, acc)), other := [rej] })
    (hrej : RejDead N rej) : Spec (fun w => ∃ c, w = [c] ∧ inRanges rs c) N s0 acc := by
  have hfind : ∀ c, (∃ e, (rs.map (fun r => (r.1, r.2, acc))).find? (fun e => e.1 ≤ c && c ≤ e.2.1) = some e ∧
      e.2.2 = acc ∧ inRanges rs c) ∨
      ((rs.map (fun r => (r.1, r.2, acc))).find? (fun e => e.1 ≤ c && c ≤ e.2.1) = none ∧ ¬ inRanges rs c) := by
    intro c
    cases hf : (rs.map (fun r => (r.1, r.2, acc))).find? (fun e => e.1 ≤ c && c ≤ e.2.1) with
    | none =>
      right
      refine ⟨rfl, ?_⟩
      rintro ⟨r, hr, h1, h2⟩
      rw [List.find?_eq_none] at hf
      have := hf (r.1, r.2, acc) (List.mem_map.mpr ⟨r, hr, rfl⟩)
      simp [h1, h2] at this
    | some e =>
      left
      have hmem := List.mem_of_find?_eq_some hf
      have hp := List.find?_some hf
      obtain ⟨r, hr, rfl⟩ := List.mem_map.mp hmem
      simp only [Bool.and_eq_true, decide_eq_true_eq] at hp
      exact ⟨_, rfl, rfl, r, hr, hp.1, hp.2⟩
  constructor
  · rintro w1 w2 ⟨c, rfl, hc⟩ hacc
    rcases hfind c with ⟨e, he, hacc', _⟩ | ⟨_, hno⟩
    · have := stepChar_some hN c he
      rw [hacc'] at this
      exact Acc.chr this hacc
    · exact absurd hc hno
  · intro k w hr
    obtain ⟨k', c, w', u, rfl, rfl, hstep, hr'⟩ := reach_test_state hN (by simp) rfl hr
    rcases hfind c with ⟨e, he, hacc', hin⟩ | ⟨hnone, _⟩
    · have := stepChar_some hN c he
      rw [hacc', hstep] at this
      cases this
      exact ⟨[c], w', k', by omega, rfl, ⟨c, rfl, hin⟩, hr'⟩
    · have := stepChar_none hN c hnone
      rw [hstep] at this
      simp only [List.head?_cons, Option.some.injEq] at this
      subst this
      exact absurd hr' (hrej _ _)

theorem getElem?_foldl_pushTest (rs : List (Nat × Nat)) (n : Nfa) (s0 acc q : Nat) :
    (rs.foldl (fun n r => pushTest n s0 r.1 r.2 acc) n)[q]? =
      if s0 = q then (n[q]?).map (fun st => { st with test := st.test ++ rs.map (fun r => (r.1, r.2, acc)) })
      else n[q]? := by
  induction rs generalizing n with
  | nil => split <;> simp
  | cons r rs ih =>
    rw [List.foldl_cons, ih, getElem?_pushTest]
    split
    · cases n[q]? <;> simp
    · rfl

theorem length_foldl_pushTest (rs : List (Nat × Nat)) (n : Nfa) (s0 acc : Nat) :
    (rs.foldl (fun n r => pushTest n s0 r.1 r.2 acc) n).length = n.length := by
  induction rs generalizing n with
  | nil => rfl
  | cons r rs ih => rw [List.foldl_cons, ih, length_pushTest]

theorem frame_foldl_pushTest {n n' : Nfa} (h : Frame n n') (rs : List (Nat × Nat)) (s0 acc : Nat)
    (hs : n.length ≤ s0) : Frame n (rs.foldl (fun n r => pushTest n s0 r.1 r.2 acc) n') := by
  induction rs generalizing n' with
  | nil => exact h
  | cons r rs ih => rw [List.foldl_cons]; exact ih (h.pushTest _ _ _ _ hs)

theorem clsBuild_impl (rs : List (Nat × Nat)) (rej : Nat) :
    Impl (fun acc n => (pure (clsBuild rs acc rej n) : Build)) rej (fun w => ∃ c, w = [c] ∧ inRanges rs c) := by
  intro acc n s n' he
  simp only [pure, Except.pure, clsBuild, newState_fst, Except.ok.injEq, Prod.mk.injEq] at he
  obtain ⟨rfl, rfl⟩ := he
  refine ⟨(frame_foldl_pushTest (Frame.newState n) rs _ acc (Nat.le_refl _)).pushOther _ _ (Nat.le_refl _), ?_⟩
  intro N hag hrej
  rw [length_pushOther, length_foldl_pushTest, length_newState] at hag
  apply test_state_spec (rej := rej) _ hrej
  rw [hag n.length (Nat.le_refl _) (by omega), getElem?_pushOther, getElem?_foldl_pushTest]
  simp [getElem?_newState_new]

theorem litStep_impl (c rej : Nat) :
    Impl (fun acc n => (pure (litStep c acc rej n) : Build)) rej (fun w => w = [c]) := by
  have h := clsBuild_impl [(c, c)] rej
  have e : (fun acc n => (pure (litStep c acc rej n) : Build)) =
      (fun acc n => (pure (clsBuild [(c, c)] acc rej n) : Build)) := by
    funext acc n; simp [litStep, clsBuild]
  rw [e]
  refine h.congr ?_
  intro w
  constructor
  · rintro ⟨c', rfl, r, hr, h1, h2⟩
    simp only [List.mem_cons, List.mem_nil_iff, or_false] at hr
    subst hr
    have : c' = c := by simp only at h1 h2; omega
    rw [this]
  · rintro rfl
    exact ⟨c, rfl, (c, c), by simp, Nat.le_refl _, Nat.le_refl _⟩

theorem litChain_impl (cs : List Nat) (rej : Nat) :
    Impl (fun acc n => (pure (litChain cs acc rej n) : Build)) rej (fun w => w = cs.reverse) := by
  induction cs with
  | nil =>
    have := pure_impl rej
    simpa [litChain] using this
  | cons c cs ih =>
    have h := seqB_impl (litStep_impl c rej) ih
    have e : (fun acc n => (pure (litChain (c :: cs) acc rej n) : Build)) =
        seqB (fun acc n => (pure (litStep c acc rej n) : Build)) (fun acc n => (pure (litChain cs acc rej n) : Build)) := by
      funext acc n
      simp only [litChain, seqB, bind, Except.bind, pure, Except.pure]
    rw [e]
    refine h.congr ?_
    intro w
    constructor
    · rintro ⟨u, v, rfl, rfl, rfl⟩; simp
    · rintro rfl; exact ⟨cs.reverse, [c], by simp, rfl, rfl⟩

/-! ### bounded and unbounded repetition -/

theorem LPow_one {L : List Nat → Prop} {w : List Nat} : LPow L 1 w ↔ L w := by
  constructor
  · rintro ⟨u, v, rfl, hu, hv⟩; simp only [LPow] at hv; subst hv; simpa using hu
  · intro h; exact ⟨w, [], by simp, h, rfl⟩

theorem LPow_opt {L : List Nat → Prop} {j : Nat} {w : List Nat} :
    LPow (Lopt L) j w ↔ ∃ i, i ≤ j ∧ LPow L i w := by
  induction j generalizing w with
  | zero =>
    constructor
    · intro h; exact ⟨0, Nat.le_refl _, h⟩
    · rintro ⟨i, hi, h⟩
      have : i = 0 := by omega
      subst this; exact h
  | succ j ih =>
    constructor
    · rintro ⟨u, v, rfl, hu, hv⟩
      obtain ⟨i, hi, hiv⟩ := ih.mp hv
      rcases hu with rfl | hu
      · exact ⟨i, by omega, by simpa using hiv⟩
      · exact ⟨i + 1, by omega, u, v, rfl, hu, hiv⟩
    · rintro ⟨i, hi, h⟩
      cases i with
      | zero =>
        simp only [LPow] at h; subst h
        exact ⟨[], [], rfl, .inl rfl, ih.mpr ⟨0, Nat.zero_le _, rfl⟩⟩
      | succ i =>
        obtain ⟨u, v, rfl, hu, hv⟩ := h
        exact ⟨u, v, rfl, .inr hu, ih.mpr ⟨i, by omega, hv⟩⟩

/-- the language of `x{min,max}` / `x{min,}` -/
def Lrep (L : List Nat → Prop) (min : Nat) (max : Option Nat) : List Nat → Prop :=
  fun w => ∃ k, min ≤ k ∧ (∀ mx, max = some mx → k ≤ mx) ∧ LPow L k w

theorem repWith_impl {f : Nat → Nfa → Build} {rej : Nat} {L : List Nat → Prop}
    (hf : Impl f rej L) (min : Nat) (max : Option Nat) (hwf : ∀ mx, max = some mx → min ≤ mx) :
    Impl (repWith f min max) rej (Lrep L min max) := by
  unfold repWith
  split
  · -- (0, Some(1))
    refine (optionalWith_impl hf).congr ?_
    intro w
    constructor
    · rintro (rfl | h)
      · exact ⟨0, Nat.le_refl _, (by intro mx h; cases h; omega), rfl⟩
      · exact ⟨1, by omega, (by intro mx h; cases h; omega), LPow_one.mpr h⟩
    · rintro ⟨k, _, h2, h3⟩
      have := h2 1 rfl
      have : k = 0 ∨ k = 1 := by omega
      rcases this with rfl | rfl
      · exact .inl h3
      · exact .inr (LPow_one.mp h3)
  · -- (0, None)
    refine (starWith_impl hf).congr ?_
    intro w
    constructor
    · rintro ⟨j, h⟩; exact ⟨j, Nat.zero_le _, (by intro mx h; cases h), h⟩
    · rintro ⟨k, _, _, h⟩; exact ⟨k, h⟩
  · -- (1, None)
    refine (plusWith_impl hf).congr ?_
    intro w
    constructor
    · rintro ⟨j, h⟩; exact ⟨j + 1, by omega, (by intro mx h; cases h), h⟩
    · rintro ⟨k, hk, _, h⟩
      obtain ⟨j, rfl⟩ : ∃ j, k = j + 1 := ⟨k - 1, by omega⟩
      exact ⟨j, h⟩
  · -- (min, Some(max))
    rename_i _ _ mx _
    split
    · rename_i heq
      subst heq
      refine (repeatWith_impl hf min).congr ?_
      intro w
      constructor
      · intro h; exact ⟨min, Nat.le_refl _, (by intro mx h; cases h; exact Nat.le_refl _), h⟩
      · rintro ⟨k, h1, h2, h3⟩
        have := h2 min rfl
        have : k = min := by omega
        subst this; exact h3
    · have hle := hwf mx rfl
      have h := seqB_impl (repeatWith_impl (optionalWith_impl hf) (mx - min)) (repeatWith_impl hf min)
      show Impl (seqB (repeatWith (optionalWith f) (mx - min)) (repeatWith f min)) rej _
      refine h.congr ?_
      intro w
      constructor
      · rintro ⟨u, v, rfl, hu, hv⟩
        obtain ⟨i, hi, hiv⟩ := LPow_opt.mp hv
        exact ⟨min + i, by omega, (by intro m h; cases h; omega), Pow_add hu hiv⟩
      · rintro ⟨k, h1, h2, h3⟩
        have := h2 mx rfl
        obtain ⟨i, rfl⟩ : ∃ i, k = min + i := ⟨k - min, by omega⟩
        obtain ⟨u, v, rfl, hu, hv⟩ := Pow_split h3
        exact ⟨u, v, rfl, hu, LPow_opt.mpr ⟨i, by omega, hv⟩⟩
  · -- (min, None)
    have h := seqB_impl (starWith_impl hf) (repeatWith_impl hf min)
    show Impl (seqB (starWith f) (repeatWith f min)) rej _
    refine h.congr ?_
    intro w
    constructor
    · rintro ⟨u, v, rfl, hu, ⟨j, hv⟩⟩
      exact ⟨min + j, by omega, (by intro m h; cases h), Pow_add hu hv⟩
    · rintro ⟨k, h1, _, h3⟩
      obtain ⟨i, rfl⟩ : ∃ i, k = min + i := ⟨k - min, by omega⟩
      obtain ⟨u, v, rfl, hu, hv⟩ := Pow_split h3
      exact ⟨u, v, rfl, hu, ⟨i, hv⟩⟩

end LalrpopModel.Nfa
