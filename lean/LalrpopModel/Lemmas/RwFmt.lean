import LalrpopModel.Lemmas.Rw
/-! Format strings: a format whose literal prefix is `//` instantiates to a comment line. -/
namespace LalrpopModel.Rw
open LalrpopModel.RustLex

/-- a parsed format string: literal characters and `{…}` holes -/
inductive FPiece
  | lit (c : Char)
  | hole
  deriving DecidableEq, Repr

/-- skip to the closing `}` of a hole -/
def skipHole : List Char → List Char
  | [] => []
  | c :: cs => if c == '}' then cs else skipHole cs

theorem skipHole_length (cs : List Char) : (skipHole cs).length ≤ cs.length := by
  induction cs with
  | nil => simp [skipHole]
  | cons c cs ih => simp only [skipHole]; split <;> simp <;> omega

/-- `format_args!` syntax as far as needed: `{{` and `}}` are literal braces, `{…}` is a hole -/
def parseFmt : Nat → List Char → List FPiece
  | 0, _ => []
  | _ + 1, [] => []
  | fuel + 1, c :: cs =>
    if c == '{' then
      match cs with
      | '{' :: cs' => .lit '{' :: parseFmt fuel cs'
      | _ => .hole :: parseFmt fuel (skipHole cs)
    else if c == '}' then
      match cs with
      | '}' :: cs' => .lit '}' :: parseFmt fuel cs'
      | _ => .lit '}' :: parseFmt fuel cs
    else .lit c :: parseFmt fuel cs

def parseFormat (fmt : List Char) : List FPiece := parseFmt (fmt.length + 1) fmt

/-- the formatted text: holes are filled with the (already formatted) arguments, left to right -/
def instantiate : List FPiece → List (List Char) → List Char
  | [], _ => []
  | .lit c :: ps, args => c :: instantiate ps args
  | .hole :: ps, [] => instantiate ps []
  | .hole :: ps, a :: args => a ++ instantiate ps args

/-- the pieces after `//`: no literal newline; the first piece is a literal other than `/` and `!`
    (so not a doc comment) or there is none -/
def bodyPiecesOK : List FPiece → Bool
  | [] => true
  | .lit c :: ps => c != '/' && c != '!' && c != '\n' && ps.all (fun p => p != .lit '\n')
  | .hole :: _ => false

/-- blanks, then `//`, then a comment body -/
def commentPieces : List FPiece → Bool
  | .lit ' ' :: ps => commentPieces ps
  | .lit '/' :: .lit '/' :: ps => bodyPiecesOK ps
  | _ => false

/-- the check run on every guarded emission site: the format string has no backslash escape and
    parses to blanks + `//` + comment body -/
def isCommentFormat (fmt : List Char) : Bool := !fmt.contains '\\' && commentPieces (parseFormat fmt)

theorem instantiate_no_newline (ps : List FPiece) (args : List (List Char))
    (hps : ps.all (fun p => p != .lit '\n') = true) (hargs : ∀ a ∈ args, ∀ x ∈ a, x ≠ '\n') :
    ∀ x ∈ instantiate ps args, x ≠ '\n' := by
  induction ps generalizing args with
  | nil => simp [instantiate]
  | cons p ps ih =>
    simp only [List.all_cons, Bool.and_eq_true] at hps
    obtain ⟨hp, hps⟩ := hps
    cases p with
    | lit c =>
      intro x hx
      simp only [instantiate, List.mem_cons] at hx
      rcases hx with rfl | hx
      · intro h; subst h; simp at hp
      · exact ih args hps hargs x hx
    | hole =>
      cases args with
      | nil => simpa [instantiate] using ih [] hps (by simp)
      | cons a args =>
        intro x hx
        simp only [instantiate, List.mem_append] at hx
        rcases hx with hx | hx
        · exact hargs a (by simp) x hx
        · exact ih args hps (fun b hb => hargs b (by simp [hb])) x hx

/-- **a comment format instantiates to a comment line**, whatever the arguments are, as long as they
    contain no newline (the `Debug`-escaped kinds used at the guarded sites) -/
theorem comment_format_instantiates (ps : List FPiece) (args : List (List Char))
    (h : commentPieces ps = true) (hargs : ∀ a ∈ args, ∀ x ∈ a, x ≠ '\n') :
    isCommentLine (instantiate ps args) := by
  induction ps with
  | nil => simp [commentPieces] at h
  | cons p ps ih =>
    cases p with
    | hole => simp [commentPieces] at h
    | lit c =>
      by_cases hc : c = ' '
      · subst hc
        obtain ⟨n, body, he, hb⟩ := ih (by simpa [commentPieces] using h)
        exact ⟨n + 1, body, by simp [instantiate, he, List.replicate_succ], hb⟩
      · by_cases hs : c = '/'
        · subst hs
          cases ps with
          | nil => simp [commentPieces] at h
          | cons q qs =>
            cases q with
            | hole => simp [commentPieces] at h
            | lit d =>
              by_cases hd : d = '/'
              · subst hd
                have hb : bodyPiecesOK qs = true := by simpa [commentPieces] using h
                refine ⟨0, instantiate qs args, by simp [instantiate], ?_⟩
                cases qs with
                | nil => simp [instantiate, plainCommentBody]
                | cons r rs =>
                  cases r with
                  | hole => simp [bodyPiecesOK] at hb
                  | lit e =>
                    simp only [bodyPiecesOK, Bool.and_eq_true, bne_iff_ne, ne_eq] at hb
                    obtain ⟨⟨⟨h1, h2⟩, h3⟩, h4⟩ := hb
                    have hrest := instantiate_no_newline rs args h4 hargs
                    refine ⟨?_, by simp [instantiate, h2], by simp [instantiate, h1]⟩
                    intro x hx
                    simp only [instantiate, List.mem_cons] at hx
                    rcases hx with rfl | hx
                    · exact h3
                    · exact hrest x hx
              · simp [commentPieces, hd] at h
        · simp [commentPieces, hc, hs] at h

end LalrpopModel.Rw
