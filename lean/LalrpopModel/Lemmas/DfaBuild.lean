import LalrpopModel.Lemmas.DfaKind
namespace LalrpopModel.Dfa
open LalrpopModel.Nfa

/-- the successor item set of `I` on symbol `c` is `I'` -/
def Succ (nfas : List Nfa) (cfuel : Nat) (I : List Item) (c : Nat) (I' : List Item) : Prop :=
  closure nfas cfuel (charStep nfas I c) = some I'

theorem addState_spec (ks : List (List Item)) (s : List Item) :
    ∃ extra, (addState ks s).2 = ks ++ extra ∧ s ∈ (addState ks s).2 ∧ ∀ x, x ∈ extra → x = s := by
  simp only [addState]
  cases h : ks.idxOf? s with
  | some i =>
    refine ⟨[], by simp, ?_, by simp⟩
    simp only
    false_or_by_contra
    rename_i hn
    have := (List.idxOf?_eq_none_iff (l := ks) (a := s)).mpr hn
    rw [h] at this; cases this
  | none => exact ⟨[s], rfl, by simp, by simp⟩

theorem testEdges_spec (nfas : List Nfa) (fuel : Nat) (items : List Item) :
    ∀ (tests : List Range) (ks : List (List Item)) (edges : List (Range × Nat)) (ks' : List (List Item)),
    testEdges nfas fuel items tests ks = .ok (edges, ks') →
    ∃ extra, ks' = ks ++ extra ∧
      (∀ t, t ∈ tests → ∃ I', closure nfas fuel (items.filterMap (fun it => acceptTest nfas it t)) = some I' ∧ I' ∈ ks') ∧
      (∀ x, x ∈ extra → ∃ t, t ∈ tests ∧ closure nfas fuel (items.filterMap (fun it => acceptTest nfas it t)) = some x) := by
  intro tests
  induction tests with
  | nil =>
    intro ks edges ks' h
    simp only [testEdges, Except.ok.injEq, Prod.mk.injEq] at h
    exact ⟨[], by simp [h.2], (fun t ht => nomatch ht), (fun x hx => nomatch hx)⟩
  | cons t ts ih =>
    intro ks edges ks' h
    rw [testEdges] at h
    split at h
    · cases h
    · split at h
      · cases h
      · rename_i cl hcl
        obtain ⟨ex1, he1, hmem1, hex1⟩ := addState_spec ks cl
        generalize hadd : addState ks cl = r at h he1 hmem1
        obtain ⟨idx, ks1⟩ := r
        simp only at h he1 hmem1
        split at h
        · cases h
        · rename_i edges' ks2 hrec
          simp only [Except.ok.injEq, Prod.mk.injEq] at h
          obtain ⟨_, rfl⟩ := h
          obtain ⟨ex2, he2, hall2, hex2⟩ := ih ks1 edges' ks2 hrec
          refine ⟨ex1 ++ ex2, by rw [he2, he1, List.append_assoc], ?_, ?_⟩
          · intro t' ht'
            rcases List.mem_cons.mp ht' with rfl | ht'
            · exact ⟨cl, hcl, by rw [he2]; exact List.mem_append_left _ hmem1⟩
            · exact hall2 t' ht'
          · intro x hx
            rcases List.mem_append.mp hx with hx | hx
            · rw [hex1 x hx]; exact ⟨t, List.mem_cons_self, hcl⟩
            · obtain ⟨t', ht', h'⟩ := hex2 x hx
              exact ⟨t', List.mem_cons_of_mem _ ht', h'⟩

/-- what the ranges computed by `remove_overlap` must satisfy -/
def RoOk (ro : List Range → Except OErr (List Range)) : Prop :=
  ∀ labels tests, ro labels = .ok tests → TestsOk labels tests

theorem removeOverlap_ok (fuel : Nat) : RoOk (removeOverlap fuel) := by
  intro labels tests h
  obtain ⟨_, h2, h3, h4⟩ := removeOverlap_partition fuel labels tests h
  exact ⟨h2, h3, h4⟩

/-- facts about a kernel (an item set registered in the kernel set) -/
structure KernelOk (nfas : List Nfa) (I : List Item) : Prop where
  nodup : I.Nodup
  reach : ∃ w, Rs nfas I w

/-- a processed kernel: no ambiguity, and all its successors are registered -/
structure Done (nfas : List Nfa) (precs : List Nat) (cfuel : Nat) (ks : List (List Item)) (I : List Item) : Prop where
  kind : ∃ k, stateKind nfas precs I = .ok k
  succ : ∀ c, ∃ I', I' ∈ ks ∧ Succ nfas cfuel I c I'

theorem processKernel_ok (ro : List Range → Except OErr (List Range)) (hro : RoOk ro) (nfas : List Nfa)
    (precs : List Nat) (cfuel : Nat) (items : List Item) (ks ks2 : List (List Item)) (st : DState)
    (hK : KernelOk nfas items) (h : processKernel ro nfas precs cfuel items ks = .ok (st, ks2)) :
    st.items = items ∧ (∃ k, stateKind nfas precs items = .ok k) ∧
    ∃ extra, ks2 = ks ++ extra ∧ (∀ c, ∃ I', I' ∈ ks2 ∧ Succ nfas cfuel items c I') ∧
      ∀ x, x ∈ extra → KernelOk nfas x := by
  obtain ⟨hnd, w, hw⟩ := hK
  unfold processKernel at h
  simp only at h
  cases hro' : ro (labelsOf nfas items) with
  | error e =>
    have : ro (items.flatMap (fun it => (testOf (nfaAt nfas it.1) it.2).map (fun e => (e.1, e.2.1)))) = .error e := hro'
    rw [this] at h
    cases e <;> cases h
  | ok tests =>
    have hro'' : ro (items.flatMap (fun it => (testOf (nfaAt nfas it.1) it.2).map (fun e => (e.1, e.2.1)))) = .ok tests := hro'
    rw [hro''] at h
    simp only at h
    have hok : TestsOk (labelsOf nfas items) tests := hro _ _ hro'
    cases hkind : stateKind nfas precs items with
    | error m => rw [hkind] at h; cases h
    | ok kind =>
      rw [hkind] at h
      simp only at h
      cases hte : testEdges nfas cfuel items tests ks with
      | error v => rw [hte] at h; cases h
      | ok r =>
        obtain ⟨edges, ks1⟩ := r
        rw [hte] at h
        simp only at h
        obtain ⟨ex1, he1, hall1, hex1⟩ := testEdges_spec nfas cfuel items tests ks edges ks1 hte
        split at h
        · cases h
        · cases hcl : closure nfas cfuel (items.filterMap (acceptOther nfas)) with
          | none => rw [hcl] at h; cases h
          | some cl =>
            rw [hcl] at h
            simp only at h
            obtain ⟨ex2, he2, hmem2, hex2⟩ := addState_spec ks1 cl
            generalize hadd : addState ks1 cl = r at h he2 hmem2
            obtain ⟨oidx, ks2'⟩ := r
            simp only [Except.ok.injEq, Prod.mk.injEq] at h he2 hmem2
            obtain ⟨rfl, rfl⟩ := h
            refine ⟨rfl, ⟨kind, rfl⟩, ex1 ++ ex2, by rw [he2, he1, List.append_assoc], ?_, ?_⟩
            · intro c
              by_cases hc : ∃ t, t ∈ tests ∧ mem c t
              · obtain ⟨t, ht, hm⟩ := hc
                obtain ⟨I', hI', hmem⟩ := hall1 t ht
                refine ⟨I', by rw [he2]; exact List.mem_append_left _ hmem, ?_⟩
                simp only [Succ]
                rw [← acceptTest_eq_step hok ht hm]; exact hI'
              · refine ⟨cl, hmem2, ?_⟩
                simp only [Succ]
                rw [← acceptOther_eq_step hok (fun t ht hm => hc ⟨t, ht, hm⟩)]; exact hcl
            · intro I hI
              rcases List.mem_append.mp hI with hI | hI
              · obtain ⟨t, ht, hcl'⟩ := hex1 I hI
                have hne := hok.nonempty t ht
                have hm : mem t.1 t := by
                  simp only [isEmpty, decide_eq_false_iff_not] at hne
                  exact ⟨Nat.le_refl _, by omega⟩
                rw [acceptTest_eq_step hok ht hm] at hcl'
                exact ⟨closure_nodup hcl', w ++ [t.1], rs_step nfas cfuel items I w t.1 hw hcl'⟩
              · rw [hex2 I hI]
                obtain ⟨c, hc⟩ := exists_outside tests
                have hcl' := hcl
                rw [acceptOther_eq_step hok hc] at hcl'
                exact ⟨closure_nodup hcl', w ++ [c], rs_step nfas cfuel items cl w c hw hcl'⟩

theorem testEdges_error (nfas : List Nfa) (fuel : Nat) (items : List Item) :
    ∀ (tests : List Range) (ks : List (List Item)) (v : Verdict),
    testEdges nfas fuel items tests ks = .error v → v = .fuel ∨ v = .panic := by
  intro tests
  induction tests with
  | nil => intro ks v h; simp [testEdges] at h
  | cons t ts ih =>
    intro ks v h
    rw [testEdges] at h
    split at h
    · simp only [Except.error.injEq] at h; exact .inr h.symm
    · split at h
      · simp only [Except.error.injEq] at h; exact .inl h.symm
      · split at h
        split at h
        · rename_i e hrec
          simp only [Except.error.injEq] at h
          subst h
          exact ih _ _ hrec
        · cases h

theorem processKernel_error (ro : List Range → Except OErr (List Range)) (nfas : List Nfa)
    (precs : List Nat) (cfuel : Nat) (items : List Item) (ks : List (List Item)) (v : Verdict)
    (h : processKernel ro nfas precs cfuel items ks = .error v) :
    v = .fuel ∨ v = .panic ∨ ∃ m0 m1, v = .ambiguity m0 m1 ∧ stateKind nfas precs items = .error (m0, m1) := by
  unfold processKernel at h
  simp only at h
  split at h
  · simp only [Except.error.injEq] at h; exact .inl h.symm
  · simp only [Except.error.injEq] at h; exact .inr (.inl h.symm)
  · split at h
    · rename_i a b hk
      simp only [Except.error.injEq] at h
      exact .inr (.inr ⟨a, b, h.symm, hk⟩)
    · split at h
      · rename_i v' hte
        simp only [Except.error.injEq] at h
        subst h
        rcases testEdges_error nfas cfuel items _ _ _ hte with h' | h'
        · exact .inl h'
        · exact .inr (.inl h')
      · split at h
        · simp only [Except.error.injEq] at h; exact .inr (.inl h.symm)
        · split at h
          · simp only [Except.error.injEq] at h; exact .inl h.symm
          · cases h

/-- what a run of the worklist loop establishes -/
def LoopResult (nfas : List Nfa) (precs : List Nat) (cfuel : Nat) (ks0 : List (List Item)) : Verdict → Prop
  | .ambiguity m0 m1 => ∃ I, KernelOk nfas I ∧ stateKind nfas precs I = .error (m0, m1)
  | .ok states => ∃ ks', (∀ I, I ∈ ks0 → I ∈ ks') ∧ (∀ I, I ∈ ks' → KernelOk nfas I ∧ Done nfas precs cfuel ks' I) ∧
      states.map (·.items) = ks'
  | _ => True

theorem buildLoop_spec (ro : List Range → Except OErr (List Range)) (hro : RoOk ro) (nfas : List Nfa)
    (precs : List Nat) (cfuel : Nat) :
    ∀ (f : Nat) (ks : List (List Item)) (i : Nat) (out : List DState),
    (∀ I, I ∈ ks → KernelOk nfas I) →
    (∀ (j : Nat) (I : List Item), j < i → ks[j]? = some I → Done nfas precs cfuel ks I) →
    out.map (·.items) = ks.take i →
    LoopResult nfas precs cfuel ks (buildLoop ro nfas precs cfuel f ks i out) := by
  intro f
  induction f with
  | zero => intro ks i out _ _ _; simp [buildLoop, LoopResult]
  | succ f ih =>
    intro ks i out hK hD hout
    rw [buildLoop]
    cases hitems : ks[i]? with
    | none =>
      simp only
      have hlen : ks.length ≤ i := List.getElem?_eq_none_iff.mp hitems
      refine ⟨ks, fun I h => h, ?_, by rw [hout, List.take_of_length_le hlen]⟩
      intro I hI
      obtain ⟨j, hj⟩ := List.mem_iff_getElem?.mp hI
      have : j < ks.length := (List.getElem?_eq_some_iff.mp hj).1
      exact ⟨hK I hI, hD j I (by omega) hj⟩
    | some items =>
      simp only
      have hitems_mem : items ∈ ks := List.mem_iff_getElem?.mpr ⟨i, hitems⟩
      have hilt : i < ks.length := (List.getElem?_eq_some_iff.mp hitems).1
      cases hp : processKernel ro nfas precs cfuel items ks with
      | error v =>
        simp only
        rcases processKernel_error ro nfas precs cfuel items ks v hp with rfl | rfl | ⟨m0, m1, rfl, hk⟩
        · trivial
        · trivial
        · exact ⟨items, hK items hitems_mem, hk⟩
      | ok r =>
        obtain ⟨st, ks2⟩ := r
        simp only
        obtain ⟨hst, hkind, extra, hks2, hsucc, hextra⟩ :=
          processKernel_ok ro hro nfas precs cfuel items ks ks2 st (hK items hitems_mem) hp
        have hres := ih ks2 (i + 1) (out ++ [st])
          (by
            intro I hI
            rw [hks2] at hI
            rcases List.mem_append.mp hI with hI | hI
            · exact hK I hI
            · exact hextra I hI)
          (by
            intro j I hj hjI
            by_cases hji : j = i
            · subst hji
              rw [hks2, List.getElem?_append_left hilt, hitems] at hjI
              cases hjI
              exact ⟨hkind, hsucc⟩
            · have hjlt : j < ks.length := by omega
              rw [hks2, List.getElem?_append_left hjlt] at hjI
              obtain ⟨hk, hs⟩ := hD j I (by omega) hjI
              refine ⟨hk, fun c => ?_⟩
              obtain ⟨I', hI', hS⟩ := hs c
              exact ⟨I', by rw [hks2]; exact List.mem_append_left _ hI', hS⟩)
          (by
            rw [List.map_append, hout, hks2, List.take_append_of_le_length (by omega)]
            simp only [List.map_cons, List.map_nil, hst]
            rw [List.take_add_one]
            simp [hitems])
        generalize buildLoop ro nfas precs cfuel f ks2 (i + 1) (out ++ [st]) = res at hres ⊢
        cases res with
        | ambiguity m0 m1 => exact hres
        | ok states =>
          obtain ⟨ks', h1, h2, h3⟩ := hres
          exact ⟨ks', fun I hI => h1 I (by rw [hks2]; exact List.mem_append_left _ hI), h2, h3⟩
        | nfaError a b => trivial
        | fuel => trivial
        | panic => trivial

end LalrpopModel.Dfa
