import LalrpopModel.Lemmas.LRGenericBasic
/-!
Stream bookkeeping of the M-LR driver for arbitrary tables: the invariant `IOInv` ties `c.pulled`,
`c.input`, `c.lastLoc`, the lookahead held by the phase and the error held by `error_recovery`
to the original token stream.
-/
namespace LalrpopModel.LR.Generic
open LalrpopModel.LR
variable (T : Tables) (af : Nat) (failAt : Option Nat) (startLoc : Int)

/-! ### frame facts of the sub-steps -/

section frames
variable {T failAt startLoc}

theorem ReduceSpec.cont_io {c : Cfg} {p : Nat} {ls : Option Int} {c' : Cfg}
    (h : ReduceSpec T failAt startLoc c p ls (.continue_ c')) :
    c'.input = c.input ∧ c'.pulled = c.pulled ∧ c'.lastLoc = c.lastLoc := by
  cases h; simp [pushCfg, popCfg]

theorem ReduceSpec.fin_io {c : Cfg} {p : Nat} {ls : Option Int} {c' : Cfg} {r : Outcome}
    (h : ReduceSpec T failAt startLoc c p ls (.finished c' r)) :
    c'.input = c.input ∧ c'.pulled = c.pulled ∧ c'.lastLoc = c.lastLoc := by
  cases h <;> simp [pushCfg, popCfg]

theorem ReduceSpec.fin_outcome {c : Cfg} {p : Nat} {ls : Option Int} {c' : Cfg} {r : Outcome}
    (h : ReduceSpec T failAt startLoc c p ls (.finished c' r)) :
    (∃ tag, r = .panic tag) ∨ (∃ e, r = .err (.user e)) ∨ (∃ v, r = .ok v) := by
  cases h <;> simp

theorem PushSpec.io {c : Cfg} {la : Option (Tok × Term)} {e : PErr} {dropped : List Tok} {sl top : Nat}
    {fe : Bool} {c' : Cfg} {ph' : Phase} (h : PushSpec T startLoc c la e dropped sl top fe c' ph') :
    c'.input = c.input ∧ c'.pulled = c.pulled ∧ c'.lastLoc = c.lastLoc ∧ c'.acts = c.acts ∧
      c'.trace = c.trace := by
  cases h <;> simp [recCfg]

end frames

/-! ### stream bookkeeping -/

def toksOf : List Item → List Tok
  | [] => []
  | .tok t :: rest => t :: toksOf rest
  | .err _ :: rest => toksOf rest

@[simp] theorem toksOf_nil : toksOf [] = [] := rfl
@[simp] theorem toksOf_tok (t : Tok) (rest : List Item) : toksOf (.tok t :: rest) = t :: toksOf rest := rfl
@[simp] theorem toksOf_err (e : Nat) (rest : List Item) : toksOf (.err e :: rest) = toksOf rest := rfl

@[simp] theorem toksOf_append (a b : List Item) : toksOf (a ++ b) = toksOf a ++ toksOf b := by
  induction a with
  | nil => rfl
  | cons x a ih => cases x <;> simp [ih]

@[simp] theorem toksOf_map_tok (l : List Tok) : toksOf (l.map Item.tok) = l := by
  induction l with
  | nil => rfl
  | cons x l ih => simp [ih]

/-- `last_location` after the items `items` were pulled -/
def lastR (items : List Item) : Int :=
  match (toksOf items).getLast? with
  | some t => t.r
  | none => startLoc

def AllTok (l : List Item) : Prop := ∀ x ∈ l, ∃ t, x = Item.tok t

/-- phases in which the end of the stream has not been seen -/
def preEof : Phase → Bool
  | .pull | .act _ _ | .recReduce (some _) _ _ | .recFind (some _) _ _ _ _ => true
  | _ => false

def atEof : Phase → Bool
  | .eof | .recReduce none _ _ | .recFind none _ _ _ _ => true
  | _ => false

/-- the lookahead token a phase holds -/
def phLa : Phase → Option Tok
  | .act la _ | .recReduce (some (la, _)) _ _ | .recFind (some (la, _)) _ _ _ _ => some la
  | _ => none

/-- the error `error_recovery` holds -/
def phErr : Phase → Option PErr
  | .recReduce _ e _ | .recFind _ e _ _ _ => some e
  | _ => none

/-- what is known about an error built by `unrecognized_token_error` once `pulled` items were pulled -/
def ErrOk (input : List Item) (pulled : Nat) : PErr → Prop
  | .unrecognizedToken t _ => ∃ i, i < pulled ∧ input[i]? = some (.tok t)
  | .unrecognizedEof loc _ => pulled = input.length + 1 ∧ loc = lastR startLoc input ∧ AllTok input
  | _ => False

def DoneOk (input : List Item) (pulled : Nat) : Outcome → Prop
  | .err (.unrecognizedToken t ex) => ErrOk startLoc input pulled (.unrecognizedToken t ex) ∧
      (T.usesRecovery = false → 1 ≤ pulled ∧ input[pulled - 1]? = some (.tok t))
  | .err (.unrecognizedEof loc ex) => ErrOk startLoc input pulled (.unrecognizedEof loc ex)
  | _ => True

structure IOInv (input : List Item) (c : Cfg) (ph : Phase) : Prop where
  inp : c.input = input.drop c.pulled
  alltok : phDone ph = false → AllTok (input.take c.pulled)
  pre : preEof ph = true → c.pulled ≤ input.length
  eof : atEof ph = true → c.pulled = input.length + 1
  le : c.pulled ≤ input.length + 1
  la : ∀ t, phLa ph = some t → 1 ≤ c.pulled ∧ input[c.pulled - 1]? = some (.tok t)
  loc : c.lastLoc = lastR startLoc (input.take c.pulled)
  perr : ∀ e, phErr ph = some e → T.usesRecovery = true ∧ ErrOk startLoc input c.pulled e
  fin : ∀ r, ph = .done r → DoneOk T startLoc input c.pulled r

theorem IOInv.init (input : List Item) : IOInv T startLoc input (init startLoc input) .pull where
  inp := by simp [LR.init]
  alltok := by intro _ x hx; simp [LR.init] at hx
  pre := by intro _; simp [LR.init]
  eof := by intro h; simp [atEof] at h
  le := by simp [LR.init]
  la := by intro t h; simp [phLa] at h
  loc := by simp [LR.init, lastR]
  perr := by intro e h; simp [phErr] at h
  fin := by intro r h; cases h


variable {T startLoc}

theorem drop_cons_facts {α : Type} {l : List α} {n : Nat} {x : α} {rest : List α}
    (h : l.drop n = x :: rest) :
    n < l.length ∧ l.take (n + 1) = l.take n ++ [x] ∧ l.drop (n + 1) = rest ∧ l[n]? = some x := by
  induction n generalizing l with
  | zero => cases l with
    | nil => simp at h
    | cons y l => simp at h; simp [h]
  | succ n ih => cases l with
    | nil => simp at h
    | cons y l =>
      simp at h
      obtain ⟨h1, h2, h3, h4⟩ := ih h
      exact ⟨by simp; omega, by simp [h2], by simpa using h3, by simpa using h4⟩

theorem drop_nil_facts {α : Type} {l : List α} {n : Nat} (h : l.drop n = []) : l.length ≤ n := by
  simpa using h

theorem lastR_append_tok (l : List Item) (t : Tok) : lastR startLoc (l ++ [.tok t]) = t.r := by
  simp [lastR]

theorem lastR_append_err (l : List Item) (e : Nat) : lastR startLoc (l ++ [.err e]) = lastR startLoc l := by
  simp [lastR]

theorem AllTok.append_tok {l : List Item} (h : AllTok l) (t : Tok) : AllTok (l ++ [.tok t]) := by
  intro x hx
  simp at hx
  rcases hx with hx | hx
  · exact h x hx
  · exact ⟨t, hx⟩


theorem ErrOk.mono {input : List Item} {n m : Nat} {e : PErr} (h : ErrOk startLoc input n e)
    (hnm : n ≤ m) (hm : m ≤ input.length + 1) : ErrOk startLoc input m e := by
  cases e with
  | unrecognizedToken t ex => obtain ⟨i, hi, h⟩ := h; exact ⟨i, Nat.lt_of_lt_of_le hi hnm, h⟩
  | unrecognizedEof loc ex => obtain ⟨h1, h2⟩ := h; exact ⟨by omega, h2⟩
  | extraToken t => exact h
  | user e => exact h

/-- effect of one `next_token` on the stream bookkeeping -/
theorem next_io {af : Nat} {input : List Item} {c c' : Cfg} {nt : NextToken} (hn : NextSpec T af c c' nt)
    (hinp : c.input = input.drop c.pulled) (halltok : AllTok (input.take c.pulled))
    (hpre : c.pulled ≤ input.length) (hloc : c.lastLoc = lastR startLoc (input.take c.pulled)) :
    c'.input = input.drop c'.pulled ∧ c'.pulled = c.pulled + 1 ∧
    c'.lastLoc = lastR startLoc (input.take c'.pulled) ∧
    match nt with
    | .eof => c'.pulled = input.length + 1 ∧ AllTok (input.take c'.pulled)
    | .found t _ => c'.pulled ≤ input.length ∧ AllTok (input.take c'.pulled) ∧
        input[c'.pulled - 1]? = some (.tok t)
    | .done r => DoneOk T startLoc input c'.pulled r := by
  cases hn with
  | eof h =>
    rw [hinp] at h
    have hl := drop_nil_facts h
    have hp : c.pulled = input.length := by omega
    have ht : input.take (input.length + 1) = input := List.take_of_length_le (by omega)
    have hd : input.drop (input.length + 1) = [] := List.drop_eq_nil_of_le (by omega)
    have ht' : input.take input.length = input := List.take_of_length_le (by omega)
    simp only
    rw [hp] at halltok hloc ⊢
    rw [ht'] at halltok hloc
    rw [ht, hd]
    refine ⟨by assumption, ?_, hloc, ?_, halltok⟩ <;> first | rfl | trivial
  | err e rest h =>
    rw [hinp] at h
    obtain ⟨h1, h2, h3, h4⟩ := drop_cons_facts h
    refine ⟨by simp [pullCfg, h3], by simp [pullCfg], ?_, trivial⟩
    simp only [pullCfg]
    rw [h2, lastR_append_err, hloc]
  | found t i rest h hk =>
    rw [hinp] at h
    obtain ⟨h1, h2, h3, h4⟩ := drop_cons_facts h
    refine ⟨by simp [pullTokCfg, h3], by simp [pullTokCfg], ?_, ?_, ?_, ?_⟩
    · simp only [pullTokCfg]; rw [h2, lastR_append_tok]
    · simp only [pullTokCfg]; omega
    · simp only [pullTokCfg]; rw [h2]; exact halltok.append_tok t
    · simpa [pullTokCfg] using h4
  | unrec t rest h hk ex hex =>
    rw [hinp] at h
    obtain ⟨h1, h2, h3, h4⟩ := drop_cons_facts h
    refine ⟨by simp [pullTokCfg, h3], by simp [pullTokCfg], ?_, ?_, ?_⟩
    · simp only [pullTokCfg]; rw [h2, lastR_append_tok]
    · exact ⟨c.pulled, by simp [pullTokCfg], h4⟩
    · intro _; simpa [pullTokCfg] using h4
  | panic t rest h hk tag =>
    rw [hinp] at h
    obtain ⟨h1, h2, h3, h4⟩ := drop_cons_facts h
    refine ⟨by simp [pullTokCfg, h3], by simp [pullTokCfg], ?_, trivial⟩
    simp only [pullTokCfg]; rw [h2, lastR_append_tok]


/-- rebuild the invariant when only stacks/ghost counters changed and the phase keeps its kind -/
theorem IOInv.frame {input : List Item} {c c' : Cfg} {ph ph' : Phase} (h : IOInv T startLoc input c ph)
    (hio : c'.input = c.input ∧ c'.pulled = c.pulled ∧ c'.lastLoc = c.lastLoc)
    (hdone : phDone ph' = false → phDone ph = false)
    (hpre : preEof ph' = true → preEof ph = true) (heof : atEof ph' = true → atEof ph = true)
    (hla : ∀ t, phLa ph' = some t → phLa ph = some t)
    (hperr : ∀ e, phErr ph' = some e → T.usesRecovery = true ∧ ErrOk startLoc input c.pulled e)
    (hfin : ∀ r, ph' = .done r → DoneOk T startLoc input c.pulled r) :
    IOInv T startLoc input c' ph' := by
  obtain ⟨h1, h2, h3⟩ := hio
  constructor
  · rw [h1, h2]; exact h.inp
  · intro hd; rw [h2]; exact h.alltok (hdone hd)
  · intro hp; rw [h2]; exact h.pre (hpre hp)
  · intro hp; rw [h2]; exact h.eof (heof hp)
  · rw [h2]; exact h.le
  · intro t ht; rw [h2]; exact h.la t (hla t ht)
  · rw [h2, h3]; exact h.loc
  · intro e he; rw [h2]; exact hperr e he
  · intro r hr; rw [h2]; exact hfin r hr

theorem IOInv.step {af : Nat} {failAt : Option Nat} {input : List Item} {c c' : Cfg} {ph ph' : Phase}
    (h : IOInv T startLoc input c ph) (hs : Step T af failAt startLoc c ph c' ph') :
    IOInv T startLoc input c' ph' := by
  cases hs with
  | done r => exact h
  | panic _ tag hd =>
    exact h.frame ⟨rfl, rfl, rfl⟩ (by simp [phDone]) (by simp [preEof]) (by simp [atEof]) (by simp [phLa])
      (by simp [phErr]) (by intro r hr; cases hr; trivial)
  | pull _ nt hn =>
    obtain ⟨h1, h2, h3, h4⟩ := next_io (startLoc := startLoc) hn h.inp (h.alltok rfl) (h.pre rfl) h.loc
    cases nt with
    | eof =>
      exact ⟨h1, fun _ => h4.2, by simp [pullK, preEof], fun _ => h4.1, by omega, by simp [pullK, phLa], h3,
        by simp [pullK, phErr], by simp [pullK]⟩
    | found t i =>
      exact ⟨h1, fun _ => h4.2.1, fun _ => h4.1, by simp [pullK, atEof], by omega,
        by intro t' ht'; simp [pullK, phLa] at ht'; subst ht'; exact ⟨by omega, h4.2.2⟩, h3,
        by simp [pullK, phErr], by simp [pullK]⟩
    | done r =>
      exact ⟨h1, by simp [pullK, phDone], by simp [pullK, preEof], by simp [pullK, atEof],
        by have := h.pre rfl; omega, by simp [pullK, phLa], h3, by simp [pullK, phErr],
        by intro r' hr'; simp [pullK] at hr'; subst hr'; exact h4⟩
  | shift la idx top rest a target hst ha hsh =>
    exact h.frame ⟨rfl, rfl, rfl⟩ (by simp [phDone]) (by simp [preEof]) (by simp [atEof]) (by simp [phLa])
      (by simp [phErr]) (by intro r hr; cases hr)
  | redCont _ p ls _ hctx hr =>
    exact h.frame hr.cont_io id id id (fun _ => id) h.perr h.fin
  | redFin _ p ls _ r hctx hr =>
    refine h.frame hr.fin_io (by simp [phDone]) (by simp [preEof]) (by simp [atEof]) (by simp [phLa])
      (by simp [phErr]) ?_
    intro r' hr'
    injection hr' with hr'
    subst hr'
    rcases hr.fin_outcome with ⟨tag, rfl⟩ | ⟨e, rfl⟩ | ⟨v, rfl⟩ <;> cases ph <;> simp [finOutcome, DoneOk]
  | enterNoRec _ la fe ex hctx hex hrec =>
    refine h.frame ⟨rfl, rfl, rfl⟩ (by simp [phDone]) (by simp [preEof]) (by simp [atEof]) (by simp [phLa])
      (by simp [phErr]) ?_
    intro r' hr'
    injection hr' with hr'
    subst hr'
    cases ph with
    | act t idx =>
      obtain ⟨rfl, -, -⟩ := hctx
      have := h.la t rfl
      exact ⟨⟨c.pulled - 1, by omega, this.2⟩, fun _ => this⟩
    | eof =>
      obtain ⟨rfl, -, -⟩ := hctx
      have hp := h.eof rfl
      have ht : input.take (input.length + 1) = input := List.take_of_length_le (by omega)
      have h1 := h.loc
      have h2 := h.alltok rfl
      rw [hp, ht] at h1 h2
      exact ⟨hp, h1, h2⟩
    | _ => exact hctx.elim
  | enterRec _ la fe ex hctx hex hrec =>
    cases ph with
    | act t idx =>
      obtain ⟨rfl, -, -⟩ := hctx
      refine h.frame ⟨rfl, rfl, rfl⟩ (by simp [phDone]) (by simp [preEof]) (by simp [atEof])
        (by simp [phLa]) ?_ (by intro r hr; cases hr)
      intro e he
      simp [phErr] at he
      subst he
      have := h.la t rfl
      exact ⟨hrec, c.pulled - 1, by omega, this.2⟩
    | eof =>
      obtain ⟨rfl, -, -⟩ := hctx
      refine h.frame ⟨rfl, rfl, rfl⟩ (by simp [phDone]) (by simp [preEof]) (by simp [atEof])
        (by simp [phLa]) ?_ (by intro r hr; cases hr)
      intro e he
      simp [phErr] at he
      subst he
      have hp := h.eof rfl
      have ht : input.take (input.length + 1) = input := List.take_of_length_le (by omega)
      have h1 := h.loc
      have h2 := h.alltok rfl
      rw [hp, ht] at h1 h2
      exact ⟨hrec, hp, h1, h2⟩
    | _ => exact hctx.elim
  | toFind la e fe top rest a hst ha hnr =>
    refine h.frame ⟨rfl, rfl, rfl⟩ (by simp [phDone]) ?_ ?_ ?_ ?_ (by intro r hr; cases hr)
    · cases la <;> simp [preEof]
    · cases la <;> simp [atEof]
    · intro t; cases la <;> simp [phLa]
    · intro e' he'; simp [phErr] at he'; subst he'; exact h.perr _ rfl
  | push la e dropped sl fe top hf _ _ hp =>
    cases hp with
    | panic tag =>
      exact h.frame ⟨rfl, rfl, rfl⟩ (by simp [phDone]) (by simp [preEof]) (by simp [atEof]) (by simp [phLa])
        (by simp [phErr]) (by intro r hr; cases hr; trivial)
    | ok l r hl hr rs rest hrs a ha es hes =>
      refine h.frame (by simp [recCfg]) (by simp [phDone]) ?_ ?_ ?_ ?_ ?_
      · rcases la with _ | ⟨t, i⟩ <;> cases fe <;> simp [afterPh, preEof]
      · rcases la with _ | ⟨t, i⟩ <;> cases fe <;> simp [afterPh, atEof]
      · intro t'; rcases la with _ | ⟨t, i⟩ <;> cases fe <;> simp [afterPh, phLa]
      · intro e'; rcases la with _ | ⟨t, i⟩ <;> cases fe <;> simp [afterPh, phErr]
      · intro r'; rcases la with _ | ⟨t, i⟩ <;> cases fe <;> simp [afterPh] <;> (intro hh; subst hh; trivial)
  | giveUp e dropped sl fe hf =>
    refine h.frame ⟨rfl, rfl, rfl⟩ (by simp [phDone]) (by simp [preEof]) (by simp [atEof]) (by simp [phLa])
      (by simp [phErr]) ?_
    intro r hr
    injection hr with hr
    subst hr
    obtain ⟨hrec, hok⟩ := h.perr e rfl
    cases e with
    | unrecognizedToken t ex => exact ⟨hok, fun hc => by rw [hrec] at hc; cases hc⟩
    | unrecognizedEof loc ex => exact hok
    | _ => trivial
  | drop t i e dropped sl fe hf _ nt hn =>
    obtain ⟨h1, h2, h3, h4⟩ := next_io (startLoc := startLoc) hn h.inp (h.alltok rfl) (h.pre rfl) h.loc
    obtain ⟨hrec, hok⟩ := h.perr e rfl
    have hpre := h.pre rfl
    cases nt with
    | eof =>
      exact ⟨h1, fun _ => h4.2, by simp [dropK, preEof], fun _ => h4.1, by omega, by simp [dropK, phLa], h3,
        by intro e' he'; simp [dropK, phErr] at he'; subst he'; exact ⟨hrec, hok.mono (by omega) (by omega)⟩,
        by simp [dropK]⟩
    | found t i =>
      exact ⟨h1, fun _ => h4.2.1, fun _ => h4.1, by simp [dropK, atEof], by omega,
        by intro t' ht'; simp [dropK, phLa] at ht'; subst ht'; exact ⟨by omega, h4.2.2⟩, h3,
        by intro e' he'; simp [dropK, phErr] at he'; subst he'; exact ⟨hrec, hok.mono (by omega) (by omega)⟩,
        by simp [dropK]⟩
    | done r =>
      exact ⟨h1, by simp [dropK, phDone], by simp [dropK, preEof], by simp [dropK, atEof],
        by omega, by simp [dropK, phLa], h3, by simp [dropK, phErr],
        by intro r' hr'; simp [dropK] at hr'; subst hr'; exact h4⟩


theorem ioinv_run (af : Nat) (failAt : Option Nat) (input : List Item) (n : Nat) :
    IOInv T startLoc input (run T af failAt startLoc n (init startLoc input) .pull).1
      (run T af failAt startLoc n (init startLoc input) .pull).2 :=
  run_inv T af failAt startLoc (IOInv T startLoc input)
    (fun c ph h => h.step (step_spec T af failAt startLoc c ph)) (IOInv.init T startLoc input) n

theorem ioinv_of_run {af : Nat} {failAt : Option Nat} {input : List Item} {n : Nat} {c : Cfg} {ph : Phase}
    (h : run T af failAt startLoc n (init startLoc input) .pull = (c, ph)) : IOInv T startLoc input c ph := by
  have := ioinv_run (T := T) (startLoc := startLoc) af failAt input n
  rwa [h] at this

/-- a step either leaves the stream alone or is exactly one `next_token` (which leaves the stacks
    and the action counter alone) -/
theorem Step.io_cases {af : Nat} {failAt : Option Nat} {c c' : Cfg} {ph ph' : Phase}
    (hs : Step T af failAt startLoc c ph c' ph') :
    (c'.input = c.input ∧ c'.pulled = c.pulled ∧ c'.lastLoc = c.lastLoc) ∨
    (c'.acts = c.acts ∧ c'.trace = c.trace ∧ c'.states = c.states ∧ c'.symbols = c.symbols ∧
      ∃ nt, NextSpec T af c c' nt ∧
        ((ph = .pull ∧ ph' = pullK nt) ∨
         ∃ t i e d sl fe, ph = .recFind (some (t, i)) e d sl fe ∧ ph' = dropK e (d ++ [t]) sl fe nt)) := by
  cases hs with
  | done r => exact .inl ⟨rfl, rfl, rfl⟩
  | panic _ tag hd => exact .inl ⟨rfl, rfl, rfl⟩
  | pull _ nt hn =>
    refine .inr ?_
    have : c'.acts = c.acts ∧ c'.trace = c.trace ∧ c'.states = c.states ∧ c'.symbols = c.symbols := by
      cases hn <;> simp [pullCfg, pullTokCfg]
    exact ⟨this.1, this.2.1, this.2.2.1, this.2.2.2, nt, hn, .inl ⟨rfl, rfl⟩⟩
  | shift la idx top rest a target hst ha hsh => exact .inl ⟨rfl, rfl, rfl⟩
  | redCont _ p ls _ hctx hr => exact .inl hr.cont_io
  | redFin _ p ls _ r hctx hr => exact .inl hr.fin_io
  | enterNoRec _ la fe ex hctx hex hrec => exact .inl ⟨rfl, rfl, rfl⟩
  | enterRec _ la fe ex hctx hex hrec => exact .inl ⟨rfl, rfl, rfl⟩
  | toFind la e fe top rest a hst ha hnr => exact .inl ⟨rfl, rfl, rfl⟩
  | push la e dropped sl fe top hf _ _ hp => exact .inl ⟨hp.io.1, hp.io.2.1, hp.io.2.2.1⟩
  | giveUp e dropped sl fe hf => exact .inl ⟨rfl, rfl, rfl⟩
  | drop t i e dropped sl fe hf _ nt hn =>
    refine .inr ?_
    have : c'.acts = c.acts ∧ c'.trace = c.trace ∧ c'.states = c.states ∧ c'.symbols = c.symbols := by
      cases hn <;> simp [pullCfg, pullTokCfg]
    exact ⟨this.1, this.2.1, this.2.2.1, this.2.2.2, nt, hn, .inr ⟨t, i, e, dropped, sl, fe, rfl, rfl⟩⟩

end LalrpopModel.LR.Generic
