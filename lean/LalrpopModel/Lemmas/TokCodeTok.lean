import LalrpopModel.Lemmas.TokWord
/-! Step lemmas for the tokens that embed Rust code: `=> code`, `=>? code`, `use code`. -/
namespace LalrpopModel.Tok

/-- a well-formed balanced snippet followed by the terminator `t` -/
structure Snippet (cfg : Cfg) (as : List RA) (t : Char) : Prop where
  wf : WF cfg 0 as t
  bal : balAfter 0 as = 0
  term : isTerminator t = true

theorem next_arrowCode (cfg : Cfg) (g p : Nat) (as : List RA) (t : Char) (rest : List Char)
    (hs : Snippet cfg as t) (h1 : firstChar as t ≠ '@') (h2 : firstChar as t ≠ '?') :
    nextUnshifted cfg (g + 1) ⟨p, '=' :: '>' :: (renderAll as ++ t :: rest)⟩ =
      (.tok p (.eqGtCode (renderAll as)) (p + 1 + 1 + utf8Len (renderAll as)),
       ⟨p + 1 + 1 + utf8Len (renderAll as), t :: rest⟩) := by
  have hc := codeTop_scan cfg p (p + 1 + 1) as t rest hs.wf hs.bal hs.term
  obtain ⟨tl, htl⟩ := renderAll_first as t rest
  have hra : rightArrow cfg p ⟨p + 1 + 1, renderAll as ++ t :: rest⟩ =
      .ok ((p, .eqGtCode (renderAll as), p + 1 + 1 + utf8Len (renderAll as)),
           ⟨p + 1 + 1 + utf8Len (renderAll as), t :: rest⟩) := by
    have hb : between ⟨p + 1 + 1, renderAll as ++ t :: rest⟩ ⟨p + 1 + 1 + utf8Len (renderAll as), t :: rest⟩
        = renderAll as := between_append _ _ _ _
    rw [rightArrow]
    simp only [htl]
    simp only [beq_iff_eq, h1, h2, if_false]
    rw [← htl, hc]
    simp [hb]
  rw [nextUnshifted]
  simp [hra, ofRes]

theorem next_arrowQCode (cfg : Cfg) (g p : Nat) (as : List RA) (t : Char) (rest : List Char)
    (hs : Snippet cfg as t) :
    nextUnshifted cfg (g + 1) ⟨p, '=' :: '>' :: '?' :: (renderAll as ++ t :: rest)⟩ =
      (.tok p (.eqGtQuestionCode (renderAll as)) (p + 1 + 1 + 1 + utf8Len (renderAll as)),
       ⟨p + 1 + 1 + 1 + utf8Len (renderAll as), t :: rest⟩) := by
  have hc := codeTop_scan cfg p (p + 1 + 1 + 1) as t rest hs.wf hs.bal hs.term
  have hra : rightArrow cfg p ⟨p + 1 + 1, '?' :: (renderAll as ++ t :: rest)⟩ =
      .ok ((p, .eqGtQuestionCode (renderAll as), p + 1 + 1 + 1 + utf8Len (renderAll as)),
           ⟨p + 1 + 1 + 1 + utf8Len (renderAll as), t :: rest⟩) := by
    have hb : between ⟨p + 1 + 1 + 1, renderAll as ++ t :: rest⟩ ⟨p + 1 + 1 + 1 + utf8Len (renderAll as), t :: rest⟩
        = renderAll as := between_append _ _ _ _
    rw [rightArrow]
    simp [hc, hb]
  rw [nextUnshifted]
  simp [hra, ofRes]

theorem next_use (cfg : Cfg) (g p : Nat) (as : List RA) (t : Char) (rest : List Char)
    (hs : Snippet cfg as t) (h1 : isIdContinue (firstChar as t) = false) :
    nextUnshifted cfg (g + 1) ⟨p, 'u' :: 's' :: 'e' :: (renderAll as ++ t :: rest)⟩ =
      (.tok p (.use_ (renderAll as)) (p + 1 + 1 + 1 + utf8Len (renderAll as)),
       ⟨p + 1 + 1 + 1 + utf8Len (renderAll as), t :: rest⟩) := by
  have hc := codeTop_scan cfg p (p + 1 + 1 + 1) as t rest hs.wf hs.bal hs.term
  obtain ⟨tl, htl⟩ := renderAll_first as t rest
  have hw := word_scan p ['u', 's', 'e'] (renderAll as ++ t :: rest)
    (by intro x hx; simp at hx; rcases hx with rfl | rfl | rfl <;> decide)
    (by intro c hc'; rw [htl] at hc'; simp at hc'; subst hc'; exact h1)
  simp only [List.cons_append, List.nil_append] at hw
  have hb : between ⟨p + 1 + 1 + 1, renderAll as ++ t :: rest⟩ ⟨p + 1 + 1 + 1 + utf8Len (renderAll as), t :: rest⟩
      = renderAll as := between_append _ _ _ _
  have hu : isIdStart 'u' = true := by decide
  rw [nextUnshifted]
  simp [hu, identifierish, hw, ofRes, Nat.add_assoc] at hc hb ⊢
  simp [hc]

end LalrpopModel.Tok
