import LalrpopModel.Lemmas.RustLex
/-! Lemmas about the `RustWrite` model: what each emission lexes to, independent of the flags. -/
namespace LalrpopModel.Rw
open LalrpopModel.RustLex

theorem digit_wordCh : ∀ k, k < 10 → isWordCh (Char.ofNat (48 + k)) = true := by decide

theorem natDigitsAux_spec (fuel n : Nat) (acc : List Char) (hacc : ∀ x ∈ acc, isWordCh x = true) :
    ∀ x ∈ natDigitsAux fuel n acc, isWordCh x = true := by
  induction fuel generalizing n acc with
  | zero => simpa [natDigitsAux] using hacc
  | succ fuel ih =>
    have hd : isWordCh (Char.ofNat (48 + n % 10)) = true := digit_wordCh _ (Nat.mod_lt _ (by omega))
    have hacc' : ∀ x ∈ Char.ofNat (48 + n % 10) :: acc, isWordCh x = true := by
      intro x hx; rcases List.mem_cons.1 hx with rfl | hx
      · exact hd
      · exact hacc x hx
    simp only [natDigitsAux]
    split
    · exact hacc'
    · exact ih _ _ hacc'

theorem natDigitsAux_ne_nil (fuel n : Nat) (acc : List Char) : natDigitsAux (fuel + 1) n acc ≠ [] := by
  induction fuel generalizing n acc with
  | zero => simp only [natDigitsAux]; split <;> simp
  | succ fuel ih =>
    rw [natDigitsAux]
    split
    · simp
    · exact ih _ _

theorem natDigits_spec (n : Nat) : ∃ d ds, natDigits n = d :: ds ∧ ∀ x ∈ d :: ds, isWordCh x = true := by
  have h1 := natDigitsAux_ne_nil n n []
  have h2 := natDigitsAux_spec (n + 1) n [] (by simp)
  unfold natDigits
  cases h : natDigitsAux (n + 1) n [] with
  | nil => exact absurd h h1
  | cons d ds => exact ⟨d, ds, rfl, by rw [h] at h2; exact h2⟩

/-- the tokens of an `i32` -/
def numToks (i : Int) : List RTok :=
  match i with
  | .ofNat n => [.word (natDigits n)]
  | .negSucc n => [.punct '-', .word (natDigits (n + 1))]

/-- `{i},` lexes to the number and a comma -/
theorem neutral_num_comma (i : Int) : Neutral (i32Chars i ++ [',']) (numToks i ++ [.punct ',']) := by
  cases i with
  | ofNat n =>
    obtain ⟨d, ds, h, hw⟩ := natDigits_spec n
    simp only [i32Chars, numToks, h]
    exact neutral_word_comma d ds hw
  | negSucc n =>
    obtain ⟨d, ds, h, hw⟩ := natDigits_spec (n + 1)
    simp only [i32Chars, numToks, h]
    have hm : Neutral ['-'] [.punct '-'] :=
      neutral_punct '-' (by decide) (by decide) (by decide) (by decide) (by decide)
    have := hm.append (neutral_word_comma d ds hw)
    simpa using this

theorem neutral_indentation (f : Flags) (n : Nat) : Neutral (indentation f n) [] := by
  unfold indentation
  split
  · exact neutral_spaces n
  · exact Neutral.nil

/-- the flag-independent tokens of a table row -/
def rowToks : List (Int × List Char) → List RTok
  | [] => []
  | (i, _) :: es => numToks i ++ [.punct ','] ++ rowToks es

/-- the comments of a table row are line comments (` // on …`) -/
def rowCommentsOK (es : List (Int × List Char)) : Prop := ∀ e ∈ es, isCommentLine e.2

theorem neutral_rowCommented (f : Flags) (indent : Nat) (es : List (Int × List Char)) (h : rowCommentsOK es) :
    Neutral (rowCommented f indent es) (rowToks es) := by
  induction es with
  | nil => exact Neutral.nil
  | cons e es ih =>
    obtain ⟨i, c⟩ := e
    have hc : isCommentLine c := h (i, c) (by simp)
    have ih' := ih (fun e he => h e (by simp [he]))
    -- indentation, `i,`, blank, comment⏎, rest
    have h1 := neutral_indentation f indent
    have h2 := neutral_num_comma i
    have h3 := neutral_spaces 1
    have h4 := neutral_commentLine c hc
    have := (((h1.append h2).append h3).append h4).append ih'
    simpa [rowCommented, rowToks, List.replicate] using this

theorem neutral_rowCompact (f : Flags) (first : Bool) (es : List (Int × List Char)) :
    Neutral (rowCompact f first es) (rowToks es) := by
  induction es generalizing first with
  | nil => exact Neutral.nil
  | cons e es ih =>
    obtain ⟨i, c⟩ := e
    have hsp : Neutral (if !first && f.whitespace then [' '] else []) [] := by
      split
      · exact neutral_spaces 1
      · exact Neutral.nil
    have := (hsp.append (neutral_num_comma i)).append (ih false)
    simpa [rowCompact, rowToks] using this

/-- **all three layouts of `write_table_row` lex alike** -/
theorem neutral_tableRow (f : Flags) (indent : Nat) (es : List (Int × List Char)) (h : rowCommentsOK es) :
    Neutral (writeTableRow f indent es) (rowToks es) := by
  unfold writeTableRow
  split
  · have := (neutral_rowCommented f indent es h).append neutral_newline
    simpa using this
  · have := ((neutral_indentation f indent).append (neutral_rowCompact f true es)).append neutral_newline
    simpa using this

/-- a line that leaves the lexer between tokens once its newline is read (no literal or block comment
    left open) -/
def Closed (s : List Char) : Prop := runMode .normal (s ++ ['\n']) = .normal

/-- the tokens of a line -/
def lineToks (s : List Char) : List RTok := runOut .normal (s ++ ['\n'])

theorem neutral_writeFmt (f : Flags) (indent : Nat) (s : List Char) (out : List Char) (indent' : Nat)
    (hc : Closed s) (h : writeFmt f indent s = some (out, indent')) : Neutral out (lineToks s) := by
  cases s with
  | nil =>
    simp [writeFmt] at h
    obtain ⟨rfl, _⟩ := h
    exact ⟨by simpa [Closed] using hc, rfl⟩
  | cons c cs =>
    simp only [writeFmt] at h
    split at h
    · simp at h
    · rename_i indent1 _
      simp at h
      obtain ⟨rfl, _⟩ := h
      have hl : Neutral ((c :: cs) ++ ['\n']) (lineToks (c :: cs)) := ⟨hc, rfl⟩
      have := (neutral_indentation f indent1).append hl
      simpa using this

theorem commentLine_closed (s : List Char) (h : isCommentLine s) : Closed s ∧ lineToks s = [] :=
  neutral_commentLine s h

/-! ### whole event sequences -/

def evOK : Ev → Prop
  | .line s => Closed s
  | .cline s => isCommentLine s
  | .row es => rowCommentsOK es

/-- the flag-independent token stream of an event sequence -/
def specToks : List Ev → List RTok
  | [] => []
  | .line s :: evs => lineToks s ++ specToks evs
  | .cline _ :: evs => specToks evs
  | .row es :: evs => rowToks es ++ specToks evs

theorem neutral_render (f : Flags) : ∀ (evs : List Ev) (indent : Nat) (out : List Char),
    (∀ e ∈ evs, evOK e) → render f indent evs = some out → Neutral out (specToks evs) := by
  intro evs
  induction evs with
  | nil => intro indent out _ h; simp [render] at h; subst h; exact Neutral.nil
  | cons ev evs ih =>
    intro indent out hok h
    have hev : evOK ev := hok ev (by simp)
    have hrest : ∀ e ∈ evs, evOK e := fun e he => hok e (by simp [he])
    simp only [render] at h
    split at h
    · simp at h
    · rename_i o1 indent1 hre
      split at h
      · simp at h
      · rename_i more hmore
        simp at h
        subst h
        have ihm := ih indent1 more hrest hmore
        cases ev with
        | line s =>
          have := (neutral_writeFmt f indent s o1 indent1 hev hre).append ihm
          simpa [specToks] using this
        | cline s =>
          simp only [renderEv] at hre
          split at hre
          · have h1 := neutral_writeFmt f indent s o1 indent1 (commentLine_closed s hev).1 hre
            rw [(commentLine_closed s hev).2] at h1
            have := h1.append ihm
            simpa [specToks] using this
          · simp at hre
            obtain ⟨rfl, _⟩ := hre
            simpa [specToks] using ihm
        | row es =>
          simp only [renderEv] at hre
          simp at hre
          obtain ⟨rfl, _⟩ := hre
          have := (neutral_tableRow f indent es hev).append ihm
          simpa [specToks] using this

end LalrpopModel.Rw
