import LalrpopModel.Lemmas.LRPrefixDet
import LalrpopModel.Lemmas.LRCompleteUnamb
import LalrpopModel.Lemmas.LRCompleteFuel
import LalrpopModel.Lemmas.LRGenericExtra
import LalrpopModel.Lemmas.LRGenericErr
/-!
Valid-prefix properties (C04/C05), part 2: the negative halves, from completeness + determinism.

* `IsSentencePrefix G S u`: the terminal string `u` can be extended to a sentence of `S`.
* `err_not_prefix`: when the driver (validated tables, completeness side; no recovery) reports
  `UnrecognizedToken`, the tokens pulled so far — the reported one included — are not a prefix of
  any sentence: otherwise completeness gives an accepting run on an extension, which by
  `prefix_determinism` would go through the same failing step.
* `err_not_sentence`: any error outcome means the input is not a sentence.
* `no_extra`: with V6 (`checkStartEof`) the driver never answers `ExtraToken`.
-/
namespace LalrpopModel.LR
open LalrpopModel.LR.Generic LalrpopModel.LR.Prefix

/-- `u` is a prefix of some sentence of `S` -/
def IsSentencePrefix (G : Grammar) (S : NT) (u : List Term) : Prop := ∃ z, Derives G S (u ++ z)

/-- the kinds of `toks` are terminals and form a prefix of some sentence of `S`
    (a token without kind — no pattern matches — is never part of a sentence) -/
def KindsPrefix (G : Grammar) (S : NT) (toks : List Tok) : Prop :=
  ∃ u, toks.map (·.kind) = u.map some ∧ IsSentencePrefix G S u

/-- the kinds of `toks` are terminals and form a sentence of `S` -/
def KindsSentence (G : Grammar) (S : NT) (toks : List Tok) : Prop :=
  ∃ w, toks.map (·.kind) = w.map some ∧ Derives G S w

theorem IsSentencePrefix.of_append {G : Grammar} {S : NT} {u v : List Term}
    (h : IsSentencePrefix G S (u ++ v)) : IsSentencePrefix G S u := by
  obtain ⟨z, hz⟩ := h
  exact ⟨v ++ z, by simpa [List.append_assoc] using hz⟩

theorem IsSentencePrefix.of_sentence {G : Grammar} {S : NT} {w : List Term} (h : Derives G S w) :
    IsSentencePrefix G S w := ⟨[], by simpa using h⟩

/-- sentence prefixes are closed under taking prefixes -/
theorem KindsPrefix.take {G : Grammar} {S : NT} {toks : List Tok} (h : KindsPrefix G S toks) (j : Nat) :
    KindsPrefix G S (toks.take j) := by
  obtain ⟨u, hu, hp⟩ := h
  refine ⟨u.take j, by rw [List.map_take, hu, List.map_take], ?_⟩
  rw [← List.take_append_drop j u] at hp
  exact hp.of_append

theorem KindsPrefix.of_take_le {G : Grammar} {S : NT} {toks : List Tok} {i j : Nat} (hij : i ≤ j)
    (h : KindsPrefix G S (toks.take j)) : KindsPrefix G S (toks.take i) := by
  have := h.take i
  rwa [List.take_take, Nat.min_eq_left hij] at this

theorem KindsSentence.prefix {G : Grammar} {S : NT} {toks : List Tok} (h : KindsSentence G S toks) :
    KindsPrefix G S toks := by
  obtain ⟨w, hw, hd⟩ := h
  exact ⟨w, hw, .of_sentence hd⟩

/-- a token of kind `a` (spans and identity are irrelevant for acceptance) -/
def mkTok (a : Term) : Tok := { l := 0, kind := some a, id := 0, r := 0 }

theorem map_kind_mkTok (z : List Term) : (z.map mkTok).map (·.kind) = z.map some := by
  induction z with
  | nil => rfl
  | cons a z ih => simp [mkTok, ih]

section
variable {G : Grammar} {T : Tables} {ann : Ann}

/-- any error outcome on a token list means its kinds are not a sentence (completeness +
    determinism of the machine) -/
theorem err_not_sentence (V : Valid G T ann) {S : NT} (hS : G.startSym = some S) (toks : List Tok)
    (failAt : Option Nat) (hf : NoFail T failAt) (startLoc : Int) {c : Cfg} {e : PErr}
    (h : Returns T failAt startLoc (toks.map Item.tok) c (.err e)) : ¬ KindsSentence G S toks := by
  rintro ⟨w, hw, hd⟩
  obtain ⟨n₁, af, h₁⟩ := h
  obtain ⟨n₂, c₂, v, h₂, _⟩ := derives_ok_run V af failAt hf startLoc S hS w hd toks hw
  have := (run_unique T af failAt startLoc h₁ h₂).2
  cases this

/-- the tokens pulled up to and including the one reported by `UnrecognizedToken` are not a
    prefix of any sentence -/
theorem err_not_prefix (V : Valid G T ann) (hrec : T.usesRecovery = false) {S : NT} (hS : G.startSym = some S)
    (toks : List Tok) (failAt : Option Nat) (hf : NoFail T failAt) (startLoc : Int) {c : Cfg} {tok : Tok}
    {ex : List Term}
    (h : Returns T failAt startLoc (toks.map Item.tok) c (.err (.unrecognizedToken tok ex))) :
    ¬ KindsPrefix G S (toks.take c.pulled) := by
  rintro ⟨u, hu, z, hd⟩
  obtain ⟨n₁, af, h₁⟩ := h
  -- the offending token is the last one pulled: `c.pulled ≤ toks.length`
  have hio := ioinv_of_run (T := T) (startLoc := startLoc) h₁
  have hle : c.pulled ≤ toks.length := by
    obtain ⟨_, h2⟩ := hio.fin _ rfl
    obtain ⟨h3, h4⟩ := h2 hrec
    have := (List.getElem?_eq_some_iff.mp h4).1
    simp at this
    omega
  -- an accepted extension of the pulled tokens
  let toks₂ := toks.take c.pulled ++ z.map mkTok
  have hk : toks₂.map (·.kind) = (u ++ z).map some := by
    simp only [toks₂, List.map_append, hu, map_kind_mkTok]
  obtain ⟨n₂, c₂, v, h₂, _⟩ := derives_ok_run V af failAt hf startLoc S hS (u ++ z) hd toks₂ hk
  -- both inputs share their first `c.pulled` items
  have hshare : (toks.map Item.tok).take c.pulled = (toks₂.map Item.tok).take c.pulled := by
    simp only [toks₂, List.map_append, ← List.map_take]
    rw [List.take_append_of_le_length (by simp; omega)]
    exact (List.take_of_length_le (by simp; omega)).symm
  have h₃ := prefix_determinism T af failAt startLoc hrec _ _ c.pulled hshare n₁ c _ h₁ (Nat.le_refl _)
  have := (run_unique T af failAt startLoc h₃ h₂).2
  cases this

end

/-! ### V6: no `ExtraToken` -/

theorem mem_action_of_actionAt {T : Tables} {s i : Nat} {a : Int} (h : T.actionAt s i = some a) :
    a ∈ T.action := List.mem_of_getElem? h

/-- what `checkStartEof` says -/
theorem checkStartEof_spec {G : Grammar} {T : Tables} (h : checkStartEof G T = true) :
    ∀ a ∈ T.action, a ≠ -((G.startProd : Int) + 1) := by
  intro a ha
  simp only [checkStartEof, List.all_eq_true] at h
  simpa using h a ha

/-- with V6 and the shape facts (`isStart` marks the start production only) the driver never
    returns `ExtraToken` -/
theorem no_extra {G : Grammar} {T : Tables}
    (hstart : ∀ p, T.isStart[p]? = some true → p = G.startProd)
    (h6 : checkStartEof G T = true) {failAt : Option Nat} {startLoc : Int} {input : List Item}
    {c : Cfg} {r : Outcome} (h : Returns T failAt startLoc input c r) (la : Tok) :
    r ≠ .err (.extraToken la) := by
  rintro rfl
  obtain ⟨n, af, h⟩ := h
  obtain ⟨k, c1, ph1, hk, hrun, hnd, hstep⟩ := last_step T af failAt startLoc h rfl
  have hio := ioinv_of_run (T := T) (startLoc := startLoc) hrun
  have hs := step_spec_of hstep
  obtain ⟨idx, top, rest, a, p, rfl, h1, h2, h3, h4, h5, h6', h7⟩ := hs.extra_cases hio hnd
  have hp := hstart p h5
  subst hp
  have ha := checkStartEof_spec h6 a (mem_action_of_actionAt h2)
  simp only [asReduce] at h4
  split at h4
  · simp only [Option.some.injEq] at h4
    omega
  · cases h4

end LalrpopModel.LR
