import LalrpopModel.Lemmas.OverlapBasic
namespace LalrpopModel.Dfa

/-- ranges at different positions are disjoint -/
def PD (v : List Range) : Prop :=
  ∀ (i j : Nat) (a b : Range), i < j → v[i]? = some a → v[j]? = some b → Disj a b
/-- `c` is covered by some range of `v` -/
def Cov (v : List Range) (c : Nat) : Prop := ∃ r, r ∈ v ∧ mem c r
/-- every range of `v` lies inside `X` or is disjoint from it -/
def Fine (v : List Range) (X : Range) : Prop := ∀ t, t ∈ v → Sub t X ∨ Disj t X
/-- the new range avoids everything before `start` -/
def Pre (range : Range) (start : Nat) (v : List Range) : Prop :=
  ∀ (i : Nat) (a : Range), i < start → v[i]? = some a → Disj range a

structure Post (range : Range) (start : Nat) (v v' : List Range) : Prop where
  pd : PD v'
  cov : ∀ c, Cov v' c ↔ (Cov v c ∨ mem c range)
  orig : ∀ t', t' ∈ v' → (∃ t, t ∈ v ∧ Sub t' t) ∨ (Sub t' range ∧ ∀ t, t ∈ v → Disj t' t)
  fine : Fine v' range
  pre : ∀ (i : Nat), i < start → v'[i]? = v[i]?
  len : v.length ≤ v'.length

theorem PD.disj_of_ne {v : List Range} (h : PD v) {i j : Nat} {a b : Range} (hij : i ≠ j)
    (ha : v[i]? = some a) (hb : v[j]? = some b) : Disj a b := by
  by_cases hlt : i < j
  · exact h i j a b hlt ha hb
  · exact (h j i b a (by omega) hb ha).symm

theorem post_empty (range : Range) (start : Nat) (v : List Range) (hpd : PD v)
    (he : isEmpty range = true) : Post range start v v := by
  refine ⟨hpd, fun c => ⟨Or.inl, ?_⟩, fun t' ht' => .inl ⟨t', ht', Sub.refl _⟩,
    fun t _ => .inr (isEmpty_disj he t).symm, fun _ _ => rfl, Nat.le_refl _⟩
  rintro (h | h)
  · exact h
  · simp only [isEmpty, decide_eq_true_eq] at he
    have := h.1; have := h.2; omega

theorem post_push (range : Range) (start : Nat) (v : List Range) (hpd : PD v) (hs : start ≤ v.length)
    (hall : ∀ (j : Nat) (a : Range), v[j]? = some a → Disj range a) : Post range start v (v ++ [range]) := by
  refine ⟨?_, ?_, ?_, ?_, ?_, by simp⟩
  · intro i j a b hij ha hb
    rw [List.getElem?_append] at ha hb
    split at hb
    · rw [if_pos (by omega)] at ha
      exact hpd i j a b hij ha hb
    · split at ha
      · have : j - v.length = 0 := by
          have : j - v.length < 1 := by
            have := (List.getElem?_eq_some_iff.mp hb).1
            simpa using this
          omega
        rw [this] at hb
        simp only [List.getElem?_cons_zero, Option.some.injEq] at hb
        subst hb
        exact (hall i a ha).symm
      · have h1 := (List.getElem?_eq_some_iff.mp ha).1
        have h2 := (List.getElem?_eq_some_iff.mp hb).1
        simp only [List.length_singleton] at h1 h2
        omega
  · intro c
    simp only [Cov, List.mem_append, List.mem_singleton]
    constructor
    · rintro ⟨r, hr | rfl, hm⟩
      · exact .inl ⟨r, hr, hm⟩
      · exact .inr hm
    · rintro (⟨r, hr, hm⟩ | hm)
      · exact ⟨r, .inl hr, hm⟩
      · exact ⟨range, .inr rfl, hm⟩
  · intro t' ht'
    rcases List.mem_append.mp ht' with h | h
    · exact .inl ⟨t', h, Sub.refl _⟩
    · simp only [List.mem_singleton] at h
      subst h
      refine .inr ⟨Sub.refl _, fun t ht => ?_⟩
      obtain ⟨j, hj⟩ := List.mem_iff_getElem?.mp ht
      exact hall j t hj
  · intro t ht
    rcases List.mem_append.mp ht with h | h
    · obtain ⟨j, hj⟩ := List.mem_iff_getElem?.mp h
      exact .inr (hall j t hj).symm
    · simp only [List.mem_singleton] at h
      subst h
      exact .inl (Sub.refl _)
  · intro i hi
    rw [List.getElem?_append, if_pos (by omega)]

theorem fine_of_pieces {range o : Range} (hi : ∃ c, mem c range ∧ mem c o) {t' : Range}
    (hlow : Sub t' (pieces range o).1 ∨ Disj t' (pieces range o).1)
    (hmid : Sub t' (pieces range o).2.1 ∨ Disj t' (pieces range o).2.1)
    (hmx : Sub t' (pieces range o).2.2 ∨ Disj t' (pieces range o).2.2) :
    Sub t' range ∨ Disj t' range := by
  obtain ⟨hcov, hmidr, _, hlowc, hmxc, _, _, _⟩ := pieces_facts range o hi
  rcases hmid with hmid | hmid
  · exact .inl (hmid.trans hmidr)
  rcases hlow with hlow | hlow
  · rcases hlowc with ⟨h, _⟩ | ⟨_, h⟩
    · exact .inl (hlow.trans h)
    · exact .inr (h.of_sub hlow)
  rcases hmx with hmx | hmx
  · rcases hmxc with ⟨h, _⟩ | ⟨_, h⟩
    · exact .inl (hmx.trans h)
    · exact .inr (h.of_sub hmx)
  right
  intro c hc
  rcases (hcov c).mpr (.inl hc.2) with h | h | h
  · exact hlow c ⟨hc.1, h⟩
  · exact hmid c ⟨hc.1, h⟩
  · exact hmx c ⟨hc.1, h⟩

theorem addRange_post : ∀ (f : Nat) (range : Range) (start : Nat) (v v' : List Range),
    addRange f range start v = .ok v' → PD v → Pre range start v → start ≤ v.length →
    Post range start v v' := by
  intro f
  induction f with
  | zero => intro range start v v' h; simp [addRange] at h
  | succ f ih =>
    intro range start v v' h hpd hpre hstart
    rw [addRange] at h
    split at h
    · rename_i hemp
      cases h
      exact post_empty range start v hpd hemp
    · split at h
      · rename_i hnone
        cases h
        apply post_push range start v hpd hstart
        intro j a ha
        by_cases hj : j < start
        · exact hpre j a hj ha
        · have := findFrom_none hnone j a (by omega) ha
          exact ((not_intersects_iff _ _).mp this).symm
      · rename_i idx hsome
        obtain ⟨hsi, hidx, ⟨o, ho, hio⟩, hbefore⟩ := findFrom_some hsome
        simp only [ho, Option.getD_some] at h
        split at h
        · -- the range is already there
          rename_i heq
          cases h
          subst heq
          refine ⟨hpd, fun c => ⟨Or.inl, ?_⟩, fun t' ht' => .inl ⟨t', ht', Sub.refl _⟩, ?_, fun _ _ => rfl,
            Nat.le_refl _⟩
          · rintro (h | h)
            · exact h
            · exact ⟨o, List.mem_iff_getElem?.mpr ⟨idx, ho⟩, h⟩
          · intro t ht
            obtain ⟨j, hj⟩ := List.mem_iff_getElem?.mp ht
            by_cases hji : j = idx
            · subst hji; rw [ho] at hj; cases hj; exact .inl (Sub.refl _)
            · exact .inr (hpd.disj_of_ne hji hj ho)
        · rename_i hne
          have hi : ∃ c, mem c range ∧ mem c o := by
            obtain ⟨c, h1, h2⟩ := (intersects_iff _ _).mp hio
            exact ⟨c, h2, h1⟩
          obtain ⟨hcov, hmidr, hmido, hlowc, hmxc, hlm, hlx, hmx'⟩ := pieces_facts range o hi
          generalize hp : pieces range o = p at h hcov hmidr hmido hlowc hmxc hlm hlx hmx'
          obtain ⟨low, mid, mx⟩ := p
          simp only at h hcov hmidr hmido hlowc hmxc hlm hlx hmx'
          split at h
          · cases h
          · simp only [bind, Except.bind] at h
            cases h1 : addRange f low (idx + 1) (v.set idx mid) with
            | error e => rw [h1] at h; cases h
            | ok v2 =>
              rw [h1] at h
              simp only at h
              -- facts about v1 = v.set idx mid
              have hv1_at : (v.set idx mid)[idx]? = some mid := List.getElem?_set_self hidx
              have hv1_ne : ∀ j, j ≠ idx → (v.set idx mid)[j]? = v[j]? :=
                fun j hj => List.getElem?_set_ne (by omega)
              have hpd1 : PD (v.set idx mid) := by
                intro i j a b hij ha hb
                by_cases hi' : i = idx
                · subst hi'
                  rw [hv1_at] at ha; cases ha
                  rw [hv1_ne j (by omega)] at hb
                  exact (hpd i j o b hij ho hb).of_sub hmido
                · rw [hv1_ne i hi'] at ha
                  by_cases hj' : j = idx
                  · subst hj'
                    rw [hv1_at] at hb; cases hb
                    exact ((hpd i j a o hij ha ho).symm.of_sub hmido).symm
                  · rw [hv1_ne j hj'] at hb
                    exact hpd i j a b hij ha hb
              -- a piece lying inside `range` or inside `o` avoids everything before `idx`
              have hbefore' : ∀ (P : Range), ((Sub P range ∧ Disj P o) ∨ (Sub P o ∧ Disj P range)) →
                  ∀ (i : Nat) (a : Range), i < idx → v[i]? = some a → Disj P a := by
                intro P hP i a hi' ha
                rcases hP with ⟨hs, _⟩ | ⟨hs, _⟩
                · by_cases his : i < start
                  · exact (hpre i a his ha).of_sub hs
                  · have := hbefore i a (by omega) hi' ha
                    exact (((not_intersects_iff _ _).mp this).symm).of_sub hs
                · exact ((hpd i idx a o hi' ha ho).symm).of_sub hs
              have hpre1 : Pre low (idx + 1) (v.set idx mid) := by
                intro i a hi' ha
                by_cases hii : i = idx
                · subst hii; rw [hv1_at] at ha; cases ha; exact hlm
                · rw [hv1_ne i hii] at ha
                  exact hbefore' low hlowc i a (by omega) ha
              have P1 := ih low (idx + 1) (v.set idx mid) v2 h1 hpd1 hpre1 (by simp; omega)
              have hpre2 : Pre mx (idx + 1) v2 := by
                intro i a hi' ha
                rw [P1.pre i hi'] at ha
                by_cases hii : i = idx
                · subst hii; rw [hv1_at] at ha; cases ha; exact hmx'.symm
                · rw [hv1_ne i hii] at ha
                  exact hbefore' mx hmxc i a (by omega) ha
              have P2 := ih mx (idx + 1) v2 v' h P1.pd hpre2 (by have := P1.len; simp at this; omega)
              -- membership bridges
              have mem_v1 : ∀ t1, t1 ∈ v.set idx mid → t1 = mid ∨ ∃ j, j ≠ idx ∧ v[j]? = some t1 := by
                intro t1 ht1
                obtain ⟨j, hj⟩ := List.mem_iff_getElem?.mp ht1
                by_cases hji : j = idx
                · subst hji; rw [hv1_at] at hj; cases hj; exact .inl rfl
                · rw [hv1_ne j hji] at hj; exact .inr ⟨j, hji, hj⟩
              have mid_mem : mid ∈ v.set idx mid := List.mem_iff_getElem?.mpr ⟨idx, hv1_at⟩
              have other_mem : ∀ j t, j ≠ idx → v[j]? = some t → t ∈ v.set idx mid := by
                intro j t hj ht
                exact List.mem_iff_getElem?.mpr ⟨j, by rw [hv1_ne j hj]; exact ht⟩
              have o_mem : o ∈ v := List.mem_iff_getElem?.mpr ⟨idx, ho⟩
              -- classification of the final pieces
              have classify : ∀ t', t' ∈ v' →
                  (∃ t2, t2 ∈ v2 ∧ Sub t' t2 ∧
                    ((∃ t1, t1 ∈ v.set idx mid ∧ Sub t2 t1) ∨
                     (Sub t2 low ∧ ∀ t1, t1 ∈ v.set idx mid → Disj t2 t1))) ∨
                  (Sub t' mx ∧ ∀ t2, t2 ∈ v2 → Disj t' t2) := by
                intro t' ht'
                rcases P2.orig t' ht' with ⟨t2, ht2, hs⟩ | hB
                · exact .inl ⟨t2, ht2, hs, P1.orig t2 ht2⟩
                · exact .inr hB
              have cov1 : ∀ c, Cov (v.set idx mid) c ↔ (mem c mid ∨ ∃ j t, j ≠ idx ∧ v[j]? = some t ∧ mem c t) := by
                intro c
                constructor
                · rintro ⟨t1, ht1, hm⟩
                  rcases mem_v1 t1 ht1 with rfl | ⟨j, hj, hv⟩
                  · exact .inl hm
                  · exact .inr ⟨j, t1, hj, hv, hm⟩
                · rintro (hm | ⟨j, t, hj, hv, hm⟩)
                  · exact ⟨mid, mid_mem, hm⟩
                  · exact ⟨t, other_mem j t hj hv, hm⟩
              have cov0 : ∀ c, Cov v c ↔ (mem c o ∨ ∃ j t, j ≠ idx ∧ v[j]? = some t ∧ mem c t) := by
                intro c
                constructor
                · rintro ⟨t, ht, hm⟩
                  obtain ⟨j, hj⟩ := List.mem_iff_getElem?.mp ht
                  by_cases hji : j = idx
                  · subst hji; rw [ho] at hj; cases hj; exact .inl hm
                  · exact .inr ⟨j, t, hji, hj, hm⟩
                · rintro (hm | ⟨j, t, hj, hv, hm⟩)
                  · exact ⟨o, o_mem, hm⟩
                  · exact ⟨t, List.mem_iff_getElem?.mpr ⟨j, hv⟩, hm⟩
              refine ⟨P2.pd, ?_, ?_, ?_, ?_, ?_⟩
              · -- coverage
                intro c
                rw [P2.cov c, P1.cov c, cov1 c, cov0 c]
                have := hcov c
                constructor
                · rintro ((( h | h) | h) | h)
                  · rcases this.mp (.inr (.inl h)) with h' | h'
                    · exact .inr h'
                    · exact .inl (.inl h')
                  · exact .inl (.inr h)
                  · rcases this.mp (.inl h) with h' | h'
                    · exact .inr h'
                    · exact .inl (.inl h')
                  · rcases this.mp (.inr (.inr h)) with h' | h'
                    · exact .inr h'
                    · exact .inl (.inl h')
                · rintro ((h | h) | h)
                  · rcases this.mpr (.inr h) with h' | h' | h'
                    · exact .inl (.inr h')
                    · exact .inl (.inl (.inl h'))
                    · exact .inr h'
                  · exact .inl (.inl (.inr h))
                  · rcases this.mpr (.inl h) with h' | h' | h'
                    · exact .inl (.inr h')
                    · exact .inl (.inl (.inl h'))
                    · exact .inr h'
              · -- origin of every final piece
                intro t' ht'
                rcases classify t' ht' with ⟨t2, ht2, hs, ⟨t1, ht1, hs1⟩ | ⟨hs1, hd1⟩⟩ | ⟨hs, hd⟩
                · rcases mem_v1 t1 ht1 with rfl | ⟨j, _, hv⟩
                  · exact .inl ⟨o, o_mem, (hs.trans hs1).trans hmido⟩
                  · exact .inl ⟨t1, List.mem_iff_getElem?.mpr ⟨j, hv⟩, hs.trans hs1⟩
                · rcases hlowc with ⟨hlr, hlo⟩ | ⟨hlo, _⟩
                  · right
                    refine ⟨(hs.trans hs1).trans hlr, fun t ht => ?_⟩
                    obtain ⟨j, hj⟩ := List.mem_iff_getElem?.mp ht
                    by_cases hji : j = idx
                    · subst hji; rw [ho] at hj; cases hj
                      exact hlo.of_sub (hs.trans hs1)
                    · exact (hd1 t (other_mem j t hji hj)).of_sub hs
                  · exact .inl ⟨o, o_mem, (hs.trans hs1).trans hlo⟩
                · rcases hmxc with ⟨hxr, hxo⟩ | ⟨hxo, _⟩
                  · right
                    refine ⟨hs.trans hxr, fun t ht => ?_⟩
                    obtain ⟨j, hj⟩ := List.mem_iff_getElem?.mp ht
                    by_cases hji : j = idx
                    · subst hji; rw [ho] at hj; cases hj
                      exact hxo.of_sub hs
                    · intro c hc
                      have hc1 : Cov (v.set idx mid) c := ⟨t, other_mem j t hji hj, hc.2⟩
                      obtain ⟨t2, ht2, hm2⟩ := (P1.cov c).mpr (.inl hc1)
                      exact hd t2 ht2 c ⟨hc.1, hm2⟩
                  · exact .inl ⟨o, o_mem, hs.trans hxo⟩
              · -- every final piece is inside the new range or disjoint from it
                intro t' ht'
                have hp' : pieces range o = (low, mid, mx) := hp
                apply fine_of_pieces hi
                · -- low
                  rw [hp']
                  rcases classify t' ht' with ⟨t2, ht2, hs, _⟩ | ⟨hs, _⟩
                  · rcases P1.fine t2 ht2 with h | h
                    · exact .inl (hs.trans h)
                    · exact .inr (h.of_sub hs)
                  · exact .inr (hlx.symm.of_sub hs)
                · -- mid
                  rw [hp']
                  rcases classify t' ht' with ⟨t2, ht2, hs, ⟨t1, ht1, hs1⟩ | ⟨_, hd1⟩⟩ | ⟨hs, _⟩
                  · obtain ⟨j, hj⟩ := List.mem_iff_getElem?.mp ht1
                    by_cases hji : j = idx
                    · subst hji; rw [hv1_at] at hj; cases hj
                      exact .inl (hs.trans hs1)
                    · exact .inr ((hpd1.disj_of_ne hji hj hv1_at).of_sub (hs.trans hs1))
                  · exact .inr ((hd1 mid mid_mem).of_sub hs)
                  · exact .inr (hmx'.symm.of_sub hs)
                · -- max
                  rw [hp']
                  exact P2.fine t' ht'
              · intro i hi'
                rw [P2.pre i (by omega), P1.pre i (by omega), hv1_ne i (by omega)]
              · have := P1.len; have := P2.len
                simp only [List.length_set] at *
                omega

end LalrpopModel.Dfa
