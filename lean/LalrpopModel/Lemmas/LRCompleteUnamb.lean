import LalrpopModel.Lemmas.LRComplete
/-!
LR completeness, part 5: consequences. Relabelling the leaves of a derivation tree with other
tokens of the same kinds (`Tree.relabel`) turns "same kinds" into "same input", so completeness
plus determinism of the machine (`run_unique`) gives unambiguity of validated grammars, and
`Derives` gives acceptance of every token list with the derived kinds.
-/
namespace LalrpopModel.LR

/-! ### Relabelling the leaves of a tree with other tokens of the same kinds -/

mutual
/-- replace the leaf tokens of a tree, left to right, by the tokens `w` -/
def Tree.relabel : Tree → List Tok → Tree
  | .leaf a, w => .leaf (w.headD a)
  | .node p l r ks, w => .node p l r (ks.relabel w)
  | .err e d, _ => .err e d
def Forest.relabel : Forest → List Tok → Forest
  | .nil, _ => .nil
  | .cons t ts, w => .cons (t.relabel (w.take t.yield.length)) (ts.relabel (w.drop t.yield.length))
end

theorem kinds_split {w u v : List Tok} (h : w.map (·.kind) = (u ++ v).map (·.kind)) :
    (w.take u.length).map (·.kind) = u.map (·.kind) ∧ (w.drop u.length).map (·.kind) = v.map (·.kind) := by
  rw [List.map_append] at h
  constructor
  · rw [List.map_take, h, List.take_left' (by simp)]
  · rw [List.map_drop, h, List.drop_left' (by simp)]

mutual
theorem Tree.relabel_spec {G : Grammar} :
    (t : Tree) → (w : List Tok) → w.map (·.kind) = t.yield.map (·.kind) →
      (t.relabel w).yield = w ∧ (t.relabel w).skeleton = t.skeleton ∧
      (t.relabel w).root G none = t.root G none ∧ (Tree.WF G none t → Tree.WF G none (t.relabel w))
  | .leaf a, w, h => by
    cases w with
    | nil => simp [Tree.yield] at h
    | cons b w =>
      cases w with
      | cons _ _ => simp [Tree.yield] at h
      | nil =>
        simp [Tree.yield] at h
        refine ⟨by simp [Tree.relabel, Tree.yield], by simp [Tree.relabel, Tree.skeleton, Tok.erase, h],
          by simp [Tree.relabel, Tree.root, h], ?_⟩
        intro hwf
        cases hwf with
        | leaf _ k hk => exact Tree.WF.leaf b k (by rw [h]; exact hk)
  | .node p l r ks, w, h => by
    obtain ⟨h1, h2, h3⟩ := Forest.relabel_spec (G := G) ks w (by simpa [Tree.yield] using h)
    refine ⟨by simpa [Tree.relabel, Tree.yield] using h1, by simp [Tree.relabel, Tree.skeleton, h2],
      by simp [Tree.relabel, Tree.root], ?_⟩
    intro hwf
    cases hwf with
    | node _ _ _ pr _ hp hks => exact Tree.WF.node p l r pr _ hp (h3 _ hks)
  | .err e d, w, h => by
    have : w = [] := by simpa [Tree.yield] using h
    subst this
    refine ⟨by simp [Tree.relabel, Tree.yield], by simp [Tree.relabel], by simp [Tree.relabel], ?_⟩
    intro hwf
    cases hwf with
    | err _ _ k hk => cases hk
theorem Forest.relabel_spec {G : Grammar} :
    (fs : Forest) → (w : List Tok) → w.map (·.kind) = fs.yield.map (·.kind) →
      (fs.relabel w).yield = w ∧ (fs.relabel w).skeleton = fs.skeleton ∧
      (∀ β, Forest.WF G none fs β → Forest.WF G none (fs.relabel w) β)
  | .nil, w, h => by
    have : w = [] := by simpa [Forest.yield] using h
    subst this
    refine ⟨by simp [Forest.relabel, Forest.yield], by simp [Forest.relabel], ?_⟩
    intro β hwf
    simpa [Forest.relabel] using hwf
  | .cons t ts, w, h => by
    obtain ⟨hk1, hk2⟩ := kinds_split (by simpa [Forest.yield] using h)
    obtain ⟨a1, a2, a3, a4⟩ := Tree.relabel_spec (G := G) t _ hk1
    obtain ⟨b1, b2, b3⟩ := Forest.relabel_spec (G := G) ts _ hk2
    refine ⟨by simp [Forest.relabel, Forest.yield, a1, b1], by simp [Forest.relabel, Forest.skeleton, a2, b2], ?_⟩
    intro β hwf
    cases hwf with
    | cons _ _ X Xs hwt hroot hwts =>
      exact Forest.WF.cons _ _ X Xs (a4 hwt) (by rw [a3]; exact hroot) (b3 _ hwts)
end


/-! ### `shape` keeps yield, root and well-formedness -/

mutual
theorem Tree.yield_shape : (t : Tree) → t.shape.yield = t.yield
  | .leaf _ => rfl
  | .node _ _ _ ks => by simp [Tree.shape, Tree.yield, Forest.yield_shape ks]
  | .err _ _ => rfl
theorem Forest.yield_shape : (f : Forest) → f.shape.yield = f.yield
  | .nil => rfl
  | .cons t ts => by simp [Forest.shape, Forest.yield, Tree.yield_shape t, Forest.yield_shape ts]
end

theorem Tree.root_shape (G : Grammar) (e : Option Term) (t : Tree) : t.shape.root G e = t.root G e := by
  cases t <;> rfl

mutual
theorem Tree.wf_shape_iff {G : Grammar} {e : Option Term} :
    (t : Tree) → (Tree.WF G e t.shape ↔ Tree.WF G e t)
  | .leaf _ => Iff.rfl
  | .node p l r ks => by
    constructor
    · intro h
      simp only [Tree.shape] at h
      cases h with
      | node _ _ _ pr _ hp hks => exact Tree.WF.node p l r pr ks hp ((Forest.wf_shape_iff ks _).mp hks)
    · intro h
      cases h with
      | node _ _ _ pr _ hp hks => exact Tree.WF.node p 0 0 pr _ hp ((Forest.wf_shape_iff ks _).mpr hks)
  | .err _ _ => Iff.rfl
theorem Forest.wf_shape_iff {G : Grammar} {e : Option Term} :
    (f : Forest) → (β : List Sym) → (Forest.WF G e f.shape β ↔ Forest.WF G e f β)
  | .nil, _ => Iff.rfl
  | .cons t ts, β => by
    constructor
    · intro h
      simp only [Forest.shape] at h
      cases h with
      | cons _ _ X Xs h1 h2 h3 =>
        exact Forest.WF.cons t ts X Xs ((Tree.wf_shape_iff t).mp h1) (by rw [← Tree.root_shape]; exact h2)
          ((Forest.wf_shape_iff ts _).mp h3)
    · intro h
      cases h with
      | cons _ _ X Xs h1 h2 h3 =>
        exact Forest.WF.cons _ _ X Xs ((Tree.wf_shape_iff t).mpr h1) (by rw [Tree.root_shape]; exact h2)
          ((Forest.wf_shape_iff ts _).mpr h3)
end

theorem Tree.yield_of_shape_eq {t u : Tree} (h : t.shape = u.shape) : t.yield = u.yield := by
  rw [← Tree.yield_shape t, ← Tree.yield_shape u, h]

theorem Tree.root_of_shape_eq {G : Grammar} {e : Option Term} {t u : Tree} (h : t.shape = u.shape) :
    t.root G e = u.root G e := by
  rw [← Tree.root_shape G e t, ← Tree.root_shape G e u, h]

theorem Tree.wf_of_shape_eq {G : Grammar} {e : Option Term} {t u : Tree} (h : t.shape = u.shape)
    (hu : Tree.WF G e u) : Tree.WF G e t :=
  (Tree.wf_shape_iff t).mp (h ▸ (Tree.wf_shape_iff u).mpr hu)

/-! ### Unambiguity and acceptance of derivable inputs -/

section
variable {G : Grammar} {T : Tables} {ann : Ann}

/-- two derivation trees of the start symbol over the same tokens have the same shape -/
theorem unambiguous_shape (V : Valid G T ann) (t₁ t₂ : Tree) (S : NT) (hS : G.startSym = some S)
    (h₁ : Tree.WF G none t₁) (r₁ : t₁.root G none = some (Sym.n S))
    (h₂ : Tree.WF G none t₂) (r₂ : t₂.root G none = some (Sym.n S))
    (hy : t₁.yield = t₂.yield) : t₁.shape = t₂.shape := by
  obtain ⟨n1, c1, v1, hrun1, hsh1, _⟩ := drive_complete_run V 0 none (Or.inl rfl) 0 t₁ S hS h₁ r₁
  obtain ⟨n2, c2, v2, hrun2, hsh2, _⟩ := drive_complete_run V 0 none (Or.inl rfl) 0 t₂ S hS h₂ r₂
  rw [← hy] at hrun2
  obtain ⟨_, hv⟩ := run_unique T 0 none 0 hrun1 hrun2
  cases hv
  rw [← hsh1, hsh2]

/-- two derivation trees of the start symbol whose yields have the same kinds have the same
    skeleton -/
theorem unambiguous_skeleton (V : Valid G T ann) (t₁ t₂ : Tree) (S : NT) (hS : G.startSym = some S)
    (h₁ : Tree.WF G none t₁) (r₁ : t₁.root G none = some (Sym.n S))
    (h₂ : Tree.WF G none t₂) (r₂ : t₂.root G none = some (Sym.n S))
    (hy : t₁.yield.map (·.kind) = t₂.yield.map (·.kind)) : t₁.skeleton = t₂.skeleton := by
  obtain ⟨a1, a2, a3, a4⟩ := Tree.relabel_spec (G := G) t₂ t₁.yield hy
  have := unambiguous_shape V t₁ (t₂.relabel t₁.yield) S hS h₁ r₁ (a4 h₂) (by rw [a3]; exact r₂) a1.symm
  rw [Tree.skeleton_of_shape_eq this, a2]

/-- every token list whose kinds are derivable from the start symbol is accepted, with a
    well-formed value over exactly these tokens -/
theorem derives_ok_run (V : Valid G T ann) (af : Nat) (failAt : Option Nat) (hf : NoFail T failAt) (startLoc : Int) (S : NT) (hS : G.startSym = some S)
    (w : List Term) (hd : Derives G S w) (toks : List Tok) (hk : toks.map (·.kind) = w.map some) :
    ∃ n c v, run T af failAt startLoc n (init startLoc (toks.map Item.tok)) .pull = (c, .done (.ok v)) ∧
      Tree.WF G none v ∧ v.root G none = some (Sym.n S) ∧ v.yield = toks ∧
      c.pulled = toks.length + 1 := by
  obtain ⟨t, hwf, hroot, hy⟩ := hd
  obtain ⟨a1, a2, a3, a4⟩ := Tree.relabel_spec (G := G) t toks (by rw [hk, hy])
  obtain ⟨n, c, v, hrun, hsh, hpu, _⟩ :=
    drive_complete_run V af failAt hf startLoc (t.relabel toks) S hS (a4 hwf) (by rw [a3]; exact hroot)
  rw [a1] at hrun hpu
  refine ⟨n, c, v, hrun, Tree.wf_of_shape_eq hsh (a4 hwf), ?_, ?_, hpu⟩
  · rw [Tree.root_of_shape_eq hsh, a3]; exact hroot
  · rw [Tree.yield_of_shape_eq hsh, a1]

end

end LalrpopModel.LR
