import LalrpopModel.Model.Build
/-! Helper lemmas about M-BUILD (file-system frame rules, `splitLine`, crash prefixes). -/

namespace LalrpopModel.Build

/-! ### `setFs` -/

@[simp] theorem setFs_same (fs : Path → Option File) (p : Path) (v : Option File) :
    setFs fs p v p = v := by simp [setFs]

theorem setFs_other (fs : Path → Option File) {p q : Path} (v : Option File) (h : q ≠ p) :
    setFs fs p v q = fs q := by simp [setFs, h]

/-! ### `splitLine` -/

theorem splitLine_append (x r : Bytes) (h : NL ∉ x) :
    splitLine (x ++ NL :: r) = (x ++ [NL], r) := by
  induction x with
  | nil => simp [splitLine]
  | cons b x ih =>
    have hb : b ≠ NL := by intro e; apply h; simp [e]
    have hx : NL ∉ x := by intro e; apply h; simp [e]
    simp [splitLine, hb, ih hx]

/-- a line without a terminating newline: everything is the line -/
theorem splitLine_noNL (x : Bytes) (h : NL ∉ x) : splitLine x = (x, []) := by
  induction x with
  | nil => simp [splitLine]
  | cons b x ih =>
    have hb : b ≠ NL := by intro e; apply h; simp [e]
    have hx : NL ∉ x := by intro e; apply h; simp [e]
    simp [splitLine, hb, ih hx]

/-! ### actions -/

/-- the action reads or writes path `q` -/
def touches : FsAct → Path → Prop
  | .remove p, q => p = q
  | .create p, q => p = q
  | .openKeep p, q => p = q
  | .write p _, q => p = q
  | .rename s d, q => s = q ∨ d = q

theorem applyAct_gr (st : St) (a : FsAct) : (applyAct st a).gr = st.gr := by
  cases a <;> simp [applyAct]
  split <;> rfl

theorem applyAct_frame (st : St) (a : FsAct) (q : Path) (h : ¬ touches a q) :
    (applyAct st a).fs q = st.fs q := by
  cases a with
  | remove p => exact setFs_other _ _ (fun e => h e.symm)
  | create p => exact setFs_other _ _ (fun e => h e.symm)
  | openKeep p => exact setFs_other _ _ (fun e => h e.symm)
  | write p bs =>
    simp only [applyAct]
    split
    · exact setFs_other _ _ (fun e => h e.symm)
    · rfl
  | rename s d =>
    have h1 : q ≠ s := fun e => h (Or.inl e.symm)
    have h2 : q ≠ d := fun e => h (Or.inr e.symm)
    simp [applyAct, setFs_other _ _ h1, setFs_other _ _ h2]

theorem applyAct_clock_le (st : St) (a : FsAct) : st.clock ≤ (applyAct st a).clock := by
  cases a <;> simp [applyAct]
  split <;> simp

theorem applyActs_nil (st : St) : applyActs st [] = st := rfl

theorem applyActs_cons (st : St) (a : FsAct) (acts : List FsAct) :
    applyActs st (a :: acts) = applyActs (applyAct st a) acts := rfl

theorem applyActs_append (st : St) (xs ys : List FsAct) :
    applyActs st (xs ++ ys) = applyActs (applyActs st xs) ys := by
  simp [applyActs, List.foldl_append]

theorem applyActs_gr (st : St) (acts : List FsAct) : (applyActs st acts).gr = st.gr := by
  induction acts generalizing st with
  | nil => rfl
  | cons a acts ih => rw [applyActs_cons, ih, applyAct_gr]

theorem applyActs_frame (st : St) (acts : List FsAct) (q : Path)
    (h : ∀ a ∈ acts, ¬ touches a q) : (applyActs st acts).fs q = st.fs q := by
  induction acts generalizing st with
  | nil => rfl
  | cons a acts ih =>
    rw [applyActs_cons, ih _ (fun b hb => h b (List.mem_cons_of_mem _ hb)),
      applyAct_frame _ _ _ (h a List.mem_cons_self)]

theorem applyActs_clock_le (st : St) (acts : List FsAct) : st.clock ≤ (applyActs st acts).clock := by
  induction acts generalizing st with
  | nil => exact Nat.le_refl _
  | cons a acts ih => exact Nat.le_trans (applyAct_clock_le st a) (ih _)

/-- overwriting at the cursor: `new ++ old.drop new.length` is what a file shows after `new` has been
    written over the beginning of `old` -/
def overlay (new old : Bytes) : Bytes := new ++ old.drop new.length

theorem overlay_nil (new : Bytes) : overlay new [] = new := by simp [overlay]

theorem overlay_step (w bs old : Bytes) :
    (overlay w old).take w.length ++ bs ++ (overlay w old).drop (w.length + bs.length) =
      overlay (w ++ bs) old := by
  simp only [overlay, List.take_left', List.length_append]
  rw [List.drop_append, List.drop_drop]
  have h1 : List.drop (w.length + bs.length) w = [] := List.drop_eq_nil_of_le (by omega)
  have h2 : w.length + (w.length + bs.length - w.length) = w.length + bs.length := by omega
  rw [h1, h2]; simp

/-- one write at the cursor when the file shows `overlay w old` and the cursor is after `w` -/
theorem applyAct_write_overlay (st : St) (q : Path) (w bs old : Bytes) (c : Nat)
    (hf : st.fs q = some ⟨overlay w old, c⟩) (hc : st.cur q = w.length) :
    (applyAct st (.write q bs)).fs q = some ⟨overlay (w ++ bs) old, c⟩ ∧
    (applyAct st (.write q bs)).cur q = (w ++ bs).length ∧
    (applyAct st (.write q bs)).clock = st.clock := by
  simp only [applyAct, hf, hc, setFs_same, overlay_step, ↓reduceIte, List.length_append, and_self]

/-- the three writes after a (truncating or not) open: the file shows the canonical contents laid
    over whatever `old` the open left -/
theorem applyActs_writes_overlay (st : St) (dst : Path) (p : Params) (g body old : Bytes) (c : Nat)
    (hf : st.fs dst = some ⟨old, c⟩) (hc : st.cur dst = 0) :
    (applyActs st [.write dst (p.version ++ [NL]), .write dst (p.hash g ++ [NL]), .write dst body]).fs dst =
      some ⟨overlay (canon p g body) old, c⟩ ∧
    (applyActs st [.write dst (p.version ++ [NL]), .write dst (p.hash g ++ [NL]), .write dst body]).clock =
      st.clock := by
  have h0 : st.fs dst = some ⟨overlay [] old, c⟩ := by simpa [overlay] using hf
  obtain ⟨f1, c1, k1⟩ := applyAct_write_overlay st dst [] (p.version ++ [NL]) old c h0 (by simpa using hc)
  obtain ⟨f2, c2, k2⟩ := applyAct_write_overlay _ dst _ (p.hash g ++ [NL]) old c f1 c1
  obtain ⟨f3, _, k3⟩ := applyAct_write_overlay _ dst _ body old c f2 c2
  simp only [applyActs, List.foldl_cons, List.foldl_nil]
  refine ⟨?_, by rw [k3, k2, k1]⟩
  rw [f3]
  simp [canon, List.append_assoc]

/-- the three writes produce the canonical file with the stamp of the `create` -/
theorem applyActs_writeOut_dst (st : St) (dst : Path) (p : Params) (g body : Bytes) :
    (applyActs st (writeOut dst p g body)).fs dst = some ⟨canon p g body, st.clock⟩ := by
  have h := applyActs_writes_overlay (applyAct st (.create dst)) dst p g body [] st.clock
    (by simp [applyAct]) (by simp [applyAct])
  simp only [writeOut, applyActs, List.foldl_cons, List.foldl_nil] at h ⊢
  rw [h.1, overlay_nil]

theorem applyActs_writeOut_clock (st : St) (dst : Path) (p : Params) (g body : Bytes) :
    (applyActs st (writeOut dst p g body)).clock = st.clock + 1 := by
  have h := applyActs_writes_overlay (applyAct st (.create dst)) dst p g body [] st.clock
    (by simp [applyAct]) (by simp [applyAct])
  simp only [writeOut, applyActs, List.foldl_cons, List.foldl_nil] at h ⊢
  rw [h.2]; simp [applyAct]

/-- without truncation the new contents are laid over the old file -/
theorem applyActs_writeOutKeep_dst (st : St) (dst : Path) (p : Params) (g body : Bytes) :
    (applyActs st (writeOutKeep dst p g body)).fs dst =
      some ⟨overlay (canon p g body) (((st.fs dst).map (·.data)).getD []), st.clock⟩ ∧
    (applyActs st (writeOutKeep dst p g body)).clock = st.clock + 1 := by
  have h := applyActs_writes_overlay (applyAct st (.openKeep dst)) dst p g body
    (((st.fs dst).map (·.data)).getD []) st.clock (by simp [applyAct]) (by simp [applyAct])
  simp only [writeOutKeep, applyActs, List.foldl_cons, List.foldl_nil] at h ⊢
  refine ⟨h.1, ?_⟩
  rw [h.2]; simp [applyAct]

theorem writeOutKeep_touches (dst : Path) (p : Params) (g body : Bytes) (q : Path) (h : q ≠ dst) :
    ∀ a ∈ writeOutKeep dst p g body, ¬ touches a q := by
  intro a ha
  simp [writeOutKeep] at ha
  rcases ha with rfl | rfl | rfl | rfl <;> exact fun e => h e.symm

theorem writeOut_touches (dst : Path) (p : Params) (g body : Bytes) (q : Path) (h : q ≠ dst) :
    ∀ a ∈ writeOut dst p g body, ¬ touches a q := by
  intro a ha
  simp [writeOut] at ha
  rcases ha with rfl | rfl | rfl | rfl <;> exact fun e => h e.symm

theorem reportActs_touches (cfg : Cfg) (i : Nat) (reps : List Bytes) (q : Path) (h : q ≠ .rep i) :
    ∀ a ∈ reportActs cfg i reps, ¬ touches a q := by
  intro a ha
  unfold reportActs at ha
  split at ha
  · simp only [List.mem_flatMap] at ha
    obtain ⟨r, _, hr⟩ := ha
    simp at hr
    rcases hr with rfl | rfl <;> exact fun e => h e.symm
  · simp at ha

/-! ### crash prefixes -/

theorem CrashPrefix.full (acts : List FsAct) : CrashPrefix acts acts := by
  induction acts with
  | nil => exact .nil _
  | cons a acts ih => exact .cons a ih

theorem crashCut_isPrefix (acts : List FsAct) (k j : Nat) : CrashPrefix acts (crashCut acts k j) := by
  induction acts generalizing k with
  | nil => simp [crashCut]; exact .nil _
  | cons a acts ih =>
    cases k with
    | zero =>
      cases a with
      | write p bs => exact .partialWrite p bs j acts
      | remove p => exact .nil _
      | create p => exact .nil _
      | openKeep p => exact .nil _
      | rename s d => exact .nil _
    | succ k =>
      cases a <;> exact .cons _ (ih k)

/-- a property of actions that cutting a write short cannot break -/
def CutStable (P : FsAct → Prop) : Prop := ∀ p bs j, P (.write p bs) → P (.write p (bs.take j))

theorem CrashPrefix.forall_mem {P : FsAct → Prop} (hP : CutStable P) {acts cut : List FsAct}
    (h : CrashPrefix acts cut) (hall : ∀ a ∈ acts, P a) : ∀ a ∈ cut, P a := by
  induction h with
  | nil => intro a ha; cases ha
  | cons a _ ih =>
    intro b hb
    rcases List.mem_cons.mp hb with rfl | hb
    · exact hall _ List.mem_cons_self
    · exact ih (fun c hc => hall c (List.mem_cons_of_mem _ hc)) b hb
  | partialWrite p bs j acts =>
    intro b hb
    simp at hb
    subst hb
    exact hP p bs j (hall _ List.mem_cons_self)

theorem cutStable_not_touches (q : Path) : CutStable (fun a => ¬ touches a q) := by
  intro p bs j h; exact h

theorem CrashPrefix.cons_inv {a : FsAct} {acts cut : List FsAct} (h : CrashPrefix (a :: acts) cut) :
    cut = [] ∨ (∃ cut', cut = a :: cut' ∧ CrashPrefix acts cut') ∨
      (∃ p bs j, a = .write p bs ∧ cut = [.write p (bs.take j)]) := by
  cases h with
  | nil => exact Or.inl rfl
  | cons _ h' => exact Or.inr (Or.inl ⟨_, rfl, h'⟩)
  | partialWrite p bs j _ => exact Or.inr (Or.inr ⟨p, bs, j, rfl, rfl⟩)

/-- crash prefixes of `xs ++ [rename s d]`: either a crash prefix of `xs`, or everything -/
theorem CrashPrefix.snoc_rename {xs cut : List FsAct} {s d : Path}
    (h : CrashPrefix (xs ++ [.rename s d]) cut) :
    CrashPrefix xs cut ∨ cut = xs ++ [.rename s d] := by
  induction xs generalizing cut with
  | nil =>
    rcases CrashPrefix.cons_inv h with rfl | ⟨cut', rfl, h'⟩ | ⟨p, bs, j, e, _⟩
    · exact Or.inl (.nil _)
    · cases h' with
      | nil => exact Or.inr rfl
    · cases e
  | cons x xs ih =>
    rcases CrashPrefix.cons_inv h with rfl | ⟨cut', rfl, h'⟩ | ⟨p, bs, j, rfl, rfl⟩
    · exact Or.inl (.nil _)
    · rcases ih h' with h'' | rfl
      · exact Or.inl (.cons _ h'')
      · exact Or.inr rfl
    · exact Or.inl (.partialWrite p bs j xs)

end LalrpopModel.Build
