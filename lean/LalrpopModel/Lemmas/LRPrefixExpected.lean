import LalrpopModel.Lemmas.LRPrefixStack
/-!
Valid-prefix properties (C04/C05), part 5: the `expected` lists.

* `accepts_viable` (soundness side + V5 + V6): if `accepts` says that a state stack — a path of the
  automaton over `Xs` — accepts the terminal `a`, then `Xs ++ [a]` is a viable prefix: the
  simulated reductions go through table entries whose complete items are in the cores, so they
  are reductions of the sentential form, and the final shift leads to a state of the automaton.
* `expected_sound_stack`: hence every listed terminal continues the consumed input.
* `accepts_of_continuation` (completeness side + prefix determinism): for the stack as it is when
  the parser is about to pull a token, `accepts` answers yes for EVERY terminal that continues the
  consumed input; `expected_complete_stack` transfers this to the list.
-/
namespace LalrpopModel.LR
open LalrpopModel.LR.Generic LalrpopModel.LR.Prefix

theorem kindsPrefix_snoc {G : Grammar} {S : NT} {l : List Tok} {a : Term} :
    KindsPrefix G S (l ++ [mkTok a]) ↔ ∃ u, l.map (·.kind) = u.map some ∧ IsSentencePrefix G S (u ++ [a]) := by
  constructor
  · rintro ⟨u', hu', hp⟩
    simp only [List.map_append, List.map_cons, List.map_nil, mkTok] at hu'
    have h1 := congrArg (List.take l.length) hu'
    have h2 := congrArg (List.drop l.length) hu'
    rw [List.take_left' (by simp), ← List.map_take] at h1
    rw [List.drop_left' (by simp), ← List.map_drop] at h2
    refine ⟨u'.take l.length, h1, ?_⟩
    have h3 : u'.drop l.length = [a] := by
      generalize u'.drop l.length = d at h2
      match d, h2 with
      | [b], h2 => simp at h2; rw [h2]
    rw [← h3, List.take_append_drop]
    exact hp
  · rintro ⟨u, hu, hp⟩
    exact ⟨u ++ [a], by simp [hu, mkTok], hp⟩

/-- item validity on the symbols alone: the top `d` symbols are the first `d` rhs symbols -/
theorem ItemAt.syms {G : Grammar} {A : Automaton} {p : Nat} {pr : Production}
    (hp : G.prods[p]? = some pr) : ∀ (d : Nat) {st : List Nat} {Xs : List Sym},
    ItemAt G A p d st Xs → d ≤ Xs.length ∧ d ≤ pr.rhs.length ∧ (Xs.take d).reverse = pr.rhs.take d
  | 0, _, _, _ => by simp
  | d + 1, [], _, h => by simp [ItemAt] at h
  | d + 1, _ :: _, [], h => by simp [ItemAt] at h
  | d + 1, _ :: ss, X :: Xs, h => by
    simp only [ItemAt] at h
    obtain ⟨ih1, ih2, ih3⟩ := ItemAt.syms hp d h.2
    have hX := symAt_some hp h.1
    obtain ⟨hlt, _⟩ := List.getElem?_eq_some_iff.mp hX
    refine ⟨by simp; omega, hlt, ?_⟩
    rw [List.take_succ_cons, List.reverse_cons, ih3, List.take_add_one, hX]
    rfl

section
variable {G : Grammar} {T : Tables} {A : Automaton} {R : NT → Prop} {S : NT}

/-- **Soundness of `accepts`.** -/
theorem accepts_viable (Sd : Sound G T A) (J : Just G A) (P : ProdOK G A R) (hS : G.startSym = some S)
    (h6 : ∀ x ∈ T.action, x ≠ -((G.startProd : Int) + 1)) (a : Nat) (ha : a < T.nTerm) :
    ∀ (af : Nat) (states : List Nat) (Xs : List Sym), Path A states Xs →
      accepts T af states (some a) = .ok true → Viable G S (Xs.reverse ++ [Sym.t a])
  | 0, _, _, _, h => by simp [accepts] at h
  | af + 1, states, Xs, hp, h => by
    cases states with
    | nil => exact absurd rfl hp.ne_nil
    | cons top rest =>
      have hlt := hp.top_lt Sd
      obtain ⟨act, hact, hshift, hred⟩ := Sd.action top a hlt ha
      simp only [accepts, hact] at h
      split at h
      · cases h
      · rename_i hne
        split at h
        · rename_i p hpa
          obtain ⟨hneg, hpe⟩ := asReduce_some hpa
          obtain ⟨pr, hpr, hit⟩ := hred hneg
          rw [← hpe] at hpr hit
          obtain ⟨B, hB⟩ := prodLhs_some Sd hpr
          simp only [prodLen_get Sd hpr, hB, Sd.isStart_eq p pr hpr] at h
          have hne' : p ≠ G.startProd := by
            intro hps
            apply h6 act (List.mem_of_getElem? hact)
            rw [← hps]
            omega
          have hb : (p == G.startProd) = false := by simpa using hne'
          rw [hb] at h
          simp only [Bool.false_eq_true, if_false] at h
          obtain ⟨below, more, hd, hpath⟩ := hp.reduce_goto Sd hpr hit hne'
          have hB' := Sd.prodLhs_eq p pr hpr hne'
          rw [hB] at hB'; cases hB'
          have hlen : ¬ (top :: rest).length < pr.rhs.length := by
            intro hl
            have := List.drop_eq_nil_of_le (Nat.le_of_lt hl)
            rw [hd] at this; cases this
          simp only [hlen, if_false, hd] at h
          -- the viable prefix after the simulated reduce
          obtain ⟨δ, hsf, hδ⟩ := accepts_viable Sd J P hS h6 a ha af _ _ hpath h
          have hv := hp.itemAt Sd _ _ rfl p _ hit
          obtain ⟨_, _, hsyms⟩ := ItemAt.syms hpr _ hv
          rw [List.take_length] at hsyms
          refine ⟨δ, ?_, hδ⟩
          have e1 : Xs.reverse = (Xs.drop pr.rhs.length).reverse ++ pr.rhs := by
            conv => lhs; rw [← List.take_append_drop pr.rhs.length Xs, List.reverse_append, hsyms]
          have := SF.step (Xs.drop pr.rhs.length).reverse (Sym.t a :: δ) p pr
            (by simpa [List.append_assoc] using hsf) hpr
          rw [e1]
          simpa [List.append_assoc] using this
        · -- a shift: the successor is a state of the automaton
          rename_i hnr
          have hpos : 0 < act := by
            simp only [asReduce] at hnr
            split at hnr
            · cases hnr
            · omega
          have := path_viable Sd J P hS (Path.push hp (X := Sym.t a) (hshift hpos))
          simpa using this

/-- **C05 soundness on the stack**: every terminal of `expected T af states` continues the tokens
    under the stack -/
theorem expected_sound_stack (Sd : Sound G T A) (J : Just G A) (P : ProdOK G A R) (hS : G.startSym = some S)
    (h6 : ∀ x ∈ T.action, x ≠ -((G.startProd : Int) + 1))
    {states : List Nat} {symbols : List SymTriple} {Xs : List Sym}
    (hp : Path A states Xs) (ht : TreesOK G none symbols Xs) {af : Nat} {ex : List Term}
    (hex : expected T af states = .ok ex) (a : Nat) (ha : a ∈ ex) :
    KindsPrefix G S (stackYield symbols ++ [mkTok a]) := by
  obtain ⟨_, hlt, hacc⟩ := (expectedLoop_mem hex a).mp ha
  have hnt : a < T.nTerm := by have := nRepr_le T; omega
  have hv := accepts_viable Sd J P hS h6 a hnt af states Xs hp hacc
  obtain ⟨hl, hy⟩ := TL.of_treesOK ht
  have hl' : TL G (symbols.reverse.map (·.2.1) ++ [Tree.leaf (mkTok a)]) (Xs.reverse ++ [Sym.t a]) :=
    hl.append (.cons (.leaf _ a rfl) rfl .nil)
  have := viable_kindsPrefix hv hl'
  rw [yieldL_append, hy] at this
  simpa [yieldL, Tree.yield] using this

end

/-! ### completeness of `accepts` for the stack at a pull -/

theorem expectedLoop_all_ok {T : Tables} {af : Nat} {st : List Nat} {k i : Nat} {ex : List Term}
    (h : expectedLoop T af st k i = .ok ex) (x : Nat) (h1 : i ≤ x) (h2 : x < i + k) :
    ∃ b, accepts T af st (some x) = .ok b := by
  induction k generalizing i ex with
  | zero => omega
  | succ k ih =>
    simp only [expectedLoop] at h
    cases hacc : accepts T af st (some i) with
    | error e => rw [hacc] at h; simp at h
    | ok b =>
      rw [hacc] at h
      simp only at h
      cases hrest : expectedLoop T af st k (i + 1) with
      | error e => rw [hrest] at h; simp at h
      | ok rest =>
        by_cases hx : x = i
        · subst hx; exact ⟨b, hacc⟩
        · exact ih hrest (by omega) (by omega)

section
variable {G : Grammar} {T : Tables} {ann : Ann}

/-- **Completeness of `accepts` at a pull.** When the parser (validated tables, completeness
    side; no recovery) is about to pull a token — so its stack is as the last shift left it —
    `accepts` says yes, for some fuel, for every terminal `a` such that the tokens consumed so far
    followed by `a` are a prefix of a sentence. -/
theorem accepts_of_continuation (V : Valid G T ann) (hrec : T.usesRecovery = false) {S : NT}
    (hS : G.startSym = some S) (toks : List Tok) (failAt : Option Nat) (hf : NoFail T failAt)
    (startLoc : Int) {af n : Nat} {c0 : Cfg}
    (hpull : run T af failAt startLoc n (init startLoc (toks.map Item.tok)) .pull = (c0, .pull))
    (a : Term) (hp : KindsPrefix G S (toks.take c0.pulled ++ [mkTok a])) :
    ∃ af', accepts T af' c0.states (some a) = .ok true := by
  obtain ⟨u, hu, z, hd⟩ := hp
  have hio := ioinv_of_run (T := T) (startLoc := startLoc) hpull
  have hle : c0.pulled ≤ toks.length := by simpa using hio.pre rfl
  -- an accepted extension of `consumed ++ [a]`
  let toks₃ := toks.take c0.pulled ++ [mkTok a] ++ z.map mkTok
  have hk : toks₃.map (·.kind) = (u ++ z).map some := by
    simp only [toks₃]
    rw [List.map_append, hu, map_kind_mkTok, List.map_append]
  obtain ⟨n₃, c₃, v, h₃, _⟩ := derives_ok_run V af failAt hf startLoc S hS (u ++ z) hd toks₃ hk
  have hlen : (toks.take c0.pulled).length = c0.pulled := by simp; omega
  have hshare : (toks.map Item.tok).take c0.pulled = (toks₃.map Item.tok).take c0.pulled := by
    simp only [toks₃, List.map_append, ← List.map_take, List.append_assoc]
    rw [List.take_append_of_le_length (by simp; omega)]
    exact (List.take_of_length_le (by simp; omega)).symm
  have h₁ := prefix_determinism T af failAt startLoc hrec _ _ c0.pulled hshare n c0 _ hpull (Nat.le_refl _)
  have hdrop : (toks₃.map Item.tok).drop c0.pulled = Item.tok (mkTok a) :: (z.map mkTok).map Item.tok := by
    simp only [toks₃, List.map_append, List.append_assoc]
    rw [List.drop_append_of_le_length (by simp; omega), List.drop_of_length_le (by simp; omega)]
    rfl
  rw [hdrop] at h₁
  -- the accepting run has not finished at step `n`, and at step `n + 1` it is in `.act _ a`
  have hn : n + 1 ≤ n₃ := by
    apply Nat.lt_of_not_le
    intro hle'
    have := run_done_stable T af failAt startLoc h₃ hle'
    rw [h₁] at this
    cases this
  obtain ⟨m, rfl⟩ := Nat.exists_eq_add_of_le hn
  rw [Generic.run_add, Generic.run_succ', h₁] at h₃
  have hstep : step T af failAt startLoc (setIn c0 (Item.tok (mkTok a) :: (z.map mkTok).map Item.tok)) .pull =
      ({ setIn c0 ((z.map mkTok).map Item.tok) with pulled := c0.pulled + 1, lastLoc := (mkTok a).r },
        .act (mkTok a) a) := by
    simp [step, nextToken, mkTok, setIn]
  rw [hstep] at h₃
  have := act_run_accepts T af failAt startLoc hrec m _ _ _ _ _ h₃
  exact this

/-- transfer to the list: if `expected` was computed (with whatever fuel) from a state stack for
    which `accepts` says yes for `a` (with whatever fuel), then `a` is listed -/
theorem expected_complete_stack {states : List Nat} {af af' : Nat} {ex : List Term}
    (hex : expected T af states = .ok ex) {a : Nat} (ha : a < T.nRepr)
    (hacc : accepts T af' states (some a) = .ok true) : a ∈ ex := by
  rw [expectedLoop_mem hex a]
  refine ⟨Nat.zero_le _, by omega, ?_⟩
  obtain ⟨b, hb⟩ := expectedLoop_all_ok hex a (Nat.zero_le _) (by omega)
  have h1 := accepts_ok_mono T hb (Nat.le_max_left af af')
  have h2 := accepts_ok_mono T hacc (Nat.le_max_right af af')
  rw [h1] at h2
  cases h2
  exact hb

end

/-! ### "no reduction under the offending lookahead" -/

theorem step_pull_states (T : Tables) (af : Nat) (failAt : Option Nat) (startLoc : Int) (c : Cfg) :
    (step T af failAt startLoc c .pull).1.states = c.states := by
  have hs := step_spec T af failAt startLoc c .pull
  rcases hs.io_cases with ⟨_, hp, _⟩ | ⟨_, _, h, _⟩
  · have := (step_pull_pulled T af failAt startLoc c).1
    omega
  · exact h

/-- if the syntax error is raised in the step right after the pull of the offending item (or by
    that pull itself) — no reduction was performed under the offending lookahead — the state stack
    at the error is the one the parser had when it pulled -/
theorem states_of_error_after_pull {T : Tables} (hrec : T.usesRecovery = false) {af : Nat}
    {failAt : Option Nat} {startLoc : Int} {input : List Item} {n₀ : Nat} {c₀ c : Cfg} {e : PErr}
    {ex : List Term}
    (h₀ : run T af failAt startLoc n₀ (init startLoc input) .pull = (c₀, .pull))
    (h₂ : run T af failAt startLoc (n₀ + 2) (init startLoc input) .pull = (c, .done (.err e)))
    (he : errExpected e = some ex) : c.states = c₀.states := by
  rcases h₁ : run T af failAt startLoc (n₀ + 1) (init startLoc input) .pull with ⟨c₁, ph₁⟩
  have hs₁ : step T af failAt startLoc c₀ .pull = (c₁, ph₁) := by
    rw [Generic.run_succ', h₀] at h₁; exact h₁
  have hs₂ : step T af failAt startLoc c₁ ph₁ = (c, .done (.err e)) := by
    rw [show n₀ + 2 = (n₀ + 1) + 1 from rfl, Generic.run_succ', h₁] at h₂; exact h₂
  have hst : c₁.states = c₀.states := by
    have := step_pull_states T af failAt startLoc c₀
    rw [hs₁] at this; exact this
  cases hd : phDone ph₁ with
  | false =>
    have hpl : isPlain ph₁ = true := by
      have := step_plain T af failAt startLoc hrec c₀ .pull rfl
      rw [hs₁] at this; exact this
    rw [(step_err_stack (step_spec_of hs₂) hpl hd he).1, hst]
  | true =>
    cases ph₁ with
    | done r =>
      simp only [step_done, Prod.mk.injEq, Phase.done.injEq] at hs₂
      obtain ⟨rfl, rfl⟩ := hs₂
      exact (step_err_stack (step_spec_of hs₁) rfl rfl he).1
    | _ => simp [phDone] at hd

end LalrpopModel.LR
