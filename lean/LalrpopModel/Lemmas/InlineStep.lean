import LalrpopModel.Lemmas.InlineSem
/-!
Structure of the output of `inline_nt` (which productions / action definitions the new grammar
has), derived from `inlineSyms_spec` through the three loops.
-/
set_option linter.unusedSectionVars false

namespace LalrpopModel.Inline

variable {N T X : Type} [DecidableEq N] [DecidableEq T]

/-- action `idx` of `acts` is the composed action for host action `a` and choice `c` -/
def IsInlineOf (acts : List (Defn N T X)) (idx a : Nat) (c : List (InlinedSymbol N T)) : Prop :=
  ∃ d, acts[idx]? = some d ∧ d.kind = .inline a c

theorem IsInlineOf.append {acts : List (Defn N T X)} {idx a : Nat} {c : List (InlinedSymbol N T)}
    (h : IsInlineOf acts idx a c) (more : List (Defn N T X)) : IsInlineOf (acts ++ more) idx a c := by
  obtain ⟨d, hd, hk⟩ := h
  refine ⟨d, ?_, hk⟩
  have hlt : idx < acts.length := by
    rcases Nat.lt_or_ge idx acts.length with h | h
    · exact h
    · rw [List.getElem?_eq_none h] at hd; cases hd
  rw [List.getElem?_append_left hlt]; exact hd

/-- relation between the productions `ps` of a nonterminal before and `ps'` after inlining `inl`
    (whose productions are `inlProds`); `n0` = number of actions before, `acts'` = actions after -/
structure StepRel (inl : N) (inlProds : List (Production N T)) (n0 : Nat)
    (acts' : List (Defn N T X)) (ps ps' : List (Production N T)) : Prop where
  keep : ∀ p ∈ ps, Symbol.nt inl ∉ p.symbols → p ∈ ps'
  new : ∀ p ∈ ps, Symbol.nt inl ∈ p.symbols → ∀ c ∈ choices inl inlProds p.symbols,
    ∃ idx, n0 ≤ idx ∧
      ({ nonterminal := p.nonterminal, symbols := c.flatMap InlinedSymbol.flat, action := idx } :
        Production N T) ∈ ps' ∧ IsInlineOf acts' idx p.action c
  back : ∀ p' ∈ ps', (p' ∈ ps ∧ Symbol.nt inl ∉ p'.symbols) ∨
    ∃ p ∈ ps, Symbol.nt inl ∈ p.symbols ∧ ∃ c ∈ choices inl inlProds p.symbols,
      p'.nonterminal = p.nonterminal ∧ p'.symbols = c.flatMap InlinedSymbol.flat ∧ n0 ≤ p'.action ∧
      IsInlineOf acts' p'.action p.action c

theorem StepRel.mono {inl : N} {inlProds : List (Production N T)} {n0 : Nat}
    {acts' : List (Defn N T X)} {ps ps' : List (Production N T)}
    (h : StepRel inl inlProds n0 acts' ps ps') (more : List (Defn N T X)) :
    StepRel inl inlProds n0 (acts' ++ more) ps ps' where
  keep := h.keep
  new := fun p hp hs c hc => by
    obtain ⟨idx, h1, h2, h3⟩ := h.new p hp hs c hc
    exact ⟨idx, h1, h2, h3.append more⟩
  back := fun p' hp' => by
    rcases h.back p' hp' with h1 | ⟨p, hp, hs, c, hc, h2, h3, h4, h5⟩
    · exact .inl h1
    · exact .inr ⟨p, hp, hs, c, hc, h2, h3, h4, h5.append more⟩

theorem mem_numbered (into : Production N T) (pre : List (InlinedSymbol N T)) (base : Nat)
    (cs : List (List (InlinedSymbol N T))) (p' : Production N T) :
    p' ∈ numbered into pre base cs ↔
      ∃ i, ∃ h : i < cs.length,
        p' = { nonterminal := into.nonterminal, symbols := (pre ++ cs[i]).flatMap InlinedSymbol.flat,
               action := base + i } := by
  induction cs generalizing base with
  | nil => simp [numbered]
  | cons c cs ih =>
    simp only [numbered, List.mem_cons, ih, List.length_cons]
    constructor
    · rintro (h | ⟨i, hi, h⟩)
      · exact ⟨0, by omega, by simpa using h⟩
      · exact ⟨i + 1, by omega, by simp only [List.getElem_cons_succ]; rw [h]; congr 1; omega⟩
    · rintro ⟨i, hi, h⟩
      cases i with
      | zero => left; simpa using h
      | succ i =>
        right
        exact ⟨i, by omega, by simp only [List.getElem_cons_succ] at h; rw [h]; congr 1; omega⟩

/-- the loop over the productions of one nonterminal -/
theorem inlineProds_spec (defs : List (Defn N T X)) (inl : N) (inlProds : List (Production N T))
    (n0 : Nat) (hn0 : n0 ≤ defs.length)
    (hInl : ∀ ip ∈ inlProds, ∃ d, defs[ip.action]? = some d)
    (ps : List (Production N T)) (hPs : ∀ p ∈ ps, ∃ d, defs[p.action]? = some d)
    (out : Out N T X) :
    ∃ P D, inlineProds defs inl inlProds ps out = some { prods := out.prods ++ P, defns := out.defns ++ D } ∧
      StepRel inl inlProds n0 (defs ++ (out.defns ++ D)) ps P := by
  induction ps generalizing out with
  | nil =>
    exact ⟨[], [], by simp [inlineProds], ⟨by simp, by simp, by simp⟩⟩
  | cons p ps ih =>
    have hPs' : ∀ q ∈ ps, ∃ d, defs[q.action]? = some d := fun q hq => hPs q (List.mem_cons_of_mem _ hq)
    by_cases hs : Symbol.nt inl ∈ p.symbols
    · obtain ⟨intoDef, hInto⟩ := hPs p (List.mem_cons_self ..)
      have hspec := inlineSyms_spec defs inl inlProds p intoDef hInto hInl p.symbols [] 0 out
      obtain ⟨P1, D1, h1, hrel⟩ := ih hPs'
        { prods := out.prods ++ numbered p [] (defs.length + out.defns.length) (choices inl inlProds p.symbols)
          defns := out.defns ++ (choices inl inlProds p.symbols).map fun c =>
            mkDefn intoDef p (0 + fallibleCount defs c) ([] ++ c) }
      refine ⟨numbered p [] (defs.length + out.defns.length) (choices inl inlProds p.symbols) ++ P1,
        ((choices inl inlProds p.symbols).map fun c => mkDefn intoDef p (0 + fallibleCount defs c) ([] ++ c)) ++ D1,
        ?_, ?_⟩
      · simp only [inlineProds, hs, not_true_eq_false, if_false, hspec, h1, List.append_assoc]
      · simp only [List.append_assoc] at hrel ⊢
        -- facts about the block of new productions of `p`
        have hblock : ∀ i, ∀ hi : i < (choices inl inlProds p.symbols).length,
            IsInlineOf (defs ++ (out.defns ++ ((choices inl inlProds p.symbols).map (fun c =>
              mkDefn intoDef p (0 + fallibleCount defs c) ([] ++ c)) ++ D1)))
              (defs.length + out.defns.length + i) p.action ((choices inl inlProds p.symbols)[i]) := by
          intro i hi
          refine ⟨mkDefn intoDef p (0 + fallibleCount defs (choices inl inlProds p.symbols)[i])
            ([] ++ (choices inl inlProds p.symbols)[i]), ?_, by simp [mkDefn]⟩
          rw [List.getElem?_append_right (by omega)]
          have e1 : defs.length + out.defns.length + i - defs.length = out.defns.length + i := by omega
          rw [e1, List.getElem?_append_right (by omega)]
          have e2 : out.defns.length + i - out.defns.length = i := by omega
          rw [e2, List.getElem?_append_left (by simpa using hi)]
          simp [hi]
        refine ⟨?_, ?_, ?_⟩
        · intro q hq hqs
          rcases List.mem_cons.mp hq with rfl | hq
          · exact absurd hs hqs
          · exact List.mem_append_right _ (hrel.keep q hq hqs)
        · intro q hq hqs c hc
          rcases List.mem_cons.mp hq with rfl | hq
          · obtain ⟨i, hi, rfl⟩ := List.getElem_of_mem hc
            refine ⟨defs.length + out.defns.length + i, by omega, ?_, hblock i hi⟩
            apply List.mem_append_left
            rw [mem_numbered]
            exact ⟨i, hi, by simp⟩
          · obtain ⟨idx, h2, h3, h4⟩ := hrel.new q hq hqs c hc
            exact ⟨idx, h2, List.mem_append_right _ h3, h4⟩
        · intro p' hp'
          rcases List.mem_append.mp hp' with hp' | hp'
          · rw [mem_numbered] at hp'
            obtain ⟨i, hi, rfl⟩ := hp'
            right
            refine ⟨p, List.mem_cons_self .., hs, (choices inl inlProds p.symbols)[i],
              List.getElem_mem hi, rfl, by simp, by simp; omega, hblock i hi⟩
          · rcases hrel.back p' hp' with ⟨h2, h3⟩ | ⟨q, hq, hqs, c, hc, h2⟩
            · exact .inl ⟨List.mem_cons_of_mem _ h2, h3⟩
            · exact .inr ⟨q, List.mem_cons_of_mem _ hq, hqs, c, hc, h2⟩
    · obtain ⟨P1, D1, h1, hrel⟩ := ih hPs' { out with prods := out.prods ++ [p] }
      refine ⟨p :: P1, D1, ?_, ?_⟩
      · simp only [inlineProds, hs, not_false_eq_true, if_true, h1, List.append_assoc,
          List.singleton_append]
      · refine ⟨?_, ?_, ?_⟩
        · intro q hq hqs
          rcases List.mem_cons.mp hq with rfl | hq
          · exact List.mem_cons_self ..
          · exact List.mem_cons_of_mem _ (hrel.keep q hq hqs)
        · intro q hq hqs c hc
          rcases List.mem_cons.mp hq with rfl | hq
          · exact absurd hqs hs
          · obtain ⟨idx, h2, h3, h4⟩ := hrel.new q hq hqs c hc
            exact ⟨idx, h2, List.mem_cons_of_mem _ h3, h4⟩
        · intro p' hp'
          rcases List.mem_cons.mp hp' with rfl | hp'
          · exact .inl ⟨List.mem_cons_self .., hs⟩
          · rcases hrel.back p' hp' with ⟨h2, h3⟩ | ⟨q, hq, hqs, c, hc, h2⟩
            · exact .inl ⟨List.mem_cons_of_mem _ h2, h3⟩
            · exact .inr ⟨q, List.mem_cons_of_mem _ hq, hqs, c, hc, h2⟩

/-- pointwise relation of two lists (core has no `Forall₂`) -/
inductive Rel2 {α β : Type} (R : α → β → Prop) : List α → List β → Prop where
  | nil : Rel2 R [] []
  | cons {a b as bs} : R a b → Rel2 R as bs → Rel2 R (a :: as) (b :: bs)

/-- entries before/after: same name, payload, attribute; productions related by `StepRel` -/
def NtRel (inl : N) (inlProds : List (Production N T)) (n0 : Nat) (acts' : List (Defn N T X))
    (d d' : NtData N T X) : Prop :=
  d'.name = d.name ∧ d'.extra = d.extra ∧ d'.isInline = d.isInline ∧
    StepRel inl inlProds n0 acts' d.productions d'.productions

/-- the loop over the nonterminals -/
theorem inlineNts_spec (inl : N) (inlProds : List (Production N T)) (n0 : Nat)
    (ds : List (NtData N T X)) (defs : List (Defn N T X)) (hn0 : n0 ≤ defs.length)
    (hInl : ∀ ip ∈ inlProds, ip.action < n0)
    (hPs : ∀ d ∈ ds, ∀ p ∈ d.productions, p.action < n0) :
    ∃ ds' extra, inlineNts inl inlProds ds defs = some (ds', defs ++ extra) ∧
      Rel2 (NtRel inl inlProds n0 (defs ++ extra)) ds ds' := by
  induction ds generalizing defs with
  | nil => exact ⟨[], [], by simp [inlineNts], .nil⟩
  | cons d ds ih =>
    have look : ∀ a, a < n0 → ∃ x, defs[a]? = some x := fun a ha =>
      ⟨defs[a]'(by omega), List.getElem?_eq_getElem (by omega)⟩
    obtain ⟨P, D, h1, hrel⟩ := inlineProds_spec defs inl inlProds n0 hn0
      (fun ip hip => look _ (hInl ip hip)) d.productions
      (fun p hp => look _ (hPs d (List.mem_cons_self ..) p hp)) { prods := [], defns := [] }
    simp only [List.nil_append] at h1 hrel
    obtain ⟨ds', extra, h2, hall⟩ := ih (defs ++ D) (by simp; omega)
      (fun d' hd' => hPs d' (List.mem_cons_of_mem _ hd'))
    refine ⟨{ d with productions := P } :: ds', D ++ extra, ?_, ?_⟩
    · simp only [inlineNts, h1, h2, List.append_assoc]
    · refine .cons ⟨rfl, rfl, rfl, ?_⟩ (by simpa [List.append_assoc] using hall)
      have := hrel.mono extra
      simpa [List.append_assoc] using this

/-- well-formedness of a lowered grammar: action indices in range, names distinct (the map is a
    BTreeMap), productions filed under their own nonterminal -/
structure WF (g : Grammar N T X) : Prop where
  actions_in_range : ∀ d ∈ g.nonterminals, ∀ p ∈ d.productions, p.action < g.actions.length
  names_nodup : (g.nonterminals.map (·.name)).Nodup

theorem productionsFor_mem {g : Grammar N T X} {n : N} {p : Production N T}
    (h : p ∈ g.productionsFor n) : ∃ d ∈ g.nonterminals, d.name = n ∧ p ∈ d.productions := by
  unfold Grammar.productionsFor at h
  split at h
  · rename_i d hd
    exact ⟨d, List.mem_of_find?_eq_some hd, by simpa using List.find?_some hd, h⟩
  · cases h

/-- lookups in two related lists of entries give related production lists -/
theorem find_rel {R : NtData N T X → NtData N T X → Prop} (hR : ∀ d d', R d d' → d'.name = d.name)
    {ds ds' : List (NtData N T X)} (h : Rel2 R ds ds') (n : N) :
    (ds.find? (fun d => d.name = n) = none ∧ ds'.find? (fun d => d.name = n) = none) ∨
    ∃ d d', ds.find? (fun d => d.name = n) = some d ∧ ds'.find? (fun d => d.name = n) = some d' ∧ R d d' := by
  induction h with
  | nil => left; simp
  | @cons d d' ds ds' hd _ ih =>
    have hname := hR d d' hd
    by_cases hn : d.name = n
    · right
      exact ⟨d, d', by simp [hn], by simp [hname, hn], hd⟩
    · rcases ih with ⟨h1, h2⟩ | ⟨e, e', h1, h2, h3⟩
      · left; simp [hn, hname, h1, h2]
      · right; exact ⟨e, e', by simp [hn, h1], by simp [hname, hn, h2], h3⟩

/-- **structure of `inline_nt`**: for a well-formed grammar the pass does not panic; it appends
    action definitions; every nonterminal keeps name/payload; its productions are related to the
    old ones by `StepRel` (kept if `inl` does not occur, otherwise replaced by one production per
    choice, whose action is the composed action). -/
theorem inlineNt_spec (g : Grammar N T X) (hwf : WF g) (inl : N) :
    ∃ g' extra, inlineNt g inl = some g' ∧ g'.actions = g.actions ++ extra ∧
      Rel2 (NtRel inl (g.productionsFor inl) g.actions.length g'.actions)
        g.nonterminals g'.nonterminals := by
  have hInl : ∀ ip ∈ g.productionsFor inl, ip.action < g.actions.length := by
    intro ip hip
    obtain ⟨d, hd, _, hp⟩ := productionsFor_mem hip
    exact hwf.actions_in_range d hd ip hp
  obtain ⟨ds', extra, h1, h2⟩ := inlineNts_spec inl (g.productionsFor inl) g.actions.length
    g.nonterminals g.actions (Nat.le_refl _) hInl hwf.actions_in_range
  exact ⟨{ nonterminals := ds', actions := g.actions ++ extra }, extra, by simp [inlineNt, h1], rfl, h2⟩

/-- consequence for `productions_for` -/
theorem inlineNt_productionsFor {g g' : Grammar N T X} {inl : N} {inlProds : List (Production N T)}
    {n0 : Nat} (h : Rel2 (NtRel inl inlProds n0 g'.actions) g.nonterminals g'.nonterminals)
    (n : N) : StepRel inl inlProds n0 g'.actions (g.productionsFor n) (g'.productionsFor n) := by
  unfold Grammar.productionsFor
  rcases find_rel (fun d d' h => h.1) h n with ⟨h1, h2⟩ | ⟨d, d', h1, h2, h3⟩
  · rw [h1, h2]; exact ⟨by simp, by simp, by simp⟩
  · rw [h1, h2]; exact h3.2.2.2

end LalrpopModel.Inline
