import LalrpopModel.Lemmas.LRPrefixViable
/-!
Valid-prefix properties (C04/C05), part 4: the stack at every reachable configuration and at the
moment an `UnrecognizedToken` / `UnrecognizedEof` error is built.

* `reach_stack`: in a run on validated tables (soundness side) every non-final configuration has a
  state stack that is a path of the automaton over the roots of the trees on the symbol stack.
* `final_stack`: the same for the final configuration of a run that ends in one of the two syntax
  errors (recovery off), and the `expected` list of the error is `expected T af c.states`.
* `stack_kindsPrefix`: with V5 such a stack holds a prefix of a sentence.
-/
namespace LalrpopModel.LR
open LalrpopModel.LR.Generic LalrpopModel.LR.Prefix

theorem stackYield_eq_flatten (syms : List SymTriple) :
    stackYield syms = (syms.reverse.map (fun s => s.2.1.yield)).flatten := by
  induction syms with
  | nil => rfl
  | cons y ys ih => simp [stackYield, ih]

/-- the `expected` list carried by the two syntax errors -/
def errExpected : PErr → Option (List Term)
  | .unrecognizedToken _ ex => some ex
  | .unrecognizedEof _ ex => some ex
  | _ => none

section
variable {G : Grammar} {T : Tables} {A : Automaton} {failAt : Option Nat} {startLoc : Int}

theorem inv_stack {input : List Item} {c : Cfg} {ph : Phase} (h : Inv G T A input c ph)
    (hnd : phDone ph = false) : StackInv G T A c ∧ YInv T input c ph := by
  cases ph with
  | done r => simp [phDone] at hnd
  | pull => exact ⟨h.1, h.2.2.1⟩
  | act la idx => exact ⟨h.1, h.2.2.1⟩
  | eof => exact ⟨h.1, h.2.2.1⟩
  | recReduce la e fe => exact ⟨h.1, h.2.2.1⟩
  | recFind la e d sl fe => exact ⟨h.1, h.2.2.1⟩

/-- every non-final configuration of a run has a well-formed stack -/
theorem reach_stack (Sd : Sound G T A) (hrec : T.usesRecovery = false) {input : List Item}
    (hin : InRange T input) {af n : Nat} {c : Cfg} {ph : Phase}
    (h : run T af failAt startLoc n (init startLoc input) .pull = (c, ph)) (hnd : phDone ph = false) :
    (∃ Xs, Path A c.states Xs ∧ TreesOK G none c.symbols Xs) ∧
      (stackYield c.symbols ++ phaseToks ph).map Item.tok ++ c.input = input := by
  have hinv := _root_.LalrpopModel.LR.run_inv Sd af failAt startLoc n _ _
    (init_inv (G := G) (A := A) startLoc hin)
  rw [h] at hinv
  obtain ⟨⟨Xs, hp, ht⟩, hy⟩ := inv_stack hinv hnd
  rw [errT_none hrec] at ht
  exact ⟨⟨Xs, hp, ht⟩, hy.2 hrec⟩

/-- a step of a parser without recovery into one of the two syntax errors leaves the stacks
    alone, and the error carries `expected` of the state stack -/
theorem step_err_stack {af : Nat} {c1 c : Cfg} {ph1 : Phase} {e : PErr} {ex : List Term}
    (hs : Step T af failAt startLoc c1 ph1 c (.done (.err e))) (hpl : isPlain ph1 = true)
    (hnd : phDone ph1 = false) (he : errExpected e = some ex) :
    c.states = c1.states ∧ c.symbols = c1.symbols ∧ expected T af c1.states = .ok ex := by
  generalize hph' : Phase.done (.err e) = ph' at hs
  cases hs with
  | done r => simp [phDone] at hnd
  | panic _ tag hd => cases hph'
  | pull _ nt hn =>
    cases nt with
    | found t i => cases hph'
    | eof => cases hph'
    | done r =>
      simp only [pullK] at hph'
      injection hph' with hph'
      subst hph'
      cases hn with
      | err e' rest h => cases he
      | unrec t rest h hk ex' hex =>
        simp only [errExpected, Option.some.injEq] at he
        subst he
        exact ⟨rfl, rfl, hex⟩
  | shift la idx top rest a target hst ha hsh => cases hph'
  | redCont _ p ls _ hctx hr => subst hph'; simp [phDone] at hnd
  | redFin _ p ls _ r hctx hr =>
    injection hph' with hph'
    cases hr with
    | bad tag => cases ph1 <;> simp [finOutcome] at hph'
    | fail n hn hlen hfal hf =>
      cases ph1 <;> simp [finOutcome] at hph' <;> subst hph' <;> cases he
    | badStart n hn hlen hnf => cases ph1 <;> simp [finOutcome] at hph'
    | pushedPanic n hn hlen hnf tag => cases ph1 <;> simp [finOutcome] at hph'
    | accept n hn hlen hnf hst k hk =>
      cases ph1 <;> simp [finOutcome] at hph'
      subst hph'
      cases he
  | enterNoRec _ la fe ex' hctx hex hrec =>
    injection hph' with hph'
    injection hph' with hph'
    subst hph'
    rcases la with _ | ⟨t, i⟩ <;> simp only [mkErr, errExpected, Option.some.injEq] at he <;> subst he <;>
      exact ⟨rfl, rfl, hex⟩
  | enterRec _ la fe ex' hctx hex hrec => cases hph'
  | toFind la e' fe top rest a hst ha hnr => cases hpl
  | push la e' dropped sl fe top hf _ _ hp => cases hpl
  | giveUp e' dropped sl fe hf => cases hpl
  | drop t i e' dropped sl fe hf _ nt hn => cases hpl

/-- the stack when a syntax error is reported: still a path of the automaton over the roots of
    well-formed trees, and the error's `expected` list was computed from this state stack -/
theorem final_stack (Sd : Sound G T A) (hrec : T.usesRecovery = false) {input : List Item}
    (hin : InRange T input) {c : Cfg} {e : PErr} {ex : List Term}
    (h : Returns T failAt startLoc input c (.err e)) (he : errExpected e = some ex) :
    ∃ Xs, Path A c.states Xs ∧ TreesOK G none c.symbols Xs ∧ ∃ af, expected T af c.states = .ok ex := by
  obtain ⟨n, af, h⟩ := h
  obtain ⟨k, c1, ph1, hk, hrun, hnd, hstep⟩ := last_step T af failAt startLoc h rfl
  have hpl : isPlain ph1 = true := by
    have := run_plain T af failAt startLoc hrec k (init startLoc input) .pull rfl
    rw [hrun] at this; exact this
  obtain ⟨⟨Xs, hp, ht⟩, _⟩ := reach_stack Sd hrec hin hrun hnd
  obtain ⟨h1, h2, h3⟩ := step_err_stack (step_spec_of hstep) hpl hnd he
  exact ⟨Xs, h1 ▸ hp, h2 ▸ ht, af, h1 ▸ h3⟩

/-- with V5, a stack that is a path of the automaton over well-formed trees holds a prefix of a
    sentence -/
theorem stack_kindsPrefix {R : NT → Prop} {S : NT} (Sd : Sound G T A) (J : Just G A) (P : ProdOK G A R)
    (hS : G.startSym = some S) {states : List Nat} {symbols : List SymTriple} {Xs : List Sym}
    (hp : Path A states Xs) (ht : TreesOK G none symbols Xs) : KindsPrefix G S (stackYield symbols) := by
  obtain ⟨hl, hy⟩ := TL.of_treesOK ht
  rw [← hy]
  exact viable_kindsPrefix (path_viable Sd J P hS hp) hl

end

/-- tokens before the rest of the stream: what the machine holds is what it has pulled -/
theorem held_eq_take {held : List Tok} {toks : List Tok} {k : Nat}
    (h : held.map Item.tok ++ (toks.map Item.tok).drop k = toks.map Item.tok) : held = toks.take k := by
  rw [← List.map_drop, ← List.map_append] at h
  have := (List.map_inj_right (f := Item.tok) (fun a b hab => by injection hab)).mp h
  conv at this => rhs; rw [← List.take_append_drop k toks]
  exact List.append_cancel_right this

end LalrpopModel.LR
