import LalrpopModel.Model.Macro
/-!
Value semantics of the productions `expand_repeat_symbol` generates (`X+`, `X*`, `X?`), used by
Props/C13 `repeat_plus_values`, `repeat_star_values`, `option_values`.

The generated alternatives carry fixed action snippets; `snippet` gives their meaning on an
abstract value domain (trusted reading of five lines of Rust). `Der` is derivation-with-values
over a table of generated nonterminals, with the repeated symbol `sym0` treated as a black box
(`base u x`: it derives the word `u` with value `x`).
-/
set_option linter.unusedSectionVars false

namespace LalrpopModel.Macro

inductive Val where
  | atom (n : Nat)
  | list (vs : List Val)     -- `Vec`
  | some (v : Val)           -- `Some(..)`
  | none                     -- `None`

def fNil : List Val → Option Val | [] => some (.list []) | _ => none
def fId : List Val → Option Val | [v] => some v | _ => none
def fSingle : List Val → Option Val | [x] => some (.list [x]) | _ => none
def fPush : List Val → Option Val | [.list vs, e] => some (.list (vs ++ [e])) | _ => none
def fSome : List Val → Option Val | [x] => some (.some x) | _ => none
def fNone : List Val → Option Val | [] => some .none | _ => none

/-- meaning of the action snippets written by `expand_repeat_symbol`, as functions of the values of
    the selected symbols (in order) -/
def snippet (code : String) : Option (List Val → Option Val) :=
  if code = "alloc::vec![]" then some fNil                              -- `X* = => alloc::vec![]`
  else if code = "v" then some fId                                        -- `X* = <v:X+> => v`
  else if code = "alloc::vec![<>]" then some fSingle                      -- `X+ = X => alloc::vec![<>]`
  else if code = "{ let mut v = v; v.push(e); v }" then some fPush        -- `X+ = <v:X+> <e:X>`
  else if code = "Some(<>)" then some fSome                               -- `X? = X => Some(<>)`
  else if code = "None" then some fNone                                   -- `X? = => None`
  else none

theorem snippet_nil : snippet "alloc::vec![]" = some fNil := by simp (decide := true) [snippet]
theorem snippet_id : snippet "v" = some fId := by simp (decide := true) [snippet]
theorem snippet_single : snippet "alloc::vec![<>]" = some fSingle := by simp (decide := true) [snippet]
theorem snippet_push : snippet "{ let mut v = v; v.push(e); v }" = some fPush := by
  simp (decide := true) [snippet]
theorem snippet_some : snippet "Some(<>)" = some fSome := by simp (decide := true) [snippet]
theorem snippet_none : snippet "None" = some fNone := by simp (decide := true) [snippet]

variable {Tk : Type}

/-- a symbol with its bindings (`<v:…>`) stripped -/
def core : Sym → Sym
  | .name _ _ s => core s
  | s => s

/-- derivations with values: `sym0` is a black box, a binding is transparent, a nonterminal of the
    table is expanded through one of its alternatives and the meaning of its action snippet -/
inductive Der (lookup : String → Option NtData) (sym0 : Sym) (base : List Tk → Val → Prop) :
    List Sym → List Tk → List Val → Prop where
  | nil : Der lookup sym0 base [] [] []
  | item {ss u x w xs} : base u x → Der lookup sym0 base ss w xs →
      Der lookup sym0 base (sym0 :: ss) (u ++ w) (x :: xs)
  | named {m n s ss w vs} : Der lookup sym0 base (s :: ss) w vs →
      Der lookup sym0 base (.name m n s :: ss) w vs
  | nt {k d a code f args u v ss w xs} : lookup k = some d → a ∈ d.alts → a.action = .user code →
      snippet code = some f → Der lookup sym0 base a.expr u args → f args = some v →
      Der lookup sym0 base ss w xs → Der lookup sym0 base (.nonterminal k :: ss) (u ++ w) (v :: xs)

/-- what a derivation may produce for one symbol, given a specification per table entry -/
def GoodSym (spec : String → Option (List Tk → Val → Prop)) (sym0 : Sym) (base : List Tk → Val → Prop)
    (s : Sym) (u : List Tk) (x : Val) : Prop :=
  (core s = sym0 ∧ base u x) ∨ ∃ k P, core s = .nonterminal k ∧ spec k = some P ∧ P u x

def Good (spec : String → Option (List Tk → Val → Prop)) (sym0 : Sym) (base : List Tk → Val → Prop) :
    List Sym → List Tk → List Val → Prop
  | [], w, vs => w = [] ∧ vs = []
  | s :: ss, w, vs => ∃ u w' x xs, w = u ++ w' ∧ vs = x :: xs ∧ GoodSym spec sym0 base s u x ∧
      Good spec sym0 base ss w' xs

/-- soundness of a specification table: every alternative of every table entry, evaluated over
    arguments that meet the specification, yields a value that meets it -/
def Sound (lookup : String → Option NtData) (spec : String → Option (List Tk → Val → Prop))
    (sym0 : Sym) (base : List Tk → Val → Prop) : Prop :=
  ∀ k d, lookup k = some d → ∃ P, spec k = some P ∧
    ∀ a ∈ d.alts, ∀ code f args u v, a.action = .user code → snippet code = some f →
      Good spec sym0 base a.expr u args → f args = some v → P u v

theorem der_good {lookup : String → Option NtData} {spec : String → Option (List Tk → Val → Prop)}
    {sym0 : Sym} {base : List Tk → Val → Prop} (hcore : core sym0 = sym0)
    (hs : Sound lookup spec sym0 base) {syms w vs} (h : Der lookup sym0 base syms w vs) :
    Good spec sym0 base syms w vs := by
  induction h with
  | nil => exact ⟨rfl, rfl⟩
  | item hb _ ih => exact ⟨_, _, _, _, rfl, rfl, .inl ⟨hcore, hb⟩, ih⟩
  | named _ ih =>
    obtain ⟨u, w', x, xs, e1, e2, hg, hr⟩ := ih
    refine ⟨u, w', x, xs, e1, e2, ?_, hr⟩
    simpa [GoodSym, core] using hg
  | nt hl ha hc hf _ hv _ ih1 ih2 =>
    obtain ⟨P, hP, hall⟩ := hs _ _ hl
    exact ⟨_, _, _, _, rfl, rfl, .inr ⟨_, P, rfl, hP, hall _ ha _ _ _ _ _ hc hf ih1 hv⟩, ih2⟩

theorem goodSym_base {spec : String → Option (List Tk → Val → Prop)} {sym0 : Sym}
    {base : List Tk → Val → Prop} {s : Sym} {u x} (h : GoodSym spec sym0 base s u x)
    (hs : core s = sym0) (hnt : ∀ k P, spec k = some P → sym0 ≠ .nonterminal k) : base u x := by
  rcases h with ⟨_, hb⟩ | ⟨k, P, hk, hsp, _⟩
  · exact hb
  · exact absurd (hs.symm.trans hk) (hnt k P hsp)

theorem goodSym_nt {spec : String → Option (List Tk → Val → Prop)} {sym0 : Sym}
    {base : List Tk → Val → Prop} {s : Sym} {u x} {k : String} (h : GoodSym spec sym0 base s u x)
    (hs : core s = .nonterminal k) (hne : sym0 ≠ .nonterminal k) :
    ∃ P, spec k = some P ∧ P u x := by
  rcases h with ⟨hc, _⟩ | ⟨k', P, hk, hsp, hP⟩
  · exact absurd (hc.symm.trans hs) hne
  · rw [hs] at hk; cases hk; exact ⟨P, hsp, hP⟩

/-! ### the three specifications -/

/-- a nonempty sequence of items: the word is the concatenation, the value the `Vec` of the item
    values in input order -/
def PlusSpec (base : List Tk → Val → Prop) (u : List Tk) (v : Val) : Prop :=
  ∃ items : List (List Tk × Val), items ≠ [] ∧ (∀ p ∈ items, base p.1 p.2) ∧
    u = items.flatMap (·.1) ∧ v = .list (items.map (·.2))

/-- a possibly empty sequence -/
def StarSpec (base : List Tk → Val → Prop) (u : List Tk) (v : Val) : Prop :=
  ∃ items : List (List Tk × Val), (∀ p ∈ items, base p.1 p.2) ∧
    u = items.flatMap (·.1) ∧ v = .list (items.map (·.2))

/-- nothing (`None`) or one item (`Some`) -/
def OptSpec (base : List Tk → Val → Prop) (u : List Tk) (v : Val) : Prop :=
  (u = [] ∧ v = .none) ∨ ∃ x, base u x ∧ v = .some x

theorem good_singleton {spec : String → Option (List Tk → Val → Prop)} {sym0 : Sym}
    {base : List Tk → Val → Prop} {s : Sym} {w vs} (h : Good spec sym0 base [s] w vs) :
    ∃ x, vs = [x] ∧ GoodSym spec sym0 base s w x := by
  obtain ⟨u, w', x, xs, rfl, rfl, hg, rfl, rfl⟩ := h
  exact ⟨x, rfl, by simpa using hg⟩

theorem der_singleton {lookup : String → Option NtData} {sym0 : Sym} {base : List Tk → Val → Prop}
    {ss w vs} (h : Der lookup sym0 base ss w vs) : Der lookup sym0 base (ss ++ []) (w ++ []) (vs ++ []) := by
  simpa using h

/-- appending one more symbol's derivation -/
theorem Der.append {lookup : String → Option NtData} {sym0 : Sym} {base : List Tk → Val → Prop}
    {s1 w1 v1 s2 w2 v2} (h1 : Der lookup sym0 base s1 w1 v1) (h2 : Der lookup sym0 base s2 w2 v2) :
    Der lookup sym0 base (s1 ++ s2) (w1 ++ w2) (v1 ++ v2) := by
  induction h1 with
  | nil => simpa using h2
  | item hb _ ih => rw [List.append_assoc]; exact .item hb ih
  | named _ ih => exact .named ih
  | nt hl ha hc hf hd hv _ _ ih2 => rw [List.append_assoc]; exact .nt hl ha hc hf hd hv ih2

end LalrpopModel.Macro
