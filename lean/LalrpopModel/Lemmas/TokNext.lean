import LalrpopModel.Lemmas.TokCode
/-! Step lemmas for `next_unshifted`: layout is skipped, every kind of token is recognised. -/
namespace LalrpopModel.Tok

/-- the characters `next_unshifted` dispatches on before it looks at character classes -/
def specialChars : List Char :=
  ['&', '!', ':', ',', '.', '=', '#', '>', '{', '[', '(', '<', '@', '+', '?', '}', ']', ')', ';', '*', '~', '`',
   '\'', '"', '/', '-']

theorem special_not_idStart : ∀ s ∈ specialChars, isIdStart s = false := by decide
theorem special_not_idContinue : ∀ s ∈ specialChars, isIdContinue s = false := by decide

set_option maxRecDepth 100000 in
theorem ws_codes_facts : ∀ n ∈ wsCodes,
    isIdStart (Char.ofNat n) = false ∧ isIdContinue (Char.ofNat n) = false ∧ (Char.ofNat n) ∉ specialChars := by
  decide

theorem ws_facts (c : Char) (h : isWhitespace c = true) :
    isIdStart c = false ∧ isIdContinue c = false ∧ c ∉ specialChars := by
  have := ws_codes_facts c.toNat (by simpa [isWhitespace] using h)
  rwa [Char.ofNat_toNat] at this

theorem idStart_not_special (c : Char) (h : isIdStart c = true) : c ∉ specialChars := by
  intro hm
  have := special_not_idStart c hm
  simp [h] at this

theorem next_ws (cfg : Cfg) (g p : Nat) (c : Char) (r : List Char) (h : isWhitespace c = true) :
    nextUnshifted cfg (g + 1) ⟨p, c :: r⟩ = nextUnshifted cfg g ⟨p + c.utf8Size, r⟩ := by
  obtain ⟨h1, _, h3⟩ := ws_facts c h
  simp [specialChars] at h3
  rw [nextUnshifted]
  simp [h3, h1, h]

/-! ### layout -/

/-- a piece of layout between two tokens of a grammar file -/
inductive LP
  | ws (c : Char)
  | line (body : List Char)
  | block (body : List Char)
  deriving Repr

def LP.render : LP → List Char
  | .ws c => [c]
  | .line body => '/' :: '/' :: (body ++ ['\n'])
  | .block body => '/' :: '*' :: (body ++ ['*', '/'])

/-- whitespace is Unicode White_Space; a line comment runs to its newline; a block comment is one
    comment as rustc nests them -/
def LP.ok : LP → Prop
  | .ws c => isWhitespace c = true
  | .line body => ∀ x ∈ body, x ≠ '\n'
  | .block body => commentOK body

def renderLayout (l : List LP) : List Char := l.flatMap LP.render
def layoutOK (l : List LP) : Prop := ∀ x ∈ l, x.ok

def LP.iters : LP → Nat
  | .line _ => 2
  | _ => 1
def layoutIters (l : List LP) : Nat := (l.map LP.iters).sum

theorem next_line (cfg : Cfg) (g p : Nat) (body r : List Char) (h : ∀ x ∈ body, x ≠ '\n') :
    nextUnshifted cfg (g + 2) ⟨p, '/' :: '/' :: (body ++ '\n' :: r)⟩ =
      nextUnshifted cfg g ⟨p + 1 + 1 + utf8Len body + 1, r⟩ := by
  have hr : '/'.utf8Size = 1 := by decide
  have hn : '\n'.utf8Size = 1 := by decide
  have ht := takeUntil_stop (· == '\n') ('/' :: body) '\n' r (p + 1)
    (by intro x hx; rcases List.mem_cons.1 hx with rfl | hx
        · decide
        · simpa using h x hx) (by decide)
  have ht' : takeUntil (fun x => x == '\n') (p + 1) ('/' :: (body ++ '\n' :: r))
      = (true, '/' :: body, ⟨p + 1 + utf8Len ('/' :: body), '\n' :: r⟩) := by simpa using ht
  rw [show g + 2 = (g + 1) + 1 from rfl, nextUnshifted]
  simp [hr, ht']
  rw [next_ws cfg g _ '\n' r (by decide)]
  congr 2
  simp [hn]; omega

theorem next_block (cfg : Cfg) (g p : Nat) (body r : List Char) (h : commentOK body) :
    nextUnshifted cfg (g + 1) ⟨p, '/' :: '*' :: (body ++ '*' :: '/' :: r)⟩ =
      nextUnshifted cfg g ⟨p + 1 + 1 + utf8Len body + 1 + 1, r⟩ := by
  have hr : '/'.utf8Size = 1 := by decide
  have hs : '*'.utf8Size = 1 := by decide
  have hb := block_comment_matches_rustc p (p + 1 + 1) (body ++ '*' :: '/' :: r)
  rw [h r] at hb
  simp only at hb
  have : p + 1 + 1 + utf8Len (body ++ '*' :: '/' :: r) - utf8Len r = p + 1 + 1 + utf8Len body + 1 + 1 := by
    simp [utf8Len_append, hr, hs]; omega
  rw [this] at hb
  rw [nextUnshifted]
  simp [hr, hb]

theorem next_piece (cfg : Cfg) (g p : Nat) (x : LP) (r : List Char) (h : x.ok) :
    nextUnshifted cfg (g + x.iters) ⟨p, x.render ++ r⟩ = nextUnshifted cfg g ⟨p + utf8Len x.render, r⟩ := by
  cases x with
  | ws c => simpa [LP.iters, LP.render] using next_ws cfg g p c r h
  | line body =>
    have := next_line cfg g p body r h
    simp only [LP.iters, LP.render, List.cons_append, List.append_assoc, List.nil_append, utf8Len_cons, utf8Len_append, utf8Len_nil]
    rw [this]; congr 2
    simp [show '/'.utf8Size = 1 by decide, show '\n'.utf8Size = 1 by decide]; omega
  | block body =>
    have := next_block cfg g p body r h
    simp only [LP.iters, LP.render, List.cons_append, List.append_assoc, List.nil_append, utf8Len_cons, utf8Len_append, utf8Len_nil]
    rw [this]; congr 2
    simp [show '/'.utf8Size = 1 by decide, show '*'.utf8Size = 1 by decide]; omega

/-- **layout is skipped**: whitespace, line comments and nested block comments in front of a token
    only advance the position -/
theorem skip_layout (cfg : Cfg) : ∀ (l : List LP) (g p : Nat) (r : List Char), layoutOK l →
    nextUnshifted cfg (g + layoutIters l) ⟨p, renderLayout l ++ r⟩ =
      nextUnshifted cfg g ⟨p + utf8Len (renderLayout l), r⟩ := by
  intro l
  induction l with
  | nil => intro g p r _; simp [layoutIters, renderLayout]
  | cons x xs ih =>
    intro g p r hok
    have hx : x.ok := hok x (by simp)
    have hxs : layoutOK xs := fun y hy => hok y (by simp [hy])
    have hfuel : g + layoutIters (x :: xs) = g + layoutIters xs + x.iters := by simp [layoutIters]; omega
    have hren : renderLayout (x :: xs) ++ r = x.render ++ (renderLayout xs ++ r) := by simp [renderLayout]
    rw [hfuel, hren, next_piece cfg _ p x _ hx, ih g _ r hxs]
    simp [renderLayout, utf8Len_append, Nat.add_assoc]

theorem LP.iters_le (x : LP) : x.iters ≤ x.render.length := by
  cases x <;> simp [LP.iters, LP.render]

theorem layoutIters_le (l : List LP) : layoutIters l ≤ (renderLayout l).length := by
  induction l with
  | nil => simp [layoutIters, renderLayout]
  | cons x xs ih =>
    have := LP.iters_le x
    simp [layoutIters, renderLayout] at ih ⊢
    omega

end LalrpopModel.Tok
