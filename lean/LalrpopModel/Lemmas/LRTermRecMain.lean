import LalrpopModel.Lemmas.LRTermRecPhases
/-!
C08 termination, part 6: the whole run, error recovery ON or OFF: `PullOK r` and `FindOK r`
(`Lemmas/LRTermRecPhases.lean`) hold for every `r` (`pull_find_ok`), by induction on `r`.
-/
namespace LalrpopModel.LR.Term
open LalrpopModel.LR LalrpopModel.LR.Generic

variable {T : Tables} {F af : Nat} {failAt : Option Nat} {startLoc : Int}

theorem pull_zero (hT : TermOK T F) : PullOK T F af failAt startLoc 0 := by
  intro c hlen _ hadj haf
  have hm : recM F = 3 * F + 7 := rfl
  simp only [Nat.zero_add, Nat.one_mul] at haf ⊢
  have hc : c.input = [] := List.eq_nil_of_length_eq_zero hlen
  have hstep : step T af failAt startLoc c .pull = ({ c with pulled := c.pulled + 1 }, .eof) := by
    simp only [step, nextToken, hc]
  obtain ⟨n1, c1, ph1, d1, hrun1, hn1, hres1⟩ :=
    eof_phase_gen (failAt := failAt) (startLoc := startLoc) hT { c with pulled := c.pulled + 1 } hadj
      (Nat.le_trans (accFuel_mono (by show c.states.length + F ≤ _; omega)) haf)
  have hl0 : ({ c with pulled := c.pulled + 1 } : Cfg).states.length = c.states.length := rfl
  rw [hl0] at hres1
  have hrun01 := run_trans (by rw [run_one, hstep]) hrun1
  have hn01 := add_units (one_unit F) hn1
  rcases hres1 with ⟨⟨r, rfl, hr⟩, hd⟩ | ⟨hrec, ⟨pe, rfl⟩, _, hadj1, hl1, _⟩
  · exact ⟨1 + n1, c1, r, hrun01, hr, le_units hn01 (by omega)⟩
  · obtain ⟨n2, c2, ph2, d2, hrun2, hn2, hres2⟩ :=
      rec_phase (af := af) (failAt := failAt) (startLoc := startLoc) hT hrec c1 hadj1 none pe true
    have hrun02 := run_trans hrun01 hrun2
    have hn02 := add_units hn01 hn2
    rcases hres2 with ⟨⟨r, rfl, hr⟩, hd⟩ | ⟨⟨sl, rfl⟩, _, hadj2, hl2⟩
    · exact ⟨1 + n1 + n2, c2, r, hrun02, hr, le_units hn02 (by omega)⟩
    · obtain ⟨n3, c3, r, hrun3, hr, hn3⟩ :=
        find_none (failAt := failAt) (startLoc := startLoc) hT hrec c2 hadj2
          (Nat.le_trans (accFuel_mono (by omega)) haf) pe [] sl true
      exact ⟨1 + n1 + n2 + n3, c3, r, run_trans hrun02 hrun3, hr,
        le_units (add_units hn02 hn3) (by omega)⟩

theorem pull_succ (hT : TermOK T F) {r : Nat} (hP : PullOK T F af failAt startLoc r)
    (hF : T.usesRecovery = true → FindOK T F af failAt startLoc r) :
    PullOK T F af failAt startLoc (r + 1) := by
  intro c hlen hin hadj haf
  have hm : recM F = 3 * F + 7 := rfl
  have hsplit : (r + 1 + 1) * recM F = (r + 1) * recM F + recM F := by rw [Nat.add_mul, Nat.one_mul]
  rw [hsplit] at haf ⊢
  cases hc : c.input with
  | nil => rw [hc] at hlen; cases hlen
  | cons it rest =>
    have hrest : rest.length = r := by rw [hc] at hlen; simpa using hlen
    cases it with
    | err e =>
      have hstep : step T af failAt startLoc c .pull =
          ({ c with input := rest, pulled := c.pulled + 1 }, .done (.err (.user e))) := by
        simp only [step, nextToken, hc]
      exact ⟨1, _, _, by rw [run_one, hstep], by simp, le_units (one_unit F) (by omega)⟩
    | tok t =>
      let c1 : Cfg := { c with input := rest, pulled := c.pulled + 1, lastLoc := t.r }
      have hc1s : c1.states.length = c.states.length := rfl
      cases hk : t.kind with
      | none =>
        have hfuel : accFuel F c1.states.length ≤ af := by
          refine Nat.le_trans (accFuel_mono ?_) haf
          show c.states.length ≤ _
          omega
        have hne := unrecognizedError_ne_fuel hT (c := c1) hadj hfuel (some t)
        have hstep : ∃ res, step T af failAt startLoc c .pull = (c1, .done res) ∧
            res ≠ .panic .outOfFuel := by
          simp only [step, nextToken, hc, hk]
          cases hu : unrecognizedError T af c1 (some t) with
          | error e =>
            refine ⟨.panic e, rfl, ?_⟩
            intro h
            cases h
            exact hne hu
          | ok pe => exact ⟨.err pe, rfl, by simp⟩
        obtain ⟨res, hstep, hr⟩ := hstep
        exact ⟨1, _, _, by rw [run_one, hstep], hr, le_units (one_unit F) (by omega)⟩
      | some i =>
        have hi : i < T.nTerm := hin t i (by rw [hc]; simp) hk
        have hin' : ∀ t k, Item.tok t ∈ rest → t.kind = some k → k < T.nTerm :=
          fun t k hm => hin t k (by rw [hc]; exact List.mem_cons_of_mem _ hm)
        have hstep : step T af failAt startLoc c .pull = (c1, .act t i) := by
          simp only [step, nextToken, hc, hk]
          rfl
        obtain ⟨n1, c2, ph2, d1, hrun1, hn1, hres1⟩ :=
          act_phase_gen (failAt := failAt) (startLoc := startLoc) hT hi t c1 hadj
            (Nat.le_trans (accFuel_mono (by show c.states.length + F ≤ _; omega)) haf)
        rw [hc1s] at hres1
        have hc1i : c1.input = rest := rfl
        rw [hc1i] at hres1
        have hrun01 := run_trans (by rw [run_one, hstep]) hrun1
        have hn01 := add_units (one_unit F) hn1
        rcases hres1 with ⟨⟨res, rfl, hr⟩, hd⟩ | ⟨rfl, hin2, hadj2, hl2⟩ |
            ⟨hrec, ⟨pe, rfl⟩, hin2, hadj2, hl2, _⟩
        · exact ⟨1 + n1, c2, res, hrun01, hr, le_units hn01 (by omega)⟩
        · obtain ⟨n2, c3, res, hrun2, hr, hn2⟩ := hP c2 (hin2 ▸ hrest) (hin2 ▸ hin') hadj2
            (Nat.le_trans (accFuel_mono (by omega)) haf)
          exact ⟨1 + n1 + n2, c3, res, run_trans hrun01 hrun2, hr,
            le_units (add_units hn01 hn2) (by omega)⟩
        · obtain ⟨n2, c3, ph3, d2, hrun2, hn2, hres2⟩ :=
            rec_phase (af := af) (failAt := failAt) (startLoc := startLoc) hT hrec c2 hadj2
              (some (t, i)) pe false
          have hrun02 := run_trans hrun01 hrun2
          have hn02 := add_units hn01 hn2
          rcases hres2 with ⟨⟨res, rfl, hr⟩, hd⟩ | ⟨⟨sl, rfl⟩, hin3, hadj3, hl3⟩
          · exact ⟨1 + n1 + n2, c3, res, hrun02, hr, le_units hn02 (by omega)⟩
          · rw [hin2] at hin3
            obtain ⟨n3, c4, res, hrun3, hr, hn3⟩ := hF hrec c3 t i pe [] sl false
              (hin3 ▸ hrest) (hin3 ▸ hin') hi hadj3 (Nat.le_trans (accFuel_mono (by omega)) haf)
            exact ⟨1 + n1 + n2 + n3, c4, res, run_trans hrun02 hrun3, hr,
              le_units (add_units hn02 hn3) (by omega)⟩

theorem find_zero (hT : TermOK T F) (hrec : T.usesRecovery = true)
    (hP : PullOK T F af failAt startLoc 0) : FindOK T F af failAt startLoc 0 := by
  intro c t i e dropped sl fe hlen hin hi hadj haf
  have hm : recM F = 3 * F + 7 := rfl
  simp only [Nat.zero_add, Nat.one_mul] at haf ⊢
  have hc : c.input = [] := List.eq_nil_of_length_eq_zero hlen
  have haf1 : accFuel F (c.states.length + 1) ≤ af := Nat.le_trans (accFuel_mono (by omega)) haf
  rcases step_find (F := F) (af := af) (failAt := failAt) (startLoc := startLoc) hT hrec c hadj
      (some (t, i)) (fun t' i' h => by cases h; exact hi) e dropped sl fe with
    ⟨c', r, hs, hr⟩ | ⟨c', hs, hadj', hlen', hin', hcert⟩ | ⟨_, _, t', i', rest, _, hinp, _⟩ |
      ⟨t0, i0, h0, _, hs⟩
  · exact ⟨1, c', r, by rw [run_one, hs], hr haf1, le_units (one_unit F) (by omega)⟩
  · obtain ⟨n, c'', res, hrun, hr, hn⟩ := after_push hT hP c' t i fe hi (hin' ▸ hlen) (hin' ▸ hin) hadj' hcert
      (by simp only [Nat.zero_add, Nat.one_mul]; exact Nat.le_trans (accFuel_mono (by omega)) haf)
    simp only [Nat.zero_add, Nat.one_mul] at hn
    exact ⟨1 + n, c'', res, run_trans (by rw [run_one, hs]) hrun, hr,
      le_units (add_units (one_unit F) hn) (by omega)⟩
  · rw [hc] at hinp; cases hinp
  · cases h0
    obtain ⟨n, c'', res, hrun, hr, hn⟩ :=
      find_none (failAt := failAt) (startLoc := startLoc) hT hrec { c with pulled := c.pulled + 1 } hadj
        (Nat.le_trans (accFuel_mono (by show c.states.length + 1 + F ≤ _; omega)) haf)
        e (dropped ++ [t]) sl fe
    exact ⟨1 + n, c'', res, run_trans (by rw [run_one, hs]) hrun, hr,
      le_units (add_units (one_unit F) hn) (by show 1 + (c.states.length + F + 3) ≤ _; omega)⟩

theorem find_succ (hT : TermOK T F) (hrec : T.usesRecovery = true) {r : Nat}
    (hP : PullOK T F af failAt startLoc (r + 1)) (hF : FindOK T F af failAt startLoc r) :
    FindOK T F af failAt startLoc (r + 1) := by
  intro c t i e dropped sl fe hlen hin hi hadj haf
  have hm : recM F = 3 * F + 7 := rfl
  have hsplit : (r + 1 + 1) * recM F = (r + 1) * recM F + recM F := by rw [Nat.add_mul, Nat.one_mul]
  have haf1 : accFuel F (c.states.length + 1) ≤ af := Nat.le_trans (accFuel_mono (by omega)) haf
  rcases step_find (F := F) (af := af) (failAt := failAt) (startLoc := startLoc) hT hrec c hadj
      (some (t, i)) (fun t' i' h => by cases h; exact hi) e dropped sl fe with
    ⟨c', res, hs, hr⟩ | ⟨c', hs, hadj', hlen', hin', hcert⟩ | ⟨t0, i0, t', i', rest, h0, hinp, hk, hs⟩ |
      ⟨_, _, _, hinp, _⟩
  · exact ⟨1, c', res, by rw [run_one, hs], hr haf1, le_units (one_unit F) (by omega)⟩
  · obtain ⟨n, c'', res, hrun, hr, hn⟩ := after_push hT hP c' t i fe hi (hin' ▸ hlen) (hin' ▸ hin) hadj' hcert
      (Nat.le_trans (accFuel_mono (by omega)) haf)
    exact ⟨1 + n, c'', res, run_trans (by rw [run_one, hs]) hrun, hr,
      le_units (add_units (one_unit F) hn) (by omega)⟩
  · cases h0
    have hrest : rest.length = r := by rw [hinp] at hlen; simpa using hlen
    have hi' : i' < T.nTerm := hin t' i' (by rw [hinp]; simp) hk
    have hin' : ∀ t k, Item.tok t ∈ rest → t.kind = some k → k < T.nTerm :=
      fun t k hm => hin t k (by rw [hinp]; exact List.mem_cons_of_mem _ hm)
    rw [hsplit] at haf ⊢
    obtain ⟨n, c'', res, hrun, hr, hn⟩ :=
      hF { c with input := rest, pulled := c.pulled + 1, lastLoc := t'.r } t' i' e (dropped ++ [t]) sl fe
        hrest hin' hi' hadj
        (Nat.le_trans (accFuel_mono (by show c.states.length + _ + F + 2 ≤ _; omega)) haf)
    exact ⟨1 + n, c'', res, run_trans (by rw [run_one, hs]) hrun, hr,
      le_units (add_units (one_unit F) hn)
        (by show 1 + (c.states.length + (r + 1) * recM F + F + 4) ≤ _; omega)⟩
  · rw [hinp] at hlen; cases hlen

/-- both statements, for every number of items left -/
theorem pull_find_ok (hT : TermOK T F) : ∀ r, PullOK T F af failAt startLoc r ∧
    (T.usesRecovery = true → FindOK T F af failAt startLoc r) := by
  intro r
  induction r with
  | zero =>
    have h := pull_zero (af := af) (failAt := failAt) (startLoc := startLoc) hT
    exact ⟨h, fun hrec => find_zero hT hrec h⟩
  | succ r ih =>
    have h := pull_succ hT ih.1 ih.2
    exact ⟨h, fun hrec => find_succ hT hrec h (ih.2 hrec)⟩

/-! ### from the initial configuration -/

/-- bound on the number of machine steps of a whole run on `len` stream items (recovery on or off) -/
def termBoundRec (F len : Nat) : Nat := (F + 1) * (1 + (len + 1) * recM F)

/-- `accepts` fuel that suffices for a whole run on `len` stream items (recovery on or off) -/
def termAccFuelRec (F len : Nat) : Nat := accFuel F (1 + (len + 1) * recM F)

theorem init_terminates_gen (hT : TermOK T F) (input : List Item)
    (hin : ∀ t k, Item.tok t ∈ input → t.kind = some k → k < T.nTerm)
    (haf : termAccFuelRec F input.length ≤ af) :
    ∃ n c r, n ≤ termBoundRec F input.length ∧
      run T af failAt startLoc n (init startLoc input) .pull = (c, .done r) ∧ r ≠ .panic .outOfFuel := by
  obtain ⟨n, c, r, hrun, hr, hn⟩ :=
    (pull_find_ok (af := af) (failAt := failAt) (startLoc := startLoc) hT input.length).1
      (init startLoc input) rfl hin .base haf
  exact ⟨n, c, r, hn, hrun, hr⟩

end LalrpopModel.LR.Term
