import LalrpopModel.Model.Dfa
namespace LalrpopModel.Dfa

/-- `c` lies in the inclusive range `r` -/
def mem (c : Nat) (r : Range) : Prop := r.1 ≤ c ∧ c ≤ r.2
def Disj (a b : Range) : Prop := ∀ c, ¬ (mem c a ∧ mem c b)
def Sub (a b : Range) : Prop := ∀ c, mem c a → mem c b

theorem intersects_iff (a b : Range) : intersects a b = true ↔ ∃ c, mem c a ∧ mem c b := by
  simp only [intersects, isEmpty, contains, mem, Bool.and_eq_true, Bool.not_eq_true',
    decide_eq_false_iff_not, Bool.or_eq_true, decide_eq_true_eq]
  constructor
  · rintro ⟨⟨h1, h2⟩, h3 | h3⟩
    · exact ⟨b.1, by omega, by omega⟩
    · exact ⟨a.1, by omega, by omega⟩
  · rintro ⟨c, h1, h2⟩
    omega

theorem not_intersects_iff (a b : Range) : intersects a b = false ↔ Disj a b := by
  rw [← Bool.not_eq_true, intersects_iff]
  simp [Disj]

theorem Disj.symm {a b : Range} (h : Disj a b) : Disj b a := fun c hc => h c ⟨hc.2, hc.1⟩
theorem Disj.of_sub {a a' b : Range} (h : Disj a b) (hs : Sub a' a) : Disj a' b :=
  fun c hc => h c ⟨hs c hc.1, hc.2⟩
theorem Sub.trans {a b c : Range} (h1 : Sub a b) (h2 : Sub b c) : Sub a c := fun x hx => h2 x (h1 x hx)
theorem Sub.refl (a : Range) : Sub a a := fun _ h => h
theorem isEmpty_disj {a : Range} (h : isEmpty a = true) (b : Range) : Disj a b := by
  intro c hc
  simp only [isEmpty, decide_eq_true_eq] at h
  have := hc.1.1; have := hc.1.2; omega

/-! ### `findFrom` -/

theorem findFromAux_some {p : Range → Bool} {v : List Range} {start i idx : Nat}
    (h : findFromAux p v start i = some idx) :
    i ≤ idx ∧ start ≤ idx ∧ idx - i < v.length ∧ (∃ r, v[idx - i]? = some r ∧ p r = true) ∧
      ∀ j r, j < idx - i → start ≤ i + j → v[j]? = some r → p r = false := by
  induction v generalizing i with
  | nil => cases h
  | cons r rs ih =>
    simp only [findFromAux] at h
    split at h
    · rename_i hc
      cases h
      simp only [Bool.and_eq_true, decide_eq_true_eq] at hc
      refine ⟨Nat.le_refl _, hc.1, by simp, ⟨r, by simp, hc.2⟩, ?_⟩
      intro j r' hj; omega
    · rename_i hc
      obtain ⟨h1, h2, h3, ⟨r', h4, h5⟩, h6⟩ := ih h
      refine ⟨by omega, h2, by simp only [List.length_cons]; omega, ⟨r', ?_, h5⟩, ?_⟩
      · have : idx - i = (idx - (i + 1)) + 1 := by omega
        rw [this, List.getElem?_cons_succ]; exact h4
      · intro j r'' hj hs hv
        cases j with
        | zero =>
          simp only [List.getElem?_cons_zero, Option.some.injEq] at hv
          subst hv
          simp only [Bool.and_eq_true, decide_eq_true_eq, not_and, Bool.not_eq_true] at hc
          exact hc (by omega)
        | succ j =>
          rw [List.getElem?_cons_succ] at hv
          exact h6 j r'' (by omega) (by omega) hv

theorem findFromAux_none {p : Range → Bool} {v : List Range} {start i : Nat}
    (h : findFromAux p v start i = none) :
    ∀ j r, start ≤ i + j → v[j]? = some r → p r = false := by
  induction v generalizing i with
  | nil => intro j r _ hv; simp at hv
  | cons r rs ih =>
    simp only [findFromAux] at h
    split at h
    · cases h
    · rename_i hc
      intro j r' hs hv
      cases j with
      | zero =>
        simp only [List.getElem?_cons_zero, Option.some.injEq] at hv
        subst hv
        simp only [Bool.and_eq_true, decide_eq_true_eq, not_and, Bool.not_eq_true] at hc
        exact hc (by omega)
      | succ j =>
        rw [List.getElem?_cons_succ] at hv
        exact ih h j r' (by omega) hv

theorem findFrom_some {p : Range → Bool} {v : List Range} {start idx : Nat}
    (h : findFrom p v start = some idx) :
    start ≤ idx ∧ idx < v.length ∧ (∃ r, v[idx]? = some r ∧ p r = true) ∧
      ∀ j r, start ≤ j → j < idx → v[j]? = some r → p r = false := by
  obtain ⟨_, h2, h3, h4, h5⟩ := findFromAux_some h
  exact ⟨h2, by simpa using h3, by simpa using h4, fun j r hs hj hv => h5 j r (by simpa using hj) (by simpa using hs) hv⟩

theorem findFrom_none {p : Range → Bool} {v : List Range} {start : Nat}
    (h : findFrom p v start = none) : ∀ j r, start ≤ j → v[j]? = some r → p r = false :=
  fun j r hs hv => findFromAux_none h j r (by simpa using hs) hv

/-! ### the pieces -/

theorem pieces_facts (range o : Range) (hi : ∃ c, mem c range ∧ mem c o) :
    let p := pieces range o
    (∀ c, (mem c p.1 ∨ mem c p.2.1 ∨ mem c p.2.2) ↔ (mem c range ∨ mem c o)) ∧
    Sub p.2.1 range ∧ Sub p.2.1 o ∧
    ((Sub p.1 range ∧ Disj p.1 o) ∨ (Sub p.1 o ∧ Disj p.1 range)) ∧
    ((Sub p.2.2 range ∧ Disj p.2.2 o) ∨ (Sub p.2.2 o ∧ Disj p.2.2 range)) ∧
    Disj p.1 p.2.1 ∧ Disj p.1 p.2.2 ∧ Disj p.2.1 p.2.2 := by
  obtain ⟨c0, ⟨h1, h2⟩, ⟨h3, h4⟩⟩ := hi
  simp only [pieces, mem, Sub, Disj]
  by_cases hz : max range.1 o.1 = 0
  · simp only [hz, if_true]
    refine ⟨fun c => ?_, fun c => ?_, fun c => ?_, ?_, ?_, fun c => ?_, fun c => ?_, fun c => ?_⟩ <;> try omega
    · left; exact ⟨fun c => by omega, fun c => by omega⟩
    · by_cases h : range.2 ≤ o.2
      · right; exact ⟨fun c => by omega, fun c => by omega⟩
      · left; exact ⟨fun c => by omega, fun c => by omega⟩
  · simp only [hz, if_false]
    refine ⟨fun c => ?_, fun c => ?_, fun c => ?_, ?_, ?_, fun c => ?_, fun c => ?_, fun c => ?_⟩ <;> try omega
    · by_cases h : range.1 ≤ o.1
      · left; exact ⟨fun c => by omega, fun c => by omega⟩
      · right; exact ⟨fun c => by omega, fun c => by omega⟩
    · by_cases h : range.2 ≤ o.2
      · right; exact ⟨fun c => by omega, fun c => by omega⟩
      · left; exact ⟨fun c => by omega, fun c => by omega⟩

end LalrpopModel.Dfa
