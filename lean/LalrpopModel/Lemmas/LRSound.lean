import LalrpopModel.Lemmas.LRSoundStep
/-!
Soundness of the model driver, part 5: the invariant along `run`, and the end results for
`Sound G T A` (which `validateSound G T A = true` implies, `sound_of_validate`).
-/
namespace LalrpopModel.LR
variable {G : Grammar} {T : Tables} {A : Automaton}

theorem run_done (af : Nat) (failAt : Option Nat) (startLoc : Int) (n : Nat) (c : Cfg) (r : Outcome) :
    run T af failAt startLoc n c (.done r) = (c, .done r) := by
  cases n <;> simp [run]

theorem run_succ (af : Nat) (failAt : Option Nat) (startLoc : Int) (n : Nat) (c : Cfg) (ph : Phase) :
    run T af failAt startLoc (n + 1) c ph =
      run T af failAt startLoc n (step T af failAt startLoc c ph).1 (step T af failAt startLoc c ph).2 := by
  cases ph <;> simp [run, step, run_done]

theorem run_inv (S : Sound G T A) {input : List Item} (af : Nat) (failAt : Option Nat) (startLoc : Int) :
    ∀ (n : Nat) (c : Cfg) (ph : Phase), Inv G T A input c ph →
      Inv G T A input (run T af failAt startLoc n c ph).1 (run T af failAt startLoc n c ph).2
  | 0, _, _, h => by simpa [run] using h
  | n + 1, c, ph, h => by
    rw [run_succ]
    exact run_inv S af failAt startLoc n _ _ (step_inv S af failAt startLoc c ph h)

theorem init_inv (startLoc : Int) {input : List Item} (hin : InRange T input) :
    Inv G T A input (init startLoc input) .pull := by
  simp only [Inv]
  refine ⟨⟨[], Path.base, TreesOK.nil⟩, hin, ⟨?_, ?_⟩, trivial⟩
  · simp [measure, init, stackYield, phaseToks]
  · intro _; simp [measure, init, stackYield, phaseToks]

/-- the invariant holds at the end of every terminating run -/
theorem returns_inv (S : Sound G T A) {failAt : Option Nat} {startLoc : Int} {input : List Item} {c : Cfg}
    {r : Outcome} (hin : InRange T input) (h : Returns T failAt startLoc input c r) :
    Inv G T A input c (.done r) := by
  obtain ⟨n, af, hrun⟩ := h
  have := run_inv S af failAt startLoc n _ _ (init_inv (G := G) (A := A) startLoc hin)
  rw [hrun] at this
  exact this

theorem errT_none (h : T.usesRecovery = false) : errT T = none := by simp [errT, h]

/-- kind of a stream item (`none` for an error item or an unmatched token) -/
def itemKind : Item → Option Term
  | .tok t => t.kind
  | .err _ => none

theorem exists_kinds {α : Type} (f : α → Option Term) : ∀ (l : List α), (∀ a ∈ l, ∃ k, f a = some k) →
    ∃ w : List Term, l.map f = w.map some
  | [], _ => ⟨[], rfl⟩
  | a :: l, h => by
    obtain ⟨k, hk⟩ := h a List.mem_cons_self
    obtain ⟨w, hw⟩ := exists_kinds f l (fun b hb => h b (List.mem_cons_of_mem _ hb))
    exact ⟨k :: w, by simp [hk, hw]⟩

section Results
variable (S : Sound G T A) {failAt : Option Nat} {startLoc : Int} {input : List Item} {c : Cfg}
include S

theorem sound_tree {v : Tree} {S0 : NT} (hin : InRange T input) (hS : G.startSym = some S0)
    (h : Returns T failAt startLoc input c (.ok v)) :
    Tree.WF G (errT T) v ∧ v.root G (errT T) = some (Sym.n S0) := by
  have := returns_inv S hin h
  simp only [Inv] at this
  exact ⟨this.1, this.2.1 S0 hS⟩

theorem sound_noErr {v : Tree} (hin : InRange T input) (hrec : T.usesRecovery = false)
    (h : Returns T failAt startLoc input c (.ok v)) : v.hasErr = false := by
  have := returns_inv S hin h
  simp only [Inv] at this
  have hw := this.1
  rw [errT_none hrec] at hw
  exact Tree.wf_none_noErr v hw

theorem sound_yield {v : Tree} (hin : InRange T input) (hrec : T.usesRecovery = false)
    (h : Returns T failAt startLoc input c (.ok v)) :
    input = v.yield.map Item.tok ∧ ∀ a ∈ v.yield, ∃ k, a.kind = some k := by
  have := returns_inv S hin h
  simp only [Inv] at this
  obtain ⟨hw, _, hemp, _, hex⟩ := this
  obtain ⟨h1, h2⟩ := hemp hrec
  have := hex hrec
  simp only [measure, h1, h2, stackYield, phaseToks, List.nil_append, List.append_nil] at this
  exact ⟨this.symm, Tree.wf_yield_kind v hw⟩

theorem sound_yield_sublist {v : Tree} (hin : InRange T input)
    (h : Returns T failAt startLoc input c (.ok v)) : v.yield.Sublist (itemToks input) := by
  have := returns_inv S hin h
  simp only [Inv] at this
  obtain ⟨_, _, _, hsub, _⟩ := this
  simp only [measure, phaseToks, itemToks_append, itemToks_map_tok] at hsub
  exact ((List.sublist_append_right _ _).trans (List.sublist_append_left _ _)).trans hsub

theorem sound_no_panic {r : Outcome} (hin : InRange T input)
    (h : Returns T failAt startLoc input c r) : ∀ tag, r = .panic tag → tag = .outOfFuel := by
  intro tag hr
  subst hr
  have := returns_inv S hin h
  simpa [Inv] using this

theorem sound_derives {v : Tree} {S0 : NT} (hin : InRange T input) (hrec : T.usesRecovery = false)
    (hS : G.startSym = some S0) (h : Returns T failAt startLoc input c (.ok v)) :
    ∃ w : List Term, input.map itemKind = w.map some ∧ Derives G S0 w := by
  obtain ⟨hw, hroot⟩ := sound_tree S hin hS h
  obtain ⟨hy, hk⟩ := sound_yield S hin hrec h
  rw [errT_none hrec] at hw hroot
  obtain ⟨w, hwk⟩ := exists_kinds (fun a : Tok => a.kind) v.yield hk
  refine ⟨w, ?_, v, hw, hroot, hwk⟩
  rw [hy, List.map_map, ← hwk]
  rfl

end Results

end LalrpopModel.LR
