import LalrpopModel.Model.TyInfer
/-! Invariants of the type-inference model (C19). Core Lean only. -/
namespace LalrpopModel.TyInfer

variable {Ty Tpl : Type} [DecidableEq Ty] (env : Env Ty Tpl) (G : Grammar Tpl)

/-- `m'` has every entry of `m` -/
def Ext (m m' : List (String × Ty)) : Prop := ∀ k v, m.lookup k = some v → m'.lookup k = some v

omit [DecidableEq Ty] in
theorem Ext.refl (m : List (String × Ty)) : Ext m m := fun _ _ h => h

omit [DecidableEq Ty] in
theorem Ext.trans {a b c : List (String × Ty)} (h1 : Ext a b) (h2 : Ext b c) : Ext a c :=
  fun k v h => h2 k v (h1 k v h)

omit [DecidableEq Ty] in
theorem lookup_cons_self (id : String) (ty : Ty) (m : List (String × Ty)) :
    ((id, ty) :: m).lookup id = some ty := by
  simp [List.lookup]

omit [DecidableEq Ty] in
theorem lookup_cons_ne (id k : String) (ty : Ty) (m : List (String × Ty)) (h : k ≠ id) :
    ((id, ty) :: m).lookup k = m.lookup k := by
  have : (k == id) = false := by simpa using h
  simp [List.lookup, this]

omit [DecidableEq Ty] in
theorem Ext.cons (id : String) (ty : Ty) (m : List (String × Ty)) (h : m.lookup id = none) :
    Ext m ((id, ty) :: m) := by
  intro k v hk
  by_cases e : k = id
  · subst e; rw [h] at hk; cases hk
  · rw [lookup_cons_ne _ _ _ _ e]; exact hk

/-- how a state may change: the memo only gains entries, the stack is restored, the ghost log of
    suppressed alternatives only grows -/
structure Grows (s s' : St Ty) : Prop where
  ext : Ext s.memo s'.memo
  stack : s'.stack = s.stack
  supp : ∃ l, s'.suppressed = l ++ s.suppressed

omit [DecidableEq Ty] in
theorem Grows.refl (s : St Ty) : Grows s s := ⟨Ext.refl _, rfl, [], rfl⟩

omit [DecidableEq Ty] in
theorem Grows.trans {a b c : St Ty} (h1 : Grows a b) (h2 : Grows b c) : Grows a c := by
  obtain ⟨l1, e1⟩ := h1.supp
  obtain ⟨l2, e2⟩ := h2.supp
  exact ⟨h1.ext.trans h2.ext, by rw [h2.stack, h1.stack], l2 ++ l1, by rw [e2, e1, List.append_assoc]⟩

omit [DecidableEq Ty] in
theorem Grows.supp_nil {a b : St Ty} (h : Grows a b) (hb : b.suppressed = []) : a.suppressed = [] := by
  obtain ⟨l, e⟩ := h.supp
  rw [hb] at e
  exact (List.append_eq_nil_iff.mp e.symm).2

/-- every typed, un-annotated nonterminal agrees with each of its alternatives that has no user
    action — and keeps agreeing however the table is extended -/
def Consistent (memo : List (String × Ty)) : Prop :=
  ∀ nt : Nt Tpl, G.find nt.name = some nt → nt.decl = none → ∀ ty, memo.lookup nt.name = some ty →
    ∀ alt ∈ nt.alts, alt.act ≠ .user → ∀ memo', Ext memo memo' → altTyP env memo' alt = .ok ty

/-- as long as nothing was suppressed, the table is consistent -/
def Inv (s : St Ty) : Prop := s.suppressed = [] → Consistent env G s.memo

/-- every key of the table is a nonterminal of the grammar -/
def KeysOK (s : St Ty) : Prop := ∀ k v, s.memo.lookup k = some v → (G.find k).isSome = true

/-- what the recursive call must satisfy -/
structure RecOK (rec : String → St Ty → Res Ty Ty) : Prop where
  grows : ∀ id s, Grows s (rec id s).2
  ok : ∀ id s t, (rec id s).1 = .ok t → (rec id s).2.memo.lookup id = some t
  inv : ∀ id s, Inv env G s → Inv env G (rec id s).2
  keys : ∀ id s, KeysOK G s → KeysOK G (rec id s).2

section Rec
variable {rec : String → St Ty → Res Ty Ty} (h : RecOK env G rec)
include h

theorem symType_grows (x : Sym) (s : St Ty) : Grows s (symType env rec x s).2 := by
  induction x with
  | term t => exact Grows.refl s
  | nt n => exact h.grows n s
  | choose x ih => exact ih
  | named x ih => exact ih
  | tupled p x ih => exact ih
  | error => exact Grows.refl s

theorem symType_inv (x : Sym) (s : St Ty) (hi : Inv env G s) : Inv env G (symType env rec x s).2 := by
  induction x with
  | term t => exact hi
  | nt n => exact h.inv n s hi
  | choose x ih => exact ih
  | named x ih => exact ih
  | tupled p x ih => exact ih
  | error => exact hi

theorem symType_keys (x : Sym) (s : St Ty) (hi : KeysOK G s) : KeysOK G (symType env rec x s).2 := by
  induction x with
  | term t => exact hi
  | nt n => exact h.keys n s hi
  | choose x ih => exact ih
  | named x ih => exact ih
  | tupled p x ih => exact ih
  | error => exact hi

theorem symType_ok (x : Sym) (s : St Ty) (t : Ty) (hr : (symType env rec x s).1 = .ok t)
    (memo' : List (String × Ty)) (he : Ext (symType env rec x s).2.memo memo') :
    symTyP env memo' x = .ok t := by
  induction x with
  | term u => simp only [symType] at hr; simp only [symTyP]; exact hr
  | nt n =>
    simp only [symType] at hr he
    simp only [symTyP]
    rw [he n t (h.ok n s t hr)]
  | choose x ih => exact ih hr he
  | named x ih => exact ih hr he
  | tupled p x ih => exact ih hr he
  | error => simp only [symType] at hr; simp only [symTyP]; exact hr

theorem symTypes_grows (xs : List Sym) (s : St Ty) : Grows s (symTypes env rec xs s).2 := by
  induction xs generalizing s with
  | nil => exact Grows.refl s
  | cons x xs ih =>
    have g1 := symType_grows env G h x s
    simp only [symTypes]
    cases h1 : symType env rec x s with
    | mk r1 s1 =>
      rw [h1] at g1
      cases r1 with
      | error e => exact g1
      | ok t =>
        have g2 := ih s1
        simp only
        cases h2 : symTypes env rec xs s1 with
        | mk r2 s2 =>
          rw [h2] at g2
          cases r2 <;> exact g1.trans g2

theorem symTypes_inv (xs : List Sym) (s : St Ty) (hi : Inv env G s) : Inv env G (symTypes env rec xs s).2 := by
  induction xs generalizing s with
  | nil => exact hi
  | cons x xs ih =>
    have g1 := symType_inv env G h x s hi
    simp only [symTypes]
    cases h1 : symType env rec x s with
    | mk r1 s1 =>
      rw [h1] at g1
      cases r1 with
      | error e => exact g1
      | ok t =>
        have g2 := ih s1 g1
        simp only
        cases h2 : symTypes env rec xs s1 with
        | mk r2 s2 =>
          rw [h2] at g2
          cases r2 <;> exact g2

theorem symTypes_keys (xs : List Sym) (s : St Ty) (hi : KeysOK G s) : KeysOK G (symTypes env rec xs s).2 := by
  induction xs generalizing s with
  | nil => exact hi
  | cons x xs ih =>
    have g1 := symType_keys env G h x s hi
    simp only [symTypes]
    cases h1 : symType env rec x s with
    | mk r1 s1 =>
      rw [h1] at g1
      cases r1 with
      | error e => exact g1
      | ok t =>
        have g2 := ih s1 g1
        simp only
        cases h2 : symTypes env rec xs s1 with
        | mk r2 s2 =>
          rw [h2] at g2
          cases r2 <;> exact g2

theorem symTypes_ok (xs : List Sym) (s : St Ty) (ts : List Ty) (hr : (symTypes env rec xs s).1 = .ok ts)
    (memo' : List (String × Ty)) (he : Ext (symTypes env rec xs s).2.memo memo') :
    symTysP env memo' xs = .ok ts := by
  induction xs generalizing s ts with
  | nil => simp only [symTypes] at hr; simp only [symTysP]; exact hr
  | cons x xs ih =>
    simp only [symTypes] at hr he
    cases h1 : symType env rec x s with
    | mk r1 s1 =>
      rw [h1] at hr he
      cases r1 with
      | error e => simp at hr
      | ok t =>
        simp only at hr he
        have g2 := symTypes_grows env G h xs s1
        cases h2 : symTypes env rec xs s1 with
        | mk r2 s2 =>
          rw [h2] at hr he g2
          cases r2 with
          | error e => simp at hr
          | ok ts2 =>
            simp only at hr he
            have hx : symTyP env memo' x = .ok t := by
              apply symType_ok env G h x s t (by rw [h1]) memo'
              rw [h1]; exact g2.ext.trans he
            have hxs : symTysP env memo' xs = .ok ts2 := ih s1 ts2 (by rw [h2]) (by rw [h2]; exact he)
            simp only [symTysP, hx, hxs]
            exact hr

theorem altType_grows (alt : Alt) (s : St Ty) : Grows s (altType env rec alt s).2 := by
  unfold altType
  split
  · exact Grows.refl s
  · split <;> exact Grows.refl s
  · split <;> exact Grows.refl s
  · split
    · exact Grows.refl s
    · rename_i syms _
      have g := symTypes_grows env G h syms s
      cases h1 : symTypes env rec syms s with
      | mk r1 s1 => rw [h1] at g; cases r1 <;> exact g

theorem altType_inv (alt : Alt) (s : St Ty) (hi : Inv env G s) : Inv env G (altType env rec alt s).2 := by
  unfold altType
  split
  · exact hi
  · split <;> exact hi
  · split <;> exact hi
  · split
    · exact hi
    · rename_i syms _
      have g := symTypes_inv env G h syms s hi
      cases h1 : symTypes env rec syms s with
      | mk r1 s1 => rw [h1] at g; cases r1 <;> exact g

theorem altType_keys (alt : Alt) (s : St Ty) (hi : KeysOK G s) : KeysOK G (altType env rec alt s).2 := by
  unfold altType
  split
  · exact hi
  · split <;> exact hi
  · split <;> exact hi
  · split
    · exact hi
    · rename_i syms _
      have g := symTypes_keys env G h syms s hi
      cases h1 : symTypes env rec syms s with
      | mk r1 s1 => rw [h1] at g; cases r1 <;> exact g

theorem altType_ok (alt : Alt) (s : St Ty) (t : Ty) (hr : (altType env rec alt s).1 = .ok t)
    (memo' : List (String × Ty)) (he : Ext (altType env rec alt s).2.memo memo') :
    altTyP env memo' alt = .ok t := by
  unfold altType at hr he
  unfold altTyP
  cases hact : alt.act with
  | user => rw [hact] at hr; simp at hr
  | lookahead =>
    rw [hact] at hr; simp only at hr ⊢
    cases hl : env.locTy with
    | none => rw [hl] at hr; simp at hr
    | some t' => rw [hl] at hr; simpa using hr
  | lookbehind =>
    rw [hact] at hr; simp only at hr ⊢
    cases hl : env.locTy with
    | none => rw [hl] at hr; simp at hr
    | some t' => rw [hl] at hr; simpa using hr
  | default =>
    rw [hact] at hr he; simp only at hr he ⊢
    cases hs : analyzeExpr alt.syms with
    | named => rw [hs] at hr; simp at hr
    | anon syms =>
      rw [hs] at hr he; simp only at hr he ⊢
      cases h1 : symTypes env rec syms s with
      | mk r1 s1 =>
        rw [h1] at hr he
        cases r1 with
        | error e => simp at hr
        | ok ts =>
          simp only at hr he
          rw [symTypes_ok env G h syms s ts (by rw [h1]) memo' (by rw [h1]; exact he)]
          simpa using hr

end Rec

end LalrpopModel.TyInfer
