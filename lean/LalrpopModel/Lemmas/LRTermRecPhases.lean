import LalrpopModel.Lemmas.LRTermRec
/-!
C08 termination, part 5: the reduce loops with error recovery ON or OFF, and the statements
`PullOK` / `FindOK` proved in `Lemmas/LRTermRecMain.lean`.

Accounting in units of `F + 1` machine steps: a reduce loop that frees `d` stack levels costs at
most `d + 1` units and may add `F` levels; a single step costs at most one unit. Per stream item
there are at most three loops (the parse loop that detects the error, the reduce loop of
`error_recovery`, the parse loop after the push — which, being certified by `accepts`, shifts the
lookahead or ends the run) and a few single steps: `recM F = 3·F + 7` units per item.

`PullOK r` / `FindOK r`: the run ends from every `.pull` / `.recFind (some _)` configuration with
`r` items left in the stream; proved together by induction on `r` (`pull_find_ok`).
-/
namespace LalrpopModel.LR.Term
open LalrpopModel.LR LalrpopModel.LR.Generic

variable {T : Tables} {F af : Nat} {failAt : Option Nat} {startLoc : Int}

/-! ### units -/

theorem le_units {K n X Y : Nat} (h : n ≤ K * X) (hxy : X ≤ Y) : n ≤ K * Y :=
  Nat.le_trans h (Nat.mul_le_mul_left _ hxy)

theorem add_units {K n₁ n₂ X₁ X₂ : Nat} (h₁ : n₁ ≤ K * X₁) (h₂ : n₂ ≤ K * X₂) :
    n₁ + n₂ ≤ K * (X₁ + X₂) := by
  rw [Nat.mul_add]; omega

theorem one_unit (F : Nat) : 1 ≤ (F + 1) * 1 := by omega

theorem run_trans {n₁ n₂ : Nat} {c c₁ c₂ : Cfg} {ph ph₁ ph₂ : Phase}
    (h₁ : run T af failAt startLoc n₁ c ph = (c₁, ph₁))
    (h₂ : run T af failAt startLoc n₂ c₁ ph₁ = (c₂, ph₂)) :
    run T af failAt startLoc (n₁ + n₂) c ph = (c₂, ph₂) := by
  rw [run_add, h₁]; exact h₂

theorem phase_units {n N d : Nat} (hn : n ≤ N + 1) (hN : N ≤ (F + 1) * d + F) :
    n ≤ (F + 1) * (d + 1) := by
  rw [Nat.mul_succ]; omega

/-! ### the three reduce loops -/

/-- the phase `.act tok idx`: ends the run, or shifts, or (recovery on) enters `.recReduce` — and
    then the stack it started from was not certified by `accepts` for this lookahead -/
theorem act_phase_gen (hT : TermOK T F) {idx : Term} (hidx : idx < T.nTerm)
    (tok : Tok) (c : Cfg) (hadj : Adj T c.states) (haf : accFuel F (c.states.length + F) ≤ af) :
    ∃ n c' ph' d, run T af failAt startLoc n c (.act tok idx) = (c', ph') ∧ n ≤ (F + 1) * (d + 1) ∧
      (((∃ r, ph' = .done r ∧ r ≠ .panic .outOfFuel) ∧ d ≤ c.states.length + F) ∨
       (ph' = .pull ∧ c'.input = c.input ∧ Adj T c'.states ∧
          c'.states.length + d ≤ c.states.length + (F + 1)) ∨
       (T.usesRecovery = true ∧ (∃ pe, ph' = .recReduce (some (tok, idx)) pe false) ∧
          c'.input = c.input ∧ Adj T c'.states ∧ c'.states.length + d ≤ c.states.length + F ∧
          ∀ af0, accepts T af0 c.states (some idx) ≠ .ok true)) := by
  obtain ⟨N, fin, d, hit, hh, hN, hd⟩ :=
    phase_term hT (la := some idx) hidx c.states.length c.states (Nat.le_refl _) hadj
  have hadjf : Adj T fin := hadj.iter hT hit
  obtain ⟨n, c', ph', hn, hrun, hres⟩ :=
    act_follow (af := af) (failAt := failAt) (startLoc := startLoc) hit hh tok c rfl
  have hu := phase_units hn hN
  rcases hres with ⟨r, rfl, hr⟩ | ⟨rfl, hin, t, top, rest, a, hfin, ha, hsh, hst⟩ | ⟨cH, hcs, hcin, he, hfalse⟩
  · exact ⟨n, c', _, d, hrun, hu, .inl ⟨⟨r, rfl, hr⟩, by omega⟩⟩
  · refine ⟨n, c', _, d, hrun, hu, .inr (.inl ⟨rfl, hin, ?_, ?_⟩)⟩
    · rw [hst, hfin]
      exact .cons (.inr ⟨idx, a, hidx, ha, hsh⟩) (hfin ▸ hadjf)
    · rw [hst, List.length_cons]
      omega
  · have hfuel : accFuel F cH.states.length ≤ af := by
      refine Nat.le_trans (accFuel_mono ?_) haf
      rw [hcs]; omega
    rcases enterRecovery_cases hT (hcs ▸ hadjf) hfuel (some (tok, idx)) false with
      ⟨r, her, hr⟩ | ⟨hrec, pe, her⟩
    · rw [her] at he
      cases he
      exact ⟨n, _, _, d, hrun, hu, .inl ⟨⟨r, rfl, hr⟩, by omega⟩⟩
    · rw [her] at he
      cases he
      refine ⟨n, _, _, d, hrun, hu, .inr (.inr ⟨hrec, ⟨pe, rfl⟩, hcin, hcs ▸ hadjf, ?_, cert_not_false hit hfalse⟩)⟩
      rw [hcs]; omega

/-- the phase `.eof` -/
theorem eof_phase_gen (hT : TermOK T F) (c : Cfg) (hadj : Adj T c.states)
    (haf : accFuel F (c.states.length + F) ≤ af) :
    ∃ n c' ph' d, run T af failAt startLoc n c .eof = (c', ph') ∧ n ≤ (F + 1) * (d + 1) ∧
      (((∃ r, ph' = .done r ∧ r ≠ .panic .outOfFuel) ∧ d ≤ c.states.length + F) ∨
       (T.usesRecovery = true ∧ (∃ pe, ph' = .recReduce none pe true) ∧
          c'.input = c.input ∧ Adj T c'.states ∧ c'.states.length + d ≤ c.states.length + F ∧
          ∀ af0, accepts T af0 c.states none ≠ .ok true)) := by
  obtain ⟨N, fin, d, hit, hh, hN, hd⟩ :=
    phase_term hT (la := none) trivial c.states.length c.states (Nat.le_refl _) hadj
  have hadjf : Adj T fin := hadj.iter hT hit
  obtain ⟨n, c', ph', hn, hrun, hres⟩ :=
    eof_follow (af := af) (failAt := failAt) (startLoc := startLoc) hit hh c rfl
  have hu := phase_units hn hN
  rcases hres with ⟨r, rfl, hr⟩ | ⟨cH, hcs, hcin, he, hfalse⟩
  · exact ⟨n, c', _, d, hrun, hu, .inl ⟨⟨r, rfl, hr⟩, by omega⟩⟩
  · have hfuel : accFuel F cH.states.length ≤ af := by
      refine Nat.le_trans (accFuel_mono ?_) haf
      rw [hcs]; omega
    rcases enterRecovery_cases hT (hcs ▸ hadjf) hfuel none true with ⟨r, her, hr⟩ | ⟨hrec, pe, her⟩
    · rw [her] at he
      cases he
      exact ⟨n, _, _, d, hrun, hu, .inl ⟨⟨r, rfl, hr⟩, by omega⟩⟩
    · rw [her] at he
      cases he
      refine ⟨n, _, _, d, hrun, hu, .inr ⟨hrec, ⟨pe, rfl⟩, hcin, hcs ▸ hadjf, ?_,
        cert_not_false hit (hfalse hT.eof_le)⟩⟩
      rw [hcs]; omega

/-- the phase `.recReduce` -/
theorem rec_phase (hT : TermOK T F) (hrec : T.usesRecovery = true) (c : Cfg) (hadj : Adj T c.states)
    (la : Option (Tok × Term)) (e : PErr) (fe : Bool) :
    ∃ n c' ph' d, run T af failAt startLoc n c (.recReduce la e fe) = (c', ph') ∧
      n ≤ (F + 1) * (d + 1) ∧
      (((∃ r, ph' = .done r ∧ r ≠ .panic .outOfFuel) ∧ d ≤ c.states.length + F) ∨
       ((∃ sl, ph' = .recFind la e [] sl fe) ∧ c'.input = c.input ∧ Adj T c'.states ∧
          c'.states.length + d ≤ c.states.length + F)) := by
  obtain ⟨N, fin, d, hit, hh, hN, hd⟩ :=
    phase_term hT (errLA_ok hT hrec) c.states.length c.states (Nat.le_refl _) hadj
  have hadjf : Adj T fin := hadj.iter hT hit
  obtain ⟨n, c', ph', hn, hrun, hres⟩ :=
    rec_follow (af := af) (failAt := failAt) (startLoc := startLoc) hit hh la e fe c rfl
  have hu := phase_units hn hN
  rcases hres with ⟨r, rfl, hr⟩ | ⟨rfl, hcs, hcin⟩
  · exact ⟨n, c', _, d, hrun, hu, .inl ⟨⟨r, rfl, hr⟩, by omega⟩⟩
  · refine ⟨n, c', _, d, hrun, hu, .inr ⟨⟨_, rfl⟩, hcin, hcs ▸ hadjf, ?_⟩⟩
    rw [hcs]; omega

/-! ### `'find_state` at the end of input -/

theorem find_none (hT : TermOK T F) (hrec : T.usesRecovery = true) (c : Cfg) (hadj : Adj T c.states)
    (haf : accFuel F (c.states.length + 1 + F) ≤ af) (e : PErr) (dropped : List Tok) (sl : Nat) (fe : Bool) :
    ∃ n c' res, run T af failAt startLoc n c (.recFind none e dropped sl fe) = (c', .done res) ∧
      res ≠ .panic .outOfFuel ∧ n ≤ (F + 1) * (c.states.length + F + 3) := by
  have haf1 : accFuel F (c.states.length + 1) ≤ af := Nat.le_trans (accFuel_mono (by omega)) haf
  rcases step_find (F := F) (af := af) (failAt := failAt) (startLoc := startLoc) hT hrec c hadj none
      (fun t i h => by cases h) e dropped sl fe with
    ⟨c', r, hs, hr⟩ | ⟨c', hs, hadj', hlen', _, hcert⟩ | ⟨t, i, _, _, _, h, _⟩ | ⟨t, i, h, _⟩
  · exact ⟨1, c', r, by rw [run_one, hs], hr haf1, le_units (one_unit F) (by omega)⟩
  · have haf' : accFuel F (c'.states.length + F) ≤ af := Nat.le_trans (accFuel_mono (by omega)) haf
    obtain ⟨n, c'', ph'', d, hrun, hn, hres⟩ :=
      eof_phase_gen (failAt := failAt) (startLoc := startLoc) hT c' hadj' haf'
    rcases hres with ⟨⟨r, rfl, hr⟩, hd⟩ | ⟨_, _, _, _, _, hno⟩
    · refine ⟨1 + n, c'', r, run_trans (by rw [run_one, hs]; rfl) hrun, hr, ?_⟩
      exact le_units (add_units (one_unit F) hn) (by omega)
    · exact (hno af hcert).elim
  · cases h
  · cases h

/-! ### the induction on the rest of the stream -/

/-- units charged to one stream item -/
def recM (F : Nat) : Nat := 3 * F + 7

/-- every `.pull` configuration with `r` items left ends the run -/
def PullOK (T : Tables) (F af : Nat) (failAt : Option Nat) (startLoc : Int) (r : Nat) : Prop :=
  ∀ c : Cfg, c.input.length = r → (∀ t k, Item.tok t ∈ c.input → t.kind = some k → k < T.nTerm) →
    Adj T c.states → accFuel F (c.states.length + (r + 1) * recM F) ≤ af →
    ∃ n c' res, run T af failAt startLoc n c .pull = (c', .done res) ∧ res ≠ .panic .outOfFuel ∧
      n ≤ (F + 1) * (c.states.length + (r + 1) * recM F)

/-- every `.recFind (some _)` configuration with `r` items left ends the run -/
def FindOK (T : Tables) (F af : Nat) (failAt : Option Nat) (startLoc : Int) (r : Nat) : Prop :=
  ∀ (c : Cfg) (t : Tok) (i : Term) (e : PErr) (dropped : List Tok) (sl : Nat) (fe : Bool),
    c.input.length = r → (∀ t k, Item.tok t ∈ c.input → t.kind = some k → k < T.nTerm) →
    i < T.nTerm → Adj T c.states →
    accFuel F (c.states.length + (r + 1) * recM F + F + 2) ≤ af →
    ∃ n c' res, run T af failAt startLoc n c (.recFind (some (t, i)) e dropped sl fe) = (c', .done res) ∧
      res ≠ .panic .outOfFuel ∧ n ≤ (F + 1) * (c.states.length + (r + 1) * recM F + F + 4)

/-- after the push: the certified parse loop, then the rest of the stream -/
theorem after_push (hT : TermOK T F) {r : Nat} (hP : PullOK T F af failAt startLoc r) (c : Cfg)
    (t : Tok) (i : Term) (fe : Bool) (hi : i < T.nTerm) (hlen : c.input.length = r)
    (hin : ∀ t k, Item.tok t ∈ c.input → t.kind = some k → k < T.nTerm) (hadj : Adj T c.states)
    (hcert : accepts T af c.states (some i) = .ok true)
    (haf : accFuel F (c.states.length + (r + 1) * recM F + F + 1) ≤ af) :
    ∃ n c' res, run T af failAt startLoc n c (afterPh (some (t, i)) fe) = (c', .done res) ∧
      res ≠ .panic .outOfFuel ∧ n ≤ (F + 1) * (c.states.length + (r + 1) * recM F + F + 2) := by
  cases fe with
  | true => exact ⟨0, c, _, rfl, by simp, Nat.zero_le _⟩
  | false =>
    show ∃ n c' res, run T af failAt startLoc n c (.act t i) = (c', .done res) ∧ _
    have haf1 : accFuel F (c.states.length + F) ≤ af := Nat.le_trans (accFuel_mono (by omega)) haf
    obtain ⟨n, c', ph', d, hrun, hn, hres⟩ :=
      act_phase_gen (failAt := failAt) (startLoc := startLoc) hT hi t c hadj haf1
    rcases hres with ⟨⟨res, rfl, hr⟩, hd⟩ | ⟨rfl, hin', hadj', hl'⟩ | ⟨_, _, _, _, _, hno⟩
    · exact ⟨n, c', res, hrun, hr, le_units hn (by omega)⟩
    · have haf2 : accFuel F (c'.states.length + (r + 1) * recM F) ≤ af :=
        Nat.le_trans (accFuel_mono (by omega)) haf
      obtain ⟨n2, c'', res, hrun2, hr, hn2⟩ := hP c' (hin' ▸ hlen) (hin' ▸ hin) hadj' haf2
      exact ⟨n + n2, c'', res, run_trans hrun hrun2, hr, le_units (add_units hn hn2) (by omega)⟩
    · exact (hno af hcert).elim

end LalrpopModel.LR.Term
