import LalrpopModel.Lemmas.LRCompleteRun
/-!
LR completeness, part 3: the semantic content of `validateComplete G T A ann = true`
(`Valid G T ann`): the LR(1) annotation `ann.items` is closed under closure (with the checked
first/nullable tables), shift and goto over the *tables*, complete items have their reduce entry,
the start item sits in state 0, and the production tables agree with the grammar.
-/
namespace LalrpopModel.LR

section
variable {G : Grammar} {T : Tables} {A : Automaton} {ann : Ann}

theorem checkItems_item (h : checkItems G T A ann = true) {s p d : Nat} {la : LA}
    (hit : (p, d, la) ∈ itemsOf ann s) :
    (match G.prods[p]? with
      | none => false
      | some pr =>
        match pr.rhs[d]? with
        | some (Sym.t a) =>
          (match T.actionAt s a with
           | some act => decide (act > 0) && (itemsOf ann (act - 1).toNat).contains (p, d + 1, la)
           | none => false)
        | some (Sym.n B) =>
          (itemsOf ann (T.gotoAt s B)).contains (p, d + 1, la) &&
          (A.gotoOf s B).isSome &&
          (List.range G.prods.length).all (fun q =>
            match G.prods[q]? with
            | some qr =>
              if qr.lhs == B then
                (ann.firstSeq (pr.rhs.drop (d + 1)) la).all (fun b => (itemsOf ann s).contains (q, 0, b))
              else true
            | none => false)
        | none =>
          d == pr.rhs.length && actionFor T s la == some (-((p : Int) + 1)) &&
          decide (p == G.startProd → la == none)) = true := by
  have hs : s < A.states.length := by
    simp only [checkItems, Bool.and_eq_true, beq_iff_eq] at h
    rw [← h.1.1]
    unfold itemsOf at hit
    by_cases hlt : s < ann.items.length
    · exact hlt
    · simp [List.getD, List.getElem?_eq_none (Nat.le_of_not_lt hlt)] at hit
  simp only [checkItems, Bool.and_eq_true, List.all_eq_true, List.mem_range] at h
  exact h.2 s hs (p, d, la) hit

end

/-- what the completeness proof uses of `validateComplete … = true` -/
structure Valid (G : Grammar) (T : Tables) (ann : Ann) : Prop where
  first : checkFirst G ann = true
  start_item : (G.startProd, 0, none) ∈ itemsOf ann 0
  start_prod : ∃ sp S, G.prods[G.startProd]? = some sp ∧ sp.rhs = [Sym.n S]
  start_fresh : ∀ sp, G.prods[G.startProd]? = some sp →
    ∀ (p : Nat) (pr : Production) (d : Nat), G.prods[p]? = some pr → pr.rhs[d]? ≠ some (Sym.n sp.lhs)
  isStart : ∀ (p : Nat) (pr : Production), G.prods[p]? = some pr → T.isStart[p]? = some (p == G.startProd)
  prodLen : ∀ (p : Nat) (pr : Production), G.prods[p]? = some pr → T.prodLen[p]? = some pr.rhs.length
  prodLhs : ∀ (p : Nat) (pr : Production), G.prods[p]? = some pr → p ≠ G.startProd → T.prodLhs[p]? = some pr.lhs
  prodLhs_some : ∀ (p : Nat) (pr : Production), G.prods[p]? = some pr → ∃ B, T.prodLhs[p]? = some B
  fallible : ∀ (p : Nat) (pr : Production), G.prods[p]? = some pr → ∃ b, T.fallible[p]? = some b
  item_prod : ∀ s p d la, (p, d, la) ∈ itemsOf ann s → ∃ pr, G.prods[p]? = some pr
  shift : ∀ s p d la pr a, (p, d, la) ∈ itemsOf ann s → G.prods[p]? = some pr →
    pr.rhs[d]? = some (Sym.t a) →
    ∃ act, T.actionAt s a = some act ∧ act > 0 ∧ (p, d + 1, la) ∈ itemsOf ann (act - 1).toNat
  goto : ∀ s p d la pr B, (p, d, la) ∈ itemsOf ann s → G.prods[p]? = some pr →
    pr.rhs[d]? = some (Sym.n B) → (p, d + 1, la) ∈ itemsOf ann (T.gotoAt s B)
  closure : ∀ s p d la pr B, (p, d, la) ∈ itemsOf ann s → G.prods[p]? = some pr →
    pr.rhs[d]? = some (Sym.n B) → ∀ q qr, G.prods[q]? = some qr → qr.lhs = B →
    ∀ b, b ∈ ann.firstSeq (pr.rhs.drop (d + 1)) la → (q, 0, b) ∈ itemsOf ann s
  reduce : ∀ s p d la pr, (p, d, la) ∈ itemsOf ann s → G.prods[p]? = some pr → pr.rhs[d]? = none →
    d = pr.rhs.length ∧ actionFor T s la = some (-((p : Int) + 1)) ∧ (p = G.startProd → la = none)

section
variable {G : Grammar} {T : Tables} {A : Automaton} {ann : Ann}

theorem getElem?_lt {α} {l : List α} {i : Nat} {a : α} (h : l[i]? = some a) : i < l.length :=
  (List.getElem?_eq_some_iff.mp h).1

/-- the facts of `checkShape` used here (robust against reordering of its clauses) -/
theorem checkShape_facts (h : checkShape G T A = true) :
    T.prodLen = G.prods.map (·.rhs.length) ∧ T.prodLhs.length = G.prods.length ∧
    T.isStart.length = G.prods.length ∧ T.fallible.length = G.prods.length ∧
    (∀ p, p < G.prods.length →
      (T.isStart.getD p false || T.prodLhs[p]? == (G.prods[p]?).map (·.lhs)) = true) := by
  simp only [checkShape, Bool.and_eq_true, beq_iff_eq, List.all_eq_true, List.mem_range] at h
  refine ⟨?_, ?_, ?_, ?_, ?_⟩ <;> grind

theorem valid_of_validateComplete (h : validateComplete G T A ann = true) : Valid G T ann := by
  simp only [validateComplete, Bool.and_eq_true] at h
  obtain ⟨⟨⟨hShape, hStart⟩, hFirst⟩, hItems⟩ := h
  -- start production
  have hSt : ∃ sp S, G.prods[G.startProd]? = some sp ∧ sp.rhs = [Sym.n S] ∧
      (∀ pr ∈ G.prods, Sym.n sp.lhs ∉ pr.rhs) ∧
      (∀ p pr, G.prods[p]? = some pr → T.isStart.getD p false = (p == G.startProd) ∧
        ((pr.lhs == sp.lhs) = (p == G.startProd))) := by
    unfold checkStart at hStart
    cases hsp : G.prods[G.startProd]? with
    | none => simp [hsp] at hStart
    | some sp =>
      simp only [hsp, Bool.and_eq_true, List.all_eq_true, List.mem_range] at hStart
      obtain ⟨⟨h1, h2⟩, h3⟩ := hStart
      have hrhs : ∃ S, sp.rhs = [Sym.n S] := by
        revert h1
        cases sp.rhs with
        | nil => simp
        | cons X r =>
          cases X with
          | t a => simp
          | n S =>
            cases r with
            | nil => intro _; exact ⟨S, rfl⟩
            | cons _ _ => simp
      obtain ⟨S, hS⟩ := hrhs
      refine ⟨sp, S, rfl, hS, ?_, ?_⟩
      · intro pr hpr
        have := h2 pr hpr
        simpa using this
      · intro p pr hp
        have := h3 p (getElem?_lt hp)
        simp only [hp, Bool.and_eq_true, beq_iff_eq] at this
        exact this
  obtain ⟨sp, S, hsp, hS, hfresh, hst⟩ := hSt
  -- shape
  obtain ⟨hPL, hLhsLen, hISLen, hFalLen, hLhs⟩ := checkShape_facts hShape
  have hIS : ∀ p pr, G.prods[p]? = some pr → T.isStart[p]? = some (p == G.startProd) := by
    intro p pr hp
    have hlt : p < T.isStart.length := by rw [hISLen]; exact getElem?_lt hp
    have := (hst p pr hp).1
    rw [List.getD_eq_getElem?_getD, List.getElem?_eq_getElem hlt] at this
    simp at this
    rw [List.getElem?_eq_getElem hlt, this]
  refine
    { first := hFirst
      start_item := ?_
      start_prod := ⟨sp, S, hsp, hS⟩
      start_fresh := ?_
      isStart := hIS
      prodLen := ?_
      prodLhs := ?_
      prodLhs_some := ?_
      fallible := ?_
      item_prod := ?_
      shift := ?_
      goto := ?_
      closure := ?_
      reduce := ?_ }
  · simp only [checkItems, Bool.and_eq_true] at hItems
    simpa using hItems.1.2
  · intro sp' hsp' p pr d hp hd
    rw [hsp] at hsp'; cases hsp'
    exact hfresh pr (List.mem_of_getElem? hp) (List.mem_of_getElem? hd)
  · intro p pr hp
    rw [hPL]; simp [hp]
  · intro p pr hp hne
    have := hLhs p (getElem?_lt hp)
    have his := hIS p pr hp
    have hlt : p < T.isStart.length := by rw [hISLen]; exact getElem?_lt hp
    rw [List.getD_eq_getElem?_getD, his] at this
    simpa [hne, hp] using this
  · intro p pr hp
    have hlt : p < T.prodLhs.length := by rw [hLhsLen]; exact getElem?_lt hp
    exact ⟨_, List.getElem?_eq_getElem hlt⟩
  · intro p pr hp
    have hlt : p < T.fallible.length := by rw [hFalLen]; exact getElem?_lt hp
    exact ⟨_, List.getElem?_eq_getElem hlt⟩
  · intro s p d la hit
    have := checkItems_item hItems hit
    cases hp : G.prods[p]? with
    | none => simp [hp] at this
    | some pr => exact ⟨pr, rfl⟩
  · intro s p d la pr a hit hp hd
    have := checkItems_item hItems hit
    simp only [hp, hd] at this
    cases hact : T.actionAt s a with
    | none => simp [hact] at this
    | some act =>
      simp only [hact, Bool.and_eq_true, decide_eq_true_eq, List.contains_iff_mem] at this
      exact ⟨act, rfl, this.1, this.2⟩
  · intro s p d la pr B hit hp hd
    have := checkItems_item hItems hit
    simp only [hp, hd, Bool.and_eq_true, List.contains_iff_mem] at this
    exact this.1.1
  · intro s p d la pr B hit hp hd q qr hq hB b hb
    have := checkItems_item hItems hit
    simp only [hp, hd, Bool.and_eq_true, List.all_eq_true, List.mem_range] at this
    have h2 := this.2 q (getElem?_lt hq)
    simp only [hq, hB, beq_self_eq_true, if_true, List.all_eq_true, List.contains_iff_mem] at h2
    exact h2 b hb
  · intro s p d la pr hit hp hd
    have := checkItems_item hItems hit
    simp only [hp, hd, Bool.and_eq_true, beq_iff_eq, decide_eq_true_eq] at this
    exact ⟨this.1.1, this.1.2, this.2⟩

end
end LalrpopModel.LR
