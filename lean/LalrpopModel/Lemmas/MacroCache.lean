import LalrpopModel.Model.Macro
/-!
The worklist of `MacroExpander::expand` with its cache of keys: what the output contains
(for any key function), used by Props/C13 `cached_expand_eq_subst`.
-/
set_option linter.unusedSectionVars false

namespace LalrpopModel.Macro

variable (key : KeyFn) (re : String → String → Option Bool) (defs : List NtData)

/-- rewriting the alternatives of a generated definition -/
def rewriteNt (d : NtData) : Option (NtData × List Sym) :=
  match rewriteAlts key d.alts with
  | some (alts', c) => some ({ d with alts := alts' }, c)
  | none => none

/-- one generated nonterminal: the symbol it stands for, its definition by substitution
    (`expandOne`), the definition after its own uses were rewritten (what ends up in the grammar)
    and the candidates found in it -/
structure Gen where
  sym : Sym
  defn : NtData
  defn' : NtData
  cands : List Sym

def Gen.ok (g : Gen) : Prop :=
  expandOne key re defs g.sym = .ok g.defn ∧ rewriteNt key g.defn = some (g.defn', g.cands)

/-! ### `pushAll` -/

theorem push1_set_stack (S : List String) (st : State) (t : Sym)
    (h : st.expansionSet = st.expansionStack.map key ++ S) :
    (push1 key st t).expansionSet = (push1 key st t).expansionStack.map key ++ S := by
  unfold push1
  simp only []
  split
  · exact h
  · simp [h]

theorem pushAll_inv (S : List String) (cands : List Sym) (st : State)
    (h1 : st.expansionSet = st.expansionStack.map key ++ S)
    (h2 : (st.expansionStack.map key).Nodup)
    (h3 : ∀ t ∈ st.expansionStack, key t ∉ S) :
    let st' := pushAll key st cands
    st'.expansionSet = st'.expansionStack.map key ++ S ∧
    (st'.expansionStack.map key).Nodup ∧
    (∀ t ∈ st'.expansionStack, key t ∉ S) ∧
    (∀ t ∈ st'.expansionStack, t ∈ st.expansionStack ∨ t ∈ cands) ∧
    (∀ k ∈ st.expansionSet, k ∈ st'.expansionSet) ∧
    (∀ t ∈ cands, key t ∈ st'.expansionSet) := by
  induction cands generalizing st with
  | nil => exact ⟨h1, h2, h3, fun t h => .inl h, fun _ h => h, by simp⟩
  | cons c cs ih =>
    simp only [pushAll, List.foldl_cons]
    have hs1 := push1_set_stack key S st c h1
    have key_in : key c ∈ (push1 key st c).expansionSet := by
      unfold push1; simp only []
      split
      · rename_i h; simpa using h
      · simp
    have mono : ∀ k ∈ st.expansionSet, k ∈ (push1 key st c).expansionSet := by
      intro k hk; unfold push1; simp only []
      split
      · exact hk
      · simp [hk]
    have hs2 : ((push1 key st c).expansionStack.map key).Nodup := by
      unfold push1; simp only []
      split
      · exact h2
      · rename_i hn
        simp only [List.map_cons, List.nodup_cons]
        refine ⟨fun hm => hn ?_, h2⟩
        rw [h1]; simp; exact .inl (by simpa using hm)
    have hs3 : ∀ t ∈ (push1 key st c).expansionStack, key t ∉ S := by
      unfold push1; simp only []
      split
      · exact h3
      · rename_i hn
        intro t ht
        rcases List.mem_cons.mp ht with rfl | ht
        · intro hS; apply hn; rw [h1]; simp; exact .inr hS
        · exact h3 t ht
    have hs4 : ∀ t ∈ (push1 key st c).expansionStack, t ∈ st.expansionStack ∨ t = c := by
      unfold push1; simp only []
      split
      · exact fun t h => .inl h
      · intro t ht
        rcases List.mem_cons.mp ht with rfl | ht
        · exact .inr rfl
        · exact .inl ht
    obtain ⟨a1, a2, a3, a4, a5, a6⟩ := ih (push1 key st c) hs1 hs2 hs3
    refine ⟨a1, a2, a3, ?_, fun k hk => a5 k (mono k hk), ?_⟩
    · intro t ht
      rcases a4 t ht with h | h
      · rcases hs4 t h with h | h
        · exact .inl h
        · exact .inr (h ▸ List.mem_cons_self ..)
      · exact .inr (List.mem_cons_of_mem _ h)
    · intro t ht
      rcases List.mem_cons.mp ht with rfl | ht
      · exact a5 _ key_in
      · exact a6 t ht

/-! ### `drain` followed by the rewriting of the drained definitions in the next round -/

theorem drain_rewrite (stack : List Sym) (items items' : List Item) (c : List Sym)
    (h : drain key re defs stack = .ok items) (hr : rewriteItems key items = some (items', c)) :
    ∃ K : List Gen, K.map (·.sym) = stack ∧ (∀ g ∈ K, g.ok key re defs) ∧
      items' = K.map (fun g => Item.nt g.defn') ∧ c = K.flatMap (·.cands) := by
  induction stack generalizing items items' c with
  | nil =>
    simp [drain] at h; subst h
    simp [rewriteItems] at hr; obtain ⟨rfl, rfl⟩ := hr
    exact ⟨[], rfl, by simp, rfl, rfl⟩
  | cons s rest ih =>
    simp only [drain] at h
    cases h1 : expandOne key re defs s with
    | error m => rw [h1] at h; simp at h
    | panic w => rw [h1] at h; simp at h
    | ok d =>
      rw [h1] at h
      cases h2 : drain key re defs rest with
      | error m => rw [h2] at h; simp at h
      | panic w => rw [h2] at h; simp at h
      | ok restItems =>
        rw [h2] at h; simp at h; subst h
        simp only [rewriteItems] at hr
        cases h3 : rewriteAlts key d.alts with
        | none => rw [h3] at hr; simp at hr
        | some p =>
          obtain ⟨alts', c1⟩ := p
          rw [h3] at hr
          cases h4 : rewriteItems key restItems with
          | none => rw [h4] at hr; simp at hr
          | some q =>
            obtain ⟨rest', c2⟩ := q
            rw [h4] at hr
            simp at hr
            obtain ⟨rfl, rfl⟩ := hr
            obtain ⟨K, hK1, hK2, rfl, rfl⟩ := ih restItems rest' c2 h2 h4
            refine ⟨⟨s, d, { d with alts := alts' }, c1⟩ :: K, by simp [hK1], ?_, by simp, by simp⟩
            intro g hg
            rcases List.mem_cons.mp hg with rfl | hg
            · exact ⟨h1, by simp [rewriteNt, h3]⟩
            · exact hK2 g hg

/-! ### the loop -/

/-- What a call of the expansion loop returns, for any key function: the rewritten fresh items
    followed by one generated nonterminal per *new key*, each being the rewriting of the
    definition of a symbol with that key; every candidate met has its key in the initial set or
    among the generated ones. `U` is any set containing the candidates of the fresh items and
    closed under "candidates of the definition of a member". -/
theorem expandLoop_spec (limit : Nat) (U : Sym → Prop)
    (hU : ∀ t, U t → ∀ d d' c, expandOne key re defs t = .ok d → rewriteNt key d = some (d', c) →
      ∀ t' ∈ c, U t') :
    ∀ (fuel round : Nat) (S : List String) (D F out : List Item),
      expandLoop key re defs limit fuel round S D F = .ok out →
      ∃ (F' : List Item) (cF : List Sym) (G : List Gen),
        rewriteItems key F = some (F', cF) ∧
        out = D ++ F' ++ G.map (fun g => Item.nt g.defn') ∧
        (∀ g ∈ G, g.ok key re defs) ∧
        ((G.map fun g => key g.sym).Nodup ∧ ∀ g ∈ G, key g.sym ∉ S) ∧
        (∀ t ∈ cF, key t ∈ S ∨ ∃ g ∈ G, key g.sym = key t) ∧
        (∀ g ∈ G, ∀ t ∈ g.cands, key t ∈ S ∨ ∃ g' ∈ G, key g'.sym = key t) ∧
        ((∀ t ∈ cF, U t) → ∀ g ∈ G, U g.sym) := by
  intro fuel
  induction fuel with
  | zero => intro round S D F out h; simp [expandLoop] at h
  | succ fuel ih =>
    intro round S D F out h
    simp only [expandLoop] at h
    cases hF : rewriteItems key F with
    | none => rw [hF] at h; simp at h
    | some p =>
      obtain ⟨F', cF⟩ := p
      rw [hF] at h
      simp only [] at h
      obtain ⟨a1, a2, a3, a4, _, a6⟩ := pushAll_inv key S cF { expansionSet := S, expansionStack := [] }
        (by simp) (by simp) (by simp)
      generalize hst : pushAll key { expansionSet := S, expansionStack := [] } cF = st at h a1 a2 a3 a4 a6
      by_cases hempty : st.expansionStack.isEmpty = true
      · simp only [hempty, if_true] at h
        cases h
        refine ⟨F', cF, [], rfl, by simp, by simp, by simp, ?_, by simp, by simp⟩
        intro t ht
        have := a6 t ht
        rw [a1] at this
        have he : st.expansionStack = [] := by simpa using hempty
        simpa [he] using this
      · simp only [hempty] at h
        by_cases hlim : round + 1 > limit
        · simp [hlim] at h
        · simp only [hlim, if_false] at h
          cases hd : drain key re defs st.expansionStack with
          | error m => rw [hd] at h; simp at h
          | panic w => rw [hd] at h; simp at h
          | ok newItems =>
            rw [hd] at h
            simp only [] at h
            obtain ⟨F2', cF2, G2, hF2, hout, hok2, ⟨hnd2, hnS2⟩, hcF2, hcG2, hU2⟩ := ih _ _ _ _ _ h
            obtain ⟨K, hKsym, hKok, rfl, rfl⟩ := drain_rewrite key re defs _ _ _ _ hd hF2
            have hKkeys : K.map (fun g => key g.sym) = st.expansionStack.map key := by
              rw [← hKsym]; simp
            -- membership of a key in the set after this round
            have inSet : ∀ k, k ∈ st.expansionSet → k ∈ S ∨ ∃ g ∈ K, key g.sym = k := by
              intro k hk
              rw [a1] at hk
              rcases List.mem_append.mp hk with hk | hk
              · right
                rw [← hKkeys] at hk
                obtain ⟨g, hg, rfl⟩ := List.mem_map.mp hk
                exact ⟨g, hg, rfl⟩
              · exact .inl hk
            refine ⟨F', cF, K ++ G2, rfl, ?_, ?_, ⟨?_, ?_⟩, ?_, ?_, ?_⟩
            · rw [hout]; simp [List.append_assoc]
            · intro g hg
              rcases List.mem_append.mp hg with hg | hg
              · exact hKok g hg
              · exact hok2 g hg
            · rw [List.map_append, List.nodup_append]
              refine ⟨by rw [hKkeys]; exact a2, hnd2, ?_⟩
              intro x hx y hy hxy
              subst hxy
              obtain ⟨g, hg, rfl⟩ := List.mem_map.mp hy
              apply hnS2 g hg
              rw [a1]
              exact List.mem_append_left _ (by rw [← hKkeys]; exact hx)
            · intro g hg
              rcases List.mem_append.mp hg with hg | hg
              · apply a3
                rw [← hKsym]; exact List.mem_map_of_mem hg
              · intro hS
                apply hnS2 g hg
                rw [a1]; exact List.mem_append_right _ hS
            · intro t ht
              rcases inSet _ (a6 t ht) with h | ⟨g, hg, he⟩
              · exact .inl h
              · exact .inr ⟨g, List.mem_append_left _ hg, he⟩
            · intro g hg t ht
              have hcase : key t ∈ st.expansionSet ∨ ∃ g' ∈ G2, key g'.sym = key t := by
                rcases List.mem_append.mp hg with hg | hg
                · exact hcF2 t (List.mem_flatMap.mpr ⟨g, hg, ht⟩)
                · exact hcG2 g hg t ht
              rcases hcase with h | ⟨g', hg', he⟩
              · rcases inSet _ h with h | ⟨g', hg', he⟩
                · exact .inl h
                · exact .inr ⟨g', List.mem_append_left _ hg', he⟩
              · exact .inr ⟨g', List.mem_append_right _ hg', he⟩
            · intro hUF g hg
              have hKU : ∀ g ∈ K, U g.sym := by
                intro g hg
                have : g.sym ∈ st.expansionStack := by rw [← hKsym]; exact List.mem_map_of_mem hg
                rcases a4 _ this with h | h
                · simp at h
                · exact hUF _ h
              rcases List.mem_append.mp hg with hg | hg
              · exact hKU g hg
              · apply hU2 _ g hg
                intro t ht
                obtain ⟨g0, hg0, ht0⟩ := List.mem_flatMap.mp ht
                obtain ⟨e1, e2⟩ := hKok g0 hg0
                exact hU _ (hKU g0 hg0) _ _ _ e1 e2 t ht0

end LalrpopModel.Macro
