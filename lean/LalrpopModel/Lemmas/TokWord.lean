import LalrpopModel.Lemmas.TokNext
/-! Step lemmas for identifiers, keywords, `_`, lifetimes and identifier-like character literals. -/
namespace LalrpopModel.Tok

/-- the next character (if any) does not continue an identifier -/
def endsWord (following : List Char) : Prop := ∀ c, following.head? = some c → isIdContinue c = false

theorem word_scan (p : Nat) (cs following : List Char) (hcs : ∀ x ∈ cs, isIdContinue x = true)
    (hf : endsWord following) :
    word ⟨p, cs ++ following⟩ = (cs, ⟨p + utf8Len cs, following⟩) := by
  cases following with
  | nil =>
    have := takeUntil_eof (fun c => !isIdContinue c) cs p (by intro x hx; simp [hcs x hx])
    simp [word, this]
  | cons c r =>
    have hc : isIdContinue c = false := hf c rfl
    have := takeUntil_stop (fun c => !isIdContinue c) cs c r p (by intro x hx; simp [hcs x hx]) (by simp [hc])
    simp [word, this]

/-- the token of an identifier-like word: keyword, else `MacroId` directly before `<`, else `Id` -/
def wordTok (wd : List Char) (nxt : Option Char) : Tok :=
  match keyword? wd with
  | some t => t
  | none => if nxt = some '<' then .macroId wd else .id wd

theorem identifierish_plain (k : Nat → St → Res St) (idx0 p : Nat) (pre cs following : List Char)
    (hcs : ∀ x ∈ cs, isIdContinue x = true) (hf : endsWord following)
    (h1 : pre ++ cs ≠ ['_']) (h2 : pre ++ cs ≠ ['r', '#', '_']) (h3 : pre ++ cs ≠ ['u', 's', 'e']) :
    identifierish k idx0 pre ⟨p, cs ++ following⟩ =
      .ok ((idx0, wordTok (pre ++ cs) following.head?, p + utf8Len cs), ⟨p + utf8Len cs, following⟩) := by
  simp only [identifierish, word_scan p cs following hcs hf]
  simp only [beq_iff_eq, h1, h2, h3, if_false, wordTok]
  cases hk : keyword? (pre ++ cs) with
  | some t => simp
  | none =>
    cases following with
    | nil => simp
    | cons c r =>
      by_cases hc : c = '<'
      · subst hc; simp
      · simp [hc]

theorem identifierish_underscore (k : Nat → St → Res St) (idx0 p : Nat) (following : List Char)
    (hf : endsWord following) :
    identifierish k idx0 [] ⟨p, '_' :: following⟩ = .ok ((idx0, .underscore, idx0 + 1), ⟨p + 1, following⟩) := by
  have := word_scan p ['_'] following (by intro x hx; simp at hx; subst hx; decide) hf
  simp only [List.cons_append, List.nil_append] at this
  simp [identifierish, this]

/-- a word: an identifier start (XID_Start or `_`; every such character is also XID_Continue in
    Unicode, which is kept as a hypothesis here) followed by identifier characters -/
def isWord (w : List Char) : Prop :=
  match w with
  | [] => False
  | c :: cs => isIdStart c = true ∧ isIdContinue c = true ∧ ∀ x ∈ cs, isIdContinue x = true

theorem hash_not_idContinue : isIdContinue '#' = false := by decide

theorem word_ne_rhash (c : Char) (cs : List Char) (hcs : ∀ x ∈ cs, isIdContinue x = true) :
    c :: cs ≠ ['r', '#', '_'] := by
  intro h
  injection h with _ h
  have := hcs '#' (by rw [h]; simp)
  simp [hash_not_idContinue] at this

/-- `next_unshifted` on a word that is not `_` or `use` -/
theorem next_word (cfg : Cfg) (g p : Nat) (c : Char) (cs following : List Char)
    (hw : isWord (c :: cs)) (hf : endsWord following)
    (h1 : c :: cs ≠ ['_']) (h3 : c :: cs ≠ ['u', 's', 'e'])
    (hr : c :: cs = ['r'] → following.head? ≠ some '#' ∧ following.head? ≠ some '"') :
    nextUnshifted cfg (g + 1) ⟨p, c :: cs ++ following⟩ =
      (.tok p (wordTok (c :: cs) following.head?) (p + utf8Len (c :: cs)), ⟨p + utf8Len (c :: cs), following⟩) := by
  obtain ⟨hc, hcc, hcs⟩ := hw
  have hsp := idStart_not_special c hc
  simp [specialChars] at hsp
  have h2 := word_ne_rhash c cs hcs
  rw [nextUnshifted]
  simp only [List.cons_append]
  by_cases hcr : c = 'r'
  · subst hcr
    have hid := identifierish_plain (fun i s => codeTop cfg i s) p (p + 1) ['r'] cs following hcs hf
      (by simp) (by simpa using h2) (by simp)
    simp only [List.cons_append, List.nil_append] at hid
    simp [hc]
    cases cs with
    | nil =>
      obtain ⟨ha, hb⟩ := hr rfl
      simp only [List.nil_append] at hid ⊢
      split
      · simp_all
      · simp_all
      · simp [hid, ofRes]
    | cons d ds =>
      have hd : isIdContinue d = true := hcs d (by simp)
      have hd1 : d ≠ '#' := by intro h; subst h; simp [hash_not_idContinue] at hd
      have hd2 : d ≠ '"' := by intro h; subst h; revert hd; decide
      simp only [List.cons_append] at hid ⊢
      split
      · rename_i heq; simp at heq; exact absurd heq.1 hd1
      · rename_i heq; simp at heq; exact absurd heq.1 hd2
      · simp [hid, ofRes, Nat.add_assoc]
  · have hcsc : ∀ x ∈ c :: cs, isIdContinue x = true := by
      intro x hx
      rcases List.mem_cons.1 hx with rfl | hx
      · exact hcc
      · exact hcs x hx
    have hid := identifierish_plain (fun i s => codeTop cfg i s) p p [] (c :: cs) following hcsc hf
      (by simpa using h1) (by simpa using h2) (by simpa using h3)
    simp only [List.cons_append, List.nil_append] at hid
    simp [hsp, hc, hcr, hid, ofRes]

theorem next_underscore (cfg : Cfg) (g p : Nat) (following : List Char) (hf : endsWord following) :
    nextUnshifted cfg (g + 1) ⟨p, '_' :: following⟩ = (.tok p .underscore (p + 1), ⟨p + 1, following⟩) := by
  have hid := identifierish_underscore (fun i s => codeTop cfg i s) p p following hf
  have hs : isIdStart '_' = true := by decide
  rw [nextUnshifted]
  simp [hs, hid, ofRes]

theorem next_str (cfg : Cfg) (g p : Nat) (ps : List SPiece) (following : List Char)
    (hps : ∀ q ∈ ps, q.ok '"' = true) :
    nextUnshifted cfg (g + 1) ⟨p, '"' :: (renderPieces ps ++ '"' :: following)⟩ =
      (.tok p (.stringLiteral (renderPieces ps)) (p + 1 + utf8Len (renderPieces ps) + 1),
       ⟨p + 1 + utf8Len (renderPieces ps) + 1, following⟩) := by
  rw [nextUnshifted]
  simp [stringLiteral_scan p ps hps, ofRes]

theorem next_escape (cfg : Cfg) (g p : Nat) (body following : List Char) (hb : ∀ x ∈ body, x ≠ '`') :
    nextUnshifted cfg (g + 1) ⟨p, '`' :: (body ++ '`' :: following)⟩ =
      (.tok p (.escape body) (p + 1 + utf8Len body + 1), ⟨p + 1 + utf8Len body + 1, following⟩) := by
  have ht := takeUntil_stop (· == '`') body '`' following (p + 1) (by intro x hx; simpa using hb x hx) (by decide)
  rw [nextUnshifted]
  simp [escape, ht, ofRes, St.bump]

theorem next_lifetime (cfg : Cfg) (g p : Nat) (c : Char) (cs following : List Char)
    (hw : isWord (c :: cs)) (hf : endsWord following) (hq : following.head? ≠ some '\'') :
    nextUnshifted cfg (g + 1) ⟨p, '\'' :: (c :: cs ++ following)⟩ =
      (.tok p (.lifetime ('\'' :: c :: cs)) (p + 1 + utf8Len (c :: cs)), ⟨p + 1 + utf8Len (c :: cs), following⟩) := by
  obtain ⟨hc, hcc, hcs⟩ := hw
  have hcsc : ∀ x ∈ c :: cs, isIdContinue x = true := by
    intro x hx
    rcases List.mem_cons.1 hx with rfl | hx
    · exact hcc
    · exact hcs x hx
  have hws := word_scan (p + 1) (c :: cs) following hcsc hf
  simp only [List.cons_append] at hws
  have hlt : lifetimeish p ⟨p + 1, c :: (cs ++ following)⟩ =
      .ok ((p, .lifetime ('\'' :: c :: cs), p + 1 + utf8Len (c :: cs)), ⟨p + 1 + utf8Len (c :: cs), following⟩) := by
    simp only [lifetimeish, hc, if_true, hws]
    split
    · simp_all
    · rfl
  rw [nextUnshifted]
  simp only [List.cons_append]
  simp [hlt, ofRes]

theorem next_charId (cfg : Cfg) (g p : Nat) (c : Char) (cs following : List Char) (hw : isWord (c :: cs)) :
    nextUnshifted cfg (g + 1) ⟨p, '\'' :: (c :: cs ++ '\'' :: following)⟩ =
      (.tok p (.charLiteral (c :: cs)) (p + 1 + utf8Len (c :: cs) + 1),
       ⟨p + 1 + utf8Len (c :: cs) + 1, following⟩) := by
  obtain ⟨hc, hcc, hcs⟩ := hw
  have hcsc : ∀ x ∈ c :: cs, isIdContinue x = true := by
    intro x hx
    rcases List.mem_cons.1 hx with rfl | hx
    · exact hcc
    · exact hcs x hx
  have hws := word_scan (p + 1) (c :: cs) ('\'' :: following) hcsc
    (by intro x hx; simp at hx; subst hx; decide)
  simp only [List.cons_append] at hws
  rw [nextUnshifted]
  simp only [List.cons_append]
  simp [lifetimeish, hc, hws, ofRes, Nat.add_assoc]

theorem next_charPieces (cfg : Cfg) (g p : Nat) (ps : List SPiece) (following : List Char)
    (hps : ∀ q ∈ ps, q.ok '\'' = true)
    (hfirst : ∀ c, (renderPieces ps).head? = some c → isIdStart c = false) :
    nextUnshifted cfg (g + 1) ⟨p, '\'' :: (renderPieces ps ++ '\'' :: following)⟩ =
      (.tok p (.charLiteral (renderPieces ps)) (p + 1 + utf8Len (renderPieces ps) + 1),
       ⟨p + 1 + utf8Len (renderPieces ps) + 1, following⟩) := by
  have hsc := stringOrCharLiteral_scan p '\'' (by decide) (by decide) .charLiteral ps hps (p + 1) following
  have hq : isIdStart '\'' = false := by decide
  rw [nextUnshifted]
  cases hr : renderPieces ps with
  | nil =>
    rw [hr] at hsc
    simp only [List.nil_append] at hsc ⊢
    simp [lifetimeish, hq, hsc, ofRes]
  | cons d ds =>
    have hd : isIdStart d = false := hfirst d (by rw [hr]; rfl)
    rw [hr] at hsc
    simp only [List.cons_append] at hsc ⊢
    simp [lifetimeish, hd, hsc, ofRes]

theorem next_regex (cfg : Cfg) (g p n : Nat) (body following : List Char) (hok : rawBodyOK n body = true) :
    nextUnshifted cfg (g + 1)
        ⟨p, 'r' :: (List.replicate n '#' ++ '"' :: (body ++ '"' :: List.replicate n '#' ++ following))⟩ =
      (.tok p (.regexLiteral body) (p + 1 + n + 1 + utf8Len body + 1 + n),
       ⟨p + 1 + n + 1 + utf8Len body + 1 + n, following⟩) := by
  have hs := regexLiteral_scan (fun i s => codeTop cfg i s) p ['r'] (p + 1) n n (by omega) body hok following
  have hr : isIdStart 'r' = true := by decide
  rw [nextUnshifted]
  cases n with
  | zero =>
    simp only [List.replicate, List.nil_append, List.append_assoc, List.cons_append] at hs ⊢
    simp [hr, hs, ofRes]
  | succ m =>
    simp only [List.replicate_succ, List.cons_append, List.append_assoc] at hs ⊢
    simp [hr, hs, ofRes]

end LalrpopModel.Tok
