import LalrpopModel.Lemmas.NfaBasic
namespace LalrpopModel.Nfa
open LalrpopModel.Re

/-- the final NFA `N` has, for every state of the range, exactly the edges `n'` has -/
def AgreeOn (n' N : Nfa) (lo hi : Nat) : Prop := ∀ q, lo ≤ q → q < hi → N[q]? = n'[q]?

/-- no accepting state is reachable from `rej` -/
def RejDead (N : Nfa) (rej : Nat) : Prop := ∀ k w, ¬ ReachN N k rej w

/-- in `N`, state `s` accepts exactly `L` followed by whatever `acc` accepts (with step counts,
so that loops through ε-matching sub-expressions can be unfolded by induction) -/
structure Spec (L : List Nat → Prop) (N : Nfa) (s acc : Nat) : Prop where
  complete : ∀ w1 w2, L w1 → Acc N acc w2 → Acc N s (w1 ++ w2)
  sound : ∀ k w, ReachN N k s w →
    ∃ w1 w2 k', k' ≤ k ∧ w = w1 ++ w2 ∧ L w1 ∧ ReachN N k' acc w2

/-- the builder `f` implements the language `L` -/
def Impl (f : Nat → Nfa → Build) (rej : Nat) (L : List Nat → Prop) : Prop :=
  ∀ acc n s n', f acc n = .ok (s, n') →
    Frame n n' ∧ ∀ N, AgreeOn n' N n.length n'.length → RejDead N rej → Spec L N s acc

theorem Spec.congr {L L' : List Nat → Prop} {N : Nfa} {s acc : Nat} (h : ∀ w, L w ↔ L' w)
    (hs : Spec L N s acc) : Spec L' N s acc :=
  ⟨fun w1 w2 h1 h2 => hs.complete w1 w2 ((h w1).mpr h1) h2,
   fun k w hr => by
     obtain ⟨w1, w2, k', a, b, c, d⟩ := hs.sound k w hr
     exact ⟨w1, w2, k', a, b, (h w1).mp c, d⟩⟩

theorem Impl.congr {f : Nat → Nfa → Build} {rej : Nat} {L L' : List Nat → Prop}
    (h : ∀ w, L w ↔ L' w) (hf : Impl f rej L) : Impl f rej L' := by
  intro acc n s n' he
  obtain ⟨hfr, hsp⟩ := hf acc n s n' he
  exact ⟨hfr, fun N ha hr => (hsp N ha hr).congr h⟩

theorem AgreeOn.mono {n' N : Nfa} {lo hi lo' hi' : Nat} (h : AgreeOn n' N lo hi) (h1 : lo ≤ lo')
    (h2 : hi' ≤ hi) : AgreeOn n' N lo' hi' := fun q a b => h q (by omega) (by omega)

/-- agreement with a later NFA restricts to agreement with an earlier one on the earlier range -/
theorem AgreeOn.back {a b N : Nfa} {lo : Nat} (hab : Frame a b) (h : AgreeOn b N lo b.length) :
    AgreeOn a N lo a.length := by
  intro q h1 h2
  rw [h q h1 (by have := hab.len; omega), hab.old q h2]

/-! ### sequencing -/

def seqB (g f : Nat → Nfa → Build) : Nat → Nfa → Build := fun acc n => do
  let (s, n) ← g acc n
  f s n

def Lcat (L1 L2 : List Nat → Prop) : List Nat → Prop := fun w => ∃ u v, w = u ++ v ∧ L1 u ∧ L2 v

theorem seqB_impl {g f : Nat → Nfa → Build} {rej : Nat} {Lg Lf : List Nat → Prop}
    (hg : Impl g rej Lg) (hf : Impl f rej Lf) : Impl (seqB g f) rej (Lcat Lf Lg) := by
  intro acc n s n' he
  simp only [seqB, bind, Except.bind] at he
  cases h1 : g acc n with
  | error e => rw [h1] at he; cases he
  | ok r1 =>
    obtain ⟨s1, n1⟩ := r1
    rw [h1] at he
    simp only at he
    obtain ⟨fr1, sp1⟩ := hg acc n s1 n1 h1
    obtain ⟨fr2, sp2⟩ := hf s1 n1 s n' he
    refine ⟨fr1.trans fr2, ?_⟩
    intro N hag hrej
    have ag2 : AgreeOn n' N n1.length n'.length := hag.mono fr1.len (Nat.le_refl _)
    have ag1 : AgreeOn n1 N n.length n1.length := AgreeOn.back fr2 hag
    have S1 := sp1 N ag1 hrej
    have S2 := sp2 N ag2 hrej
    constructor
    · intro w1 w2 hw hacc
      obtain ⟨u, v, rfl, hu, hv⟩ := hw
      rw [List.append_assoc]
      exact S2.complete u (v ++ w2) hu (S1.complete v w2 hv hacc)
    · intro k w hr
      obtain ⟨u, r, k1, hk1, rfl, hu, hr1⟩ := S2.sound k w hr
      obtain ⟨v, w2, k2, hk2, rfl, hv, hr2⟩ := S1.sound k1 r hr1
      exact ⟨u ++ v, w2, k2, by omega, by simp, ⟨u, v, rfl, hu, hv⟩, hr2⟩

/-- the builder that builds nothing -/
theorem pure_impl (rej : Nat) : Impl (fun acc n => (pure (acc, n) : Build)) rej (fun w => w = []) := by
  intro acc n s n' he
  cases he
  refine ⟨Frame.refl _, fun N _ _ => ⟨?_, ?_⟩⟩
  · intro w1 w2 h1 h2; subst h1; simpa using h2
  · intro k w hr; exact ⟨[], w, k, Nat.le_refl _, rfl, rfl, hr⟩

theorem Pow_add {L : List Nat → Prop} {i j : Nat} {u v : List Nat} (hu : LPow L i u) (hv : LPow L j v) :
    LPow L (i + j) (u ++ v) := by
  induction i generalizing u with
  | zero => simp only [LPow] at hu; subst hu; simpa using hv
  | succ i ih =>
    obtain ⟨a, b, rfl, ha, hb⟩ := hu
    rw [Nat.succ_add, List.append_assoc]
    exact ⟨a, b ++ v, rfl, ha, ih hb⟩

theorem Pow_split {L : List Nat → Prop} {i j : Nat} {w : List Nat} (h : LPow L (i + j) w) :
    ∃ u v, w = u ++ v ∧ LPow L i u ∧ LPow L j v := by
  induction i generalizing w with
  | zero => exact ⟨[], w, rfl, rfl, by simpa using h⟩
  | succ i ih =>
    rw [Nat.succ_add] at h
    obtain ⟨a, b, rfl, ha, hb⟩ := h
    obtain ⟨u, v, rfl, hu, hv⟩ := ih hb
    exact ⟨a ++ u, v, by simp, ⟨a, u, rfl, ha, hu⟩, hv⟩

theorem repeatWith_impl {f : Nat → Nfa → Build} {rej : Nat} {L : List Nat → Prop}
    (hf : Impl f rej L) (k : Nat) : Impl (repeatWith f k) rej (LPow L k) := by
  induction k with
  | zero =>
    have := pure_impl rej
    exact this
  | succ k ih =>
    have h := seqB_impl hf ih
    have e : repeatWith f (k + 1) = seqB f (repeatWith f k) := by
      funext acc n; simp [repeatWith, seqB]
    rw [e]
    refine h.congr ?_
    intro w
    constructor
    · rintro ⟨u, v, rfl, hu, hv⟩
      have := Pow_add hu (show LPow L 1 v from ⟨v, [], by simp, hv, rfl⟩)
      simpa using this
    · intro hw
      obtain ⟨u, v, rfl, hu, hv⟩ := Pow_split (i := k) (j := 1) hw
      obtain ⟨a, b, rfl, ha, hb⟩ := hv
      simp only [LPow] at hb; subst hb
      exact ⟨u, a, by simp, hu, ha⟩

/-! ### optional, star, plus -/

theorem push2_at {n : Nfa} {s0 : Nat} (h : n[s0]? = some { kind := .neither }) (a b : Nat) :
    (pushNoop (pushNoop n s0 a) s0 b)[s0]? = some { kind := .neither, noop := [a, b] } := by
  simp [getElem?_pushNoop, h]

theorem push2_ne (n : Nfa) (s0 a b q : Nat) (hq : s0 ≠ q) :
    (pushNoop (pushNoop n s0 a) s0 b)[q]? = n[q]? := by
  simp [getElem?_pushNoop, hq]

theorem length_push2 (n : Nfa) (s0 a b : Nat) : (pushNoop (pushNoop n s0 a) s0 b).length = n.length := by
  simp [length_pushNoop]

theorem Acc.eps {N : Nfa} {s u : Nat} {w : List Nat} (hu : u ∈ noopOf N s) (h : Acc N u w) : Acc N s w := by
  obtain ⟨k, hk⟩ := h
  exact ⟨k + 1, .eps k s u w hu hk⟩

def Lopt (L : List Nat → Prop) : List Nat → Prop := fun w => w = [] ∨ L w
def Lstar (L : List Nat → Prop) : List Nat → Prop := fun w => ∃ j, LPow L j w
def Lplus (L : List Nat → Prop) : List Nat → Prop := fun w => ∃ j, LPow L (j + 1) w

theorem optionalWith_impl {f : Nat → Nfa → Build} {rej : Nat} {L : List Nat → Prop}
    (hf : Impl f rej L) : Impl (optionalWith f) rej (Lopt L) := by
  intro acc n s n' he
  simp only [optionalWith, bind, Except.bind] at he
  cases h1 : f acc n with
  | error e => rw [h1] at he; cases he
  | ok r1 =>
    obtain ⟨s1, n1⟩ := r1
    rw [h1] at he
    simp only [pure, Except.pure, Except.ok.injEq, Prod.mk.injEq, newState_fst] at he
    obtain ⟨rfl, rfl⟩ := he
    obtain ⟨fr1, sp1⟩ := hf acc n s1 n1 h1
    have fr : Frame n (pushNoop (pushNoop (newState n1).2 n1.length acc) n1.length s1) :=
      ((fr1.trans (Frame.newState n1)).pushNoop _ _ (by have := fr1.len; omega)).pushNoop _ _
        (by have := fr1.len; omega)
    refine ⟨fr, ?_⟩
    intro N hag hrej
    rw [length_push2, length_newState] at hag
    have hN0 : N[n1.length]? = some { kind := .neither, noop := [acc, s1] } := by
      rw [hag n1.length (by have := fr1.len; omega) (by omega)]
      exact push2_at (getElem?_newState_new n1) acc s1
    have ag1 : AgreeOn n1 N n.length n1.length := by
      intro q h1 h2
      rw [hag q h1 (by omega), push2_ne _ _ _ _ _ (by omega), getElem?_newState_old n1 q h2]
    have S1 := sp1 N ag1 hrej
    constructor
    · intro w1 w2 hw hacc
      rcases hw with rfl | hw
      · exact Acc.eps (u := acc) (by rw [noopOf_of hN0]; simp) (by simpa using hacc)
      · exact Acc.eps (by rw [noopOf_of hN0]; simp) (S1.complete w1 w2 hw hacc)
    · intro k w hr
      obtain ⟨k', u, rfl, hu, hr'⟩ := reach_noop_state hN0 (by simp) rfl rfl hr
      simp only [List.mem_cons, List.mem_nil_iff, or_false] at hu
      rcases hu with rfl | rfl
      · exact ⟨[], w, k', by omega, rfl, .inl rfl, hr'⟩
      · obtain ⟨w1, w2, k2, hk2, rfl, hw1, hr2⟩ := S1.sound k' w hr'
        exact ⟨w1, w2, k2, by omega, rfl, .inr hw1, hr2⟩

theorem starWith_impl {f : Nat → Nfa → Build} {rej : Nat} {L : List Nat → Prop}
    (hf : Impl f rej L) : Impl (starWith f) rej (Lstar L) := by
  intro acc n s n' he
  simp only [starWith, bind, Except.bind] at he
  cases h1 : f (newState n).1 (newState n).2 with
  | error e => rw [h1] at he; cases he
  | ok r1 =>
    obtain ⟨s1, n2⟩ := r1
    rw [h1] at he
    simp only [pure, Except.pure, Except.ok.injEq, Prod.mk.injEq, newState_fst] at he
    obtain ⟨rfl, rfl⟩ := he
    obtain ⟨fr1, sp1⟩ := hf _ _ s1 n2 h1
    simp only [newState_fst] at sp1
    have hlen1 := fr1.len
    rw [length_newState] at hlen1
    have fr : Frame n (pushNoop (pushNoop n2 n.length acc) n.length s1) :=
      (((Frame.newState n).trans fr1).pushNoop _ _ (Nat.le_refl _)).pushNoop _ _ (Nat.le_refl _)
    refine ⟨fr, ?_⟩
    intro N hag hrej
    rw [length_push2] at hag
    have hblank : n2[n.length]? = some { kind := .neither } := by
      rw [fr1.old n.length (by rw [length_newState]; omega)]
      exact getElem?_newState_new n
    have hN0 : N[n.length]? = some { kind := .neither, noop := [acc, s1] } := by
      rw [hag n.length (Nat.le_refl _) (by omega)]
      exact push2_at hblank acc s1
    have ag1 : AgreeOn n2 N (newState n).2.length n2.length := by
      intro q h1 h2
      rw [length_newState] at h1
      rw [hag q (by omega) h2, push2_ne _ _ _ _ _ (by omega)]
    have S1 := sp1 N ag1 hrej
    constructor
    · intro w1 w2 hw hacc
      obtain ⟨j, hj⟩ := hw
      induction j generalizing w1 with
      | zero =>
        simp only [LPow] at hj; subst hj
        exact Acc.eps (u := acc) (by rw [noopOf_of hN0]; simp) (by simpa using hacc)
      | succ j ih =>
        obtain ⟨a, b, rfl, ha, hb⟩ := hj
        rw [List.append_assoc]
        exact Acc.eps (by rw [noopOf_of hN0]; simp) (S1.complete a (b ++ w2) ha (ih b hb))
    · intro k
      induction k using Nat.strongRecOn with
      | _ k ih =>
        intro w hr
        obtain ⟨k', u, rfl, hu, hr'⟩ := reach_noop_state hN0 (by simp) rfl rfl hr
        simp only [List.mem_cons, List.mem_nil_iff, or_false] at hu
        rcases hu with rfl | rfl
        · exact ⟨[], w, k', by omega, rfl, ⟨0, rfl⟩, hr'⟩
        · obtain ⟨a, r, k2, hk2, rfl, ha, hr2⟩ := S1.sound k' w hr'
          obtain ⟨b, w2, k3, hk3, rfl, ⟨j, hb⟩, hr3⟩ := ih k2 (by omega) r hr2
          exact ⟨a ++ b, w2, k3, by omega, by simp, ⟨j + 1, a, b, rfl, ha, hb⟩, hr3⟩

theorem plusWith_impl {f : Nat → Nfa → Build} {rej : Nat} {L : List Nat → Prop}
    (hf : Impl f rej L) : Impl (plusWith f) rej (Lplus L) := by
  intro acc n s n' he
  simp only [plusWith, bind, Except.bind] at he
  cases h1 : f (newState n).1 (newState n).2 with
  | error e => rw [h1] at he; cases he
  | ok r1 =>
    obtain ⟨s0, n2⟩ := r1
    rw [h1] at he
    simp only [pure, Except.pure, Except.ok.injEq, Prod.mk.injEq, newState_fst] at he
    obtain ⟨rfl, rfl⟩ := he
    obtain ⟨fr1, sp1⟩ := hf _ _ s0 n2 h1
    simp only [newState_fst] at sp1
    have hlen1 := fr1.len
    rw [length_newState] at hlen1
    have fr : Frame n (pushNoop (pushNoop n2 n.length acc) n.length s0) :=
      (((Frame.newState n).trans fr1).pushNoop _ _ (Nat.le_refl _)).pushNoop _ _ (Nat.le_refl _)
    refine ⟨fr, ?_⟩
    intro N hag hrej
    rw [length_push2] at hag
    have hblank : n2[n.length]? = some { kind := .neither } := by
      rw [fr1.old n.length (by rw [length_newState]; omega)]
      exact getElem?_newState_new n
    have hN1 : N[n.length]? = some { kind := .neither, noop := [acc, s0] } := by
      rw [hag n.length (Nat.le_refl _) (by omega)]
      exact push2_at hblank acc s0
    have ag1 : AgreeOn n2 N (newState n).2.length n2.length := by
      intro q h1 h2
      rw [length_newState] at h1
      rw [hag q (by omega) h2, push2_ne _ _ _ _ _ (by omega)]
    -- `S1`: s0 accepts L followed by what s1 = n.length accepts
    have S1 := sp1 N ag1 hrej
    -- what s1 accepts: L* followed by acc
    have s1_complete : ∀ j w1 w2, LPow L j w1 → Acc N acc w2 → Acc N n.length (w1 ++ w2) := by
      intro j
      induction j with
      | zero =>
        intro w1 w2 hj hacc
        simp only [LPow] at hj; subst hj
        exact Acc.eps (u := acc) (by rw [noopOf_of hN1]; simp) (by simpa using hacc)
      | succ j ih =>
        intro w1 w2 hj hacc
        obtain ⟨a, b, rfl, ha, hb⟩ := hj
        rw [List.append_assoc]
        exact Acc.eps (by rw [noopOf_of hN1]; simp) (S1.complete a (b ++ w2) ha (ih b w2 hb hacc))
    have s1_sound : ∀ k w, ReachN N k n.length w →
        ∃ w1 w2 k', k' ≤ k ∧ w = w1 ++ w2 ∧ Lstar L w1 ∧ ReachN N k' acc w2 := by
      intro k
      induction k using Nat.strongRecOn with
      | _ k ih =>
        intro w hr
        obtain ⟨k', u, rfl, hu, hr'⟩ := reach_noop_state hN1 (by simp) rfl rfl hr
        simp only [List.mem_cons, List.mem_nil_iff, or_false] at hu
        rcases hu with rfl | rfl
        · exact ⟨[], w, k', by omega, rfl, ⟨0, rfl⟩, hr'⟩
        · obtain ⟨a, r, k2, hk2, rfl, ha, hr2⟩ := S1.sound k' w hr'
          obtain ⟨b, w2, k3, hk3, rfl, ⟨j, hb⟩, hr3⟩ := ih k2 (by omega) r hr2
          exact ⟨a ++ b, w2, k3, by omega, by simp, ⟨j + 1, a, b, rfl, ha, hb⟩, hr3⟩
    constructor
    · intro w1 w2 hw hacc
      obtain ⟨j, a, b, rfl, ha, hb⟩ := hw
      rw [List.append_assoc]
      exact S1.complete a (b ++ w2) ha (s1_complete j b w2 hb hacc)
    · intro k w hr
      obtain ⟨a, r, k2, hk2, rfl, ha, hr2⟩ := S1.sound k w hr
      obtain ⟨b, w2, k3, hk3, rfl, ⟨j, hb⟩, hr3⟩ := s1_sound k2 r hr2
      exact ⟨a ++ b, w2, k3, by omega, by simp, ⟨j, a, b, rfl, ha, hb⟩, hr3⟩

end LalrpopModel.Nfa
