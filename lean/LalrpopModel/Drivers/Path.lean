import LalrpopModel.Model.Path
import LalrpopModel.Model.Proto
/-!
`lpm_path`: line-protocol driver for M-PATH (C23).  One case per line:

```
<mode> in=<path|-> out=<path|-> env=<path|-> rerun=<0|1> cwd=<abs path> args=<path,path…> tree=<entry;entry…|-> bad=<path,…|-> gone=<path,…|->
```
* the mode may carry the suffix `+fallback` (the source has `strip_prefix(in_dir).unwrap_or("")`).
* mode `dir`: `Configuration::process_dir(args[0])`, the tree is the one found at `args[0]`;
  `proc`: `Configuration::process()` (tree at `in` or `.`); `files`: `process_file` for every
  argument in order, stopping at the first error (what the CLI does).
* path = components joined by `/`: `R` root, `C` `.`, `P` `..`, `N<hex>` normal; `E` = empty path.
* tree entry = `<hexname/hexname/…>=<kind>`, the root itself being the entry with the empty name
  list; kinds `f` file, `d` directory, `x` dangling link, `o` other, `l` fatal walk error.
* bad = source paths for which generation fails; gone = those among them that cannot even be read.

Answer: `<outcome> | rerun:<path> … | gen:<absolute rs path> …` (rerun directives in order; generated
files made absolute with `cwd`, sorted, without duplicates, only those whose generation succeeds).
-/
open LalrpopModel LalrpopModel.PathM LalrpopModel.Proto

def hexBytes (s : String) : Option (List UInt8) := bytesOfHex s.toList

def decComp (s : String) : Option Comp :=
  if s = "R" then some .root else if s = "C" then some .cur else if s = "P" then some .parent
  else match s.toList with
    | 'N' :: rest => (bytesOfHex rest).map .normal
    | _ => none

def decPath (s : String) : Option PathC :=
  if s = "E" then some [] else (s.splitOn "/").mapM decComp

def decOptPath (s : String) : Option (Option PathC) :=
  if s = "-" then some none else (decPath s).map some

def encComp : Comp → String
  | .root => "R"
  | .cur => "C"
  | .parent => "P"
  | .normal n => "N" ++ hexOfBytes n

def encPath (p : PathC) : String :=
  if p.isEmpty then "E" else "/".intercalate (p.map encComp)

instance : Inhabited Node := ⟨.fatal⟩

/-- flat entries → nested tree -/
partial def buildNode (entries : List (List Name × String)) (at_ : List Name) : Node :=
  match entries.find? (·.1 == at_) with
  | none => .fatal
  | some (_, kind) =>
    if kind = "f" then .file
    else if kind = "x" then .dangling
    else if kind = "o" then .other
    else if kind = "l" then .fatal
    else
      let children := entries.filter fun e => e.1.length == at_.length + 1 && e.1.take at_.length == at_
      .dir (children.map fun e => (e.1.getLast!, buildNode entries e.1))

def decEntry (s : String) : Option (List Name × String) :=
  match s.splitOn "=" with
  | [p, k] =>
    if p = "" then some ([], k) else ((p.splitOn "/").mapM hexBytes).map (·, k)
  | _ => none

def kv (w : String) (key : String) : Option String :=
  if w.startsWith (key ++ "=") then some ((w.drop (key.length + 1)).toString) else none

def showOutcome : Outcome → String
  | .ok => "ok"
  | .resolveErr .panicNotUnderInDir => "resolve:panic"
  | .resolveErr .noFileName => "resolve:noFileName"
  | .resolveErr .notUtf8 => "resolve:notUtf8"
  | .resolveErr .whitespace => "resolve:whitespace"
  | .buildErr _ => "builderr"
  | .inDirConflict => "conflict"
  | .missingOutDir => "missing-out-dir"
  | .walkErr => "walkerr"

def insertStr (s : String) : List String → List String
  | [] => [s]
  | x :: xs => if x < s then x :: insertStr s xs else s :: x :: xs

def allUtf8 (p : PathC) : Bool :=
  p.all fun c => match c with
    | .normal n => Build.validUtf8 n
    | _ => true

/-- absolute form of a path for comparison with a file-system listing: relative paths are taken
    from the working directory, `.` components dropped -/
def absolutize (cwd p : PathC) : PathC :=
  (match p with
   | .root :: _ => p
   | _ => cwd ++ p).filter (· != Comp.cur)

def dedup : List String → List String
  | a :: b :: rest => if a == b then dedup (b :: rest) else a :: dedup (b :: rest)
  | l => l

def showResult (cwd : PathC) (_good : PathC → Bool) (r : List Event × Outcome) : String :=
  let reruns := r.1.filterMap fun e => match e with
    | .rerun p => some (if allUtf8 p then "rerun:" ++ encPath p else "rerun-warning")
    | _ => none
  -- outputs present at the end: generated and not removed again by a later failing build of an
  -- input that maps to the same path
  let gens := r.1.foldl (fun acc e => match e with
    | .generate _ rs => acc.filter (· != "gen:" ++ encPath (absolutize cwd rs)) ++ ["gen:" ++ encPath (absolutize cwd rs)]
    | .removed rs => acc.filter (· != "gen:" ++ encPath (absolutize cwd rs))
    | _ => acc) ([] : List String)
  s!"{showOutcome r.2} | {" ".intercalate reruns} | {" ".intercalate (dedup (gens.foldr insertStr []))}"

/-- `process_file` for every argument, stopping at the first error (CLI) -/
def processArgs (v : Variant) (s : Session) (good : PathC → Bool) : List PathC → List Event × Outcome
  | [] => ([], .ok)
  | f :: fs =>
    match apiProcessFile v s good f with
    | (ev, .ok) => let r := processArgs v s good fs; (ev ++ r.1, r.2)
    | r => r

def step (line : String) : String :=
  match words line with
  | [modev, i, o, e, rr, c, a, t, b, g] =>
    -- `dir` / `dir+fallback`: the suffix says that the source has the strip_prefix fallback
    let v : Variant := ⟨modev.endsWith "+fallback"⟩
    let mode := (modev.splitOn "+").headD ""
    match kv i "in", kv o "out", kv e "env", kv rr "rerun", kv c "cwd", kv a "args", kv t "tree", kv b "bad", kv g "gone" with
    | some i, some o, some e, some rr, some c, some a, some t, some b, some g =>
      match decOptPath i, decOptPath o, decOptPath e, decPath c, (a.splitOn ",").mapM decPath,
          (if t = "-" then some [] else (t.splitOn ";").mapM decEntry),
          (if b = "-" then some [] else (b.splitOn ",").mapM decPath),
          (if g = "-" then some [] else (g.splitOn ",").mapM decPath) with
      | some i, some o, some e, some cwd, some args, some entries, some bad, some gone =>
        let s : Session := { inDir := i, outDir := o, emitRerun := rr = "1", unreadable := gone }
        let good : PathC → Bool := fun p => !bad.contains p
        let tree := buildNode entries []
        if mode = "dir" then
          match args with
          | [arg] => showResult cwd good (apiProcessDir v s e good arg tree)
          | _ => "bad-op"
        else if mode = "proc" then showResult cwd good (apiProcess v s e good fun _ => tree)
        else if mode = "files" then showResult cwd good (processArgs v s good args)
        else "bad-op"
      | _, _, _, _, _, _, _, _ => "bad-op"
    | _, _, _, _, _, _, _, _, _ => "bad-op"
  | _ => "bad-op"

def main : IO Unit := lineLoop step
