import LalrpopModel.Model.Dfa
import LalrpopModel.Model.Proto
import LalrpopModel.Model.Sexp
/-! `lpm_redfa`: line-protocol driver for M-RE / M-NFA / M-DFA (C11, C10).

* `nfa <chars|bytes> | <hir sexp>`                 → per-state dump of `Nfa.fromReWith`
* `dfa <new|orig> <p0,p1,…> | <hir sexp> | …`       → verdict / state dump of `buildDfa` / `buildDfaOrig`
* `overlap <new|orig> <lo-hi,lo-hi,…>`              → `removeOverlap` / `removeOverlapOrig`
* `match <chars|bytes> <x hex utf-8> | <hir sexp>`  → does the NFA of the HIR accept the string's scalar values
* `decode <x hex bytes>`                            → strict UTF-8 decoding
HIR S-expressions are the ones printed by `verif_hooks::lex::hir_sexp`. -/
open LalrpopModel LalrpopModel.Re LalrpopModel.Nfa LalrpopModel.Dfa LalrpopModel.Proto

partial def hirOfSexp : Sexp → Option Hir
  | .list [.atom "empty"] => some .empty
  | .list (.atom "lit" :: bs) => do
      let ns ← bs.mapM (fun | .atom a => a.toNat? | _ => none)
      pure (.lit ns)
  | .list (.atom "cls" :: rs) => do
      let ns ← rs.mapM (fun | .list [.atom a, .atom b] => do pure ((← a.toNat?), (← b.toNat?)) | _ => none)
      pure (.cls ns)
  | .list (.atom "clsb" :: rs) => do
      let ns ← rs.mapM (fun | .list [.atom a, .atom b] => do pure ((← a.toNat?), (← b.toNat?)) | _ => none)
      pure (.cls ns)
  | .list [.atom "look", _] => some .look
  | .list [.atom "rep", .atom mn, .atom mx, .atom g, sub] => do
      let mn ← mn.toNat?
      let mx ← if mx = "inf" then some none else mx.toNat?.map some
      pure (.rep mn mx (g = "1") (← hirOfSexp sub))
  | .list [.atom "cap", .atom named, sub] => do pure (.cap (named = "1") (← hirOfSexp sub))
  | .list (.atom "cat" :: es) => do pure (.cat (← es.mapM hirOfSexp))
  | .list (.atom "alt" :: es) => do pure (.alt (← es.mapM hirOfSexp))
  | _ => none

def parseHir (s : String) : Option Hir := do hirOfSexp (← Sexp.parse s)

def kindChar : Kind → String
  | .accept => "A"
  | .reject => "R"
  | .neither => "N"

def commaNats (l : List Nat) : String := ",".intercalate (l.map toString)

def showNState (s : NState) : String :=
  kindChar s.kind ++ "|" ++ commaNats s.noop ++ "|" ++
    ",".intercalate (s.test.map fun e => s!"{e.1}-{e.2.1}>{e.2.2}") ++ "|" ++ commaNats s.other

def showErr : Err → String
  | .namedCaptures => "NamedCaptures"
  | .nonGreedy => "NonGreedy"
  | .lookAround => "LookAround"
  | .byteRegex => "ByteRegex"

def showNfa : Except Err Nfa → String
  | .error e => "error " ++ showErr e
  | .ok n => "ok " ++ ";".intercalate (n.map showNState) ++ " contig=1"

def parseMode (s : String) : Option LitMode :=
  if s = "chars" then some .chars else if s = "bytes" then some .bytes else none

def showDState (s : DState) : String :=
  (match s.kind with | .accepts i => s!"A{i}" | .reject => "R" | .neither => "N") ++ "|" ++
  ",".intercalate (s.items.map fun it => s!"{it.1}:{it.2}") ++ "|" ++
  ",".intercalate (s.tests.map fun e => s!"{e.1.1}-{e.1.2}>{e.2}") ++ "|" ++ toString s.other

def showVerdict : Verdict → String
  | .ok states => "ok " ++ ";".intercalate (states.map showDState)
  | .ambiguity a b => s!"ambiguity {a} {b}"
  | .nfaError i e => s!"nfaerror {i} {showErr e}"
  | .fuel => "fuel"
  | .panic => "panic"

def parseRanges (s : String) : Option (List Range) :=
  if s = "-" then some [] else
  (s.splitOn ",").mapM fun r =>
    match r.splitOn "-" with
    | [a, b] => do pure ((← a.toNat?), (← b.toNat?))
    | _ => none

def showRanges : Except OErr (List Range) → String
  | .ok rs => "ok " ++ ",".intercalate (rs.map fun r => s!"{r.1}-{r.2}")
  | .error .fuel => "fuel"
  | .error .assertFailed => "panic"

def FUEL : Nat := 100000

/-- Witness search on the model's own subset construction (driver-level, not part of a theorem):
breadth-first over item sets, one representative symbol per test range plus one symbol outside all
ranges, until `stateKind` reports the equal-precedence ambiguity; returns the word read. -/
partial def witnessSearch (nfas : List Nfa) (precs : List Nat) : Option (List Nat) :=
  let start := (List.range nfas.length).map (fun i => (i, START))
  match closure nfas FUEL start with
  | none => none
  | some s0 =>
    let rec go (queue : List (List Item × List Nat)) (seen : List (List Item)) (budget : Nat) : Option (List Nat) :=
      if budget = 0 then none else
      match queue with
      | [] => none
      | (items, word) :: rest =>
        match stateKind nfas precs items with
        | .error _ => some word.reverse
        | .ok _ =>
          let labels := items.flatMap (fun it => (testOf (nfaAt nfas it.1) it.2).map (fun e => (e.1, e.2.1)))
          match removeOverlap FUEL labels with
          | .error _ => none
          | .ok tests =>
            let succs := tests.filterMap fun t =>
              match closure nfas FUEL (items.filterMap (fun it => acceptTest nfas it t)) with
              | some cl => some (cl, t.1 :: word)
              | none => none
            let fresh := succs.filter (fun s => !seen.contains s.1 && !(rest.any (·.1 == s.1)))
            let fresh := fresh.foldl (fun acc s => if acc.any (·.1 == s.1) then acc else acc ++ [s]) []
            go (rest ++ fresh) (seen ++ [items]) (budget - 1)
    go [(s0, [])] [] 5000

def step (line : String) : String :=
  let parts := (line.trimAscii.toString.splitOn " | ")
  match parts with
  | [] => "bad-op"
  | hd :: rest =>
    match words hd, rest with
    | ["nfa", m], [h] =>
      match parseMode m, parseHir h with
      | some m, some e => showNfa (fromReWith m e)
      | _, _ => "bad-op"
    | ["dfa", which, precs], hs =>
      match (if precs = "-" then some [] else (precs.splitOn ",").mapM (·.toNat?)), hs.mapM parseHir with
      | some precs, some es =>
        if which = "new" then showVerdict (buildDfa es precs FUEL)
        else if which = "orig" then showVerdict (buildDfaOrig es precs FUEL)
        else "bad-op"
      | _, _ => "bad-op"
    | ["witness", precs], hs =>
      match (if precs = "-" then some [] else (precs.splitOn ",").mapM (·.toNat?)), hs.mapM parseHir with
      | some precs, some es =>
        match buildNfas .chars es 0 with
        | .ok nfas =>
          match witnessSearch nfas precs with
          | some w => "witness " ++ encStr (String.ofList (w.map Char.ofNat))
          | none => "none"
        | .error _ => "nfaerror"
      | _, _ => "bad-op"
    | ["overlap", which, rs], [] =>
      match parseRanges rs with
      | some rs =>
        if which = "new" then showRanges (removeOverlap FUEL rs)
        else if which = "orig" then showRanges (removeOverlapOrig FUEL rs)
        else "bad-op"
      | none => "bad-op"
    | ["match", m, text], [h] =>
      match parseMode m, decStr text, parseHir h with
      | some m, some t, some e =>
        match fromReWith m e with
        | .ok n => if acceptsB n (t.toList.map Char.toNat) then "1" else "0"
        | .error err => "error " ++ showErr err
      | _, _, _ => "bad-op"
    | ["decode", bs], [] =>
      match decBytes bs with
      | some bytes =>
        match decodeUtf8 (bytes.map (·.toNat)) with
        | some cs => "ok " ++ commaNats cs
        | none => "invalid"
      | none => "bad-op"
    | _, _ => "bad-op"

def main : IO Unit := lineLoop step
