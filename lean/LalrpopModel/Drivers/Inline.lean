import LalrpopModel.Model.Inline
import LalrpopModel.Model.Proto
import LalrpopModel.Model.Sexp
/-!
`lpm_inline`: line-protocol driver for M-INLINE (C14).

Requests
* `inline <names> <rgrammar sexp>` — `<names>` = `-` or comma-separated hex names of the nonterminals
  carrying `#[inline]`; the S-expression is the `stage_dump(.., "lower")` output. Answer: the
  `stage_dump(.., "inline")` line (`ok <rgrammar sexp>` / `error inline x<hex message>`), or `panic`.
* `order <names> <rgrammar sexp>` — answer `ok <hex names in inline order>` / `error …`.
* `emit <prefix> <index> <fallible of defn> <fallible of host> <fallible flags of inlined actions>
   <inline kind sexp>` — the body lines of `emit_inline_action_code` (see `emitBody`), `|`-separated, hex.

Names, terminals and opaque payloads are kept as the text of their S-expression.
-/
open LalrpopModel LalrpopModel.Inline LalrpopModel.Proto

abbrev G := Grammar String String String

def parseSymbol (s : Sexp) : Option (Symbol String String) :=
  match s with
  | .list [.atom "nonterminal", .atom n] => some (.nt n)
  | .list [.atom "terminal", t] => some (.term t.toStr)
  | _ => none

def parseSymbols (s : Sexp) : Option (List (Symbol String String)) := do
  let xs ← Sexp.tagged "symbols" s
  xs.mapM parseSymbol

def parseProd (name : String) (s : Sexp) : Option (Production String String) :=
  match s with
  | .list [.atom "prod", .atom a, syms] => do
    pure { nonterminal := name, symbols := ← parseSymbols syms, action := ← a.toNat? }
  | _ => none

def parseNt (inl : List String) (s : Sexp) : Option (NtData String String String) :=
  match s with
  | .list [.atom "nt", .atom name, vis, ty, prods] => do
    let ps ← Sexp.tagged "prods" prods
    pure { name := name, extra := vis.toStr ++ " " ++ ty.toStr, isInline := inl.contains name,
           productions := ← ps.mapM (parseProd name) }
  | _ => none

def parseInlined (s : Sexp) : Option (InlinedSymbol String String) :=
  match s with
  | .list [.atom "original", sym] => do pure (.original (← parseSymbol sym))
  | .list [.atom "inlined", .atom a, syms] => do pure (.inlined (← a.toNat?) (← parseSymbols syms))
  | _ => none

def parseKind (s : Sexp) : Option (Kind String String String) :=
  match s with
  | .list [.atom "inline", .atom a, syms] => do
    let xs ← Sexp.tagged "symbols" syms
    pure (.inline (← a.toNat?) (← xs.mapM parseInlined))
  | other => some (.user other.toStr)

def parseDefn (s : Sexp) : Option (Defn String String String) :=
  match s with
  | .list [.atom "actionfn", .atom _, .atom f, .atom ty, kind] => do
    let fallible ← (if f = "fallible" then some true else if f = "infallible" then some false else none)
    pure { fallible := fallible, retType := ty, kind := ← parseKind kind }
  | _ => none

/-- the untouched head of the dump (prefix … conversions) and the grammar proper -/
def parseGrammar (inl : List String) (s : Sexp) : Option (List Sexp × G) :=
  match s with
  | .list [.atom "rgrammar", p, r, st, te, co, nts, acts] => do
    let ns ← Sexp.tagged "nonterminals" nts
    let as ← Sexp.tagged "actions" acts
    pure ([p, r, st, te, co], { nonterminals := ← ns.mapM (parseNt inl), actions := ← as.mapM parseDefn })
  | _ => none

def lst (tag : String) (items : List String) : String :=
  "(" ++ tag ++ String.join (items.map (" " ++ ·)) ++ ")"

def showSymbol : Symbol String String → String
  | .nt n => s!"(nonterminal {n})"
  | .term t => s!"(terminal {t})"

def showInlined : InlinedSymbol String String → String
  | .original s => s!"(original {showSymbol s})"
  | .inlined a ss => s!"(inlined {a} {lst "symbols" (ss.map showSymbol)})"

def showKind : Kind String String String → String
  | .user p => p
  | .inline a ss => s!"(inline {a} {lst "symbols" (ss.map showInlined)})"

def showDefn (i : Nat) (d : Defn String String String) : String :=
  s!"(actionfn {i} {if d.fallible then "fallible" else "infallible"} {d.retType} {showKind d.kind})"

def showNt (d : NtData String String String) : String :=
  let prods := d.productions.map fun p => s!"(prod {p.action} {lst "symbols" (p.symbols.map showSymbol)})"
  s!"(nt {d.name} {d.extra} {lst "prods" prods})"

def showGrammar (head : List Sexp) (g : G) : String :=
  let rec enum (i : Nat) : List (Defn String String String) → List String
    | [] => []
    | d :: ds => showDefn i d :: enum (i + 1) ds
  lst "rgrammar" (head.map Sexp.toStr ++
    [lst "nonterminals" (g.nonterminals.map showNt), lst "actions" (enum 0 g.actions)])

def hexBody (s : String) : String := (encStr s).drop 1 |>.toString

def cycleMessage (nt : String) : String :=
  "x" ++ hexBody "cyclic inline directive: `" ++ (nt.drop 1).toString ++ hexBody "` would have to be inlined into itself"

def decNames (s : String) : List String := if s = "-" then [] else s.splitOn ","

/-- split off the first `k` space-separated words; the rest of the line stays intact -/
def splitHead (line : String) (k : Nat) : List String × String :=
  let rec go (k : Nat) (cs : List Char) (acc : List String) : List String × String :=
    match k with
    | 0 => (acc.reverse, String.ofList cs)
    | k + 1 =>
      let w := cs.takeWhile (· ≠ ' ')
      let rest := (cs.dropWhile (· ≠ ' ')).dropWhile (· = ' ')
      go k rest (String.ofList w :: acc)
  go k (line.trimAscii.toString.toList) []

/-! `emit_inline_action_code`, lines after the function header -/

def locExpr (pfx : String) : LocSrc → String
  | .argStart i => s!"{pfx}{i}.0.clone()"
  | .argEnd i => s!"{pfx}{i}.2.clone()"
  | .lookbehind => s!"{pfx}lookbehind.clone()"
  | .lookahead => s!"{pfx}lookahead.clone()"

/-- body of the generated function for a grammar without type parameters and without grammar
    parameters: the `let` lines of the two loops and the final call, one string per `rust!` line -/
def emitBody (pfx : String) (defnFallible hostFallible : Bool) (isFallible : Nat → Bool)
    (action : Nat) (symbols : List (InlinedSymbol String String)) : List String :=
  let steps := plan symbols
  let numFlat := numFlatArgs symbols
  let loop1 := steps.flatMap fun
    | .orig _ => []
    | .inl t _ a len =>
      [s!"let {pfx}start{t} = {locExpr pfx (startSrc numFlat a len)};",
       s!"let {pfx}end{t} = {locExpr pfx (endSrc numFlat a len)};"]
  let loop2 := steps.flatMap fun
    | .orig _ => []
    | .inl t act a len =>
      [s!"let {pfx}temp{t} = {pfx}action{act}("] ++
      (List.range len).map (fun i => s!"{pfx}{a + i},") ++
      (if len = 0 then [s!"&{pfx}start{t},", s!"&{pfx}end{t},"] else []) ++
      [if isFallible act then ")?;" else ");",
       s!"let {pfx}temp{t} = ({pfx}start{t}, {pfx}temp{t}, {pfx}end{t});"]
  let (okBegin, okEnd) :=
    match defnFallible, hostFallible with
    | true, false => ("Ok(", ")")
    | _, _ => ("", "")
  let call := [s!"{okBegin}{pfx}action{action}("] ++
    steps.map (fun
      | .orig a => s!"{pfx}{a},"
      | .inl t _ _ _ => s!"{pfx}temp{t},") ++
    [s!"){okEnd}"]
  loop1 ++ loop2 ++ call

/-- the hypotheses `WF` and `Filed` of the C14 theorems, checked on every grammar read -/
def wellFormed (g : G) : Bool :=
  let names := g.nonterminals.map (·.name)
  g.nonterminals.all (fun d => d.productions.all fun p =>
    decide (p.action < g.actions.length) && p.nonterminal == d.name) &&
  names.eraseDups.length == names.length

def step (line : String) : String :=
  let (hd, rest) := splitHead line 2
  match hd with
  | ["inline", names] =>
    match Sexp.parse rest >>= parseGrammar (decNames names) with
    | none => "bad-op"
    | some (head, g) =>
      if !wellFormed g then "hypothesis-WF-violated" else
      match inlineGrammar g with
      | .ok g' => "ok " ++ showGrammar head g'
      | .error (.cycle nt) => "error inline " ++ cycleMessage nt
      | .error .outOfFuel => "out-of-fuel"
      | .panic => "panic"
  | ["order", names] =>
    match Sexp.parse rest >>= parseGrammar (decNames names) with
    | none => "bad-op"
    | some (_, g) =>
      match inlineOrder g with
      | .ok order => "ok " ++ ",".intercalate order
      | .error (.cycle nt) => "error inline " ++ cycleMessage nt
      | .error .outOfFuel => "out-of-fuel"
  | ["emit", pfx] =>
    -- rest = "<defnFallible> <hostFallible> <fallible action indices, comma separated or -> <kind sexp>"
    let (hd2, rest2) := splitHead rest 3
    match hd2, decStr pfx, Sexp.parse rest2 >>= parseKind with
    | [df, hf, falls], some pfx, some (.inline a syms) =>
      let fs := (decNames falls).filterMap String.toNat?
      "|".intercalate ((emitBody pfx (df = "1") (hf = "1") (fun i => fs.contains i) a syms).map encStr)
    | _, _, _ => "bad-op"
  | _ => "bad-op"

def main : IO Unit := lineLoop step
