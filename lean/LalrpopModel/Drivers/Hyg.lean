import LalrpopModel.Model.Hyg
import LalrpopModel.Model.Proto
/-! `lpm_hyg`: line-protocol driver for M-HYG (C25).
    `prefix <x-hex grammar text>`        → the prefix `parse_grammar` chooses (hex)
    `tiers <name:l.l.l;name:-;…>`        → the rule names after precedence expansion, `,`-separated hex
    `fresh <x-hex prefix> <i>`           → `fresh_name(i)` (hex) -/
open LalrpopModel LalrpopModel.Hyg LalrpopModel.Proto

def decNt (s : String) : Option (List Char × List Nat) :=
  match s.splitOn ":" with
  | [n, ls] => do
    let name ← decStr n
    let lvls ← if ls = "-" then some [] else (ls.splitOn ".").mapM String.toNat?
    pure (name.toList, lvls)
  | _ => none

def step (line : String) : String :=
  match words line with
  | ["prefix", t] =>
    match decStr t with
    | some s => encStr (String.ofList (choosePrefix s.toList))
    | none => "bad-op"
  | ["tiers", spec] =>
    match (spec.splitOn ";").mapM decNt with
    | some nts => ",".intercalate ((expandNames nts).map fun n => encStr (String.ofList n))
    | none => "bad-op"
  | ["fresh", p, i] =>
    match decStr p, i.toNat? with
    | some p, some i => encStr (String.ofList (freshName p.toList i))
    | _, _ => "bad-op"
  | _ => "bad-op"

def main : IO Unit := lineLoop step
