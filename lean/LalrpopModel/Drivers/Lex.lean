import LalrpopModel.Model.Lex
import LalrpopModel.Model.Proto
/-! `lpm_lex`: line-protocol driver for M-LEX (C09 runtime part, lexer part of C08).

`lex <skip bits> <x hex text> <table>` — `table` = `o:e:i.j.k;…` (or `-`): for byte offsets `o ≤ e`
of the text, the indices of the patterns matching `text[o..e]` exactly (computed on the Rust side by
an engine independent of `Matcher::next`).  The oracle's `matchSet` looks a byte string up by
content; `dead` is constantly `false` (`scan_dead_irrelevant` in Props/C09: a sound `dead` does not
change the result).  Answer: the token stream of `Lex.tokens` (the fixed `next`):
`T:start:index:end … (I:loc | E)`.  `lexorig` runs `n` calls of the unfixed `nextOrig` instead. -/
open LalrpopModel LalrpopModel.Lex LalrpopModel.Proto

def parseCell (bytes : List UInt8) (s : String) : Option (List UInt8 × List Nat) :=
  match s.splitOn ":" with
  | [o, e, set] => do
    let o ← o.toNat?
    let e ← e.toNat?
    let is ← (set.splitOn ".").mapM (·.toNat?)
    pure ((bytes.drop o).take (e - o), is)
  | _ => none

def parseTable (bytes : List UInt8) (s : String) : Option (List (List UInt8 × List Nat)) :=
  if s = "-" then some [] else (s.splitOn ";").mapM (parseCell bytes)

def mkOracle (tbl : List (List UInt8 × List Nat)) : Oracle UInt8 where
  matchSet p := match tbl.find? (fun c => c.1 == p) with
    | some c => c.2
    | none => []
  dead _ := false

def showItem : Item UInt8 → String
  | .tok s i _ e => s!"T:{s}:{i}:{e}"
  | .invalid l => s!"I:{l}"
  | .eof => "E"
  | .panic => "P"

def isFinal : Item UInt8 → Bool
  | .tok .. => false
  | _ => true

def showStream (items : List (Item UInt8)) : String :=
  let closed := match items.getLast? with
    | some it => if isFinal it then items else items ++ [Item.eof]
    | none => [Item.eof]
  " ".intercalate (closed.map showItem)

def parseBits (s : String) : List Bool := s.toList.map (· == '1')

def step (line : String) : String :=
  match words line with
  | ["lex", bits, text, table] =>
    match decBytes text with
    | some bytes =>
      match parseTable bytes table with
      | some tbl => showStream (tokens (mkOracle tbl) (parseBits bits) (init bytes))
      | none => "bad-op"
    | none => "bad-op"
  | ["lexorig", n, bits, text, table] =>
    match n.toNat?, decBytes text with
    | some n, some bytes =>
      match parseTable bytes table with
      | some tbl =>
        " ".intercalate ((iterate (nextOrig (mkOracle tbl) (parseBits bits)) n (init bytes)).map showItem)
      | none => "bad-op"
    | _, _ => "bad-op"
  | _ => "bad-op"

def main : IO Unit := lineLoop step
