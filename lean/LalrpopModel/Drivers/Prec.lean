import LalrpopModel.Model.Prec
import LalrpopModel.Model.PrecSexp
import LalrpopModel.Model.Proto
import LalrpopModel.Model.PrecClimb
import LalrpopModel.Model.C18FileText
/-!
`lpm_prec`: line-protocol driver for M-PREC (C12, C18).  One request per line:

* `expand <sexp of the grammar after resolve>` ↦ `ok <sexp after precedence>` | `panic <kind>`
* `climb <levels tightest first, e.g. BL:+,-;PR:~> <token> ..` ↦ rendered tree | `error` (oracle of the behavioural runs)
* `linecol <x hex text> <lo> <hi>` ↦ `l1 c1 l2 c2` | `panic`;  `highlight <x hex text> <lo> <hi>` ↦ `ok` | `panic`
* `revalexpand <sexp after resolve>`           ↦ re-validation + expansion: `ok ..` | `panic ..` | `error <kind> [arg]`
* `validate <sexp of the parsed grammar>`      ↦ `ok` | `error <kind> [arg]`   (validator of the tree = the
                                                 repaired one, `fixed = true`)
* `validateorig <sexp>`                        ↦ the same for the validator before the repair (`fixed = false`)
-/
open LalrpopModel LalrpopModel.PT LalrpopModel.Prec LalrpopModel.Proto

def showPanic : Panic → String
  | .argUnwrap => "unwrapNone"
  | .noLevels => "unwrapNone"
  | .levelParse => "levelParse"
  | .assocParse => "assocParse"
  | .firstLevelAssoc => "firstLevelAssoc"
  | .ambiguousId id => "ambiguousId " ++ encStr (String.ofList id)
  | .restNotEmpty => "restNotEmpty"

def showVErr : VErr → String
  | .missingFirst => "missingFirst"
  | .levelParse v => "levelParse " ++ encStr (String.ofList v)
  | .precArgName n => "precArgName " ++ encStr (String.ofList n)
  | .precNoArg => "precNoArg"
  | .assocParse v => "assocParse " ++ encStr (String.ofList v)
  | .assocArgName n => "assocArgName " ++ encStr (String.ofList n)
  | .assocNoArg => "assocNoArg"
  | .assocOnFirstLevel l => s!"assocOnFirstLevel {l}"

def splitCmd (line : String) : String × String :=
  let l := line.trimAscii.toString
  match l.splitOn " " with
  | [] => ("", "")
  | c :: rest => (c, " ".intercalate rest)

def stepClimb (arg : String) : String :=
  match (arg.splitOn " ").filter (· ≠ "") with
  | spec :: toks =>
    match Climb.decLevels spec with
    | some lvls => Climb.parseAll lvls.reverse toks
    | none => "bad-op"
  | [] => "bad-op"

def stepFileText (cmd : String) (arg : String) : String :=
  match (arg.splitOn " ").filter (· ≠ "") with
  | [t, a, b] =>
    match decBytes t, a.toNat?, b.toNat? with
    | some bs, some lo, some hi =>
      let nl := FileText.newlines bs
      if cmd = "linecol" then
        match FileText.lineCol nl lo, FileText.lineCol nl hi with
        | some (l1, c1), some (l2, c2) => s!"{l1} {c1} {l2} {c2}"
        | _, _ => "panic"
      else
        match FileText.highlightArith nl bs.length lo hi with
        | some () => "ok"
        | none => "panic"
    | _, _, _ => "bad-op"
  | _ => "bad-op"

def step (line : String) : String :=
  let (cmd, arg) := splitCmd line
  if cmd = "climb" then stepClimb arg else
  if cmd = "linecol" ∨ cmd = "highlight" then stepFileText cmd arg else
  match (Sexp.parse arg).bind decGrammar with
  | none => "bad-op"
  | some g =>
    if cmd = "expand" then
      match expandPrecedence g with
      | .ok g' => "ok " ++ (encGrammar g').toStr
      | .error p => "panic " ++ showPanic p
    else if cmd = "revalexpand" then
      match revalidateThenExpand g with
      | .ok g' => "ok " ++ (encGrammar g').toStr
      | .error (.panic p) => "panic " ++ showPanic p
      | .error (.norm e) => "error " ++ showVErr e
    else if cmd = "validate" ∨ cmd = "validateorig" then
      match validateItems (cmd = "validate") g.items with
      | .ok () => "ok"
      | .error e => "error " ++ showVErr e
    else if cmd = "roundtrip" then (encGrammar g).toStr
    else "bad-op"

def main : IO Unit := lineLoop step
