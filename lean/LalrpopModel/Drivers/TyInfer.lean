import LalrpopModel.Model.TyInfer
import LalrpopModel.Model.Proto
import LalrpopModel.Model.Sexp
/-! `lpm_tyinfer`: line-protocol driver for M-TYINFER (C19).

`infer <recheck 0|1> <loc: x<hex>|-> <err: x<hex>> <deftok: x<hex>> <terms: k=t,k=t,…|-> <sexp>`
where `<sexp>` is what `stage_dump(…, "token_check")` prints after `ok `, `terms` maps terminal keys
(`q:<text>` quoted, `r:<text>` regex, `b:<name>` bare; all hex-encoded) to their types
(`types.terminal_type`, computed by the harness from the conversions it generated) and `deftok` is
the default terminal type.  Types are printed `TypeRepr`s.

Answer: `ok name=type,…` (hex, sorted by name; nonterminal order = grammar order) or `error`;
when the reverse iteration order gives a different answer: `ok … || <other answer>`. -/
open LalrpopModel LalrpopModel.TyInfer LalrpopModel.Proto

/-- split a printed type at top-level commas -/
def splitTop (cs : List Char) : List String :=
  let rec go (cs : List Char) (depth : Nat) (prev : Char) (cur : List Char) (acc : List String) : List String :=
    match cs with
    | [] => (String.ofList cur.reverse :: acc).reverse
    | c :: rest =>
      if c = ',' ∧ depth = 0 then go rest depth c [] (String.ofList cur.reverse :: acc)
      else
        let depth' :=
          if c = '(' ∨ c = '[' ∨ c = '<' then depth + 1
          else if c = ')' ∨ c = ']' ∨ (c = '>' ∧ prev ≠ '-') then depth - 1
          else depth
        go rest depth' c (c :: cur) acc
  go cs 0 ' ' [] []

/-- index of the parenthesis matching the one at position 0 -/
def matchingParen (cs : List Char) : Option Nat :=
  let rec go (cs : List Char) (i : Nat) (depth : Nat) : Option Nat :=
    match cs with
    | [] => none
    | c :: rest =>
      if c = '(' then go rest (i + 1) (depth + 1)
      else if c = ')' then (if depth = 1 then some i else go rest (i + 1) (depth - 1))
      else go rest (i + 1) depth
  go cs 0 0

def untupleStr (s : String) : Option (List String) :=
  let cs := s.toList
  match cs with
  | '(' :: _ =>
    if matchingParen cs = some (cs.length - 1) then
      let inner := (cs.drop 1).take (cs.length - 2)
      if inner.all (· = ' ') then some []
      else some ((splitTop inner).map (fun p => p.trimAscii.toString))
    else none
  | _ => none

abbrev Tpl := List (Option String)

def substTpl : Tpl → List String → String
  | [], _ => ""
  | some txt :: rest, args => txt ++ substTpl rest args
  | none :: rest, a :: args => a ++ substTpl rest args
  | none :: rest, [] => "?" ++ substTpl rest []

def termKeyOfSexp : Sexp → Option String
  | .list [.atom "quoted", .atom a] => (decStr a).map ("q:" ++ ·)
  | .list [.atom "regex", .atom a] => (decStr a).map ("r:" ++ ·)
  | .list [.atom "bare", .atom a] => (decStr a).map ("b:" ++ ·)
  | _ => none

def patOfSexp : Sexp → Pat
  | .list (.atom "tuple" :: ps) => .tuple (ps.attach.map fun ⟨p, _⟩ => patOfSexp p)
  | _ => .name

partial def symOfSexp : Sexp → Option Sym
  | .list [.atom "terminal", .list [.atom "error"]] => some .error
  | .list [.atom "terminal", t] => (termKeyOfSexp t).map .term
  | .list [.atom "nonterminal", .atom a] => (decStr a).map .nt
  | .list [.atom "choose", s] => (symOfSexp s).map .choose
  | .list [.atom "named", _, s] => (symOfSexp s).map .named
  | .list [.atom "tupled", p, s] => (symOfSexp s).map (.tupled (patOfSexp p))
  | .list [.atom "error"] => some .error
  | _ => none

def actOfSexp : Sexp → Option Act
  | .list [.atom "noaction"] => some .default
  | .list [.atom "user", _] => some .user
  | .list [.atom "fallible", _] => some .user
  | .list [.atom "lookahead"] => some .lookahead
  | .list [.atom "lookbehind"] => some .lookbehind
  | _ => none

def altOfSexp : Sexp → Option Alt
  | .list [.atom "alt", .list (.atom "expr" :: syms), _, act, _] => do
    pure ⟨← actOfSexp act, ← syms.mapM symOfSexp⟩
  | _ => none

/-- a hole `‵…‵` of a printed annotation: terminal (quoted / regex / bare) or nonterminal -/
def holeSym (ntNames : List String) (txt : String) : Sym :=
  let cs := txt.toList
  if ntNames.contains txt then .nt txt
  else match cs with
    | '"' :: rest => .term ("q:" ++ String.ofList (rest.take (rest.length - 1)))
    | 'r' :: '#' :: '"' :: rest => .term ("r:" ++ String.ofList (rest.take (rest.length - 2)))
    | _ => if txt = "error" then .error else .term ("b:" ++ txt)

def tyRefOfString (ntNames : List String) (s : String) : TyRef Tpl :=
  let parts := s.splitOn "`"
  let rec go (ps : List String) (isHole : Bool) : Tpl × List Sym :=
    match ps with
    | [] => ([], [])
    | p :: rest =>
      let r := go rest (!isHole)
      if isHole then (none :: r.1, holeSym ntNames p :: r.2) else (some p :: r.1, r.2)
  let r := go parts false
  ⟨r.1, r.2⟩

def ntOfSexp (ntNames : List String) : Sexp → Option (Option (Nt Tpl))
  | .list [.atom "nt", .atom name, _, _, _, ty, .list (.atom "alts" :: alts)] => do
    let name ← decStr name
    let decl ← match ty with
      | .list [.atom "notype"] => some none
      | .list [.atom "type", .atom t] => (decStr t).map (fun t => some (tyRefOfString ntNames t))
      | _ => none
    let alts ← alts.mapM altOfSexp
    pure (some ⟨name, decl, alts⟩)
  | .list (.atom "nt" :: _) => none
  | _ => some none

def ntNameOfSexp : Sexp → Option String
  | .list (.atom "nt" :: .atom name :: _) => decStr name
  | _ => none

def grammarOfSexp : Sexp → Option (Grammar Tpl)
  | .list [.atom "grammar", _, _, .list (.atom "items" :: items)] => do
    let names := items.filterMap ntNameOfSexp
    let nts ← items.mapM (ntOfSexp names)
    pure ⟨nts.filterMap id⟩
  | _ => none

def parseTerms (s : String) : List (String × String) :=
  if s = "-" then [] else
  (s.splitOn ",").filterMap fun kv =>
    match kv.splitOn "=" with
    | [k, v] => do pure (← decStr k, ← decStr v)
    | _ => none

def optStr (s : String) : Option String := if s = "-" then none else decStr s

def insertSorted (x : String × String) : List (String × String) → List (String × String)
  | [] => [x]
  | y :: ys => if x.1 < y.1 then x :: y :: ys else y :: insertSorted x ys

def render (r : Res String (List (String × String))) : String :=
  match r.1 with
  | .error _ => "error"
  | .ok memo =>
    let sorted := memo.foldl (fun acc x => insertSorted x acc) []
    "ok " ++ ",".intercalate (sorted.map fun (k, v) => encStr k ++ "=" ++ encStr v)

def handle (line : String) : String :=
  match words line with
  | "infer" :: rc :: loc :: err :: deftok :: terms :: rest =>
    match Sexp.parse (" ".intercalate rest), decStr err, decStr deftok with
    | some sx, some errTy, some defTok =>
      match grammarOfSexp sx with
      | none => "bad-grammar"
      | some G =>
        let tt := parseTerms terms
        let env : Env String Tpl := {
          tuple := fun ts => "(" ++ ", ".intercalate ts ++ ")"
          untuple := untupleStr
          subst := substTpl
          termTy := fun k => (tt.lookup k).getD defTok
          locTy := optStr loc
          errorTy := errTy }
        let order := G.nts.map (·.name)
        let fuel := 4 * order.length + 16
        let a := render (infer env G (rc = "1") fuel order)
        let b := render (infer env G (rc = "1") fuel order.reverse)
        if a = b then a else a ++ " || " ++ b
    | _, _, _ => "bad-request"
  | _ => "bad-op"

def main : IO Unit := lineLoop handle
