import LalrpopModel.Model.Err
import LalrpopModel.Model.Proto
/-! `lpm_err`: line-protocol driver for M-ERR (C28).  One request per line, one answer per line. -/
open LalrpopModel LalrpopModel.Err LalrpopModel.Proto

abbrev PE := ParseError Int String String

def decExpected (s : String) : Option (List String) :=
  if s = "-" then some [] else (s.splitOn ",").mapM decStr

def encExpected (ex : List String) : String :=
  if ex.isEmpty then "-" else ",".intercalate (ex.map encStr)

def decErr (s : String) : Option PE :=
  match fields s with
  | ["IT", l] => do pure (.invalidToken (← l.toInt?))
  | ["UE", l, ex] => do pure (.unrecognizedEof (← l.toInt?) (← decExpected ex))
  | ["UT", a, t, b, ex] => do
      pure (.unrecognizedToken (← a.toInt?) (← decStr t) (← b.toInt?) (← decExpected ex))
  | ["ET", a, t, b] => do pure (.extraToken (← a.toInt?) (← decStr t) (← b.toInt?))
  | ["US", e] => do pure (.user (← decStr e))
  | _ => none

def encErr : PE → String
  | .invalidToken l => s!"IT:{l}"
  | .unrecognizedEof l ex => s!"UE:{l}:{encExpected ex}"
  | .unrecognizedToken a t b ex => s!"UT:{a}:{encStr t}:{b}:{encExpected ex}"
  | .extraToken a t b => s!"ET:{a}:{encStr t}:{b}"
  | .user e => s!"US:{encStr e}"

def step (line : String) : String :=
  match words line with
  | ["maploc", "add", k, e] =>
    match k.toInt?, decErr e with
    | some k, some e => encErr (mapLocation (· + k) e)
    | _, _ => "bad-op"
  | ["maploc", "mul", k, e] =>
    match k.toInt?, decErr e with
    | some k, some e => encErr (mapLocation (· * k) e)
    | _, _ => "bad-op"
  | ["maploc", "cnt", e] =>
    -- stateful closure: the n-th call (n = 0, 1, …) returns loc * 10 + n
    match decErr e with
    | some e =>
      let (r, n) := mapLocationM (σ := Int) (fun n l => (l * 10 + n, n + 1)) 0 e
      s!"{encErr r} calls={n}"
    | none => "bad-op"
  | ["maptok", "pre", p, e] =>
    match decStr p, decErr e with
    | some p, some e => encErr (mapToken (p ++ ·) e)
    | _, _ => "bad-op"
  | ["maperr", "pre", p, e] =>
    match decStr p, decErr e with
    | some p, some e => encErr (mapError (p ++ ·) e)
    | _, _ => "bad-op"
  | ["display", e] =>
    match decErr e with
    | some e => encStr (render (display (fun (l : Int) => toString l) id id e))
    | none => "bad-op"
  | ["from", x] =>
    match decStr x with
    | some x => encErr (fromError x)
    | none => "bad-op"
  | _ => "bad-op"

def main : IO Unit := lineLoop step
