import LalrpopModel.Model.RustLex
import LalrpopModel.Model.Rw
import LalrpopModel.Model.Proto
/-! `lpm_rustlex`: line-protocol driver for M-RUSTLEX / M-RW (C24).
    `lexfile <path>`            → FNV-1a hash and count of the token stream of the file (after dropping `skip` header lines: `lexfile <skip> <path>`)
    `events <c01> <w01> <x-hex of event lines>` → everything `RustWrite` writes (hex) or `panic`
    `lex <x-hex text>`          → the tokens, one per `|`-separated field
    `row <c01> <w01> <indent> <i:xhex,…>` → `write_table_row` output (hex)
    `fmt <c01> <w01> <indent> <xhex s>`   → `write_fmt` output (hex) and new indent, or `panic` -/
open LalrpopModel LalrpopModel.RustLex LalrpopModel.Rw LalrpopModel.Proto

def showTok : RTok → String
  | .word s => "w" ++ encStr (String.ofList s)
  | .punct c => "p" ++ encStr (String.singleton c)
  | .str s => "s" ++ encStr (String.ofList s)
  | .raw s => "r" ++ encStr (String.ofList s)
  | .chr s => "c" ++ encStr (String.ofList s)
  | .lifetime s => "l" ++ encStr (String.ofList s)
  | .doc s => "d" ++ encStr (String.ofList s)
  | .unterminated => "U"

def fnv (h : UInt64) (s : String) : UInt64 :=
  s.toUTF8.foldl (fun h b => (h ^^^ b.toUInt64) * 0x100000001b3) h

/-- streaming run of the transducer over a string (same `step`/`flush` as `lexRust`), folding the
    printed tokens into a hash -/
def lexHash (s : String) : UInt64 × Nat := Id.run do
  let mut m : Mode := .normal
  let mut h : UInt64 := 0xcbf29ce484222325
  let mut n : Nat := 0
  for c in s.toList do
    let (ts, m') := step m c
    for t in ts do
      h := fnv (fnv h (showTok t)) "|"
      n := n + 1
    m := m'
  for t in flush m do
    h := fnv (fnv h (showTok t)) "|"
    n := n + 1
  return (h, n)

def dropLines (k : Nat) (s : String) : String :=
  "\n".intercalate ((s.splitOn "\n").drop k)

def decEntries (s : String) : Option (List (Int × List Char)) :=
  if s = "-" then some [] else
  (s.splitOn ",").mapM fun e =>
    match e.splitOn ":" with
    | [i, c] => do pure (← i.toInt?, (← decStr c).toList)
    | _ => none

def decEvent (l : String) : Option Ev :=
  match words l with
  | ["L", t] => do pure (.line (← decStr t).toList)
  | ["C", t] => do pure (.cline (← decStr t).toList)
  | ["R", es] => do pure (.row (← decEntries es))
  | _ => none

def runEvents (c w : String) (evs : String) : String :=
  match decStr evs with
  | none => "bad-op"
  | some text =>
    match ((text.splitOn "\n").filter (· ≠ "")).mapM decEvent with
    | none => "bad-op"
    | some evs =>
      match render ⟨c == "1", w == "1"⟩ 0 evs with
      | some out => encStr (String.ofList out)
      | none => "panic"

def stepLine (line : String) : IO String := do
  match words line with
  | ["lexfile", skip, path] =>
    match skip.toNat? with
    | some k =>
      let text ← IO.FS.readFile path
      let (h, n) := lexHash (dropLines k text)
      pure s!"{h} {n}"
    | none => pure "bad-op"
  | ["events", c, w, evs] => pure (runEvents c w evs)
  | ["lex", t] =>
    match decStr t with
    | some s => pure ("|".intercalate ((lexRust s.toList).map showTok))
    | none => pure "bad-op"
  | ["row", c, w, ind, es] =>
    match ind.toNat?, decEntries es with
    | some ind, some es => pure (encStr (String.ofList (writeTableRow ⟨c == "1", w == "1"⟩ ind es)))
    | _, _ => pure "bad-op"
  | ["fmt", c, w, ind, s] =>
    match ind.toNat?, decStr s with
    | some ind, some s =>
      match writeFmt ⟨c == "1", w == "1"⟩ ind s.toList with
      | some (out, ind') => pure s!"{encStr (String.ofList out)} {ind'}"
      | none => pure "panic"
    | _, _ => pure "bad-op"
  | _ => pure "bad-op"

partial def main : IO Unit := do
  let stdin ← IO.getStdin
  let stdout ← IO.getStdout
  let rec go : IO Unit := do
    let line ← stdin.getLine
    if line.isEmpty then return ()
    stdout.putStrLn (← stepLine line)
    go
  go
  stdout.flush
