import LalrpopModel.Model.Cfg
import LalrpopModel.Model.PrecSexp
import LalrpopModel.Model.Proto
/-!
`lpm_cfg`: line-protocol driver for M-CFG (C15).  One request per line:

* `remove <features> <sexp of the parsed grammar>` ↦ the S-expression after `remove_disabled_decls`
* `validcfg <sexp of one attribute>`               ↦ `ok` | `error <kind> [x<hex id>]`
* `envfeat <x<hex of a variable name>>`            ↦ `some x<hex>` | `none`

`<features>`: `-` = unset, `+` = the empty set, otherwise comma separated `x<hex>` names.
-/
open LalrpopModel LalrpopModel.PT LalrpopModel.Cfg LalrpopModel.Proto

def decFeatures (s : String) : Option Features :=
  if s = "-" then some none
  else if s = "+" then some (some [])
  else do
    let names ← (s.splitOn ",").mapM decStr
    pure (some (names.map String.toList))

def showCfgErr : CfgErr → String
  | .cfgArity => "cfgArity"
  | .notArity => "notArity"
  | .anyArity => "anyArity"
  | .allArity => "allArity"
  | .featureShape => "featureShape"
  | .unexpected id => "unexpected " ++ encStr (String.ofList id)

def splitWords (line : String) (n : Nat) : List String :=
  -- first n words, then the rest as one string
  let ws := (line.trimAscii.toString.splitOn " ")
  ws.take n ++ [" ".intercalate (ws.drop n)]

def step (line : String) : String :=
  match splitWords line 1 with
  | ["remove", rest] =>
    match splitWords rest 1 with
    | [fs, sexp] =>
      match decFeatures fs, (Sexp.parse sexp).bind decGrammar with
      | some fs, some g => (encGrammar (removeDisabled fs g)).toStr
      | _, _ => "bad-op"
    | _ => "bad-op"
  | ["validcfg", sexp] =>
    match (Sexp.parse sexp).bind decAttr with
    | some a =>
      match validateCfgAttr a with
      | .ok () => "ok"
      | .error e => "error " ++ showCfgErr e
    | none => "bad-op"
  | ["envfeat", v] =>
    match decStr v with
    | some var =>
      match envFeature var.toList with
      | some f => "some " ++ encStr (String.ofList f)
      | none => "none"
    | none => "bad-op"
  | _ => "bad-op"

def main : IO Unit := lineLoop step
