import LalrpopModel.Model.LR.Canon
import LalrpopModel.Model.Proto
/-!
`lpm_canon`: line-protocol driver for M-CANON (reference canonical LR(1) / LALR(1) constructions).

  grammar nterm=<n> nnt=<n> start=<p> errterm=<i|-> prods=<lhs:sym.sym…,…>     (as `lpm_lr`)
      → `ok`; builds both reference automata for the following lines
  verdict lr1|lalr [tag…]     → `ok` | `conflict` | `fuel` | `panic`
  states lr1|lalr             → number of states of the conflict-free reference automaton | `-`
  selfcheck lr1|lalr          → `valid` | `invalid <clause>` (reference automaton, encoded, through
                                `validateSound && validateComplete`) | `-` (no conflict-free automaton)
  witness lr1|lalr            → the first conflicts of the reference with the items of their states | `-`
  dump lr1|lalr               → the reference automaton in the `automaton` line format | `-`
  tables … / automaton …      → `ok` (as `lpm_lr`: what lalrpop emitted / exported)
  validate                    → `valid` | `invalid <clause>` for the loaded tables + automaton
  iso lr1|lalr                → `iso` | `differ <why>`: loaded automaton vs reference up to state renaming
                                (items with lookahead sets, shifts, gotos, reductions)
-/
open LalrpopModel LalrpopModel.LR LalrpopModel.LR.Canon LalrpopModel.Proto

def csvInts (s : String) : Option (List Int) :=
  if s = "" then some [] else (s.splitOn ",").mapM String.toInt?
def csvNats (s : String) : Option (List Nat) :=
  if s = "" then some [] else (s.splitOn ",").mapM String.toNat?
def csvBools (s : String) : Option (List Bool) :=
  (csvNats s).map (·.map (· != 0))

def kv (ws : List String) (k : String) : Option String :=
  ws.findSome? fun w => if w.startsWith (k ++ "=") then some ((w.drop (k.length + 1)).toString) else none

def parseTables (ws : List String) : Option Tables := do
  let nterm ← (← kv ws "nterm").toNat?
  let rec_ ← (← kv ws "recovery").toNat?
  let action ← csvInts (← kv ws "action")
  let eof ← csvInts (← kv ws "eof")
  let gotoS ← kv ws "goto"
  let goto ← (if gotoS = "" then some [] else (gotoS.splitOn ";").mapM csvNats)
  let plen ← csvNats (← kv ws "plen")
  let plhs ← csvNats (← kv ws "plhs")
  let isstart ← csvBools (← kv ws "isstart")
  let fallible ← csvBools (← kv ws "fallible")
  pure { nTerm := nterm, action := action, eofAction := eof, goto := goto, prodLen := plen, prodLhs := plhs,
         isStart := isstart, fallible := fallible, usesRecovery := rec_ != 0 }

def parseSym (s : String) : Option Sym :=
  if s.startsWith "t" then (s.drop 1).toString.toNat?.map Sym.t
  else if s.startsWith "n" then (s.drop 1).toString.toNat?.map Sym.n
  else none

def parseGrammar (ws : List String) : Option Grammar := do
  let nterm ← (← kv ws "nterm").toNat?
  let nnt ← (← kv ws "nnt").toNat?
  let start ← (← kv ws "start").toNat?
  let ps ← kv ws "prods"
  let prods ← (if ps = "" then some [] else (ps.splitOn ",").mapM fun p =>
    match p.splitOn ":" with
    | [l, r] => do
      let lhs ← l.toNat?
      let rhs ← (if r = "" then some [] else (r.splitOn ".").mapM parseSym)
      pure ({ lhs := lhs, rhs := rhs } : Production)
    | _ => none)
  pure { prods := prods, nTerm := nterm, nNT := nnt, startProd := start }

/-- lookahead of the export as a `TokenSet` bit; the pseudo token `error` has bit `nTerm + 1` -/
def parseBit (nTerm : Nat) (s : String) : Option Nat :=
  if s = "eof" then some nTerm
  else if s = "error" then some (nTerm + 1)
  else if s.startsWith "t" then (s.drop 1).toString.toNat?
  else none

/-- the exported automaton with the items' lookahead sets kept (as `State`s of the model) -/
def parseStates (nTerm : Nat) (ws : List String) : Option (List State) := do
  let body := " ".intercalate (ws.filter (fun w => !w.startsWith "states="))
  let entries := (body.splitOn "|").map (fun e => (e.splitOn " ").filter (· ≠ ""))
  let rec go (es : List (List String)) (cur : Option State) (acc : List State) : Option (List State) :=
    let flush (acc : List State) : List State :=
      match cur with
      | some st => st :: acc
      | none => acc
    match es with
    | [] => some (flush acc).reverse
    | e :: rest =>
      match e with
      | "state" :: _ =>
        go rest (some { index := (flush acc).length, items := [], shifts := [], reductions := [], gotos := [] }) (flush acc)
      | "item" :: p :: d :: las =>
        match cur, p.toNat?, d.toNat?, las.mapM (parseBit nTerm) with
        | some st, some p, some d, some las =>
          go rest (some { st with items := st.items ++ [⟨p, d, las⟩] }) acc
        | _, _, _, _ => none
      | ["shift", t, s] =>
        match cur, t.toNat?, s.toNat? with
        | some st, some t, some s => go rest (some { st with shifts := st.shifts ++ [(t, s)] }) acc
        | _, _, _ => none
      | "reduce" :: p :: las =>
        match cur, p.toNat?, las.mapM (parseBit nTerm) with
        | some st, some p, some las => go rest (some { st with reductions := st.reductions ++ [(las, p)] }) acc
        | _, _, _ => none
      | ["goto", b, s] =>
        match cur, b.toNat?, s.toNat? with
        | some st, some b, some s => go rest (some { st with gotos := st.gotos ++ [(b, s)] }) acc
        | _, _, _ => none
      | [] => go rest cur acc
      | _ => none
  go entries none []

/-- the `Automaton` view `lpm_lr` builds from the same line (`error` pseudo lookaheads dropped,
    repeated cores kept once) -/
def automatonOf (nTerm : Nat) (sts : List State) : Automaton :=
  { states := sts.map fun st =>
      { cores := (st.items.map Item.core).eraseDups, shifts := st.shifts,
        reduces := st.reductions.map fun r => (r.2, (r.1.filter (· ≤ nTerm)).map (laOfBit nTerm)),
        gotos := st.gotos } }

def firstFailing (G : Grammar) (T : Tables) (A : Automaton) (ann : Ann) : String :=
  if !checkShape G T A then "invalid V0-shape"
  else if !checkStart G T then "invalid V0-start"
  else if !checkCores G T A then "invalid V3-cores"
  else if !checkReduces G T A then "invalid V3-reduces"
  else if !checkGotos G A then "invalid V3-gotos"
  else if !checkFirst G ann then "invalid V1-first"
  else if !checkItems G T A ann then "invalid V2-items"
  else "valid"

def buildFuel : Nat := 20000

structure Sess where
  G : Grammar := default
  lr1 : Verdict := .fuel
  lalr : Verdict := .fuel
  T : Tables := default
  impl : List State := []

def Sess.pick (S : Sess) (which : String) : Option Verdict :=
  if which = "lr1" then some S.lr1 else if which = "lalr" then some S.lalr else none

def showBits (nTerm : Nat) (s : TokenSet) : String :=
  " ".intercalate (s.map fun b => if b < nTerm then s!"t{b}" else if b = nTerm then "eof" else "error")

def showState (nTerm : Nat) (i : Nat) (st : State) : String :=
  "|".intercalate (
    [s!"state {i}"] ++
    st.items.map (fun it => s!"item {it.prod} {it.dot} {showBits nTerm it.la}") ++
    st.shifts.map (fun (t, s) => s!"shift {t} {s}") ++
    st.reductions.map (fun (la, p) => s!"reduce {p} {showBits nTerm la}") ++
    st.gotos.map (fun (b, s) => s!"goto {b} {s}"))

def showStates (nTerm : Nat) (sts : List State) : String :=
  s!"states={sts.length} " ++ "|".intercalate ((List.range sts.length).map fun i => showState nTerm i (sts.getD i default))

def showConflict (nTerm : Nat) (sts : List State) (c : Conflict) : String :=
  let act := match c.action with
    | .shift t s => s!"shift t{t} -> {s}"
    | .reduce p => s!"reduce {p}"
  s!"[state {c.state}: on {showBits nTerm c.lookahead} reduce {c.production} vs {act}; {showState nTerm c.state (sts.getD c.state default)}]"

def doWitness (nTerm : Nat) : Verdict → String
  | .conflict b => s!"conflicts={b.conflicts.length} " ++ " ".intercalate ((b.conflicts.take 3).map (showConflict nTerm b.states))
  | _ => "-"

/-- simultaneous walk from the start states; `m[s]` = reference state paired with loaded state `s` -/
def isoLoop (impl ref : List State) : Nat → List (Nat × Nat) → List (Option Nat) → Option String
  | 0, _, _ => some "fuel"
  | _ + 1, [], m => if m.all Option.isSome then none else some "unreachable-loaded-state"
  | k + 1, (s, r) :: work, m =>
    match m.getD s none with
    | some r' => if r' = r then isoLoop impl ref k work m else some s!"state {s} paired with {r'} and {r}"
    | none =>
      match impl[s]?, ref[r]? with
      | some a, some b =>
        if mmCollect a.items != mmCollect b.items then some s!"items of state {s} / reference {r}"
        else if redCollect a.reductions != redCollect b.reductions then some s!"reductions of state {s} / reference {r}"
        else if a.shifts.length != b.shifts.length || a.gotos.length != b.gotos.length then
          some s!"transitions of state {s} / reference {r}"
        else
          let succ (xs ys : List (Nat × Nat)) : Option (List (Nat × Nat)) :=
            xs.mapM fun (x, s') => (lookupAssoc ys x).map fun r' => (s', r')
          match succ a.shifts b.shifts, succ a.gotos b.gotos with
          | some w1, some w2 => isoLoop impl ref k (work ++ w1 ++ w2) (m.set s (some r))
          | _, _ => some s!"transition symbols of state {s} / reference {r}"
      | _, _ => some "index"

def doIso (impl : List State) : Verdict → String
  | .accept ref =>
    if impl.length != ref.length then s!"differ states {impl.length} vs {ref.length}"
    else
      let edges := (impl.map fun st => st.shifts.length + st.gotos.length).foldl (· + ·) 0
      match isoLoop impl ref (edges + impl.length + 2) [(0, 0)] (List.replicate impl.length none) with
      | none => "iso"
      | some why => "differ " ++ why
  | _ => "-"

def stepLine (S : Sess) (line : String) : Sess × String :=
  match words line with
  | "grammar" :: ws =>
    match parseGrammar ws with
    | some G =>
      let lr1 := lr1Verdict G buildFuel
      let lalr := match lr1 with
        | .accept states =>
          (match collapse states with
           | .ok b _ => if b.conflicts.isEmpty then Verdict.accept b.states else .conflict b
           | .assertFailed => .panic)
        | v => v
      ({ S with G := G, lr1 := lr1, lalr := lalr, impl := [] }, "ok")
    | none => (S, "bad-op")
  | "verdict" :: which :: _ =>
    match S.pick which with
    | some (.accept _) => (S, "ok")
    | some (.conflict _) => (S, "conflict")
    | some .fuel => (S, "fuel")
    | some .panic => (S, "panic")
    | none => (S, "bad-op")
  | ["states", which] =>
    match S.pick which with
    | some (.accept sts) => (S, toString sts.length)
    | some _ => (S, "-")
    | none => (S, "bad-op")
  | ["selfcheck", which] =>
    match S.pick which with
    | some (.accept sts) =>
      let A := toAutomaton S.G.nTerm sts
      let T := toTables S.G A
      (S, firstFailing S.G T A (computeAnn S.G T A.states.length))
    | some _ => (S, "-")
    | none => (S, "bad-op")
  | ["witness", which] =>
    match S.pick which with
    | some v => (S, doWitness S.G.nTerm v)
    | none => (S, "bad-op")
  | ["dump", which] =>
    match S.pick which with
    | some (.accept sts) => (S, showStates S.G.nTerm sts)
    | some (.conflict b) => (S, showStates S.G.nTerm b.states)
    | some _ => (S, "-")
    | none => (S, "bad-op")
  | "tables" :: ws =>
    match parseTables ws with
    | some T' => ({ S with T := T' }, "ok")
    | none => (S, "bad-op")
  | "automaton" :: ws =>
    match parseStates S.G.nTerm ws with
    | some sts => ({ S with impl := sts }, "ok")
    | none => (S, "bad-op")
  | ["validate"] =>
    let A := automatonOf S.G.nTerm S.impl
    (S, firstFailing S.G S.T A (computeAnn S.G S.T A.states.length))
  | ["iso", which] =>
    match S.pick which with
    | some v => (S, doIso S.impl v)
    | none => (S, "bad-op")
  | _ => (S, "bad-op")

def main : IO Unit := lineLoopS ({} : Sess) stepLine
