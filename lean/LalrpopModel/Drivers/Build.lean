import LalrpopModel.Model.Build
import LalrpopModel.Model.Proto
/-!
`lpm_build`: line-protocol driver for M-BUILD (C21, C22).  Stateful: one request per line, one
answer per line.  The generator, the hash function and the version string are tables sent by the
harness (`version`, `def`), i.e. the model runs with the *observed* values of the real code.

```
variant old|fixed | variant tmp=<0|1> rmfirst=<0|1> utf8=<0|1> exact=<0|1> trunc=<0|1>   (which repairs the source has)
version <hex>
def <text-hex> <hashline-hex> ok|err <body-hex|-> <report-hex,report-hex…|->      -> def hyp=<bool>
reset <n> | save | restore
edit <i> <text-hex> | touch <i> | delout <i> | alter <i> <l1-hex> <l2-hex> | setout <i> <hex> | settmp <i> <hex>
build <i> [report] | fbuild <i> [report] | builddir | fbuilddir
plan <i> [force] [report]                       -> outcome and the action list with sizes
crash <i> <k> <j> [force] [report]              -> state after crashCut (plan …) k j
crashlimit <i> <n> [force] [report]             -> crash where a file would grow beyond n bytes
crashat <i> <point> [force] [report]            -> crash at a named point of process_file_into
```
Answers to state-changing requests: `<outcome> | <rs>;<rep>;<tmp>;<fresh> | …` per grammar, a file
being `-` or `<len>:<fnv1a-64 hex>`; `fresh` tells whether the `.rs` file was (re)created by the request.
-/
open LalrpopModel LalrpopModel.Build LalrpopModel.Proto

structure Def where
  text : Bytes
  hash : Bytes
  gen : GenOut

structure DSt where
  variant : Variant := .old
  version : Bytes := []
  defs : List Def := []
  n : Nat := 0
  st : St := St.init fun _ => none
  saved : Option St := none

def DSt.params (d : DSt) : Params where
  version := d.version
  hash := fun g => match d.defs.find? (·.text == g) with
    | some x => x.hash
    | none => []
  gen := fun g => match d.defs.find? (·.text == g) with
    | some x => x.gen
    | none => ⟨[], .error 0⟩

/-- the hypotheses of the C21/C22 theorems, evaluated on the real strings -/
def hypOk (p : Params) (g : Bytes) : Bool :=
  !p.version.contains NL && !(p.hash g).contains NL &&
  validUtf8 (p.version ++ [NL]) && validUtf8 (p.hash g ++ [NL]) &&
  trim (p.version ++ [NL]) == p.version && trim (p.hash g ++ [NL]) == p.hash g &&
  -- extra hypotheses of `padded_header_kept`
  trim ((p.version ++ [0x20]) ++ [NL]) == p.version && validUtf8 ((p.version ++ [0x20]) ++ [NL])

def hexArr (s : String) : Option Bytes :=
  let cs := s.toList
  match cs with
  | 'x' :: rest =>
    let rec go (cs : List Char) (acc : Array UInt8) : Option (Array UInt8) :=
      match cs with
      | [] => some acc
      | a :: b :: r =>
        match hexVal a, hexVal b with
        | some x, some y => go r (acc.push (UInt8.ofNat (x * 16 + y)))
        | _, _ => none
      | _ => none
    (go rest #[]).map (·.toList)
  | _ => none

def fnv (bs : Bytes) : UInt64 :=
  bs.foldl (fun h b => (h ^^^ b.toUInt64) * 1099511628211) 14695981039346656037

def hex64 (x : UInt64) : String :=
  String.ofList ((List.range 16).map fun k => hexDigit ((x >>> (UInt64.ofNat (60 - 4 * k))).toNat % 16))

def showFile : Option File → String
  | none => "-"
  | some f => s!"{f.data.length}:{hex64 (fnv f.data)}"

def showOutcome : Outcome → String
  | .upToDate => "ok"
  | .built => "ok"
  | .genErr _ => "err"
  | .ioErr _ => "err"

def showState (d : DSt) (clock0 : Nat) : String :=
  " | ".intercalate ((List.range d.n).map fun i =>
    let fresh := match d.st.fs (.rs i) with
      | some f => if f.stamp ≥ clock0 then "1" else "0"
      | none => "0"
    s!"{showFile (d.st.fs (.rs i))};{showFile (d.st.fs (.rep i))};{showFile (d.st.fs (.tmp i))};{fresh}")

def showPath : Path → String
  | .rs i => s!"rs{i}"
  | .rep i => s!"rep{i}"
  | .tmp i => s!"tmp{i}"

def showAct : FsAct → String
  | .remove p => s!"remove:{showPath p}"
  | .create p => s!"create:{showPath p}"
  | .openKeep p => s!"open-no-truncate:{showPath p}"
  | .write p bs => s!"write:{showPath p}:{bs.length}"
  | .rename s t => s!"rename:{showPath s}:{showPath t}"

def cfgOf (force : Bool) (opts : List String) : Cfg :=
  { force := force || opts.contains "force", emitReport := opts.contains "report" }

/-- crash where some file would grow beyond `n` bytes (RLIMIT_FSIZE): position `(k, j)` for `crashCut` -/
def limitCut (acts : List FsAct) (n : Nat) : Nat × Nat :=
  let rec go (acts : List FsAct) (k : Nat) (sizes : List (Path × Nat)) : Nat × Nat :=
    match acts with
    | [] => (k, 0)
    | .create p :: rest => go rest (k + 1) ((p, 0) :: sizes.filter (·.1 != p))
    | .openKeep p :: rest => go rest (k + 1) ((p, 0) :: sizes.filter (·.1 != p))
    | .write p bs :: rest =>
      let cur := match sizes.find? (·.1 == p) with
        | some x => x.2
        | none => 0
      if cur + bs.length > n then (k, n - cur)
      else go rest (k + 1) ((p, cur + bs.length) :: sizes.filter (·.1 != p))
    | _ :: rest => go rest (k + 1) sizes
  go acts 0 []

/-- named crash points of `process_file_into` as positions in the action list -/
def pointCut (acts : List FsAct) (i : Nat) (name : String) : Option Nat :=
  let pre := 1 + (acts.filter fun a => match a with
    | .create (.rep j) => j == i
    | .write (.rep j) _ => j == i
    | _ => false).length
  match name with
  | "after_needs_rebuild" => some 0
  | "after_remove" => some 1
  | "after_generate" => some pre
  | "after_create" => some (pre + 1)
  | "after_version_line" => some (pre + 2)
  | "after_hash_line" => some (pre + 3)
  | "after_body" => some (pre + 4)
  | "after_rename" => some (pre + 5)
  | _ => none

def natOf (s : String) : Option Nat := s.toNat?

def doBuild (d : DSt) (i : Nat) (cfg : Cfg) : DSt × String :=
  let c0 := d.st.clock
  let r := build d.variant d.params cfg d.st i
  let d' := { d with st := r.2 }
  (d', s!"{showOutcome r.1} | {showState d' c0}")

def doBuildDir (d : DSt) (cfg : Cfg) : DSt × String :=
  let c0 := d.st.clock
  let ids := (List.range d.n).filter fun i => (d.st.gr i).isSome
  let r := buildDir d.variant d.params cfg d.st ids
  let d' := { d with st := r.2 }
  -- only the overall result of `process_dir` is observable
  let overall := if r.1.all (·.isOk) then "ok" else "err"
  (d', s!"{overall} | {showState d' c0}")

def doOp (d : DSt) (op : Op) : DSt × String :=
  let c0 := d.st.clock
  let d' := { d with st := step d.variant d.params d.st op }
  (d', s!"- | {showState d' c0}")

def doCrash (d : DSt) (i : Nat) (cfg : Cfg) (pos : List FsAct → Nat × Nat) : DSt × String :=
  let c0 := d.st.clock
  let acts := (plan d.variant d.params cfg d.st i).2
  let (k, j) := pos acts
  let cut := crashCut acts k j
  let d' := { d with st := applyActs d.st cut }
  (d', s!"crash | {showState d' c0}")

def stepLine (d : DSt) (line : String) : DSt × String :=
  match words line with
  | ["variant", "old"] => ({ d with variant := .old }, "ok")
  | ["variant", "fixed"] => ({ d with variant := .fixed }, "ok")
  | "variant" :: flags =>
    -- e.g. `variant tmp=1 rmfirst=0 utf8=1 exact=1` (flags not mentioned are off)
    let on (k : String) := flags.contains (k ++ "=1")
    if flags.all fun f => ["tmp=0", "tmp=1", "rmfirst=0", "rmfirst=1", "utf8=0", "utf8=1", "exact=0", "exact=1",
        "trunc=0", "trunc=1"].contains f
    then ({ d with variant := ⟨on "tmp", on "rmfirst", on "utf8", on "exact", !flags.contains "trunc=0"⟩ }, "ok")
    else (d, "bad-op")
  | ["version", v] =>
    match hexArr v with
    | some v => ({ d with version := v }, "ok")
    | none => (d, "bad-op")
  | ["def", t, h, kind, body, reps] =>
    match hexArr t, hexArr h with
    | some t, some h =>
      let reps? : Option (List Bytes) := if reps = "-" then some [] else (reps.splitOn ",").mapM hexArr
      let res? : Option (Except Nat Bytes) :=
        if kind = "ok" then (hexArr body).map .ok else if kind = "err" then some (.error 1) else none
      match reps?, res? with
      | some reps, some res =>
        let d' := { d with defs := ⟨t, h, ⟨reps, res⟩⟩ :: d.defs.filter (·.text != t) }
        (d', s!"def hyp={hypOk d'.params t}")
      | _, _ => (d, "bad-op")
    | _, _ => (d, "bad-op")
  | ["save"] => ({ d with saved := some d.st }, "ok")
  | ["restore"] =>
    match d.saved with
    | some st => ({ d with st := st }, "ok")
    | none => (d, "bad-op")
  | ["reset", n] =>
    match natOf n with
    | some n => ({ d with n := n, st := St.init fun _ => none }, "ok")
    | none => (d, "bad-op")
  | ["edit", i, t] =>
    match natOf i, hexArr t with
    | some i, some t => doOp d (.edit i t)
    | _, _ => (d, "bad-op")
  | ["touch", i] =>
    match natOf i with
    | some i => doOp d (.touch i)
    | none => (d, "bad-op")
  | ["delout", i] =>
    match natOf i with
    | some i => doOp d (.deleteOut i)
    | none => (d, "bad-op")
  | ["alter", i, a, b] =>
    match natOf i, hexArr a, hexArr b with
    | some i, some a, some b => doOp d (.alterHeader i a b)
    | _, _, _ => (d, "bad-op")
  | ["settmp", i, x] =>
    -- a stale temporary file planted by hand
    match natOf i, hexArr x with
    | some i, some x =>
      let c0 := d.st.clock
      let d' := { d with st := handWrite d.st (.tmp i) x }
      (d', s!"- | {showState d' c0}")
    | _, _ => (d, "bad-op")
  | ["setout", i, x] =>
    match natOf i, hexArr x with
    | some i, some x => doOp d (.setOut i x)
    | _, _ => (d, "bad-op")
  | "build" :: i :: opts =>
    match natOf i with
    | some i => doBuild d i (cfgOf false opts)
    | none => (d, "bad-op")
  | "fbuild" :: i :: opts =>
    match natOf i with
    | some i => doBuild d i (cfgOf true opts)
    | none => (d, "bad-op")
  | "builddir" :: opts => doBuildDir d (cfgOf false opts)
  | "fbuilddir" :: opts => doBuildDir d (cfgOf true opts)
  | "plan" :: i :: opts =>
    match natOf i with
    | some i =>
      let r := plan d.variant d.params (cfgOf false opts) d.st i
      (d, s!"{showOutcome r.1} {" ".intercalate (r.2.map showAct)}")
    | none => (d, "bad-op")
  | "crash" :: i :: k :: j :: opts =>
    match natOf i, natOf k, natOf j with
    | some i, some k, some j => doCrash d i (cfgOf false opts) fun _ => (k, j)
    | _, _, _ => (d, "bad-op")
  | "crashlimit" :: i :: n :: opts =>
    match natOf i, natOf n with
    | some i, some n => doCrash d i (cfgOf false opts) fun acts => limitCut acts n
    | _, _ => (d, "bad-op")
  | "crashat" :: i :: name :: opts =>
    match natOf i with
    | some i =>
      let cfg := cfgOf false opts
      match pointCut (plan d.variant d.params cfg d.st i).2 i name with
      | some k => doCrash d i cfg fun _ => (k, 0)
      | none => (d, "bad-op")
    | none => (d, "bad-op")
  | _ => (d, "bad-op")

def main : IO Unit := lineLoopS ({} : DSt) stepLine
