import LalrpopModel.Model.ReLit
import LalrpopModel.Model.Nfa
import LalrpopModel.Model.Proto
import LalrpopModel.Model.Sexp
/-! `lpm_relit`: line-protocol driver for the escaping layers of C10 (`Model/ReLit.lean`) and the
Lean regex matcher (`Nfa.acceptsB` on `Nfa.fromRe`, proved equal to `Re.denote` by `nfa_correct`).

* `escape <x hex s>`                         → `x<hex of regex_syntax::escape s>`
* `parselit <x hex s>`                       → `ok <hir sexp>` of `parse_literal(s)` (model: escape, then the literal fragment)
* `escdebug <x hex s> <flags>`               → `x<hex of the text between the quotes of format!("{s:?}")>`;
                                               `flags` = one `0/1` per char: rendered as `\u{…}` by the standard library
* `readstr <x hex text after the opening quote>` → `ok x<hex of the denoted string> <rest length>` | `error`
* `matchall | <hir sexp> | <x hex w1> <x hex w2> …` → one `0/1` per word: does the HIR's NFA accept it -/
open LalrpopModel LalrpopModel.Re LalrpopModel.ReLit LalrpopModel.Nfa LalrpopModel.Proto

partial def hirOfSexp : Sexp → Option Hir
  | .list [.atom "empty"] => some .empty
  | .list (.atom "lit" :: bs) => do
      let ns ← bs.mapM (fun | .atom a => a.toNat? | _ => none)
      pure (.lit ns)
  | .list (.atom "cls" :: rs) => do
      let ns ← rs.mapM (fun | .list [.atom a, .atom b] => do pure ((← a.toNat?), (← b.toNat?)) | _ => none)
      pure (.cls ns)
  | .list (.atom "clsb" :: rs) => do
      let ns ← rs.mapM (fun | .list [.atom a, .atom b] => do pure ((← a.toNat?), (← b.toNat?)) | _ => none)
      pure (.cls ns)
  | .list [.atom "look", _] => some .look
  | .list [.atom "rep", .atom mn, .atom mx, .atom g, sub] => do
      let mn ← mn.toNat?
      let mx ← if mx = "inf" then some none else mx.toNat?.map some
      pure (.rep mn mx (g = "1") (← hirOfSexp sub))
  | .list [.atom "cap", .atom named, sub] => do pure (.cap (named = "1") (← hirOfSexp sub))
  | .list (.atom "cat" :: es) => do pure (.cat (← es.mapM hirOfSexp))
  | .list (.atom "alt" :: es) => do pure (.alt (← es.mapM hirOfSexp))
  | _ => none

def scalarsOf (s : String) : List Nat := s.toList.map Char.toNat
def strOf (cs : List Nat) : String := String.ofList (cs.map Char.ofNat)

def showHir : Hir → String
  | .empty => "(empty)"
  | .lit bs => "(lit" ++ String.join (bs.map fun b => s!" {b}") ++ ")"
  | _ => "(other)"

def step (line : String) : String :=
  let parts := (line.trimAscii.toString.splitOn " | ")
  match parts with
  | [] => "bad-op"
  | hd :: rest =>
    match words hd, rest with
    | ["escape", s], [] =>
      match decStr s with
      | some s => encStr (strOf (escape (scalarsOf s)))
      | none => "bad-op"
    | ["parselit", s], [] =>
      match decStr s with
      | some s =>
        match parseLiteral (scalarsOf s) with
        | some h => "ok " ++ showHir h
        | none => "outside-fragment"
      | none => "bad-op"
    | ["escdebug", s, flags], [] =>
      match decStr s with
      | some s =>
        let cs := scalarsOf s
        let fl := flags.toList.map (· == '1')
        -- `uni` is looked up per position: render char by char
        let out := (cs.zip fl).flatMap fun (c, f) => escDebugChar (fun _ => f) c
        encStr (strOf out)
      | none => "bad-op"
    | ["escdebug", s], [] =>
      match decStr s with
      | some s => if s.isEmpty then encStr "" else "bad-op"
      | none => "bad-op"
    | ["readstr", t], [] =>
      match decStr t with
      | some t =>
        let cs := scalarsOf t
        match readStrLit (cs.length + 1) cs with
        | some (v, r) => s!"ok {encStr (strOf v)} {r.length}"
        | none => "error"
      | none => "bad-op"
    | ["matchall"], [h, ws] =>
      match Sexp.parse h >>= hirOfSexp with
      | some e =>
        match fromRe e with
        | .ok n =>
          String.ofList ((words ws).map fun w =>
            match decStr w with
            | some w => if acceptsB n (scalarsOf w) then '1' else '0'
            | none => '?')
        | .error _ => "unsupported"
      | none => "bad-op"
    | _, _ => "bad-op"

def main : IO Unit := lineLoop step
