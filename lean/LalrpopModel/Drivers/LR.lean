import LalrpopModel.Model.LR.Validate
import LalrpopModel.Model.LR.Cyk
import LalrpopModel.Model.Proto
/-!
`lpm_lr`: line-protocol driver for M-LR.

  tables nterm=<n> recovery=<0|1> action=<csv> eof=<csv> goto=<row;row;…> plen=<csv> plhs=<csv> isstart=<csv> fallible=<csv>
      → `ok`            (loads the tables used by the following `run` lines)
  run fail=<n|-> start=<int> input=<item,item,…>      item = l:kind:r (kind `-` = no index) | E<id>
      → `ok <tree> pulled=<n> acts=<m> trace=<p.p.…>` | `err <perr> pulled=… acts=… trace=…` | `panic` | `budget`
  validate | validate2 | validate3     → `valid` | `invalid V<k>-…` (first failing clause; `validate3` = validate + V6 + V7)
  v7min                                → least fuel passing V7, or `-`
-/
open LalrpopModel LalrpopModel.LR LalrpopModel.Proto

def csvInts (s : String) : Option (List Int) :=
  if s = "" then some [] else (s.splitOn ",").mapM String.toInt?
def csvNats (s : String) : Option (List Nat) :=
  if s = "" then some [] else (s.splitOn ",").mapM String.toNat?
def csvBools (s : String) : Option (List Bool) :=
  (csvNats s).map (·.map (· != 0))

def kv (ws : List String) (k : String) : Option String :=
  ws.findSome? fun w => if w.startsWith (k ++ "=") then some ((w.drop (k.length + 1)).toString) else none

def parseTables (ws : List String) : Option Tables := do
  let nterm ← (← kv ws "nterm").toNat?
  let rec_ ← (← kv ws "recovery").toNat?
  let action ← csvInts (← kv ws "action")
  let eof ← csvInts (← kv ws "eof")
  let gotoS ← kv ws "goto"
  let goto ← (if gotoS = "" then some [] else (gotoS.splitOn ";").mapM csvNats)
  let plen ← csvNats (← kv ws "plen")
  let plhs ← csvNats (← kv ws "plhs")
  let isstart ← csvBools (← kv ws "isstart")
  let fallible ← csvBools (← kv ws "fallible")
  pure { nTerm := nterm, action := action, eofAction := eof, goto := goto, prodLen := plen, prodLhs := plhs,
         isStart := isstart, fallible := fallible, usesRecovery := rec_ != 0 }

def parseItems (s : String) : Option (List Item) :=
  if s = "" then some [] else
    let rec go (parts : List String) (id : Nat) : Option (List Item) :=
      match parts with
      | [] => some []
      | p :: rest => do
        let it ← (if p.startsWith "E" then (p.drop 1).toString.toNat?.map Item.err
          else match p.splitOn ":" with
            | [l, k, r] => do
              let l ← l.toInt?
              let r ← r.toInt?
              let kind ← (if k = "-" then some none else k.toNat?.map some)
              pure (Item.tok { l := l, kind := kind, id := id, r := r })
            | _ => none)
        let more ← go rest (id + 1)
        pure (it :: more)
    go (s.splitOn ",") 0

def showExp (ex : List Nat) : String := ",".intercalate (ex.map toString)
def showTok (t : Tok) : String := s!"{t.l},{t.id},{t.r}"
def showPErr : PErr → String
  | .unrecognizedEof l ex => s!"UE({l};{showExp ex})"
  | .unrecognizedToken t ex => s!"UT({showTok t};{showExp ex})"
  | .extraToken t => s!"ET({showTok t})"
  | .user e => s!"US({e})"

mutual
partial def showTree : Tree → String
  | .leaf t => s!"t{t.id}"
  | .node p l r ks => s!"({p} {l} {r}{showForest ks})"
  | .err e d => s!"(! {showPErr e} [{",".intercalate (d.map (fun t => toString t.id))}])"
partial def showForest : Forest → String
  | .nil => ""
  | .cons t ts => " " ++ showTree t ++ showForest ts
end

def runFuel : Nat := 30000
def acceptsFuel : Nat := 20000

def doRun (T : Tables) (ws : List String) : String :=
  match kv ws "fail", kv ws "start", kv ws "input" with
  | some f, some st, some inp =>
    match st.toInt?, parseItems inp with
    | some startLoc, some items =>
      let failAt := if f = "-" then none else f.toNat?
      let (c, ph) := run T acceptsFuel failAt startLoc runFuel (init startLoc items) .pull
      let tail := s!" pulled={c.pulled} acts={c.acts} trace={".".intercalate (c.trace.reverse.map toString)}"
      match ph with
      | .done (.ok v) => "ok " ++ showTree v ++ tail
      | .done (.err e) => "err " ++ showPErr e ++ tail
      | .done (.panic .outOfFuel) => "budget"
      | .done (.panic _) => "panic"
      | _ => "budget"
    | _, _ => "bad-op"
  | _, _, _ => "bad-op"

/-- `grammar nterm=<n> nnt=<n> start=<p> errterm=<i|-> prods=<lhs:sym.sym…,…>` (sym = t<i> | n<i>) -/
def parseSym (s : String) : Option Sym :=
  if s.startsWith "t" then (s.drop 1).toString.toNat?.map Sym.t
  else if s.startsWith "n" then (s.drop 1).toString.toNat?.map Sym.n
  else none

def parseGrammar (ws : List String) : Option Grammar := do
  let nterm ← (← kv ws "nterm").toNat?
  let nnt ← (← kv ws "nnt").toNat?
  let start ← (← kv ws "start").toNat?
  let ps ← kv ws "prods"
  let prods ← (if ps = "" then some [] else (ps.splitOn ",").mapM fun p =>
    match p.splitOn ":" with
    | [l, r] => do
      let lhs ← l.toNat?
      let rhs ← (if r = "" then some [] else (r.splitOn ".").mapM parseSym)
      pure ({ lhs := lhs, rhs := rhs } : Production)
    | _ => none)
  pure { prods := prods, nTerm := nterm, nNT := nnt, startProd := start }

def parseLA (s : String) : Option LA :=
  if s = "eof" then some none
  else if s.startsWith "t" then (s.drop 1).toString.toNat?.map some
  else none

/-- `automaton states=<n> state …|item p d la…|shift t s|reduce p la…|goto nt s|…` -/
def parseAutomaton (ws : List String) : Option Automaton := do
  let body := " ".intercalate (ws.filter (fun w => !w.startsWith "states="))
  let entries := (body.splitOn "|").map (fun e => (e.splitOn " ").filter (· ≠ ""))
  let rec go (es : List (List String)) (cur : Option AState) (acc : List AState) : Option (List AState) :=
    match es with
    | [] => some (match cur with
        | some st => (st :: acc).reverse
        | none => acc.reverse)
    | e :: rest =>
      match e with
      | "state" :: _ =>
        go rest (some { cores := [], shifts := [], reduces := [], gotos := [] })
          (match cur with
           | some st => st :: acc
           | none => acc)
      | "item" :: p :: d :: _ =>
        match cur, p.toNat?, d.toNat? with
        | some st, some p, some d =>
          go rest (some { st with cores := if st.cores.contains (p, d) then st.cores else st.cores ++ [(p, d)] }) acc
        | _, _, _ => none
      | ["shift", t, s] =>
        match cur, t.toNat?, s.toNat? with
        | some st, some t, some s => go rest (some { st with shifts := st.shifts ++ [(t, s)] }) acc
        | _, _, _ => none
      | "reduce" :: p :: las =>
        match cur, p.toNat? with
        | some st, some p =>
          -- the pseudo-token `error` (Token::Error) never indexes a table column: dropped
          let las := las.filterMap parseLA
          go rest (some { st with reduces := st.reduces ++ [(p, las)] }) acc
        | _, _ => none
      | ["goto", b, s] =>
        match cur, b.toNat?, s.toNat? with
        | some st, some b, some s => go rest (some { st with gotos := st.gotos ++ [(b, s)] }) acc
        | _, _, _ => none
      | [] => go rest cur acc
      | _ => none
  let sts ← go entries none []
  pure { states := sts }

structure Sess where
  T : Tables := default
  G : Grammar := default
  A : Automaton := default

def firstFailing (G : Grammar) (T : Tables) (A : Automaton) (ann : Ann) : String :=
  if !checkShape G T A then "invalid V0-shape"
  else if !checkStart G T then "invalid V0-start"
  else if !checkCores G T A then "invalid V3-cores"
  else if !checkReduces G T A then "invalid V3-reduces"
  else if !checkGotos G A then "invalid V3-gotos"
  else if !checkFirst G ann then "invalid V1-first"
  else if !checkItems G T A ann then "invalid V2-items"
  else "valid"

/-- `validate2`: the clauses of `validate`, then V5 (productive, non-empty item sets) and V6
    (start production reduced on EOF only), which the C04/C05 theorems need in addition -/
def firstFailing2 (G : Grammar) (T : Tables) (A : Automaton) (ann : Ann) : String :=
  let r := firstFailing G T A ann
  if r != "valid" then r
  else if !checkProductive G A then "invalid V5-productive"
  else if !checkStartEof G T then "invalid V6-start-eof"
  else "valid"

/-- `validate3`: the clauses of `validate`, then V6 (start production reduced on EOF only) and V7
    (the reduce loops terminate: `checkTerm` with fuel `termFuel`), the hypotheses of the C08
    termination theorems (`Props/LRTermThms.lean`); V5 is not needed there -/
def firstFailing3 (G : Grammar) (T : Tables) (A : Automaton) (ann : Ann) : String :=
  let r := firstFailing G T A ann
  if r != "valid" then r
  else if !checkStartEof G T then "invalid V6-start-eof"
  else if !checkTerm T (termFuel T) then "invalid V7-termination"
  else "valid"

/-- `v7min`: the least fuel with which V7 holds (`-` if there is none up to `termFuel`) -/
def v7min (T : Tables) : String :=
  match (List.range (termFuel T + 1)).find? (fun F => checkTerm T F) with
  | some F => toString F
  | none => "-"

def encCheck (G : Grammar) (T : Tables) (A : Automaton) : String :=
  if encodeAction G.nTerm A != T.action then "diff action"
  else if encodeEof A != T.eofAction then "diff eof"
  else if T.prodLen != G.prods.map (·.rhs.length) then "diff prodlen"
  else if !(List.range G.prods.length).all (fun p =>
      T.isStart.getD p false || T.prodLhs.getD p 0 == (G.prods.getD p default).lhs) then "diff prodlhs"
  else if !(List.range A.states.length).all (fun s =>
      ((A.states.getD s default).gotos).all (fun (B, s') => T.gotoAt s B == s')) then "diff goto"
  else "same"

/-- `runc`: same run, rendered as the compiled-parser runner renders it: the action log is the
    trace without the final reduce of the start production (an internal action) -/
def doRunC (T : Tables) (ws : List String) : String :=
  match kv ws "fail", kv ws "start", kv ws "input" with
  | some f, some st, some inp =>
    match st.toInt?, parseItems inp with
    | some startLoc, some items =>
      let failAt := if f = "-" then none else f.toNat?
      let (c, ph) := run T acceptsFuel failAt startLoc runFuel (init startLoc items) .pull
      let tr := c.trace.reverse
      match ph with
      | .done (.ok v) =>
        let log := tr.dropLast
        s!"ok {showTree v} pulled={c.pulled} log={".".intercalate (log.map toString)}"
      | .done (.err e) => s!"err {showPErr e} pulled={c.pulled} log={".".intercalate (tr.map toString)}"
      | .done (.panic .outOfFuel) => "budget"
      | .done (.panic _) => "panic"
      | _ => "budget"
    | _, _ => "bad-op"
  | _, _, _ => "bad-op"

/-- `runx`: the expected list the recursive-ascent backend reports for the same run: the
    terminals with any action in the state where the error is raised
    (`ascent.rs::write_state_fn`, `successful_terminals`); `-` when the run does not end in
    `UnrecognizedToken`/`UnrecognizedEof` -/
def doRunX (T : Tables) (ws : List String) : String :=
  match kv ws "fail", kv ws "start", kv ws "input" with
  | some f, some st, some inp =>
    match st.toInt?, parseItems inp with
    | some startLoc, some items =>
      let failAt := if f = "-" then none else f.toNat?
      let (c, ph) := run T acceptsFuel failAt startLoc runFuel (init startLoc items) .pull
      let isUE := match ph with
        | .done (.err (.unrecognizedToken _ _)) => true
        | .done (.err (.unrecognizedEof _ _)) => true
        | _ => false
      if isUE then
        match c.states with
        | top :: _ =>
          let ex := (List.range T.nRepr).filter fun i => T.actionAt top i != some 0
          "x=" ++ showExp ex
        | [] => "-"
      else "-"
    | _, _ => "bad-op"
  | _, _, _ => "bad-op"

/-- `conts input=<items>`: terminals `a` (of `__TERMINAL`) such that the machine, run on the given
    tokens followed by one token of kind `a`, does not reject that last token -/
def doConts (T : Tables) (ws : List String) : String :=
  match kv ws "input" with
  | some inp =>
    match parseItems inp with
    | some items =>
      let n := items.length
      let ok := (List.range T.nRepr).filter fun a =>
        let extra : Item := .tok { l := 1000000, kind := some a, id := n, r := 1000001 }
        let (_, ph) := run T acceptsFuel none 0 runFuel (init 0 (items ++ [extra])) .pull
        match ph with
        | .done (.err (.unrecognizedToken t _)) => t.id != n
        | .done (.ok _) => true
        | .done (.err _) => true
        | _ => false
      ",".intercalate (ok.map toString)
    | none => "bad-op"
  | none => "bad-op"

def stepLine (S : Sess) (line : String) : Sess × String :=
  match words line with
  | "tables" :: ws =>
    match parseTables ws with
    | some T' => ({ S with T := T' }, "ok")
    | none => (S, "bad-op")
  | "grammar" :: ws =>
    match parseGrammar ws with
    | some G => ({ S with G := G }, "ok")
    | none => (S, "bad-op")
  | "automaton" :: ws =>
    match parseAutomaton ws with
    | some A => ({ S with A := A }, "ok")
    | none => (S, "bad-op")
  | ["validate"] =>
    let ann := computeAnn S.G S.T S.A.states.length
    (S, firstFailing S.G S.T S.A ann)
  | ["validate2"] =>
    let ann := computeAnn S.G S.T S.A.states.length
    (S, firstFailing2 S.G S.T S.A ann)
  | ["validate3"] =>
    let ann := computeAnn S.G S.T S.A.states.length
    (S, firstFailing3 S.G S.T S.A ann)
  | ["v7min"] => (S, v7min S.T)
  | ["enccheck"] => (S, encCheck S.G S.T S.A)
  | "run" :: ws => (S, doRun S.T ws)
  | ["member", ks] =>
    -- `member kinds=<csv>`: is the terminal string a sentence of the loaded grammar's start symbol?
    (S, match (if ks = "kinds=" then some [] else csvNats (ks.drop 6).toString), S.G.startSym with
        | some w, some st => if member S.G st w then "yes" else "no"
        | _, _ => "bad-op")
  | "runc" :: ws => (S, doRunC S.T ws)
  | "runx" :: ws => (S, doRunX S.T ws)
  | "conts" :: ws => (S, doConts S.T ws)
  | _ => (S, "bad-op")

def main : IO Unit := lineLoopS ({} : Sess) stepLine
