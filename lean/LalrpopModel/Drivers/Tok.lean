import LalrpopModel.Model.Tok
import LalrpopModel.Model.Proto
import LalrpopModel.Gen.TokFacts
/-! `lpm_tok`: line-protocol driver for M-TOK (C26).
    `tok <shift> <x-hex text>`  → the token stream as the `tokenize` hook prints it
    `cfgtok <legacy 0/1> <double bump 0/1> <shift> <x-hex text>` → same with an explicit `Cfg`
    `class start|continue|white` → maximal code point ranges of the character class -/
open LalrpopModel LalrpopModel.Tok LalrpopModel.Proto

def tokName : Tok → String × Option (List Char)
  | .enum_ => ("Enum", none) | .extern_ => ("Extern", none) | .grammar_ => ("Grammar", none)
  | .match_ => ("Match", none) | .else_ => ("Else", none) | .if_ => ("If", none) | .mut_ => ("Mut", none)
  | .pub_ => ("Pub", none) | .in_ => ("In", none) | .type_ => ("Type", none) | .where_ => ("Where", none)
  | .for_ => ("For", none) | .dyn_ => ("Dyn", none)
  | .use_ s => ("Use", some s) | .escape s => ("Escape", some s) | .id s => ("Id", some s)
  | .macroId s => ("MacroId", some s) | .lifetime s => ("Lifetime", some s)
  | .stringLiteral s => ("StringLiteral", some s) | .charLiteral s => ("CharLiteral", some s)
  | .regexLiteral s => ("RegexLiteral", some s)
  | .ampersand => ("Ampersand", none) | .bangEquals => ("BangEquals", none) | .bangTilde => ("BangTilde", none)
  | .colon => ("Colon", none) | .colonColon => ("ColonColon", none) | .comma => ("Comma", none)
  | .dotDot => ("DotDot", none) | .equals => ("Equals", none) | .equalsEquals => ("EqualsEquals", none)
  | .eqGtCode s => ("EqualsGreaterThanCode", some s)
  | .eqGtQuestionCode s => ("EqualsGreaterThanQuestionCode", some s)
  | .eqGtLookahead => ("EqualsGreaterThanLookahead", none) | .eqGtLookbehind => ("EqualsGreaterThanLookbehind", none)
  | .hash => ("Hash", none) | .greaterThan => ("GreaterThan", none) | .leftBrace => ("LeftBrace", none)
  | .leftBracket => ("LeftBracket", none) | .leftParen => ("LeftParen", none) | .lessThan => ("LessThan", none)
  | .lookahead => ("Lookahead", none) | .lookbehind => ("Lookbehind", none)
  | .minusGreaterThan => ("MinusGreaterThan", none) | .plus => ("Plus", none) | .question => ("Question", none)
  | .rightBrace => ("RightBrace", none) | .rightBracket => ("RightBracket", none) | .rightParen => ("RightParen", none)
  | .semi => ("Semi", none) | .star => ("Star", none) | .tildeTilde => ("TildeTilde", none)
  | .underscore => ("Underscore", none) | .bang => ("Bang", none) | .shebangAttribute s => ("ShebangAttribute", some s)

def codeName : ErrorCode → String
  | .unrecognizedToken => "UnrecognizedToken" | .unterminatedEscape => "UnterminatedEscape"
  | .unterminatedAsciiEscape => "UnterminatedAsciiEscape" | .unrecognizedEscape => "UnrecognizedEscape"
  | .unterminatedStringLiteral => "UnterminatedStringLiteral"
  | .unterminatedCharacterLiteral => "UnterminatedCharacterLiteral"
  | .unterminatedAttribute => "UnterminatedAttribute" | .unterminatedCode => "UnterminatedCode"
  | .expectedStringLiteral => "ExpectedStringLiteral" | .unterminatedBlockComment => "UnterminatedBlockComment"
  | .outOfFuel => "OutOfFuel"

def showItem : Item → String
  | .tok l t r =>
    match tokName t with
    | (k, none) => s!"{l}:{r}:{k}"
    | (k, some s) => s!"{l}:{r}:{k}:{encStr (String.ofList s)}"
  | .err l c => s!"E:{l}:{codeName c}"

def runTok (cfg : Cfg) (shift : String) (text : String) : String :=
  match shift.toNat?, decStr text with
  | some sh, some t => " ".intercalate ((tokenize cfg sh t.toList).map showItem)
  | _, _ => "bad-op"

def hexNat (n : Nat) : String := String.ofList (Nat.toDigits 16 n)

/-- maximal ranges of valid scalar values satisfying `p` -/
def classRanges (p : Char → Bool) : String := Id.run do
  let mut out : Array String := #[]
  let mut start : Option Nat := none
  let mut prev : Nat := 0
  for cp in [0:0x110000] do
    if 0xD800 ≤ cp ∧ cp ≤ 0xDFFF then continue
    if p (Char.ofNat cp) then
      match start with
      | some s =>
        if prev + 1 != cp then
          out := out.push s!"{hexNat s}-{hexNat prev}"
          start := some cp
      | none => start := some cp
      prev := cp
  match start with
  | some s => out := out.push s!"{hexNat s}-{hexNat prev}"
  | none => pure ()
  return ",".intercalate out.toList

def step (line : String) : String :=
  match words line with
  | ["tok", shift, text] => runTok sourceCfg shift text
  | ["cfgtok", a, b, shift, text] => runTok { rawLegacy := a == "1", shebangDoubleBump := b == "1" } shift text
  | ["class", "start"] => classRanges isIdStart
  | ["class", "continue"] => classRanges isIdContinue
  | ["class", "white"] => classRanges isWhitespace
  | _ => "bad-op"

def main : IO Unit := lineLoop step
