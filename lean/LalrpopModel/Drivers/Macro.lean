import LalrpopModel.Model.Macro
import LalrpopModel.Model.Proto
import LalrpopModel.Model.Sexp
/-!
`lpm_macro`: line-protocol driver for M-MACRO (C13).

Requests
* `macro <limit> <grammar sexp>` — the S-expression is `stage_dump(.., "precedence")`; answer: the
  `stage_dump(.., "macro_expand")` line with every type declaration replaced by `_`
  (`ok <sexp>` / `error macro_expand x<hex message>`), or `panic x<hex>`.
* `collide <limit> <grammar sexp>` — runs the model with a structural (injective) key next to the
  printed key and reports symbols that share a printed key although they differ:
  `none` or `collision x<hex key> <sexp of symbol 1> <sexp of symbol 2>`.
* `print <symbol sexp>` — `canonical_form()` of a symbol, hex.
* `cond <op> <lhs symbol sexp> <rhs hex>` — `evaluate_cond` (`true`/`false`/`error x<hex>`).
-/
open LalrpopModel LalrpopModel.Macro LalrpopModel.Proto

/-! ### a small regex matcher (oracle for `~~` / `!~`): `^ $ . [..] [^..] \c` and postfix `* + ?` -/

inductive RAtom where
  | any
  | lit (c : Char)
  | cls (neg : Bool) (items : List (Char × Char))

inductive RItem where
  | one (a : RAtom)
  | star (a : RAtom)
  | plus (a : RAtom)
  | opt (a : RAtom)
  | bol
  | eol

def RAtom.matches : RAtom → Char → Bool
  | .any, c => c ≠ '\n'
  | .lit x, c => x = c
  | .cls neg items, c => (items.any fun (lo, hi) => lo ≤ c ∧ c ≤ hi) != neg

partial def parseClass (cs : List Char) (acc : List (Char × Char)) : Option (List (Char × Char) × List Char) :=
  match cs with
  | [] => none
  | ']' :: rest => if acc.isEmpty then parseClass rest [(']', ']')] else some (acc.reverse, rest)
  | '\\' :: c :: rest => parseClass rest ((c, c) :: acc)
  | a :: '-' :: b :: rest => if b = ']' then parseClass ('-' :: b :: rest) ((a, a) :: acc)
                             else parseClass rest ((a, b) :: acc)
  | a :: rest => parseClass rest ((a, a) :: acc)

partial def parseRegex (cs : List Char) (acc : List RItem) : Option (List RItem) :=
  let post (a : RAtom) (rest : List Char) : Option (List RItem) :=
    match rest with
    | '*' :: r => parseRegex r (.star a :: acc)
    | '+' :: r => parseRegex r (.plus a :: acc)
    | '?' :: r => parseRegex r (.opt a :: acc)
    | r => parseRegex r (.one a :: acc)
  match cs with
  | [] => some acc.reverse
  | '^' :: rest => parseRegex rest (.bol :: acc)
  | '$' :: rest => parseRegex rest (.eol :: acc)
  | '.' :: rest => post .any rest
  | '[' :: '^' :: rest =>
    match parseClass rest [] with
    | some (items, r) => post (.cls true items) r
    | none => none
  | '[' :: rest =>
    match parseClass rest [] with
    | some (items, r) => post (.cls false items) r
    | none => none
  | '\\' :: c :: rest =>
    if c.isAlphanum then none else post (.lit c) rest      -- classes like \d are not supported here
  | c :: rest =>
    if c = '(' ∨ c = ')' ∨ c = '|' ∨ c = '*' ∨ c = '+' ∨ c = '?' ∨ c = '{' ∨ c = '}' ∨ c = '\\' then none
    else post (.lit c) rest

/-- match `items` at the current position; `start` = at beginning of text -/
partial def matchHere (items : List RItem) (text : List Char) (atStart : Bool) : Bool :=
  match items with
  | [] => true
  | .bol :: rest => atStart && matchHere rest text atStart
  | .eol :: rest => text.isEmpty && matchHere rest text atStart
  | .one a :: rest =>
    match text with
    | c :: t => a.matches c && matchHere rest t false
    | [] => false
  | .opt a :: rest =>
    (match text with
     | c :: t => a.matches c && matchHere rest t false
     | [] => false) || matchHere rest text atStart
  | .star a :: rest =>
    matchHere rest text atStart ||
    (match text with
     | c :: t => a.matches c && matchHere (.star a :: rest) t false
     | [] => false)
  | .plus a :: rest =>
    match text with
    | c :: t => a.matches c && matchHere (.star a :: rest) t false
    | [] => false

/-- unanchored search (`Regex::is_match`) -/
partial def searchFrom (items : List RItem) (text : List Char) (atStart : Bool) : Bool :=
  matchHere items text atStart ||
  match text with
  | [] => false
  | _ :: t => searchFrom items t false

def regexOracle (regex text : String) : Option Bool :=
  match parseRegex regex.toList [] with
  | none => none
  | some items => some (searchFrom items text.toList true)

/-! ### S-expressions ↔ model -/

def parseOp (s : String) : Option RepeatOp :=
  if s = "star" then some .star else if s = "plus" then some .plus
  else if s = "question" then some .question else none

def parseTerminal : Sexp → Option Terminal
  | .list [.atom "quoted", a] => do pure (.quoted (← Sexp.str? a))
  | .list [.atom "regex", a] => do pure (.regex (← Sexp.str? a))
  | .list [.atom "bare", a] => do pure (.bare (← Sexp.str? a))
  | .list [.atom "error"] => some .error
  | _ => none

partial def parsePat : Sexp → Option Pat
  | .list [.atom "name", .atom m, a] => do pure (.name (m = "mut") (← Sexp.str? a))
  | .list (.atom "tuple" :: ps) => do pure (.tuple (← ps.mapM parsePat))
  | _ => none

partial def parseSym : Sexp → Option Sym
  | .list (.atom "expr" :: ss) => do pure (.expr (← ss.mapM parseSym))
  | .list [.atom "ambiguous", a] => do pure (.ambiguous (← Sexp.str? a))
  | .list [.atom "terminal", t] => do pure (.terminal (← parseTerminal t))
  | .list [.atom "nonterminal", a] => do pure (.nonterminal (← Sexp.str? a))
  | .list [.atom "macro", a, .list (.atom "args" :: args)] => do
    pure (.macro (← Sexp.str? a) (← args.mapM parseSym))
  | .list [.atom "repeat", .atom op, s] => do pure (.repeat (← parseOp op) (← parseSym s))
  | .list [.atom "choose", s] => do pure (.choose (← parseSym s))
  | .list [.atom "named", .list [.atom "name", .atom m, a], s] => do
    pure (.name (m = "mut") (← Sexp.str? a) (← parseSym s))
  | .list [.atom "tupled", .list (.atom "tuple" :: ps), s] => do
    pure (.tuple (← ps.mapM parsePat) (← parseSym s))
  | .list [.atom "lookahead"] => some .lookahead
  | .list [.atom "lookbehind"] => some .lookbehind
  | .list [.atom "error"] => some .error
  | _ => none

def parseCond : Sexp → Option (Option Cond)
  | .list [.atom "nocond"] => some none
  | .list [.atom "cond", .atom op, l, r] => do
    let op ← (if op = "eq" then some CondOp.eq else if op = "ne" then some .ne
              else if op = "match" then some .matches else if op = "nomatch" then some .notMatches else none)
    pure (some { op := op, lhs := ← Sexp.str? l, rhs := ← Sexp.str? r })
  | _ => none

def parseAction : Sexp → Option Action
  | .list [.atom "noaction"] => some .none
  | .list [.atom "user", a] => do pure (.user (← Sexp.str? a))
  | .list [.atom "fallible", a] => do pure (.fallible (← Sexp.str? a))
  | .list [.atom "lookahead"] => some .lookahead
  | .list [.atom "lookbehind"] => some .lookbehind
  | _ => none

def parseAlt : Sexp → Option Alt
  | .list [.atom "alt", .list (.atom "expr" :: ss), c, a, .list (.atom "attrs" :: attrs)] => do
    pure { expr := ← ss.mapM parseSym, cond := ← parseCond c, action := ← parseAction a,
           attrs := attrs.map Sexp.toStr }
  | _ => none

def inlineAttrText : String := "(attr " ++ encStr "inline" ++ " (empty))"

def parseItem (s : Sexp) : Option Item :=
  match s with
  | .list [.atom "nt", name, vis, .list (.atom "attrs" :: attrs), .list (.atom "args" :: args), _ty,
           .list (.atom "alts" :: alts)] => do
    let v := match vis with
      | .atom "priv" => Vis.priv
      | other => Vis.other other.toStr
    let ats := attrs.map fun a => if a.toStr = inlineAttrText then Attr.inline else Attr.other a.toStr
    pure (.nt { name := ← Sexp.str? name, vis := v, attrs := ats, args := ← args.mapM Sexp.str?,
                alts := ← alts.mapM parseAlt })
  | other => some (.other other.toStr)

def parseGrammar (s : Sexp) : Option (Sexp × Sexp × List Item) :=
  match s with
  | .list [.atom "grammar", p, a, .list (.atom "items" :: items)] => do pure (p, a, ← items.mapM parseItem)
  | _ => none

def lst (tag : String) (items : List String) : String :=
  "(" ++ tag ++ String.join (items.map (" " ++ ·)) ++ ")"

def showTerminal : Terminal → String
  | .quoted s => s!"(quoted {encStr s})"
  | .regex s => s!"(regex {encStr s})"
  | .bare s => s!"(bare {encStr s})"
  | .error => "(error)"

partial def showPat : Pat → String
  | .name m n => s!"(name {if m then "mut" else "imm"} {encStr n})"
  | .tuple ps => lst "tuple" (ps.map showPat)

partial def showSym : Sym → String
  | .expr ss => lst "expr" (ss.map showSym)
  | .ambiguous a => s!"(ambiguous {encStr a})"
  | .terminal t => s!"(terminal {showTerminal t})"
  | .nonterminal n => s!"(nonterminal {encStr n})"
  | .macro n args => s!"(macro {encStr n} {lst "args" (args.map showSym)})"
  | .repeat op s =>
    let o := match op with | .star => "star" | .plus => "plus" | .question => "question"
    s!"(repeat {o} {showSym s})"
  | .choose s => s!"(choose {showSym s})"
  | .name m n s => s!"(named (name {if m then "mut" else "imm"} {encStr n}) {showSym s})"
  | .tuple ps s => s!"(tupled {lst "tuple" (ps.map showPat)} {showSym s})"
  | .lookahead => "(lookahead)"
  | .lookbehind => "(lookbehind)"
  | .error => "(error)"

def showCond : Option Cond → String
  | none => "(nocond)"
  | some c =>
    let o := match c.op with | .eq => "eq" | .ne => "ne" | .matches => "match" | .notMatches => "nomatch"
    s!"(cond {o} {encStr c.lhs} {encStr c.rhs})"

def showAction : Action → String
  | .none => "(noaction)"
  | .user c => s!"(user {encStr c})"
  | .fallible c => s!"(fallible {encStr c})"
  | .lookahead => "(lookahead)"
  | .lookbehind => "(lookbehind)"

def showAlt (a : Alt) : String :=
  s!"(alt {lst "expr" (a.expr.map showSym)} {showCond a.cond} {showAction a.action} {lst "attrs" a.attrs})"

def showItem : Item → String
  | .other x => x
  | .nt d =>
    let vis := match d.vis with | .priv => "priv" | .other x => x
    let attrs := d.attrs.map fun | .inline => inlineAttrText | .other x => x
    s!"(nt {encStr d.name} {vis} {lst "attrs" attrs} {lst "args" (d.args.map encStr)} _ {lst "alts" (d.alts.map showAlt)})"

def showGrammar (p a : Sexp) (items : List Item) : String :=
  s!"(grammar {p.toStr} {a.toStr} {lst "items" (items.map showItem)})"

/-- constructor skeleton of a symbol (names and literal contents left out) -/
partial def shapePat : Pat → String
  | .name m _ => if m then "m" else "p"
  | .tuple ps => "P(" ++ String.join (ps.map shapePat) ++ ")"

partial def shape : Sym → String
  | .expr ss => "E(" ++ String.join (ss.map shape) ++ ")"
  | .ambiguous _ => "a"
  | .terminal (.quoted _) => "q"
  | .terminal (.regex _) => "r"
  | .terminal (.bare _) => "b"
  | .terminal .error => "e"
  | .nonterminal _ => "N"
  | .macro _ args => "M(" ++ String.join (args.map shape) ++ ")"
  | .repeat _ s => "*(" ++ shape s ++ ")"
  | .choose s => "C(" ++ shape s ++ ")"
  | .name _ _ s => "n(" ++ shape s ++ ")"
  | .tuple ps s => "t(" ++ String.join (ps.map shapePat) ++ shape s ++ ")"
  | .lookahead => "L"
  | .lookbehind => "l"
  | .error => "!"

/-- a key that separates what the printed form confuses: printed form, then the skeleton between
    the control characters U+0001 / U+0002 (which never occur in the printed form of the generated
    grammars); together they determine the symbol -/
def structKey (s : Sym) : String :=
  match s with
  | .lookahead => "@L"
  | .lookbehind => "@R"
  | s => s.print ++ "\x01" ++ shape s ++ "\x02"

/-- drop the skeleton annotations: what `canonical_form()` would have printed -/
def cleanKey (k : String) : String :=
  let rec go (cs : List Char) (skipping : Bool) (acc : List Char) : List Char :=
    match cs with
    | [] => acc.reverse
    | c :: rest =>
      if c = '\x01' then go rest true acc
      else if c = '\x02' then go rest false acc
      else if skipping then go rest true acc
      else go rest false (c :: acc)
  String.ofList (go k.toList false [])

def splitHead (line : String) (k : Nat) : List String × String :=
  let rec go (k : Nat) (cs : List Char) (acc : List String) : List String × String :=
    match k with
    | 0 => (acc.reverse, String.ofList cs)
    | k + 1 =>
      let w := cs.takeWhile (· ≠ ' ')
      let rest := (cs.dropWhile (· ≠ ' ')).dropWhile (· = ' ')
      go k rest (String.ofList w :: acc)
  go k (line.trimAscii.toString.toList) []

/-- names of the nonterminal items -/
def itemNames (items : List Item) : List String :=
  items.filterMap fun | .nt d => some d.name | .other _ => none

def findCollision (names : List String) : Option (String × String × String) :=
  let pairs := names.map fun n => (cleanKey n, n)
  let rec go : List (String × String) → Option (String × String × String)
    | [] => none
    | (k, n) :: rest =>
      match rest.find? (fun p => p.1 = k ∧ p.2 ≠ n) with
      | some p => some (k, n, p.2)
      | none => go rest
  go pairs

def step (line : String) : String :=
  let (hd, rest) := splitHead line 2
  match hd with
  | ["macro", limit] =>
    match limit.toNat?, Sexp.parse rest >>= parseGrammar with
    | some limit, some (p, a, items) =>
      match expandMacros Sym.print regexOracle limit items with
      | .ok items' => "ok " ++ showGrammar p a items'
      | .error msg => "error macro_expand " ++ encStr msg
      | .panic w => "panic " ++ encStr w
    | _, _ => "bad-op"
  | ["collide", limit] =>
    match limit.toNat?, Sexp.parse rest >>= parseGrammar with
    | some limit, some (_, _, items) =>
      match expandMacros structKey regexOracle limit items with
      | .ok items' =>
        match findCollision (itemNames items') with
        | none => "none"
        | some (k, s1, s2) => s!"collision {encStr k} {encStr s1} {encStr s2}"
      | .error _ => "none"
      | .panic w => "panic " ++ encStr w
    | _, _ => "bad-op"
  | _ =>
    match words line with
    | "print" :: _ =>
      match Sexp.parse ((line.trimAscii.toString.drop 6).toString) >>= parseSym with
      | some s => encStr s.print
      | none => "bad-op"
    | _ => "bad-op"

def main : IO Unit := lineLoop step
