import LalrpopModel.Model.TokCheck
import LalrpopModel.Model.Proto
import LalrpopModel.Model.Sexp
/-! `lpm_tokcheck`: line-protocol driver for M-TOKCHECK (C09 precedence part).

`tokc <sexp of the grammar after macro_expand>` (as printed by `stage_dump(…, "macro_expand")`) →
`ok (intern (entry <prec> <lit> <user>) …)` exactly as `stage_dump(…, "token_check")` prints the
`InternToken` item, or `error multiple-entries | no-mapping | bare-without-entry`.
`pats <same>` → the runtime pattern list: `<index>:<lit or ws>:<skip 0/1> …`. -/
open LalrpopModel LalrpopModel.TokCheck LalrpopModel.Proto

def bytesOfAtom (a : String) : Option (List Nat) := (decBytes a).map (·.map (·.toNat))

def litOfSexp : Sexp → Option Lit
  | .list [.atom "quoted", .atom a] => (bytesOfAtom a).map .quoted
  | .list [.atom "regex", .atom a] => (bytesOfAtom a).map .regex
  | _ => none

def termOfSexp : Sexp → Option Term
  | .list [.atom "bare", .atom a] => (bytesOfAtom a).map .bare
  | .list [.atom "error"] => some .error
  | s => (litOfSexp s).map .lit

def mappingOfSexp : Sexp → Option Mapping
  | .list [.atom "skip"] => some .skip
  | s => (termOfSexp s).map .term

def itemOfSexp : Sexp → Option Item
  | .list [.atom "catchall"] => some .catchAll
  | .list [.atom "unmapped", l] => (litOfSexp l).map .unmapped
  | .list [.atom "mapped", l, m] => do pure (.mapped (← litOfSexp l) (← mappingOfSexp m))
  | _ => none

/-- all `(terminal T)` nodes, in document order -/
partial def terminalsOf : Sexp → List Term
  | .list [.atom "terminal", t] => (termOfSexp t).toList
  | .list xs => xs.flatMap terminalsOf
  | .atom _ => []

def parseGrammar (s : Sexp) : Option (Option (List (List Item)) × List Term) :=
  match s with
  | .list [.atom "grammar", _, _, .list (.atom "items" :: items)] =>
    let mt := items.findSome? fun it =>
      match it with
      | .list (.atom "match" :: rungs) =>
        some (rungs.mapM fun r => match r with
          | .list (.atom "rung" :: is) => is.mapM itemOfSexp
          | _ => none)
      | _ => none
    let others := items.filter fun it => match it with
      | .list (.atom "match" :: _) => false
      | _ => true
    match mt with
    | some none => none
    | some (some m) => some (some m, others.flatMap terminalsOf)
    | none => some (none, others.flatMap terminalsOf)
  | _ => none

def hexOfNats (l : List Nat) : String := "x" ++ hexOfBytes (l.map UInt8.ofNat)

def showLit : Lit → String
  | .quoted s => s!"(quoted {hexOfNats s})"
  | .regex s => s!"(regex {hexOfNats s})"

def showTerm : Term → String
  | .lit l => showLit l
  | .bare s => s!"(bare {hexOfNats s})"
  | .error => "(error)"

def showMapping : Mapping → String
  | .term t => showTerm t
  | .skip => "(skip)"

def showEntry (e : Entry) : String := s!"(entry {e.prec} {showLit e.lit} {showMapping e.user})"

def showErr : Err → String
  | .multipleEntries _ => "error multiple-entries"
  | .noMapping _ => "error no-mapping"
  | .bareWithoutEntry _ => "error bare-without-entry"

def step (line : String) : String :=
  let t := line.trimAscii.toString
  if t.startsWith "tokc " then
    match Sexp.parse (t.drop 5).toString >>= parseGrammar with
    | some (mt, terms) =>
      match matchEntries mt terms with
      | .ok es => "ok (intern" ++ String.join (es.map fun e => " " ++ showEntry e) ++ ")"
      | .error e => showErr e
    | none => "bad-op"
  else if t.startsWith "pats " then
    match Sexp.parse (t.drop 5).toString >>= parseGrammar with
    | some (mt, terms) =>
      match matchEntries mt terms with
      | .ok es =>
        let ps := patterns es
        " ".intercalate (ps.zipIdx.map fun (p, i) =>
          s!"{i}:{match p.1 with | some l => showLit l | none => "ws"}:{if p.2 then 1 else 0}")
      | .error e => showErr e
    | none => "bad-op"
  else "bad-op"

def main : IO Unit := lineLoop step
