import LalrpopModel.Model.Lower
import LalrpopModel.Model.Proto
import LalrpopModel.Model.Sexp
/-!
`lpm_lower`: line-protocol driver for M-LOWER (C02, lowering part) and the `@L`/`@R` model (C06).

Requests (`<v>` = two digits: `emptyAnonUnwrap`, `tupleNamesFixed` — the source variant detected by
`checks/lowerpart.py`)
* `lower <v> <types> <pt-grammar>` — `<pt-grammar>` is what `stage_dump(.., "tyinfer")` prints after
  `ok `, `<types>` = `(types (x<name> x<type>) …)` taken from the `lower` dump (`(types)` when lowering
  failed). Answer: `ok (starts …) (nts …) (actions …)` in the canonical form `harness/src/bin/lower.rs`
  also derives from `stage_dump(.., "lower")`, or `error lower x<hex message>` / `panic` / `assert`.
* `braces x<hex code>` — `check_between_braces`: `curly` / `other`.
* `vgram <v> <types> <pt-grammar>` — remember the grammar (answer `ok <number of action fns>`), then
  `veval <tree>` — evaluate the *lowered* action functions (patterns + code produced by the model)
  bottom-up over the derivation tree `(n x<nt> <alt> kids…)` / `(t x<text>)`; answer = rendered value.
* `look <prefix> <lookaround indices> <inline kind sexp>` — start/end sources of every inlined symbol of
  an inline action function and the value source of every `@L`/`@R` in it.
* `lookeval <tree>` — the C06 rule evaluated on a derivation with token spans; `lookmodel <tree>` — the
  composed generated action functions (model) on the same derivation (see `evalHost`).
-/
open LalrpopModel LalrpopModel.Lower LalrpopModel.Proto

abbrev B := String

def hexBody (s : String) : String := ((encStr s).drop 1).toString

/-! ### reading the parse-tree dump -/

def parseName (s : Sexp) : Option Name :=
  match s with
  | .list [.atom "name", .atom m, n] => do
    let txt ← n.str?
    pure { mutable := m == "mut", name := txt.toList }
  | _ => none

partial def parsePat (s : Sexp) : Option ArgPattern :=
  match s with
  | .list (.atom "tuple" :: ps) => do pure (.tuple (← ps.mapM parsePat))
  | other => do pure (.name (← parseName other))

partial def parseSym (s : Sexp) : Sym B :=
  match s with
  | .list [.atom "terminal", t] => .base ("(terminal " ++ t.toStr ++ ")")
  | .list [.atom "nonterminal", .atom n] => .base ("(nonterminal " ++ n ++ ")")
  | .list [.atom "error"] => .error
  | .list [.atom "choose", x] => .choose (parseSym x)
  | .list [.atom "named", n, x] =>
    match parseName n with
    | some nm => .named nm (parseSym x)
    | none => .unexpanded s.toStr
  | .list [.atom "tupled", .list (.atom "tuple" :: ps), x] =>
    match ps.mapM parsePat with
    | some pats => .tupled pats (parseSym x)
    | none => .unexpanded s.toStr
  | other => .unexpanded other.toStr

def parseAction (s : Sexp) : Option (Option ActionKind) :=
  match s with
  | .list [.atom "noaction"] => some none
  | .list [.atom "user", c] => do pure (some (.user (← c.str?).toList))
  | .list [.atom "fallible", c] => do pure (some (.fallible (← c.str?).toList))
  | .list [.atom "lookahead"] => some (some .lookahead)
  | .list [.atom "lookbehind"] => some (some .lookbehind)
  | _ => none

def parseAlt (s : Sexp) : Option (Alt B) :=
  match s with
  | .list [.atom "alt", .list (.atom "expr" :: syms), _, act, _] => do
    pure { expr := syms.map parseSym, action := ← parseAction act }
  | _ => none

structure NtInfo where
  nt : Nt B
  nameHex : String
  isInline : Bool

def hasInline (attrs : Sexp) : Bool :=
  match attrs with
  | .list (.atom "attrs" :: as) =>
    as.any fun a =>
      match a with
      | .list (.atom "attr" :: id :: _) => id.str? == some "inline"
      | _ => false
  | _ => false

def parseNt (types : List (String × String)) (s : Sexp) : Option NtInfo :=
  match s with
  | .list [.atom "nt", .atom name, vis, attrs, _, _, .list (.atom "alts" :: alts)] => do
    let as ← alts.mapM parseAlt
    let isPub := match vis with | .atom "priv" => false | _ => true
    let isUnit := (types.lookup name) == some "x2829"
    pure { nt := { name := "(nonterminal " ++ name ++ ")", isPub := isPub, isUnit := isUnit, alts := as }
           nameHex := name, isInline := hasInline attrs }
  | _ => none

def parseTypes (s : Sexp) : Option (List (String × String)) :=
  match s with
  | .list (.atom "types" :: es) =>
    es.mapM fun e =>
      match e with
      | .list [.atom n, .atom t] => some (n, t)
      | _ => none
  | _ => none

structure PtGrammar where
  pfx : String            -- decoded prefix
  pfxHex : String         -- hex body of the prefix (no leading `x`)
  nts : List NtInfo

def parsePt (types : List (String × String)) (s : Sexp) : Option PtGrammar :=
  match s with
  | .list [.atom "grammar", .list [.atom "prefix", .atom p], _, .list (.atom "items" :: items)] => do
    let pfx ← decStr p
    let nts := items.filterMap fun it =>
      match it with
      | .list (.atom "nt" :: _) => some it
      | _ => none
    pure { pfx := pfx, pfxHex := (p.drop 1).toString, nts := ← nts.mapM (parseNt types) }
  | _ => none

def parseVariant (s : String) : Option Variant :=
  match s.toList with
  | [a, b] => some { emptyAnonUnwrap := a == '1', tupleNamesFixed := b == '1' }
  | _ => none

/-- `format!("{}{}", prefix, name)` on the rendered nonterminal -/
def fakeName (pfxHex : String) (b : B) : B :=
  -- b = "(nonterminal x<hex>)"
  let inner := ((b.drop "(nonterminal x".length).dropEnd 1).toString
  "(nonterminal x" ++ pfxHex ++ inner ++ ")"

def runLower (v : Variant) (g : PtGrammar) : Outcome (Lowered B) :=
  lowerGrammar v g.pfx.toList (fakeName g.pfxHex) (g.nts.map (·.nt))

/-! ### printing the lowered grammar -/

def lst (tag : String) (items : List String) : String :=
  "(" ++ tag ++ String.join (items.map (" " ++ ·)) ++ ")"

def showName (n : Name) : String :=
  s!"(name {if n.mutable then "mut" else "imm"} {encStr (String.ofList n.name)})"

partial def showPat : ArgPattern → String
  | .name n => showName n
  | .tuple ps => lst "tuple" (ps.map showPat)

def showRSym : RSym B → String
  | .base b => b
  | .errorTerminal => "(terminal (error))"

def ntHexOf (b : B) : Option String :=
  if b.startsWith "(nonterminal " then some ((b.drop "(nonterminal ".length).dropEnd 1).toString else none

def showArgType (types : List (String × String)) : RSym B → String
  | .base b =>
    match ntHexOf b with
    | some n => (types.lookup n).getD "?"
    | none => "T"
  | .errorTerminal => "T"

def showProd (p : Prod B) : String :=
  s!"(prod {p.action} {lst "symbols" (p.symbols.map showRSym)})"

/-- return type of every action function: the type of the nonterminal that owns the production -/
def retTypes (types : List (String × String)) (pfxHex : String) (l : Lowered B) : List (Nat × String) :=
  let ofNt (strip : Bool) (e : B × List (Prod B)) : List (Nat × String) :=
    let n := (ntHexOf e.1).getD ""
    -- a start nonterminal `__Foo` has the type of `Foo`
    let n := if strip then "x" ++ ((n.drop (1 + pfxHex.length))).toString else n
    e.2.map fun p => (p.action, (types.lookup n).getD "?")
  (l.starts.flatMap (ofNt true)) ++ (l.nts.flatMap (ofNt false))

def showDefn (types : List (String × String)) (rets : List (Nat × String)) (i : Nat) : DefnKind B → String
  | .lookahead => s!"(actionfn {i} infallible L (lookahead))"
  | .lookbehind => s!"(actionfn {i} infallible L (lookbehind))"
  | .user d =>
    let kind := s!"(user {lst "patterns" (d.argPatterns.map showPat)} {lst "types" (d.argTypes.map (showArgType types))} {encStr (String.ofList d.code)})"
    s!"(actionfn {i} {if d.fallible then "fallible" else "infallible"} {(rets.lookup i).getD "?"} {kind})"

def enumShow (types : List (String × String)) (rets : List (Nat × String)) : Nat → List (DefnKind B) → List String
  | _, [] => []
  | i, d :: ds => showDefn types rets i d :: enumShow types rets (i + 1) ds

def showLowered (types : List (String × String)) (pfxHex : String) (l : Lowered B) : String :=
  let rets := retTypes types pfxHex l
  let starts := l.starts.map fun e => s!"(start {e.1} {" ".intercalate (e.2.map showProd)})"
  let nts := l.nts.map fun e => s!"(nt {e.1} {" ".intercalate (e.2.map showProd)})"
  "ok " ++ lst "starts" starts ++ " " ++ lst "nts" nts ++ " " ++ lst "actions" (enumShow types rets 0 l.defs)

def errorMessage (angles sources : Nat) : String :=
  s!"When there are multiple `<>` in the action, there must be the same number of sources for the `<>`s. Found {angles} `<`>`s and {sources} anonymous sources."

def showOutcome (types : List (String × String)) (pfxHex : String) : Outcome (Lowered B) → String
  | .ok l => showLowered types pfxHex l
  | .error a s => "error lower " ++ encStr (errorMessage a s)
  | .assertFailed => "assert"
  | .panic => "panic"

/-! ### value leg: evaluating lowered action functions over a derivation tree -/

inductive Val where
  | str (s : String)
  | tup (vs : List Val)
  | vec (vs : List Val)
  | opt (o : Option Val)
  | struct (fields : List (String × Val))
  | bad (why : String)
  deriving Inhabited

partial def Val.sh : Val → String
  | .str s => s
  | .tup vs => "(" ++ ",".intercalate (vs.map Val.sh) ++ ")"
  | .vec vs => "[" ++ ",".intercalate (vs.map Val.sh) ++ "]"
  | .opt none => "None"
  | .opt (some v) => "Some(" ++ v.sh ++ ")"
  | .struct fs => "{" ++ ",".intercalate (fs.map fun (n, v) => n ++ "=" ++ v.sh) ++ "}"
  | .bad w => "<bad:" ++ w ++ ">"

inductive Tk where
  | id (s : String)      -- identifiers, paths (`alloc::vec!`), keywords
  | strLit (s : String)
  | chrLit (c : Char)
  | p (c : Char)         -- punctuation
  deriving BEq, Repr, Inhabited

def isIdChar (c : Char) : Bool := c.isAlphanum || c == '_' || c == ':' || c == '!'

partial def tokenizeCode (cs : List Char) (acc : Array Tk) : Array Tk :=
  match cs with
  | [] => acc
  | c :: rest =>
    if c == ' ' || c == '\n' || c == '\t' then tokenizeCode rest acc
    else if c == '"' then
      let body := rest.takeWhile (· != '"')
      tokenizeCode ((rest.dropWhile (· != '"')).drop 1) (acc.push (.strLit (String.ofList body)))
    else if c == '\'' then
      match rest with
      | x :: '\'' :: rest' => tokenizeCode rest' (acc.push (.chrLit x))
      | _ => tokenizeCode rest (acc.push (.p c))
    else if c.isAlpha || c == '_' then
      let word := cs.takeWhile isIdChar
      tokenizeCode (cs.dropWhile isIdChar) (acc.push (.id (String.ofList word)))
    else tokenizeCode rest (acc.push (.p c))

abbrev VEnv := List (String × Val)

/-- recursive descent over the small expression language the generated grammars use -/
partial def parseExpr (env : VEnv) (ts : List Tk) : Val × VEnv × List Tk :=
  let exprList (close : Char) (env : VEnv) (ts : List Tk) : List Val × VEnv × List Tk :=
    let rec go (env : VEnv) (ts : List Tk) (acc : List Val) : List Val × VEnv × List Tk :=
      match ts with
      | .p c :: rest => if c == close then (acc.reverse, env, rest) else
          if c == ',' then go env rest acc else
          let (v, env', rest') := parseExpr env ts
          go env' rest' (v :: acc)
      | [] => (acc.reverse, env, [])
      | _ =>
        let (v, env', rest') := parseExpr env ts
        go env' rest' (v :: acc)
    go env ts []
  match ts with
  | .p '(' :: rest =>
    -- `()`, `(e)`, `(e, e, …)`; a trailing comma makes a 1-tuple
    let hasComma := Id.run do
      let mut depth := 0
      let mut found := false
      for t in rest do
        match t with
        | .p '(' | .p '[' | .p '{' => depth := depth + 1
        | .p ')' | .p ']' | .p '}' => if depth == 0 then break else depth := depth - 1
        | .p ',' => if depth == 0 then found := true
        | _ => pure ()
      return found
    let (vs, env', rest') := exprList ')' env rest
    match vs, hasComma with
    | [v], false => (v, env', rest')
    | vs, _ => (.tup vs, env', rest')
  | .p '{' :: .id "let" :: .id "mut" :: .id x :: .p '=' :: .id y :: .p ';' :: rest =>
    -- `{ let mut v = v; v.push(e); v }`
    let env1 := (x, (env.lookup y).getD (.bad ("unbound " ++ y))) :: env
    let (v, env2, rest') := parseExpr env1 (.p '{' :: rest)
    (v, env2, rest')
  | .p '{' :: .id x :: .p '.' :: .id "push" :: .p '(' :: rest =>
    -- `{ x.push(e); body }` with x a Vec or a String (then e is a char)
    let (arg, env1, rest1) := match rest with
      | .chrLit c :: rest' => (Val.str (String.singleton c), env, rest')
      | _ => parseExpr env rest
    let rest2 := match rest1 with
      | .p ')' :: .p ';' :: r => r
      | r => r
    let newX := match env1.lookup x with
      | some (.vec vs) => Val.vec (vs ++ [arg])
      | some (.str s) => Val.str (s ++ arg.sh)
      | _ => .bad ("push on " ++ x)
    let (v, env3, rest3) := parseExpr ((x, newX) :: env1) (.p '{' :: rest2)
    (v, env3, rest3)
  | .p '{' :: rest =>
    let (v, env', rest') := parseExpr env rest
    match rest' with
    | .p '}' :: r => (v, env', r)
    | r => (v, env', r)
  | .id "None" :: rest => (.opt none, env, rest)
  | .id "Some" :: .p '(' :: rest =>
    let (vs, env', rest') := exprList ')' env rest
    (.opt (some (vs.headD (.bad "Some()"))), env', rest')
  | .id "Ok" :: .p '(' :: rest =>
    let (vs, env', rest') := exprList ')' env rest
    (vs.headD (.bad "Ok()"), env', rest')
  | .id "alloc::vec!" :: .p '[' :: rest =>
    let (vs, env', rest') := exprList ']' env rest
    (.vec vs, env', rest')
  | .id "mk" :: .p '(' :: .strLit l :: .p ',' :: rest =>
    let (vs, env', rest') := exprList ')' env rest
    (.str (l ++ (vs.headD (.bad "mk")).sh), env', rest')
  | .id "P" :: .p '{' :: rest =>
    -- field-init shorthand `P { a, b }`
    let names := (rest.takeWhile (· != Tk.p '}')).filterMap fun t => match t with | .id n => some n | _ => none
    let rest' := (rest.dropWhile (· != Tk.p '}')).drop 1
    (.struct (names.map fun n => (n, (env.lookup n).getD (.bad ("unbound " ++ n)))), env, rest')
  | .id x :: rest => ((env.lookup x).getD (.bad ("unbound " ++ x)), env, rest)
  | t :: rest => (.bad s!"unexpected {repr t}", env, rest)
  | [] => (.bad "eof", env, [])

partial def bindPat (p : ArgPattern) (v : Val) (env : VEnv) : VEnv :=
  match p, v with
  | .name n, v => (String.ofList n.name, v) :: env
  | .tuple ps, .tup vs =>
    if ps.length == vs.length then (ps.zip vs).foldl (fun e (p, v) => bindPat p v e) env
    else ("<arity>", .bad "tuple arity") :: env
  | .tuple _, _ => ("<arity>", .bad "tuple pattern on non-tuple") :: env

structure VState where
  v : Variant := Variant.pinned
  types : List (String × String) := []
  g : Option PtGrammar := none
  low : Option (Lowered B) := none

inductive Tree where
  | node (nt : String) (alt : Nat) (kids : List Tree)
  | tok (text : String)
  deriving Inhabited

partial def parseTree (s : Sexp) : Option Tree :=
  match s with
  | .list (.atom "n" :: .atom nt :: .atom alt :: kids) => do
    pure (.node nt (← alt.toNat?) (← kids.mapM parseTree))
  | .list [.atom "t", .atom txt] => do pure (.tok (← decStr txt))
  | _ => none

partial def evalTree (st : VState) (l : Lowered B) : Tree → Val
  | Tree.tok t => .str t
  | Tree.node nt alt kids =>
    let key := "(nonterminal " ++ nt ++ ")"
    match (l.nts.lookup key) >>= (·[alt]?) with
    | none => .bad ("no production " ++ nt)
    | some prod =>
      match l.defs[prod.action]? with
      | some (.user d) =>
        let vals := kids.map (evalTree st l)
        if vals.length != d.argPatterns.length then .bad "arity" else
        let env := (d.argPatterns.zip vals).foldl (fun e (p, v) => bindPat p v e) []
        if env.any (fun (n, _) => n == "<arity>") then .bad "pattern" else
        let code := String.ofList d.code
        -- `emit_user_action_code`: a body `()` is left out, the function returns unit
        if code == "()" then .tup [] else
        (parseExpr env (tokenizeCode d.code #[]).toList).1
      | _ => .bad "not a user action"

/-! ### `@L`/`@R`: emitted-body tie -/

open LalrpopModel.Inline (InlinedSymbol LocSrc Step plan numFlatArgs)

def parseISym (s : Sexp) : Option (Inline.Symbol String String) :=
  match s with
  | .list [.atom "nonterminal", .atom n] => some (.nt n)
  | .list [.atom "terminal", t] => some (.term t.toStr)
  | _ => none

def parseInlined (s : Sexp) : Option (InlinedSymbol String String) :=
  match s with
  | .list [.atom "original", sym] => do pure (.original (← parseISym sym))
  | .list [.atom "inlined", .atom a, .list (.atom "symbols" :: syms)] => do
    pure (.inlined (← a.toNat?) (← syms.mapM parseISym))
  | _ => none

def showSrc : LocSrc → String
  | .argStart i => s!"a{i}.0"
  | .argEnd i => s!"a{i}.2"
  | .lookbehind => "lb"
  | .lookahead => "la"

/-- the environment in which locations are their own names: flat argument `i` has the span
    `(argStart i, argEnd i)` -/
def symbolicEnv (numFlat : Nat) : Env LocSrc :=
  { args := (List.range numFlat).map fun i => (.argStart i, .argEnd i)
    lookbehind := .lookbehind, lookahead := .lookahead }

def lookAnswer (looks : List (Nat × Look)) (symbols : List (InlinedSymbol String String)) : String :=
  let env := symbolicEnv (numFlatArgs symbols)
  let spans := tempSpans env symbols
  let steps := (plan symbols).filterMap fun
    | .orig _ => none
    | .inl t a arg len => some (t, a, arg, len)
  let items := (steps.zip spans).flatMap fun ((t, a, arg, len), sp) =>
    match sp with
    | none => [s!"S{t}=?", s!"E{t}=?"]
    | some (s, e) =>
      let base := [s!"S{t}={showSrc s}", s!"E{t}={showSrc e}"]
      match looks.lookup a with
      | some k =>
        if len != 0 then base ++ [s!"V{t}=nonempty-lookaround"] else
        let v := lookaroundAction k s e
        -- the declarative rule on the same environment (equal by `lookaround_spec`)
        let d := declLook k (env.args.take arg) (env.args.drop arg) env.lookbehind env.lookahead
        base ++ [s!"V{t}={showSrc v}" ++ (if v == d then "" else s!"!spec:{showSrc d}")]
      | none => base
  "|".intercalate items

/-! ### `@L`/`@R` on a derivation: the C06 rule, and the composed generated functions

Trees: `(u 0 - x<label> kids…)` a production of a non-inlined nonterminal, `(u 1 <rank> x<label> kids…)`
of an `#[inline]` one, `(o <rank> kid?)` / `(s <rank> kids…)` the inlined `X?` / `X*`, `(t x<text> s e)` a
token with its span, `(L <rank>)` / `(R <rank>)`. `rank` = position of the inlined nonterminal in
`inline_order` (the order in which the inliner processes them).

* `lookeval` evaluates the **rule** of property C06: a lookaround sees the nearest flat argument
  of its (inlined) alternative after/before it, inlined symbols without symbols are skipped;
* `lookmodel` evaluates the **model of the generated code**: one `emit_inline_action_code`
  function per inlining step (innermost = inlined first); every function computes
  `tempSpan` (Model: `startSrc`/`endSrc`) over *its* arguments, and an argument that stands for a
  nonterminal inlined by an outer function is that function's temporary `(start, value, end)`. -/

inductive LTree where
  | user (inl : Bool) (rank : Nat) (label : String) (kids : List LTree)
  | opt (rank : Nat) (kids : List LTree)        -- `X?`: zero or one kid
  | star (rank : Nat) (kids : List LTree)       -- `X*` (inlined; a non-empty one wraps the host `X+`)
  | tok (text : String) (s e : Nat)
  | look (k : Look) (rank : Nat)
  deriving Inhabited

partial def parseLTree (s : Sexp) : Option LTree :=
  match s with
  | .list (.atom "u" :: .atom i :: .atom r :: .atom l :: kids) => do
    pure (.user (i == "1") (r.toNat?.getD 0) (← decStr l) (← kids.mapM parseLTree))
  | .list (.atom "o" :: .atom r :: kids) => do pure (.opt (← r.toNat?) (← kids.mapM parseLTree))
  | .list (.atom "s" :: .atom r :: kids) => do pure (.star (← r.toNat?) (← kids.mapM parseLTree))
  | .list [.atom "t", .atom txt, .atom a, .atom b] => do pure (.tok (← decStr txt) (← a.toNat?) (← b.toNat?))
  | .list [.atom "L", .atom r] => do pure (.look .ahead (← r.toNat?))
  | .list [.atom "R", .atom r] => do pure (.look .behind (← r.toNat?))
  | _ => none

partial def leaves : LTree → List (Nat × Nat)
  | .tok _ s e => [(s, e)]
  | .user _ _ _ ks | .opt _ ks | .star _ ks => ks.flatMap leaves
  | .look _ _ => []

/-- a symbol of a production as the inliner sees it -/
inductive Part where
  | arg (i : Nat)                                   -- flat argument `i` of the host
  | look (k : Look) (rank : Nat)
  | const (s : String) (rank : Nat)                 -- inlined `X?` / `X*` that derived nothing
  | wrap (rank : Nat) (i : Nat)                     -- inlined `X?` / `X*` around its one argument
  | inl (rank : Nat) (label : String) (parts : List Part) (first len : Nat)   -- inlined nonterminal: its slice
  deriving Inhabited

def Part.rank? : Part → Option Nat
  | .arg _ => none
  | .look _ r | .const _ r | .wrap r _ | .inl r _ _ _ _ => some r

abbrev Ent := (Nat × Nat) × String

structure HostAcc where
  args : Array Ent := #[]     -- spans and rendered values of the flat arguments
  pos : Nat                   -- index of the next leaf

/-- an argument group of one generated function: the entries that belong to one symbol -/
structure Grp where
  part : Part
  ents : List Ent
  done : Bool

def insertDesc (r : Nat) : List Nat → List Nat
  | [] => [r]
  | x :: xs => if r > x then r :: x :: xs else if r == x then x :: xs else x :: insertDesc r xs

mutual
/-- a non-inlined node: returns its span, its rendered value and the leaf position after it.
    `toks` = all token spans of the input; `model` selects `lookmodel` over `lookeval`. -/
partial def evalHost (model : Bool) (toks : Array (Nat × Nat)) (pos : Nat) : LTree → (Nat × Nat) × String × Nat
  | .tok t s e => ((s, e), t, pos + 1)
  | .look _ _ => ((0, 0), "<look outside a production>", pos)
  | .opt _ ks =>
    let (acc, vals) := evalKids model toks ks ({ pos := pos } : HostAcc)
    (hostSpan toks pos acc, vals.head?.getD "~", acc.pos)
  | .star _ ks =>
    -- the host `X+` of a repetition
    let (acc, vals) := evalKids model toks ks ({ pos := pos } : HostAcc)
    (hostSpan toks pos acc, "[" ++ " ".intercalate vals ++ "]", acc.pos)
  | .user _ _ label ks =>
    let (parts, acc) := collect model toks ks ({ pos := pos } : HostAcc)
    let span := hostSpan toks pos acc
    -- an action function without arguments receives the empty position twice
    let p := span.1
    let ents := acc.args.toList
    let v :=
      if model then renderNest label parts ents 0 p p
      else
        let env : Env Nat := { args := ents.map (·.1), lookbehind := p, lookahead := p }
        render label parts env (ents.map (·.2)) 0
    (span, v, acc.pos)

/-- the elements of a repetition / the element of an option, left to right -/
partial def evalKids (model : Bool) (toks : Array (Nat × Nat)) : List LTree → HostAcc → HostAcc × List String
  | [], acc => (acc, [])
  | k :: rest, acc =>
    let (sp, v, p) := evalHost model toks acc.pos k
    let (acc', vs) := evalKids model toks rest { acc with args := acc.args.push (sp, v), pos := p }
    (acc', v :: vs)

/-- the symbols of a production: children that are inlined nonterminals are spliced in -/
partial def collect (model : Bool) (toks : Array (Nat × Nat)) : List LTree → HostAcc → List Part × HostAcc
  | [], acc => ([], acc)
  | .look k r :: rest, acc =>
    let (ps, acc') := collect model toks rest acc
    (.look k r :: ps, acc')
  -- `X?` and `X*` are `#[inline]` nonterminals (`X+` is not): an empty one leaves no argument,
  -- a present `X?` leaves `X`, a non-empty `X*` leaves the single argument `X+`
  | .opt r [] :: rest, acc =>
    let (ps, acc') := collect model toks rest acc
    (.const "~" r :: ps, acc')
  | .star r [] :: rest, acc =>
    let (ps, acc') := collect model toks rest acc
    (.const "[]" r :: ps, acc')
  | .opt r [k] :: rest, acc =>
    let (sp, v, p) := evalHost model toks acc.pos k
    let i := acc.args.size
    let (ps, acc') := collect model toks rest { acc with args := acc.args.push (sp, v), pos := p }
    (.wrap r i :: ps, acc')
  | .star r ks :: rest, acc =>
    let (sp, v, p) := evalHost model toks acc.pos (.star r ks)
    let i := acc.args.size
    let (ps, acc') := collect model toks rest { acc with args := acc.args.push (sp, v), pos := p }
    (.wrap r i :: ps, acc')
  | .user true r label ks :: rest, acc =>
    let first := acc.args.size
    let (inner, acc1) := collect model toks ks acc
    let (ps, acc2) := collect model toks rest acc1
    (.inl r label inner first (acc1.args.size - first) :: ps, acc2)
  | k :: rest, acc =>
    let (sp, v, p) := evalHost model toks acc.pos k
    let i := acc.args.size
    let (ps, acc') := collect model toks rest { acc with args := acc.args.push (sp, v), pos := p }
    (.arg i :: ps, acc')

/-- span of a production: first/last argument, or the empty position -/
partial def hostSpan (toks : Array (Nat × Nat)) (pos : Nat) (acc : HostAcc) : Nat × Nat :=
  if h : 0 < acc.args.size then
    ((acc.args[0]).1.1, (acc.args[acc.args.size - 1]!).1.2)
  else
    -- start of the next token, else end of the last consumed one, else the default location
    let p := match toks[pos]? with
      | some t => t.1
      | none => if pos > 0 then (toks[pos - 1]!).2 else 0
    (p, p)

/-- RULE: the action of `label` over `parts`, whose flat arguments are `env.args` (values `vals`);
    `base` = index of the first flat argument of this function within the host's numbering -/
partial def render (label : String) (parts : List Part) (env : Env Nat) (vals : List String) (base : Nat) : String :=
  "(" ++ label ++ String.join ((renderParts parts env vals base 0).map (" " ++ ·)) ++ ")"

/-- RULE: values of the parts, left to right; `before` = number of flat arguments of this
    alternative that precede the current part -/
partial def renderParts (parts : List Part) (env : Env Nat) (vals : List String) (base before : Nat) : List String :=
  match parts with
  | [] => []
  | .arg i :: rest | .wrap _ i :: rest =>
    (vals[i - base]?.getD "<arg?>") :: renderParts rest env vals base (before + 1)
  | .look k _ :: rest =>
    let v := declLook k (env.args.take before) (env.args.drop before) env.lookbehind env.lookahead
    toString v :: renderParts rest env vals base before
  | .const s _ :: rest => s :: renderParts rest env vals base before
  | .inl _ label inner first len :: rest =>
    let sub : Env Nat :=
      if len == 0 then
        { args := []
          lookbehind := declR (env.args.take before) (env.args.drop before) env.lookbehind
          lookahead := declL (env.args.take before) (env.args.drop before) env.lookahead }
      else
        { args := (env.args.drop before).take len, lookbehind := 0, lookahead := 0 }
    let subVals := (vals.drop before).take len
    render label inner sub subVals first :: renderParts rest env vals base (before + len)

/-- MODEL: the nest of generated functions for one production. `ents` = its flat arguments,
    `(lb, la)` = the two location parameters (used by a function without arguments only). -/
partial def renderNest (label : String) (parts : List Part) (ents : List Ent) (base lb la : Nat) : String :=
  let groups0 : List Grp := parts.map fun p =>
    match p with
    | .arg i => { part := p, ents := (ents[i - base]?).toList, done := true }
    | .wrap _ i => { part := p, ents := (ents[i - base]?).toList, done := false }
    | .look _ _ | .const _ _ => { part := p, ents := [], done := false }
    | .inl _ _ _ first len => { part := p, ents := (ents.drop (first - base)).take len, done := false }
  -- the function created last (highest rank) is the outermost one
  let ranks := (parts.filterMap Part.rank?).foldl (fun acc r => insertDesc r acc) []
  let groups := ranks.foldl (fun gs r => nestLevel r gs lb la) groups0
  "(" ++ label ++ String.join (groups.map fun g => " " ++ (g.ents.head?.map (·.2)).getD "<?>") ++ ")"

/-- MODEL: the generated function of one inlining step: spans of all its inlined symbols are
    computed over its own argument list first, then every inlined action runs and is replaced
    by the temporary `(start, value, end)` handed to the next inner function -/
partial def nestLevel (r : Nat) (groups : List Grp) (lb la : Nat) : List Grp :=
  let flat := groups.flatMap (·.ents)
  let env : Env Nat := { args := flat.map (·.1), lookbehind := lb, lookahead := la }
  let numFlat := flat.length
  let rec go (gs : List Grp) (before : Nat) : List Grp :=
    match gs with
    | [] => []
    | g :: rest =>
      let len := g.ents.length
      let g' :=
        if !g.done && g.part.rank? == some r then
          match tempSpan env numFlat before len with
          | none => { g with ents := [((0, 0), "<no such argument>")], done := true }
          | some (s, e) =>
            let v := match g.part with
              | .look k _ => toString (lookaroundAction k s e)
              | .const c _ => c
              | .wrap _ _ => (g.ents.head?.map (·.2)).getD "<?>"
              | .inl _ label inner first _ => renderNest label inner g.ents first s e
              | .arg _ => "<?>"
            { g with ents := [((s, e), v)], done := true }
        else g
      g' :: go rest (before + len)
  go groups 0
end

/-! ### the line protocol -/

def splitHead (line : String) (k : Nat) : List String × String :=
  let rec go (k : Nat) (cs : List Char) (acc : List String) : List String × String :=
    match k with
    | 0 => (acc.reverse, String.ofList cs)
    | k + 1 =>
      let w := cs.takeWhile (· ≠ ' ')
      let rest := (cs.dropWhile (· ≠ ' ')).dropWhile (· = ' ')
      go k rest (String.ofList w :: acc)
  go k (line.trimAscii.toString.toList) []

/-- split `"<sexp> <sexp>"` at the end of the first balanced expression -/
def splitSexp (s : String) : String × String :=
  let rec go (cs : List Char) (depth : Nat) (acc : List Char) : String × String :=
    match cs with
    | [] => (String.ofList acc.reverse, "")
    | c :: rest =>
      let depth' := if c = '(' then depth + 1 else if c = ')' then depth - 1 else depth
      if c = ')' ∧ depth' = 0 then (String.ofList (c :: acc).reverse, (String.ofList rest).trimAscii.toString)
      else go rest depth' (c :: acc)
  go s.toList 0 []

def loadGrammar (v : String) (rest : String) : Option (Variant × List (String × String) × PtGrammar) := do
  let vv ← parseVariant v
  let (tys, gs) := splitSexp rest
  let types ← Sexp.parse tys >>= parseTypes
  let g ← Sexp.parse gs >>= parsePt types
  pure (vv, types, g)

def step (st : VState) (line : String) : VState × String :=
  let (hd, rest) := splitHead line 1
  match hd with
  | ["lower"] =>
    let (hd2, rest2) := splitHead rest 1
    match hd2 with
    | [v] =>
      match loadGrammar v rest2 with
      | some (vv, types, g) => (st, showOutcome types g.pfxHex (runLower vv g))
      | none => (st, "bad-op")
    | _ => (st, "bad-op")
  | ["braces"] =>
    match decStr rest.trimAscii.toString with
    | some code =>
      (st, match checkBetweenBraces code.toList with
        | .inCurlyBrackets => "curly"
        | _ => "other")
    | none => (st, "bad-op")
  | ["vgram"] =>
    let (hd2, rest2) := splitHead rest 1
    match hd2 with
    | [v] =>
      match loadGrammar v rest2 with
      | some (vv, types, g) =>
        match runLower vv g with
        | .ok l => ({ v := vv, types := types, g := some g, low := some l }, s!"ok {l.defs.length}")
        | other => ({ st with low := none }, showOutcome types g.pfxHex other)
      | none => (st, "bad-op")
    | _ => (st, "bad-op")
  | ["veval"] =>
    match st.low, Sexp.parse rest >>= parseTree with
    | some l, some t => (st, (evalTree st l t).sh)
    | _, _ => (st, "bad-op")
  | ["look"] =>
    let (hd2, rest2) := splitHead rest 2
    match hd2 with
    | [_pfx, looks] =>
      let lk : List (Nat × Look) := (if looks = "-" then [] else looks.splitOn ",").filterMap fun e =>
        match e.splitOn ":" with
        | [i, "L"] => i.toNat?.map (·, Look.ahead)
        | [i, "R"] => i.toNat?.map (·, Look.behind)
        | _ => none
      match Sexp.parse rest2 with
      | some (.list [.atom "inline", .atom _, .list (.atom "symbols" :: syms)]) =>
        match syms.mapM parseInlined with
        | some symbols => (st, lookAnswer lk symbols)
        | none => (st, "bad-op")
      | _ => (st, "bad-op")
    | _ => (st, "bad-op")
  | ["lookeval"] =>
    match Sexp.parse rest >>= parseLTree with
    | some t =>
      let toks := (leaves t).toArray
      let (_, v, _) := evalHost false toks 0 t
      (st, v)
    | none => (st, "bad-op")
  | ["lookmodel"] =>
    match Sexp.parse rest >>= parseLTree with
    | some t =>
      let toks := (leaves t).toArray
      let (_, v, _) := evalHost true toks 0 t
      (st, v)
    | none => (st, "bad-op")
  | _ => (st, "bad-op")

def main : IO Unit := lineLoopS ({} : VState) step
