#!/usr/bin/env python3
import re, sys
try:
    t = open(sys.argv[1], errors='replace').read()
except Exception:
    sys.exit(1)
passed = sum(int(x) for x in re.findall(r"^test result: ok\. (\d+) passed", t, re.M))
bad = len(re.findall(r"^test result: FAILED", t, re.M))
sys.exit(0 if (passed >= 349 and bad == 0) or bad > 0 else 1)
