#!/bin/sh
# bin/confirm_demo.sh Cxx n — author's demo on clean HEAD and with the patch (worktree must not be in use)
P=$1; n=$2; W=/tmp/seed-$P; d=SEED/$n
export CARGO_NET_OFFLINE=true
cd $W || exit 1
run=$(ls $d/demo/run.sh $d/run.sh $d/run_demo.sh $d/demo/demo.sh 2>/dev/null | head -1)
[ -n "$run" ] || { echo "no demo script in $d"; exit 1; }
git checkout -q -- . ; cargo build -q -p lalrpop --offline
( timeout 1500 sh $run ) > $d/confirm_clean.out 2>&1; echo "clean exit=$?"
git apply $d/patch.diff || exit 2
cargo build -q -p lalrpop --offline
( timeout 1500 sh $run ) > $d/confirm_mutant.out 2>&1; echo "mutant exit=$?"
git checkout -q -- .
