#!/usr/bin/env python3
"""Regenerates /verif/MANIFEST.json from /verif/checks/registry.py (single source of truth)."""
import json, sys
sys.path.insert(0, "/verif")
from checks.registry import CLAIMED, NOT_APPLICABLE, HOOK_COMMITS

checks = []
for pid, c in sorted(CLAIMED.items()):
    checks.append({
        "property_id": pid,
        "quick_cmd": f"bin/check {pid} --tier quick",
        "thorough_cmd": f"bin/check {pid} --tier thorough",
        "evidence_file": f"/verif/evidence/{pid}.json",
        "replay_cmd_template": f"bin/check {pid} --replay {{path}}",
        "engine": "lean4-proof+correspondence",
        "level_claimed": {"category": c["category"], "text": c["text"], "design_ref": c.get("design_ref", "DESIGN.md §7 " + pid)},
        "level_note": c["note"],
        "technique": c["technique"],
    })
m = {
    "version": 1,
    "setup_cmd": "bin/setup",
    "hooks": {
        "guard": "cargo feature `verif_hooks` of crate lalrpop (default off)",
        "enable": "the harness crate /verif/harness depends on /repo/lalrpop by path with features=[\"verif_hooks\"]; checks run `cargo build --offline` there, which rebuilds from /repo's working tree",
        "baseline_off_cmd": "cd /repo && cargo nextest run --workspace --no-fail-fast --test-threads 8 --offline || cargo test --workspace --no-fail-fast --offline",
        "source_commits": HOOK_COMMITS,
        "add_only": True,
    },
    "engines": [{
        "name": "lean4-proof+correspondence",
        "path": "/verif/lean, /verif/harness, /verif/bin/check",
        "serves_properties": sorted(CLAIMED),
        "kind_free_text": "Lean 4 theorems about executable models (lake build + #print axioms audit) tied to /repo by differential correspondence runs and, for LR tables, a proven validator applied to re-extracted automata",
    }],
    "checks": checks,
    "not_applicable": [{"property_id": p, "reason": r} for p, r in sorted(NOT_APPLICABLE.items())],
    "notes": "See DESIGN.md. Every check: proof obligations first, then correspondence, then property-level search; evidence rewritten on every run.",
}
json.dump(m, open("/verif/MANIFEST.json", "w"), indent=1)
print("claimed", len(checks), "not_applicable", len(m["not_applicable"]))
