#!/bin/sh
# bin/confirm_seed.sh Cxx — independent confirmation of the seeded mutants delivered in /tmp/seed-Cxx/SEED/<n>:
# demo on clean HEAD, then with the patch: demo again and the whole test suite. Log: /var/tmp/vt/confirm-Cxx.log
P=$1; W=/tmp/seed-$P; L=/var/tmp/vt/confirm-$P.log; : > $L
export CARGO_NET_OFFLINE=true
cd $W || exit 1
for d in SEED/[0-9]*; do
  n=${d#SEED/}
  [ -f $d/patch.diff ] || { echo "## $P/$n: no patch.diff" >> $L; continue; }
  run=$(ls $d/demo/run.sh $d/run.sh 2>/dev/null | head -1)
  echo "## $P/$n demo=$run" >> $L
  git checkout -q -- . ; cargo build -q -p lalrpop --offline >> $L 2>&1
  echo "--- demo on clean HEAD" >> $L; ( [ -n "$run" ] && timeout 900 sh $run ) > $d/confirm_clean.out 2>&1; echo "exit=$?" >> $L; tail -15 $d/confirm_clean.out >> $L
  git apply $d/patch.diff >> $L 2>&1 || { echo "PATCH DOES NOT APPLY" >> $L; continue; }
  cargo build -q -p lalrpop --offline >> $L 2>&1
  echo "--- demo with mutant" >> $L; ( [ -n "$run" ] && timeout 900 sh $run ) > $d/confirm_mutant.out 2>&1; echo "exit=$?" >> $L; tail -15 $d/confirm_mutant.out >> $L
  echo "--- test suite with mutant" >> $L
  mkdir -p target
  timeout 5400 cargo test --workspace --offline --no-fail-fast --lib --bins --tests > $d/confirm_suite.log 2>&1
  grep -E "^test result|FAILED|failed" $d/confirm_suite.log | sort | uniq -c | tail -20 >> $L
  git checkout -q -- .
done
echo "## done" >> $L
