#!/bin/sh
# bin/confirm_queue.sh Cxx... — run the missing full-suite confirmations of seeded mutants,
# at most 4 properties at a time; the mutants of one property (same worktree) run sequentially.
for P in "$@"; do echo $P; done | xargs -P 6 -I{} sh -c '
  P={}
  for d in /tmp/seed-$P/SEED/[0-9]*; do
    n=$(basename $d); [ -f $d/patch.diff ] || continue
    /verif/bin/suite_done.py $d/confirm_suite.log || /verif/bin/confirm_suite.sh $P $n
  done'
echo queue-done >> /var/tmp/vt/confirm-queue.log
