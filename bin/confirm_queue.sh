#!/bin/sh
# bin/confirm_queue.sh Cxx... — run the missing full-suite confirmations of seeded mutants,
# at most 4 properties at a time; the mutants of one property (same worktree) run sequentially.
for P in "$@"; do echo $P; done | xargs -P 4 -I{} sh -c '
  P={}
  for d in /tmp/seed-$P/SEED/[0-9]*; do
    n=$(basename $d); [ -f $d/patch.diff ] || continue
    ok=$(grep -c "^test result: ok" $d/confirm_suite.log 2>/dev/null); bad=$(grep -c "^test result: FAILED" $d/confirm_suite.log 2>/dev/null)
    if [ "${ok:-0}" -lt 17 ] && [ "${bad:-0}" -eq 0 ]; then /verif/bin/confirm_suite.sh $P $n; fi
  done'
echo queue-done >> /var/tmp/vt/confirm-queue.log
