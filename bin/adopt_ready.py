#!/usr/bin/env python3
"""adopt every seeded mutant whose confirmation is complete (demo outputs on clean and mutant + full suite ok)"""
import json, os, re, subprocess
res = json.load(open('/verif/seeded/results.json'))
for key, v in sorted(res.items()):
    P, n = key.split('-')
    src = f"/tmp/seed-{P}/SEED/{n}"
    dst = f"/verif/seeded/{P}-{n}-{v['slug']}"
    if os.path.exists(dst + "/meta.json"):
        continue
    suite = f"{src}/confirm_suite.log"
    ok = bad = 0
    if os.path.exists(suite):
        t = open(suite, errors='replace').read()
        ok = sum(int(x) for x in re.findall(r"^test result: ok\. (\d+) passed", t, re.M)); bad = len(re.findall(r"^test result: FAILED", t, re.M))
    demos = os.path.exists(f"{src}/confirm_clean.out") and os.path.exists(f"{src}/confirm_mutant.out")
    if ok >= 349 and bad == 0 and demos:
        results = "; ".join(f"{c}: {r}" for c, r in v['checks'].items())
        subprocess.run(["/verif/bin/adopt_seed.py", P, n, v['slug'], results])
    else:
        print(f"not ready {key}: suite passed={ok} failed={bad} demos={demos}")
