#!/usr/bin/env python3
"""bin/adopt_seed.py Cxx n slug 'check results line(s)' — copy a confirmed seeded mutant from /tmp/seed-Cxx/SEED/n
into /verif/seeded/<Cxx>-<n>-<slug>/ with meta.json (what it breaks / needs comes from the author's notes.md)."""
import json, os, re, shutil, subprocess, sys
P, n, slug, results = sys.argv[1], sys.argv[2], sys.argv[3], sys.argv[4]
src = f"/tmp/seed-{P}/SEED/{n}"
dst = f"/verif/seeded/{P}-{n}-{slug}"
os.makedirs(dst, exist_ok=True)
shutil.copy(f"{src}/patch.diff", f"{dst}/patch.diff")
for f in ("notes.md", "confirm_clean.out", "confirm_mutant.out"):
    if os.path.exists(f"{src}/{f}"):
        shutil.copy(f"{src}/{f}", f"{dst}/{f}")
for cand in ("demo", "run.sh"):
    s = f"{src}/{cand}"
    if os.path.isdir(s):
        shutil.copytree(s, f"{dst}/demo", dirs_exist_ok=True, ignore=shutil.ignore_patterns("target", "*.lock"))
    elif os.path.isfile(s):
        shutil.copy(s, f"{dst}/{cand}")
suite = ""
if os.path.exists(f"{src}/confirm_suite.log"):
    lines = [l for l in open(f"{src}/confirm_suite.log", errors="replace") if l.startswith("test result")]
    ok = sum(1 for l in lines if "test result: ok" in l)
    passed = sum(int(m.group(1)) for l in lines for m in [re.search(r"(\d+) passed", l)] if m)
    failed = sum(int(m.group(1)) for l in lines for m in [re.search(r"(\d+) failed", l)] if m)
    suite = f"{len(lines)} test binaries reported, {ok} ok; {passed} passed, {failed} failed (baseline: 349 tests; doc-test binaries contain 0 tests)"
notes = open(f"{src}/notes.md", errors="replace").read() if os.path.exists(f"{src}/notes.md") else ""
meta = {
    "property": P,
    "origin": f"fresh sub-agent given only the property text and a scratch worktree (/tmp/seed-{P}), base commit a1b75af",
    "files_changed": sorted(set(re.findall(r"^\+\+\+ b/(.*)$", open(f"{dst}/patch.diff").read(), re.M))),
    "needs_to_manifest": (re.search(r"(?is)what it needs.*?\n(.*?)(\n## |\Z)", notes) or [None, notes[:600]])[1].strip()[:1500],
    "confirmed_by_coordinator": {
        "procedure": "bin/confirm_seed.sh: author's demo on clean HEAD, then with patch.diff applied: demo again and `cargo test --workspace --offline --no-fail-fast`",
        "suite_with_mutant": suite,
        "demo_clean_tail": open(f"{src}/confirm_clean.out", errors="replace").read()[-600:] if os.path.exists(f"{src}/confirm_clean.out") else None,
        "demo_mutant_tail": open(f"{src}/confirm_mutant.out", errors="replace").read()[-900:] if os.path.exists(f"{src}/confirm_mutant.out") else None,
    },
    "checks_run": "bin/seedtest <patch> <checks> (isolated copy of /repo with the patch applied; equivalent to git -C /repo apply; bin/check; git checkout)",
    "check_results": results,
}
json.dump(meta, open(f"{dst}/meta.json", "w"), indent=1, ensure_ascii=False)
print(dst, suite)
