#!/bin/sh
# quick M-LR correspondence (driver + certificates): lrdrive vs lpm_lr; prints number of differing lines
set -e
N=${1:-100}; SEED=${2:-3}
D=/var/tmp/verif-lrcorr-$$; mkdir -p $D
cd /verif/lean && lake build lpm_lr >/dev/null
cd /verif/harness && cargo build --offline --bin lrdrive 2>/dev/null
timeout 600 ./target/debug/lrdrive --seed $SEED --n $N --out $D > $D/stats.json
timeout 900 /verif/lean/.lake/build/bin/lpm_lr < $D/lr.req > $D/lr.model
paste -d'\n' $D/lr.impl $D/lr.model | awk 'NR%2==1{a=$0} NR%2==0{ if(a!=$0){n++; if(n<=5){print NR/2": IMPL "a; print "    MODEL "$0}}} END{print n+0" diffs of "NR/2" cases"}'
echo "valid certificates: $(grep -c '^valid' $D/lr.model)"
rm -rf $D
