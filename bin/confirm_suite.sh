#!/bin/sh
# bin/confirm_suite.sh Cxx n — (re)run only the full test suite with mutant n applied in /tmp/seed-Cxx
P=$1; n=$2; W=/tmp/seed-$P; d=SEED/$n
export CARGO_NET_OFFLINE=true
cd $W || exit 1
git checkout -q -- . && git apply $d/patch.diff || exit 2
mkdir -p target
timeout 14400 cargo test --workspace --offline --no-fail-fast --lib --bins --tests > $d/confirm_suite.log 2>&1
echo "## $P/$n suite-only rerun" >> /var/tmp/vt/confirm-$P.log
grep -E "^test result" $d/confirm_suite.log | sort | uniq -c >> /var/tmp/vt/confirm-$P.log
git checkout -q -- .
