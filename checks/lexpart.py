"""Lexer part shared by C08 (termination / no empty tokens) and C09 (longest match): the real
`lalrpop_util::lexer::Matcher` against the Lean model `Lex.next` / `Lex.tokens`.

`run_lexer_part(ctx)` is what checks/c08.py calls for the built-in-lexer half of C08: it builds and
audits Props/C08Lex (lexer_progress & co. for the fixed `next`; the divergence theorems for the
code as found), runs harness bin `lexer` (every real run under a step budget, so a regression can
not hang the check), pipes the same cases through `lpm_lex`, and reports
  * a zero-length token / exhausted budget on the real Matcher  -> ctx.failing_input, fingerprint
    `lexer-empty-token` (one stable fingerprint for the defect class, concrete patterns+input in the replay),
  * any other disagreement with the model                       -> ctx.failing_input `lex:<request>`
    (the model is proved equal to the documented stream: stream_spec / stream_spec_unique).
"""
import json
import os

MODULE = "LalrpopModel.Props.C08Lex"
THEOREMS = [
    "LalrpopModel.Lex.lexer_progress", "LalrpopModel.Lex.next_iterations_le",
    "LalrpopModel.Lex.token_advances", "LalrpopModel.Lex.no_empty_token",
    "LalrpopModel.Lex.nextOrig_stuck", "LalrpopModel.Lex.nextOrig_diverges",
    "LalrpopModel.Lex.lexer_empty_token_diverges", "LalrpopModel.Lex.aStar_deadSound",
]
ASSUMPTIONS = [
    "regex-automata's lazy DFA reports MatchKind::All pattern sets with a one-byte delay and `is_dead` soundly "
    "(the oracle abstraction of Model/Lex.lean); checked against the `regex` crate's full-match results on every generated case",
    "the generated parser stops pulling tokens at the first Err of the Matcher (state_machine.rs / ascent driver)",
]


def decode_req(req):
    """human-readable form of a `lex` request line for replays"""
    try:
        _, bits, text, table = req.split(" ")
        return {"skip_bits": bits, "text": bytes.fromhex(text[1:]).decode("utf-8", "replace"),
                "match_table(o:e:patterns)": table}
    except Exception:
        return {"raw": req}


def run_lexer(ctx, stem_suffix="", canonicalise_zero_length=False, n=None):
    """Runs harness `lexer` + `lpm_lex`; returns (stats, disagreements)."""
    (exe,) = ctx.build_harness(["lexer"])
    n = n or ctx.vol(20000, 400000)
    out = os.path.join(ctx.scratch, "lex" + stem_suffix)
    rc, so, se = ctx.run_harness(exe, ["--seed", ctx.seed, "--n", n, "--out", out], timeout=3000)
    if rc != 0:
        ctx.fatal("harness lexer failed: " + se[-800:])
    stats = json.loads(so.strip().splitlines()[-1])
    if canonicalise_zero_length:
        # C09 takes no position on zero-length matches (C08 does): a zero-length token `Z:s:i`
        # returned by an unfixed Matcher is compared as the InvalidToken the fixed code returns.
        p = os.path.join(out, "lex.impl")
        lines = open(p).read().split("\n")
        fixed = []
        for ln in lines:
            parts = ln.split(" ")
            if parts and parts[-1].startswith("Z:"):
                parts[-1] = "I:" + parts[-1].split(":")[1]
            fixed.append(" ".join(parts))
        open(p, "w").write("\n".join(fixed))
    dis = ctx.correspond("Matcher::next token stream vs Lex.tokens" + stem_suffix, "lpm_lex", "lex", outdir=out)
    return stats, dis


def run_lexer_part(ctx, n=None):
    """Lexer half of C08. Returns a summary dict; violations go through ctx.failing_input."""
    ctx.lean_build([MODULE, "lpm_lex"])
    ctx.lean_audit(MODULE, THEOREMS)
    if not ctx.quick():
        ctx.leanchecker(MODULE)
    stats, dis = run_lexer(ctx, "-c08", n=n)
    if stats["zero_length_tokens"] or stats["budget_exhausted"]:
        ctx.failing_input(
            "lexer-empty-token",
            "built-in lexer returns a zero-length token without advancing (Matcher::next only checks "
            "longest_match == 0 in the skip branch): a parser pulling tokens never terminates",
            {"first_case": stats["first_zero_length"], "cases_with_zero_length_token": stats["zero_length_tokens"],
             "budget_exhausted": stats["budget_exhausted"],
             "theorem": "LalrpopModel.Lex.lexer_empty_token_diverges / nextOrig_diverges (model of the unfixed code)",
             "reproduce": "MatcherBuilder::new([(\"a*\", false)]).matcher(\"b\").next() keeps returning Ok((0, Token(0, \"\"), 0))"})
    for d in dis[:20]:
        last = d["impl"].split(" ")[-1]
        if last.startswith("Z:") or last == "B":
            continue  # the defect class reported above
        ctx.failing_input("lex:" + d["req"], "Matcher token stream deviates from the specified stream (stream_spec)",
                          {"request": decode_req(d["req"]), "implementation": d["impl"], "expected_by_model": d["model"]})
    ctx.coverage.setdefault("lexer_part", {}).update({
        "cases": stats["cases"], "distinct_nontrivial": stats["distinct_nontrivial"],
        "tokens_seen": stats["tokens"], "max_next_calls_per_case": stats["max_next_calls"],
        "zero_length_tokens": stats["zero_length_tokens"], "budget_exhausted": stats["budget_exhausted"],
        "skipped_not_buildable": stats["skipped_not_buildable"], "generator_distribution": stats["hist"],
        "rule": "non-trivial = (two patterns match the same prefix, or a shorter and a longer match exist at one offset, "
                "or the stream ends in InvalidToken) with a skip pattern present, or both of the first two; distinct request lines",
    })
    for a in ASSUMPTIONS:
        if a not in ctx.assumptions:
            ctx.assumptions.append(a)
    return {"stats": stats, "disagreements": len(dis)}
