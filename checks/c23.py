"""C23 — each grammar file maps to exactly one output at the documented path."""
import json
import os

from checks import buildlayer, common

LEVEL = "proof"
MANIFEST = {
    "category": "proof",
    "technique": "Lean 4 theorems about a component-list model of gen_resolve_file / lalrpop_files / process_dir / "
                 "process_file / verify_no_in_dir_conflict / emit_rerun_directive + differential correspondence with the "
                 "real API and the CLI binary on generated directory trees",
    "text": "Model/Path.lean mirrors std::path on component lists (parent, strip_prefix, join, file_name, with_extension "
            "exactly as std implements it) and gen_resolve_file incl. the unwrap on strip_prefix as an explicit panic "
            "outcome; the walk is a depth-first traversal of a tree with per-directory byte-wise sorting. Props/C23.lean "
            "proves: out_path_spec_beside / out_path_spec / out_path_spec_single_file (no out dir: beside the input; "
            "process_dir: out/(rel dir minus ONE leading src)/stem.rs; process_file: directly in out dir), "
            "with_extension_spec (+plain/hidden/`..x` cases), whitespace_rejected, walk_selects_lalrpop_ext, "
            "walk_order_sorted, walk_fatal_iff, out_path_total (the unwrap is unreachable when process_dir is given a directory) and "
            "process_dir_on_file_panics (it is reached when given a .lalrpop file), rerun_lists_processed / "
            "rerun_prefix, in_dir_conflict_spec(+_file). Each run generates directory trees (nesting, src at several "
            "depths, symlinked files/dirs, dangling links, loops, fifos, dotted/hidden/white-space/non-UTF-8 names, "
            "non-.lalrpop files) and processes them with process_dir, process, use_cargo_dir_conventions, "
            "generate_in_source_tree, process_file and the CLI; results, the .rs files found and the rerun directives "
            "on stdout are compared with the compiled model.",
    "note": "Symlink following, dangling-link detection and loop errors are walkdir/OS behaviour: covered by the "
            "correspondence only (the model's tree is the tree after link resolution). walk_order_sorted proves that the "
            "model's walk order is the component-wise byte-wise lexicographic order; the real order is tied to it through "
            "the order of the rerun directives. Two deviations are proved of the model and shown on the real code: a file "
            "named `..<ext>` maps to the directory `..` (std's with_extension) and fails with 'Is a directory' (known "
            "finding); process_dir on a path that is a .lalrpop file panicked (process_dir_on_file_panics, model flag "
            "stripFallback off) — repaired, process_dir_on_file_fixed; the flag is re-read from the source every run.",
}
MODULE = "LalrpopModel.Props.C23"
P = "LalrpopModel.PathM."
THEOREMS = [P + t for t in [
    "with_extension_plain", "with_extension_hidden", "with_extension_spec", "with_extension_dotdot",
    "out_path_spec_beside", "out_path_spec", "out_path_spec_single_file",
    "whitespace_rejected", "whitespace_rejected_no_events",
    "walk_selects_lalrpop_ext", "walk_fatal_iff", "walked_files_under_root", "out_path_total",
    "process_dir_on_file_panics", "process_dir_on_file_fixed", "out_dir_total_fixed", "processFile_events", "rerun_lists_processed", "rerun_prefix",
    "in_dir_conflict_spec", "in_dir_conflict_spec_file", "process_file_dir_total",
    "walk_under", "mem_walk_sortTree", "walk_order_sorted", "relWalk_sortTree_pairwise", "filesOf_walk",
    "nameLt_trans", "nameLt_total", "insertEntry_sorted",
]]

CLI_TARGET = os.path.join(common.HARNESS, "target", "cli")


def dec_path(p):
    if p == "E":
        return ""
    out = []
    for c in p.split("/"):
        if c.startswith("N"):
            out.append(bytes.fromhex(c[1:]).decode("utf-8", "backslashreplace"))
        else:
            out.append({"R": "", "C": ".", "P": ".."}.get(c, c))
    s = "/".join(out)
    return "/" if s == "" else s


def readable(line):
    parts = line.split(" | ")
    if len(parts) != 3:
        return line
    def f(x):
        return [w.split(":", 1)[0] + ":" + dec_path(w.split(":", 1)[1]) if ":" in w else w for w in x.split()]
    return {"outcome": parts[0], "rerun": f(parts[1]), "generated": f(parts[2])}


def readable_req(req):
    out = {}
    w = req.split()
    out["mode"] = w[0]
    for kv in w[1:]:
        k, v = kv.split("=", 1)
        if k in ("in", "out", "env", "cwd"):
            out[k] = None if v == "-" else dec_path(v)
        elif k in ("args", "bad", "gone"):
            out[k] = [] if v in ("-",) else [dec_path(x) for x in v.split(",")]
        elif k == "tree":
            ent = []
            if v != "-":
                for e in v.split(";"):
                    names, kind = e.split("=")
                    rel = "/".join(bytes.fromhex(n).decode("utf-8", "backslashreplace") for n in names.split("/") if n)
                    ent.append(f"{rel or '.'} [{ {'f': 'file', 'd': 'dir', 'x': 'dangling link', 'o': 'fifo', 'l': 'loop/missing'}[kind] }]")
            out[k] = ent
        else:
            out[k] = v
    return out


def run(ctx):
    ctx.lean_build([MODULE, "lpm_path"])
    ctx.lean_audit(MODULE, THEOREMS)
    if not ctx.quick():
        ctx.leanchecker(MODULE)
    (exe,) = ctx.build_harness(["paths"])
    # the CLI binary of the current working tree (own target dir: no lock contention with /repo/target)
    rc, out, err = common.sh(["cargo", "build", "--offline", "-p", "lalrpop"], cwd=common.REPO,
                             env={"CARGO_TARGET_DIR": CLI_TARGET}, timeout=3600)
    cli = os.path.join(CLI_TARGET, "debug", "lalrpop")
    ctx.oblige("cargo build -p lalrpop (CLI binary of the working tree)", rc == 0 and os.path.exists(cli), err[-1500:])
    fallback = buildlayer.strip_prefix_fallback()
    ctx.coverage["strip_prefix_fallback_in_source"] = fallback
    args = ["--seed", ctx.seed, "--n", ctx.vol(1500, 15000), "--out", ctx.scratch]
    if fallback:
        args.append("--fallback")
    if rc == 0:
        args += ["--cli", cli]
    rc, out, err = ctx.run_harness(exe, args, timeout=3000)
    if rc != 0:
        ctx.fatal("harness paths failed: " + err[-500:])
    stats = json.loads(out.strip().splitlines()[-1])
    dis = ctx.correspond("directory trees: real API + CLI vs Model.Path", "lpm_path", "paths")
    reqs = open(os.path.join(ctx.scratch, "paths.req")).read().split("\n")
    imps = open(os.path.join(ctx.scratch, "paths.impl")).read().split("\n")
    # distinct non-trivial: distinct (mode, configuration shape, observed result with paths relative to the case dir)
    def shape(r, i):
        w = r.split()
        kv = dict(x.split("=", 1) for x in w[1:])
        cwd = kv.get("cwd", "")
        case = cwd.rsplit("/", 1)[0] if "/" in cwd else cwd
        return (w[0], kv.get("in") != "-", kv.get("out") != "-", kv.get("env") != "-", kv.get("rerun"),
                i.replace(case, "$CASE"))
    distinct = {shape(r, i) for r, i in zip(reqs, imps) if r}
    nontrivial = {s for s in distinct if " | " in s[-1] and (s[-1].split(" | ")[2] or not s[-1].startswith("ok"))}
    ctx.coverage.update({
        "evaluations": stats["cases"],
        "distinct_nontrivial": len(nontrivial),
        "rule": "random trees (depth ≤ 3, 22 file-name shapes incl. dotted/hidden/white-space/non-UTF-8/`..lalrpop`, 11 "
                "directory names incl. src, symlinks to files and directories, dangling links, loops, fifos, root being a "
                "file or missing) × modes process_dir / process / cargo conventions / in-source / process_file / CLI × "
                "in_dir, out_dir, OUT_DIR, rerun settings and path spellings (./x, x/, x/., absolute); counted: distinct "
                "(mode, which settings are present, result with outputs and directives, paths relative to the case dir) "
                "that generated at least one output or ended in an error",
        "outputs_generated": stats["outputs_generated"],
        "outcomes": stats["outcomes"],
        "generator_distribution": stats["hist"],
    })
    # The model is proved equal to the documented mapping (out_path_spec*, with_extension_spec, whitespace_rejected,
    # in_dir_conflict_spec, rerun_lists_processed), so a disagreement is an input on which the code deviates from it.
    for d in dis[:20]:
        if d["index"] == 2 and d["impl"].startswith("panic"):
            continue        # the fixed probe reported below under its own fingerprint
        mode = d["req"].split()[0]
        io, mo = d["impl"].split(" | ")[0], d["model"].split(" | ")[0]
        what_differs = "outcome" if io != mo else ("rerun" if d["impl"].split(" | ")[1:2] != d["model"].split(" | ")[1:2]
                                                    else "outputs")
        ctx.failing_input(f"c23:{mode}:{what_differs}:{io}:{mo}",
                          f"path mapping deviates from the documented behaviour in mode {mode}: {what_differs} differs "
                          f"(implementation {io}, documented {mo})",
                          {"request": readable_req(d["req"]), "implementation": readable(d["impl"]),
                           "documented": readable(d["model"]), "raw_request": d["req"],
                           "protocol": "lean/LalrpopModel/Drivers/Path.lean"})
    # Deviations from the property that model and code agree on (proved of the model, observed on the code):
    # the first two cases of every run are fixed probes.
    if len(reqs) > 1 and imps[0].startswith("builderr") and "N2e2e6c616c72706f70" in reqs[0]:
        ctx.failing_input("c23:dotdot-name-maps-to-parent-dir",
                          "a (valid) grammar file named `..lalrpop` is not written to `..rs`: std's "
                          "Path::with_extension turns `<dir>/..lalrpop` into `<dir>/..`, and the build fails with "
                          "'Is a directory' (process_dir stops there)",
                          {"request": readable_req(reqs[0]), "implementation": readable(imps[0]), "raw_request": reqs[0],
                           "model_theorem": "LalrpopModel.PathM.with_extension_dotdot"})
    if len(reqs) > 1 and imps[1].startswith("resolve:panic"):
        ctx.failing_input("c23:process-dir-on-file-panics",
                          "Configuration::process_dir(path) with path being a regular .lalrpop file panics in "
                          "gen_resolve_file (strip_prefix(in_dir).ok().unwrap() on None) instead of writing the output "
                          "or returning an io::Error",
                          {"request": readable_req(reqs[1]), "implementation": readable(imps[1]), "raw_request": reqs[1],
                           "model_theorem": "LalrpopModel.PathM.process_dir_on_file_panics"})
    if len(reqs) > 2 and imps[2].startswith("panic"):
        ctx.failing_input("c23:panic:hash_file-read-unwrap",
                          "process_file on a path that is a DIRECTORY panics in hash_file "
                          "(`file.read_to_end(&mut file_bytes).unwrap()` on EISDIR) when the output path already exists "
                          "(here: `src/g.lalrpop` processed first, then the directory `src/g`, both mapping to out/g.rs) "
                          "instead of returning an io::Error",
                          {"request": readable_req(reqs[2]), "implementation": readable(imps[2]), "raw_request": reqs[2],
                           "by_hand": "mkdir -p src/g && printf 'grammar;\\npub T: () = \"a\" => ();\\n' > src/g.lalrpop && "
                                      "lalrpop -o out src/g.lalrpop src/g"})
    ctx.assumptions += [
        "paths are compared as Rust's Path::components() lists (string-level normalisation is std's)",
        "walkdir's symlink following / dangling link / loop errors are observed, not proved",
        "with_extension is modelled after std's implementation (rust 1.95): strip the old extension keeping the dot, "
        "then set_extension",
    ]
