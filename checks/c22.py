"""C22 — a crash during generation never leaves output that a later build accepts."""
import json
import os

from checks import buildlayer

LEVEL = "proof"
MANIFEST = {
    "category": "proof",
    "technique": "Lean 4 theorems over the step sequence of process_file_into with crash prefixes (any step boundary, any "
                 "byte of any write) + real crashes (RLIMIT_FSIZE kill / failing write, guarded crash points) on the "
                 "real code, compared with the model and with a forced build",
    "text": "Model/Build.lean gives process_file_into as the ordered list of file-system actions (remove old output, "
            "report writes, create, version line, hash line, body, and for the repaired sequence a temporary sibling + "
            "rename). A crash leaves any prefix of that list with the last write cut at any byte (CrashPrefix). "
            "Props/C22.lean proves for the temp+rename sequence that after every crash prefix the next non-forced build "
            "leaves exactly the forced output (crash_then_build_current; rename atomic is the stated assumption), and "
            "proves for the write-in-place sequence that the property is false for every generator and hash function "
            "(header_then_crash: header lines written, body cut at any byte, next build says up to date). Which of the "
            "two sequences the source has is re-read from build/mod.rs on every run; the run then crashes the real code "
            "at every named step boundary and at byte offsets of every write (every offset of the header region and "
            "file tail, sampled or exhaustive in between) for several grammars/pre-states/configurations, compares the "
            "crash state and the rebuilt state with the model, and checks the property against a forced build.",
    "note": "Crash = process death or a failing write; power-loss reordering of data vs. metadata (no fsync) is outside "
            "the model. Hash injectivity assumed. The report file is covered by the model's action list and by the real "
            "crashes (report complete after the rebuild), but the Lean theorem is about the .rs output.",
}
MODULE = "LalrpopModel.Props.C22"
P = "LalrpopModel.Build."
THEOREMS = [P + t for t in [
    "crashCut_isPrefix", "crash_shape_fixed", "crash_states_fixed", "crash_inv_fixed",
    "crash_then_build_current", "fixed_crash_then_build_current", "fixed_crash_then_history_then_build_current",
    "stale_tmp_tail_kept", "crash_frame", "header_then_crash",
    "headerUtf8_canon", "inv_preserved_by_ops", "build_eq_forced", "fixed_build_eq_forced", "forced_build_output",
    "untouched_when_current",
]]


def run(ctx):
    ctx.lean_build([MODULE, "lpm_build"])
    ctx.lean_audit(MODULE, THEOREMS)
    if not ctx.quick():
        ctx.leanchecker(MODULE)
    variant, calls = buildlayer.write_sequence_variant()
    ctx.log(f"write sequence in source: {variant} {calls}")
    # the theorem that applies to the sequence found in the source
    ctx.coverage["write_sequence_in_source"] = variant
    ctx.coverage["source_calls"] = [f"{c}@{ln}" for c, ln in calls]
    ctx.coverage["applicable_theorem"] = (
        "header_then_crash (property is false for this write sequence)" if "tmp=0" in variant
        else "stale_tmp_tail_kept (property is false: temporary file opened without truncation)" if "trunc=0" in variant
        else "crash_then_build_current / fixed_crash_then_history_then_build_current (property holds)")
    (exe,) = ctx.build_harness(["crash"])
    args = ["--seed", ctx.seed, "--out", ctx.scratch, "--variant", variant, "--workers", 8]
    if not ctx.quick():
        args.append("--exhaustive")
    if ctx.replay_in:
        rp = json.load(open(ctx.replay_in))
        if "scenario" in rp and "point" in rp:
            args += ["--only", f"{rp['scenario']}:{rp['point']}"]
    rc, out, err = ctx.run_harness(exe, args)
    if rc != 0:
        ctx.fatal("harness crash failed: " + err[-500:])
    stats = json.loads(out.strip().splitlines()[-1])
    if stats["missing_answers"] or stats["worker_failures"]:
        ctx.oblige("crash workers completed", False, json.dumps(stats)[:500])
    dis = ctx.correspond("crash states and rebuilds: real code vs Model.Build", "lpm_build", "crash")
    reqs = open(os.path.join(ctx.scratch, "crash.req")).read().split("\n")
    imps = open(os.path.join(ctx.scratch, "crash.impl")).read().split("\n")
    distinct = {i for r, i in zip(reqs, imps) if r.startswith("crash")}
    ctx.coverage.update({
        "evaluations": stats["crash_points"],
        "distinct_nontrivial": len(distinct),
        "rule": "crash points = 8 named step boundaries + file-size limits n (kill by SIGXFSZ in a forked child, or the "
                "write failing with EFBIG): every n in the header region (+48 bytes) and the last 24 bytes, and "
                + ("every n in between for the two smallest scenarios (no output / stale output before the build), mean stride 2–13 "
                   "for the others" if not ctx.quick()
                   else "a random sample in between (mean stride 3 for the smallest scenario, 61/211 for the others)")
                + "; per scenario (grammar, pre-existing output: none/stale/current, forced, report; plus scenarios in which the "
                  "grammar is replaced after the crash by one with a shorter / longer output and scenarios with a stale "
                  "temporary file planted, crash points = named boundaries + write boundaries + a sample of offsets). "
                  "Counted as distinct non-trivial: distinct observed crash states (length+hash of .rs/.report/.tmp, rewritten flag)",
        "exhaustive": False,
        "exhaustive_scenarios": [] if ctx.quick() else ["small-none", "small-stale", "conflict-stale-report"],
        "scenarios": stats["scenarios"],
        "generator_distribution": stats["hist"],
        "findings_on_real_code": stats["findings"],
    })
    for d in dis[:5]:
        ctx.log(f"disagreement at #{d['index']}: req={d['req'][:100]} impl={d['impl']} model={d['model']}")
    # property-level findings: one fingerprint per kind, smallest example first
    best = {}
    count = {}
    for line in open(os.path.join(ctx.scratch, "crash.findings")):
        f = json.loads(line)
        k = f["kind"]
        count[k] = count.get(k, 0) + 1
        key = (f["scenario"] not in ("small-none", "medium-then-small"), not f["point"].startswith("limit"),
               f["crash_state_bytes"])
        if k not in best or key < best[k][0]:
            best[k] = (key, f)
    ctx.coverage["finding_counts"] = count
    for k, (_, f) in sorted(best.items()):
        n = f["crash_state_bytes"]
        what = {
            "stale-temporary-file-tail-in-output":
                "the temporary file is opened without truncation: bytes of a longer `<name>.rs.tmp` left by an earlier "
                "(interrupted) build survive behind the new contents and are renamed into the output, which every later "
                "non-forced build accepts",
            "truncated-output-accepted":
                "process_file_into writes the version line and the hash line into the .rs file before the body and "
                "never renames: a build interrupted after the two header lines leaves a truncated file that the next "
                "non-forced build accepts as up to date",
        }.get(k, f"after a crash and a normal rebuild the output is not the forced output ({k})")
        ctx.failing_input("c22:" + k, what, {
            "scenario": f["scenario"], "point": f["point"], "grammar": f["grammar"], "pre_output": f["pre_output"],
            "force": f["force"], "report": f["report"], "child_exit": f["child"],
            "stale_tmp_planted_bytes": f.get("stale_tmp_planted_bytes", -1),
            "grammar_replaced_after_crash": f.get("grammar_replaced_after_crash", False),
            "crash_state_bytes": n, "after_rebuild_bytes": f["after_rebuild_bytes"], "forced_bytes": f["forced_bytes"],
            "occurrences_this_run": count[k],
            "by_hand": "printf '%s' \"$GRAMMAR\" > g0.lalrpop; prlimit --fsize=" + str(max(n, 0)) +
                       " /repo/target/debug/lalrpop g0.lalrpop; /repo/target/debug/lalrpop g0.lalrpop; wc -c g0.rs "
                       "(compare with lalrpop -f)",
            "model_theorem": ("LalrpopModel.Build.stale_tmp_tail_kept" if k == "stale-temporary-file-tail-in-output"
                              else "LalrpopModel.Build.header_then_crash"),
        })
    ctx.assumptions += [
        "fs::rename within one directory is atomic with respect to process crashes (no partial form in CrashPrefix)",
        "a crash is a process death or a failing write; durability across power loss (fsync ordering) is not modelled",
        "hash injectivity; header lines survive read_line+trim (re-checked on the real strings each run)",
        "RLIMIT_FSIZE cuts a write exactly at the limit (Linux semantics), used to realise 'every byte of every write'",
    ]
