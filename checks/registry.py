"""Single source of truth for MANIFEST.json (run bin/gen_manifest.py after editing)."""
HOOK_COMMITS = []

CLAIMED = {
    "C28": {
        "category": "proof",
        "technique": "Lean 4 theorems over a hand model of ParseError + differential correspondence with lalrpop_util",
        "text": "All helper laws (map_location incl. FnMut call order, map_token, map_error, From, Display incl. the "
                "'Expected one of a, b or c' format for lists of any length) are Lean theorems about Model/Err.lean for all "
                "values; the model is tied to lalrpop-util by an exhaustive small-domain + random differential run each check.",
        "note": "Trusted: Lean kernel (axioms propext/Classical.choice/Quot.sound only), the hand model's fidelity as far as the "
                "correspondence run exercises it, Rust's integer Display for locations.",
    },
}

NOT_APPLICABLE = {
    "C01": "not yet built in this round (machinery under construction; see DESIGN.md §10 build order) — will be claimed once its check exists",
    "C02": "not yet built in this round (machinery under construction; see DESIGN.md §10 build order) — will be claimed once its check exists",
    "C03": "not yet built in this round (machinery under construction; see DESIGN.md §10 build order) — will be claimed once its check exists",
    "C04": "not yet built in this round (machinery under construction; see DESIGN.md §10 build order) — will be claimed once its check exists",
    "C05": "not yet built in this round (machinery under construction; see DESIGN.md §10 build order) — will be claimed once its check exists",
    "C06": "not yet built in this round (machinery under construction; see DESIGN.md §10 build order) — will be claimed once its check exists",
    "C07": "not yet built in this round (machinery under construction; see DESIGN.md §10 build order) — will be claimed once its check exists",
    "C08": "not yet built in this round (machinery under construction; see DESIGN.md §10 build order) — will be claimed once its check exists",
    "C09": "not yet built in this round (machinery under construction; see DESIGN.md §10 build order) — will be claimed once its check exists",
    "C10": "not yet built in this round (machinery under construction; see DESIGN.md §10 build order) — will be claimed once its check exists",
    "C11": "not yet built in this round (machinery under construction; see DESIGN.md §10 build order) — will be claimed once its check exists",
    "C12": "not yet built in this round (machinery under construction; see DESIGN.md §10 build order) — will be claimed once its check exists",
    "C13": "not yet built in this round (machinery under construction; see DESIGN.md §10 build order) — will be claimed once its check exists",
    "C14": "not yet built in this round (machinery under construction; see DESIGN.md §10 build order) — will be claimed once its check exists",
    "C15": "not yet built in this round (machinery under construction; see DESIGN.md §10 build order) — will be claimed once its check exists",
    "C16": "not yet built in this round (machinery under construction; see DESIGN.md §10 build order) — will be claimed once its check exists",
    "C17": "not yet built in this round (machinery under construction; see DESIGN.md §10 build order) — will be claimed once its check exists",
    "C18": "not yet built in this round (machinery under construction; see DESIGN.md §10 build order) — will be claimed once its check exists",
    "C19": "not yet built in this round (machinery under construction; see DESIGN.md §10 build order) — will be claimed once its check exists",
    "C20": "not yet built in this round (machinery under construction; see DESIGN.md §10 build order) — will be claimed once its check exists",
    "C21": "not yet built in this round (machinery under construction; see DESIGN.md §10 build order) — will be claimed once its check exists",
    "C22": "not yet built in this round (machinery under construction; see DESIGN.md §10 build order) — will be claimed once its check exists",
    "C23": "not yet built in this round (machinery under construction; see DESIGN.md §10 build order) — will be claimed once its check exists",
    "C24": "not yet built in this round (machinery under construction; see DESIGN.md §10 build order) — will be claimed once its check exists",
    "C25": "not yet built in this round (machinery under construction; see DESIGN.md §10 build order) — will be claimed once its check exists",
    "C26": "not yet built in this round (machinery under construction; see DESIGN.md §10 build order) — will be claimed once its check exists",
    "C27": "not yet built in this round (machinery under construction; see DESIGN.md §10 build order) — will be claimed once its check exists",
}
