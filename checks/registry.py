"""Single source of truth for MANIFEST.json (run bin/gen_manifest.py after adding a check).

Every claimed property has a module checks/cNN.py with a dict MANIFEST = {category, technique, text, note}.
Properties without such a module are listed under not_applicable with the reason below."""
import glob
import importlib
import os
import re

import subprocess
try:
    HOOK_COMMITS = [l for l in subprocess.run(["git", "-C", "/repo", "log", "--format=%h %s"], capture_output=True, text=True).stdout.splitlines()
                    if l.split(" ", 1)[1].startswith("verif hooks")]
except Exception:
    HOOK_COMMITS = []

ALL = [f"C{i:02d}" for i in range(1, 29)]
# checks that exist but are withdrawn for now (reason shown under not_applicable)
WITHDRAWN = {
}
CLAIMED = {}
for path in sorted(glob.glob(os.path.join(os.path.dirname(__file__), "c[0-9][0-9].py"))):
    name = os.path.basename(path)[:-3]
    mod = importlib.import_module("checks." + name)
    m = getattr(mod, "MANIFEST", None)
    if m and name.upper() not in WITHDRAWN:
        CLAIMED[name.upper()] = m

NOT_BUILT = ("not yet built: the Lean model/theorems and correspondence for this property are still under "
             "construction (DESIGN.md §10 build order); it will be claimed once its check exists")
NOT_APPLICABLE = {p: WITHDRAWN.get(p, NOT_BUILT) for p in ALL if p not in CLAIMED}
