"""C07 — Table-driven and recursive-ascent parsers give identical results."""
from checks import lrfamily

LEVEL = "proof"
MODULE = "LalrpopModel.Props.C07"
THEOREMS = ['LalrpopModel.LR.accepts_iff_derives', 'LalrpopModel.LR.drive_sound', 'LalrpopModel.LR.drive_complete', 'LalrpopModel.LR.returns_unique']
MANIFEST = {
    "category": "proof",
    "technique": 'Lean 4 proof for the table side + differential correspondence of both compiled backends against the model',
    "text": 'Table side proven equal to the abstract LR run of the exported automaton (validator: every table cell is an automaton transition / justified reduce; encode model compared cell by cell). Ascent side: every compiled #[recursive_ascent] parser is compared with the compiled table-driven parser of the same grammar and with the model on all generated inputs (value, variant, token, location, user error, tokens pulled, action order); expected lists are governed by C05.',
    "note": 'The ascent code generator itself is not modelled; it is tied by the differential run only.',
}


def run(ctx):
    lrfamily.obligations(ctx, MODULE, THEOREMS)
    # every grammar template once, then random ones: the ascent generator is tied by this differential only
    lrfamily.compiled_layer(ctx, "C07", grammars=ctx.vol(60, 400), inputs=ctx.vol(30, 60))
    lrfamily.driver_layer(ctx, "C07")
    ctx.coverage.setdefault("trusted_base", []).extend(lrfamily.TRUST_LR)
    ctx.coverage["rule"] = ("grammars from LR-biased templates, mutations and random CFGs x {lane-table, canonical LR(1), LALR}; "
                            "inputs = sampled sentences, single-token mutations, random strings, injected errors, all short strings")
    ctx.coverage["evaluations"] = ctx.coverage.get("traces_validated_against_impl", 0)
    ctx.coverage["distinct_nontrivial"] = ctx.coverage.get("driver_layer", {}).get("distinct_tables", 0) + ctx.coverage.get("compiled_layer", {}).get("grammars", 0)
    ctx.assumptions += ["token kinds handed to the driver are terminal indices (< nTerm): what __token_to_integer answers"]
