"""C04 — Syntax errors are reported at the first token that cannot continue the input."""
from checks import lrfamily

LEVEL = "proof"
MODULE = "LalrpopModel.Props.C04"
THEOREMS = ['LalrpopModel.LR.GenericThms.unrecognized_token_is_last_pulled', 'LalrpopModel.LR.GenericThms.unrecognized_eof_location', 'LalrpopModel.LR.GenericThms.pulled_le', 'LalrpopModel.LR.GenericThms.no_extra_token_unless_start_reduce_under_lookahead', 'LalrpopModel.LR.accepts_iff_derives', 'LalrpopModel.LR.driver_no_panic', 'LalrpopModel.LR.error_at_first_bad_token', 'LalrpopModel.LR.first_bad_token_unique', 'LalrpopModel.LR.eof_error', 'LalrpopModel.LR.error_not_prefix', 'LalrpopModel.LR.eof_error_not_sentence', 'LalrpopModel.LR.rejected_iff_not_sentence', 'LalrpopModel.LR.no_extra_token', 'LalrpopModel.LR.consumed_is_prefix', 'LalrpopModel.LR.prefix_determinism']
MANIFEST = {
    "category": "proof",
    "technique": 'Lean 4 proof over the driver model (stream bookkeeping invariants) + certificates + correspondence',
    "text": 'For arbitrary tables: the reported token is the last item pulled (never reads beyond it), everything before it was shifted, UnrecognizedEof carries the end of the last token / start location and all tokens were pulled; ExtraToken requires a start reduce under a terminal lookahead, excluded by the validator. Rejection iff not a sentence from C01. Sentence-prefix characterisation: Props/LRPrefixThms: error_at_first_bad_token, first_bad_token_unique, eof_error, no_extra_token (under the extra executable checks V5 productive / V6 start-reduce-only-on-EOF, run per automaton as `validate2`). Both code generators compared on every rejected input with a counting token iterator.',
    "note": 'The sentence-prefix theorems need V5/V6 (validate2), checked per automaton for reduced grammars; unproductive grammars are outside the quantifier of the property.',
}


def run(ctx):
    lrfamily.obligations(ctx, MODULE, THEOREMS)
    lrfamily.driver_layer(ctx, "C04")
    lrfamily.compiled_layer(ctx, "C04")
    ctx.coverage.setdefault("trusted_base", []).extend(lrfamily.TRUST_LR)
    ctx.coverage["rule"] = ("grammars from LR-biased templates, mutations and random CFGs x {lane-table, canonical LR(1), LALR}; "
                            "inputs = sampled sentences, single-token mutations, random strings, injected errors, all short strings")
    ctx.coverage["evaluations"] = ctx.coverage.get("traces_validated_against_impl", 0)
    ctx.coverage["distinct_nontrivial"] = ctx.coverage.get("driver_layer", {}).get("distinct_tables", 0) + ctx.coverage.get("compiled_layer", {}).get("grammars", 0)
    ctx.assumptions += ["token kinds handed to the driver are terminal indices (< nTerm): what __token_to_integer answers"]
