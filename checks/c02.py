"""C02 — Parse results are the grammar's actions evaluated over the derivation."""
from checks import lrfamily

LEVEL = "proof"
MODULE = "LalrpopModel.Props.C02"
THEOREMS = ['LalrpopModel.LR.actions_postorder_once', 'LalrpopModel.LR.validated_unambiguous', 'LalrpopModel.LR.validated_unambiguous_shape', 'LalrpopModel.LR.accepted_value_is_derivation', 'LalrpopModel.LR.drive_complete']
MANIFEST = {
    "category": "proof",
    "technique": 'Lean 4 proof (post-order trace invariant over the driver model) + compiled-parser correspondence',
    "text": 'actions_postorder_once: on every sentence every run returns the tree shaped like the unique derivation tree and the action trace is exactly its post-order production list (each action once, post-order, children in rhs order by Forest.WF). Default actions/`<>`/bindings (lowering) are tied by compiled parsers whose actions render their children and log their execution order, compared with the model on both code generators.',
    "note": "User action code is not interpreted (values are free terms); the lowering pass is modelled (Model/Lower.lean; Props/C02Lower: default_action_spec, angle_subst_spec, patterns_spec, analyze_expr_spec) and tied by stage_dump(tyinfer) -> model -> stage_dump(lower) plus a compiled value leg.",
}


def run(ctx):
    lrfamily.obligations(ctx, MODULE, THEOREMS)
    from checks import lowerpart
    lowerpart.run_lower_part(ctx)
    lrfamily.driver_layer(ctx, "C02")
    lrfamily.compiled_layer(ctx, "C02")
    ctx.coverage.setdefault("trusted_base", []).extend(lrfamily.TRUST_LR)
    ctx.coverage["rule"] = ("grammars from LR-biased templates, mutations and random CFGs x {lane-table, canonical LR(1), LALR}; "
                            "inputs = sampled sentences, single-token mutations, random strings, injected errors, all short strings")
    ctx.coverage["evaluations"] = ctx.coverage.get("traces_validated_against_impl", 0)
    ctx.coverage["distinct_nontrivial"] = ctx.coverage.get("driver_layer", {}).get("distinct_tables", 0) + ctx.coverage.get("compiled_layer", {}).get("grammars", 0)
    ctx.assumptions += ["token kinds handed to the driver are terminal indices (< nTerm): what __token_to_integer answers"]
