"""C05 — Expected-token lists name only tokens that could actually continue the input."""
from checks import lrfamily

LEVEL = "proof"
MODULE = "LalrpopModel.Props.C05"
THEOREMS = ['LalrpopModel.LR.GenericThms.expected_nodup_sorted', 'LalrpopModel.LR.GenericThms.expected_mem_iff', 'LalrpopModel.LR.GenericThms.accepts_fuel_mono', 'LalrpopModel.LR.expected_sound', 'LalrpopModel.LR.expected_sound_token', 'LalrpopModel.LR.expected_sound_eof', 'LalrpopModel.LR.expected_nodup', 'LalrpopModel.LR.expected_excludes_error', 'LalrpopModel.LR.expected_mem_iff_accepts', 'LalrpopModel.LR.expected_complete_if_stack_unchanged', 'LalrpopModel.LR.expected_complete_no_reduction']
MANIFEST = {
    "category": "proof",
    "technique": 'Lean 4 proof over the driver model + certificates + correspondence (incl. a model of the ascent list)',
    "text": 'expected_nodup_sorted: every expected list is strictly increasing, duplicate-free and excludes the error terminal; expected_mem_iff: membership is exactly the outcome of the accepts simulation over the whole stack. Lists are compared as sequences between the real driver, compiled parsers and the model; the recursive-ascent list is modelled separately (action row of the error state) and compared exactly; its over-breadth w.r.t. the proven-sound table-driven list is the known finding `ascent-expected-is-state-action-row`.',
    "note": 'expected_sound proved (Props/LRPrefixThms, needs V5/V6); completeness proved when no reduction happened under the offending lookahead (expected_complete_no_reduction); the link canonical LR(1) => that hypothesis is not proved (expected_complete_canonical kept as a comment).',
}


def run(ctx):
    lrfamily.obligations(ctx, MODULE, THEOREMS)
    lrfamily.driver_layer(ctx, "C05")
    lrfamily.compiled_layer(ctx, "C05")
    ctx.coverage.setdefault("trusted_base", []).extend(lrfamily.TRUST_LR)
    ctx.coverage["rule"] = ("grammars from LR-biased templates, mutations and random CFGs x {lane-table, canonical LR(1), LALR}; "
                            "inputs = sampled sentences, single-token mutations, random strings, injected errors, all short strings")
    ctx.coverage["evaluations"] = ctx.coverage.get("traces_validated_against_impl", 0)
    ctx.coverage["distinct_nontrivial"] = ctx.coverage.get("driver_layer", {}).get("distinct_tables", 0) + ctx.coverage.get("compiled_layer", {}).get("grammars", 0)
    ctx.assumptions += ["token kinds handed to the driver are terminal indices (< nTerm): what __token_to_integer answers"]
