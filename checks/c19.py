"""C19 — accepted grammars compile: inferred types agree with the generated code."""
import json
import os
import re

from . import common

LEVEL = "proof"
MANIFEST = {
    "category": "proof",
    "technique": "Lean 4 theorems over models of tyinfer::nonterminal_type and of the __Symbol variant assignment + differential "
                 "correspondence of the inferred types (stage dumps) + rustc on every generated module of a typed-grammar generator",
    "text": "variant_per_type_injective / pop_matches_push: the __Symbol enum has one variant per distinct symbol type, a symbol's "
            "variant carries exactly its type, and __pop_VariantN succeeds on what was pushed iff the types agree. "
            "inferred_type_consistent_partial: if type inference (model of nonterminal_type: memo table, cycle stack, swallowed "
            "alternative errors, default-action rules unit/single/tuple, Vec/Option through macro byproduct annotations) succeeds and "
            "no error of an action-less alternative was swallowed, every default action's type equals its nonterminal's type; "
            "witness_accepts_ill_typed shows the hypothesis is needed (`pub A = { \"a\" A, \"x\" };`, reproduced on lalrpop + rustc: "
            "E0308); inferred_type_consistent_with_recheck: with the candidate fix (final re-check) the statement holds without that "
            "hypothesis. Tie: the model's types are compared with the types lalrpop inferred (token_check dump -> model vs lower dump) "
            "for every generated grammar, and every grammar lalrpop accepts is compiled with both code generators.",
    "note": "Residue: Rust's type system is not modelled (rustc is the judge, on the generator's grammars only); types are compared as "
            "printed TypeReprs; terminal types (make_types) are supplied by the harness for the conversion forms it generates; the "
            "generator never uses the identifier `Token` (C25 known finding unprefixed-name:Token).",
}
MODULE = "LalrpopModel.Props.C19"
THEOREMS = [
    "LalrpopModel.SymVariant.variant_per_type_injective", "LalrpopModel.SymVariant.pop_matches_push",
    "LalrpopModel.TyInfer.inferred_type_consistent_partial", "LalrpopModel.TyInfer.inferred_type_consistent_with_recheck",
    "LalrpopModel.TyInfer.witness_accepts_ill_typed", "LalrpopModel.TyInfer.witness_rejected_with_recheck",
    "LalrpopModel.TyInfer.ntType_recOK", "LalrpopModel.TyInfer.recheckLoop_spec",
]
FP_SUPPRESSED = "c19:suppressed-alternative-type"


def dec(line):
    return re.sub(r"\bx((?:[0-9a-f]{2})*)\b", lambda m: bytes.fromhex(m.group(1)).decode("utf-8", "replace"), line)


def source_has_recheck():
    src = open(os.path.join(common.REPO, "lalrpop/src/normalize/tyinfer/mod.rs")).read()
    return "was inferred as" in src


def run_batch(ctx, exe, seed, n, recheck, tag, replay=None):
    out = os.path.join(ctx.scratch, "typed-" + tag)
    args = ["--seed", seed, "--n", n, "--out", out, "recheck=%d" % (1 if recheck else 0)]
    if replay:
        args += ["--replay", replay]
    rc, so, se = ctx.run_harness(exe, args, timeout=3400)
    try:
        stats = json.loads(so.strip().splitlines()[-1])
    except (ValueError, IndexError):
        ctx.fatal("harness typed produced no stats: " + (so + se)[-800:])
    meta = {m["index"]: m for m in json.load(open(os.path.join(out, "typed.meta.json")))}
    rustc = open(os.path.join(out, "typed.rustc.txt")).read()
    # model
    req, imp, mod = (os.path.join(out, "typed." + x) for x in ("req", "impl", "model"))
    ctx.lpm("lpm_tyinfer", req, mod)
    imps = open(imp).read().split("\n")
    mods = open(mod).read().split("\n")
    reqs = open(req).read().split("\n")
    pairs = []      # per grammar with a token_check dump, in order: (impl, model for the source's mode, model for the other mode)
    for k in range(0, len(imps) - 1, 2):
        pairs.append((imps[k], mods[k] if k < len(mods) else "<missing>", mods[k + 1] if k + 1 < len(mods) else "<missing>", reqs[k]))
    order = [i for i in sorted(meta) if meta[i]["status"] != "rejected-before-tyinfer"]
    per = {}
    for idx, p in zip(order, pairs):
        per[idx] = p
    # rustc errors by module file
    errs = {}
    for block in re.split(r"\n(?=error)", rustc):
        m = re.search(r"--> src/(g(\d+)_(td|ra))\.rs:(\d+)", block)
        if m and block.startswith("error"):
            errs.setdefault(int(m.group(2)), []).append((m.group(1), block.strip()[:1200]))
    unattributed = [b[:400] for b in re.split(r"\n(?=error)", rustc)
                    if b.startswith("error") and not re.search(r"--> src/g\d+_(td|ra)\.rs", b) and "could not compile" not in b]
    return stats, meta, per, errs, unattributed, rustc


def run(ctx):
    recheck = source_has_recheck()
    ctx.lean_build([MODULE, "lpm_tyinfer"])
    ctx.lean_audit(MODULE, THEOREMS)
    if not ctx.quick():
        ctx.leanchecker(MODULE)
    (exe,) = ctx.build_harness(["typed"])
    batches = []
    replay = None
    if ctx.replay_in:
        try:
            rp = json.load(open(ctx.replay_in))
            if rp.get("grammar"):
                replay = os.path.join(ctx.scratch, "replay.lalrpop")
                open(replay, "w").write(rp["grammar"])
                open(replay + ".support", "w").write(rp.get("support", ""))
        except (OSError, ValueError):
            pass
    if replay:
        batches = [(ctx.seed, 1, "replay", replay)]
    elif ctx.quick():
        batches = [(ctx.seed, 12, "q", None)]
    else:
        batches = [(ctx.seed * 1000 + k, 40, "t%d" % k, None) for k in range(4)]

    tot = {"generated": 0, "accepted": 0, "modules": 0, "compile_s": 0.0}
    hist = {}
    texts = set()
    corr_cases = corr_bad = order_dependent = 0
    rustc_fail_grammars = 0
    samples = []
    findings = {}       # fingerprint -> (what, replay, count): one failing input per class, the smallest grammar
    for (seed, n, tag, rp) in batches:
        stats, meta, per, errs, unattributed, rustc = run_batch(ctx, exe, seed, n, recheck, tag, rp)
        for k in tot:
            tot[k] += stats[k]
        for k, v in stats["hist"].items():
            hist[k] = hist.get(k, 0) + v
        for i, m in meta.items():
            if m["status"] == "accepted":
                texts.add(m["grammar"])
        if not samples:
            samples = [{"grammar": m["grammar"][:1500], "status": m["status"], "lalrpop_types": dec(per[i][0])[:600] if i in per else None}
                       for i, m in list(meta.items())[3:5]]
        # ---- correspondence: types inferred by lalrpop vs by the Lean model on the same parse-tree dump
        dis = []
        for i, (imp, mod_same, mod_other, req) in per.items():
            if imp.startswith("skip"):
                continue
            corr_cases += 1
            alts = mod_same.split(" || ")
            if len(alts) > 1:
                order_dependent += 1
            if imp not in alts:
                corr_bad += 1
                dis.append({"grammar": meta[i]["grammar"], "lalrpop": dec(imp)[:1500], "model": dec(mod_same)[:1500]})
        ctx.oblige("correspondence tyinfer (%s): lalrpop's nonterminal types = model's on %d grammars" % (tag, len(per)),
                   not dis, json.dumps(dis[:2])[:3000])
        # ---- the property: accepted => compiles
        if unattributed:
            ctx.oblige("rustc diagnostics attributable to a generated module (%s)" % tag, False, json.dumps(unattributed[:2]))
        for gi, es in sorted(errs.items()):
            m = meta.get(gi)
            if m is None:
                continue
            rustc_fail_grammars += 1
            imp, mod_same, mod_other, _ = per.get(gi, ("", "", "", ""))
            ok0 = (mod_other if recheck else mod_same).startswith("ok")
            err1 = (mod_same if recheck else mod_other).startswith("error")
            code = re.search(r"error\[(E\d+)\]", es[0][1])
            if (m.get("planted") or "").startswith("c19:"):
                # fixed witness of a known class: the planted field is its fingerprint
                fp = m["planted"]
                what = ("lalrpop accepts a well-typed grammar whose `<>` stands for a tuple pattern and expands it to the "
                        "pattern text (`(mut a, b)` in expression position; `P {(a, b), c}` inside braces); rustc rejects "
                        "the generated action: " + re.sub(r"\s+", " ", es[0][1].splitlines()[0])[:80])
            elif ok0 and err1 and code and code.group(1) == "E0308":
                fp = FP_SUPPRESSED
                what = ("lalrpop accepts a grammar whose only ill-typed part is a default-action alternative on a cycle "
                        "(its inference error is swallowed in tyinfer::nonterminal_type and never re-checked); the generated "
                        "module is rejected by rustc (E0308 in the default action), e.g. `pub A = { \"a\" A, \"x\" };`")
            else:
                first = re.sub(r"\s+", " ", es[0][1].splitlines()[0])[:80]
                fp = "c19:rustc:%s:%s" % (code.group(1) if code else "?", re.sub(r"[0-9]+", "N", first))
                what = "lalrpop accepted a grammar with well-typed user code but rustc rejects the generated module: " + first
            rep = {
                "grammar": m["grammar"].replace("@ATTR@", ""), "support": m["support"], "modules": sorted({e[0] for e in es}),
                "rustc": es[0][1], "lalrpop_types": dec(imp)[:1500], "planted_ill_typed_default_alternative_in": m.get("planted", ""),
                "how": "write `grammar` to g.lalrpop, run lalrpop, compile g.rs (with `support` in the crate root) against lalrpop-util"}
            old = findings.get(fp)
            if old is None or len(rep["grammar"]) < len(old[1]["grammar"]):
                findings[fp] = (what, rep, (old[2] if old else 0) + 1)
            else:
                findings[fp] = (old[0], old[1], old[2] + 1)
        ok_modules = stats["modules"] - sum(len({e[0] for e in es}) for es in errs.values())
        ctx.oblige("every generated module of an accepted grammar compiles (%s: %d grammars, %d modules)" % (tag, stats["accepted"], stats["modules"]),
                   not errs and not unattributed, "; ".join("g%d: %s" % (gi, es[0][1].splitlines()[0]) for gi, es in sorted(errs.items()))[:1500])
    for fp, (what, rep, count) in sorted(findings.items()):
        rep["grammars_in_this_class_this_run"] = count
        ctx.failing_input(fp, what, rep)
    ctx.coverage.update({
        "evaluations": tot["generated"] + tot["modules"],
        "distinct_nontrivial": len(texts),
        "rule": "evaluation = one generated grammar through lalrpop's front end + one generated module through rustc; "
                "distinct_nontrivial = distinct grammar texts lalrpop accepted (each 2-5 nonterminals mixing inferred/annotated "
                "types, macros, bindings; both backends compiled); rejected ones and the 3 fixed witnesses are in generator_distribution",
        "programs": tot["modules"],
        "generator_distribution": hist,
        "grammars_generated": tot["generated"], "grammars_accepted": tot["accepted"], "compile_s": round(tot["compile_s"], 1),
        "correspondence_cases": corr_cases, "correspondence_disagreements": corr_bad,
        "iteration_order_dependent_results": order_dependent,
        "grammars_rejected_by_rustc": rustc_fail_grammars,
        "source_has_final_recheck": recheck,
    })
    ctx.coverage["traces_validated_against_impl"] = corr_cases
    ctx.coverage["samples"] += samples
    ctx.assumptions += [
        "rustc is the judge of well-typedness; Rust's type system is not modelled",
        "the generator's user code is well typed by construction (typed expression generator); a rustc error is attributed to lalrpop only "
        "after reading the diagnostic (fingerprints keep classes apart)",
        "terminal types are computed by the harness for the conversion forms it writes (`Tok::V(<T>, ..)`), not by the model",
        "HashMap iteration order of TypeInferencer::nonterminals is a parameter of the model; the driver tries grammar order and its reverse",
    ]
