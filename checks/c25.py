"""C25 — generated code is hygienic: renaming user identifiers changes nothing."""
import glob
import json
import os
import re

from checks import common
from checks.c24 import mask, lean_chars, lean_str

LEVEL = "proof"
MANIFEST = {
    "category": "proof",
    "technique": "Lean 4 theorems over a model of the prefix search / fresh names / precedence tier names + source-fact "
                 "translation of the names the generated module binds + renamed grammar pairs through the real "
                 "Configuration, rustc and inputs",
    "text": "Model/Hyg.lean mirrors parse_grammar's prefix loop, LowerState::fresh_name and the tier names of "
            "expand_nonterm. Theorems: the chosen prefix is not a substring of the grammar text (prefix_fresh), so no "
            "identifier of the text equals any `{prefix}…` name (prefixed_names_disjoint), distinct abstract names stay "
            "distinct identifiers and an injective renaming of the user's identifiers commutes with name generation even "
            "when the two grammars get different prefixes (rename_commutes_prefixed). The names built without the "
            "prefix are exactly those listed from the source (unprefixed_bound_names) plus the precedence tiers "
            "`{N}{level}` (level_name_collision: witness E/E1). The model is tied to the code by comparing the prefix and "
            "the post-precedence rule names with stage dumps; the property is evaluated on template grammars renamed "
            "injectively into adversarial identifiers (`__0`, `__action1`, `__Symbol`, `Variant0`, `Token`, …): "
            "accept/reject through the real Configuration, and for a sample compilation with rustc and parse results on inputs.",
    "note": "Trusted: Lean kernel, the stage-dump hook, rustc. Renamings never use `input`/`'input`, Rust keywords or "
            "prelude names. The equality of generated parsers up to renaming is only sampled through behaviour (item "
            "order in the output follows name order).",
}
MODULE = "LalrpopModel.Props.C25"
T = "LalrpopModel.Hyg."
THEOREMS = [T + n for n in [
    "prefix_fresh", "prefix_not_in_user_ident", "prefixed_names_disjoint", "realize_injective",
    "rename_commutes_prefixed", "fresh_name_prefixed", "tier_name_unprefixed", "level_name_collision",
    "unprefixed_bound_names", "source_name_schemes",
]]
SRC = os.path.join(common.REPO, "lalrpop/src")
GEN = os.path.join(common.LEAN, "LalrpopModel/Gen/HygFacts.lean")


def translate(ctx):
    """names the generated module binds through `use` / `extern crate` emissions, and the three name schemes"""
    problems, bound = [], []
    files = sorted(glob.glob(os.path.join(SRC, "lr1/codegen/*.rs"))) + [os.path.join(SRC, "build/mod.rs"), os.path.join(SRC, "rust/mod.rs")]
    for f in files:
        rel = os.path.relpath(f, SRC)
        if rel.endswith("test_all.rs"):
            continue
        src = open(f).read()
        m, sp = mask(src)
        for a, b, k in sp:
            if k != "s" or src[a] != '"':
                continue
            lit = src[a + 1:b - 1]
            mm = re.match(r"^(?:\{\}|pub\(crate\) )?(use|extern crate) (.*);$", lit)
            if not mm:
                continue
            path = mm.group(2)
            name = path.split(" as ")[-1].split("::")[-1].strip()
            line = src.count("\n", 0, a) + 1
            if name in ("{}{}", "{}"):
                kind = "user-use-item"                      # rust/mod.rs write_uses: the user's own `use`
            elif name == "{}Parser":
                kind = "user-derived"                       # `{Name}Parser`, the documented public name
            elif re.match(r"^\{[a-z]?\}", name):
                kind = "prefixed"
            else:
                kind = "unprefixed"
            bound.append((rel, line, lit, name, kind))
    schemes = {}
    s = open(os.path.join(SRC, "parser/mod.rs")).read()
    schemes["prefix_loop"] = bool(re.search(r"while input\.contains\(&grammar\.prefix\) \{\s*grammar\.prefix\.push\('_'\);\s*\}", s))
    s = open(os.path.join(SRC, "parser/lrgrammar.lalrpop")).read()
    mm = re.search(r'prefix: format!\("([^"]*)"\)', s)
    schemes["initial_prefix"] = mm.group(1) if mm else None
    s = open(os.path.join(SRC, "normalize/lower/mod.rs")).read()
    mm = re.search(r"fn fresh_name\(&self, i: usize\) -> Atom \{\s*Atom::from\(format!\(\"([^\"]*)\", self\.prefix, i\)\)", s)
    schemes["fresh_name_fmt"] = mm.group(1) if mm else None
    s = open(os.path.join(SRC, "normalize/precedence/mod.rs")).read()
    mm = re.search(r"if \*lvl == lvl_max \{\s*format!\(\"([^\"]*)\", nonterm\.name\)\s*\} else \{\s*format!\(\"([^\"]*)\", nonterm\.name, lvl\)", s)
    schemes["tier_top_fmt"], schemes["tier_fmt"] = (mm.group(1), mm.group(2)) if mm else (None, None)
    ok = all(v not in (None, False) for v in schemes.values()) and bound
    ctx.oblige("translation of name-binding emissions and name schemes into Gen/HygFacts.lean", bool(ok),
               json.dumps(schemes) + "; ".join(problems))
    body = ["/-! GENERATED by checks/c25.py from /repo/lalrpop/src on every run — do not edit. -/",
            "namespace LalrpopModel.Hyg.Gen", "",
            "structure Bound where", "  file : String", "  line : Nat", "  fmt : String", "  name : List Char", "  kind : String", "",
            "/-- every `use` / `extern crate` the code generators write, with the name it binds -/",
            "def boundNames : List Bound := [",
            ",\n".join(f"  ⟨{lean_str(r)}, {l}, {lean_str(fmt)}, {lean_chars(n)}, {lean_str(k)}⟩" for r, l, fmt, n, k in bound) + "]", "",
            f"def prefixLoopFound : Bool := {str(bool(schemes['prefix_loop'])).lower()}",
            f"def initialPrefix : List Char := {lean_chars(schemes['initial_prefix'] or '')}",
            f"def freshNameFmt : List Char := {lean_chars(schemes['fresh_name_fmt'] or '')}",
            f"def tierTopFmt : List Char := {lean_chars(schemes['tier_top_fmt'] or '')}",
            f"def tierFmt : List Char := {lean_chars(schemes['tier_fmt'] or '')}",
            "", "end LalrpopModel.Hyg.Gen", ""]
    text = "\n".join(body)
    if not os.path.exists(GEN) or open(GEN).read() != text:
        open(GEN, "w").write(text)
    return {"bound_names": [f"{r}:{l} {n} ({k})" for r, l, _, n, k in bound], "schemes": schemes}


def run(ctx):
    tr = translate(ctx)
    ctx.lean_build([MODULE, "lpm_hyg"])
    ctx.lean_audit(MODULE, THEOREMS)
    if not ctx.quick():
        ctx.leanchecker(MODULE)
    ctx.coverage["source_translation"] = tr
    (exe,) = ctx.build_harness(["hygiene"])
    rc, out, err = ctx.run_harness(exe, ["--seed", ctx.seed, "--n", ctx.vol(600, 8000), "--rustc", ctx.vol(6, 60), "--out", ctx.scratch])
    if rc != 0:
        ctx.fatal("harness hygiene failed: " + err[-800:])
    stats = json.loads(out.strip().split("\n")[-1])
    ctx.correspond("prefix search and precedence tier names vs Model.Hyg (stage dumps)", "lpm_hyg", "hyg")
    seen = set()
    for line in open(os.path.join(ctx.scratch, "violations.jsonl"), encoding="utf-8").read().split("\n"):
        if not line.strip():
            continue
        v = json.loads(line)
        fp = v.pop("fingerprint")
        what = v.pop("what")
        if fp.startswith("unprefixed-name:Token:"):
            v["role"] = fp.split(":")[-1]
            fp = "unprefixed-name:Token"
            what = ("the generated module imports lalrpop_util::lexer::Token without the prefix: a user binding, grammar "
                    "parameter or type parameter called `Token` is accepted by lalrpop but the output does not compile")
        if fp in seen:
            continue
        seen.add(fp)
        ctx.failing_input(fp, what, v)
    ctx.coverage.update({
        "evaluations": stats["pairs"] + stats["correspondence_cases"],
        "distinct_nontrivial": stats["distinct_renamed_grammars"],
        "rule": "a case is a template grammar and its injectively renamed version (9 identifiers: nonterminals, bindings, "
                "grammar parameter, type/macro parameter) through the real Configuration; distinct = distinct renamed texts; "
                "prefix/tier-name correspondence cases come on top",
        "renamed_pairs": stats["pairs"],
        "pairs_compiled_and_run": stats["compiled_pairs"],
        "parse_results_compared": stats["outputs_compared"],
        "prefix_lengths_seen": stats["prefix_lengths"],
        "generator_distribution": stats["hist"],
    })
    ctx.coverage["samples"].append({"renamed_grammar": stats["sample_grammar"]})
    ctx.assumptions += [
        "renamings avoid `input`, `'input`, Rust keywords and prelude names",
        "every name LALRPOP derives is `{prefix}…`, a tier name, `{Name}Parser`, or one of the listed unprefixed imports (checked against the source by the translator for `use`/`extern crate`; other item names are exercised by the runs)",
    ]
