"""C11 — lexer ambiguity is reported exactly when two equal-precedence terminals overlap."""
import json
import os

LEVEL = "proof"
MANIFEST = {
    "category": "proof",
    "technique": "Lean 4 theorems over models of Nfa::from_re, remove_overlap/add_range and DfaBuilder::build + differential "
                 "correspondence (NFA dumps, DFA dumps/verdicts, remove_overlap outputs) + end-to-end verdict search",
    "text": "nfa_correct (the build-time NFA accepts exactly the HIR's language, structural induction incl. bounded repetition), "
            "unsupported_iff, remove_overlap_partition, dfa_state_is_reachset and ambiguity_iff (build = Ambiguity iff some word has "
            ">= 2 maximal-precedence accepting patterns) are Lean theorems for all HIRs / range sets / NFA lists. The models mirror "
            "nfa/mod.rs, dfa/overlap.rs, dfa/mod.rs and are compared with the real code on generated regex sets every run; the "
            "token_check verdict on generated match blocks is compared with a bounded-exhaustive search for a common string under "
            "the runtime regex semantics. Two defects of the pinned tree are documented as theorems about the old models "
            "(literal_bytes_counterexample, remove_overlap_orig_not_partition) and re-detected if a fix is reverted.",
    "note": "Trusted: Lean kernel; regex-syntax's parser (HIRs are taken as given, repetition bounds min<=max); the fuel bound of the "
            "model's worklists (explicit `fuel` verdict, never hit in the runs); the `regex` crate as the runtime semantics in the "
            "end-to-end search (bounded: strings of length <= 3 over one representative per class boundary block).",
}
MODULE = "LalrpopModel.Props.C11"
NS = "LalrpopModel.Dfa."
THEOREMS = [NS + t for t in [
    "nfa_correct", "nfa_correct_orig", "unsupported_iff", "denote_bytes_eq_chars", "literal_bytes_counterexample",
    "remove_overlap_partition", "remove_overlap_orig_not_partition", "dfa_state_is_reachset",
    "ambiguity_sound", "ambiguity_complete", "ambiguity_iff", "ambiguity_iff_hir",
]]


def run(ctx):
    ctx.lean_build([MODULE, "lpm_redfa"])
    ctx.lean_audit(MODULE, THEOREMS)
    if not ctx.quick():
        ctx.leanchecker(MODULE)
    (exe,) = ctx.build_harness(["redfa"])
    n = ctx.vol(15000, 100000)
    n_e2e = ctx.vol(1500, 10000)
    out = os.path.join(ctx.scratch, "redfa")
    rc, so, se = ctx.run_harness(exe, ["--seed", ctx.seed, "--n", n, "--out", out, "--e2e", n_e2e], timeout=3000)
    if rc != 0:
        ctx.fatal("harness redfa failed: " + se[-800:])
    stats = json.loads(so.strip().splitlines()[-1])
    dis_nfa = ctx.correspond("Nfa::from_re vs Nfa.fromRe", "lpm_redfa", "nfa", outdir=out)
    dis_dfa = ctx.correspond("build_dfa vs Dfa.buildDfa", "lpm_redfa", "dfa", outdir=out)
    dis_ov = ctx.correspond("remove_overlap vs Dfa.removeOverlap", "lpm_redfa", "overlap", outdir=out)

    # ---- property-level search: the token_check verdict against the runtime regex semantics
    cases = [json.loads(l) for l in open(os.path.join(out, "e2e.jsonl"), encoding="utf-8") if l.strip()]
    by_id = {c["id"]: c for c in cases}
    missed = [c for c in cases if c["status"] == "MISSED"]
    for c in missed[:10]:
        non_ascii = any(ord(ch) > 127 for t in c["terminals"] for ch in t)
        fp = "missed-ambiguity-non-ascii" if non_ascii else "missed-ambiguity"
        ctx.failing_input(fp, "grammar accepted although two equal-precedence terminals both match "
                          f"{c['witness']!r} (terminals #{c['witness_patterns'][0]} and #{c['witness_patterns'][1]})",
                          {"grammar": c["grammar"], "terminals": c["terminals"], "precedences": c["precedences"],
                           "runtime_patterns": c["runtime_patterns"], "common_string": c["witness"],
                           "lalrpop_verdict": c["lalrpop_verdict"],
                           "reproduce": "write `grammar` to x.lalrpop and run `lalrpop x.lalrpop`: no ambiguity error"})
    # ambiguity reported but no witness among the enumerated strings: ask the (proved) model for the word
    # behind its own verdict and test that word with the runtime semantics
    wit_req = os.path.join(out, "wit.req")
    spurious = 0
    confirmed_by_model = 0
    if os.path.getsize(wit_req) > 0:
        ctx.lpm("lpm_redfa", wit_req, os.path.join(out, "wit.model"))
        ids = [int(x) for x in open(os.path.join(out, "wit.impl")).read().split()]
        wits = open(os.path.join(out, "wit.model")).read().split("\n")
        lines, keep = [], []
        for cid, wline in zip(ids, wits):
            c = by_id.get(cid)
            if c is None or not wline.startswith("witness "):
                continue
            enc = lambda s: "x" + s.encode("utf-8").hex()
            lines.append(" ".join([wline.split(" ")[1], ",".join(str(p) for p in c["precedences"])] +
                                  [enc(p) for p in c["runtime_patterns"]]))
            keep.append((c, wline.split(" ")[1]))
        if lines:
            cf = os.path.join(out, "confirm.req")
            open(cf, "w").write("\n".join(lines) + "\n")
            rc2, so2, _ = ctx.run_harness(exe, ["--confirm", cf])
            for (c, w), verdict in zip(keep, so2.strip().split("\n")):
                if verdict.startswith("ambiguous"):
                    confirmed_by_model += 1
                else:
                    spurious += 1
                    word = bytes.fromhex(w[1:]).decode("utf-8", "replace")
                    ctx.failing_input("spurious-ambiguity", "grammar rejected as ambiguous although the string behind the "
                                      f"verdict ({word!r}) is not matched by two equal-precedence terminals at run time",
                                      {"grammar": c["grammar"], "terminals": c["terminals"], "precedences": c["precedences"],
                                       "runtime_patterns": c["runtime_patterns"], "claimed_common_string": word})
    # a model/implementation disagreement is a broken correspondence; it becomes a failing input only through the
    # searches above (the model is the fixed code; on a reverted fix the e2e search supplies the concrete grammar)
    ctx.coverage.update({
        "evaluations": stats["nfa_cases"] + stats["dfa_cases"] + stats["overlap_cases"] + stats["e2e_cases"],
        "distinct_nontrivial": stats["nfa_nontrivial"] + stats["dfa_nontrivial"] + stats["overlap_nontrivial"] + stats["e2e_nontrivial"],
        "rule": "distinct HIRs whose NFA has >= 6 states; distinct terminal sets with >= 2 terminals whose DFA has >= 5 states or whose "
                "verdict is Ambiguity; distinct range sets with two different overlapping ranges; distinct end-to-end grammars with >= 2 terminals",
        "by_stream": {k: stats[k] for k in stats if k != "hist"},
        "generator_distribution": stats["hist"],
        "e2e": {"cases": stats["e2e_cases"], "ambiguity": stats["e2e_ambiguity"], "accepted": stats["e2e_accepted"],
                "missed": stats["e2e_missed"], "confirmed_by_enumeration": stats["e2e_confirmed"],
                "confirmed_by_model_witness": confirmed_by_model, "spurious": spurious,
                "search": "all strings of length 1 over one representative per block of the partition induced by every class/literal "
                          "boundary, plus all strings of length <= 3 over <= 16 of them"},
        "literal_reading_deviations": "overlaps of equal-precedence terminals that occur only on strings also matched by a strictly "
                                      "higher-precedence terminal are (by design, see ambiguity_iff) not counted as ambiguities",
    })
    ctx.assumptions += [
        "HIRs come from regex-syntax (Hir.WF: repetition min <= max; `x{0}` is folded to the empty HIR by regex-syntax)",
        "worklist fuel (100000) is not exhausted: a `fuel` verdict of the model would show as a correspondence disagreement",
        "Test ranges stay below u32::MAX (mid_max + 1 does not overflow); true of Unicode scalar values",
        "the runtime semantics of a terminal is what the `regex` crate says about format!(\"{hir}\") (tied to the runtime MatcherBuilder by C10/C09)",
    ]
