"""C13 — macros, repetitions and conditional alternatives expand by substitution."""
import json
import os

LEVEL = "proof"
MANIFEST = {
    "category": "proof",
    "technique": "Lean 4 theorems over a model of MacroExpander (worklist, expansion cache keyed by the printed form, "
                 "substitution, conditions, X*/X+/X?/groups) and of the Display impls behind canonical_form(); model tied to "
                 "lalrpop by differential runs of the real pass on random macro-using grammars (stage dumps), key "
                 "collisions searched with an injective key and confirmed on compiled parsers",
    "text": "The cached worklist expander equals expansion by substitution whenever the key is injective on the symbols "
            "met (cached_expand_eq_subst); the printed form is injective on parser-shaped symbols whose identifiers are "
            "classified consistently and are not `error` (canonical_form_injective); X+/X*/X? productions produce the "
            "list of item values in input order / Some/None; a conditional alternative is kept exactly when its condition "
            "holds. Where the hypothesis fails the property fails: proved collision witnesses (`M<error>` vs `M<!>`, "
            "backtick-escaped names), reproduced on real lalrpop.",
    "note": "Trusted: Lean kernel (axioms propext/Classical.choice/Quot.sound only); model fidelity as exercised by the "
            "stage-dump correspondence; token-level printer (the spelling of distinct token lists is assumed distinct for "
            "identifier-like names); the regex crate (oracle parameter); meaning of the five built-in action snippets.",
}
MODULE = "LalrpopModel.Props.C13"
THEOREMS = [
    "LalrpopModel.Macro.cond_eval_spec",
    "LalrpopModel.Macro.expand_alts_spec",
    "LalrpopModel.Macro.repeat_plus_values",
    "LalrpopModel.Macro.repeat_star_values",
    "LalrpopModel.Macro.option_values",
    "LalrpopModel.Macro.cached_expand_eq_subst",
    "LalrpopModel.Macro.instances_independent",
    "LalrpopModel.Macro.canonical_form_injective",
    "LalrpopModel.Macro.canonical_form_collision_error",
    "LalrpopModel.Macro.canonical_form_collision_escaped_name",
]

FP = {"error-symbol": "canonical-form-collision:error-symbol",
      "escaped-name": "canonical-form-collision:escaped-name"}


def dec(h):
    return bytes.fromhex(h[1:]).decode("utf-8", "replace")


def classify(sym1, sym2):
    """which known class a collision of two structurally annotated keys belongs to"""
    # keys look like  <printed>\x01<skeleton>\x02 ; `!` in a skeleton = SymbolKind::Error
    sk = lambda k: "".join(part.split("\x02")[0] for part in k.split("\x01")[1:])
    a, b = sk(sym1), sk(sym2)
    if ("!" in a) != ("!" in b):
        return "error-symbol"
    return "escaped-name"


def run(ctx):
    ctx.lean_build([MODULE, "lpm_macro"])
    ctx.lean_audit(MODULE, THEOREMS)
    if not ctx.quick():
        ctx.leanchecker(MODULE)
    (exe,) = ctx.build_harness(["macroexp"])
    n = ctx.vol(4000, 60000)
    seed = ctx.seed
    if ctx.replay_in:
        try:
            seed = json.load(open(ctx.replay_in)).get("seed", ctx.seed)
        except Exception:
            pass
    rc, out, err = ctx.run_harness(exe, ["--seed", seed, "--n", n, "--out", ctx.scratch, "--compiled"])
    if rc != 0:
        ctx.fatal("harness macroexp failed: " + err[-800:])
    stats = json.loads(out.strip().splitlines()[-1])
    # the pass is internal: disagreement = broken correspondence (see AGENT_GUIDE), the property-level
    # search is the collision probe + compiled witnesses below
    ctx.correspond("macro expansion pass (stage_dump precedence -> macro_expand) vs Model.Macro", "lpm_macro", "macro")

    # collision probe: run the model with an injective key; a collision = two different symbols that
    # lalrpop expands once.  The correspondence above shows lalrpop shares the expansion exactly as
    # the model with the printed key does.
    req = os.path.join(ctx.scratch, "macrocol.req")
    mod = os.path.join(ctx.scratch, "macrocol.model")
    ctx.lpm("lpm_macro", req, mod)
    answers = open(mod, encoding="utf-8", errors="replace").read().split("\n")
    texts = open(os.path.join(ctx.scratch, "macro.texts")).read().split("\n")
    collisions = []
    panics = 0
    for k, a in enumerate(answers):
        if a.startswith("collision "):
            f = a.split(" ")
            collisions.append((k, dec(f[1]), dec(f[2]), dec(f[3])))
        elif a.startswith("panic") or a == "bad-op":
            panics += 1
    ctx.oblige("collision probe ran on every grammar", panics == 0, f"{panics} panics/bad-ops")
    compiled = stats.get("compiled_witness_mismatches", [])
    by_class = {}
    for w in compiled:
        by_class.setdefault(w.get("class"), []).append(w)
    ctx.coverage.update({
        "evaluations": stats["cases"] * 2,
        "distinct_nontrivial": stats["distinct_nontrivial"],
        "rule": "distinct grammars (after precedence expansion) containing a macro use, a repetition or a group, "
                "measured by the harness; each is expanded by the real pass and by the model (printed key), and by the "
                "model with an injective key (collision probe)",
        "generator_distribution": stats["hist"],
        "key_collisions_found": len(collisions),
        "compiled_witness_mismatches": len(compiled),
    })
    if texts and texts[0]:
        ctx.coverage["samples"].append({"grammar": dec(texts[min(12, len(texts) - 2)])})
    seen = set()
    for (k, key, s1, s2) in collisions:
        cls = classify(s1, s2)
        if cls in seen:
            continue
        seen.add(cls)
        ws = by_class.get(cls, [])
        replay = {"grammar": dec(texts[k]) if k < len(texts) and texts[k] else None,
                  "shared_key": key, "symbol_1": s1, "symbol_2": s2,
                  "how": "lalrpop::verif_hooks::stage_dump(grammar, None, \"macro_expand\") defines the key once; "
                         "keys are shown as <printed form>\\x01<constructor skeleton>\\x02",
                  "compiled_confirmation": ws[:4]}
        what = {
            "error-symbol": "SymbolKind::Error (`!`) and a nonterminal named `error` print alike: `M<error>` and `M<!>` "
                            "share one expansion (Lean: canonical_form_collision_error)",
            "escaped-name": "a backtick-escaped nonterminal name that spells a symbol (`A+`, `W<A>`, `\"a\"`) shares the "
                            "expansion / definition of that symbol (Lean: canonical_form_collision_escaped_name)",
        }[cls]
        ctx.failing_input(FP[cls], what, replay)
    # resolve's scoping rule (a macro parameter shadows a global name): renaming the parameters of a
    # macro must not change the expansion
    ctx.coverage["parameter_shadowing_cases"] = stats.get("shadow_cases", 0)
    for m in stats.get("shadow_mismatches", [])[:1]:
        ctx.failing_input("macro-parameter-shadowing",
                          "a macro parameter whose name is also a global name (bare terminal of the extern enum / "
                          "nonterminal) is not treated as the parameter: the expansion differs from the expansion of the "
                          "same grammar with the parameters renamed", m)
    ctx.coverage["compiled_value_cases"] = stats.get("value_cases", 0)
    for w in compiled:
        if w.get("class") == "witness-build-failed":
            ctx.oblige("compiled collision witnesses build", False, w.get("stderr", "")[:1500])
        elif w.get("class") == "values":
            # X*/X+ Vec in input order, X? Option, group tuple, condition keeps the alternative: on the compiled parser
            ctx.failing_input(f"expansion-value:{w.get('input')}",
                              "value of an expanded repetition/option/group/conditional macro alternative differs from the "
                              "documented one on a compiled parser",
                              {k: w.get(k) for k in ("input", "lalrpop_expansion", "expected", "grammar")})
    ctx.assumptions += [
        "type declarations of the expansions (macro_expand_type_ref) are not modelled; they are stripped from both dumps",
        "regex conditions: the model's own small matcher is the oracle for the generated patterns; invalid patterns are "
        "compared up to the regex crate's message text",
        "string literals in generated grammars are ASCII plus printable non-ASCII (escape_debug model)",
    ]
