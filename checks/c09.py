"""C09 — the built-in lexer tokenizes by longest match with documented precedence."""
from checks import lexpart

LEVEL = "proof"
MANIFEST = {
    "category": "proof",
    "technique": "Lean 4 theorems over a model of Matcher::next (oracle-abstracted lazy DFA) and of token_check's "
                 "precedence assignment + differential correspondence with lalrpop-util / lalrpop",
    "text": "longest_then_highest, skip_yields_nothing, invalid_at_first_dead, spans_are_offsets and stream_spec (the model's "
            "token stream is the unique stream meeting the declarative longest-match specification) are Lean theorems for all "
            "pattern sets (oracles), skip vectors and inputs; precedence_order_spec covers MatchBlock::new/add_match_entry/"
            "add_literal_from_grammar/sort and the implicit whitespace skip. The models are tied to the source every run: real "
            "MatcherBuilder/Matcher vs lpm_lex over match tables from an independent engine, stage_dump(token_check) vs lpm_tokcheck.",
    "note": "Trusted: Lean kernel; regex-automata's MatchKind::All semantics enters as the oracle and is cross-checked against "
            "the `regex` crate per case; string_cache Atom ordering = byte-wise string ordering.",
}
MODULE = "LalrpopModel.Props.C09"
MODULE_PREC = "LalrpopModel.Props.C09Prec"
THEOREMS_PREC = ["LalrpopModel.TokCheck." + t for t in [
    "addRungs_spec", "visitTerminals_spec", "precedence_order_spec", "rung_precedence_order", "literal_over_regex",
    "no_match_block", "patterns_spec"]]
THEOREMS = [
    "LalrpopModel.Lex.scan_dead_irrelevant", "LalrpopModel.Lex.longest_then_highest",
    "LalrpopModel.Lex.skip_yields_nothing", "LalrpopModel.Lex.invalid_when_nothing_matches",
    "LalrpopModel.Lex.invalid_at_first_dead", "LalrpopModel.Lex.stream_spec",
    "LalrpopModel.Lex.stream_spec_unique", "LalrpopModel.Lex.spans_are_offsets",
]


def run(ctx):
    ctx.lean_build([MODULE, MODULE_PREC, "lpm_lex", "lpm_tokcheck"])
    ctx.lean_audit(MODULE, THEOREMS)
    ctx.lean_audit(MODULE_PREC, THEOREMS_PREC)
    if not ctx.quick():
        ctx.leanchecker(MODULE)
        ctx.leanchecker(MODULE_PREC)
    stats, dis = lexpart.run_lexer(ctx, "-c09", canonicalise_zero_length=True)
    # precedence part: token_check's match entries and the generated pattern list vs M-TOKCHECK
    import os
    out = os.path.join(ctx.scratch, "lex-c09")
    ctx.correspond("token_check match_entries vs TokCheck.matchEntries", "lpm_tokcheck", "tokc", outdir=out)
    ctx.correspond("generated __intern_token pattern list vs TokCheck.patterns", "lpm_tokcheck", "pats", outdir=out)
    tk = stats["tokcheck"]
    for f in tk.get("precedence_findings", [])[:5]:
        ctx.failing_input("precedence-rule", "token_check gives a terminal a precedence other than the documented one "
                          "(2*(rungs - rung index) + 1 for quoted / + 0 for regex; rung of `_` for terminals picked up by `_`; 0 without "
                          "a match block), or does not sort by it", f)
    ctx.coverage.update({
        "evaluations": stats["cases"] + tk["cases"] + tk["pattern_list_cases"],
        "distinct_nontrivial": stats["distinct_nontrivial"] + tk["distinct_nontrivial"],
        "precedence_part": {k: tk[k] for k in tk if k not in ("hist", "precedence_findings")},
        "precedence_generator_distribution": tk["hist"],
        "rule": "precedence part: non-trivial = match block with >= 2 rungs, or an error verdict; distinct grammars. "
                "runtime part: non-trivial = (two patterns match the same prefix, or a shorter and a longer match exist at one "
                "offset, or the stream ends in InvalidToken) with a skip pattern present, or both of the first two; distinct request lines",
        "generator_distribution": stats["hist"],
        "tokens_seen": stats["tokens"],
    })
    # the model is proved equal to the documented stream (stream_spec + stream_spec_unique): impl != model => impl != spec
    for d in dis[:20]:
        ctx.failing_input("lex:" + d["req"], "Matcher token stream deviates from the longest-match specification",
                          {"request": lexpart.decode_req(d["req"]), "implementation": d["impl"], "expected_by_model": d["model"]})
    ctx.assumptions += lexpart.ASSUMPTIONS + [
        "string_cache::Atom orders like its text (byte-wise); derive(Ord) of MatchEntry/TerminalLiteral/MatchMapping as modelled (tied by the tokc stream)",
        "the compiled-parser leg (actions recording the tokens seen) is not run by this check: the pattern list is read off the generated source instead"]
