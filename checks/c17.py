"""C17 — Action and lexer errors are returned verbatim and stop the parse."""
from checks import lrfamily

LEVEL = "proof"
MODULE = "LalrpopModel.Props.C17"
THEOREMS = ['LalrpopModel.LR.GenericThms.stream_error_stops', 'LalrpopModel.LR.GenericThms.stream_error_verbatim', 'LalrpopModel.LR.GenericThms.action_error_verbatim', 'LalrpopModel.LR.GenericThms.nothing_after_done']
MANIFEST = {
    "category": "proof",
    "technique": 'Lean 4 proof over the driver model + correspondence with injected errors',
    "text": "For arbitrary tables: an Err item of the stream becomes User{e} verbatim, nothing is pulled after it, recovery does not intercept it; a failing fallible action's error is the result, no further action runs and no further token is read. Real driver with injected stream errors at random positions and failing actions; compiled fallible grammars on both code generators.",
    "note": 'ToTriple mapping is exercised through the compiled parsers (Result items).',
}


def run(ctx):
    lrfamily.obligations(ctx, MODULE, THEOREMS)
    lrfamily.driver_layer(ctx, "C17")
    lrfamily.compiled_layer(ctx, "C17")
    ctx.coverage.setdefault("trusted_base", []).extend(lrfamily.TRUST_LR)
    ctx.coverage["rule"] = ("grammars from LR-biased templates, mutations and random CFGs x {lane-table, canonical LR(1), LALR}; "
                            "inputs = sampled sentences, single-token mutations, random strings, injected errors, all short strings")
    ctx.coverage["evaluations"] = ctx.coverage.get("traces_validated_against_impl", 0)
    ctx.coverage["distinct_nontrivial"] = ctx.coverage.get("driver_layer", {}).get("distinct_tables", 0) + ctx.coverage.get("compiled_layer", {}).get("grammars", 0)
    ctx.assumptions += ["token kinds handed to the driver are terminal indices (< nTerm): what __token_to_integer answers"]
