"""C21 — non-forced builds never leave a stale or foreign output."""
import json
import os

from checks import buildlayer

LEVEL = "proof"
MANIFEST = {
    "category": "proof",
    "technique": "Lean 4 theorems (induction over operation histories) about a step-level model of needs_rebuild / "
                 "process_file_into / process_dir + differential correspondence with the real lalrpop::Configuration "
                 "on random histories",
    "text": "Model/Build.lean mirrors needs_rebuild (reads only the first two lines, read_line UTF-8 check, trim), "
            "remove_old_file and the write sequence of process_file_into for an arbitrary generator, hash function and "
            "version string. Props/C21.lean proves, for every history of edits, reverts, touches, (forced) builds, "
            "directory builds, deletions and honest hand edits over any number of grammars: the invariant 'every output "
            "whose header is accepted for a grammar text is the output of that text' is preserved "
            "(inv_preserved_by_ops), a non-forced build then leaves exactly the bytes of a forced build "
            "(build_eq_forced), leaves a current file untouched (untouched_when_current) and leaves nothing after a "
            "generation error (failed_build_leaves_nothing). Each run executes random histories against the real API in "
            "scratch directories and against the compiled model and diffs presence, contents and rewrite flags after "
            "every step; the property itself is also evaluated on the real code with a forced build as oracle.",
    "note": "Assumes hash injectivity (SHA3-256 collisions not modelled) and no concurrent modification of files during "
            "a build. The generator is a parameter: the model is run with the observed outputs of forced builds. The "
            "model has one flag per repair of build/mod.rs (exact header comparison, UTF-8 tolerant header read, old "
            "output removed before the source is loaded, temp file + rename); which flags hold is re-read from the "
            "source on every run. For the original code the three deviations (white-space padded header kept, non-UTF-8 "
            "header line blocks the build, non-UTF-8 grammar keeps the old output) are theorems about the flags being "
            "off and were reproduced on the real code; for the repaired code fixed_build_eq_forced / "
            "fixed_failed_build_leaves_nothing hold without side conditions.",
}
MODULE = "LalrpopModel.Props.C21"
P = "LalrpopModel.Build."
THEOREMS = [P + t for t in [
    "inv_init", "step_inv", "inv_preserved_by_ops", "build_establishes_current", "forced_build_output",
    "build_eq_forced", "untouched_when_accepted", "untouched_when_current", "failed_build_leaves_nothing",
    "build_frame", "history_then_build_eq_forced", "buildDir_outcomes",
    "honest_of_no_exact_header", "fixed_build_eq_forced", "fixed_failed_build_leaves_nothing",
    "fixed_history_then_build_eq_forced",
    "accepts_header_variant", "padded_header_kept", "padded_header_rejected", "non_utf8_header_blocks_build",
    "non_utf8_header_rebuilds", "non_utf8_grammar_keeps_old_output",
    "build_res", "build_missing", "build_inv", "buildDir_inv", "honest_canon", "needsRebuild_canon", "accepts_exact",
]]

WHAT = {
    "ws-padded-header-kept":
        "after appending white space to a header line of a current output (e.g. `// auto-generated: \"lalrpop x.y.z\" `) "
        "a non-forced build keeps the file: it is not byte-identical to the forced output (needs_rebuild compares "
        "trimmed lines)",
    "non-utf8-header-blocks-build":
        "when the first two lines of the existing output are not valid UTF-8, needs_rebuild returns the read_line error: "
        "every non-forced build fails and the foreign file stays",
    "non-utf8-grammar-keeps-old-output":
        "a grammar file that is not valid UTF-8 makes the build fail in FileText::from_path, before remove_old_file: "
        "the output generated from the earlier text stays although the build failed",
}


def describe(op):
    w = op.split()
    def h(x):
        try:
            return bytes.fromhex(x[1:]).decode("utf-8", "backslashreplace")
        except Exception:
            return x
    if w[0] == "edit":
        return f"write g{w[1]}.lalrpop = {h(w[2])!r}"
    if w[0] == "alter":
        return f"replace the first two lines of g{w[1]}.rs by {h(w[2])!r} + {h(w[3])!r}"
    if w[0] == "setout":
        t = h(w[2])
        return f"write g{w[1]}.rs = {t[:80]!r}{'…' if len(t) > 80 else ''} ({(len(w[2]) - 1) // 2} bytes)"
    if w[0] == "def":
        return None
    if w[0] == "version":
        return None
    return {"build": "process_file (non-forced) g%s", "fbuild": "process_file (forced) g%s",
            "delout": "delete g%s.rs", "touch": "touch g%s.lalrpop"}.get(w[0], w[0] + " %s") % (" ".join(w[1:]),)


def run(ctx):
    ctx.lean_build([MODULE, "lpm_build"])
    ctx.lean_audit(MODULE, THEOREMS)
    if not ctx.quick():
        ctx.leanchecker(MODULE)
    variant, calls = buildlayer.write_sequence_variant()
    ctx.log(f"write sequence in source: {variant} {calls}")
    (exe,) = ctx.build_harness(["buildhist"])
    args = ["--seed", ctx.seed, "--n", ctx.vol(300, 5000), "--out", ctx.scratch, "--variant", variant]
    if ctx.replay_in:
        rp = json.load(open(ctx.replay_in))
        if "history" in rp:
            path = os.path.join(ctx.scratch, "replay.ops")
            open(path, "w").write("\n".join(rp["history"]) + "\n")
            args += ["--replay", path]
    rc, out, err = ctx.run_harness(exe, args)
    if rc != 0:
        ctx.fatal("harness buildhist failed: " + err[-500:])
    stats = json.loads(out.strip().splitlines()[-1])
    dis = ctx.correspond("build histories: real Configuration vs Model.Build", "lpm_build", "buildhist")
    # measured: distinct (kind of build request, observed answer) pairs
    reqs = open(os.path.join(ctx.scratch, "buildhist.req")).read().split("\n")
    imps = open(os.path.join(ctx.scratch, "buildhist.impl")).read().split("\n")
    distinct = {(r.split()[0], i) for r, i in zip(reqs, imps)
                if r and r.split()[0] in ("build", "fbuild", "builddir", "fbuilddir")}
    ctx.coverage.update({
        "evaluations": stats["steps"],
        "distinct_nontrivial": len(distinct),
        "rule": "random histories of 10–40 operations over 1–3 grammars (texts from a seeded pool of valid grammars, "
                "comment-only variants and 6 kinds of erroneous grammars; 12 kinds of header alteration; foreign files); "
                "counted as distinct non-trivial: distinct pairs (kind of build request, observed result incl. "
                "length/hash/rewritten flag of every output) among the build steps",
        "histories": stats["histories"],
        "property_checks_on_real_code": stats["property_checks"],
        "outcome_classes": stats["outcome_classes"],
        "finding_counts": stats["finding_counts"],
        "generator_distribution": stats["hist"],
        "write_sequence_in_source": variant,
        "source_calls": [f"{c}@{ln}" for c, ln in calls],
    })
    for d in dis[:5]:
        ctx.log(f"disagreement at #{d['index']}: req={d['req'][:100]} impl={d['impl']} model={d['model']}")
    # property-level findings on the real code (forced build as oracle)
    fpath = os.path.join(ctx.scratch, "buildhist.findings")
    for line in open(fpath):
        f = json.loads(line)
        kind = f["kind"]
        steps = [s for s in (describe(o) for o in f["history"]) if s]
        ctx.failing_input(
            "c21:" + kind,
            WHAT.get(kind, f"non-forced build history violates the property ({kind}): {f['detail']}"),
            {"history": f["history"], "steps": steps, "grammar_index": f["grammar"], "detail": f["detail"],
             "protocol": "operation lines of lean/LalrpopModel/Drivers/Build.lean (bytes are x<hex>); "
                         "harness/target/debug/buildhist --replay <file with the history lines> re-executes them "
                         "on the real lalrpop::Configuration in a scratch directory"})
    ctx.assumptions += [
        "hash injectivity (HashInj): two different grammar texts never have the same sha3 line",
        "the header lines contain no newline and survive read_line+trim (HeaderOk), re-checked by the driver on the real "
        "version string and on every hash line used in the run (`def hyp=true`)",
        "no concurrent modification of grammar or output files while a build runs",
        "the generator is deterministic (C20): the forced build used as oracle is run once per grammar text",
    ]
